import StreamzVerif.Proofs.Window
/-!
Helper lemmas for C07, part 2: finite maps (`add`/`sub` with `fill_value=0`, `groupby().agg`,
boolean masks), `value_counts`, `diff_align`, and the group-by accumulator.  Core Lean only.
-/
namespace StreamzVerif.Window
section FMapLemmas
variable {κ V : Type} [DecidableEq κ]

theorem find_append (m₁ m₂ : FMap κ V) (k : κ) :
    FMap.find (m₁ ++ m₂) k = (FMap.find m₁ k).orElse (fun _ => FMap.find m₂ k) := by
  induction m₁ with
  | nil => simp [FMap.find]
  | cons p m ih =>
    obtain ⟨k', v⟩ := p
    simp only [List.cons_append, FMap.find]
    split <;> simp [ih]

theorem find_map_val {W : Type} (g : κ → V → W) (m : FMap κ V) (k : κ) :
    FMap.find (m.map (fun p => (p.1, g p.1 p.2))) k = (FMap.find m k).map (g k) := by
  induction m with
  | nil => simp [FMap.find]
  | cons p m ih =>
    obtain ⟨k', v⟩ := p
    simp only [List.map_cons, FMap.find]
    split
    · next h => subst h; simp
    · exact ih

theorem find_filter_key (q : κ → Bool) (m : FMap κ V) (k : κ) :
    FMap.find (m.filter (fun p => q p.1)) k = if q k then FMap.find m k else none := by
  induction m with
  | nil => simp [FMap.find]
  | cons p m ih =>
    obtain ⟨k', v⟩ := p
    simp only [List.filter_cons]
    by_cases hq : q k'
    · simp only [hq, ↓reduceIte, FMap.find]
      split
      · next h => subst h; simp [hq]
      · exact ih
    · simp only [hq, Bool.false_eq_true, ↓reduceIte, FMap.find]
      by_cases hk : k' = k
      · subst hk; simp [hq, ih]
      · simp [hk, ih]

theorem find_keepKeys (q : κ → Bool) (m : FMap κ V) (k : κ) :
    FMap.find (keepKeys q m) k = if q k then FMap.find m k else none := find_filter_key q m k

/-- Lookup in `acc.add(d, fill_value=0)` / `acc.sub(d, fill_value=0)`. -/
theorem find_combine (op : V → V → V) (zero : V) (acc d : FMap κ V) (k : κ) :
    FMap.find (combine op zero acc d) k =
      match FMap.find acc k, FMap.find d k with
      | some a, some b => some (op a b)
      | some a, none => some (op a zero)
      | none, some b => some (op zero b)
      | none, none => none := by
  unfold combine
  rw [find_append]
  have h1 := find_map_val (fun k v => op v ((FMap.find d k).getD zero)) acc k
  have h2 := find_map_val (fun _ v => op zero v) (d.filter (fun p => (FMap.find acc p.1).isNone)) k
  have h3 := find_filter_key (fun k => (FMap.find acc k).isNone) d k
  rw [h1, h2, h3]
  cases ha : FMap.find acc k <;> cases hd : FMap.find d k <;> simp

theorem mem_dedup (a : κ) (l : List κ) : a ∈ dedup l ↔ a ∈ l := by
  induction l generalizing a with
  | nil => simp [dedup]
  | cons b l ih =>
    unfold dedup
    split
    · next h =>
      rw [ih] at h; simp only [ih, List.mem_cons]; constructor
      · exact Or.inr
      · rintro (rfl | h') <;> assumption
    · simp [ih]

theorem nodup_dedup (l : List κ) : (dedup l).Nodup := by
  induction l with
  | nil => simp [dedup]
  | cons b l ih =>
    unfold dedup
    split
    · exact ih
    · next h => exact List.nodup_cons.mpr ⟨h, ih⟩

theorem find_map_keys (g : κ → V) (l : List κ) (k : κ) :
    FMap.find (l.map (fun k => (k, g k))) k = if k ∈ l then some (g k) else none := by
  induction l with
  | nil => simp [FMap.find]
  | cons a l ih =>
    simp only [List.map_cons, FMap.find, List.mem_cons]
    split
    · next h => subst h; simp
    · next h =>
      rw [ih]
      have : ¬ k = a := fun e => h e.symm
      simp [this]

/-- Lookup in `df.groupby(kf)[col].agg(f)`: present iff some row carries the label. -/
theorem find_gmap (kf : Row → Option κ) (f : Batch → V) (b : Batch) (k : κ) :
    FMap.find (gmap kf f b) k =
      if ∃ r ∈ b, kf r = some k then some (f (b.filter (fun r => kf r = some k))) else none := by
  unfold gmap
  rw [find_map_keys (fun k => f (b.filter (fun r => kf r = some k)))]
  simp only [mem_dedup, List.mem_filterMap]

end FMapLemmas

theorem fun_add_apply {κ M : Type} [CGroup M] (f g : κ → M) (k : κ) : (f + g) k = f k + g k := rfl
theorem fun_sub_apply {κ M : Type} [CGroup M] (f g : κ → M) (k : κ) : (f - g) k = f k - g k := rfl
theorem fun_zero_apply {κ M : Type} [CGroup M] (k : κ) : (0 : κ → M) k = 0 := rfl

section Get0
variable {κ V : Type} [DecidableEq κ]

/-- `series.get(k, 0)` -/
def get0 (zero : V) (m : FMap κ V) (k : κ) : V := (FMap.find m k).getD zero

theorem get0_combine (op : V → V → V) (zero : V) (hop : op zero zero = zero) (acc d : FMap κ V) (k : κ) :
    get0 zero (combine op zero acc d) k = op (get0 zero acc k) (get0 zero d k) := by
  unfold get0
  rw [find_combine]
  cases FMap.find acc k <;> cases FMap.find d k <;> simp [hop]

theorem get0_gmap (kf : Row → Option κ) (f : Batch → V) (zero : V) (hf : f [] = zero) (b : Batch) (k : κ) :
    get0 zero (gmap kf f b) k = f (b.filter (fun r => kf r = some k)) := by
  unfold get0
  rw [find_gmap]
  split
  · rfl
  · next h =>
    have : b.filter (fun r => decide (kf r = some k)) = [] := by
      apply List.filter_eq_nil_iff.mpr
      intro r hr
      simp only [decide_eq_true_eq]
      intro he; exact h ⟨r, hr, he⟩
    simp [this, hf]
end Get0

/-- Number of rows of `b` whose value is `v`, for every `v`: the measure behind `value_counts`. -/
def vcMeas (b : Batch) : Rat → Int := fun v => size (b.filter (fun r => r.val = some v))

theorem ValueCounts.represents :
    Represents ValueCounts.ops vcMeas (fun m s => ∀ v, get0 0 s v = m v) (fun m r => ∀ v, get0 0 r v = m v) where
  meas_nil := rfl
  meas_append := by
    intro a b; funext v
    simp only [vcMeas, fun_add_apply, List.filter_append, size_append]
  init := by intro v; rfl
  onNew := by
    intro m s b hs
    have : ∀ v, get0 0 (combine (· + ·) 0 s (gmap (fun r => r.val) size b)) v = (m + vcMeas b) v := by
      intro v
      rw [get0_combine _ _ (by rfl), get0_gmap _ _ _ (by rfl), hs v]; rfl
    exact ⟨this, this⟩
  onOld := by
    intro m s b hs
    have : ∀ v, get0 0 (combine (· - ·) 0 s (gmap (fun r => r.val) size b)) v = (m - vcMeas b) v := by
      intro v
      rw [get0_combine _ _ (by rfl), get0_gmap _ _ _ (by rfl), hs v]; rfl
    exact ⟨this, this⟩


/-! ### diff_align -/

theorem popExtra_spec {β : Type} (popped rest : List (List β)) :
    popExtra rest.length (popped ++ rest) = (popped, rest) := by
  induction popped with
  | nil =>
    cases rest with
    | nil => rfl
    | cons g gs => simp [popExtra]
  | cons p ps ih =>
    simp only [List.cons_append, popExtra]
    have : rest.length < (p :: (ps ++ rest)).length := by simp; omega
    simp only [this, ↓reduceIte, ih]

theorem diffAlign_popped {β : Type} (popped rest : List (List β)) :
    diffAlign (rest.map List.length) (popped ++ rest) = some (popped, rest) := by
  unfold diffAlign
  have := popExtra_spec popped rest
  simp only [List.length_map, this]
  cases rest with
  | nil => simp
  | cons g gs => simp

theorem diffAlign_cut {β : Type} (popped tl : List (List β)) (p r : List β) (hp : p ≠ []) :
    diffAlign ((r :: tl).map List.length) (popped ++ (p ++ r) :: tl) = some (popped ++ [p], r :: tl) := by
  unfold diffAlign
  have := popExtra_spec popped ((p ++ r) :: tl)
  simp only [List.length_cons] at this
  simp only [List.length_map, List.length_cons, this, List.map_cons]
  have hn : (p ++ r).length - r.length = p.length := by simp
  have hp' : p.length ≠ 0 := by
    intro he; exact hp (List.length_eq_zero_iff.mp he)
  simp only [hn, ne_eq, hp', not_false_eq_true, ↓reduceIte]
  simp

theorem map_length_map_map {α β : Type} (f : α → β) (l : List (List α)) :
    (l.map (List.map f)).map List.length = l.map List.length := by
  induction l with
  | nil => rfl
  | cons a l ih => simp [ih]

/-- **`diff_align` follows `diff`**: when the decayed pieces were produced by popping whole frames
and then splitting the front one (`Shape`), `diff_align` applied to the grouper history (kept in
step with the frames) passes both assertions, returns exactly the groupers of the decayed
pieces, and leaves the history in step with the retained frames. -/
theorem diffAlign_of_shape {α β : Type} (f : α → β) {dfs0 dfs' old : List (List α)}
    (h : Shape dfs0 dfs' old) :
    diffAlign (dfs'.map List.length) (dfs0.map (List.map f)) =
      some (old.map (List.map f), dfs'.map (List.map f)) := by
  obtain ⟨popped, rest, h0, h⟩ := h
  rw [← map_length_map_map f dfs']
  rcases h with ⟨h1, h2⟩ | ⟨p, r, tl, hp, hr, h1, h2, h3⟩
  · rw [h0, h1, h2, List.map_append]; exact diffAlign_popped _ _
  · rw [h0, h1, h2, h3]
    simp only [List.map_append, List.map_cons, List.map_nil]
    exact diffAlign_cut _ _ _ _ (by simpa using hp)

theorem pushNew_map {α β : Type} (g : List α → List β) (hg : ∀ l, (g l).length = l.length)
    (dfs : List (List α)) (new : List α) :
    (pushNew dfs new).map g = pushNew (dfs.map g) (g new) := by
  unfold pushNew
  rw [hg]
  split <;> simp

theorem regroup_self (b : Batch) : regroup b (b.map (·.key)) = b := by
  unfold regroup
  induction b with
  | nil => rfl
  | cons r b ih => simp only [List.map_cons, List.zipWith_cons_cons, ih]

theorem zipWith_regroup_self (old : List Batch) :
    List.zipWith regroup old (old.map (List.map (·.key))) = old := by
  induction old with
  | nil => rfl
  | cons o os ih => simp only [List.map_cons, List.zipWith_cons_cons, regroup_self, ih]



/-! ### Group-by states -/

/-- The per-key measure: the moments of the rows carrying key `k`. -/
def gmeas (b : List Row) : Int → Mom := fun k => mom (b.filter (fun r => r.key = k))

/-- Key `k` occurs among the rows. -/
def keyIn (b : List Row) (k : Int) : Prop := ∃ r ∈ b, r.key = k

theorem gmeas_nil : gmeas [] = 0 := rfl

theorem gmeas_append (a b : List Row) : gmeas (a ++ b) = gmeas a + gmeas b := by
  funext k
  simp only [gmeas, fun_add_apply, List.filter_append, mom_append]

theorem gmeas_of_not_keyIn {b : List Row} {k : Int} (h : ¬ keyIn b k) : gmeas b k = 0 := by
  have : b.filter (fun r => decide (r.key = k)) = [] := by
    apply List.filter_eq_nil_iff.mpr
    intro r hr
    simp only [decide_eq_true_eq]
    intro he; exact h ⟨r, hr, he⟩
  simp only [gmeas, this]; rfl

/-- A Series-valued component of a group-by state (or a group-by result): indexed exactly by the
keys in `K`, holding `π` of the measure. -/
def RepC {V : Type} (π : Mom → V) (m : Int → Mom) (K : Int → Prop) (s : FMap Int V) : Prop :=
  ∀ k, (K k → FMap.find s k = some (π (m k))) ∧ (¬ K k → FMap.find s k = none)

/-- Outside the key set the measure vanishes. -/
def Supp (m : Int → Mom) (K : Int → Prop) : Prop := ∀ k, ¬ K k → m k = 0

theorem RepC.congr {V : Type} {π : Mom → V} {m m' : Int → Mom} {K K' : Int → Prop} {s : FMap Int V}
    (h : RepC π m K s) (hm : ∀ k, K k → m k = m' k) (hK : ∀ k, K k ↔ K' k) : RepC π m' K' s := by
  intro k
  refine ⟨fun hk => ?_, fun hk => (h k).2 (fun h' => hk ((hK k).mp h'))⟩
  have hk' := (hK k).mpr hk
  rw [← hm k hk']; exact (h k).1 hk'

/-- `acc.add(g.agg(f), fill_value=0)` / `acc.sub(...)` on one component. -/
theorem combine_repC {V : Type} (π : Mom → V) (op : V → V → V) (zero : V) (mop : Mom → Mom → Mom)
    (hz : π 0 = zero) (hπ : ∀ a b, π (mop a b) = op (π a) (π b))
    (f : Batch → V) (hf : ∀ b, f b = π (mom b))
    (m : Int → Mom) (K : Int → Prop) (s : FMap Int V) (b : Batch) (hs : Supp m K) (h : RepC π m K s) :
    RepC π (fun k => mop (m k) (gmeas b k)) (fun k => K k ∨ keyIn b k)
      (combine op zero s (gmap byKey f b)) := by
  intro k
  have hfind := find_combine op zero s (gmap byKey f b) k
  rw [find_gmap] at hfind
  have hfilter : b.filter (fun r => decide (byKey r = some k)) = b.filter (fun r => decide (r.key = k)) := by
    apply List.filter_congr; intro r _; simp [byKey]
  have hex : (∃ r ∈ b, byKey r = some k) ↔ keyIn b k := by
    simp [keyIn, byKey]
  rw [hfind]
  by_cases hK : K k <;> by_cases hb : keyIn b k
  · rw [(h k).1 hK, if_pos (hex.mpr hb), hfilter, hf]
    exact ⟨fun _ => by rw [hπ]; rfl, fun hn => absurd (Or.inl hK) hn⟩
  · rw [(h k).1 hK, if_neg (fun e => hb (hex.mp e))]
    refine ⟨fun _ => ?_, fun hn => absurd (Or.inl hK) hn⟩
    simp only [hπ, gmeas_of_not_keyIn hb, hz]
  · rw [(h k).2 hK, if_pos (hex.mpr hb), hfilter, hf]
    refine ⟨fun _ => ?_, fun hn => absurd (Or.inr hb) hn⟩
    simp only [hπ, hs k hK, hz]; rfl
  · rw [(h k).2 hK, if_neg (fun e => hb (hex.mp e))]
    exact ⟨fun hn => by rcases hn with hn | hn <;> contradiction, fun _ => rfl⟩

/-- `series[mask]` on one component. -/
theorem keep_repC {V : Type} (π : Mom → V) (m : Int → Mom) (K : Int → Prop) (s : FMap Int V)
    (q : Int → Bool) (h : RepC π m K s) :
    RepC π m (fun k => K k ∧ q k = true) (keepKeys q s) := by
  intro k
  rw [find_keepKeys]
  by_cases hq : q k = true
  · simp only [hq, ↓reduceIte, and_true]; exact h k
  · simp only [hq, Bool.false_eq_true, ↓reduceIte, and_false, not_false_eq_true, implies_true, and_true]
    intro hf; exact absurd hf (by simp)

/-- Element-wise map of a component, aligned on the label (`totals / counts`, `_compute_result`). -/
theorem map_repC {V R : Type} (π : Mom → V) (ρ : Mom → R) (g : Int → V → R)
    (m : Int → Mom) (K : Int → Prop) (s : FMap Int V)
    (hg : ∀ k, K k → g k (π (m k)) = ρ (m k)) (h : RepC π m K s) :
    RepC ρ m K (s.map (fun p => (p.1, g p.1 p.2))) := by
  intro k
  rw [find_map_val]
  refine ⟨fun hk => ?_, fun hk => ?_⟩
  · rw [(h k).1 hk]; simp [hg k hk]
  · rw [(h k).2 hk]; rfl

theorem supp_step (mop : Mom → Mom → Mom) (h0 : mop 0 0 = 0) (m : Int → Mom) (K : Int → Prop) (b : List Row)
    (hs : Supp m K) : Supp (fun k => mop (m k) (gmeas b k)) (fun k => K k ∨ keyIn b k) := by
  intro k hk
  have h1 : ¬ K k := fun h => hk (Or.inl h)
  have h2 : ¬ keyIn b k := fun h => hk (Or.inr h)
  simp only [hs k h1, gmeas_of_not_keyIn h2, h0]

theorem mom_zero_add : (0 : Mom) + 0 = 0 := CGroup.add_zero 0
theorem mom_zero_sub : (0 : Mom) - 0 = 0 := CGroup.sub_zero 0

/-- A group-by aggregation *represents* the per-key measure. -/
structure GRepresents {S R : Type} (ops : GOps S R) (Rep : (Int → Mom) → (Int → Prop) → S → Prop)
    (res : Mom → R) : Prop where
  init : Rep 0 (fun _ => False) ops.initial
  congr : ∀ m m' K K' s, Rep m K s → (∀ k, K k → m k = m' k) → (∀ k, K k ↔ K' k) → Rep m' K' s
  onNew : ∀ m K s b, Supp m K → Rep m K s →
    Rep (m + gmeas b) (fun k => K k ∨ keyIn b k) (ops.onNew s b).1 ∧
    RepC res (m + gmeas b) (fun k => K k ∨ keyIn b k) (ops.onNew s b).2
  onOld : ∀ m K s o, Supp m K → Rep m K s →
    Rep (m - gmeas o) (fun k => K k ∨ keyIn o k) (ops.onOld s o).1 ∧
    RepC res (m - gmeas o) (fun k => K k ∨ keyIn o k) (ops.onOld s o).2
  keep : ∀ m K s q, Rep m K s → Rep m (fun k => K k ∧ q k = true) (ops.keep q s)

/-- Shared shape of the five instances: one component with `acc.add / acc.sub`. -/
theorem single_represents {V : Type} (π : Mom → V) (zero : V) (add sub : V → V → V) (f : Batch → V)
    (hz : π 0 = zero) (hadd : ∀ a b, π (a + b) = add (π a) (π b)) (hsub : ∀ a b, π (a - b) = sub (π a) (π b))
    (hf : ∀ b, f b = π (mom b)) :
    GRepresents
      { initial := [],
        onNew := fun acc new => let r := combine add zero acc (gmap byKey f new); (r, r),
        onOld := fun acc old => let r := combine sub zero acc (gmap byKey f old); (r, r),
        keep := keepKeys } (RepC π) π where
  init := by intro k; exact ⟨fun h => h.elim, fun _ => rfl⟩
  congr := fun _ _ _ _ _ h hm hK => h.congr hm hK
  onNew := by
    intro m K s b hs h
    have := combine_repC π add zero (· + ·) hz hadd f hf m K s b hs h
    exact ⟨this, this⟩
  onOld := by
    intro m K s b hs h
    have := combine_repC π sub zero (· - ·) hz hsub f hf m K s b hs h
    exact ⟨this, this⟩
  keep := fun m K s q h => keep_repC π m K s q h

theorem GroupbySum.represents : GRepresents GroupbySum.ops (RepC Mom.s) Mom.s :=
  single_represents Mom.s 0 (· + ·) (· - ·) sumV rfl (fun _ _ => rfl) (fun _ _ => rfl) (fun _ => rfl)
theorem GroupbyCount.represents : GRepresents GroupbyCount.ops (RepC Mom.c) Mom.c :=
  single_represents Mom.c 0 (· + ·) (· - ·) cnt rfl (fun _ _ => rfl) (fun _ _ => rfl) (fun _ => rfl)
theorem GroupbySize.represents : GRepresents GroupbySize.ops (RepC Mom.n) Mom.n :=
  single_represents Mom.n 0 (· + ·) (· - ·) size rfl (fun _ _ => rfl) (fun _ _ => rfl) (fun _ => rfl)



theorem rep_unchanged {V : Type} {π : Mom → V} {m : Int → Mom} {K : Int → Prop} {s : FMap Int V}
    (mop : Mom → Mom → Mom) (h0 : ∀ x, mop x 0 = x) (h : RepC π m K s) :
    RepC π (fun k => mop (m k) (gmeas [] k)) (fun k => K k ∨ keyIn [] k) s := by
  apply h.congr
  · intro k _; simp only [gmeas_nil, fun_zero_apply, h0]
  · intro k; simp [keyIn]

theorem GroupbyMean.represents :
    GRepresents GroupbyMean.ops (fun m K s => RepC Mom.s m K s.1 ∧ RepC Mom.c m K s.2)
      (fun mm => divOpt mm.s mm.c) where
  init := ⟨fun k => ⟨fun h => h.elim, fun _ => rfl⟩, fun k => ⟨fun h => h.elim, fun _ => rfl⟩⟩
  congr := fun _ _ _ _ _ h hm hK => ⟨h.1.congr hm hK, h.2.congr hm hK⟩
  onNew := by
    intro m K s b hs ⟨h1, h2⟩
    have t := combine_repC Mom.s (· + ·) 0 (· + ·) rfl (fun _ _ => rfl) sumV (fun _ => rfl) m K s.1 b hs h1
    have c := combine_repC Mom.c (· + ·) 0 (· + ·) rfl (fun _ _ => rfl) cnt (fun _ => rfl) m K s.2 b hs h2
    refine ⟨⟨t, c⟩, ?_⟩
    refine map_repC Mom.s (fun mm => divOpt mm.s mm.c)
      (fun k v => divOpt v ((FMap.find (combine (· + ·) 0 s.2 (gmap byKey cnt b)) k).getD 0)) _ _ _ ?_ t
    intro k hk
    simp only [(c k).1 hk, Option.getD_some]; rfl
  onOld := by
    intro m K s b hs ⟨h1, h2⟩
    have t := combine_repC Mom.s (· - ·) 0 (· - ·) rfl (fun _ _ => rfl) sumV (fun _ => rfl) m K s.1 b hs h1
    have c := combine_repC Mom.c (· - ·) 0 (· - ·) rfl (fun _ _ => rfl) cnt (fun _ => rfl) m K s.2 b hs h2
    refine ⟨⟨t, c⟩, ?_⟩
    refine map_repC Mom.s (fun mm => divOpt mm.s mm.c)
      (fun k v => divOpt v ((FMap.find (combine (· - ·) 0 s.2 (gmap byKey cnt b)) k).getD 0)) _ _ _ ?_ t
    intro k hk
    simp only [(c k).1 hk, Option.getD_some]; rfl
  keep := fun m K s q h => ⟨keep_repC _ m K s.1 q h.1, keep_repC _ m K s.2 q h.2⟩

theorem GroupbyVar.represents (ddof : Int) :
    GRepresents (GroupbyVar.ops ddof)
      (fun m K s => RepC Mom.s m K s.1 ∧ RepC Mom.q m K s.2.1 ∧ RepC Mom.c m K s.2.2)
      (fun mm => varRes ddof mm.s mm.q mm.c) where
  init := ⟨fun k => ⟨fun h => h.elim, fun _ => rfl⟩, fun k => ⟨fun h => h.elim, fun _ => rfl⟩,
           fun k => ⟨fun h => h.elim, fun _ => rfl⟩⟩
  congr := fun _ _ _ _ _ h hm hK => ⟨h.1.congr hm hK, h.2.1.congr hm hK, h.2.2.congr hm hK⟩
  onNew := by
    intro m K s b hs ⟨h1, h2, h3⟩
    obtain ⟨x, x2, n⟩ := s
    simp only at h1 h2 h3
    simp only [GroupbyVar.ops]
    have key : ∀ x' x2' n', RepC Mom.s (m + gmeas b) (fun k => K k ∨ keyIn b k) x' →
        RepC Mom.q (m + gmeas b) (fun k => K k ∨ keyIn b k) x2' →
        RepC Mom.c (m + gmeas b) (fun k => K k ∨ keyIn b k) n' →
        RepC (fun mm => varRes ddof mm.s mm.q mm.c) (m + gmeas b) (fun k => K k ∨ keyIn b k) (gvarRes ddof x' x2' n') := by
      intro x' x2' n' a1 a2 a3
      refine map_repC Mom.s (fun mm => varRes ddof mm.s mm.q mm.c)
        (fun k v => varRes ddof v ((FMap.find x2' k).getD 0) ((FMap.find n' k).getD 0)) _ _ _ ?_ a1
      intro k hk
      simp only [(a2 k).1 hk, (a3 k).1 hk, Option.getD_some]
    split
    · have a1 := combine_repC Mom.s (· + ·) 0 (· + ·) rfl (fun _ _ => rfl) sumV (fun _ => rfl) m K x b hs h1
      have a2 := combine_repC Mom.q (· + ·) 0 (· + ·) rfl (fun _ _ => rfl) sumSq (fun _ => rfl) m K x2 b hs h2
      have a3 := combine_repC Mom.c (· + ·) 0 (· + ·) rfl (fun _ _ => rfl) cnt (fun _ => rfl) m K n b hs h3
      exact ⟨⟨a1, a2, a3⟩, key _ _ _ a1 a2 a3⟩
    · next hlen =>
      have hb : b = [] := len_zero_of_not_pos hlen
      subst hb
      have a1 := rep_unchanged (· + ·) CGroup.add_zero h1
      have a2 := rep_unchanged (· + ·) CGroup.add_zero h2
      have a3 := rep_unchanged (· + ·) CGroup.add_zero h3
      exact ⟨⟨a1, a2, a3⟩, key _ _ _ a1 a2 a3⟩
  onOld := by
    intro m K s b hs ⟨h1, h2, h3⟩
    obtain ⟨x, x2, n⟩ := s
    simp only at h1 h2 h3
    simp only [GroupbyVar.ops]
    have key : ∀ x' x2' n', RepC Mom.s (m - gmeas b) (fun k => K k ∨ keyIn b k) x' →
        RepC Mom.q (m - gmeas b) (fun k => K k ∨ keyIn b k) x2' →
        RepC Mom.c (m - gmeas b) (fun k => K k ∨ keyIn b k) n' →
        RepC (fun mm => varRes ddof mm.s mm.q mm.c) (m - gmeas b) (fun k => K k ∨ keyIn b k) (gvarRes ddof x' x2' n') := by
      intro x' x2' n' a1 a2 a3
      refine map_repC Mom.s (fun mm => varRes ddof mm.s mm.q mm.c)
        (fun k v => varRes ddof v ((FMap.find x2' k).getD 0) ((FMap.find n' k).getD 0)) _ _ _ ?_ a1
      intro k hk
      simp only [(a2 k).1 hk, (a3 k).1 hk, Option.getD_some]
    split
    · have a1 := combine_repC Mom.s (· - ·) 0 (· - ·) rfl (fun _ _ => rfl) sumV (fun _ => rfl) m K x b hs h1
      have a2 := combine_repC Mom.q (· - ·) 0 (· - ·) rfl (fun _ _ => rfl) sumSq (fun _ => rfl) m K x2 b hs h2
      have a3 := combine_repC Mom.c (· - ·) 0 (· - ·) rfl (fun _ _ => rfl) cnt (fun _ => rfl) m K n b hs h3
      exact ⟨⟨a1, a2, a3⟩, key _ _ _ a1 a2 a3⟩
    · next hlen =>
      have hb : b = [] := len_zero_of_not_pos hlen
      subst hb
      have a1 := rep_unchanged (· - ·) CGroup.sub_zero h1
      have a2 := rep_unchanged (· - ·) CGroup.sub_zero h2
      have a3 := rep_unchanged (· - ·) CGroup.sub_zero h3
      exact ⟨⟨a1, a2, a3⟩, key _ _ _ a1 a2 a3⟩
  keep := fun m K s q h => ⟨keep_repC _ m K s.1 q h.1, keep_repC _ m K s.2.1 q h.2.1, keep_repC _ m K s.2.2 q h.2.2⟩



/-! ### windowed_groupby_accumulator -/

theorem keyIn_append (a b : List Row) (k : Int) : keyIn (a ++ b) k ↔ keyIn a k ∨ keyIn b k := by
  simp only [keyIn, List.mem_append]
  constructor
  · rintro ⟨r, hr | hr, he⟩
    · exact Or.inl ⟨r, hr, he⟩
    · exact Or.inr ⟨r, hr, he⟩
  · rintro (⟨r, hr, he⟩ | ⟨r, hr, he⟩)
    · exact ⟨r, Or.inl hr, he⟩
    · exact ⟨r, Or.inr hr, he⟩

theorem supp_gmeas (W : List Row) : Supp (gmeas W) (keyIn W) := fun _ hk => gmeas_of_not_keyIn hk

theorem gfoldOld_rep {S R : Type} {ops : GOps S R} {Rep : (Int → Mom) → (Int → Prop) → S → Prop}
    {res : Mom → R} (hG : GRepresents ops Rep res)
    (old : List Batch) (m : Int → Mom) (K : Int → Prop) (sr : S × FMap Int R)
    (hs : Supp m K) (h : Rep m K sr.1 ∧ RepC res m K sr.2) :
    let sr' := old.foldl (fun sr o => if o.length > 0 then ops.onOld sr.1 o else sr) sr
    Rep (m - gmeas old.flatten) (fun k => K k ∨ keyIn old.flatten k) sr'.1 ∧
    RepC res (m - gmeas old.flatten) (fun k => K k ∨ keyIn old.flatten k) sr'.2 := by
  induction old generalizing m K sr with
  | nil =>
    simp only [List.foldl_nil, List.flatten_nil]
    have e1 : ∀ k, K k → m k = (m - gmeas []) k := by
      intro k _; simp only [fun_sub_apply, gmeas_nil, fun_zero_apply, CGroup.sub_zero]
    have e2 : ∀ k, K k ↔ (K k ∨ keyIn [] k) := by intro k; simp [keyIn]
    exact ⟨hG.congr _ _ _ _ _ h.1 e1 e2, h.2.congr e1 e2⟩
  | cons o os ih =>
    simp only [List.foldl_cons, List.flatten_cons]
    have e1 : ∀ (m' : Int → Mom) k, (m' - gmeas o - gmeas os.flatten) k = (m' - gmeas (o ++ os.flatten)) k := by
      intro m' k
      simp only [fun_sub_apply, gmeas_append, fun_add_apply, CGroup.sub_sub]
    split
    · have h1 := hG.onOld m K sr.1 o hs h.1
      have hs1 : Supp (m - gmeas o) (fun k => K k ∨ keyIn o k) :=
        supp_step (· - ·) mom_zero_sub m K o hs
      have h2 := ih (m - gmeas o) (fun k => K k ∨ keyIn o k) (ops.onOld sr.1 o) hs1 h1
      simp only at h2
      have e2 : ∀ k, ((K k ∨ keyIn o k) ∨ keyIn os.flatten k) ↔ (K k ∨ keyIn (o ++ os.flatten) k) := by
        intro k; rw [keyIn_append, or_assoc]
      exact ⟨hG.congr _ _ _ _ _ h2.1 (fun k _ => e1 m k) e2, h2.2.congr (fun k _ => e1 m k) e2⟩
    · next hlen =>
      have : o = [] := len_zero_of_not_pos hlen
      subst this
      simpa using ih m K sr hs h

theorem foldl_pair {A B C : Type} (c : C → Prop) [DecidablePred c] (f : A → C → A) (g : B → C → B)
    (l : List C) (a : A) (b : B) :
    l.foldl (fun (p : A × B) o => if c o then (f p.1 o, g p.2 o) else p) (a, b) =
      (l.foldl (fun a o => if c o then f a o else a) a, l.foldl (fun b o => if c o then g b o else b) b) := by
  induction l generalizing a b with
  | nil => rfl
  | cons x l ih =>
    simp only [List.foldl_cons]
    split <;> exact ih _ _

/-- The grouper side never fails and hands the aggregation exactly the decayed pieces. -/
theorem alignGroupers_spec (sg : Bool) (dfs : List Batch) (new : Batch) (dfs' old : List Batch)
    (hshape : Shape (pushNew dfs new) dfs' old) :
    alignGroupers (if sg then some (dfs.map (List.map (·.key))) else none) (new.map (·.key)) dfs' old =
      some (old, if sg then some (dfs'.map (List.map (·.key))) else none) := by
  cases sg with
  | false => rfl
  | true =>
    simp only [alignGroupers, ↓reduceIte]
    have hpush : (if (new.map (·.key)).length > 0 then dfs.map (List.map (·.key)) ++ [new.map (·.key)]
        else dfs.map (List.map (·.key))) = (pushNew dfs new).map (List.map (·.key)) := by
      rw [pushNew_map (List.map Row.key) (fun l => List.length_map _)]
      rfl
    rw [hpush, diffAlign_of_shape (·.key) hshape]
    simp only [map_length_map_map, ↓reduceIte, zipWith_regroup_self]

theorem find_mem {κ V : Type} [DecidableEq κ] {m : FMap κ V} {k : κ} {v : V} (h : FMap.find m k = some v) :
    (k, v) ∈ m := by
  induction m with
  | nil => simp [FMap.find] at h
  | cons p m ih =>
    obtain ⟨k', v'⟩ := p
    simp only [FMap.find] at h
    split at h
    · next he => subst he; simp only [Option.some.injEq] at h; subst h; exact List.mem_cons_self
    · exact List.mem_cons_of_mem _ (ih h)

/-- Lines 392-399: after the keys whose size reached 0 are dropped, state, size-state and result
are indexed exactly by the keys that still have a row in the window. -/
theorem dropVanished_spec {S R : Type} {ops : GOps S R} {Rep : (Int → Mom) → (Int → Prop) → S → Prop}
    {res : Mom → R} (hG : GRepresents ops Rep res) (W : List Row) (K : Int → Prop)
    (hK : ∀ k, keyIn W k → K k)
    (state : S) (result : FMap Int R) (sizeState : FMap Int Int)
    (h1 : Rep (gmeas W) K state) (h2 : RepC res (gmeas W) K result) (h3 : RepC Mom.n (gmeas W) K sizeState) :
    let fin := dropVanished ops state result sizeState
    Rep (gmeas W) (keyIn W) fin.1 ∧ RepC res (gmeas W) (keyIn W) fin.2.1 ∧
      RepC Mom.n (gmeas W) (keyIn W) fin.2.2 := by
  -- `nonzero k` holds exactly for the keys with a row in the window
  have hnz : ∀ k, K k → (((FMap.find sizeState k).getD 0 != 0) = true ↔ keyIn W k) := by
    intro k hk
    rw [(h3 k).1 hk]
    simp only [Option.getD_some, bne_iff_ne, ne_eq]
    constructor
    · intro hne
      apply Classical.byContradiction
      intro hnot
      apply hne
      rw [gmeas_of_not_keyIn hnot]; rfl
    · rintro ⟨r, hr, he⟩ h0
      have hmem : r ∈ W.filter (fun r => decide (r.key = k)) := List.mem_filter.mpr ⟨hr, by simpa using he⟩
      have hlen : (W.filter (fun r => decide (r.key = k))).length = 0 := by
        have : ((W.filter (fun r => decide (r.key = k))).length : Int) = 0 := h0
        omega
      rw [List.length_eq_zero_iff.mp hlen] at hmem
      simp at hmem
  simp only [dropVanished]
  split
  · next hall =>
    have e2 : ∀ k, K k ↔ keyIn W k := by
      intro k
      refine ⟨fun hk => ?_, hK k⟩
      have hf := (h3 k).1 hk
      have hmem := find_mem hf
      have := List.all_eq_true.mp hall _ hmem
      exact (hnz k hk).mp this
    exact ⟨hG.congr _ _ _ _ _ h1 (fun _ _ => rfl) e2, h2.congr (fun _ _ => rfl) e2, h3.congr (fun _ _ => rfl) e2⟩
  · have e2 : ∀ k, (K k ∧ ((FMap.find sizeState k).getD 0 != 0) = true) ↔ keyIn W k := by
      intro k
      constructor
      · rintro ⟨hk, hq⟩; exact (hnz k hk).mp hq
      · intro hk; exact ⟨hK k hk, (hnz k (hK k hk)).mpr hk⟩
    exact ⟨hG.congr _ _ _ _ _ (hG.keep _ _ _ _ h1) (fun _ _ => rfl) e2,
      (keep_repC _ _ _ _ _ h2).congr (fun _ _ => rfl) e2, (keep_repC _ _ _ _ _ h3).congr (fun _ _ => rfl) e2⟩



/-- What is known about the accumulator of `windowed_groupby_accumulator` after the rows `H`. -/
structure GState {S : Type} (Rep : (Int → Mom) → (Int → Prop) → S → Prop) (d : Diff) (sg : Bool)
    (a : GAcc S) (H : List Row) : Prop where
  dfs : DfsInv d a.dfs H
  grp : a.groupers = if sg then some (a.dfs.map (List.map (·.key))) else none
  st : Rep (gmeas a.dfs.flatten) (keyIn a.dfs.flatten) a.state
  sz : RepC Mom.n (gmeas a.dfs.flatten) (keyIn a.dfs.flatten) a.sizeState

def GAcc.init {S R : Type} (ops : GOps S R) (sg : Bool) : GAcc S :=
  { dfs := [], state := ops.initial, sizeState := GroupbySize.ops.initial,
    groupers := if sg then some [] else none }

theorem groupbyAcc_none {S R : Type} (d : Diff) (ops : GOps S R) (sg : Bool) (new : Batch) :
    groupbyAcc d ops sg none new = groupbyAcc d ops sg (some (GAcc.init ops sg)) new := rfl

theorem GState.init {S R : Type} {ops : GOps S R} {Rep : (Int → Mom) → (Int → Prop) → S → Prop}
    {res : Mom → R} (hG : GRepresents ops Rep res) (d : Diff) (sg : Bool) :
    GState Rep d sg (GAcc.init ops sg) [] where
  dfs := DfsInv.nil d
  grp := by cases sg <;> rfl
  st := hG.congr _ _ _ _ _ hG.init (fun _ _ => rfl) (fun k => by simp [GAcc.init, keyIn])
  sz := GroupbySize.represents.congr _ _ _ _ _ GroupbySize.represents.init (fun _ _ => rfl)
    (fun k => by simp [GAcc.init, keyIn])

/-- **One step of `windowed_groupby_accumulator`** never trips an assertion, keeps the grouper
history in step with the retained frames, and leaves state, size-state and result indexed by
exactly the keys with a row in the window, each holding the statistic of that key's rows. -/
theorem groupbyAcc_step {S R : Type} {ops : GOps S R} {Rep : (Int → Mom) → (Int → Prop) → S → Prop}
    {res : Mom → R} (hG : GRepresents ops Rep res) (d : Diff) (sg : Bool) (a : GAcc S)
    (H new : List Row) (hv : Valid d (H ++ new)) (h : GState Rep d sg a H) :
    ∃ a' r, groupbyAcc d ops sg (some a) new = some (a', r) ∧ GState Rep d sg a' (H ++ new) ∧
      RepC res (gmeas a'.dfs.flatten) (keyIn a'.dfs.flatten) r := by
  unfold groupbyAcc
  simp only [Option.getD_some]
  have ⟨hinv', hshape⟩ := diff_window d a.dfs H new hv h.dfs
  have hcons := conserves d a.dfs new
  generalize d.apply a.dfs new = p at hinv' hshape hcons
  obtain ⟨dfs', old⟩ := p
  simp only at hinv' hshape hcons ⊢
  rw [h.grp, alignGroupers_spec sg a.dfs new dfs' old hshape]
  simp only
  have hnew' : (if sg = true then regroup new (new.map (·.key)) else new) = new := by
    cases sg <;> simp [regroup_self]
  rw [hnew', foldl_pair (fun o : Batch => o.length > 0) (fun (sr : S × FMap Int R) o => ops.onOld sr.1 o)
    (fun (z : FMap Int Int × FMap Int Int) o => GroupbySize.ops.onOld z.1 o)]
  simp only
  -- the measure after on_new and all on_old calls is the measure of the retained rows
  have hm : gmeas a.dfs.flatten + gmeas new - gmeas old.flatten = gmeas dfs'.flatten := by
    rw [← gmeas_append, ← hcons, gmeas_append, CGroup.add_sub_cancel_left]
  have hsup := supp_gmeas a.dfs.flatten
  have hsup1 : Supp (gmeas a.dfs.flatten + gmeas new) (fun k => keyIn a.dfs.flatten k ∨ keyIn new k) :=
    supp_step (· + ·) mom_zero_add _ _ new hsup
  have n1 := hG.onNew _ _ _ new hsup h.st
  have z1 := GroupbySize.represents.onNew _ _ _ new hsup h.sz
  have n2 := gfoldOld_rep hG old _ _ _ hsup1 n1
  have z2 := gfoldOld_rep GroupbySize.represents old _ _ _ hsup1 z1
  simp only at n2 z2
  rw [hm] at n2 z2
  have hK : ∀ k, keyIn dfs'.flatten k →
      ((keyIn a.dfs.flatten k ∨ keyIn new k) ∨ keyIn old.flatten k) := by
    intro k hk
    have : keyIn (old.flatten ++ dfs'.flatten) k := (keyIn_append _ _ k).mpr (Or.inr hk)
    rw [hcons] at this
    exact Or.inl ((keyIn_append _ _ k).mp this)
  have fin := dropVanished_spec hG dfs'.flatten _ hK _ _ _ n2.1 n2.2 z2.1
  simp only at fin
  exact ⟨_, _, rfl, ⟨hinv', rfl, fin.1, fin.2.2⟩, fin.2.1⟩

theorem runOpt_results {A R : Type} (step : Option A → Batch → Option (A × R))
    (Inv : Option A → List Row → Prop) (P : List Row → R → Prop) (V : List Row → Prop)
    (hV : ∀ H b, V (H ++ b) → V H)
    (hstep : ∀ acc H b, Inv acc H → V (H ++ b) →
      ∃ a r, step acc b = some (a, r) ∧ Inv (some a) (H ++ b) ∧ P (H ++ b) r)
    (bs : List Batch) (acc : Option A) (H : List Row) (hi : Inv acc H) (hv : V (H ++ bs.flatten)) :
    ∃ fin rs, runOpt step acc bs = some (fin, rs) ∧ rs.length = bs.length ∧ Inv fin (H ++ bs.flatten) ∧
      ∀ k r, rs[k]? = some r → P (H ++ (bs.take (k + 1)).flatten) r := by
  induction bs generalizing acc H with
  | nil => exact ⟨acc, [], rfl, rfl, by simpa using hi, by simp⟩
  | cons b bs ih =>
    have hvb : V (H ++ b) := by
      apply hV (H ++ b) bs.flatten
      simpa [List.append_assoc] using hv
    obtain ⟨a, r, hs, hi', hp⟩ := hstep acc H b hi hvb
    obtain ⟨fin, rs, hrun, hlen, hfin, hres⟩ := ih (some a) (H ++ b) hi' (by simpa [List.append_assoc] using hv)
    refine ⟨fin, r :: rs, ?_, by simp [hlen], by simpa [List.append_assoc] using hfin, ?_⟩
    · simp only [runOpt, hs, hrun]
    · intro k r' hk
      cases k with
      | zero =>
        simp only [List.getElem?_cons_zero, Option.some.injEq] at hk
        subst hk; simpa using hp
      | succ k =>
        simp only [List.getElem?_cons_succ] at hk
        have := hres k r' hk
        simpa [List.append_assoc] using this

/-- **Windowed group-by aggregations**: the run never trips an assertion of `diff_align`, emits one
result per batch, and the `k`-th result is indexed by exactly the keys with a row in the window
after the first `k+1` batches, holding `res` of the moments of that key's rows.  The final
accumulator (if any batch was fed) satisfies `GState`: frames = window, groupers in step. -/
theorem groupby_run {S R : Type} {ops : GOps S R} {Rep : (Int → Mom) → (Int → Prop) → S → Prop}
    {res : Mom → R} (hG : GRepresents ops Rep res) (d : Diff) (sg : Bool)
    (bs : List Batch) (hv : Valid d bs.flatten) :
    ∃ fin rs, runOpt (groupbyAcc d ops sg) none bs = some (fin, rs) ∧ rs.length = bs.length ∧
      (∀ a, fin = some a → GState Rep d sg a bs.flatten) ∧
      ∀ k r, rs[k]? = some r →
        RepC res (gmeas (windowOf d (bs.take (k + 1)).flatten)) (keyIn (windowOf d (bs.take (k + 1)).flatten)) r := by
  have := runOpt_results (groupbyAcc d ops sg)
    (fun acc H => ∃ a, (acc = some a ∨ (acc = none ∧ a = GAcc.init ops sg)) ∧ GState Rep d sg a H)
    (fun H r => RepC res (gmeas (windowOf d H)) (keyIn (windowOf d H)) r) (Valid d) (fun H b h => h.prefix)
    ?_ bs none [] ⟨GAcc.init ops sg, Or.inr ⟨rfl, rfl⟩, GState.init hG d sg⟩ (by simpa using hv)
  · obtain ⟨fin, rs, h1, h2, h3, h4⟩ := this
    refine ⟨fin, rs, h1, h2, ?_, by simpa using h4⟩
    intro a ha
    obtain ⟨a', hacc, hst⟩ := h3
    rcases hacc with hacc | ⟨hacc, _⟩
    · rw [ha] at hacc; cases hacc; simpa using hst
    · rw [ha] at hacc; cases hacc
  · intro acc H b ⟨a, hacc, hst⟩ hvb
    have heq : groupbyAcc d ops sg acc b = groupbyAcc d ops sg (some a) b := by
      rcases hacc with rfl | ⟨rfl, rfl⟩
      · rfl
      · rfl
    obtain ⟨a', r, hs, hst', hr⟩ := groupbyAcc_step hG d sg a H b hvb hst
    refine ⟨a', r, heq ▸ hs, ⟨a', Or.inl rfl, hst'⟩, ?_⟩
    rw [← hst'.dfs.1]; exact hr

end StreamzVerif.Window
