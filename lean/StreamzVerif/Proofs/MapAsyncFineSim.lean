import StreamzVerif.Proofs.MapAsyncFine
import StreamzVerif.Proofs.AsyncBuffer
/-! Simulation of the fine-grained `map_async` system (Model/MapAsyncFine.lean, variant `.locked`) by the PRIMITIVE moves
of the settled model (Model/AsyncBuffer.lean "map_async"): `arriveM`, the admission branch of `settleStep` (`admitJob`:
the HEAD of `waiting`, queue not full), its worker branch (`takeHead`), `jobDoneM`, `downDoneM`.

The abstraction forgets the ready queue and the lock: `waiting` = lock holder ++ lock waiters ++ insert jobs not yet
run; the worker is idle / awaits job j / emits job j; a job's completion is applied to the abstract state when the
worker consumes it (the completion is not observable earlier). -/
set_option linter.unusedSimpArgs false
set_option linter.unusedVariables false
set_option linter.unnecessarySimpa false
namespace StreamzVerif.MapAsyncFine
open StreamzVerif.AsyncBuffer

variable {α β : Type}

def wproj : Worker α → WP
  | .idle => .idle
  | .awaiting it => .awaiting it.id
  | .emitting it => .emitting it.id

/-- States of the settled model reachable by its primitive moves, in any interleaving. -/
inductive Reach (f : α → β) (c : MCfg) : MSt α β → Prop where
  | init : Reach f c (minit α β)
  /-- an external action: `arriveM`, `jobDoneM`, `jobFailM`, `downDoneM` -/
  | prim (m : MSt α β) (a : MAct α) : Reach f c m → Reach f c (mprim f c m a)
  /-- the admission branch of `settleStep`: the FIRST waiting insert job, work queue not full -/
  | admission (m : MSt α β) (w : Item α) (ws : List (Item α)) : Reach f c m → m.waiting = w :: ws →
      c.full m.queue = false → Reach f c (admitJob m w ws)
  /-- the worker branch of `settleStep` -/
  | take (m : MSt α β) (j : Job α) (rest : List (Job α)) : Reach f c m → m.worker = .idle → m.queue = j :: rest →
      Reach f c (takeHead f c m j rest)

/-- The abstraction relation. -/
structure Rel (s : FSt α) (m : MSt α β) : Prop where
  waiting : m.waiting.map (fun it => it.id) = waitingIds s
  queue : m.queue.map (fun j => j.it.id) = s.queue
  running : ∀ j ∈ m.queue, j.st = .running
  worker : wproj m.worker = aproj s
  ins : m.ins = s.ins
  outs : m.outs.map Prod.fst = s.outs
  accepted : m.accepted = s.started

/-! ### the waiting list along a step -/

theorem waiting_same (c : Cfg) (s s' : FSt α) (h : LInv c s) (h' : LInv c s') (h1 : s'.started = s.started)
    (h2 : s'.ins = s.ins) : waitingIds s' = waitingIds s := by
  have ho := inv_order' c s h
  have ho' := inv_order' c s' h'
  rw [h1, h2, ← ho] at ho'
  exact List.append_cancel_left ho'

theorem waiting_admission (c : Cfg) (s s' : FSt α) (j : Nat) (h : LInv c s) (h' : LInv c s')
    (h1 : s'.started = s.started ++ [j]) (h2 : s'.ins = s.ins) : waitingIds s = j :: waitingIds s' := by
  have ho := inv_order' c s h
  have ho' := inv_order' c s' h'
  rw [h1, h2, ← ho, List.append_assoc] at ho'
  exact (List.append_cancel_left ho').symm

theorem waiting_arrive (c : Cfg) (s s' : FSt α) (x : α) (h : LInv c s) (h' : LInv c s') (h1 : s'.started = s.started)
    (h2 : s'.ins = s.ins ++ [(s.ins.length, x)]) : waitingIds s' = waitingIds s ++ [s.ins.length] := by
  have ho := inv_order' c s h
  have ho' := inv_order' c s' h'
  rw [h1, h2] at ho'
  simp [List.range_succ, ← ho] at ho'
  exact ho'

/-! ### the simulation -/

theorem wproj_idle (w : Worker α) (h : wproj w = .idle) : w = .idle := by
  cases w <;> simp [wproj] at h ⊢

theorem wproj_awaiting (w : Worker α) (j : Nat) (h : wproj w = .awaiting j) : ∃ it, w = .awaiting it ∧ it.id = j := by
  cases w with
  | idle => simp [wproj] at h
  | awaiting it => simp [wproj] at h; exact ⟨it, rfl, h⟩
  | emitting it => simp [wproj] at h

theorem wproj_emitting (w : Worker α) (j : Nat) (h : wproj w = .emitting j) : ∃ it, w = .emitting it ∧ it.id = j := by
  cases w with
  | idle => simp [wproj] at h
  | awaiting it => simp [wproj] at h
  | emitting it => simp [wproj] at h; exact ⟨it, rfl, h⟩

theorem mfull_eq (p : Nat) {γ δ : Type} (q : List γ) (q' : List δ) (h : q.length = q'.length) :
    (⟨p, true⟩ : MCfg).full q = full p q' := by
  simp [MCfg.full, full, h]

/-- the settled model's move for "the job the worker awaits completes": `deliver` -/
theorem jobDone_awaiting (f : α → β) (p : Nat) (m : MSt α β) (it : Item α) (hw : m.worker = .awaiting it) :
    mprim f ⟨p, true⟩ m (.jobDone it.id) =
      { m with outs := m.outs ++ [(it.id, f it.val)], log := m.log ++ emitEvs true it (f it.val),
               worker := .emitting (it.handOver true) } := by
  simp [mprim, jobDoneM, hw, deliver]

theorem sim_get (f : α → β) (p : Nat) (s' : FSt α) (m : MSt α β) (q o : List Nat)
    (hm : Reach f ⟨p, true⟩ m) (hw : m.worker = .idle)
    (hq : m.queue.map (fun j => j.it.id) = q) (hrun : ∀ j ∈ m.queue, j.st = .running)
    (ho : m.outs.map Prod.fst = o) (hwait : m.waiting.map (fun it => it.id) = waitingIds s')
    (hins : m.ins = s'.ins) (hacc : m.accepted = s'.started) (hg : GN q o s') :
    ∃ m', Reach f ⟨p, true⟩ m' ∧ Rel s' m' := by
  rcases hg with ⟨h1, h2, h3⟩ | ⟨j, rest, hq0, h1, h2⟩
  · refine ⟨m, hm, ⟨hwait, ?_, hrun, by rw [hw, h2]; rfl, hins, by rw [ho, h3], hacc⟩⟩
    rw [hq, h1]
  · subst hq0
    cases hmq : m.queue with
    | nil => rw [hmq] at hq; simp at hq
    | cons jm restm =>
      rw [hmq] at hq
      simp at hq
      have hst : jm.st = .running := hrun jm (by simp [hmq])
      have hrest : ∀ j ∈ restm, j.st = .running := fun j hj => hrun j (by simp [hmq, hj])
      have hm1 := Reach.take m jm restm hm hw hmq
      have ht : takeHead f ⟨p, true⟩ m jm restm = { m with queue := restm, worker := .awaiting jm.it } := by
        simp [takeHead, hst]
      rw [ht] at hm1
      rcases h2 with ⟨h2, h3⟩ | ⟨h2, h3⟩
      · refine ⟨_, hm1, ⟨hwait, ?_, hrest, ?_, hins, ?_, hacc⟩⟩
        · simp [hq.2, h1]
        · simp [wproj, h2, hq.1]
        · simp [ho, h3]
      · have hm2 := Reach.prim _ (.jobDone jm.it.id) hm1
        rw [jobDone_awaiting f p _ jm.it rfl] at hm2
        refine ⟨_, hm2, ⟨hwait, ?_, hrest, ?_, hins, ?_, hacc⟩⟩
        · simp [hq.2, h1]
        · simp [wproj, h2, hq.1]
        · simp [ho, h3, hq.1]

theorem sim_step (f : α → β) (p : Nat) (s s' : FSt α) (m : MSt α β) (a : FAct α)
    (hi0 : Inv (locked p) s) (hR : Rel s m) (hm : Reach f ⟨p, true⟩ m)
    (hs : step (locked p) s a = some s') : ∃ m', Reach f ⟨p, true⟩ m' ∧ Rel s' m' := by
  obtain ⟨hi', _, heff⟩ := step_facts (locked p) rfl rfl s s' a hi0.l hi0.w hs
  have hi := hi0.l
  cases heff with
  | arrive x h1 h2 h3 h4 h5 =>
    have hw := waiting_arrive _ s s' x hi hi' h5 h1
    refine ⟨_, Reach.prim m (.arrive x) hm, ?_⟩
    constructor
    · simp [mprim, arriveM, hR.waiting, hw, hR.ins, Item.enter, Item.retain, Item.release]
    · simp [mprim, arriveM, hR.queue, h2]
    · simpa [mprim, arriveM] using hR.running
    · simp [mprim, arriveM, hR.worker, h3]
    · simp [mprim, arriveM, hR.ins, h1]
    · simp [mprim, arriveM, hR.outs, h4]
    · simp [mprim, arriveM, hR.accepted, h5]
  | silent h1 h2 h3 h4 h5 =>
    have hw := waiting_same _ s s' hi hi' h5 h1
    exact ⟨m, hm, ⟨by rw [hw]; exact hR.waiting, by rw [h2]; exact hR.queue, hR.running, by rw [h3]; exact hR.worker,
      by rw [h1]; exact hR.ins, by rw [h4]; exact hR.outs, by rw [h5]; exact hR.accepted⟩⟩
  | admission j h1 h2 h3 h4 h5 h6 =>
    have hw := waiting_admission _ s s' j hi hi' h5 h1
    have hmw := hR.waiting
    rw [hw] at hmw
    cases hmw' : m.waiting with
    | nil => rw [hmw'] at hmw; simp at hmw
    | cons w ws =>
      rw [hmw'] at hmw
      simp at hmw
      have hlen : m.queue.length = s.queue.length := by
        have := congrArg List.length hR.queue; simpa using this
      have hfull : (⟨p, true⟩ : MCfg).full m.queue = false := by rw [mfull_eq p _ _ hlen]; exact h6
      refine ⟨_, Reach.admission m w ws hm hmw' hfull, ?_⟩
      constructor
      · simpa [admitJob] using hmw.2
      · simp [admitJob, hR.queue, h2, hmw.1]
      · intro j hj
        simp [admitJob] at hj
        rcases hj with hj | hj
        · exact hR.running j hj
        · simp [hj]
      · simp [admitJob, hR.worker, h3]
      · simp [admitJob, hR.ins, h1]
      · simp [admitJob, hR.outs, h4]
      · simp [admitJob, hR.accepted, h5, hmw.1]
  | get h1 h2 h3 h4 =>
    have hw := waiting_same _ s s' hi hi' h2 h1
    have hidle := wproj_idle m.worker (by rw [hR.worker, h3])
    exact sim_get f p s' m s.queue s.outs hm hidle hR.queue hR.running hR.outs (by rw [hw]; exact hR.waiting)
      (by rw [h1]; exact hR.ins) (by rw [h2]; exact hR.accepted) h4
  | emit j h1 h2 h3 h4 h5 h6 =>
    have hw := waiting_same _ s s' hi hi' h2 h1
    obtain ⟨it, hwk, hid⟩ := wproj_awaiting m.worker j (by rw [hR.worker, h3])
    have hm2 := Reach.prim m (.jobDone it.id) hm
    rw [jobDone_awaiting f p m it hwk] at hm2
    refine ⟨_, hm2, ⟨by rw [hw]; exact hR.waiting, by rw [h4]; exact hR.queue, hR.running, ?_, by rw [h1]; exact hR.ins, ?_,
      by rw [h2]; exact hR.accepted⟩⟩
    · simp [wproj, h5, hid]
    · simp [hR.outs, h6, hid]
  | release j h1 h2 h3 h4 =>
    have hw := waiting_same _ s s' hi hi' h2 h1
    obtain ⟨it, hwk, hid⟩ := wproj_emitting m.worker j (by rw [hR.worker, h3])
    have hm1 := Reach.prim m .downDone hm
    have hd : mprim f ⟨p, true⟩ m .downDone =
        { m with worker := .idle, fin := m.fin ++ [(it.finish true, true)], log := m.log ++ finishEvs true it } := by
      simp [mprim, downDoneM, hwk]
    rw [hd] at hm1
    exact sim_get f p s' _ s.queue s.outs hm1 rfl hR.queue hR.running hR.outs (by rw [hw]; exact hR.waiting)
      (by rw [h1]; exact hR.ins) (by rw [h2]; exact hR.accepted) h4

theorem rel_init : Rel (init α) (minit α β) := by
  constructor <;> simp [init, minit, waitingIds, wproj, aproj]

theorem sim_run (f : α → β) (p : Nat) (acts : List (FAct α)) (s s' : FSt α) (m : MSt α β)
    (hi : Inv (locked p) s) (hR : Rel s m) (hm : Reach f ⟨p, true⟩ m) (hr : run (locked p) s acts = some s') :
    ∃ m', Reach f ⟨p, true⟩ m' ∧ Rel s' m' := by
  induction acts generalizing s m with
  | nil => simp [run] at hr; subst hr; exact ⟨m, hm, hR⟩
  | cons a rest ih =>
    simp only [run] at hr
    cases hs : step (locked p) s a with
    | none => simp [hs] at hr
    | some s1 =>
      rw [hs] at hr
      have hi1 := inv_step _ rfl rfl s s1 a hi hs
      obtain ⟨m1, hm1, hR1⟩ := sim_step f p s s1 m a hi hR hm hs
      exact ih s1 m1 hi1 hR1 hm1 hr

/-- every state reachable by the primitive moves satisfies the settled model's invariant (history, bound, reference
counts, log) — the invariant never depended on the priority `settleStep` gives the worker over admissions -/
theorem reach_minv (f : α → β) (c : MCfg) (m : MSt α β) (h : Reach f c m) : MInv f c m := by
  induction h with
  | init => exact minv_init f c
  | prim m a _ ih => exact minv_mprim f c m a ih
  | admission m w ws _ hw hf ih => exact minv_admit f c m w ws ih hw hf
  | take m j rest _ hw hq ih => exact minv_takeHead f c m j rest ih hw hq

/-- `Reach`'s two internal moves are the two branches of `settleStep`; `settleStep` only adds a priority -/
theorem settleStep_is_take_or_admit (f : α → β) (c : MCfg) (m m' : MSt α β) (h : settleStep f c m = some m') :
    (∃ j rest, m.worker = .idle ∧ m.queue = j :: rest ∧ m' = takeHead f c m j rest) ∨
    (∃ w ws, m.waiting = w :: ws ∧ c.full m.queue = false ∧ m' = admitJob m w ws) := by
  by_cases hc : m.worker = .idle ∧ m.queue ≠ []
  · obtain ⟨hw, hq⟩ := hc
    cases hq' : m.queue with
    | nil => exact absurd hq' hq
    | cons j rest =>
      rw [settleStep_take f c m j rest hw hq'] at h
      left; exact ⟨j, rest, hw, rfl, by simpa using h.symm⟩
  · have hc' : m.worker ≠ .idle ∨ m.queue = [] := by
      by_cases hw : m.worker = .idle
      · right; by_cases hq : m.queue = []
        · exact hq
        · exact absurd ⟨hw, hq⟩ hc
      · left; exact hw
    rw [settleStep_admit f c m hc'] at h
    right
    cases hw : m.waiting with
    | nil => simp [hw] at h
    | cons w ws =>
      simp [hw] at h
      exact ⟨w, ws, rfl, by simpa using h.1, h.2.symm⟩

/-- hence every state of the settled model proper (`mrun`: external action, then `settle`) is `Reach`able -/
theorem reach_settle (f : α → β) (c : MCfg) (k : Nat) (m : MSt α β) (h : Reach f c m) : Reach f c (settle f c k m) := by
  induction k generalizing m with
  | zero => exact h
  | succ k ih =>
    simp only [settle]
    cases hs : settleStep f c m with
    | none => exact h
    | some m' =>
      simp only
      apply ih
      rcases settleStep_is_take_or_admit f c m m' hs with ⟨j, rest, hw, hq, rfl⟩ | ⟨w, ws, hw, hf, rfl⟩
      · exact Reach.take m j rest h hw hq
      · exact Reach.admission m w ws h hw hf

theorem reach_mrun (f : α → β) (c : MCfg) (acts : List (MAct α)) (m : MSt α β) (h : Reach f c m) :
    Reach f c (mrun f c m acts) := by
  induction acts generalizing m with
  | nil => exact h
  | cons a rest ih =>
    simp only [mrun, List.foldl_cons]
    exact ih _ (reach_settle f c _ _ (Reach.prim m a h))

end StreamzVerif.MapAsyncFine
