import StreamzVerif.Model.Window
/-!
Helper lemmas for C07 (windowed aggregations), part 1: the diff functions
(`diff_iloc`, `diff_loc`), the algebra of the subtractive state invariant, and the scalar
aggregations.  Core Lean only.
-/
namespace StreamzVerif.Window

/-! ### diff_iloc -/

theorem total_eq {α : Type} (dfs : List (List α)) : total dfs = dfs.flatten.length := by
  induction dfs with
  | nil => rfl
  | cons b r ih => simp [total] at ih ⊢; omega

theorem trimFront_spec {α : Type} (n : Nat) (dfs : List (List α)) :
    (trimFront n dfs).2.flatten = dfs.flatten.take n ∧ (trimFront n dfs).1.flatten = dfs.flatten.drop n := by
  induction dfs generalizing n with
  | nil => cases n <;> simp [trimFront]
  | cons b rest ih =>
    cases n with
    | zero => simp [trimFront]
    | succ n =>
      unfold trimFront
      split
      · next h =>
        have := ih (n + 1 - b.length)
        simp only [List.flatten_cons, this]
        constructor
        · rw [List.take_append]; rw [List.take_of_length_le h]
        · rw [List.drop_append]; rw [List.drop_of_length_le h]; simp
      · next h =>
        simp only [List.flatten_cons, List.flatten_nil, List.append_nil]
        have h' : n + 1 ≤ b.length := by omega
        constructor
        · rw [List.take_append_of_le_length h']
        · rw [List.drop_append_of_le_length h']

theorem trimFront_nonempty {α : Type} (n : Nat) (dfs : List (List α)) (h : ∀ b ∈ dfs, b ≠ []) :
    ∀ b ∈ (trimFront n dfs).1, b ≠ [] := by
  induction dfs generalizing n with
  | nil => cases n <;> simp [trimFront]
  | cons b rest ih =>
    cases n with
    | zero => simpa [trimFront] using h
    | succ n =>
      unfold trimFront
      split
      · exact ih _ (fun c hc => h c (List.mem_cons_of_mem _ hc))
      · next hlt =>
        intro c hc
        rcases List.mem_cons.mp hc with rfl | hc
        · intro he
          have := congrArg List.length he
          simp at this; omega
        · exact h c (List.mem_cons_of_mem _ hc)

/-- The last `N` elements. -/
def lastN {α : Type} (N : Nat) (l : List α) : List α := l.drop (l.length - N)

theorem pushNew_flatten {α : Type} (dfs : List (List α)) (new : List α) :
    (pushNew dfs new).flatten = dfs.flatten ++ new := by
  unfold pushNew
  split
  · simp
  · next h =>
    have : new = [] := by cases new <;> simp_all
    simp [this]

theorem pushNew_nonempty {α : Type} (dfs : List (List α)) (new : List α) (h : ∀ b ∈ dfs, b ≠ []) :
    ∀ b ∈ pushNew dfs new, b ≠ [] := by
  unfold pushNew
  split
  · next hn =>
    intro b hb
    rcases List.mem_append.mp hb with hb | hb
    · exact h b hb
    · simp at hb; subst hb; intro he; simp [he] at hn
  · exact h

theorem diffIloc_spec (dfs : List Batch) (new : Batch) (N : Nat) :
    (diffIloc dfs new N).1.flatten = lastN N (dfs.flatten ++ new) ∧
    (diffIloc dfs new N).2.flatten ++ (diffIloc dfs new N).1.flatten = dfs.flatten ++ new := by
  unfold diffIloc
  simp only
  split
  · have := trimFront_spec (total (pushNew dfs new) - N) (pushNew dfs new)
    rw [this.1, this.2, total_eq, pushNew_flatten]
    exact ⟨rfl, List.take_append_drop _ _⟩
  · next h =>
    have h0 : pushNew dfs new = [] := by
      cases hp : pushNew dfs new with
      | nil => rfl
      | cons a l => simp [hp] at h
    have hf := pushNew_flatten dfs new
    rw [h0] at hf
    simp only [List.flatten_nil] at hf
    simp [h0, ← hf, lastN]

theorem diffIloc_nonempty (dfs : List Batch) (new : Batch) (N : Nat) (h : ∀ b ∈ dfs, b ≠ []) :
    ∀ b ∈ (diffIloc dfs new N).1, b ≠ [] := by
  unfold diffIloc
  simp only
  split
  · exact trimFront_nonempty _ _ (pushNew_nonempty dfs new h)
  · exact pushNew_nonempty dfs new h

theorem lastN_append_of_le {α : Type} (N : Nat) (a b : List α) (h : N ≤ b.length) :
    lastN N (a ++ b) = lastN N b := by
  unfold lastN
  rw [List.drop_append]
  have : a.drop ((a ++ b).length - N) = [] := by
    apply List.drop_of_length_le; simp; omega
  rw [this]
  simp
  congr 1
  omega

theorem lastN_lastN_append {α : Type} (N : Nat) (H b : List α) :
    lastN N (lastN N H ++ b) = lastN N (H ++ b) := by
  by_cases hle : H.length ≤ N
  · have : lastN N H = H := by unfold lastN; simp [Nat.sub_eq_zero_of_le hle]
    rw [this]
  · have hlen : (lastN N H).length = N := by unfold lastN; simp; omega
    have hsplit : H = H.take (H.length - N) ++ lastN N H := by
      unfold lastN; exact (List.take_append_drop _ _).symm
    conv => rhs; rw [hsplit, List.append_assoc]
    rw [lastN_append_of_le N _ (lastN N H ++ b) (by simp; omega)]


/-! ### diff_loc -/


/-! ### index.max() / index.min() -/

theorem maxIdx_eq_none (b : Batch) : maxIdx b = none ↔ b = [] := by
  cases b with
  | nil => simp [maxIdx]
  | cons r b => simp only [maxIdx]; split <;> simp

theorem minIdx_eq_none (b : Batch) : minIdx b = none ↔ b = [] := by
  cases b with
  | nil => simp [minIdx]
  | cons r b => simp only [minIdx]; split <;> simp

theorem maxIdx_spec {b : Batch} {m : Int} (h : maxIdx b = some m) :
    (∃ r ∈ b, r.idx = m) ∧ ∀ r ∈ b, r.idx ≤ m := by
  induction b generalizing m with
  | nil => simp [maxIdx] at h
  | cons r b ih =>
    simp only [maxIdx] at h
    split at h
    · next hn =>
      have : b = [] := (maxIdx_eq_none b).mp hn
      subst this
      simp only [Option.some.injEq] at h; subst h; simp
    · next m' hm =>
      have ⟨⟨r', hr', he⟩, hle⟩ := ih hm
      simp only [Option.some.injEq] at h
      split at h
      · subst h
        refine ⟨⟨r', List.mem_cons_of_mem _ hr', he⟩, ?_⟩
        intro x hx
        rcases List.mem_cons.mp hx with rfl | hx
        · omega
        · exact hle x hx
      · subst h
        refine ⟨⟨r, List.mem_cons_self, rfl⟩, ?_⟩
        intro x hx
        rcases List.mem_cons.mp hx with rfl | hx
        · omega
        · have := hle x hx; omega

theorem minIdx_spec {b : Batch} {m : Int} (h : minIdx b = some m) :
    (∃ r ∈ b, r.idx = m) ∧ ∀ r ∈ b, m ≤ r.idx := by
  induction b generalizing m with
  | nil => simp [minIdx] at h
  | cons r b ih =>
    simp only [minIdx] at h
    split at h
    · next hn =>
      have : b = [] := (minIdx_eq_none b).mp hn
      subst this
      simp only [Option.some.injEq] at h; subst h; simp
    · next m' hm =>
      have ⟨⟨r', hr', he⟩, hle⟩ := ih hm
      simp only [Option.some.injEq] at h
      split at h
      · subst h
        refine ⟨⟨r', List.mem_cons_of_mem _ hr', he⟩, ?_⟩
        intro x hx
        rcases List.mem_cons.mp hx with rfl | hx
        · omega
        · exact hle x hx
      · subst h
        refine ⟨⟨r, List.mem_cons_self, rfl⟩, ?_⟩
        intro x hx
        rcases List.mem_cons.mp hx with rfl | hx
        · omega
        · have := hle x hx; omega

/-- Characterisation used to compare maxima of different lists. -/
theorem maxIdx_of_spec {b : Batch} {m : Int} (h1 : ∃ r ∈ b, r.idx = m) (h2 : ∀ r ∈ b, r.idx ≤ m) :
    maxIdx b = some m := by
  cases hm : maxIdx b with
  | none =>
    have := (maxIdx_eq_none b).mp hm
    subst this; simp at h1
  | some m' =>
    have ⟨⟨r', hr', he'⟩, hle'⟩ := maxIdx_spec hm
    obtain ⟨r, hr, he⟩ := h1
    have := h2 r' hr'
    have := hle' r hr
    congr 1; omega

/-- A non-decreasing index. -/
def Sorted (l : List Row) : Prop := l.Pairwise (fun a b => a.idx ≤ b.idx)

theorem locUpTo_append_drop (c : Int) (b : Batch) : locUpTo c b ++ b.drop (locUpTo c b).length = b := by
  unfold locUpTo
  induction b with
  | nil => simp
  | cons r b ih =>
    simp only [List.takeWhile_cons]
    split
    · simp [ih]
    · simp

theorem locUpTo_le (c : Int) (b : Batch) : ∀ r ∈ locUpTo c b, r.idx ≤ c := by
  unfold locUpTo
  induction b with
  | nil => simp
  | cons x b ih =>
    simp only [List.takeWhile_cons]
    split
    · next hx =>
      intro r hr
      rcases List.mem_cons.mp hr with rfl | hr
      · simpa using hx
      · exact ih r hr
    · simp

/-- The rows left by `.loc[:c]` on a sorted frame all lie after `c`. -/
theorem drop_locUpTo_gt (c : Int) (b : Batch) (hs : Sorted b) :
    ∀ r ∈ b.drop (locUpTo c b).length, c < r.idx := by
  unfold locUpTo
  induction b with
  | nil => simp
  | cons x b ih =>
    simp only [List.takeWhile_cons]
    have hs' := List.pairwise_cons.mp hs
    split
    · simpa using ih hs'.2
    · next hx =>
      simp only [List.length_nil, List.drop_zero]
      intro r hr
      have hx' : c < x.idx := by simpa using hx
      rcases List.mem_cons.mp hr with rfl | hr
      · exact hx'
      · have := hs'.1 r hr; omega

theorem locUpTo_ne_nil (c : Int) (b : Batch) (hs : Sorted b) (m : Int) (hm : minIdx b = some m) (hc : m ≤ c) :
    locUpTo c b ≠ [] := by
  cases b with
  | nil => simp [minIdx] at hm
  | cons x b =>
    have ⟨⟨r, hr, he⟩, _⟩ := minIdx_spec hm
    have hx : x.idx ≤ m := by
      rcases List.mem_cons.mp hr with rfl | hr
      · omega
      · have := (List.pairwise_cons.mp hs).1 r hr; omega
    unfold locUpTo
    simp only [List.takeWhile_cons]
    have : x.idx ≤ c := by omega
    simp [this]



/-- `old`/`dfs'` arise from `dfs0` by popping whole frames from the front and then possibly
splitting the new front frame once: the only shape `diff_align` can follow. -/
def Shape {α : Type} (dfs0 dfs' old : List (List α)) : Prop :=
  ∃ popped rest, dfs0 = popped ++ rest ∧
    ((dfs' = rest ∧ old = popped) ∨
     (∃ p r tl, p ≠ [] ∧ r ≠ [] ∧ rest = (p ++ r) :: tl ∧ dfs' = r :: tl ∧ old = popped ++ [p]))

theorem Shape.cons {α : Type} {dfs0 dfs' old : List (List α)} (b : List α) (h : Shape dfs0 dfs' old) :
    Shape (b :: dfs0) dfs' (b :: old) := by
  obtain ⟨popped, rest, h0, h⟩ := h
  refine ⟨b :: popped, rest, by simp [h0], ?_⟩
  rcases h with ⟨h1, h2⟩ | ⟨p, r, tl, hp, hr, h1, h2, h3⟩
  · exact Or.inl ⟨h1, by simp [h2]⟩
  · exact Or.inr ⟨p, r, tl, hp, hr, h1, h2, by simp [h3]⟩

theorem Shape.flatten {α : Type} {dfs0 dfs' old : List (List α)} (h : Shape dfs0 dfs' old) :
    old.flatten ++ dfs'.flatten = dfs0.flatten := by
  obtain ⟨popped, rest, h0, h⟩ := h
  rcases h with ⟨h1, h2⟩ | ⟨p, r, tl, hp, hr, h1, h2, h3⟩
  · subst h0 h1 h2; simp
  · subst h0 h1 h2 h3; simp

/-- Conservation for the `diff_loc` loop, with no assumption at all. -/
theorem locLoop_flatten (mn cut : Int) (fuel : Nat) (dfs : List Batch) :
    (locLoop mn cut fuel dfs).2.flatten ++ (locLoop mn cut fuel dfs).1.flatten = dfs.flatten := by
  induction fuel generalizing dfs with
  | zero => simp [locLoop]
  | succ f ih =>
    cases dfs with
    | nil => simp [locLoop]
    | cons b rest =>
      simp only [locLoop]
      split
      · simp
      · split
        · simp only [List.flatten_cons, List.append_assoc]
          split
          · next hr =>
            rw [ih]
            have := locUpTo_append_drop cut b
            have hnil : b.drop (locUpTo cut b).length = [] := by
              cases hd : b.drop (locUpTo cut b).length with
              | nil => rfl
              | cons _ _ => simp [hd] at hr
            rw [hnil] at this
            simp only [List.append_nil] at this
            rw [this]
          · rw [ih]
            simp only [List.flatten_cons, ← List.append_assoc, locUpTo_append_drop]
        · simp

/-- The loop of the repaired `diff_loc` on a non-decreasing index. -/
theorem locLoop_spec (mn cut : Int) (hcut : mn - 1 ≤ cut) (fuel : Nat) (dfs : List Batch)
    (hne : ∀ b ∈ dfs, b ≠ []) (hs : Sorted dfs.flatten) (hf : total dfs < fuel) :
    Shape dfs (locLoop mn cut fuel dfs).1 (locLoop mn cut fuel dfs).2 ∧
    (∀ x ∈ (locLoop mn cut fuel dfs).2.flatten, x.idx ≤ cut) ∧
    (∀ x ∈ (locLoop mn cut fuel dfs).1.flatten, mn ≤ x.idx) ∧
    (∀ b ∈ (locLoop mn cut fuel dfs).1, b ≠ []) := by
  induction fuel generalizing dfs with
  | zero => omega
  | succ f ih =>
    cases dfs with
    | nil => exact ⟨⟨[], [], rfl, Or.inl ⟨rfl, rfl⟩⟩, by simp [locLoop], by simp [locLoop], by simp [locLoop]⟩
    | cons b rest =>
      have hb : b ≠ [] := hne b List.mem_cons_self
      have hne' : ∀ c ∈ rest, c ≠ [] := fun c hc => hne c (List.mem_cons_of_mem _ hc)
      simp only [List.flatten_cons] at hs
      have ⟨hsb, hsr, hbr⟩ := List.pairwise_append.mp hs
      have htot : total (b :: rest) = b.length + total rest := by simp [total]
      cases hm : minIdx b with
      | none => exact absurd ((minIdx_eq_none b).mp hm) hb
      | some m =>
        have ⟨⟨r0, hr0, he0⟩, hmin⟩ := minIdx_spec hm
        simp only [locLoop, hm]
        split
        · next hlt =>
          -- decayed rows at the front of `b`
          have ho : locUpTo cut b ≠ [] := locUpTo_ne_nil cut b hsb m hm (by omega)
          have hsplit := locUpTo_append_drop cut b
          have hgt := drop_locUpTo_gt cut b hsb
          have holen : 0 < (locUpTo cut b).length := List.length_pos_iff.mpr ho
          have hblen : b.length = (locUpTo cut b).length + (b.drop (locUpTo cut b).length).length := by
            conv => lhs; rw [← hsplit]
            simp
          split
          · next hr =>
            -- the whole frame decayed
            have hnil : b.drop (locUpTo cut b).length = [] := by
              cases hd : b.drop (locUpTo cut b).length with
              | nil => rfl
              | cons _ _ => simp [hd] at hr
            have hob : locUpTo cut b = b := by rw [hnil] at hsplit; simpa using hsplit
            have ⟨h1, h2, h3, h4⟩ := ih rest hne' hsr (by omega)
            rw [hob]
            refine ⟨h1.cons b, ?_, h3, h4⟩
            intro x hx
            simp only [List.flatten_cons, List.mem_append] at hx
            rcases hx with hx | hx
            · rw [← hob] at hx; exact locUpTo_le cut b x hx
            · exact h2 x hx
          · next hr =>
            -- the front frame is split; the loop stops at the remainder
            have hrne : b.drop (locUpTo cut b).length ≠ [] := by
              intro he; simp [he] at hr
            have hf1 : 1 ≤ f := by
              have : 0 < (b.drop (locUpTo cut b).length).length := List.length_pos_iff.mpr hrne
              omega
            obtain ⟨f', rfl⟩ : ∃ f', f = f' + 1 := ⟨f - 1, by omega⟩
            cases hm' : minIdx (b.drop (locUpTo cut b).length) with
            | none => exact absurd ((minIdx_eq_none _).mp hm') hrne
            | some m' =>
              have ⟨⟨r1, hr1, he1⟩, _⟩ := minIdx_spec hm'
              have hm'gt : cut < m' := by rw [← he1]; exact hgt r1 hr1
              have hstop : ¬ m' < mn := by omega
              simp only [locLoop, hm', hstop, ↓reduceIte]
              refine ⟨⟨[], b :: rest, rfl, Or.inr ⟨locUpTo cut b, _, rest, ho, hrne, by rw [hsplit], rfl, rfl⟩⟩, ?_, ?_, ?_⟩
              · intro x hx
                simp only [List.flatten_cons, List.flatten_nil, List.append_nil] at hx
                exact locUpTo_le cut b x hx
              · intro x hx
                simp only [List.flatten_cons, List.mem_append] at hx
                rcases hx with hx | hx
                · have := hgt x hx; omega
                · have h1 := hgt r1 hr1
                  have h2 := hbr r1 (List.mem_of_mem_drop hr1) x hx
                  omega
              · intro c hc
                rcases List.mem_cons.mp hc with rfl | hc
                · exact hrne
                · exact hne' c hc
        · next hge =>
          refine ⟨⟨[], b :: rest, rfl, Or.inl ⟨rfl, rfl⟩⟩, by simp, ?_, hne⟩
          intro x hx
          simp only [List.flatten_cons, List.mem_append] at hx
          rcases hx with hx | hx
          · have := hmin x hx; omega
          · have h1 := hmin r0 hr0
            have h2 := hbr r0 hr0 x hx
            omega



theorem trimFront_shape {α : Type} (n : Nat) (dfs : List (List α)) :
    Shape dfs (trimFront n dfs).1 (trimFront n dfs).2 := by
  induction dfs generalizing n with
  | nil => cases n <;> exact ⟨[], [], rfl, Or.inl ⟨rfl, rfl⟩⟩
  | cons b rest ih =>
    cases n with
    | zero => exact ⟨[], b :: rest, rfl, Or.inl ⟨rfl, rfl⟩⟩
    | succ n =>
      unfold trimFront
      split
      · exact (ih _).cons b
      · next h =>
        refine ⟨[], b :: rest, rfl, Or.inr ⟨b.take (n + 1), b.drop (n + 1), rest, ?_, ?_, ?_, rfl, rfl⟩⟩
        · intro he; have := congrArg List.length he
          simp only [List.length_take, List.length_nil] at this; omega
        · intro he; have := congrArg List.length he
          simp only [List.length_drop, List.length_nil] at this; omega
        · simp

/-- The index of the newest row seen (0 before any row). -/
def newestIdx (l : List Row) : Int := (maxIdx l).getD 0

/-- The rows whose index lies within `T` of the newest index. -/
def within (T : Int) (H : List Row) : List Row := H.filter (fun r => decide (newestIdx H - T < r.idx))

theorem diffLoc_spec (dfs : List Batch) (new : Batch) (T : Int)
    (hne : ∀ b ∈ dfs, b ≠ []) (hs : Sorted (dfs.flatten ++ new)) :
    Shape (pushNew dfs new) (diffLoc dfs new T).1 (diffLoc dfs new T).2 ∧
    (diffLoc dfs new T).1.flatten =
      (dfs.flatten ++ new).filter (fun x => decide (newestIdx (dfs.flatten ++ new) - T < x.idx)) ∧
    (∀ b ∈ (diffLoc dfs new T).1, b ≠ []) := by
  unfold diffLoc diffLocWith
  simp only
  have hpf := pushNew_flatten dfs new
  have hpn := pushNew_nonempty dfs new hne
  cases hm : maxIdx (pushNew dfs new).flatten with
  | none =>
    have hnil := (maxIdx_eq_none _).mp hm
    refine ⟨⟨[], _, rfl, Or.inl ⟨rfl, rfl⟩⟩, ?_, hpn⟩
    simp only
    rw [hnil, ← hpf, hnil]; simp
  | some mx =>
    simp only
    have hs' : Sorted (pushNew dfs new).flatten := by rw [hpf]; exact hs
    have ⟨h1, h2, h3, h4⟩ := locLoop_spec (mx - T + 1) (mx - T + 1 - 1) (by omega) (total (pushNew dfs new) + 1)
      (pushNew dfs new) hpn hs' (by omega)
    refine ⟨h1, ?_, h4⟩
    have hfl := h1.flatten
    have hnew : newestIdx (dfs.flatten ++ new) = mx := by
      unfold newestIdx; rw [← hpf, hm]; rfl
    rw [hnew, ← hpf, ← hfl, List.filter_append]
    have e1 : List.filter (fun x => decide (mx - T < x.idx)) (locLoop (mx - T + 1) (mx - T + 1 - 1) (total (pushNew dfs new) + 1) (pushNew dfs new)).2.flatten = [] := by
      apply List.filter_eq_nil_iff.mpr
      intro x hx
      have := h2 x hx
      simp; omega
    have e2 : List.filter (fun x => decide (mx - T < x.idx)) (locLoop (mx - T + 1) (mx - T + 1 - 1) (total (pushNew dfs new) + 1) (pushNew dfs new)).1.flatten
        = (locLoop (mx - T + 1) (mx - T + 1 - 1) (total (pushNew dfs new) + 1) (pushNew dfs new)).1.flatten := by
      apply List.filter_eq_self.mpr
      intro x hx
      have := h3 x hx
      simp; omega
    rw [e1, e2]; simp

theorem newestIdx_le {H : List Row} {r : Row} (h : r ∈ H) : r.idx ≤ newestIdx H := by
  unfold newestIdx
  cases hm : maxIdx H with
  | none => have := (maxIdx_eq_none H).mp hm; subst this; simp at h
  | some m => exact (maxIdx_spec hm).2 r h

theorem newestIdx_within_append (T : Int) (hT : 1 ≤ T) (H new : List Row) :
    newestIdx (within T H ++ new) = newestIdx (H ++ new) := by
  cases hm : maxIdx (H ++ new) with
  | none =>
    have := (maxIdx_eq_none _).mp hm
    have hH : H = [] := by cases H <;> simp_all
    have hN : new = [] := by cases new <;> simp_all
    subst hH hN; rfl
  | some M =>
    have ⟨⟨r, hr, he⟩, hle⟩ := maxIdx_spec hm
    have : maxIdx (within T H ++ new) = some M := by
      apply maxIdx_of_spec
      · rcases List.mem_append.mp hr with hr | hr
        · refine ⟨r, List.mem_append_left _ ?_, he⟩
          unfold within
          apply List.mem_filter.mpr
          refine ⟨hr, ?_⟩
          have h1 : r.idx ≤ newestIdx H := newestIdx_le hr
          have h2 : newestIdx H ≤ M := by
            unfold newestIdx
            cases hmH : maxIdx H with
            | none => have := (maxIdx_eq_none H).mp hmH; subst this; simp at hr
            | some mH =>
              have ⟨⟨r', hr', he'⟩, _⟩ := maxIdx_spec hmH
              have := hle r' (List.mem_append_left _ hr')
              simp; omega
          simp; omega
        · exact ⟨r, List.mem_append_right _ hr, he⟩
      · intro x hx
        rcases List.mem_append.mp hx with hx | hx
        · exact hle x (List.mem_append_left _ (List.mem_filter.mp hx).1)
        · exact hle x (List.mem_append_right _ hx)
    unfold newestIdx; rw [this, hm]

theorem within_step (T : Int) (hT : 1 ≤ T) (H new : List Row) :
    (within T H ++ new).filter (fun x => decide (newestIdx (within T H ++ new) - T < x.idx))
      = within T (H ++ new) := by
  rw [newestIdx_within_append T hT]
  unfold within
  rw [List.filter_append, List.filter_append, List.filter_filter]
  congr 1
  apply List.filter_congr
  intro x hx
  have h1 : newestIdx H ≤ newestIdx (H ++ new) := by
    unfold newestIdx
    cases hmH : maxIdx H with
    | none => have := (maxIdx_eq_none H).mp hmH; subst this; simp at hx
    | some mH =>
      have ⟨⟨r', hr', he'⟩, _⟩ := maxIdx_spec hmH
      have := newestIdx_le (List.mem_append_left new hr')
      unfold newestIdx at this
      simp at this ⊢; omega
  by_cases hp : newestIdx (H ++ new) - T < x.idx
  · have : newestIdx H - T < x.idx := by omega
    simp [hp, this]
  · simp [hp]

theorem within_sublist (T : Int) (H : List Row) : (within T H).Sublist H := List.filter_sublist


/-! ### The subtractive invariant -/

/-- The fragment of commutative-group structure the subtractive invariant needs. -/
class CGroup (M : Type) extends Add M, Sub M, Zero M where
  add_zero : ∀ x : M, x + 0 = x
  sub_zero : ∀ x : M, x - 0 = x
  sub_sub : ∀ x a b : M, x - a - b = x - (a + b)
  add_sub_cancel_left : ∀ a y : M, (a + y) - a = y

instance : CGroup Int where
  add_zero := by intros; omega
  sub_zero := by intros; omega
  sub_sub := by intros; omega
  add_sub_cancel_left := by intros; omega

instance : CGroup Rat where
  add_zero := by intros; grind
  sub_zero := by intros; grind
  sub_sub := by intros; grind
  add_sub_cancel_left := by intros; grind

instance {κ M : Type} [CGroup M] : CGroup (κ → M) where
  add f g := fun k => f k + g k
  sub f g := fun k => f k - g k
  zero := fun _ => 0
  add_zero := by intro x; funext k; exact CGroup.add_zero (x k)
  sub_zero := by intro x; funext k; exact CGroup.sub_zero (x k)
  sub_sub := by intro x a b; funext k; exact CGroup.sub_sub (x k) (a k) (b k)
  add_sub_cancel_left := by intro a y; funext k; exact CGroup.add_sub_cancel_left (a k) (y k)

/-- The four moments of a batch from which every scalar aggregation is computed. -/
structure Mom where
  n : Int
  c : Int
  s : Rat
  q : Rat

def mom (b : Batch) : Mom := ⟨size b, cnt b, sumV b, sumSq b⟩

instance : Add Mom := ⟨fun a b => ⟨a.n + b.n, a.c + b.c, a.s + b.s, a.q + b.q⟩⟩
instance : Sub Mom := ⟨fun a b => ⟨a.n - b.n, a.c - b.c, a.s - b.s, a.q - b.q⟩⟩
instance : Zero Mom := ⟨⟨0, 0, 0, 0⟩⟩
theorem Mom.add_def (a b : Mom) : a + b = ⟨a.n + b.n, a.c + b.c, a.s + b.s, a.q + b.q⟩ := rfl
theorem Mom.sub_def (a b : Mom) : a - b = ⟨a.n - b.n, a.c - b.c, a.s - b.s, a.q - b.q⟩ := rfl
theorem Mom.zero_def : (0 : Mom) = ⟨0, 0, 0, 0⟩ := rfl

instance : CGroup Mom where
  add_zero := by
    intro x; cases x; simp only [Mom.add_def, Mom.zero_def, Mom.mk.injEq]
    refine ⟨by omega, by omega, by grind, by grind⟩
  sub_zero := by
    intro x; cases x; simp only [Mom.sub_def, Mom.zero_def, Mom.mk.injEq]
    refine ⟨by omega, by omega, by grind, by grind⟩
  sub_sub := by
    intro x a b; simp only [Mom.sub_def, Mom.add_def, Mom.mk.injEq]
    refine ⟨by omega, by omega, by grind, by grind⟩
  add_sub_cancel_left := by
    intro a y; cases y; simp only [Mom.sub_def, Mom.add_def, Mom.mk.injEq]
    refine ⟨by omega, by omega, by grind, by grind⟩



/-- An aggregation *represents* an additive measure `meas` of row lists: its state tracks
`meas` of the rows added minus the rows removed, and its result is determined by it. -/
structure Represents {S R M : Type} [CGroup M] (ops : Ops S R) (meas : Batch → M)
    (Rep : M → S → Prop) (Out : M → R → Prop) : Prop where
  meas_nil : meas [] = 0
  meas_append : ∀ a b, meas (a ++ b) = meas a + meas b
  init : Rep 0 ops.initial
  onNew : ∀ m s b, Rep m s → Rep (m + meas b) (ops.onNew s b).1 ∧ Out (m + meas b) (ops.onNew s b).2
  onOld : ∀ m s o, Rep m s → Rep (m - meas o) (ops.onOld s o).1 ∧ Out (m - meas o) (ops.onOld s o).2

theorem foldOld_rep {S R M : Type} [CGroup M] {ops : Ops S R} {meas : Batch → M}
    {Rep : M → S → Prop} {Out : M → R → Prop} (hR : Represents ops meas Rep Out)
    (old : List Batch) (m : M) (sr : S × R) (h : Rep m sr.1 ∧ Out m sr.2) :
    let sr' := old.foldl (fun sr o => if o.length > 0 then ops.onOld sr.1 o else sr) sr
    Rep (m - meas old.flatten) sr'.1 ∧ Out (m - meas old.flatten) sr'.2 := by
  induction old generalizing m sr with
  | nil => simpa [hR.meas_nil, CGroup.sub_zero] using h
  | cons o os ih =>
    simp only [List.foldl_cons, List.flatten_cons]
    rw [hR.meas_append, ← CGroup.sub_sub]
    split
    · exact ih _ _ (hR.onOld m sr.1 o h.1)
    · next hlen =>
      have : o = [] := by cases o <;> simp_all
      subst this
      rw [hR.meas_nil, CGroup.sub_zero]
      exact ih _ _ h

/-- Conservation: every diff function only moves rows from the retained frames to `old`. -/
def Conserves (d : Diff) : Prop :=
  ∀ dfs new, (d.apply dfs new).2.flatten ++ (d.apply dfs new).1.flatten = dfs.flatten ++ new

/-- One step of `window_accumulator`: whatever rows `diff` retains, the state afterwards is the
aggregation state of exactly the retained rows and the emitted result is the one they determine. -/
theorem windowAcc_step {S R M : Type} [CGroup M] {ops : Ops S R} {meas : Batch → M}
    {Rep : M → S → Prop} {Out : M → R → Prop} (hR : Represents ops meas Rep Out)
    (d : Diff) (hd : Conserves d) (a : Acc S) (ha : Rep (meas a.dfs.flatten) a.state) (new : Batch) :
    let r := windowAcc d ops (some a) new
    r.1.dfs = (d.apply a.dfs new).1 ∧ Rep (meas r.1.dfs.flatten) r.1.state ∧ Out (meas r.1.dfs.flatten) r.2 := by
  simp only [windowAcc, Option.getD_some]
  have hc := hd a.dfs new
  generalize d.apply a.dfs new = p at hc
  obtain ⟨dfs', old⟩ := p
  simp only at hc ⊢
  have h1 := hR.onNew _ _ new ha
  have h2 := foldOld_rep hR old _ _ h1
  simp only at h2
  have key : meas a.dfs.flatten + meas new - meas old.flatten = meas dfs'.flatten := by
    rw [← hR.meas_append, ← hc, hR.meas_append, CGroup.add_sub_cancel_left]
  rw [key] at h2
  exact ⟨trivial, h2⟩

theorem windowAcc_none {S R : Type} (d : Diff) (ops : Ops S R) (new : Batch) :
    windowAcc d ops none new = windowAcc d ops (some { dfs := [], state := ops.initial }) new := rfl



/-! ### The scalar aggregations represent the moments -/

theorem sumV_append (a b : Batch) : sumV (a ++ b) = sumV a + sumV b := by
  induction a with
  | nil => simp [sumV]; grind
  | cons r a ih => simp only [List.cons_append, sumV, ih]; grind
theorem sumSq_append (a b : Batch) : sumSq (a ++ b) = sumSq a + sumSq b := by
  induction a with
  | nil => simp [sumSq]; grind
  | cons r a ih => simp only [List.cons_append, sumSq, ih]; grind
theorem cnt_append (a b : Batch) : cnt (a ++ b) = cnt a + cnt b := by
  induction a with
  | nil => simp [cnt]
  | cons r a ih => simp only [List.cons_append, cnt, ih]; omega
theorem size_append (a b : Batch) : size (a ++ b) = size a + size b := by
  simp [size]

theorem mom_nil : mom [] = 0 := rfl
theorem mom_append (a b : Batch) : mom (a ++ b) = mom a + mom b := by
  simp only [mom, Mom.add_def, sumV_append, sumSq_append, cnt_append, size_append]

theorem len_zero_of_not_pos {α : Type} {l : List α} (h : ¬ l.length > 0) : l = [] := by
  cases l <;> simp_all

theorem Sum.represents :
    Represents Sum.ops mom (fun m s => s = m.s) (fun m r => r = m.s) where
  meas_nil := mom_nil
  meas_append := mom_append
  init := rfl
  onNew := by
    intro m s b hs; subst hs
    simp only [Sum.ops]
    split
    · exact ⟨rfl, rfl⟩
    · next h => rw [len_zero_of_not_pos h]; simp [mom_nil, CGroup.add_zero]
  onOld := by intro m s o hs; subst hs; exact ⟨rfl, rfl⟩

theorem Count.represents :
    Represents Count.ops mom (fun m s => s = m.c) (fun m r => r = m.c) where
  meas_nil := mom_nil
  meas_append := mom_append
  init := rfl
  onNew := by intro m s b hs; subst hs; exact ⟨rfl, rfl⟩
  onOld := by intro m s o hs; subst hs; exact ⟨rfl, rfl⟩

theorem Size.represents :
    Represents Size.ops mom (fun m s => s = m.n) (fun m r => r = m.n) where
  meas_nil := mom_nil
  meas_append := mom_append
  init := rfl
  onNew := by intro m s b hs; subst hs; exact ⟨rfl, rfl⟩
  onOld := by intro m s o hs; subst hs; exact ⟨rfl, rfl⟩

theorem Mean.represents :
    Represents Mean.ops mom (fun m s => s = (m.s, m.c)) (fun m r => r = meanRes m.s m.c) where
  meas_nil := mom_nil
  meas_append := mom_append
  init := rfl
  onNew := by
    intro m s b hs; subst hs
    simp only [Mean.ops]
    split
    · exact ⟨rfl, rfl⟩
    · next h => rw [len_zero_of_not_pos h]; simp [mom_nil, CGroup.add_zero]
  onOld := by
    intro m s b hs; subst hs
    simp only [Mean.ops]
    split
    · exact ⟨rfl, rfl⟩
    · next h => rw [len_zero_of_not_pos h]; simp [mom_nil, CGroup.sub_zero]

theorem Var.represents (ddof : Int) :
    Represents (Var.ops ddof) mom (fun m s => s = (m.s, m.q, m.c)) (fun m r => r = varRes ddof m.s m.q m.c) where
  meas_nil := mom_nil
  meas_append := mom_append
  init := rfl
  onNew := by
    intro m s b hs; subst hs
    simp only [Var.ops]
    split
    · exact ⟨rfl, rfl⟩
    · next h => rw [len_zero_of_not_pos h]; simp [mom_nil, CGroup.add_zero]
  onOld := by
    intro m s b hs; subst hs
    simp only [Var.ops]
    split
    · exact ⟨rfl, rfl⟩
    · next h => rw [len_zero_of_not_pos h]; simp [mom_nil, CGroup.sub_zero]



/-! ### Windows and runs -/

/-- The rows the property talks about. -/
def windowOf : Diff → List Row → List Row
  | .iloc N, H => lastN N H
  | .loc T, H => within T H
  | .locOrig T, H => within T H

/-- Admissible histories: any for `window(n=N)`; a positive duration and a non-decreasing index
for `window(value=T)`.  (The unrepaired `value` window is excluded: see `C07.lean`.) -/
def Valid : Diff → List Row → Prop
  | .iloc _, _ => True
  | .loc T, H => 1 ≤ T ∧ Sorted H
  | .locOrig _, _ => False

theorem Valid.prefix {d : Diff} {H b : List Row} (h : Valid d (H ++ b)) : Valid d H := by
  cases d with
  | iloc N => trivial
  | loc T => exact ⟨h.1, (List.pairwise_append.mp h.2).1⟩
  | locOrig T => exact h

theorem conserves (d : Diff) : Conserves d := by
  intro dfs new
  cases d with
  | iloc N => exact (diffIloc_spec dfs new N).2
  | loc T =>
    show (diffLocWith 1 dfs new T).2.flatten ++ (diffLocWith 1 dfs new T).1.flatten = _
    unfold diffLocWith
    simp only
    split
    · simp [pushNew_flatten]
    · rw [locLoop_flatten, pushNew_flatten]
  | locOrig T =>
    show (diffLocWith 0 dfs new T).2.flatten ++ (diffLocWith 0 dfs new T).1.flatten = _
    unfold diffLocWith
    simp only
    split
    · simp [pushNew_flatten]
    · rw [locLoop_flatten, pushNew_flatten]

/-- Invariant of the deque of retained frames w.r.t. the history `H` of all rows seen. -/
def DfsInv (d : Diff) (dfs : List Batch) (H : List Row) : Prop :=
  dfs.flatten = windowOf d H ∧ ∀ b ∈ dfs, b ≠ []

theorem DfsInv.nil (d : Diff) : DfsInv d [] [] := by
  refine ⟨?_, by simp⟩
  cases d <;> simp [windowOf, lastN, within]

/-- **The retained frames are exactly the window**, and the way they were cut has the shape
`diff_align` expects. -/
theorem diff_window (d : Diff) (dfs : List Batch) (H new : List Row)
    (hv : Valid d (H ++ new)) (h : DfsInv d dfs H) :
    DfsInv d (d.apply dfs new).1 (H ++ new) ∧
    Shape (pushNew dfs new) (d.apply dfs new).1 (d.apply dfs new).2 := by
  obtain ⟨hw, hne⟩ := h
  cases d with
  | iloc N =>
    have hs := diffIloc_spec dfs new N
    refine ⟨⟨?_, diffIloc_nonempty dfs new N hne⟩, ?_⟩
    · show (diffIloc dfs new N).1.flatten = lastN N (H ++ new)
      rw [hs.1, hw]; exact lastN_lastN_append N H new
    · show Shape _ (diffIloc dfs new N).1 (diffIloc dfs new N).2
      unfold diffIloc
      simp only
      split
      · exact trimFront_shape _ _
      · exact ⟨[], _, rfl, Or.inl ⟨rfl, rfl⟩⟩
  | loc T =>
    obtain ⟨hT, hsorted⟩ := hv
    have hw' : dfs.flatten = within T H := hw
    have hs : Sorted (dfs.flatten ++ new) := by
      rw [hw']
      exact List.Pairwise.sublist ((within_sublist T H).append (List.Sublist.refl new)) hsorted
    have ⟨h1, h2, h3⟩ := diffLoc_spec dfs new T hne hs
    refine ⟨⟨?_, h3⟩, h1⟩
    show (diffLoc dfs new T).1.flatten = within T (H ++ new)
    rw [h2, hw', within_step T hT]
  | locOrig T => exact absurd hv (by simp [Valid])

/-! ### Feeding batches -/

theorem run_length {A R : Type} (step : Option A → Batch → A × R) (acc : Option A) (bs : List Batch) :
    (run step acc bs).2.length = bs.length := by
  induction bs generalizing acc with
  | nil => rfl
  | cons b bs ih => simp [run, ih]

/-- If `Inv` is established by every step and each step's emission satisfies `P` of the rows
seen so far, then the `k`-th emission satisfies `P` of the first `k+1` batches. -/
theorem run_results {A R : Type} (step : Option A → Batch → A × R)
    (Inv : Option A → List Row → Prop) (P : List Row → R → Prop) (V : List Row → Prop)
    (hV : ∀ H b, V (H ++ b) → V H)
    (hstep : ∀ acc H b, Inv acc H → V (H ++ b) → Inv (some (step acc b).1) (H ++ b) ∧ P (H ++ b) (step acc b).2)
    (bs : List Batch) (acc : Option A) (H : List Row) (hi : Inv acc H) (hv : V (H ++ bs.flatten))
    (k : Nat) (r : R) (hk : (run step acc bs).2[k]? = some r) :
    P (H ++ (bs.take (k + 1)).flatten) r := by
  induction bs generalizing acc H k with
  | nil => simp [run] at hk
  | cons b bs ih =>
    have hvb : V (H ++ b) := by
      apply hV (H ++ b) bs.flatten
      simpa [List.append_assoc] using hv
    have ⟨hi', hp⟩ := hstep acc H b hi hvb
    cases k with
    | zero =>
      simp only [run, List.getElem?_cons_zero, Option.some.injEq] at hk
      subst hk
      simpa using hp
    | succ k =>
      simp only [run, List.getElem?_cons_succ] at hk
      have := ih (some (step acc b).1) (H ++ b) hi' (by simpa [List.append_assoc] using hv) k hk
      simpa [List.append_assoc] using this

/-- **Scalar windowed aggregations**: after the `k`-th batch, the emitted result is the one
determined by the measure of exactly the rows of the window. -/
theorem window_run {S R M : Type} [CGroup M] {ops : Ops S R} {meas : Batch → M}
    {Rep : M → S → Prop} {Out : M → R → Prop} (hR : Represents ops meas Rep Out)
    (d : Diff) (bs : List Batch) (hv : Valid d bs.flatten) (k : Nat) (r : R)
    (hk : (run (windowAcc d ops) none bs).2[k]? = some r) :
    Out (meas (windowOf d (bs.take (k + 1)).flatten)) r := by
  have := run_results (windowAcc d ops)
    (fun acc H => ∃ a, (acc = some a ∨ (acc = none ∧ a = { dfs := [], state := ops.initial })) ∧
      DfsInv d a.dfs H ∧ Rep (meas a.dfs.flatten) a.state)
    (fun H r => Out (meas (windowOf d H)) r) (Valid d) (fun H b h => h.prefix)
    ?_ bs none [] ⟨{ dfs := [], state := ops.initial }, Or.inr ⟨rfl, rfl⟩, DfsInv.nil d, ?_⟩
    (by simpa using hv) k r hk
  · simpa using this
  · intro acc H b ⟨a, hacc, hinv, hrep⟩ hvb
    have hstep := windowAcc_step hR d (conserves d) a hrep b
    have heq : windowAcc d ops acc b = windowAcc d ops (some a) b := by
      rcases hacc with rfl | ⟨rfl, rfl⟩
      · rfl
      · rfl
    rw [heq]
    simp only at hstep
    obtain ⟨h1, h2, h3⟩ := hstep
    have hw := (diff_window d a.dfs H b hvb hinv).1
    rw [← h1] at hw
    refine ⟨⟨_, Or.inl rfl, hw, h2⟩, ?_⟩
    rw [← hw.1]; exact h3
  · simp only [List.flatten_nil]; rw [hR.meas_nil]; exact hR.init



/-- The frames retained after feeding `bs` (the evolution of `acc['dfs']`, which does not depend
on the aggregation). -/
def retained (d : Diff) (bs : List Batch) : List Batch :=
  bs.foldl (fun dfs b => (d.apply dfs b).1) []

theorem foldl_dfs_inv (d : Diff) (bs : List Batch) (dfs0 : List Batch) (H0 : List Row)
    (h0 : DfsInv d dfs0 H0) (hv : Valid d (H0 ++ bs.flatten)) :
    DfsInv d (bs.foldl (fun dfs b => (d.apply dfs b).1) dfs0) (H0 ++ bs.flatten) := by
  induction bs generalizing dfs0 H0 with
  | nil => simpa using h0
  | cons b bs ih =>
    have hv' : Valid d (H0 ++ b ++ bs.flatten) := by simpa [List.append_assoc] using hv
    have h1 := (diff_window d dfs0 H0 b hv'.prefix h0).1
    have := ih _ _ h1 hv'
    simpa [List.append_assoc] using this

/-- The deque invariant holds along every run. -/
theorem retained_inv (d : Diff) (bs : List Batch) (hv : Valid d bs.flatten) :
    DfsInv d (retained d bs) bs.flatten := by
  have := foldl_dfs_inv d bs [] [] (DfsInv.nil d) (by simpa using hv)
  simpa [retained] using this

theorem run_dfs_aux {S R : Type} (d : Diff) (ops : Ops S R) (bs : List Batch) (a0 : Acc S) :
    ∃ a, (run (windowAcc d ops) (some a0) bs).1 = some a ∧
      a.dfs = bs.foldl (fun dfs b => (d.apply dfs b).1) a0.dfs := by
  induction bs generalizing a0 with
  | nil => exact ⟨a0, rfl, rfl⟩
  | cons b bs ih =>
    obtain ⟨a, h1, h2⟩ := ih (windowAcc d ops (some a0) b).1
    refine ⟨a, by simpa [run] using h1, ?_⟩
    rw [h2]; rfl

/-- `acc['dfs']` after a run is `retained`. -/
theorem run_dfs {S R : Type} (d : Diff) (ops : Ops S R) (b : Batch) (bs : List Batch) :
    ∃ a, (run (windowAcc d ops) none (b :: bs)).1 = some a ∧ a.dfs = retained d (b :: bs) := by
  obtain ⟨a, h1, h2⟩ := run_dfs_aux d ops bs (windowAcc d ops none b).1
  exact ⟨a, by simpa [run] using h1, by rw [h2]; rfl⟩

end StreamzVerif.Window
