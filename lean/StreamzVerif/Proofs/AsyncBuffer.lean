import StreamzVerif.Model.AsyncBuffer
/-! Invariants of the `buffer` / `map_async` event-loop models (helper lemmas for Props/AsyncBuffer.lean). -/
set_option linter.unusedSimpArgs false
set_option linter.unusedVariables false
set_option linter.unnecessarySimpa false
namespace StreamzVerif.AsyncBuffer

variable {α β : Type}

def keys (l : List (Item α)) : List (Nat × α) := l.map Item.key
def ids (l : List (Item α)) : List Nat := l.map Item.id

def fireId : Ev α β → Option Nat
  | .fire i => some i
  | _ => none
def emitOf : Ev α β → Option (Nat × β)
  | .emit i v => some (i, v)
  | _ => none
def acceptId : Ev α β → Option Nat
  | .accept i => some i
  | _ => none
def lostId : Ev α β → Option Nat
  | .joblost i => some i
  | _ => none
def startOf : Ev α β → Option (Nat × α)
  | .jobstart i v => some (i, v)
  | _ => none

@[simp] theorem keys_nil : keys ([] : List (Item α)) = [] := rfl
@[simp] theorem keys_cons (a : Item α) (l) : keys (a :: l) = a.key :: keys l := rfl
@[simp] theorem keys_append (l₁ l₂ : List (Item α)) : keys (l₁ ++ l₂) = keys l₁ ++ keys l₂ := by simp [keys]
@[simp] theorem ids_nil : ids ([] : List (Item α)) = [] := rfl
@[simp] theorem ids_cons (a : Item α) (l) : ids (a :: l) = a.id :: ids l := rfl
@[simp] theorem ids_append (l₁ l₂ : List (Item α)) : ids (l₁ ++ l₂) = ids l₁ ++ ids l₂ := by simp [ids]
theorem ids_eq_keys (l : List (Item α)) : ids l = (keys l).map Prod.fst := by
  simp [ids, keys, Item.key]
@[simp] theorem keys_length (l : List (Item α)) : (keys l).length = l.length := by simp [keys]
@[simp] theorem ids_length (l : List (Item α)) : (ids l).length = l.length := by simp [ids]

/-! ### counters -/

@[simp] theorem handOver_key (b : Bool) (it : Item α) : (it.handOver b).key = it.key := by
  cases b <;> rfl
@[simp] theorem handOver_id (b : Bool) (it : Item α) : (it.handOver b).id = it.id := by
  cases b <;> rfl
@[simp] theorem handOver_val (b : Bool) (it : Item α) : (it.handOver b).val = it.val := by
  cases b <;> rfl
@[simp] theorem finish_key (b : Bool) (it : Item α) : (it.finish b).key = it.key := by
  cases b <;> rfl
@[simp] theorem finish_id (b : Bool) (it : Item α) : (it.finish b).id = it.id := by
  cases b <;> rfl
@[simp] theorem finish_val (b : Bool) (it : Item α) : (it.finish b).val = it.val := by
  cases b <;> rfl
@[simp] theorem enter_key (i : Nat) (x : α) : (Item.enter i x).key = (i, x) := rfl
@[simp] theorem enter_id (i : Nat) (x : α) : (Item.enter i x).id = i := rfl
@[simp] theorem enter_val (i : Nat) (x : α) : (Item.enter i x).val = x := rfl
@[simp] theorem enter_cnt (i : Nat) (x : α) : (Item.enter i x).cnt = 1 := by
  simp [Item.enter, Item.retain, Item.release]
@[simp] theorem enter_fires (i : Nat) (x : α) : (Item.enter i x).fires = 0 := by
  simp [Item.enter, Item.retain, Item.release]

theorem handOver_cnt (b : Bool) (it : Item α) (h : it.cnt = 1) :
    (it.handOver b).cnt = (if b then 2 else 1) ∧ (it.handOver b).fires = it.fires := by
  cases b <;> simp [Item.handOver, Item.retain, Item.release, h]

theorem finish_cnt (b : Bool) (it : Item α) (h : it.cnt = (if b then 2 else 1)) :
    (it.finish b).cnt = 0 ∧ (it.finish b).fires = it.fires + 1 := by
  cases b <;> simp at h <;> simp [Item.finish, Item.release, h]

/-! ### event filters -/

section evs
variable {γ : Type}

@[simp] theorem fire_enterEvs1 (i : Nat) : (enterEvs1 i : List (Ev α β)).filterMap fireId = [] := rfl
@[simp] theorem emit_enterEvs1 (i : Nat) : (enterEvs1 i : List (Ev α β)).filterMap emitOf = [] := rfl
@[simp] theorem acc_enterEvs1 (i : Nat) : (enterEvs1 i : List (Ev α β)).filterMap acceptId = [] := rfl
@[simp] theorem lost_enterEvs1 (i : Nat) : (enterEvs1 i : List (Ev α β)).filterMap lostId = [] := rfl
@[simp] theorem start_enterEvs1 (i : Nat) : (enterEvs1 i : List (Ev α β)).filterMap startOf = [] := rfl
@[simp] theorem fire_enterEvs2 (i : Nat) (x : α) : (enterEvs2 i x : List (Ev α β)).filterMap fireId = [] := by
  simp [enterEvs2, relEvs, Item.retain, fireId]
@[simp] theorem emit_enterEvs2 (i : Nat) (x : α) : (enterEvs2 i x : List (Ev α β)).filterMap emitOf = [] := by
  simp [enterEvs2, relEvs, Item.retain, emitOf]
@[simp] theorem acc_enterEvs2 (i : Nat) (x : α) : (enterEvs2 i x : List (Ev α β)).filterMap acceptId = [] := by
  simp [enterEvs2, relEvs, Item.retain, acceptId]
@[simp] theorem lost_enterEvs2 (i : Nat) (x : α) : (enterEvs2 i x : List (Ev α β)).filterMap lostId = [] := by
  simp [enterEvs2, relEvs, Item.retain, lostId]
@[simp] theorem start_enterEvs2 (i : Nat) (x : α) : (enterEvs2 i x : List (Ev α β)).filterMap startOf = [] := by
  simp [enterEvs2, relEvs, Item.retain, startOf]

@[simp] theorem emit_relEvs (it : Item γ) : (relEvs it : List (Ev α β)).filterMap emitOf = [] := by
  unfold relEvs; split <;> simp [emitOf]
@[simp] theorem acc_relEvs (it : Item γ) : (relEvs it : List (Ev α β)).filterMap acceptId = [] := by
  unfold relEvs; split <;> simp [acceptId]
@[simp] theorem lost_relEvs (it : Item γ) : (relEvs it : List (Ev α β)).filterMap lostId = [] := by
  unfold relEvs; split <;> simp [lostId]
@[simp] theorem start_relEvs (it : Item γ) : (relEvs it : List (Ev α β)).filterMap startOf = [] := by
  unfold relEvs; split <;> simp [startOf]

@[simp] theorem emit_emitEvs (b : Bool) (it : Item γ) (v : β) :
    (emitEvs b it v : List (Ev α β)).filterMap emitOf = [(it.id, v)] := by
  cases b <;> simp [emitEvs, List.filterMap_cons, emitOf, -List.filterMap_eq_nil_iff]
@[simp] theorem acc_emitEvs (b : Bool) (it : Item γ) (v : β) :
    (emitEvs b it v : List (Ev α β)).filterMap acceptId = [] := by
  cases b <;> simp [emitEvs, List.filterMap_cons, acceptId, -List.filterMap_eq_nil_iff]
@[simp] theorem lost_emitEvs (b : Bool) (it : Item γ) (v : β) :
    (emitEvs b it v : List (Ev α β)).filterMap lostId = [] := by
  cases b <;> simp [emitEvs, List.filterMap_cons, lostId, -List.filterMap_eq_nil_iff]
@[simp] theorem start_emitEvs (b : Bool) (it : Item γ) (v : β) :
    (emitEvs b it v : List (Ev α β)).filterMap startOf = [] := by
  cases b <;> simp [emitEvs, List.filterMap_cons, startOf, -List.filterMap_eq_nil_iff]
theorem fire_emitEvs (b : Bool) (it : Item γ) (v : β) (h : it.cnt = 1) :
    (emitEvs b it v : List (Ev α β)).filterMap fireId = [] := by
  cases b <;> simp [emitEvs, relEvs, Item.retain, fireId, h]

@[simp] theorem emit_finishEvs (b : Bool) (it : Item γ) : (finishEvs b it : List (Ev α β)).filterMap emitOf = [] := by
  cases b <;> simp [finishEvs]
@[simp] theorem acc_finishEvs (b : Bool) (it : Item γ) : (finishEvs b it : List (Ev α β)).filterMap acceptId = [] := by
  cases b <;> simp [finishEvs]
@[simp] theorem lost_finishEvs (b : Bool) (it : Item γ) : (finishEvs b it : List (Ev α β)).filterMap lostId = [] := by
  cases b <;> simp [finishEvs]
@[simp] theorem start_finishEvs (b : Bool) (it : Item γ) : (finishEvs b it : List (Ev α β)).filterMap startOf = [] := by
  cases b <;> simp [finishEvs]
theorem fire_finishEvs (b : Bool) (it : Item γ) (h : it.cnt = (if b then 2 else 1)) :
    (finishEvs b it : List (Ev α β)).filterMap fireId = [it.id] := by
  cases b <;> simp at h <;> simp [finishEvs, relEvs, Item.release, List.filterMap_cons, fireId, h]

end evs

/-! ## buffer -/

/-- Everything the property theorems need, as one inductive invariant of the settled states. -/
structure BInv (c : BCfg) (s : BSt α) : Prop where
  /-- history: nothing lost, duplicated or reordered -/
  hist : s.ins = keys s.fin ++ keys s.cb.items ++ keys s.queue ++ keys s.putters
  outs : s.outs = keys s.fin ++ keys s.cb.items
  idx : s.ins.map Prod.fst = List.range s.ins.length
  bound : c.n ≠ 0 → s.queue.length ≤ c.n
  blocked : s.putters ≠ [] → c.full s.queue = true
  idle : s.cb = .idle → s.queue = [] ∧ s.putters = []
  acc : s.accepted = ids s.fin ++ ids s.cb.items ++ ids s.queue
  held : ∀ it ∈ s.queue ++ s.putters, it.cnt = 1 ∧ it.fires = 0
  emitting : ∀ it ∈ s.cb.items, it.cnt = (if c.downAsync then 2 else 1) ∧ it.fires = 0
  finished : ∀ it ∈ s.fin, it.cnt = 0 ∧ it.fires = 1
  fired : s.log.filterMap fireId = ids s.fin
  emitted : s.log.filterMap emitOf = s.outs
  accepts : s.log.filterMap acceptId = s.accepted

theorem binv_init (c : BCfg) : BInv c (binit α) := by
  constructor <;> simp [binit, Cb.items]

theorem full_iff (c : BCfg) {γ : Type} (q : List γ) : c.full q = true ↔ c.n ≠ 0 ∧ c.n ≤ q.length := by
  simp [BCfg.full]

/-- `startEmit` on a state whose `cb` slot is free. -/
theorem binv_startEmit (c : BCfg) (s : BSt α) (it : Item α)
    (hcb : s.cb = .idle)
    (hist : s.ins = keys s.fin ++ [it.key] ++ keys s.queue ++ keys s.putters)
    (outs : s.outs = keys s.fin)
    (idx : s.ins.map Prod.fst = List.range s.ins.length)
    (bound : c.n ≠ 0 → s.queue.length ≤ c.n)
    (blocked : s.putters ≠ [] → c.full s.queue = true)
    (acc : s.accepted = ids s.fin ++ [it.id] ++ ids s.queue)
    (held : ∀ it ∈ s.queue ++ s.putters, it.cnt = 1 ∧ it.fires = 0)
    (hit : it.cnt = 1 ∧ it.fires = 0)
    (finished : ∀ it ∈ s.fin, it.cnt = 0 ∧ it.fires = 1)
    (fired : s.log.filterMap fireId = ids s.fin)
    (emitted : s.log.filterMap emitOf = s.outs)
    (accepts : s.log.filterMap acceptId = s.accepted) :
    BInv c (startEmit c s it) := by
  have hc := handOver_cnt c.downAsync it hit.1
  constructor
  · simpa [startEmit, Cb.items] using hist
  · simp [startEmit, Cb.items, outs]
  · simpa [startEmit] using idx
  · simpa [startEmit] using bound
  · simpa [startEmit] using blocked
  · simp [startEmit]
  · simpa [startEmit, Cb.items] using acc
  · simpa [startEmit] using held
  · intro it' h
    simp [startEmit, Cb.items] at h
    subst h
    exact ⟨hc.1, by rw [hc.2]; exact hit.2⟩
  · simpa [startEmit] using finished
  · simp [startEmit, List.filterMap_append, fired, fire_emitEvs _ _ _ hit.1]
  · simp [startEmit, List.filterMap_append, emitted, Item.key]
  · simp [startEmit, List.filterMap_append, accepts]

theorem binv_arriveP (c : BCfg) (s : BSt α) (x : α) (h : BInv c s) : BInv c (arriveP c s x) := by
  unfold arriveP
  cases hcb : s.cb with
  | idle =>
    obtain ⟨hq, hp⟩ := h.idle hcb
    have hist := h.hist
    have acc := h.acc
    have outs := h.outs
    simp [hcb, Cb.items, hq, hp] at hist acc outs
    apply binv_startEmit
    · simp [hcb]
    · simp [hist, hq, hp]
    · simp [outs]
    · simp [List.map_append, h.idx, List.range_succ]
    · simp [hq]
    · simp [hp]
    · simp [acc, hq]
    · simp [hq, hp]
    · simp
    · simpa using h.finished
    · simp [List.filterMap_append, h.fired, acceptId, fireId, List.filterMap_cons]
    · simp [List.filterMap_append, h.emitted, outs, emitOf, List.filterMap_cons]
    · simp [List.filterMap_append, h.accepts, acc, acceptId, List.filterMap_cons]
  | emitting e =>
    have hist := h.hist
    have acc := h.acc
    have outs := h.outs
    have hem := h.emitting
    simp [hcb, Cb.items] at hist acc outs hem
    by_cases hf : c.full s.queue = true
    · simp only [hf, if_true]
      constructor
      · simp [hcb, Cb.items, hist]
      · simp [hcb, Cb.items, outs]
      · simp [List.map_append, h.idx, List.range_succ]
      · simpa using h.bound
      · intro _; simpa using hf
      · simp [hcb]
      · simp [hcb, Cb.items, acc]
      · intro it hit
        simp at hit
        rcases hit with hit | hit | hit
        · exact h.held it (by simp [hit])
        · exact h.held it (by simp [hit])
        · subst hit; simp
      · simpa [hcb, Cb.items] using hem
      · simpa using h.finished
      · simp [List.filterMap_append, h.fired]
      · simp [List.filterMap_append, h.emitted]
      · simp [List.filterMap_append, h.accepts]
    · have hp : s.putters = [] := by
        cases hp' : s.putters with
        | nil => rfl
        | cons a t => exact absurd (h.blocked (by simp [hp'])) hf
      have hf' : c.full s.queue = false := by simpa using hf
      simp only [hf', Bool.false_eq_true, if_false]
      have hnf : ¬ (c.n ≠ 0 ∧ c.n ≤ s.queue.length) := by rwa [← full_iff]
      constructor
      · simp [hcb, Cb.items, hist, hp]
      · simp [hcb, Cb.items, outs]
      · simp [List.map_append, h.idx, List.range_succ]
      · intro hn
        have := h.bound hn
        simp
        omega
      · simp [hp]
      · simp [hcb]
      · simp [hcb, Cb.items, acc]
      · intro it hit
        simp [hp] at hit
        rcases hit with hit | hit
        · exact h.held it (by simp [hit])
        · subst hit; simp
      · simpa [hcb, Cb.items] using hem
      · simpa using h.finished
      · simp [List.filterMap_append, h.fired, fireId, List.filterMap_cons]
      · simp [List.filterMap_append, h.emitted, emitOf, List.filterMap_cons]
      · simp [List.filterMap_append, h.accepts, acceptId, List.filterMap_cons]

/-- `nextP` on a state whose `cb` has just finished an emission. -/
theorem binv_nextP (c : BCfg) (s : BSt α)
    (hcb : s.cb = .idle)
    (hist : s.ins = keys s.fin ++ keys s.queue ++ keys s.putters)
    (outs : s.outs = keys s.fin)
    (idx : s.ins.map Prod.fst = List.range s.ins.length)
    (bound : c.n ≠ 0 → s.queue.length ≤ c.n)
    (blocked : s.putters ≠ [] → c.full s.queue = true)
    (acc : s.accepted = ids s.fin ++ ids s.queue)
    (held : ∀ it ∈ s.queue ++ s.putters, it.cnt = 1 ∧ it.fires = 0)
    (finished : ∀ it ∈ s.fin, it.cnt = 0 ∧ it.fires = 1)
    (fired : s.log.filterMap fireId = ids s.fin)
    (emitted : s.log.filterMap emitOf = s.outs)
    (accepts : s.log.filterMap acceptId = s.accepted) :
    BInv c (nextP c s) := by
  unfold nextP
  cases hp : s.putters with
  | nil =>
    cases hq : s.queue with
    | nil =>
      simp only
      constructor
      · simpa [Cb.items, hp, hq] using hist
      · simpa [Cb.items] using outs
      · simpa using idx
      · simpa using bound
      · simpa using blocked
      · intro _; simp
      · simpa [Cb.items, hq] using acc
      · simpa using held
      · simp [Cb.items]
      · simpa using finished
      · simpa using fired
      · simpa using emitted
      · simpa using accepts
    | cons h t =>
      simp only
      simp [hp, hq] at hist acc bound
      apply binv_startEmit
      · exact hcb
      · simp [hist, hp]
      · simpa using outs
      · simpa using idx
      · intro hn; have := bound hn; simp; omega
      · simp [hp]
      · simp [acc]
      · intro it hit; simp [hp] at hit; exact held it (by simp [hq, hit])
      · exact held h (by simp [hq])
      · simpa using finished
      · simpa using fired
      · simpa using emitted
      · simpa using accepts
  | cons p ps =>
    have hfull := blocked (by simp [hp])
    rw [full_iff] at hfull
    cases hq : s.queue with
    | nil => simp [hq] at hfull
    | cons h t =>
      simp only
      simp [hp, hq] at hist acc bound hfull
      apply binv_startEmit
      · exact hcb
      · simp [hist]
      · simpa using outs
      · simpa using idx
      · intro hn; have := bound hn; simpa using this
      · intro _; rw [full_iff]; simp; exact hfull
      · simp [acc]
      · intro it hit
        simp at hit
        rcases hit with hit | hit | hit
        · exact held it (by simp [hq, hit])
        · subst hit; exact held it (by simp [hp])
        · exact held it (by simp [hp, hit])
      · exact held h (by simp [hq])
      · simpa using finished
      · simp [List.filterMap_append, fired, fireId, List.filterMap_cons]
      · simp [List.filterMap_append, emitted, emitOf, List.filterMap_cons]
      · simp [List.filterMap_append, accepts, acceptId, List.filterMap_cons]

theorem binv_doneP (c : BCfg) (s : BSt α) (h : BInv c s) : BInv c (doneP c s) := by
  unfold doneP
  cases hcb : s.cb with
  | idle => exact h
  | emitting e =>
    have hist := h.hist
    have acc := h.acc
    have outs := h.outs
    have hem := h.emitting
    simp [hcb, Cb.items] at hist acc outs hem
    have hfc := finish_cnt c.downAsync e hem.1
    apply binv_nextP
    · rfl
    · simp [hist]
    · simp [outs]
    · simpa using h.idx
    · simpa using h.bound
    · simpa using h.blocked
    · simp [acc]
    · simpa using h.held
    · intro it hit
      simp at hit
      rcases hit with hit | hit
      · exact h.finished it hit
      · subst hit; exact ⟨hfc.1, by rw [hfc.2, hem.2]⟩
    · simp [List.filterMap_append, h.fired, fire_finishEvs _ _ hem.1]
    · simp [List.filterMap_append, h.emitted]
    · simp [List.filterMap_append, h.accepts]

theorem binv_bstep (c : BCfg) (s : BSt α) (a : BAct α) (h : BInv c s) : BInv c (bstep c s a) := by
  cases a with
  | arrive x =>
    simp only [bstep]
    split
    · exact binv_arriveP c s x h
    · exact binv_doneP c _ (binv_arriveP c s x h)
  | downDone =>
    simp only [bstep]
    split
    · exact binv_doneP c s h
    · exact h

theorem binv_brun (c : BCfg) (acts : List (BAct α)) (s : BSt α) (h : BInv c s) : BInv c (brun c s acts) := by
  induction acts generalizing s with
  | nil => exact h
  | cons a t ih => exact ih _ (binv_bstep c s a h)

/-! ### buffer: liveness -/

/-- Number of elements inside the node. -/
def bmeasure (s : BSt α) : Nat := s.queue.length + s.putters.length + s.cb.items.length

@[simp] theorem startEmit_ins (c : BCfg) (s : BSt α) (it : Item α) : (startEmit c s it).ins = s.ins := rfl
@[simp] theorem startEmit_fin (c : BCfg) (s : BSt α) (it : Item α) : (startEmit c s it).fin = s.fin := rfl

theorem nextP_ins (c : BCfg) (s : BSt α) : (nextP c s).ins = s.ins := by
  unfold nextP
  split
  · split <;> simp
  · split <;> simp

theorem nextP_fin (c : BCfg) (s : BSt α) : (nextP c s).fin = s.fin := by
  unfold nextP
  split
  · split <;> simp
  · split <;> simp

theorem doneP_ins (c : BCfg) (s : BSt α) : (doneP c s).ins = s.ins := by
  unfold doneP
  split
  · rfl
  · simp [nextP_ins]

theorem nextP_measure (c : BCfg) (s : BSt α) (h : s.cb = .idle) : bmeasure (nextP c s) = bmeasure s := by
  unfold nextP
  split
  · next p ps hp =>
    split
    · next hq => simp [bmeasure, startEmit, Cb.items, hp, hq, h]
    · next hh t hq => simp [bmeasure, startEmit, Cb.items, hp, hq, h]; omega
  · next hp =>
    split
    · next hh t hq => simp [bmeasure, startEmit, Cb.items, hp, hq, h]
    · next hq => simp [bmeasure, Cb.items, hp, hq, h]

theorem doneP_measure (c : BCfg) (s : BSt α) (it : Item α) (h : s.cb = .emitting it) :
    bmeasure (doneP c s) + 1 = bmeasure s := by
  unfold doneP
  simp only [h]
  rw [nextP_measure _ _ rfl]
  simp [bmeasure, Cb.items, h]

theorem brun_replicate_succ (c : BCfg) (s : BSt α) (k : Nat) :
    brun c s (List.replicate (k + 1) BAct.downDone) = brun c (bstep c s .downDone) (List.replicate k .downDone) := by
  simp [brun, List.replicate_succ]

/-- From any state, `bmeasure` consumer completions bring `cb` back to its idle state. -/
theorem bdrain (c : BCfg) (hc : c.downAsync = true) (k : Nat) (s : BSt α) (hk : bmeasure s ≤ k) (hinv : BInv c s) :
    ∃ j, (brun c s (List.replicate j BAct.downDone)).cb = .idle := by
  induction k generalizing s with
  | zero =>
    refine ⟨0, ?_⟩
    cases hcb : s.cb with
    | idle => simp [brun, hcb]
    | emitting it => simp [bmeasure, hcb, Cb.items] at hk
  | succ k ih =>
    cases hcb : s.cb with
    | idle => exact ⟨0, by simp [brun, hcb]⟩
    | emitting it =>
      have hm := doneP_measure c s it hcb
      have hstep : bstep c s .downDone = doneP c s := by simp [bstep, hc]
      obtain ⟨j, hj⟩ := ih (doneP c s) (by omega) (binv_doneP c s hinv)
      exact ⟨j + 1, by rw [brun_replicate_succ, hstep]; exact hj⟩

theorem brun_replicate_ins (c : BCfg) (j : Nat) (s : BSt α) :
    (brun c s (List.replicate j BAct.downDone)).ins = s.ins := by
  induction j generalizing s with
  | zero => rfl
  | succ j ih =>
    rw [brun_replicate_succ, ih]
    simp only [bstep]
    split
    · exact doneP_ins c s
    · rfl

/-- With a synchronous consumer the buffer is empty at every settled point. -/
theorem bsync_step (c : BCfg) (hc : c.downAsync = false) (s : BSt α) (a : BAct α) (hinv : BInv c s)
    (h : s.cb = .idle) : (bstep c s a).cb = .idle := by
  cases a with
  | downDone => simp [bstep, hc, h]
  | arrive x =>
    obtain ⟨hq, hp⟩ := hinv.idle h
    simp [bstep, hc, arriveP, h, doneP, startEmit, nextP, hq, hp]

theorem bsync_run (c : BCfg) (hc : c.downAsync = false) (acts : List (BAct α)) (s : BSt α) (hinv : BInv c s)
    (h : s.cb = .idle) : (brun c s acts).cb = .idle := by
  induction acts generalizing s with
  | nil => exact h
  | cons a t ih => exact ih _ (binv_bstep c s a hinv) (bsync_step c hc s a hinv h)

/-- The finished elements are never touched again. -/
theorem bstep_fin_prefix (c : BCfg) (s : BSt α) (a : BAct α) : s.fin <+: (bstep c s a).fin := by
  have hd : ∀ s : BSt α, s.fin <+: (doneP c s).fin := by
    intro s
    unfold doneP
    split
    · exact List.prefix_refl _
    · simp [nextP_fin]
  have ha : ∀ x, (arriveP c s x).fin = s.fin := by
    intro x
    unfold arriveP
    split
    · simp
    · split <;> simp
  cases a with
  | arrive x =>
    simp only [bstep]
    split
    · rw [ha]; exact List.prefix_refl _
    · have := hd (arriveP c s x); rw [ha] at this; exact this
  | downDone =>
    simp only [bstep]
    split
    · exact hd s
    · exact List.prefix_refl _

theorem brun_fin_prefix (c : BCfg) (acts : List (BAct α)) (s : BSt α) : s.fin <+: (brun c s acts).fin := by
  induction acts generalizing s with
  | nil => exact List.prefix_refl _
  | cons a t ih => exact List.IsPrefix.trans (bstep_fin_prefix c s a) (ih _)

/-- ids of the elements inside or behind the node are pairwise distinct (they are arrival indices). -/
theorem binv_ids_nodup (c : BCfg) (s : BSt α) (h : BInv c s) :
    (ids s.fin ++ ids s.cb.items ++ ids s.queue ++ ids s.putters).Nodup := by
  have : ids s.fin ++ ids s.cb.items ++ ids s.queue ++ ids s.putters = s.ins.map Prod.fst := by
    rw [h.hist]; simp [ids_eq_keys]
  rw [this, h.idx]
  exact List.nodup_range

/-! ## map_async -/

def jitems (q : List (Job α)) : List (Item α) := q.map Job.it
def finItems (fin : List (Item α × Bool)) : List (Item α) := fin.map Prod.fst
/-- jobs whose result was emitted, awaited downstream and released -/
def okItems (fin : List (Item α × Bool)) : List (Item α) := (fin.filter (fun e => e.2)).map Prod.fst
/-- jobs that raised -/
def lostItems (fin : List (Item α × Bool)) : List (Item α) := (fin.filter (fun e => !e.2)).map Prod.fst
def Worker.awaitingItems : Worker α → List (Item α)
  | .awaiting it => [it]
  | _ => []
def Worker.emittingItems : Worker α → List (Item α)
  | .emitting it => [it]
  | _ => []

@[simp] theorem jitems_nil : jitems ([] : List (Job α)) = [] := rfl
@[simp] theorem jitems_cons (j : Job α) (q) : jitems (j :: q) = j.it :: jitems q := rfl
@[simp] theorem jitems_append (q₁ q₂ : List (Job α)) : jitems (q₁ ++ q₂) = jitems q₁ ++ jitems q₂ := by simp [jitems]
@[simp] theorem jitems_length (q : List (Job α)) : (jitems q).length = q.length := by simp [jitems]
@[simp] theorem finItems_nil : finItems ([] : List (Item α × Bool)) = [] := rfl
@[simp] theorem finItems_append (l₁ l₂ : List (Item α × Bool)) : finItems (l₁ ++ l₂) = finItems l₁ ++ finItems l₂ := by
  simp [finItems]
@[simp] theorem finItems_single (it : Item α) (b : Bool) : finItems [(it, b)] = [it] := rfl
@[simp] theorem okItems_nil : okItems ([] : List (Item α × Bool)) = [] := rfl
@[simp] theorem okItems_append (l₁ l₂ : List (Item α × Bool)) : okItems (l₁ ++ l₂) = okItems l₁ ++ okItems l₂ := by
  simp [okItems]
@[simp] theorem okItems_true (it : Item α) : okItems [(it, true)] = [it] := rfl
@[simp] theorem okItems_false (it : Item α) : okItems [(it, false)] = [] := rfl
@[simp] theorem lostItems_nil : lostItems ([] : List (Item α × Bool)) = [] := rfl
@[simp] theorem lostItems_append (l₁ l₂ : List (Item α × Bool)) : lostItems (l₁ ++ l₂) = lostItems l₁ ++ lostItems l₂ := by
  simp [lostItems]
@[simp] theorem lostItems_true (it : Item α) : lostItems [(it, true)] = [] := rfl
@[simp] theorem lostItems_false (it : Item α) : lostItems [(it, false)] = [it] := rfl
@[simp] theorem items_idle : (Worker.idle : Worker α).items = [] := rfl
@[simp] theorem items_awaiting (it : Item α) : (Worker.awaiting it).items = [it] := rfl
@[simp] theorem items_emitting (it : Item α) : (Worker.emitting it).items = [it] := rfl
@[simp] theorem aw_idle : (Worker.idle : Worker α).awaitingItems = [] := rfl
@[simp] theorem aw_awaiting (it : Item α) : (Worker.awaiting it).awaitingItems = [it] := rfl
@[simp] theorem aw_emitting (it : Item α) : (Worker.emitting it).awaitingItems = [] := rfl
@[simp] theorem em_idle : (Worker.idle : Worker α).emittingItems = [] := rfl
@[simp] theorem em_awaiting (it : Item α) : (Worker.awaiting it).emittingItems = [] := rfl
@[simp] theorem em_emitting (it : Item α) : (Worker.emitting it).emittingItems = [it] := rfl

@[simp] theorem jitems_markQ (i : Nat) (st : JStat) (q : List (Job α)) : jitems (markQ i st q) = jitems q := by
  induction q with
  | nil => rfl
  | cons j t ih =>
    simp only [markQ, List.map_cons, jitems_cons] at ih ⊢
    rw [ih]
    split <;> rfl
@[simp] theorem markQ_length (i : Nat) (st : JStat) (q : List (Job α)) : (markQ i st q).length = q.length := by
  simp [markQ]

/-- what the consumer receives for an element -/
def outOf (f : α → β) (it : Item α) : Nat × β := (it.id, f it.val)

structure MInv (f : α → β) (c : MCfg) (s : MSt α β) : Prop where
  /-- history: every arrival is exactly once in: finished ++ worker ++ work queue ++ waiting, in arrival order -/
  hist : s.ins = keys (finItems s.fin) ++ keys s.worker.items ++ keys (jitems s.queue) ++ keys s.waiting
  outs : s.outs = (okItems s.fin ++ s.worker.emittingItems).map (outOf f)
  idx : s.ins.map Prod.fst = List.range s.ins.length
  bound : c.p ≠ 0 → s.queue.length ≤ c.p
  acc : s.accepted = ids (finItems s.fin) ++ ids s.worker.items ++ ids (jitems s.queue)
  held : ∀ it ∈ s.waiting ++ jitems s.queue ++ s.worker.awaitingItems, it.cnt = 1 ∧ it.fires = 0
  emitting : ∀ it ∈ s.worker.emittingItems, it.cnt = (if c.downAsync then 2 else 1) ∧ it.fires = 0
  finished : ∀ it ∈ okItems s.fin, it.cnt = 0 ∧ it.fires = 1
  lost : ∀ it ∈ lostItems s.fin, it.cnt = 1 ∧ it.fires = 0
  fired : s.log.filterMap fireId = ids (okItems s.fin)
  emitted : s.log.filterMap emitOf = s.outs
  accepts : s.log.filterMap acceptId = s.accepted
  losts : s.log.filterMap lostId = ids (lostItems s.fin)
  starts : s.log.filterMap startOf = keys (finItems s.fin) ++ keys s.worker.items ++ keys (jitems s.queue)

theorem minv_init (f : α → β) (c : MCfg) : MInv f c (minit α β) := by
  constructor <;> simp [minit]

theorem mfull_iff (c : MCfg) {γ : Type} (q : List γ) : c.full q = true ↔ c.p ≠ 0 ∧ c.p ≤ q.length := by
  simp [MCfg.full]

/-- `deliver` for an element `it` that the worker holds (the `worker` field of `s` is overwritten). -/
theorem minv_deliver (f : α → β) (c : MCfg) (s : MSt α β) (it : Item α)
    (hist : s.ins = keys (finItems s.fin) ++ [it.key] ++ keys (jitems s.queue) ++ keys s.waiting)
    (outs : s.outs = (okItems s.fin).map (outOf f))
    (idx : s.ins.map Prod.fst = List.range s.ins.length)
    (bound : c.p ≠ 0 → s.queue.length ≤ c.p)
    (acc : s.accepted = ids (finItems s.fin) ++ [it.id] ++ ids (jitems s.queue))
    (held : ∀ it ∈ s.waiting ++ jitems s.queue, it.cnt = 1 ∧ it.fires = 0)
    (hit : it.cnt = 1 ∧ it.fires = 0)
    (finished : ∀ it ∈ okItems s.fin, it.cnt = 0 ∧ it.fires = 1)
    (lost : ∀ it ∈ lostItems s.fin, it.cnt = 1 ∧ it.fires = 0)
    (fired : s.log.filterMap fireId = ids (okItems s.fin))
    (emitted : s.log.filterMap emitOf = s.outs)
    (accepts : s.log.filterMap acceptId = s.accepted)
    (losts : s.log.filterMap lostId = ids (lostItems s.fin))
    (starts : s.log.filterMap startOf = keys (finItems s.fin) ++ [it.key] ++ keys (jitems s.queue)) :
    MInv f c (deliver f c s it) := by
  unfold deliver
  cases hc : c.downAsync with
  | true =>
    have hh := handOver_cnt true it hit.1
    simp only [if_true]
    constructor
    · simpa using hist
    · simp [outs, outOf]
    · simpa using idx
    · simpa using bound
    · simpa using acc
    · simpa using held
    · intro it' h'
      simp at h'
      subst h'
      simp [hc]
      exact ⟨hh.1, by rw [hh.2]; exact hit.2⟩
    · simpa using finished
    · simpa using lost
    · simp [List.filterMap_append, fired, fire_emitEvs _ _ _ hit.1]
    · simp [List.filterMap_append, emitted]
    · simp [List.filterMap_append, accepts]
    · simp [List.filterMap_append, losts]
    · simpa [List.filterMap_append] using starts
  | false =>
    have hh := handOver_cnt false it hit.1
    have hf := finish_cnt false (it.handOver false) hh.1
    simp only [Bool.false_eq_true, if_false]
    constructor
    · simpa using hist
    · simp [outs, outOf]
    · simpa using idx
    · simpa using bound
    · simpa using acc
    · simpa using held
    · simp
    · intro it' h'
      simp at h'
      rcases h' with h' | h'
      · exact finished it' h'
      · subst h'
        exact ⟨hf.1, by rw [hf.2, hh.2, hit.2]⟩
    · simpa using lost
    · simp [List.filterMap_append, fired, fire_emitEvs _ _ _ hit.1, fire_finishEvs false _ hh.1]
    · simp [List.filterMap_append, emitted]
    · simp [List.filterMap_append, accepts]
    · simp [List.filterMap_append, losts]
    · simpa [List.filterMap_append] using starts

theorem minv_lose (f : α → β) (c : MCfg) (s : MSt α β) (it : Item α)
    (hist : s.ins = keys (finItems s.fin) ++ [it.key] ++ keys (jitems s.queue) ++ keys s.waiting)
    (outs : s.outs = (okItems s.fin).map (outOf f))
    (idx : s.ins.map Prod.fst = List.range s.ins.length)
    (bound : c.p ≠ 0 → s.queue.length ≤ c.p)
    (acc : s.accepted = ids (finItems s.fin) ++ [it.id] ++ ids (jitems s.queue))
    (held : ∀ it ∈ s.waiting ++ jitems s.queue, it.cnt = 1 ∧ it.fires = 0)
    (hit : it.cnt = 1 ∧ it.fires = 0)
    (finished : ∀ it ∈ okItems s.fin, it.cnt = 0 ∧ it.fires = 1)
    (lost : ∀ it ∈ lostItems s.fin, it.cnt = 1 ∧ it.fires = 0)
    (fired : s.log.filterMap fireId = ids (okItems s.fin))
    (emitted : s.log.filterMap emitOf = s.outs)
    (accepts : s.log.filterMap acceptId = s.accepted)
    (losts : s.log.filterMap lostId = ids (lostItems s.fin))
    (starts : s.log.filterMap startOf = keys (finItems s.fin) ++ [it.key] ++ keys (jitems s.queue)) :
    MInv f c (lose s it) := by
  unfold lose
  constructor
  · simpa using hist
  · simpa using outs
  · simpa using idx
  · simpa using bound
  · simpa using acc
  · simpa using held
  · simp
  · simpa using finished
  · intro it' h'
    simp at h'
    rcases h' with h' | h'
    · exact lost it' h'
    · subst h'; exact hit
  · simp [List.filterMap_append, fired, fireId, List.filterMap_cons]
  · simp [List.filterMap_append, emitted, emitOf, List.filterMap_cons]
  · simp [List.filterMap_append, accepts, acceptId, List.filterMap_cons]
  · simp [List.filterMap_append, losts, lostId, List.filterMap_cons]
  · simpa [List.filterMap_append, startOf, List.filterMap_cons] using starts

/-- the first waiting insert job gets a slot -/
def admitJob (s : MSt α β) (w : Item α) (ws : List (Item α)) : MSt α β :=
  { s with waiting := ws, queue := s.queue ++ [{ it := w, st := .running }],
           accepted := s.accepted ++ [w.id], log := s.log ++ [Ev.jobstart w.id w.val, Ev.accept w.id] }

/-- the idle worker takes the head of the work queue -/
def takeHead (f : α → β) (c : MCfg) (s : MSt α β) (j : Job α) (rest : List (Job α)) : MSt α β :=
  match j.st with
  | .running => { s with queue := rest, worker := .awaiting j.it }
  | .done => deliver f c { s with queue := rest } j.it
  | .failed => lose { s with queue := rest } j.it

theorem settleStep_take (f : α → β) (c : MCfg) (s : MSt α β) (j : Job α) (rest : List (Job α))
    (hw : s.worker = .idle) (hq : s.queue = j :: rest) : settleStep f c s = some (takeHead f c s j rest) := by
  simp only [settleStep, hw, hq, takeHead]
  cases j.st <;> rfl

theorem settleStep_admit (f : α → β) (c : MCfg) (s : MSt α β) (h : s.worker ≠ .idle ∨ s.queue = []) :
    settleStep f c s = match s.waiting with
      | w :: ws => if c.full s.queue then none else some (admitJob s w ws)
      | [] => none := by
  unfold settleStep
  split
  · next j rest hw hq =>
    rcases h with h | h
    · exact absurd hw h
    · simp [hq] at h
  · rfl

theorem minv_admit (f : α → β) (c : MCfg) (s : MSt α β) (w : Item α) (ws : List (Item α))
    (h : MInv f c s) (hw : s.waiting = w :: ws) (hf : c.full s.queue = false) : MInv f c (admitJob s w ws) := by
  have hnf : ¬ (c.p ≠ 0 ∧ c.p ≤ s.queue.length) := by
    rw [← mfull_iff]; simp [hf]
  have hist := h.hist
  simp [hw] at hist
  unfold admitJob
  constructor
  · simp [hist, Item.key]
  · simpa using h.outs
  · simpa using h.idx
  · intro hp; have := h.bound hp; simp; omega
  · simp [h.acc]
  · intro it hit
    simp at hit
    apply h.held it
    simp [hw]
    grind
  · simpa using h.emitting
  · simpa using h.finished
  · simpa using h.lost
  · simp [List.filterMap_append, h.fired, fireId, List.filterMap_cons]
  · simp [List.filterMap_append, h.emitted, emitOf, List.filterMap_cons]
  · simp [List.filterMap_append, h.accepts, acceptId, List.filterMap_cons]
  · simp [List.filterMap_append, h.losts, lostId, List.filterMap_cons]
  · simp [List.filterMap_append, h.starts, startOf, List.filterMap_cons, Item.key]

theorem minv_takeHead (f : α → β) (c : MCfg) (s : MSt α β) (j : Job α) (rest : List (Job α))
    (h : MInv f c s) (hw : s.worker = .idle) (hq : s.queue = j :: rest) : MInv f c (takeHead f c s j rest) := by
  have hist := h.hist
  have outs := h.outs
  have acc := h.acc
  have held := h.held
  have starts := h.starts
  have bound := h.bound
  simp [hw, hq] at hist outs acc starts bound
  have hj : j.it.cnt = 1 ∧ j.it.fires = 0 := held j.it (by simp [hq])
  have hheld : ∀ it ∈ s.waiting ++ jitems rest, it.cnt = 1 ∧ it.fires = 0 := by
    intro it hit
    apply held it
    simp [hq]
    simp at hit
    grind
  unfold takeHead
  cases hst : j.st with
  | running =>
    simp only
    constructor
    · simpa using hist
    · simpa using outs
    · simpa using h.idx
    · intro hp; have := bound hp; simp; omega
    · simpa using acc
    · intro it hit
      simp at hit
      have hh := hheld it
      simp at hh
      grind
    · simp
    · simpa using h.finished
    · simpa using h.lost
    · simpa using h.fired
    · simpa using h.emitted
    · simpa using h.accepts
    · simpa using h.losts
    · simpa using starts
  | done =>
    simp only
    apply minv_deliver
    · simpa using hist
    · simpa using outs
    · simpa using h.idx
    · intro hp; have := bound hp; simp; omega
    · simpa using acc
    · simpa using hheld
    · exact hj
    · simpa using h.finished
    · simpa using h.lost
    · simpa using h.fired
    · simpa using h.emitted
    · simpa using h.accepts
    · simpa using h.losts
    · simpa using starts
  | failed =>
    simp only
    apply minv_lose
    · simpa using hist
    · simpa using outs
    · simpa using h.idx
    · intro hp; have := bound hp; simp; omega
    · simpa using acc
    · simpa using hheld
    · exact hj
    · simpa using h.finished
    · simpa using h.lost
    · simpa using h.fired
    · simpa using h.emitted
    · simpa using h.accepts
    · simpa using h.losts
    · simpa using starts

theorem minv_settleStep (f : α → β) (c : MCfg) (s s' : MSt α β) (h : MInv f c s)
    (hs : settleStep f c s = some s') : MInv f c s' := by
  by_cases hw : s.worker = .idle
  · cases hq : s.queue with
    | cons j rest =>
      rw [settleStep_take f c s j rest hw hq] at hs
      cases hs
      exact minv_takeHead f c s j rest h hw hq
    | nil =>
      rw [settleStep_admit f c s (Or.inr hq)] at hs
      cases hwt : s.waiting with
      | nil => simp [hwt] at hs
      | cons w ws =>
        simp only [hwt] at hs
        cases hf : c.full s.queue with
        | true => simp [hf, hq] at hs; simp [hq, hs] at hf
        | false =>
          simp [hf, hq] at hs
          rw [← hs.2]
          exact minv_admit f c s w ws h hwt hf
  · rw [settleStep_admit f c s (Or.inl hw)] at hs
    cases hwt : s.waiting with
    | nil => simp [hwt] at hs
    | cons w ws =>
      simp only [hwt] at hs
      cases hf : c.full s.queue with
      | true => simp [hf] at hs
      | false =>
        simp [hf] at hs
        rw [← hs]
        exact minv_admit f c s w ws h hwt hf

theorem minv_settle (f : α → β) (c : MCfg) (k : Nat) (s : MSt α β) (h : MInv f c s) : MInv f c (settle f c k s) := by
  induction k generalizing s with
  | zero => exact h
  | succ k ih =>
    simp only [settle]
    cases hs : settleStep f c s with
    | none => exact h
    | some s' => exact ih s' (minv_settleStep f c s s' h hs)

theorem minv_arriveM (f : α → β) (c : MCfg) (s : MSt α β) (x : α) (h : MInv f c s) : MInv f c (arriveM s x) := by
  unfold arriveM
  constructor
  · simp [h.hist]
  · simpa using h.outs
  · simp [List.map_append, h.idx, List.range_succ]
  · simpa using h.bound
  · simpa using h.acc
  · intro it hit
    simp at hit
    have hh := h.held it
    simp at hh
    have he : (Item.enter s.ins.length x).cnt = 1 ∧ (Item.enter s.ins.length x).fires = 0 := by simp
    grind
  · simpa using h.emitting
  · simpa using h.finished
  · simpa using h.lost
  · simp [List.filterMap_append, h.fired]
  · simp [List.filterMap_append, h.emitted]
  · simp [List.filterMap_append, h.accepts]
  · simp [List.filterMap_append, h.losts]
  · simp [List.filterMap_append, h.starts]

theorem minv_markQ (f : α → β) (c : MCfg) (s : MSt α β) (i : Nat) (st : JStat) (h : MInv f c s) :
    MInv f c { s with queue := markQ i st s.queue } := by
  constructor
  · simpa using h.hist
  · simpa using h.outs
  · simpa using h.idx
  · simpa using h.bound
  · simpa using h.acc
  · simpa using h.held
  · simpa using h.emitting
  · simpa using h.finished
  · simpa using h.lost
  · simpa using h.fired
  · simpa using h.emitted
  · simpa using h.accepts
  · simpa using h.losts
  · simpa using h.starts

/-- the invariant seen from a worker that awaits `it` -/
theorem minv_awaiting_pre (f : α → β) (c : MCfg) (s : MSt α β) (it : Item α) (h : MInv f c s)
    (hw : s.worker = .awaiting it) :
    s.ins = keys (finItems s.fin) ++ [it.key] ++ keys (jitems s.queue) ++ keys s.waiting ∧
    s.outs = (okItems s.fin).map (outOf f) ∧
    s.accepted = ids (finItems s.fin) ++ [it.id] ++ ids (jitems s.queue) ∧
    (∀ it ∈ s.waiting ++ jitems s.queue, it.cnt = 1 ∧ it.fires = 0) ∧
    (it.cnt = 1 ∧ it.fires = 0) ∧
    s.log.filterMap startOf = keys (finItems s.fin) ++ [it.key] ++ keys (jitems s.queue) := by
  have hist := h.hist
  have outs := h.outs
  have acc := h.acc
  have starts := h.starts
  have held := h.held
  simp [hw] at hist outs acc starts held
  refine ⟨by simpa using hist, by simpa using outs, by simpa using acc, ?_, ?_, by simpa using starts⟩
  · intro it' hit
    apply held it'
    simp at hit
    grind
  · exact held it (Or.inr (Or.inr rfl))

theorem minv_jobDoneM (f : α → β) (c : MCfg) (s : MSt α β) (i : Nat) (h : MInv f c s) : MInv f c (jobDoneM f c s i) := by
  unfold jobDoneM
  split
  · next it hw =>
    split
    · obtain ⟨h1, h2, h3, h4, h5, h6⟩ := minv_awaiting_pre f c s it h hw
      exact minv_deliver f c s it h1 h2 h.idx h.bound h3 h4 h5 h.finished h.lost h.fired h.emitted h.accepts h.losts h6
    · exact minv_markQ f c s i .done h
  · exact minv_markQ f c s i .done h

theorem minv_jobFailM (f : α → β) (c : MCfg) (s : MSt α β) (i : Nat) (h : MInv f c s) : MInv f c (jobFailM s i) := by
  unfold jobFailM
  split
  · next it hw =>
    split
    · obtain ⟨h1, h2, h3, h4, h5, h6⟩ := minv_awaiting_pre f c s it h hw
      exact minv_lose f c s it h1 h2 h.idx h.bound h3 h4 h5 h.finished h.lost h.fired h.emitted h.accepts h.losts h6
    · exact minv_markQ f c s i .failed h
  · exact minv_markQ f c s i .failed h

theorem minv_downDoneM (f : α → β) (c : MCfg) (s : MSt α β) (h : MInv f c s) : MInv f c (downDoneM c s) := by
  unfold downDoneM
  split
  · next it hw =>
    have hist := h.hist
    have outs := h.outs
    have acc := h.acc
    have starts := h.starts
    have held := h.held
    have hem := h.emitting
    simp [hw] at hist outs acc starts held hem
    have hf := finish_cnt c.downAsync it hem.1
    constructor
    · simpa using hist
    · simpa [outOf] using outs
    · simpa using h.idx
    · simpa using h.bound
    · simpa using acc
    · simpa using held
    · simp
    · intro it' h'
      simp at h'
      rcases h' with h' | h'
      · exact h.finished it' h'
      · subst h'; exact ⟨hf.1, by rw [hf.2, hem.2]⟩
    · simpa using h.lost
    · simp [List.filterMap_append, h.fired, fire_finishEvs _ _ hem.1]
    · simp [List.filterMap_append, h.emitted]
    · simp [List.filterMap_append, h.accepts]
    · simp [List.filterMap_append, h.losts]
    · simpa [List.filterMap_append] using starts
  · exact h

theorem minv_mprim (f : α → β) (c : MCfg) (s : MSt α β) (a : MAct α) (h : MInv f c s) : MInv f c (mprim f c s a) := by
  cases a with
  | arrive x => exact minv_arriveM f c s x h
  | jobDone i => exact minv_jobDoneM f c s i h
  | jobFail i => exact minv_jobFailM f c s i h
  | downDone => exact minv_downDoneM f c s h

theorem minv_mstep (f : α → β) (c : MCfg) (s : MSt α β) (a : MAct α) (h : MInv f c s) : MInv f c (mstep f c s a) :=
  minv_settle f c _ _ (minv_mprim f c s a h)

theorem minv_mrun (f : α → β) (c : MCfg) (acts : List (MAct α)) (s : MSt α β) (h : MInv f c s) :
    MInv f c (mrun f c s acts) := by
  induction acts generalizing s with
  | nil => exact h
  | cons a t ih => exact ih _ (minv_mstep f c s a h)

/-! ### map_async: settled states -/

theorem deliver_waiting (f : α → β) (c : MCfg) (s : MSt α β) (it : Item α) :
    (deliver f c s it).waiting = s.waiting ∧ (deliver f c s it).queue = s.queue := by
  unfold deliver; split <;> simp

theorem settleStep_fuel (f : α → β) (c : MCfg) (s s' : MSt α β) (hs : settleStep f c s = some s') :
    fuel s' + 1 = fuel s := by
  by_cases hw : s.worker = .idle
  · cases hq : s.queue with
    | cons j rest =>
      rw [settleStep_take f c s j rest hw hq] at hs
      cases hs
      unfold takeHead
      cases j.st
      · simp [fuel, hq]; omega
      · simp [fuel, hq, (deliver_waiting f c _ _).1, (deliver_waiting f c _ _).2]; omega
      · simp [fuel, hq, lose]; omega
    | nil =>
      rw [settleStep_admit f c s (Or.inr hq)] at hs
      cases hwt : s.waiting with
      | nil => simp [hwt] at hs
      | cons w ws =>
        simp only [hwt] at hs
        cases hf : c.full s.queue with
        | true => simp [hf] at hs
        | false =>
          simp [hf] at hs
          rw [← hs]
          simp [fuel, admitJob, hwt]; omega
  · rw [settleStep_admit f c s (Or.inl hw)] at hs
    cases hwt : s.waiting with
    | nil => simp [hwt] at hs
    | cons w ws =>
      simp only [hwt] at hs
      cases hf : c.full s.queue with
      | true => simp [hf] at hs
      | false =>
        simp [hf] at hs
        rw [← hs]
        simp [fuel, admitJob, hwt]; omega

/-- with enough fuel `settle` ends in a state in which no internal move is enabled -/
theorem settle_settled (f : α → β) (c : MCfg) (k : Nat) (s : MSt α β) (hk : fuel s ≤ k) :
    settleStep f c (settle f c k s) = none := by
  induction k generalizing s with
  | zero =>
    simp only [settle]
    cases hs : settleStep f c s with
    | none => rfl
    | some s' => have := settleStep_fuel f c s s' hs; omega
  | succ k ih =>
    simp only [settle]
    cases hs : settleStep f c s with
    | none => simpa using hs
    | some s' =>
      have := settleStep_fuel f c s s' hs
      exact ih s' (by omega)

theorem mstep_settled (f : α → β) (c : MCfg) (s : MSt α β) (a : MAct α) : settleStep f c (mstep f c s a) = none :=
  settle_settled f c _ _ (Nat.le_refl _)

/-- what "no internal move enabled" means -/
theorem settled_iff (f : α → β) (c : MCfg) (s : MSt α β) (h : settleStep f c s = none) :
    (s.worker = .idle → s.queue = []) ∧ (s.waiting ≠ [] → c.full s.queue = true) := by
  constructor
  · intro hw
    cases hq : s.queue with
    | nil => rfl
    | cons j rest => rw [settleStep_take f c s j rest hw hq] at h; cases h
  · intro hne
    have hor : s.worker ≠ .idle ∨ s.queue = [] := by
      by_cases hw : s.worker = .idle
      · right
        cases hq : s.queue with
        | nil => rfl
        | cons j rest => rw [settleStep_take f c s j rest hw hq] at h; cases h
      · exact Or.inl hw
    rw [settleStep_admit f c s hor] at h
    cases hwt : s.waiting with
    | nil => exact absurd hwt hne
    | cons w ws =>
      simp only [hwt] at h
      cases hf : c.full s.queue with
      | true => rfl
      | false => simp [hf] at h

/-! ### map_async: no deadlock -/

def Worker.weight : Worker α → Nat
  | .idle => 0
  | .emitting _ => 1
  | .awaiting _ => 2

/-- work still to be done: twice the elements not yet taken by the worker, plus the worker's own stage -/
def mmeasure (s : MSt α β) : Nat := 2 * (s.waiting.length + s.queue.length) + s.worker.weight

theorem deliver_measure (f : α → β) (c : MCfg) (s : MSt α β) (it : Item α) :
    mmeasure (deliver f c s it) ≤ 2 * (s.waiting.length + s.queue.length) + 1 := by
  unfold deliver
  split <;> simp [mmeasure, Worker.weight]

theorem settleStep_measure (f : α → β) (c : MCfg) (s s' : MSt α β) (hs : settleStep f c s = some s') :
    mmeasure s' ≤ mmeasure s := by
  by_cases hw : s.worker = .idle
  · cases hq : s.queue with
    | cons j rest =>
      rw [settleStep_take f c s j rest hw hq] at hs
      cases hs
      unfold takeHead
      cases j.st
      · simp [mmeasure, hq, hw, Worker.weight]; omega
      · have := deliver_measure f c { s with queue := rest } j.it
        simp [mmeasure, hq, hw, Worker.weight] at this ⊢; omega
      · simp [mmeasure, hq, hw, lose, Worker.weight]; omega
    | nil =>
      rw [settleStep_admit f c s (Or.inr hq)] at hs
      cases hwt : s.waiting with
      | nil => simp [hwt] at hs
      | cons w ws =>
        simp only [hwt] at hs
        cases hf : c.full s.queue with
        | true => simp [hf] at hs
        | false =>
          simp [hf] at hs
          rw [← hs]
          simp [mmeasure, admitJob, hwt]; omega
  · rw [settleStep_admit f c s (Or.inl hw)] at hs
    cases hwt : s.waiting with
    | nil => simp [hwt] at hs
    | cons w ws =>
      simp only [hwt] at hs
      cases hf : c.full s.queue with
      | true => simp [hf] at hs
      | false =>
        simp [hf] at hs
        rw [← hs]
        simp [mmeasure, admitJob, hwt]; omega

theorem settle_measure (f : α → β) (c : MCfg) (k : Nat) (s : MSt α β) : mmeasure (settle f c k s) ≤ mmeasure s := by
  induction k generalizing s with
  | zero => exact Nat.le_refl _
  | succ k ih =>
    simp only [settle]
    cases hs : settleStep f c s with
    | none => exact Nat.le_refl _
    | some s' => exact Nat.le_trans (ih s') (settleStep_measure f c s s' hs)

/-- job completions and consumer completions: the actions the environment owes the node -/
def MAct.isCompletion : MAct α → Bool
  | .jobDone _ => true
  | .downDone => true
  | _ => false

/-- In a settled state with work left, one completion action makes progress. -/
theorem mprogress (f : α → β) (c : MCfg) (s : MSt α β) (hs : settleStep f c s = none) (hm : 0 < mmeasure s) :
    ∃ a : MAct α, a.isCompletion = true ∧ mmeasure (mstep f c s a) < mmeasure s := by
  obtain ⟨h1, h2⟩ := settled_iff f c s hs
  cases hw : s.worker with
  | idle =>
    have hq := h1 hw
    have hwt : s.waiting = [] := by
      cases hwt : s.waiting with
      | nil => rfl
      | cons w ws =>
        have := h2 (by simp [hwt])
        simp [hq, MCfg.full] at this
    simp [mmeasure, hw, hq, hwt, Worker.weight] at hm
  | emitting it =>
    refine ⟨.downDone, rfl, ?_⟩
    have : mmeasure (mprim f c s .downDone) < mmeasure s := by
      simp [mprim, downDoneM, hw, mmeasure, Worker.weight]
    exact Nat.lt_of_le_of_lt (settle_measure f c _ _) this
  | awaiting it =>
    refine ⟨.jobDone it.id, rfl, ?_⟩
    have : mmeasure (mprim f c s (.jobDone it.id)) < mmeasure s := by
      have := deliver_measure f c s it
      simp [mprim, jobDoneM, hw, mmeasure, Worker.weight] at this ⊢
      omega
    exact Nat.lt_of_le_of_lt (settle_measure f c _ _) this

/-- From every settled state finitely many completion actions drain the node. -/
theorem mdrain (f : α → β) (c : MCfg) (k : Nat) (s : MSt α β) (hs : settleStep f c s = none) (hk : mmeasure s ≤ k) :
    ∃ acts : List (MAct α), (∀ a ∈ acts, a.isCompletion = true) ∧ mmeasure (mrun f c s acts) = 0 := by
  induction k generalizing s with
  | zero => exact ⟨[], by simp, by simp [mrun]; omega⟩
  | succ k ih =>
    by_cases hm : mmeasure s = 0
    · exact ⟨[], by simp, by simp [mrun, hm]⟩
    · obtain ⟨a, ha, hlt⟩ := mprogress f c s hs (Nat.pos_of_ne_zero hm)
      obtain ⟨acts, hacts, hfin⟩ := ih (mstep f c s a) (mstep_settled f c s a) (by omega)
      refine ⟨a :: acts, ?_, ?_⟩
      · intro b hb
        simp at hb
        rcases hb with hb | hb
        · rw [hb]; exact ha
        · exact hacts b hb
      · simpa [mrun] using hfin

theorem measure_zero (s : MSt α β) (h : mmeasure s = 0) : s.waiting = [] ∧ s.queue = [] ∧ s.worker = .idle := by
  unfold mmeasure at h
  have h1 : s.waiting.length = 0 := by omega
  have h2 : s.queue.length = 0 := by omega
  have h3 : s.worker.weight = 0 := by omega
  refine ⟨List.eq_nil_of_length_eq_zero h1, List.eq_nil_of_length_eq_zero h2, ?_⟩
  cases hw : s.worker with
  | idle => rfl
  | emitting it => simp [hw, Worker.weight] at h3
  | awaiting it => simp [hw, Worker.weight] at h3

theorem mrun_settled (f : α → β) (c : MCfg) (acts : List (MAct α)) (s : MSt α β) (hs : settleStep f c s = none) :
    settleStep f c (mrun f c s acts) = none := by
  induction acts generalizing s with
  | nil => exact hs
  | cons a t ih => exact ih _ (mstep_settled f c s a)

theorem mrun_append (f : α → β) (c : MCfg) (a b : List (MAct α)) (s : MSt α β) :
    mrun f c s (a ++ b) = mrun f c (mrun f c s a) b := by
  simp [mrun, List.foldl_append]

/-! ### map_async: runs without failing jobs -/

def NoFail (s : MSt α β) : Prop := (∀ j ∈ s.queue, j.st ≠ .failed) ∧ (∀ e ∈ s.fin, e.2 = true)

theorem nofail_deliver (f : α → β) (c : MCfg) (s : MSt α β) (it : Item α) (h : NoFail s) : NoFail (deliver f c s it) := by
  unfold deliver
  split
  · exact h
  · refine ⟨h.1, ?_⟩
    intro e he
    simp at he
    rcases he with he | he
    · exact h.2 e he
    · rw [he]

theorem nofail_markDone (i : Nat) (s : MSt α β) (h : NoFail s) : NoFail { s with queue := markQ i .done s.queue } := by
  refine ⟨?_, h.2⟩
  intro j hj
  simp [markQ] at hj
  obtain ⟨j', hj', rfl⟩ := hj
  split
  · simp
  · exact h.1 j' hj'

theorem nofail_settleStep (f : α → β) (c : MCfg) (s s' : MSt α β) (h : NoFail s) (hs : settleStep f c s = some s') :
    NoFail s' := by
  by_cases hw : s.worker = .idle
  · cases hq : s.queue with
    | cons j rest =>
      rw [settleStep_take f c s j rest hw hq] at hs
      cases hs
      have hrest : NoFail { s with queue := rest } := ⟨fun j' hj' => h.1 j' (by simp [hq]; exact Or.inr hj'), h.2⟩
      unfold takeHead
      cases hst : j.st with
      | running => exact hrest
      | done => exact nofail_deliver f c _ _ hrest
      | failed => exact absurd hst (h.1 j (by simp [hq]))
    | nil =>
      rw [settleStep_admit f c s (Or.inr hq)] at hs
      cases hwt : s.waiting with
      | nil => simp [hwt] at hs
      | cons w ws =>
        simp only [hwt] at hs
        cases hf : c.full s.queue with
        | true => simp [hf] at hs
        | false =>
          simp [hf] at hs
          rw [← hs]
          refine ⟨?_, h.2⟩
          intro j hj
          simp [admitJob] at hj
          rcases hj with hj | hj
          · exact h.1 j hj
          · rw [hj]; simp
  · rw [settleStep_admit f c s (Or.inl hw)] at hs
    cases hwt : s.waiting with
    | nil => simp [hwt] at hs
    | cons w ws =>
      simp only [hwt] at hs
      cases hf : c.full s.queue with
      | true => simp [hf] at hs
      | false =>
        simp [hf] at hs
        rw [← hs]
        refine ⟨?_, h.2⟩
        intro j hj
        simp [admitJob] at hj
        rcases hj with hj | hj
        · exact h.1 j hj
        · rw [hj]; simp

theorem nofail_settle (f : α → β) (c : MCfg) (k : Nat) (s : MSt α β) (h : NoFail s) : NoFail (settle f c k s) := by
  induction k generalizing s with
  | zero => exact h
  | succ k ih =>
    simp only [settle]
    cases hs : settleStep f c s with
    | none => exact h
    | some s' => exact ih s' (nofail_settleStep f c s s' h hs)

/-- an action list in which no job fails -/
def MAct.isFail : MAct α → Bool
  | .jobFail _ => true
  | _ => false

theorem nofail_mstep (f : α → β) (c : MCfg) (s : MSt α β) (a : MAct α) (ha : a.isFail = false) (h : NoFail s) :
    NoFail (mstep f c s a) := by
  apply nofail_settle
  cases a with
  | arrive x => exact h
  | jobDone i =>
    simp only [mprim, jobDoneM]
    split
    · split
      · exact nofail_deliver f c s _ h
      · exact nofail_markDone i s h
    · exact nofail_markDone i s h
  | jobFail i => simp [MAct.isFail] at ha
  | downDone =>
    simp only [mprim, downDoneM]
    split
    · refine ⟨h.1, ?_⟩
      intro e he
      simp at he
      rcases he with he | he
      · exact h.2 e he
      · rw [he]
    · exact h

theorem nofail_mrun (f : α → β) (c : MCfg) (acts : List (MAct α)) (s : MSt α β)
    (ha : ∀ a ∈ acts, a.isFail = false) (h : NoFail s) : NoFail (mrun f c s acts) := by
  induction acts generalizing s with
  | nil => exact h
  | cons a t ih =>
    exact ih _ (fun b hb => ha b (by simp [hb])) (nofail_mstep f c s a (ha a (by simp)) h)

theorem okItems_of_all_ok (fin : List (Item α × Bool)) (h : ∀ e ∈ fin, e.2 = true) : okItems fin = finItems fin := by
  unfold okItems finItems
  rw [List.filter_eq_self.mpr]
  intro e he
  simpa using h e he

theorem map_outOf_keys (f : α → β) (l : List (Item α)) : l.map (outOf f) = (keys l).map (fun e => (e.1, f e.2)) := by
  simp [keys, outOf, Item.key]

theorem minv_ids_nodup (f : α → β) (c : MCfg) (s : MSt α β) (h : MInv f c s) :
    (ids (finItems s.fin) ++ ids s.worker.items ++ ids (jitems s.queue) ++ ids s.waiting).Nodup := by
  have : ids (finItems s.fin) ++ ids s.worker.items ++ ids (jitems s.queue) ++ ids s.waiting = s.ins.map Prod.fst := by
    rw [h.hist]; simp [ids_eq_keys]
  rw [this, h.idx]
  exact List.nodup_range

theorem okItems_sublist (fin : List (Item α × Bool)) : (okItems fin).Sublist (finItems fin) := by
  unfold okItems finItems
  exact List.Sublist.map _ List.filter_sublist

theorem lostItems_sublist (fin : List (Item α × Bool)) : (lostItems fin).Sublist (finItems fin) := by
  unfold lostItems finItems
  exact List.Sublist.map _ List.filter_sublist

theorem emittingItems_sublist (w : Worker α) : w.emittingItems.Sublist w.items := by
  cases w <;> simp

theorem ok_lost_length (fin : List (Item α × Bool)) : (okItems fin).length + (lostItems fin).length = fin.length := by
  induction fin with
  | nil => rfl
  | cons e t ih =>
    obtain ⟨it, b⟩ := e
    cases b <;> simp [okItems, lostItems, List.filter_cons] at ih ⊢ <;> omega

theorem ok_lost_disjoint (fin : List (Item α × Bool)) (hn : (ids (finItems fin)).Nodup) (i : Nat)
    (h1 : i ∈ ids (okItems fin)) (h2 : i ∈ ids (lostItems fin)) : False := by
  induction fin with
  | nil => simp at h1
  | cons e t ih =>
    obtain ⟨it, b⟩ := e
    have hn' : it.id ∉ ids (finItems t) ∧ (ids (finItems t)).Nodup := by
      simpa [finItems, ids] using hn
    have hsub1 : ∀ j, j ∈ ids (okItems t) → j ∈ ids (finItems t) :=
      fun j hj => (List.Sublist.map Item.id (okItems_sublist t)).subset hj
    have hsub2 : ∀ j, j ∈ ids (lostItems t) → j ∈ ids (finItems t) :=
      fun j hj => (List.Sublist.map Item.id (lostItems_sublist t)).subset hj
    cases b with
    | true =>
      have e1 : okItems ((it, true) :: t) = it :: okItems t := by simp [okItems, List.filter_cons]
      have e2 : lostItems ((it, true) :: t) = lostItems t := by simp [lostItems, List.filter_cons]
      rw [e1] at h1; rw [e2] at h2
      simp at h1
      rcases h1 with h1 | h1
      · exact hn'.1 (h1 ▸ hsub2 i h2)
      · exact ih hn'.2 h1 h2
    | false =>
      have e1 : okItems ((it, false) :: t) = okItems t := by simp [okItems, List.filter_cons]
      have e2 : lostItems ((it, false) :: t) = it :: lostItems t := by simp [lostItems, List.filter_cons]
      rw [e1] at h1; rw [e2] at h2
      simp at h2
      rcases h2 with h2 | h2
      · exact hn'.1 (h2 ▸ hsub1 i h1)
      · exact ih hn'.2 h1 h2

/-! ### completion actions do not add arrivals -/

theorem deliver_ins (f : α → β) (c : MCfg) (s : MSt α β) (it : Item α) : (deliver f c s it).ins = s.ins := by
  unfold deliver; split <;> rfl

theorem settleStep_ins (f : α → β) (c : MCfg) (s s' : MSt α β) (hs : settleStep f c s = some s') : s'.ins = s.ins := by
  by_cases hw : s.worker = .idle
  · cases hq : s.queue with
    | cons j rest =>
      rw [settleStep_take f c s j rest hw hq] at hs
      cases hs
      unfold takeHead
      cases j.st
      · rfl
      · rw [deliver_ins]
      · rfl
    | nil =>
      rw [settleStep_admit f c s (Or.inr hq)] at hs
      cases hwt : s.waiting with
      | nil => simp [hwt] at hs
      | cons w ws =>
        simp only [hwt] at hs
        cases hf : c.full s.queue with
        | true => simp [hf] at hs
        | false => simp [hf] at hs; rw [← hs]; rfl
  · rw [settleStep_admit f c s (Or.inl hw)] at hs
    cases hwt : s.waiting with
    | nil => simp [hwt] at hs
    | cons w ws =>
      simp only [hwt] at hs
      cases hf : c.full s.queue with
      | true => simp [hf] at hs
      | false => simp [hf] at hs; rw [← hs]; rfl

theorem settle_ins (f : α → β) (c : MCfg) (k : Nat) (s : MSt α β) : (settle f c k s).ins = s.ins := by
  induction k generalizing s with
  | zero => rfl
  | succ k ih =>
    simp only [settle]
    cases hs : settleStep f c s with
    | none => rfl
    | some s' => rw [ih s', settleStep_ins f c s s' hs]

theorem mstep_ins (f : α → β) (c : MCfg) (s : MSt α β) (a : MAct α) (ha : a.isCompletion = true) :
    (mstep f c s a).ins = s.ins := by
  unfold mstep
  rw [settle_ins]
  cases a with
  | arrive x => simp [MAct.isCompletion] at ha
  | jobFail i => simp [MAct.isCompletion] at ha
  | jobDone i =>
    simp only [mprim, jobDoneM]
    split
    · split
      · rw [deliver_ins]
      · rfl
    · rfl
  | downDone =>
    simp only [mprim, downDoneM]
    split <;> rfl

theorem mrun_ins (f : α → β) (c : MCfg) (acts : List (MAct α)) (s : MSt α β)
    (ha : ∀ a ∈ acts, a.isCompletion = true) : (mrun f c s acts).ins = s.ins := by
  induction acts generalizing s with
  | nil => rfl
  | cons a t ih =>
    simp only [mrun, List.foldl_cons]
    have := ih (mstep f c s a) (fun b hb => ha b (by simp [hb]))
    simp only [mrun] at this
    rw [this, mstep_ins f c s a (ha a (by simp))]

theorem minit_settled (f : α → β) (c : MCfg) : settleStep f c (minit α β) = none := by
  simp [settleStep, minit]

end StreamzVerif.AsyncBuffer
