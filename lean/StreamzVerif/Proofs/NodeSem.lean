import StreamzVerif.Model.Graph
/-
Local (graph-independent) runs of one node over an arbitrary arrival list, and the
helper lemmas behind the per-kind list-level semantics theorems of `Props/C01Sem.lean`.

`localRun k s arrivals` folds the node-local `upd` over the arrivals.  It is a TOTAL
fold: an arrival on which `upd` raises (`err = some _`) still contributes the effects
performed before the exception (for every kind these are `[]` or `[.retain md]`, so
neither the state nor the outputs change) and the run goes on with the next arrival.
This is what the Python objects do: the exception aborts that `emit`, the node keeps
its state and handles the next element.  All theorems are therefore stated with
"failing arrivals are skipped" built into the specification, without any side
hypothesis; corollaries for error-free arrival lists are given where they read better.
-/
namespace StreamzVerif.Graph

/-- state after the effects of one `update` (last `.set`, else unchanged) -/
def finalLoc : List Eff → NState → NState
  | [], s => s
  | .set s' :: es, _ => finalLoc es s'
  | _ :: es, s => finalLoc es s

/-- the (value, metadata) pairs emitted by the effects of one `update`, in order -/
def outsOf : List Eff → List (Val × Meta)
  | [] => []
  | .emit v md :: es => (v, md) :: outsOf es
  | .emitThenRelease v md :: es => (v, md) :: outsOf es
  | _ :: es => outsOf es

/-- one arrival: (who, x, metadata) -/
abbrev Arr := NodeId × Val × Meta

def stepLoc (k : Kind) (s : NState) (a : Arr) : NState × List (Val × Meta) :=
  let u := upd k s a.1 a.2.1 a.2.2
  (finalLoc u.effs s, outsOf u.effs)

def localRun (k : Kind) : NState → List Arr → NState × List (Val × Meta)
  | s, [] => (s, [])
  | s, a :: as =>
    let r := stepLoc k s a
    let r' := localRun k r.1 as
    (r'.1, r.2 ++ r'.2)

@[simp] theorem localRun_nil (k : Kind) (s : NState) : localRun k s [] = (s, []) := rfl

theorem localRun_cons (k : Kind) (s : NState) (a : Arr) (as : List Arr) :
    localRun k s (a :: as) =
      ((localRun k (stepLoc k s a).1 as).1, (stepLoc k s a).2 ++ (localRun k (stepLoc k s a).1 as).2) := rfl

theorem localRun_append (k : Kind) (s : NState) (xs ys : List Arr) :
    localRun k s (xs ++ ys) =
      ((localRun k (localRun k s xs).1 ys).1, (localRun k s xs).2 ++ (localRun k (localRun k s xs).1 ys).2) := by
  induction xs generalizing s with
  | nil => simp
  | cons a as ih => simp [localRun_cons, ih, List.append_assoc]

/-- payloads (value, metadata) of an arrival list -/
def pays (xs : List Arr) : List (Val × Meta) := xs.map (·.2)

@[simp] theorem pays_nil : pays [] = [] := rfl
@[simp] theorem pays_cons (a : Arr) (as : List Arr) : pays (a :: as) = a.2 :: pays as := rfl

/-- Stateless nodes: if every step leaves the state alone and outputs `out a`, the run is a `flatMap`. -/
theorem localRun_stateless (k : Kind) (out : Arr → List (Val × Meta))
    (h : ∀ s a, stepLoc k s a = (s, out a)) (s : NState) (xs : List Arr) :
    localRun k s xs = (s, xs.flatMap out) := by
  induction xs with
  | nil => rfl
  | cons a as ih => simp [localRun_cons, h, ih]

theorem flatMap_singleton_map {α β : Type} (f : α → β) (xs : List α) :
    xs.flatMap (fun a => [f a]) = xs.map f := by
  induction xs with
  | nil => rfl
  | cons a as ih => simp [List.flatMap_cons, ih]

/-- History-indexed outputs: the output for an arrival is a function of the arrivals before it. -/
def histRun {α β : Type} (out : List α → α → List β) : List α → List α → List β
  | _, [] => []
  | h, a :: as => out h a ++ histRun out (h ++ [a]) as

/-- Invariant rule: `Inv h s` relates the history `h` to the state; `π` projects the outputs
(identity, or `Prod.fst` for value-only statements). -/
theorem localRun_hist {β : Type} (k : Kind) (π : Val × Meta → β) (Inv : List Arr → NState → Prop)
    (out : List Arr → Arr → List β)
    (step : ∀ h s a, Inv h s → Inv (h ++ [a]) (stepLoc k s a).1 ∧ (stepLoc k s a).2.map π = out h a)
    (h : List Arr) (s : NState) (xs : List Arr) (h0 : Inv h s) :
    Inv (h ++ xs) (localRun k s xs).1 ∧ (localRun k s xs).2.map π = histRun out h xs := by
  induction xs generalizing h s with
  | nil => simpa [histRun] using h0
  | cons a as ih =>
    obtain ⟨h1, h2⟩ := step h s a h0
    obtain ⟨h3, h4⟩ := ih (h ++ [a]) _ h1
    simp only [List.append_assoc, List.singleton_append] at h3
    exact ⟨by simpa [localRun_cons] using h3, by simp [localRun_cons, histRun, h2, h4]⟩

/-- Events at a node that can also be flushed from outside (`collect.flush()`). -/
inductive LEv
  | arr (a : Arr)
  | flush
  deriving Inhabited

def stepEv (k : Kind) (s : NState) : LEv → NState × List (Val × Meta)
  | .arr a => stepLoc k s a
  | .flush => (finalLoc (flushProg s) s, outsOf (flushProg s))

def localRunEv (k : Kind) : NState → List LEv → NState × List (Val × Meta)
  | s, [] => (s, [])
  | s, e :: es =>
    let r := stepEv k s e
    let r' := localRunEv k r.1 es
    (r'.1, r.2 ++ r'.2)

theorem localRunEv_cons (k : Kind) (s : NState) (e : LEv) (es : List LEv) :
    localRunEv k s (e :: es) =
      ((localRunEv k (stepEv k s e).1 es).1, (stepEv k s e).2 ++ (localRunEv k (stepEv k s e).1 es).2) := rfl

theorem localRunEv_append (k : Kind) (s : NState) (xs ys : List LEv) :
    localRunEv k s (xs ++ ys) =
      ((localRunEv k (localRunEv k s xs).1 ys).1,
        (localRunEv k s xs).2 ++ (localRunEv k (localRunEv k s xs).1 ys).2) := by
  induction xs generalizing s with
  | nil => simp [localRunEv]
  | cons a as ih => simp [localRunEv_cons, ih, List.append_assoc]

/-- without flushes the event run is the arrival run -/
theorem localRunEv_arrs (k : Kind) (s : NState) (xs : List Arr) :
    localRunEv k s (xs.map LEv.arr) = localRun k s xs := by
  induction xs generalizing s with
  | nil => rfl
  | cons a as ih => simp [localRunEv_cons, localRun_cons, stepEv, ih]

/-! ### One-step lemmas per kind -/

theorem stepLoc_source (s : NState) (a : Arr) : stepLoc .source s a = (s, [a.2]) := by
  simp [stepLoc, upd, finalLoc, outsOf]

theorem stepLoc_union (s : NState) (a : Arr) : stepLoc .union s a = (s, [a.2]) := by
  simp [stepLoc, upd, finalLoc, outsOf]

theorem stepLoc_map (f : Fn) (s : NState) (a : Arr) :
    stepLoc (.map f) s a =
      (s, match f.eval a.2.1 with | .ok y => [(y, a.2.2)] | .error _ => []) := by
  simp only [stepLoc, upd]
  cases h : f.eval a.2.1 <;> simp [finalLoc, outsOf, raise]

theorem stepLoc_filter (p : Fn) (s : NState) (a : Arr) :
    stepLoc (.filter p) s a =
      (s, match p.eval a.2.1 with | .ok b => if b.truthy then [a.2] else [] | .error _ => []) := by
  simp only [stepLoc, upd]
  cases h : p.eval a.2.1 with
  | error e => simp [finalLoc, outsOf, raise]
  | ok b =>
    simp only
    cases hb : b.truthy <;> simp [finalLoc, outsOf]

theorem outsOf_emitAllButLast (l : List Val) (md : Meta) :
    outsOf (emitAllButLast l md) = l.dropLast.map (fun v => (v, [])) ++ (l.getLast?.map (fun v => (v, md))).toList := by
  induction l with
  | nil => simp [emitAllButLast, outsOf]
  | cons x t ih =>
    cases t with
    | nil => simp [emitAllButLast, outsOf]
    | cons y t' =>
      simp only [emitAllButLast, outsOf, ih]
      simp [List.getLast?_cons_cons]

theorem outsOf_emitAllButLast_vals (l : List Val) (md : Meta) :
    (outsOf (emitAllButLast l md)).map Prod.fst = l := by
  induction l with
  | nil => simp [emitAllButLast, outsOf]
  | cons x t ih =>
    cases t with
    | nil => simp [emitAllButLast, outsOf]
    | cons y t' => simpa [emitAllButLast, outsOf] using ih

theorem finalLoc_emitAllButLast (l : List Val) (md : Meta) (s : NState) :
    finalLoc (emitAllButLast l md) s = s := by
  induction l with
  | nil => simp [emitAllButLast, finalLoc]
  | cons x t ih =>
    cases t with
    | nil => simp [emitAllButLast, finalLoc]
    | cons y t' => simpa [emitAllButLast, finalLoc] using ih

theorem stepLoc_flatten (s : NState) (a : Arr) :
    stepLoc .flatten s a =
      (s, match iterVal a.2.1 with | .ok l => outsOf (emitAllButLast l a.2.2) | .error _ => []) := by
  simp only [stepLoc, upd]
  cases h : iterVal a.2.1 <;> simp [finalLoc, outsOf, raise, finalLoc_emitAllButLast]

theorem stepLoc_pluck_idx (i : Nat) (s : NState) (a : Arr) :
    stepLoc (.pluck (.idx i)) s a =
      (s, match pluckOne a.2.1 i with | .ok v => [(v, a.2.2)] | .error _ => []) := by
  simp only [stepLoc, upd]
  cases h : pluckOne a.2.1 i <;> simp [finalLoc, outsOf, raise]

theorem stepLoc_pluck_idxs (l : List Nat) (s : NState) (a : Arr) :
    stepLoc (.pluck (.idxs l)) s a =
      (s, match l.mapM (pluckOne a.2.1) with | .ok vs => [(.tup vs, a.2.2)] | .error _ => []) := by
  simp only [stepLoc, upd]
  cases h : l.mapM (pluckOne a.2.1) <;> simp [finalLoc, outsOf, raise]

theorem finalLoc_append (e1 e2 : List Eff) (s : NState) :
    finalLoc (e1 ++ e2) s = finalLoc e2 (finalLoc e1 s) := by
  induction e1 generalizing s with
  | nil => rfl
  | cons e es ih => cases e <;> simp [finalLoc, ih]

theorem outsOf_append (e1 e2 : List Eff) : outsOf (e1 ++ e2) = outsOf e1 ++ outsOf e2 := by
  induction e1 with
  | nil => rfl
  | cons e es ih => cases e <;> simp [outsOf, ih]

/-- One application of the user function of `accumulate`: `some (new state, result)`, `none` when it raises
(or, with `returns_state`, when the result cannot be unpacked into two). -/
def accApply (f : Fn2) (rs : Bool) (st x : Val) : Option (Val × Val) :=
  match f.eval st x with
  | .error _ => none
  | .ok r =>
    if rs then
      match r with
      | .tup [a, b] => some (a, b)
      | .lst [a, b] => some (a, b)
      | _ => none
    else some (r, r)

theorem stepLoc_accumulate (f : Fn2) (st0 : Option Val) (rs ws : Bool) (s : NState) (a : Arr) :
    stepLoc (.accumulate f st0 rs ws) s a =
      match s.acc with
      | none => ({ s with acc := some a.2.1 }, [(if ws then .tup [a.2.1, a.2.1] else a.2.1, a.2.2)])
      | some st =>
        match accApply f rs st a.2.1 with
        | none => (s, [])
        | some (st', res) => ({ s with acc := some st' }, [(if ws then .tup [st', res] else res, a.2.2)]) := by
  simp only [stepLoc, upd, accApply]
  cases hacc : s.acc with
  | none => simp [finalLoc, outsOf]
  | some st =>
    simp only
    cases hf : f.eval st a.2.1 with
    | error e => simp [finalLoc, outsOf, raise]
    | ok r =>
      cases rs with
      | false => simp [finalLoc, outsOf]
      | true =>
        simp only [if_true]
        split <;> simp_all [finalLoc, outsOf, raise]

theorem stepLoc_slice (start : Nat) (stop : Option Nat) (step : Nat) (s : NState) (a : Arr) :
    stepLoc (.slice start stop step) s a =
      ({ s with cnt := s.cnt + 1 },
        if start ≤ s.cnt ∧ (s.cnt - start) % step = 0 then [a.2] else []) := by
  simp only [stepLoc, upd, finalLoc_append, outsOf_append]
  have h1 : ∀ (c : Prop) [Decidable c] (t : NState), finalLoc (if c then [Eff.detach] else []) t = t := by
    intro c _ t; split <;> rfl
  have h2 : ∀ (c : Prop) [Decidable c], outsOf (if c then [Eff.detach] else []) = [] := by
    intro c _; split <;> rfl
  by_cases hfire : start ≤ s.cnt ∧ (s.cnt - start) % step = 0 <;>
    simp [finalLoc, outsOf, hfire, h1, h2]

/-- `_check_end` detaches the node exactly when the counter reaches a non-zero `end`. -/
theorem slice_detach_iff (start : Nat) (stop : Option Nat) (step : Nat) (s : NState) (who : NodeId) (x : Val) (md : Meta) :
    Eff.detach ∈ (upd (.slice start stop step) s who x md).effs ↔
      ∃ e, stop = some e ∧ e ≠ 0 ∧ e ≤ s.cnt + 1 := by
  simp only [upd]
  cases stop with
  | none => split <;> simp
  | some e => split <;> simp

/-- buffer entries of a key-less buffer (`partition` without key, `collect`): key `None` -/
def noKey (b : List (Val × Meta)) : List (Val × Val × Meta) := b.map (fun p => (Val.none, p.1, p.2))

@[simp] theorem noKey_nil : noKey [] = [] := rfl
@[simp] theorem noKey_length (b : List (Val × Meta)) : (noKey b).length = b.length := by simp [noKey]
theorem noKey_append (b c : List (Val × Meta)) : noKey (b ++ c) = noKey b ++ noKey c := by simp [noKey]
theorem noKey_vals (b : List (Val × Meta)) : (noKey b).map (·.2.1) = b.map Prod.fst := by simp [noKey]
theorem noKey_mds (b : List (Val × Meta)) : (noKey b).map (·.2.2) = b.map Prod.snd := by simp [noKey]
theorem noKey_filter_eq (b : List (Val × Meta)) : (noKey b).filter (fun it => it.1 = Val.none) = noKey b := by
  simp only [noKey, List.filter_eq_self, List.mem_map]
  rintro it ⟨p, _, rfl⟩; simp
theorem noKey_filter_ne (b : List (Val × Meta)) : (noKey b).filter (fun it => it.1 ≠ Val.none) = [] := by
  simp only [noKey, List.filter_eq_nil_iff, List.mem_map]
  rintro it ⟨p, _, rfl⟩; simp

/-- what a group (tuple) emission looks like: the values as a tuple, the metadata concatenated -/
def tupOf (b : List (Val × Meta)) : Val × Meta := (.tup (b.map Prod.fst), flatMd (b.map Prod.snd))

theorem stepLoc_partition_noKey (n : Nat) (s : NState) (a : Arr) (b : List (Val × Meta))
    (hb : s.items = noKey b) :
    stepLoc (.partition n none) s a =
      if b.length + 1 = n then ({ s with items := [] }, [tupOf (b ++ [a.2])])
      else ({ s with items := noKey (b ++ [a.2]) }, []) := by
  have e1 : s.items ++ [(Val.none, a.2.1, a.2.2)] = noKey (b ++ [a.2]) := by simp [hb, noKey]
  have hh : Val.none.hashable = true := by simp [Val.hashable]
  simp only [stepLoc, upd, hh, Bool.not_true, Bool.false_eq_true, if_false, e1, noKey_filter_eq, noKey_filter_ne,
    noKey_vals, noKey_mds, noKey_length, List.length_append, List.length_singleton]
  split <;> simp [finalLoc, outsOf, tupOf]

theorem stepLoc_collect (s : NState) (a : Arr) :
    stepLoc .collect s a = ({ s with items := s.items ++ [(Val.none, a.2.1, a.2.2)] }, []) := by
  simp [stepLoc, upd, finalLoc, outsOf]

theorem flushProg_final (s : NState) : finalLoc (flushProg s) s = { s with items := [] } := by
  simp [flushProg, finalLoc]

theorem flushProg_outs (s : NState) :
    outsOf (flushProg s) = [(.tup (s.items.map (·.2.1)), flatMd (s.items.map (·.2.2)))] := by
  simp [flushProg, outsOf]

/-- `deque(maxlen=n).append`: keep the last `n` -/
def lastN (n : Nat) (l : List α) : List α := l.drop (l.length - n)

theorem stepLoc_slidingWindow_win (n : Nat) (part : Bool) (s : NState) (a : Arr) :
    (stepLoc (.slidingWindow n part) s a).1.win = lastN n (s.win ++ [a.2.1]) := by
  simp only [stepLoc, upd, lastN, List.length_append, List.length_singleton]
  split
  · split
    · split <;> simp [finalLoc]
    · simp [finalLoc]
  · simp [finalLoc]

theorem stepLoc_slidingWindow_vals (n : Nat) (part : Bool) (s : NState) (a : Arr) :
    (stepLoc (.slidingWindow n part) s a).2.map Prod.fst =
      if part ∨ (lastN n (s.win ++ [a.2.1])).length = n then [.tup (lastN n (s.win ++ [a.2.1]))] else [] := by
  simp only [stepLoc, upd, lastN, List.length_append, List.length_singleton]
  split
  · split
    · split <;> simp [outsOf]
    · simp [outsOf]
  · simp [outsOf]

/-- the key of an element, `none` if the key function raises -/
def keyOf (key : Fn) (x : Val) : Option Val :=
  match key.eval x with
  | .ok y => some y
  | .error _ => none

/-- the key `partition` files an element under: the key function's value, which must be hashable (it is
used as a dict key); `none` = the update raises and the element is skipped -/
def partKey (key : Fn) (x : Val) : Option Val :=
  (keyOf key x).bind (fun k => if k.hashable then some k else none)

/-- the key `unique` remembers: in hashable mode (dict / LRU history) an unhashable key raises -/
def uniqKey (key : Fn) (hashable : Bool) (x : Val) : Option Val :=
  (keyOf key x).bind (fun y => if hashable && !y.hashable then none else some y)

/-- `if self.maxsize:` — `maxsize=0` is falsy, i.e. unbounded -/
def effCap : Option Nat → Option Nat
  | some 0 => none
  | m => m

theorem stepLoc_unique (ms : Option Nat) (key : Fn) (hb : Bool) (s : NState) (a : Arr) :
    stepLoc (.unique ms key hb) s a =
      match uniqKey key hb a.2.1 with
      | none => (s, [])
      | some y => ({ s with seen := lruTouch (effCap ms) s.seen y },
                  if s.seen.contains y then [] else [a.2]) := by
  simp only [stepLoc, upd, uniqKey, keyOf]
  cases hk : key.eval a.2.1 with
  | error e => simp [finalLoc, outsOf, raise]
  | ok y =>
    simp only [Option.bind_some]
    by_cases hh : (hb && !y.hashable) = true
    · simp [hh, finalLoc, outsOf, raise]
    · simp only [hh]
      by_cases hc : y ∈ s.seen <;> simp [finalLoc, outsOf, hc] <;>
        (rcases ms with _ | _ | c <;> rfl)

/-! ### flatten / pluck vocabulary -/

/-- the elements of an iterable value (tuple, list, string); non-iterables have none (`flatten` raises, skipped) -/
def elemsOf : Val → List Val
  | .tup l => l
  | .lst l => l
  | .str s => s.toList.map (fun c => .str (String.singleton c))
  | _ => []

theorem iterVal_elemsOf (x : Val) :
    (match iterVal x with | .ok l => l | .error _ => []) = elemsOf x := by
  cases x <;> rfl

/-- `x[i]` for tuples, lists and strings (a one-character string) -/
def itemAt : Val → Nat → Option Val
  | .tup l, i => l[i]?
  | .lst l, i => l[i]?
  | .str s, i => s.toList[i]?.map (fun c => .str (String.singleton c))
  | _, _ => none

/-- `tuple(x[i] for i in idxs)`; `none` if any index fails -/
def itemsAt (x : Val) : List Nat → Option (List Val)
  | [] => some []
  | i :: is =>
    match itemAt x i, itemsAt x is with
    | some v, some vs => some (v :: vs)
    | _, _ => none

theorem pluckOne_itemAt (x : Val) (i : Nat) :
    (match pluckOne x i with | .ok v => some v | .error _ => none) = itemAt x i := by
  cases x with
  | tup l => simp only [pluckOne, itemAt]; cases l[i]? <;> rfl
  | lst l => simp only [pluckOne, itemAt]; cases l[i]? <;> rfl
  | int _ => rfl
  | str s => simp only [pluckOne, itemAt]; cases s.toList[i]? <;> rfl
  | none => rfl

theorem mapM_pluckOne_itemsAt (x : Val) (l : List Nat) :
    (match l.mapM (pluckOne x) with | .ok vs => some vs | .error _ => none) = itemsAt x l := by
  induction l with
  | nil => rfl
  | cons i is ih =>
    rw [List.mapM_cons, itemsAt, ← ih, ← pluckOne_itemAt]
    cases pluckOne x i with
    | error e => rfl
    | ok v =>
      cases List.mapM (pluckOne x) is with
      | error e => rfl
      | ok vs => rfl

/-! ### slice vocabulary -/

/-- emission condition of `slice` for the arrival with index `k` -/
def sliceCond (start : Nat) (stop : Option Nat) (step : Nat) (k : Nat) : Bool :=
  decide (start ≤ k) && decide ((k - start) % step = 0) &&
    (match stop with | none => true | some e => e == 0 || decide (k < e))

def sliceFrom (start : Nat) (stop : Option Nat) (step : Nat) : Nat → List α → List α
  | _, [] => []
  | k, x :: xs => (if sliceCond start stop step k then [x] else []) ++ sliceFrom start stop step (k + 1) xs

theorem sliceFrom_eq_zipIdx (start : Nat) (stop : Option Nat) (step : Nat) (k : Nat) (xs : List α) :
    sliceFrom start stop step k xs =
      ((xs.zipIdx k).filter (fun p => sliceCond start stop step p.2)).map Prod.fst := by
  induction xs generalizing k with
  | nil => rfl
  | cons x xs ih =>
    simp only [sliceFrom, List.zipIdx_cons, List.filter_cons, ih]
    cases sliceCond start stop step k <;> simp

theorem sliceFrom_stop_zero (start step : Nat) (k : Nat) (xs : List α) :
    sliceFrom start (some 0) step k xs = sliceFrom start none step k xs := by
  induction xs generalizing k with
  | nil => rfl
  | cons x xs ih => simp [sliceFrom, sliceCond, ih]

theorem sliceFrom_past_end (start e step : Nat) (he : e ≠ 0) (k : Nat) (hk : e ≤ k) (xs : List α) :
    sliceFrom start (some e) step k xs = [] := by
  induction xs generalizing k with
  | nil => rfl
  | cons x xs ih =>
    have : sliceCond start (some e) step k = false := by
      simp only [sliceCond, Bool.and_eq_false_iff, Bool.or_eq_false_iff, beq_eq_false_iff_ne,
        decide_eq_false_iff_not]
      right; exact ⟨he, by omega⟩
    simp [sliceFrom, this, ih (k + 1) (by omega)]

/-- the first `e - k` elements, selected without an end = the whole list selected with end `e` -/
theorem sliceFrom_take (start e step : Nat) (he : e ≠ 0) (k : Nat) (hk : k ≤ e) (xs : List α) :
    sliceFrom start none step k (xs.take (e - k)) = sliceFrom start (some e) step k xs := by
  induction xs generalizing k with
  | nil => simp [sliceFrom]
  | cons x xs ih =>
    by_cases hlt : k < e
    · have h1 : e - k = (e - (k + 1)) + 1 := by omega
      have h2 : sliceCond start (some e) step k = sliceCond start none step k := by
        simp [sliceCond, hlt]
      rw [h1, List.take_succ_cons]
      simp only [sliceFrom, h2, ih (k + 1) (by omega)]
    · have h1 : e - k = 0 := by omega
      rw [h1, List.take_zero, sliceFrom_past_end start e step he k (by omega)]
      rfl

/-! ### accumulate vocabulary -/

/-- Running fold from state `st`: every element is combined with the state by the user function, the result
is emitted (with the new state when `with_state`), elements on which the function raises are skipped. -/
def scanFrom (f : Fn2) (rs ws : Bool) : Val → List (Val × Meta) → List (Val × Meta)
  | _, [] => []
  | st, (x, md) :: xs =>
    match accApply f rs st x with
    | none => scanFrom f rs ws st xs
    | some (st', res) => ((if ws then .tup [st', res] else res), md) :: scanFrom f rs ws st' xs

/-- the state the running fold ends with -/
def scanEnd (f : Fn2) (rs : Bool) : Val → List (Val × Meta) → Val
  | st, [] => st
  | st, (x, _) :: xs =>
    match accApply f rs st x with
    | none => scanEnd f rs st xs
    | some (st', _) => scanEnd f rs st' xs

theorem localRun_accumulate_some (f : Fn2) (st0 : Option Val) (rs ws : Bool) (xs : List Arr) (s : NState)
    (st : Val) (hs : s.acc = some st) :
    localRun (.accumulate f st0 rs ws) s xs =
      ({ s with acc := some (scanEnd f rs st (pays xs)) }, scanFrom f rs ws st (pays xs)) := by
  induction xs generalizing s st with
  | nil => simp [scanFrom, scanEnd, ← hs]
  | cons a as ih =>
    obtain ⟨who, x, md⟩ := a
    rw [localRun_cons, stepLoc_accumulate]
    simp only [hs, pays_cons, scanFrom, scanEnd]
    cases happ : accApply f rs st x with
    | none => simp only [ih s st hs, List.nil_append]
    | some r =>
      obtain ⟨st', res⟩ := r
      simp only [ih { s with acc := some st' } st' rfl, List.singleton_append]

/-- The stateless reading of a running fold for functions that do not raise on the data: the `j`-th output
is computed from the fold `S_j = foldl gs st (first j elements)` of the state function over the first `j`
elements and the `j`-th element `x`: result `gr S_j x`, new state `gs S_j x`. -/
def runningFold (gs gr : Val → Val → Val) (ws : Bool) (st : Val) (xs : List Val) : List Val :=
  xs.mapIdx (fun j x =>
    let S := (xs.take j).foldl gs st
    if ws then .tup [gs S x, gr S x] else gr S x)

theorem runningFold_cons (gs gr : Val → Val → Val) (ws : Bool) (st x : Val) (xs : List Val) :
    runningFold gs gr ws st (x :: xs) =
      (if ws then .tup [gs st x, gr st x] else gr st x) :: runningFold gs gr ws (gs st x) xs := by
  simp [runningFold, List.mapIdx_cons]

theorem scanFrom_pure (f : Fn2) (rs ws : Bool) (gs gr : Val → Val → Val) (P : Val → Prop)
    (xs : List (Val × Meta))
    (hP : ∀ st x, P st → x ∈ xs.map Prod.fst → accApply f rs st x = some (gs st x, gr st x) ∧ P (gs st x))
    (st : Val) (h0 : P st) :
    (scanFrom f rs ws st xs).map Prod.fst = runningFold gs gr ws st (xs.map Prod.fst) ∧
      scanEnd f rs st xs = (xs.map Prod.fst).foldl gs st := by
  induction xs generalizing st with
  | nil => simp [scanFrom, scanEnd, runningFold]
  | cons p xs ih =>
    obtain ⟨x, md⟩ := p
    obtain ⟨h1, h2⟩ := hP st x h0 (by simp)
    have ih' := ih (fun st y hst hy => hP st y hst (by simp [hy])) (gs st x) h2
    simp only [scanFrom, scanEnd, h1, List.map_cons, runningFold_cons, List.foldl_cons, ih'.1, ih'.2]
    cases ws <;> simp

/-! ### partition vocabulary -/

/-- the consecutive full chunks of `n`: chunk `j` is `xs[j*n : (j+1)*n]`, for `j < len / n` -/
def chunksSpec (n : Nat) (xs : List α) : List (List α) :=
  (List.range (xs.length / n)).map (fun j => (xs.drop (j * n)).take n)

/-- what is left after the full chunks -/
def leftoverSpec (n : Nat) (xs : List α) : List α := xs.drop (xs.length / n * n)

theorem chunksSpec_short (n : Nat) (xs : List α) (h : xs.length < n ∨ n = 0) : chunksSpec n xs = [] := by
  have : xs.length / n = 0 := by
    rcases h with h | h
    · exact Nat.div_eq_of_lt h
    · subst h; exact Nat.div_zero _
  simp [chunksSpec, this]

theorem leftoverSpec_short (n : Nat) (xs : List α) (h : xs.length < n ∨ n = 0) : leftoverSpec n xs = xs := by
  have : xs.length / n = 0 := by
    rcases h with h | h
    · exact Nat.div_eq_of_lt h
    · subst h; exact Nat.div_zero _
  simp [leftoverSpec, this]

theorem chunksSpec_step (n : Nat) (xs : List α) (h0 : 0 < n) (h : n ≤ xs.length) :
    chunksSpec n xs = xs.take n :: chunksSpec n (xs.drop n) := by
  have hdiv : xs.length / n = (xs.length - n) / n + 1 := Nat.div_eq_sub_div h0 h
  simp only [chunksSpec, List.length_drop, hdiv, List.range_succ_eq_map, List.map_cons, List.map_map,
    Nat.zero_mul, List.drop_zero]
  congr 1
  apply List.map_congr_left
  intro j _
  simp only [Function.comp, List.drop_drop, Nat.succ_mul]
  congr 2
  omega

theorem leftoverSpec_step (n : Nat) (xs : List α) (h0 : 0 < n) (h : n ≤ xs.length) :
    leftoverSpec n xs = leftoverSpec n (xs.drop n) := by
  have hdiv : xs.length / n = (xs.length - n) / n + 1 := Nat.div_eq_sub_div h0 h
  simp only [leftoverSpec, List.length_drop, hdiv, List.drop_drop, Nat.succ_mul]
  congr 1
  omega

theorem nstate_items_eta (s : NState) (it : List (Val × Val × Meta)) (h : s.items = it) :
    { s with items := it } = s := by
  subst h; rfl

theorem localRun_partition_noKey (n : Nat) (xs : List Arr) (b : List (Val × Meta)) (s : NState)
    (hs : s.items = noKey b) (hb : b.length < n ∨ n = 0) :
    localRun (.partition n none) s xs =
      ({ s with items := noKey (leftoverSpec n (b ++ pays xs)) },
        (chunksSpec n (b ++ pays xs)).map tupOf) := by
  induction xs generalizing b s with
  | nil =>
    simp only [localRun_nil, pays_nil, List.append_nil, chunksSpec_short n b hb, leftoverSpec_short n b hb,
      List.map_nil]
    rw [nstate_items_eta s _ hs]
  | cons a as ih =>
    rw [localRun_cons, stepLoc_partition_noKey n s a b hs]
    have hsplit : b ++ pays (a :: as) = (b ++ [a.2]) ++ pays as := by simp
    by_cases hn : b.length + 1 = n
    · have hc : (b ++ [a.2]).length = n := by simp [hn]
      have hlen : n ≤ ((b ++ [a.2]) ++ pays as).length := by
        rw [List.length_append, hc]; omega
      rw [if_pos hn, hsplit, chunksSpec_step n _ (by omega) hlen, leftoverSpec_step n _ (by omega) hlen,
        List.take_left' hc, List.drop_left' hc]
      have := ih [] { s with items := [] } rfl (Or.inl (by simp; omega))
      simp only [List.nil_append] at this
      rw [this]
      simp
    · have hb' : (b ++ [a.2]).length < n ∨ n = 0 := by
        rcases hb with hb | hb
        · left; simp; omega
        · right; exact hb
      rw [if_neg hn, hsplit]
      have := ih (b ++ [a.2]) { s with items := noKey (b ++ [a.2]) } rfl hb'
      rw [this]
      simp

/-! ### histRun, sliding_window, unique vocabulary -/

theorem histRun_map {α β γ : Type} (g : α → γ) (out : List γ → γ → List β) (h xs : List α) :
    histRun (fun h a => out (h.map g) (g a)) h xs = histRun out (h.map g) (xs.map g) := by
  induction xs generalizing h with
  | nil => rfl
  | cons a as ih => simp [histRun, ih]

theorem flatMap_congr_mem {α β : Type} (f g : α → List β) (l : List α) (h : ∀ a ∈ l, f a = g a) :
    l.flatMap f = l.flatMap g := by
  induction l with
  | nil => rfl
  | cons a as ih =>
    simp only [List.flatMap_cons, h a (by simp), ih (fun b hb => h b (by simp [hb]))]

/-- `histRun` read by index: the contribution of the `j`-th element is `out (first j elements) (j-th element)`. -/
theorem histRun_index_aux {α β : Type} (out : List α → α → List β) (h xs : List α) :
    histRun out h xs =
      (List.range xs.length).flatMap
        (fun j => (xs[j]?.map (out (h ++ xs.take j))).getD []) := by
  induction xs generalizing h with
  | nil => rfl
  | cons a as ih =>
    simp only [histRun, ih, List.length_cons, List.range_succ_eq_map, List.flatMap_cons, List.flatMap_map,
      List.getElem?_cons_zero, List.take_zero, List.append_nil]
    congr 1
    apply flatMap_congr_mem
    intro j _
    simp [List.take_succ_cons]

theorem lastN_length (n : Nat) (l : List α) : (lastN n l).length = min n l.length := by
  simp [lastN]; omega

theorem lastN_lastN_snoc (n : Nat) (l : List α) (x : α) : lastN n (lastN n l ++ [x]) = lastN n (l ++ [x]) := by
  have h1 : l.drop (l.length - n) ++ [x] = (l ++ [x]).drop (l.length - n) := by
    rw [List.drop_append_of_le_length (by omega)]
  simp only [lastN, h1, List.drop_drop, List.length_drop, List.length_append, List.length_singleton]
  congr 1
  omega

theorem mem_lruTouch_none (seen : List Val) (y z : Val) :
    z ∈ lruTouch none seen y ↔ z = y ∨ z ∈ seen := by
  simp only [lruTouch, List.mem_cons, List.mem_filter, decide_eq_true_eq]
  by_cases h : z = y <;> simp [h]

/-! ### zip with two upstreams -/

/-- what `zip` emits for a matched pair: the tuple of the values, the metadata concatenated -/
def zipPair (p q : Val × Meta) : Val × Meta := (.tup [p.1, q.1], p.2 ++ q.2)

/-- the arrivals from upstream `u`, in order -/
def seqOf (u : NodeId) (xs : List Arr) : List (Val × Meta) := (xs.filter (fun a => a.1 = u)).map (·.2)

theorem seqOf_cons_self (u : NodeId) (p : Val × Meta) (xs : List Arr) :
    seqOf u ((u, p) :: xs) = p :: seqOf u xs := by simp [seqOf]

theorem seqOf_cons_ne (u w : NodeId) (h : w ≠ u) (p : Val × Meta) (xs : List Arr) :
    seqOf u ((w, p) :: xs) = seqOf u xs := by simp [seqOf, h]

theorem packLiterals_nil (t : List Val) : packLiterals [] t = t := by
  simp [packLiterals, packLiterals.go]

theorem stepLoc_zip2_left (u1 u2 : NodeId) (hne : u1 ≠ u2) (s : NState) (A B : List (Val × Meta))
    (hups : s.ups = [u1, u2]) (hb : s.bufs = [(u1, A), (u2, B)]) (x : Val) (md : Meta) :
    stepLoc (.zip []) s (u1, x, md) =
      match A, B with
      | [], b :: B' => ({ s with bufs := [(u1, []), (u2, B')] }, [zipPair (x, md) b])
      | _, _ => ({ s with bufs := [(u1, A ++ [(x, md)]), (u2, B)] }, []) := by
  have hne' : ¬ u2 = u1 := fun h => hne h.symm
  simp only [stepLoc, upd, hb, hups]
  cases A with
  | nil =>
    cases B with
    | nil => simp [hne', finalLoc, outsOf]
    | cons b B' => simp [hne, hne', finalLoc, outsOf, packLiterals_nil, flatMd, zipPair]
  | cons a A' => simp [hne', finalLoc, outsOf]

theorem stepLoc_zip2_right (u1 u2 : NodeId) (hne : u1 ≠ u2) (s : NState) (A B : List (Val × Meta))
    (hups : s.ups = [u1, u2]) (hb : s.bufs = [(u1, A), (u2, B)]) (x : Val) (md : Meta) :
    stepLoc (.zip []) s (u2, x, md) =
      match A, B with
      | a :: A', [] => ({ s with bufs := [(u1, A'), (u2, [])] }, [zipPair a (x, md)])
      | _, _ => ({ s with bufs := [(u1, A), (u2, B ++ [(x, md)])] }, []) := by
  simp only [stepLoc, upd, hb, hups]
  cases B with
  | nil =>
    cases A with
    | nil => simp [hne, finalLoc, outsOf]
    | cons a A' => simp [hne, finalLoc, outsOf, packLiterals_nil, flatMd, zipPair]
  | cons b B' => simp [hne, finalLoc, outsOf]

theorem stepLoc_zip2_other (u1 u2 who : NodeId) (h1 : who ≠ u1) (h2 : who ≠ u2) (s : NState)
    (A B : List (Val × Meta)) (hb : s.bufs = [(u1, A), (u2, B)]) (x : Val) (md : Meta) :
    stepLoc (.zip []) s (who, x, md) = (s, []) := by
  have h1' : ¬ u1 = who := fun h => h1 h.symm
  have h2' : ¬ u2 = who := fun h => h2 h.symm
  simp [stepLoc, upd, hb, h1', h2', finalLoc, outsOf, raise]

theorem localRun_zip2 (u1 u2 : NodeId) (hne : u1 ≠ u2) (xs : List Arr) (A B : List (Val × Meta))
    (hAB : A = [] ∨ B = []) (s : NState) (hups : s.ups = [u1, u2]) (hb : s.bufs = [(u1, A), (u2, B)]) :
    (localRun (.zip []) s xs).2 = List.zipWith zipPair (A ++ seqOf u1 xs) (B ++ seqOf u2 xs) ∧
    (localRun (.zip []) s xs).1.bufs =
      [(u1, (A ++ seqOf u1 xs).drop (min (A ++ seqOf u1 xs).length (B ++ seqOf u2 xs).length)),
       (u2, (B ++ seqOf u2 xs).drop (min (A ++ seqOf u1 xs).length (B ++ seqOf u2 xs).length))] ∧
    (localRun (.zip []) s xs).1.ups = [u1, u2] := by
  induction xs generalizing A B s with
  | nil =>
    rcases hAB with h | h <;> subst h <;> simp [seqOf, hb, hups]
  | cons a as ih =>
    obtain ⟨who, x, md⟩ := a
    rw [localRun_cons]
    by_cases hw1 : who = u1
    · subst hw1
      rw [stepLoc_zip2_left who u2 hne s A B hups hb, seqOf_cons_self, seqOf_cons_ne u2 who hne]
      cases A with
      | nil =>
        cases B with
        | nil =>
          have := ih [(x, md)] [] (Or.inr rfl) { s with bufs := [(who, [] ++ [(x, md)]), (u2, [])] } hups rfl
          simpa using this
        | cons b B' =>
          have := ih [] B' (Or.inl rfl) { s with bufs := [(who, []), (u2, B')] } hups rfl
          simp only [List.nil_append, List.cons_append, List.zipWith_cons_cons, List.length_cons,
            Nat.add_min_add_right, List.drop_succ_cons] at this ⊢
          simpa using this
      | cons a A' =>
        have hB : B = [] := by rcases hAB with h | h; cases h; exact h
        subst hB
        have := ih (a :: A' ++ [(x, md)]) [] (Or.inr rfl)
          { s with bufs := [(who, a :: A' ++ [(x, md)]), (u2, [])] } hups rfl
        simpa using this
    · by_cases hw2 : who = u2
      · subst hw2
        have hne1 : who ≠ u1 := hw1
        rw [stepLoc_zip2_right u1 who hne s A B hups hb, seqOf_cons_self, seqOf_cons_ne u1 who hne1]
        cases B with
        | nil =>
          cases A with
          | nil =>
            have := ih [] [(x, md)] (Or.inl rfl) { s with bufs := [(u1, []), (who, [] ++ [(x, md)])] } hups rfl
            simpa using this
          | cons a A' =>
            have := ih A' [] (Or.inr rfl) { s with bufs := [(u1, A'), (who, [])] } hups rfl
            simp only [List.nil_append, List.cons_append, List.zipWith_cons_cons, List.length_cons,
              Nat.add_min_add_right, List.drop_succ_cons] at this ⊢
            simpa using this
        | cons b B' =>
          have hA : A = [] := by rcases hAB with h | h; exact h; cases h
          subst hA
          have := ih [] (b :: B' ++ [(x, md)]) (Or.inl rfl)
            { s with bufs := [(u1, []), (who, b :: B' ++ [(x, md)])] } hups rfl
          simpa using this
      · rw [stepLoc_zip2_other u1 u2 who hw1 hw2 s A B hb, seqOf_cons_ne u1 who hw1, seqOf_cons_ne u2 who hw2]
        simpa using ih A B hAB s hups hb

/-! ### combine_latest / zip_latest vocabulary -/

theorem idxOf_of_not_mem (l : List NodeId) (x : NodeId) (h : x ∉ l) : idxOf l x = none := by
  simp [idxOf, List.idxOf_eq_length h]

theorem idxOf_of_mem (l : List NodeId) (x : NodeId) (h : x ∈ l) : idxOf l x = some (l.idxOf x) := by
  simp [idxOf, List.idxOf_lt_length_of_mem h]

/-- on a duplicate-free list, overwriting position `idxOf who` of a pointwise image is the pointwise update -/
theorem map_set_idxOf {β : Type} (l : List NodeId) (hnd : l.Nodup) (who : NodeId) (f : NodeId → β) (x : β) :
    (l.map f).set (l.idxOf who) x = l.map (fun u => if u = who then x else f u) := by
  induction l with
  | nil => rfl
  | cons a t ih =>
    have hnd' := List.nodup_cons.mp hnd
    by_cases ha : a = who
    · subst ha
      simp only [List.map_cons, List.idxOf_cons_self, List.set_cons_zero, if_true, List.cons.injEq, true_and]
      apply List.map_congr_left
      intro u hu
      have : u ≠ a := fun h => hnd'.1 (h ▸ hu)
      simp [this]
    · have hb : (a == who) = false := by simp [ha]
      simp [List.idxOf_cons, hb, ha, ih hnd'.2]

/-- the latest payload delivered by `u` -/
def latestOf (u : NodeId) (xs : List Arr) : Option (Val × Meta) := (seqOf u xs).getLast?

def latestVal (u : NodeId) (xs : List Arr) : Val := ((latestOf u xs).map Prod.fst).getD Val.none
def latestMd (u : NodeId) (xs : List Arr) : Meta := ((latestOf u xs).map Prod.snd).getD []

theorem seqOf_append (u : NodeId) (xs ys : List Arr) : seqOf u (xs ++ ys) = seqOf u xs ++ seqOf u ys := by
  simp [seqOf]

theorem latestOf_snoc (u : NodeId) (h : List Arr) (a : Arr) :
    latestOf u (h ++ [a]) = if u = a.1 then some a.2 else latestOf u h := by
  obtain ⟨who, p⟩ := a
  by_cases hw : who = u
  · subst hw; simp [latestOf, seqOf]
  · have hw' : ¬ u = who := fun h => hw h.symm
    simp [latestOf, hw, hw', seqOf]

theorem latestVal_snoc (u : NodeId) (h : List Arr) (a : Arr) :
    latestVal u (h ++ [a]) = if u = a.1 then a.2.1 else latestVal u h := by
  simp only [latestVal, latestOf_snoc]; split <;> rfl

theorem latestMd_snoc (u : NodeId) (h : List Arr) (a : Arr) :
    latestMd u (h ++ [a]) = if u = a.1 then a.2.2 else latestMd u h := by
  simp only [latestMd, latestOf_snoc]; split <;> rfl

theorem stepLoc_combineLatest (e : Option (List NodeId)) (s : NState) (a : Arr) :
    stepLoc (.combineLatest e) s a =
      match idxOf s.ups a.1 with
      | none => (s, [])
      | some idx =>
        ({ s with lastMd := s.lastMd.set idx a.2.2, last := s.last.set idx a.2.1,
                  missing := s.missing.filter (· ≠ a.1) },
         if (s.missing.filter (· ≠ a.1)).isEmpty ∧ s.emitOn.contains a.1 then
           [(.tup (s.last.set idx a.2.1), flatMd (s.lastMd.set idx a.2.2))] else []) := by
  simp only [stepLoc, upd]
  cases hi : idxOf s.ups a.1 with
  | none => simp [finalLoc, outsOf, raise]
  | some idx =>
    have h2 : ∀ (c : Prop) [Decidable c] (m : Meta), outsOf (if c then [] else [Eff.release m]) = [] := by
      intro c _ m; split <;> rfl
    simp only
    split <;> simp [finalLoc_append, outsOf_append, finalLoc, outsOf, *]

theorem histRun_snoc {α β : Type} (out : List α → α → List β) (g h : List α) (a : α) :
    histRun out g (h ++ [a]) = histRun out g h ++ out (g ++ h) a := by
  induction h generalizing g with
  | nil => simp [histRun]
  | cons b t ih => simp [histRun, ih, List.append_assoc]

theorem outsOf_drain (buf : List (Val × Meta)) (st : NState) :
    outsOf (upd.drain buf st) =
      buf.map (fun p => (Val.tup (st.last.set 0 p.1), flatMd (st.lastMd.set 0 p.2))) := by
  induction buf generalizing st with
  | nil => simp [upd.drain, outsOf]
  | cons p rest ih =>
    obtain ⟨v, m⟩ := p
    simp [upd.drain, outsOf, ih, List.set_set]

theorem finalLoc_drain (buf : List (Val × Meta)) (st t : NState) :
    finalLoc (upd.drain buf st) t =
      match buf.getLast? with
      | none => t
      | some p => { st with lossless := [], last := st.last.set 0 p.1, lastMd := st.lastMd.set 0 p.2 } := by
  induction buf generalizing st t with
  | nil => simp [upd.drain, finalLoc]
  | cons p rest ih =>
    obtain ⟨v, m⟩ := p
    simp only [upd.drain, List.cons_append, List.nil_append, finalLoc, ih]
    cases rest with
    | nil => simp
    | cons q rest' =>
      rw [List.getLast?_cons_cons]
      cases hgl : (q :: rest').getLast? with
      | none => simp at hgl
      | some p => simp [List.set_set]

theorem stepLoc_zipLatest (s : NState) (a : Arr) :
    stepLoc .zipLatest s a =
      match idxOf s.ups a.1 with
      | none => (s, [])
      | some idx =>
        let s1 : NState :=
          { s with lossless := if idx = 0 then s.lossless ++ [a.2] else s.lossless,
                   lastMd := s.lastMd.set idx a.2.2, last := s.last.set idx a.2.1,
                   missing := s.missing.filter (· ≠ a.1) }
        if s1.missing.isEmpty then
          (finalLoc (upd.drain s1.lossless s1) s1, outsOf (upd.drain s1.lossless s1))
        else (s1, []) := by
  simp only [stepLoc, upd]
  cases hi : idxOf s.ups a.1 with
  | none => simp [finalLoc, outsOf, raise]
  | some idx =>
    have h2 : ∀ (c : Prop) [Decidable c] (m : Meta), outsOf (if c then [Eff.release m] else []) = [] := by
      intro c _ m; split <;> rfl
    simp only
    split <;> simp [finalLoc_append, outsOf_append, finalLoc, outsOf, h2]

/-- every upstream in `ups` has delivered at least once in `h` -/
def allDelivered (ups : List NodeId) (h : List Arr) : Prop := ∀ u ∈ ups, (latestOf u h).isSome

instance (ups : List NodeId) (h : List Arr) : Decidable (allDelivered ups h) := by
  unfold allDelivered; infer_instance

theorem allDelivered_mono (ups : List NodeId) (h : List Arr) (a : Arr) (hd : allDelivered ups h) :
    allDelivered ups (h ++ [a]) := by
  intro u hu
  rw [latestOf_snoc]
  split
  · rfl
  · exact hd u hu

/-! ### keyed partition -/

theorem stepLoc_partition_keyed (n : Nat) (kf : Fn) (s : NState) (a : Arr) :
    stepLoc (.partition n (some kf)) s a =
      match partKey kf a.2.1 with
      | none => (s, [])
      | some ky =>
        if ((s.items ++ [(ky, a.2.1, a.2.2)]).filter (fun it => it.1 = ky)).length = n then
          ({ s with items := (s.items ++ [(ky, a.2.1, a.2.2)]).filter (fun it => it.1 ≠ ky) },
            [(.tup (((s.items ++ [(ky, a.2.1, a.2.2)]).filter (fun it => it.1 = ky)).map (·.2.1)),
              flatMd (((s.items ++ [(ky, a.2.1, a.2.2)]).filter (fun it => it.1 = ky)).map (·.2.2)))])
        else ({ s with items := s.items ++ [(ky, a.2.1, a.2.2)] }, []) := by
  simp only [stepLoc, upd, partKey, keyOf]
  cases hk : kf.eval a.2.1 with
  | error e => simp [finalLoc, outsOf, raise]
  | ok ky =>
    simp only [Option.bind_some]
    cases hh : ky.hashable with
    | false => simp [finalLoc, outsOf, raise]
    | true =>
      simp only [Bool.not_true, Bool.false_eq_true, if_false, if_true]
      split <;> simp [finalLoc, outsOf]

/-- the elements whose key (under the key function `kf`) is `k` -/
def sameKey (kf : Val → Option Val) (k : Val) (xs : List (Val × Meta)) : List (Val × Meta) :=
  xs.filter (fun p => kf p.1 = some k)

theorem succ_mod_cases (c n : Nat) (hn : 0 < n) :
    (c % n + 1 = n ∧ (c + 1) % n = 0) ∨ (c % n + 1 < n ∧ (c + 1) % n = c % n + 1) := by
  have hr := Nat.mod_lt c hn
  have hd := Nat.div_add_mod c n
  by_cases h : c % n + 1 = n
  · left
    refine ⟨h, ?_⟩
    have : c + 1 = n * (c / n + 1) := by rw [Nat.mul_succ]; omega
    rw [this, Nat.mul_mod_right]
  · right
    refine ⟨by omega, ?_⟩
    have : c + 1 = n * (c / n) + (c % n + 1) := by omega
    rw [this, Nat.mul_add_mod, Nat.mod_eq_of_lt (by omega)]

theorem lastN_snoc_succ (r : Nat) (l : List α) (p : α) (h : r ≤ l.length) :
    lastN r l ++ [p] = lastN (r + 1) (l ++ [p]) := by
  simp only [lastN, List.length_append, List.length_singleton]
  rw [List.drop_append_of_le_length (by omega)]
  congr 2
  omega

theorem filter_filter_ne_eq {β : Type} (L : List (Val × β)) (k ky : Val) (hk : k ≠ ky) :
    (L.filter (fun it => it.1 ≠ ky)).filter (fun it => it.1 = k) = L.filter (fun it => it.1 = k) := by
  rw [List.filter_filter]
  apply List.filter_congr
  intro it _
  by_cases h : it.1 = k
  · simp [h, hk]
  · simp [h]

theorem filter_ne_filter_eq_nil {β : Type} (L : List (Val × β)) (ky : Val) :
    (L.filter (fun it => it.1 ≠ ky)).filter (fun it => it.1 = ky) = [] := by
  rw [List.filter_filter, List.filter_eq_nil_iff]
  intro it _
  by_cases h : it.1 = ky <;> simp [h]

theorem lastN_zero (l : List α) : lastN 0 l = [] := by simp [lastN]

/-! ### unique with a bounded (LRU) history -/

/-- keep the first occurrence of every value -/
def dedupFirst : List Val → List Val
  | [] => []
  | y :: ys => y :: (dedupFirst ys).filter (· ≠ y)

/-- the distinct keys of a key history, most recently used first -/
def mruOf (ks : List Val) : List Val := dedupFirst ks.reverse

theorem mruOf_snoc (ks : List Val) (y : Val) : mruOf (ks ++ [y]) = y :: (mruOf ks).filter (· ≠ y) := by
  simp [mruOf, dedupFirst]

theorem dedupFirst_nodup (l : List Val) : (dedupFirst l).Nodup := by
  induction l with
  | nil => simp [dedupFirst]
  | cons y ys ih =>
    simp only [dedupFirst, List.nodup_cons]
    exact ⟨by simp, ih.sublist List.filter_sublist⟩

theorem take_filter_take (S : List Val) (hS : S.Nodup) (y : Val) (c : Nat) :
    ((S.take (c + 1)).filter (· ≠ y)).take c = (S.filter (· ≠ y)).take c := by
  induction S generalizing c with
  | nil => rfl
  | cons a t ih =>
    have hnd := List.nodup_cons.mp hS
    by_cases ha : a = y
    · subst ha
      have hid : ∀ l : List Val, a ∉ l → l.filter (fun x => !decide (x = a)) = l := by
        intro l hl
        rw [List.filter_eq_self]
        intro b hb
        have : b ≠ a := fun h => hl (h ▸ hb)
        simp [this]
      have h1 : a ∉ t.take c := fun h => hnd.1 (List.mem_of_mem_take h)
      simp only [List.take_succ_cons, ne_eq, decide_not, List.filter_cons, decide_true, Bool.not_true,
        Bool.false_eq_true, if_false]
      rw [hid t hnd.1, hid _ h1, List.take_take, Nat.min_self]
    · cases c with
      | zero => simp
      | succ c' =>
        have := ih hnd.2 c'
        simp only [ne_eq, decide_not] at this
        simp [List.take_succ_cons, ha, this]

theorem lruTouch_take (S : List Val) (hS : S.Nodup) (y : Val) (c : Nat) :
    lruTouch (some c) (S.take c) y = (y :: S.filter (· ≠ y)).take c := by
  cases c with
  | zero => simp [lruTouch]
  | succ c' =>
    simp only [lruTouch, List.take_succ_cons, List.cons.injEq, true_and]
    exact take_filter_take S hS y c'

/-! ### zip with any number of upstreams -/

def minLen : List Nat → Nat
  | [] => 0
  | [a] => a
  | a :: b :: t => min a (minLen (b :: t))

theorem minLen_le (l : List Nat) (x : Nat) (h : x ∈ l) : minLen l ≤ x := by
  induction l with
  | nil => cases h
  | cons a t ih =>
    cases t with
    | nil => simp at h; subst h; simp [minLen]
    | cons b t' =>
      simp only [minLen]
      rcases List.mem_cons.mp h with h | h
      · subst h; exact Nat.min_le_left _ _
      · exact Nat.le_trans (Nat.min_le_right _ _) (ih h)

theorem minLen_mem (l : List Nat) (h : l ≠ []) : minLen l ∈ l := by
  induction l with
  | nil => exact absurd rfl h
  | cons a t ih =>
    cases t with
    | nil => simp [minLen]
    | cons b t' =>
      simp only [minLen]
      have := ih (by simp)
      rcases Nat.le_total a (minLen (b :: t')) with hle | hle
      · rw [Nat.min_eq_left hle]; simp
      · rw [Nat.min_eq_right hle]; exact List.mem_cons_of_mem _ this

theorem minLen_zeros {α : Type} (l : List α) : minLen (l.map (fun _ => 0)) = 0 := by
  cases l with
  | nil => rfl
  | cons a t =>
    have := minLen_mem ((a :: t).map (fun _ => 0)) (by simp)
    simp only [List.mem_map] at this
    obtain ⟨_, _, h⟩ := this
    exact h.symm

/-- number of matched (emitted) rows after the arrivals `h`: the length of the shortest upstream sequence -/
def matched (ups : List NodeId) (h : List Arr) : Nat := minLen (ups.map (fun u => (seqOf u h).length))

theorem matched_le (ups : List NodeId) (h : List Arr) (u : NodeId) (hu : u ∈ ups) :
    matched ups h ≤ (seqOf u h).length :=
  minLen_le _ _ (List.mem_map.mpr ⟨u, hu, rfl⟩)

theorem matched_attained (ups : List NodeId) (h : List Arr) (hne : ups ≠ []) :
    ∃ u ∈ ups, (seqOf u h).length = matched ups h := by
  have := minLen_mem (ups.map (fun u => (seqOf u h).length)) (by simpa using hne)
  obtain ⟨u, hu, he⟩ := List.mem_map.mp this
  exact ⟨u, hu, he⟩

/-- `m` is the minimum as soon as it is a lower bound that is attained -/
theorem matched_unique (ups : List NodeId) (h : List Arr) (m : Nat)
    (hle : ∀ u ∈ ups, m ≤ (seqOf u h).length) (hat : ∃ u ∈ ups, (seqOf u h).length = m) :
    matched ups h = m := by
  obtain ⟨u, hu, he⟩ := hat
  have hne : ups ≠ [] := fun h0 => by subst h0; cases hu
  obtain ⟨v, hv, hev⟩ := matched_attained ups h hne
  have h1 := matched_le ups h u hu
  have h2 := hle v hv
  omega

theorem seqOf_snoc_length (u : NodeId) (h : List Arr) (a : Arr) :
    (seqOf u (h ++ [a])).length = (seqOf u h).length + (if a.1 = u then 1 else 0) := by
  rw [seqOf_append]
  obtain ⟨who, p⟩ := a
  by_cases hw : who = u
  · subst hw; simp [seqOf]
  · simp [seqOf, hw]

/-- one more arrival from an upstream completes a row iff afterwards every upstream is ahead of the rows
emitted so far; otherwise the number of rows stays -/
theorem matched_snoc (ups : List NodeId) (h : List Arr) (a : Arr) (hw : a.1 ∈ ups) :
    (if ∀ u ∈ ups, matched ups h + 1 ≤ (seqOf u (h ++ [a])).length then
      matched ups (h ++ [a]) = matched ups h + 1 ∧ (seqOf a.1 h).length = matched ups h
     else matched ups (h ++ [a]) = matched ups h) := by
  have hne : ups ≠ [] := fun h0 => by subst h0; cases hw
  obtain ⟨v, hv, hev⟩ := matched_attained ups h hne
  split
  · rename_i hall
    have hvw : a.1 = v := by
      have := hall v hv
      rw [seqOf_snoc_length] at this
      by_cases h : a.1 = v
      · exact h
      · simp [h] at this; omega
    subst hvw
    refine ⟨matched_unique ups _ _ hall ⟨a.1, hv, ?_⟩, hev⟩
    rw [seqOf_snoc_length]; simp [hev]
  · rename_i hall
    apply matched_unique
    · intro u hu
      have := matched_le ups h u hu
      rw [seqOf_snoc_length]; omega
    · have : ∃ u ∈ ups, ¬ matched ups h + 1 ≤ (seqOf u (h ++ [a])).length := by
        false_or_by_contra
        rename_i hc
        exact hall (fun u hu => by
          false_or_by_contra
          rename_i h2
          exact hc ⟨u, hu, h2⟩)
      obtain ⟨u, hu, hlt⟩ := this
      refine ⟨u, hu, ?_⟩
      have h1 := matched_le ups h u hu
      rw [seqOf_snoc_length] at hlt ⊢
      omega

theorem matched_snoc_other (ups : List NodeId) (h : List Arr) (a : Arr) (hw : a.1 ∉ ups) :
    matched ups (h ++ [a]) = matched ups h := by
  unfold matched
  congr 1
  apply List.map_congr_left
  intro u hu
  have : a.1 ≠ u := fun h => hw (h ▸ hu)
  rw [seqOf_snoc_length]; simp [this]

/-- row `j` of the transpose: the `j`-th payload of every upstream, in upstream order -/
def zipRow (ups : List NodeId) (h : List Arr) (j : Nat) : List (Val × Meta) :=
  ups.filterMap (fun u => (seqOf u h)[j]?)

/-- what `zip` emits for a row -/
def zipEmit (lits : List (Nat × Val)) (row : List (Val × Meta)) : Val × Meta :=
  (.tup (packLiterals lits (row.map Prod.fst)), flatMd (row.map Prod.snd))

theorem filterMap_congr_mem {α β : Type} (f g : α → Option β) (l : List α) (h : ∀ a ∈ l, f a = g a) :
    l.filterMap f = l.filterMap g := by
  induction l with
  | nil => rfl
  | cons a t ih =>
    simp only [List.filterMap_cons, h a (by simp), ih (fun b hb => h b (by simp [hb]))]

theorem find?_map_key {β : Type} (ups : List NodeId) (F : NodeId → β) (who : NodeId) (hw : who ∈ ups) :
    (ups.map (fun u => (u, F u))).find? (fun b => b.1 = who) = some (who, F who) := by
  induction ups with
  | nil => cases hw
  | cons a t ih =>
    by_cases ha : a = who
    · subst ha; simp
    · have : who ∈ t := by
        rcases List.mem_cons.mp hw with h | h
        · exact absurd h.symm ha
        · exact h
      simp [ha, ih this]

theorem stepLoc_zip (lits : List (Nat × Val)) (ups : List NodeId) (s : NState) (h : List Arr) (a : Arr)
    (hups : s.ups = ups)
    (hb : s.bufs = ups.map (fun u => (u, (seqOf u h).drop (matched ups h)))) :
    stepLoc (.zip lits) s a =
      if a.1 ∈ ups then
        ({ s with bufs := ups.map (fun u => (u, (seqOf u (h ++ [a])).drop (matched ups (h ++ [a])))) },
          if matched ups (h ++ [a]) = matched ups h + 1 then [zipEmit lits (zipRow ups (h ++ [a]) (matched ups h))]
          else [])
      else (s, []) := by
  by_cases hw : a.1 ∈ ups
  · rw [if_pos hw]
    have hle := fun u hu => matched_le ups h u hu
    -- the buffers after the append, as a function of the upstream
    have hF1 : ∀ u ∈ ups, (if u = a.1 then (seqOf u h).drop (matched ups h) ++ [a.2] else (seqOf u h).drop (matched ups h)) =
        (seqOf u (h ++ [a])).drop (matched ups h) := by
      intro u hu
      rw [seqOf_append]
      obtain ⟨who, p⟩ := a
      by_cases hu' : u = who
      · subst hu'
        simp only [if_true]
        rw [List.drop_append_of_le_length (hle u hu)]
        simp [seqOf]
      · have : ¬ who = u := fun h => hu' h.symm
        simp [hu', seqOf, this]
    have hbufs1 : (s.bufs.map (fun b => if b.1 = a.1 then (b.1, (seqOf a.1 h).drop (matched ups h) ++ [(a.2.1, a.2.2)]) else b)) =
        ups.map (fun u => (u, (seqOf u (h ++ [a])).drop (matched ups h))) := by
      rw [hb, List.map_map]
      apply List.map_congr_left
      intro u hu
      rw [← hF1 u hu]
      by_cases hu' : u = a.1
      · simp [hu']
      · simp [hu']
    have hall : (ups.map (fun u => (u, (seqOf u (h ++ [a])).drop (matched ups h)))).all (fun b => !b.2.isEmpty) = true ↔
        ∀ u ∈ ups, matched ups h + 1 ≤ (seqOf u (h ++ [a])).length := by
      simp only [List.all_eq_true, List.mem_map]
      constructor
      · intro hx u hu
        have := hx _ ⟨u, hu, rfl⟩
        simp only [Bool.not_eq_true', List.isEmpty_eq_false_iff, ne_eq, List.drop_eq_nil_iff, Nat.not_le] at this
        omega
      · rintro hx b ⟨u, hu, rfl⟩
        have := hx u hu
        simp only [Bool.not_eq_true', List.isEmpty_eq_false_iff, ne_eq, List.drop_eq_nil_iff, Nat.not_le]
        omega
    have hstep := matched_snoc ups h a hw
    simp only [stepLoc, upd, hb, find?_map_key ups _ a.1 hw]
    rw [← hb, hbufs1]
    by_cases hfire : ∀ u ∈ ups, matched ups h + 1 ≤ (seqOf u (h ++ [a])).length
    · rw [if_pos hfire] at hstep
      have hlen1 : ((seqOf a.1 h).drop (matched ups h) ++ [(a.2.1, a.2.2)]).length = 1 := by
        simp [hstep.2]
      rw [if_pos ⟨hlen1, hall.mpr hfire⟩]
      have hheads : (s.ups.filterMap (fun u =>
            ((ups.map (fun u => (u, (seqOf u (h ++ [a])).drop (matched ups h)))).find? (fun b => b.1 = u)).bind
              (fun b => b.2.head?))) = zipRow ups (h ++ [a]) (matched ups h) := by
        rw [hups, zipRow]
        apply filterMap_congr_mem
        intro u hu
        rw [find?_map_key ups _ u hu]
        simp [List.head?_drop]
      simp only [finalLoc, outsOf, hheads, hstep.1, if_true, zipEmit, List.map_map]
      refine Prod.ext ?_ rfl
      simp only
      congr 1
      apply List.map_congr_left
      intro u _
      simp [Function.comp, List.tail_drop]
    · rw [if_neg hfire] at hstep
      have : ¬ (((seqOf a.1 h).drop (matched ups h) ++ [(a.2.1, a.2.2)]).length = 1 ∧
          (ups.map (fun u => (u, (seqOf u (h ++ [a])).drop (matched ups h)))).all (fun b => !b.2.isEmpty) = true) :=
        fun hc => hfire (hall.mp hc.2)
      rw [if_neg this]
      have hne : ¬ matched ups h = matched ups h + 1 := by omega
      simp [finalLoc, outsOf, hstep]
  · rw [if_neg hw]
    have : s.bufs.find? (fun b => b.1 = a.1) = none := by
      rw [hb, List.find?_eq_none]
      simp only [List.mem_map]
      rintro b ⟨u, hu, rfl⟩
      have : u ≠ a.1 := fun h => hw (h ▸ hu)
      simp [this]
    simp [stepLoc, upd, this, finalLoc, outsOf, raise]

theorem list_snoc_induction {α : Type} {P : List α → Prop} (nil : P [])
    (snoc : ∀ l a, P l → P (l ++ [a])) : ∀ l, P l := by
  intro l
  have : ∀ r : List α, P r.reverse := by
    intro r
    induction r with
    | nil => exact nil
    | cons a t ih => rw [List.reverse_cons]; exact snoc _ _ ih
  simpa using this l.reverse

/-- The transpose of the per-upstream sequences, truncated to the shortest: row `j` for `j < matched`. -/
def zipSpec (lits : List (Nat × Val)) (ups : List NodeId) (xs : List Arr) : List (Val × Meta) :=
  (List.range (matched ups xs)).map (fun j => zipEmit lits (zipRow ups xs j))

def zipOut (lits : List (Nat × Val)) (ups : List NodeId) (h : List Arr) (a : Arr) : List (Val × Meta) :=
  if a.1 ∈ ups ∧ matched ups (h ++ [a]) = matched ups h + 1 then
    [zipEmit lits (zipRow ups (h ++ [a]) (matched ups h))] else []

theorem zipRow_stable (ups : List NodeId) (h : List Arr) (a : Arr) (j : Nat) (hj : j < matched ups h) :
    zipRow ups (h ++ [a]) j = zipRow ups h j := by
  apply filterMap_congr_mem
  intro u hu
  have := matched_le ups h u hu
  rw [seqOf_append, List.getElem?_append_left (by omega)]

theorem zipSpec_snoc (lits : List (Nat × Val)) (ups : List NodeId) (h : List Arr) (a : Arr) :
    zipSpec lits ups (h ++ [a]) = zipSpec lits ups h ++ zipOut lits ups h a := by
  have hstable : (List.range (matched ups h)).map (fun j => zipEmit lits (zipRow ups (h ++ [a]) j)) =
      (List.range (matched ups h)).map (fun j => zipEmit lits (zipRow ups h j)) := by
    apply List.map_congr_left
    intro j hj
    rw [zipRow_stable ups h a j (List.mem_range.mp hj)]
  by_cases hw : a.1 ∈ ups
  · have hstep := matched_snoc ups h a hw
    split at hstep
    · simp only [zipSpec, zipOut, hstep.1, hw, true_and, if_true, List.range_succ, List.map_append, hstable,
        List.map_cons, List.map_nil]
    · have hne : ¬ matched ups h = matched ups h + 1 := by omega
      simp only [zipSpec, zipOut, hstep, hne, and_false, if_false, List.append_nil, hstable]
  · have hm := matched_snoc_other ups h a hw
    simp only [zipSpec, zipOut, hw, false_and, if_false, List.append_nil, hm, hstable]

theorem histRun_zipOut (lits : List (Nat × Val)) (ups : List NodeId) (xs : List Arr) :
    histRun (zipOut lits ups) [] xs = zipSpec lits ups xs := by
  induction xs using list_snoc_induction with
  | nil => simp [histRun, zipSpec, matched, seqOf, minLen_zeros]
  | snoc l a ih => rw [histRun_snoc, ih, zipSpec_snoc]; simp

theorem localRun_zip (lits : List (Nat × Val)) (ups : List NodeId) (s : NState) (hups : s.ups = ups)
    (hb : s.bufs = ups.map (fun u => (u, []))) (arrivals : List Arr) :
    (localRun (.zip lits) s arrivals).2 = zipSpec lits ups arrivals ∧
    (localRun (.zip lits) s arrivals).1.bufs =
      ups.map (fun u => (u, (seqOf u arrivals).drop (matched ups arrivals))) := by
  have h := localRun_hist (.zip lits) id
    (fun h s => s.ups = ups ∧ s.bufs = ups.map (fun u => (u, (seqOf u h).drop (matched ups h))))
    (zipOut lits ups)
    (by
      intro h s a ⟨i1, i2⟩
      rw [stepLoc_zip lits ups s h a i1 i2]
      by_cases hw : a.1 ∈ ups
      · simp only [hw, if_true, zipOut, true_and, List.map_id]
        exact ⟨⟨i1, trivial⟩, trivial⟩
      · simp only [hw, if_false, zipOut, false_and, List.map_nil]
        refine ⟨⟨i1, ?_⟩, trivial⟩
        rw [i2, matched_snoc_other ups h a hw]
        apply List.map_congr_left
        intro u hu
        obtain ⟨who, p⟩ := a
        have : who ≠ u := fun h => hw (h ▸ hu)
        rw [seqOf_append, seqOf_cons_ne u who this]
        simp [seqOf])
    [] s arrivals ⟨hups, by simp [hb, seqOf]⟩
  rw [List.map_id] at h
  exact ⟨by rw [h.2, histRun_zipOut], by simpa using h.1.2⟩

/-! ### starmap -/

def isTup : Val → Bool
  | .tup _ => true
  | _ => false

theorem stepLoc_starmap (f : Fn) (s : NState) (a : Arr) :
    stepLoc (.starmap f) s a =
      (s, if isTup a.2.1 then (match f.eval a.2.1 with | .ok y => [(y, a.2.2)] | .error _ => []) else []) := by
  simp only [stepLoc, upd]
  cases hx : a.2.1 with
  | tup l =>
    simp only [isTup, if_true]
    cases h : f.eval (Val.tup l) <;> simp [finalLoc, outsOf, raise]
  | int _ => simp [isTup, finalLoc, outsOf, raise]
  | str _ => simp [isTup, finalLoc, outsOf, raise]
  | lst _ => simp [isTup, finalLoc, outsOf, raise]
  | none => simp [isTup, finalLoc, outsOf, raise]

/-! ### partition_unique -/

set_option linter.unusedSimpArgs false in
theorem stepLoc_partitionUnique (n : Nat) (key : Fn) (keepLast : Bool) (s : NState) (a : Arr) :
    stepLoc (.partitionUnique n key keepLast) s a =
      match partKey key a.2.1 with
      | none => (s, [])
      | some ky =>
        let items :=
          if keepLast then s.items.filter (fun it => it.1 ≠ ky) ++ [(ky, a.2.1, a.2.2)]
          else if (s.items.find? (fun it => it.1 = ky)).isSome then s.items
          else s.items ++ [(ky, a.2.1, a.2.2)]
        if items.length = n then
          ({ s with items := [] }, [(.tup (items.map (·.2.1)), flatMd (items.map (·.2.2)))])
        else ({ s with items := items }, []) := by
  simp only [stepLoc, upd, partKey, keyOf]
  cases hk : key.eval a.2.1 with
  | error e => simp [finalLoc, outsOf, raise]
  | ok ky =>
    simp only [Option.bind_some]
    cases hh : ky.hashable with
    | false => simp [finalLoc, outsOf, raise]
    | true =>
      simp only [Bool.not_true, Bool.false_eq_true, if_false, if_true]
      cases keepLast with
      | true =>
        simp only [if_true]
        split <;> simp [finalLoc_append, outsOf_append, finalLoc, outsOf] <;>
          (cases s.items.find? (fun it => it.1 = ky) <;> simp [finalLoc, outsOf] <;> split <;> simp [finalLoc, outsOf])
      | false =>
        cases hp : s.items.find? (fun it => it.1 = ky) with
        | none => simp only [Bool.false_eq_true, if_false, Option.isSome_none]; split <;> simp [finalLoc, outsOf]
        | some it => simp only [Bool.false_eq_true, if_false, Option.isSome_some, if_true]; split <;> simp [finalLoc, outsOf]

/-- one element per key, the first occurrence kept (`h` = the elements before `p`) -/
def firstPerKey (kf : Val → Option Val) (seg : List (Val × Meta)) : List (Val × Meta) :=
  histRun (fun h p => if kf p.1 ∈ h.map (fun q => kf q.1) then [] else [p]) [] seg

/-- one element per key, the last occurrence kept -/
def lastPerKey (kf : Val → Option Val) : List (Val × Meta) → List (Val × Meta)
  | [] => []
  | p :: ps => if kf p.1 ∈ ps.map (fun q => kf q.1) then lastPerKey kf ps else p :: lastPerKey kf ps

theorem firstPerKey_snoc (kf : Val → Option Val) (seg : List (Val × Meta)) (p : Val × Meta) :
    firstPerKey kf (seg ++ [p]) =
      firstPerKey kf seg ++ (if kf p.1 ∈ seg.map (fun q => kf q.1) then [] else [p]) := by
  simp [firstPerKey, histRun_snoc]

theorem lastPerKey_snoc (kf : Val → Option Val) (seg : List (Val × Meta)) (p : Val × Meta) :
    lastPerKey kf (seg ++ [p]) = (lastPerKey kf seg).filter (fun q => kf q.1 ≠ kf p.1) ++ [p] := by
  induction seg with
  | nil => simp [lastPerKey]
  | cons q qs ih =>
    simp only [List.cons_append, lastPerKey, List.map_append, List.map_cons, List.map_nil, List.mem_append,
      List.mem_singleton, ih]
    by_cases h1 : kf q.1 ∈ qs.map (fun q => kf q.1)
    · rw [if_pos (Or.inl h1), if_pos h1]
    · rw [if_neg h1]
      by_cases h2 : kf q.1 = kf p.1
      · rw [if_pos (Or.inr h2)]
        simp [h2]
      · rw [if_neg (by simp [h1, h2])]
        simp [h2]

theorem mem_firstPerKey_keys (kf : Val → Option Val) (seg : List (Val × Meta)) (k : Option Val) :
    k ∈ (firstPerKey kf seg).map (fun q => kf q.1) ↔ k ∈ seg.map (fun q => kf q.1) := by
  induction seg using list_snoc_induction with
  | nil => simp [firstPerKey, histRun]
  | snoc l p ih =>
    rw [firstPerKey_snoc]
    by_cases h : kf p.1 ∈ l.map (fun q => kf q.1)
    · simp only [h, if_true, List.append_nil, ih, List.map_append, List.map_cons, List.map_nil, List.mem_append,
        List.mem_singleton]
      constructor
      · exact Or.inl
      · rintro (h1 | h1)
        · exact h1
        · rw [h1]; exact h
    · simp only [h, if_false, List.map_append, List.mem_append, ih]

theorem firstPerKey_subset (kf : Val → Option Val) (seg : List (Val × Meta)) :
    ∀ q ∈ firstPerKey kf seg, q ∈ seg := by
  induction seg using list_snoc_induction with
  | nil => simp [firstPerKey, histRun]
  | snoc l p ih =>
    rw [firstPerKey_snoc]
    intro q hq
    rcases List.mem_append.mp hq with h | h
    · exact List.mem_append_left _ (ih q h)
    · split at h
      · cases h
      · exact List.mem_append_right _ h

theorem lastPerKey_subset (kf : Val → Option Val) (seg : List (Val × Meta)) :
    ∀ q ∈ lastPerKey kf seg, q ∈ seg := by
  induction seg with
  | nil => simp [lastPerKey]
  | cons p ps ih =>
    intro q hq
    simp only [lastPerKey] at hq
    split at hq
    · exact List.mem_cons_of_mem _ (ih q hq)
    · rcases List.mem_cons.mp hq with h | h
      · rw [h]; exact List.mem_cons_self
      · exact List.mem_cons_of_mem _ (ih q h)

def onePerKey (keepLast : Bool) (kf : Val → Option Val) (seg : List (Val × Meta)) : List (Val × Meta) :=
  if keepLast then lastPerKey kf seg else firstPerKey kf seg

/-- `partition_unique`: `seg` = the (keyed) arrivals since the last emission.  A group is emitted as soon as
it contains `n` distinct keys; the emitted tuple has one element per key (first or last occurrence), in
element order. -/
def puSpecFrom (n : Nat) (keepLast : Bool) (kf : Val → Option Val) :
    List (Val × Meta) → List (Val × Meta) → List (Val × Meta)
  | _, [] => []
  | seg, p :: ps =>
    if (kf p.1).isSome then
      if (onePerKey keepLast kf (seg ++ [p])).length = n then
        tupOf (onePerKey keepLast kf (seg ++ [p])) :: puSpecFrom n keepLast kf [] ps
      else puSpecFrom n keepLast kf (seg ++ [p]) ps
    else puSpecFrom n keepLast kf seg ps

def mkItem (kf : Val → Option Val) (p : Val × Meta) : Val × Val × Meta := ((kf p.1).getD Val.none, p.1, p.2)

theorem localRun_partitionUnique (n : Nat) (key : Fn) (keepLast : Bool) (xs : List Arr)
    (seg : List (Val × Meta)) (s : NState)
    (hseg : ∀ p ∈ seg, (partKey key p.1).isSome)
    (hs : s.items = (onePerKey keepLast (partKey key) seg).map (mkItem (partKey key))) :
    (localRun (.partitionUnique n key keepLast) s xs).2 = puSpecFrom n keepLast (partKey key) seg (pays xs) := by
  induction xs generalizing seg s with
  | nil => rfl
  | cons a as ih =>
    rw [localRun_cons, stepLoc_partitionUnique]
    cases hk : partKey key a.2.1 with
    | none => simp only [pays_cons, puSpecFrom, hk, Option.isSome_none, Bool.false_eq_true, if_false, List.nil_append]
              exact ih seg s hseg hs
    | some ky =>
      have hseg' : ∀ p ∈ seg ++ [a.2], (partKey key p.1).isSome := by
        intro p hp
        rcases List.mem_append.mp hp with h | h
        · exact hseg p h
        · simp only [List.mem_singleton] at h; rw [h, hk]; rfl
      -- the implementation's new buffer is the one-per-key view of the extended segment
      have hitems : (if keepLast then s.items.filter (fun it => it.1 ≠ ky) ++ [(ky, a.2.1, a.2.2)]
            else if (s.items.find? (fun it => it.1 = ky)).isSome then s.items
            else s.items ++ [(ky, a.2.1, a.2.2)]) =
          (onePerKey keepLast (partKey key) (seg ++ [a.2])).map (mkItem (partKey key)) := by
        have hmk : mkItem (partKey key) a.2 = (ky, a.2.1, a.2.2) := by simp [mkItem, hk]
        cases keepLast with
        | true =>
          simp only [if_true, onePerKey, lastPerKey_snoc, List.map_append, List.map_cons, List.map_nil, hmk, hs,
            List.filter_map]
          congr 2
          apply List.filter_congr
          intro q hq
          have hq' := hseg q (lastPerKey_subset _ _ q hq)
          obtain ⟨k', hk'⟩ := Option.isSome_iff_exists.mp hq'
          simp [mkItem, hk', hk]
        | false =>
          simp only [Bool.false_eq_true, if_false, onePerKey, firstPerKey_snoc, List.map_append, hs]
          have hfind : (((firstPerKey (partKey key) seg).map (mkItem (partKey key))).find? (fun it => it.1 = ky)).isSome ↔
              partKey key a.2.1 ∈ seg.map (fun q => partKey key q.1) := by
            rw [← mem_firstPerKey_keys, hk, List.find?_isSome]
            simp only [List.mem_map, decide_eq_true_eq]
            constructor
            · rintro ⟨it, ⟨q, hq, rfl⟩, hit⟩
              refine ⟨q, hq, ?_⟩
              have hq' := hseg q (firstPerKey_subset _ _ q hq)
              obtain ⟨k', hk'⟩ := Option.isSome_iff_exists.mp hq'
              simp [mkItem, hk'] at hit
              rw [hk', hit]
            · rintro ⟨q, hq, hqk⟩
              exact ⟨mkItem (partKey key) q, ⟨q, hq, rfl⟩, by simp [mkItem, hqk]⟩
          by_cases hin : partKey key a.2.1 ∈ seg.map (fun q => partKey key q.1)
          · rw [if_pos (hfind.mpr hin), if_pos hin]; simp
          · rw [if_neg (fun h => hin (hfind.mp h)), if_neg hin]; simp [hmk]
      simp only [hitems, pays_cons, puSpecFrom, hk, Option.isSome_some, if_true, List.length_map]
      by_cases hn : (onePerKey keepLast (partKey key) (seg ++ [a.2])).length = n
      · simp only [hn, if_true, List.singleton_append]
        rw [ih [] { s with items := [] } (by simp) (by cases keepLast <;> simp [onePerKey, lastPerKey, firstPerKey, histRun])]
        simp [tupOf, mkItem, Function.comp_def]
      · simp only [hn, if_false, List.nil_append]
        exact ih (seg ++ [a.2]) _ hseg' rfl

end StreamzVerif.Graph
