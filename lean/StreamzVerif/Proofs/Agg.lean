import StreamzVerif.Model.Agg
/-!
# Helper lemmas for C06 (streaming aggregations = pandas on the concatenation)

* the pandas reductions are monoid homomorphisms from (columns, ++);
* `runFrom_spec`: invariant-style reasoning about the `accumulate` node;
* finite-map lemmas (`get` of `align`, of `groupBy`, of `valueCounts`);
* the two-moment formula of `Var` equals the textbook variance;
* element-wise expressions / pipelines commute with concatenation and with streaming.
-/
namespace StreamzVerif.Agg

/-! ## reductions are homomorphisms -/

@[simp] theorem vals_nil : vals [] = [] := rfl
theorem vals_append (a b : Col) : vals (a ++ b) = vals a ++ vals b := by
  simp [vals, List.filterMap_append]

@[simp] theorem psum_nil : psum [] = 0 := rfl
@[simp] theorem psumsq_nil : psumsq [] = 0 := rfl
@[simp] theorem pcount_nil : pcount [] = 0 := rfl
@[simp] theorem psize_nil : psize [] = 0 := rfl

theorem psum_append (a b : Col) : psum (a ++ b) = psum a + psum b := by
  simp [psum, vals_append, List.sum_append]
theorem psumsq_append (a b : Col) : psumsq (a ++ b) = psumsq a + psumsq b := by
  simp [psumsq, vals_append, List.sum_append]
theorem pcount_append (a b : Col) : pcount (a ++ b) = pcount a + pcount b := by
  simp [pcount, vals_append]
theorem psize_append (a b : Col) : psize (a ++ b) = psize a + psize b := by
  simp [psize]

theorem isEmpty_eq_true_iff {α} (l : List α) : l.isEmpty = true ↔ l = [] := by
  cases l <;> simp

/-! ## the accumulate node -/

theorem flatten_snoc {α} (seen : List (List α)) (b : List α) : (seen ++ [b]).flatten = seen.flatten ++ b := by
  simp

/-- Invariant reasoning: if `P` relates the batches seen so far to the node state and every step
re-establishes `P` and produces a result satisfying `Q`, then the `k`-th emission satisfies `Q`
of the first `k+1` batches. -/
theorem runFrom_spec {β σ ρ : Type} (A : Aggregation β σ ρ) (P : List β → Option σ → Prop) (Q : List β → ρ → Prop)
    (hstep : ∀ seen acc b, P seen acc → P (seen ++ [b]) (node A acc b).1 ∧ Q (seen ++ [b]) (node A acc b).2)
    (seen : List β) (acc : Option σ) (h : P seen acc) (bs : List β) (k : Nat) (hk : k < bs.length) :
    ∃ r, (runFrom A acc bs)[k]? = some r ∧ Q (seen ++ bs.take (k + 1)) r := by
  induction bs generalizing seen acc k with
  | nil => simp at hk
  | cons b bs ih =>
    have hs := hstep seen acc b h
    cases k with
    | zero => exact ⟨(node A acc b).2, by simp [runFrom], by simpa using hs.2⟩
    | succ k =>
      have hk' : k < bs.length := by simpa using hk
      obtain ⟨r, hr, hq⟩ := ih (seen ++ [b]) (node A acc b).1 hs.1 k hk'
      refine ⟨r, by simpa [runFrom] using hr, ?_⟩
      simpa [List.take_succ_cons, List.append_assoc] using hq

theorem run_spec {β σ ρ : Type} (A : Aggregation β σ ρ) (P : List β → Option σ → Prop) (Q : List β → ρ → Prop)
    (h0 : P [] none)
    (hstep : ∀ seen acc b, P seen acc → P (seen ++ [b]) (node A acc b).1 ∧ Q (seen ++ [b]) (node A acc b).2)
    (bs : List β) (k : Nat) (hk : k < bs.length) :
    ∃ r, (run A bs)[k]? = some r ∧ Q (bs.take (k + 1)) r := by
  simpa [run] using runFrom_spec A P Q hstep [] none h0 bs k hk

/-- For a functional `Q` (`r = spec seen`). -/
theorem run_eq {β σ ρ : Type} (A : Aggregation β σ ρ) (P : List β → Option σ → Prop) (spec : List β → ρ)
    (h0 : P [] none)
    (hstep : ∀ seen acc b, P seen acc → P (seen ++ [b]) (node A acc b).1 ∧ (node A acc b).2 = spec (seen ++ [b]))
    (bs : List β) (k : Nat) (hk : k < bs.length) :
    (run A bs)[k]? = some (spec (bs.take (k + 1))) := by
  obtain ⟨r, hr, hq⟩ := run_spec A P (fun seen r => r = spec seen) h0 hstep bs k hk
  rw [hr, hq]

theorem run_length {β σ ρ : Type} (A : Aggregation β σ ρ) (bs : List β) : (run A bs).length = bs.length := by
  unfold run
  generalize (none : Option σ) = acc
  induction bs generalizing acc with
  | nil => rfl
  | cons b bs ih => simp [runFrom, ih]

theorem node_eq {β σ ρ : Type} (A : Aggregation β σ ρ) (init : σ) (hi : ∀ b, A.initial b = init)
    (hr : ∀ r, A.raised r = false) (acc : Option σ) (b : β) :
    node A acc b = (some (A.onNew (acc.getD init) b).1, (A.onNew (acc.getD init) b).2) := by
  cases acc <;> simp [node, accumulator, hi, hr]

/-- never-raising aggregation whose `initial` does not depend on the batch: it suffices to give
the state `st seen` reached after the batches `seen` and to check one `on_new`. -/
theorem run_eq_of_state {β σ ρ : Type} (A : Aggregation β σ ρ) (st : List β → σ) (spec : List β → ρ)
    (hi : ∀ b, A.initial b = st []) (hr : ∀ r, A.raised r = false)
    (hstep : ∀ seen b, A.onNew (st seen) b = (st (seen ++ [b]), spec (seen ++ [b])))
    (bs : List β) (k : Nat) (hk : k < bs.length) :
    (run A bs)[k]? = some (spec (bs.take (k + 1))) := by
  refine run_eq A (fun seen acc => acc.getD (st []) = st seen) spec rfl ?_ bs k hk
  intro seen acc b h
  rw [node_eq A (st []) hi hr, h, hstep]
  simp

/-! ## column aggregations -/

theorem meanResult_eq (c : Col) : meanResult { totals := psum c, counts := pcount c } = pmean c := by
  simp [meanResult, pmean, odiv]

theorem mean_eq (bs : List Col) (k : Nat) (hk : k < bs.length) :
    (run Mean bs)[k]? = some (pmean (bs.take (k + 1)).flatten) := by
  refine run_eq_of_state Mean (fun seen => ⟨psum seen.flatten, pcount seen.flatten⟩)
    (fun seen => pmean seen.flatten) (fun _ => rfl) (fun _ => rfl) ?_ bs k hk
  intro seen b
  simp only [Mean, flatten_snoc, psum_append, pcount_append, ← meanResult_eq]
  by_cases he : b.isEmpty = true
  · have := (isEmpty_eq_true_iff b).1 he; subst this; simp [Rat.add_zero]
  · simp [he]

theorem sum_eq (bs : List Col) (k : Nat) (hk : k < bs.length) :
    (run Sum bs)[k]? = some (psum (bs.take (k + 1)).flatten) := by
  refine run_eq_of_state Sum (fun seen => psum seen.flatten)
    (fun seen => psum seen.flatten) (fun _ => rfl) (fun _ => rfl) ?_ bs k hk
  intro seen b
  simp only [Sum, flatten_snoc, psum_append]
  by_cases he : b.isEmpty = true
  · have := (isEmpty_eq_true_iff b).1 he; subst this; simp [Rat.add_zero]
  · simp [he]

/-! ## variance: the two-moment formula is the textbook definition -/

theorem sum_sq_dev (l : List Rat) (m : Rat) :
    (l.map fun v => (v - m) * (v - m)).sum
      = (l.map fun v => v * v).sum - 2 * m * l.sum + (l.length : Rat) * (m * m) := by
  induction l with
  | nil => simp <;> grind
  | cons a l ih => simp only [List.map_cons, List.sum_cons, ih, List.length_cons]; grind

theorem pcount_nonneg (c : Col) : 0 ≤ pcount c := by simp [pcount]

/-- the two-moment formula of the code is the textbook variance whenever more than `ddof`
values have been counted -/
theorem varResult_eq_pvar_of_lt (ddof : Nat) (c : Col) (h : (ddof : Int) < pcount c) :
    varResult ddof (psum c) (psumsq c) (pcount c) = pvar ddof c := by
  have hn0 : pcount c ≠ 0 := by have := pcount_nonneg c; omega
  have hnq : ((pcount c : Int) : Rat) ≠ 0 := by simpa using hn0
  have hdq : ((pcount c : Int) : Rat) - (ddof : Rat) ≠ 0 := by
    intro h0
    have h1 : ((pcount c : Int) : Rat) = ((ddof : Int) : Rat) := by
      rw [Rat.intCast_natCast]; grind
    have := Rat.intCast_inj.1 h1
    omega
  have hle : ¬ pcount c ≤ (ddof : Int) := by omega
  have hlen : ((vals c).length : Rat) = ((pcount c : Int) : Rat) := by simp only [pcount]; exact (Rat.intCast_natCast _).symm
  simp only [varResult, pvar, odiv, hnq, hdq, hle, if_false, sum_sq_dev, hlen]
  simp only [psum, psumsq] at *
  generalize (vals c).sum = x at *
  generalize ((vals c).map fun v => v * v).sum = x2 at *
  generalize ((pcount c : Int) : Rat) = n at *
  by_cases hd0 : ddof = 0
  · subst hd0; simp; grind
  · simp [hd0]; grind

theorem varResult_eq_pvar_of_le_one (ddof : Nat) (hd : ddof ≤ 1) (c : Col) :
    varResult ddof (psum c) (psumsq c) (pcount c) = pvar ddof c := by
  by_cases h : (ddof : Int) < pcount c
  · exact varResult_eq_pvar_of_lt ddof c h
  · have hle : pcount c ≤ (ddof : Int) := by omega
    have hn := pcount_nonneg c
    simp only [pvar, hle, if_true]
    by_cases h0 : pcount c = 0
    · simp [varResult, odiv, h0]
    · have h1 : pcount c = 1 := by omega
      have hd1 : ddof = 1 := by omega
      subst hd1
      simp [varResult, odiv, h1, Rat.sub_self]

/-- what the `Var` stream does after the batches `seen` -/
def varSpec (ddof : Nat) (seen : List Col) : Res :=
  Res.ok (varResult ddof (psum seen.flatten) (psumsq seen.flatten) (pcount seen.flatten))

theorem all_isEmpty_snoc_nil (seen : List Col) : (seen ++ [[]]).all List.isEmpty = seen.all List.isEmpty := by
  simp

theorem var_run (ddof : Nat) (bs : List Col) (k : Nat) (hk : k < bs.length) :
    (run (Var ddof) bs)[k]? = some (varSpec ddof (bs.take (k + 1))) := by
  refine run_eq_of_state (Var ddof)
    (fun seen => ⟨psum seen.flatten, psumsq seen.flatten, pcount seen.flatten, seen.all List.isEmpty⟩)
    (varSpec ddof) (fun _ => rfl) (fun _ => rfl) ?_ bs k hk
  intro seen b
  by_cases he : b = []
  · subst he
    simp [Var, varSpec]
  · have hbe : b.isEmpty = false := by cases b <;> simp_all
    simp [Var, varSpec, hbe, he, psum_append, psumsq_append, pcount_append]

theorem count_eq (bs : List Col) (k : Nat) (hk : k < bs.length) :
    (run Count bs)[k]? = some (pcount (bs.take (k + 1)).flatten) := by
  refine run_eq_of_state Count (fun seen => pcount seen.flatten)
    (fun seen => pcount seen.flatten) (fun _ => rfl) (fun _ => rfl) ?_ bs k hk
  intro seen b
  simp [Count, pcount_append]

theorem size_eq (bs : List Col) (k : Nat) (hk : k < bs.length) :
    (run Size bs)[k]? = some (psize (bs.take (k + 1)).flatten) := by
  refine run_eq_of_state Size (fun seen => psize seen.flatten)
    (fun seen => psize seen.flatten) (fun _ => rfl) (fun _ => rfl) ?_ bs k hk
  intro seen b
  simp [Size, psize_append]

theorem meanOrig_step (seen : Col) (b : Col) (h : pcount seen ≠ 0) :
    MeanOrig.onNew ⟨psum seen, pcount seen⟩ b
      = (⟨psum (seen ++ b), pcount (seen ++ b)⟩, pmean (seen ++ b)) := by
  have hn := pcount_nonneg seen
  have hb := pcount_nonneg b
  have hne : pcount seen + pcount b ≠ 0 := by omega
  by_cases he : b.isEmpty = true
  · have := (isEmpty_eq_true_iff b).1 he; subst this
    simp [MeanOrig, h, pmean, odiv]
  · have hb' : b ≠ [] := fun h => he (by simp [h])
    have hq : ((pcount seen : Int) : Rat) + ((pcount b : Int) : Rat) ≠ 0 := by
      rw [← Rat.intCast_add]; exact fun h => hne (Rat.intCast_eq_zero_iff.1 h)
    simp [MeanOrig, hb', hne, hq, pmean, odiv, psum_append, pcount_append]

theorem meanOrig_eq (b : Col) (bs : List Col) (hb : pcount b ≠ 0) (k : Nat) (hk : k < (b :: bs).length) :
    (run MeanOrig (b :: bs))[k]? = some (pmean ((b :: bs).take (k + 1)).flatten) := by
  have hbe : b ≠ [] := by
    intro h; subst h; simp at hb
  have h0 : node MeanOrig none b = (some ⟨psum b, pcount b⟩, pmean b) := by
    simp [node, accumulator, MeanOrig, hbe, hb, pmean, odiv, Rat.zero_add]
  cases k with
  | zero => simp [run, runFrom, h0]
  | succ k =>
    have hk' : k < bs.length := by simpa using hk
    have hstep : ∀ (seen : List Col) (acc : Option MeanSt) (c : Col),
        (acc = some ⟨psum seen.flatten, pcount seen.flatten⟩ ∧ pcount seen.flatten ≠ 0) →
        ((node MeanOrig acc c).1 = some ⟨psum (seen ++ [c]).flatten, pcount (seen ++ [c]).flatten⟩ ∧
          pcount (seen ++ [c]).flatten ≠ 0) ∧ (node MeanOrig acc c).2 = pmean (seen ++ [c]).flatten := by
      intro seen acc c ⟨h1, h2⟩
      subst h1
      have hn := pcount_nonneg seen.flatten
      have hc := pcount_nonneg c
      rw [node_eq MeanOrig ⟨0, 0⟩ (fun _ => rfl) (fun _ => rfl)]
      simp only [Option.getD_some, flatten_snoc, meanOrig_step _ c h2, pcount_append]
      exact ⟨⟨trivial, by omega⟩, trivial⟩
    obtain ⟨r, hr, hq⟩ := runFrom_spec MeanOrig
      (fun seen acc => acc = some ⟨psum seen.flatten, pcount seen.flatten⟩ ∧ pcount seen.flatten ≠ 0)
      (fun seen r => r = pmean seen.flatten) hstep [b] (some ⟨psum b, pcount b⟩) (by simpa using hb) bs k hk'
    simp only [run, runFrom, h0, List.getElem?_cons_succ, hr, hq]
    rfl

/-! ## finite maps -/

theorem lookup_map_val {A C : Type} (g : Rat → A → C) (l : GMap A) (k : Rat) :
    List.lookup k (l.map fun p => (p.1, g p.1 p.2)) = (List.lookup k l).map (g k) := by
  induction l with
  | nil => rfl
  | cons p l ih =>
    obtain ⟨k', v⟩ := p
    simp only [List.map_cons, List.lookup_cons]
    by_cases h : k = k'
    · subst h; simp
    · have : (k == k') = false := by simpa using h
      simp [this, ih]

theorem lookup_filter_key {A : Type} (q : Rat → Bool) (l : GMap A) (k : Rat) :
    List.lookup k (l.filter fun p => q p.1) = if q k then List.lookup k l else none := by
  induction l with
  | nil => simp
  | cons p l ih =>
    obtain ⟨k', v⟩ := p
    by_cases hq : q k' = true
    · simp only [List.filter_cons, hq, if_true, List.lookup_cons]
      by_cases h : k = k'
      · subst h; simp [hq]
      · have : (k == k') = false := by simpa using h
        simp [this, ih]
    · simp only [List.filter_cons, hq, List.lookup_cons]
      by_cases h : k = k'
      · subst h; simp [hq, ih]
      · have : (k == k') = false := by simpa using h
        simp [this, ih]

theorem lookup_keys_map {C : Type} (g : Rat → C) (ks : List Rat) (k : Rat) :
    List.lookup k (ks.map fun k' => (k', g k')) = if k ∈ ks then some (g k) else none := by
  induction ks with
  | nil => simp
  | cons k' ks ih =>
    simp only [List.map_cons, List.lookup_cons]
    by_cases h : k = k'
    · subst h; simp
    · have : (k == k') = false := by simpa using h
      simp [this, ih, h]

/-- index alignment: a key is in the result iff it is in either operand -/
theorem get_align {A B C : Type} (f : Option A → Option B → C) (a : GMap A) (b : GMap B) (k : Rat) :
    (GMap.align f a b).get k =
      match a.get k, b.get k with
      | none, none => none
      | x, y => some (f x y) := by
  unfold GMap.align GMap.get
  rw [List.lookup_append]
  rw [lookup_map_val (fun k v => f (some v) (List.lookup k b)) a k]
  rw [lookup_map_val (fun _ v => f none (some v)) _ k]
  rw [lookup_filter_key (fun k => (List.lookup k a).isNone) b k]
  cases ha : List.lookup k a <;> cases hb : List.lookup k b <;> simp

theorem get_groupBy {V : Type} (red : Col → V) (rows : List GRow) (k : Rat) :
    (groupBy red rows).get k = if k ∈ groupKeys rows then some (red (sel k rows)) else none := by
  unfold groupBy GMap.get
  exact lookup_keys_map (fun k => red (sel k rows)) _ k

theorem mem_groupKeys (rows : List GRow) (k : Rat) : k ∈ groupKeys rows ↔ ∃ r ∈ rows, r.1 = some k := by
  simp [groupKeys, List.mem_eraseDups, List.mem_filterMap]

theorem mem_groupKeys_append (r1 r2 : List GRow) (k : Rat) :
    k ∈ groupKeys (r1 ++ r2) ↔ k ∈ groupKeys r1 ∨ k ∈ groupKeys r2 := by
  simp [mem_groupKeys, List.mem_append, or_and_right, exists_or]

theorem sel_append (k : Rat) (r1 r2 : List GRow) : sel k (r1 ++ r2) = sel k r1 ++ sel k r2 := by
  simp [sel]

theorem sel_of_not_mem (k : Rat) (rows : List GRow) (h : k ∉ groupKeys rows) : sel k rows = [] := by
  simp only [sel, List.map_eq_nil_iff, List.filter_eq_nil_iff]
  intro r hr hk
  exact h ((mem_groupKeys rows k).2 ⟨r, hr, by simpa using hk⟩)

@[simp] theorem groupKeys_nil : groupKeys [] = [] := rfl

/-- one `acc.add(g.red(), fill_value=0)` step keeps "state = groupby-reduction of everything seen",
for any reduction that is a homomorphism into a monoid (V, +, z). -/
theorem addFill_groupBy {V : Type} [Add V] (z : V) (red : Col → V)
    (hred : ∀ a b, red (a ++ b) = red a + red b) (hnil : red [] = z)
    (hz : ∀ x : V, x + z = x) (zh : ∀ x : V, z + x = x)
    (acc : GMap V) (seen new : List GRow)
    (h : ∀ k, acc.get k = (groupBy red seen).get k) (k : Rat) :
    (GMap.addFill z acc (groupBy red new)).get k = (groupBy red (seen ++ new)).get k := by
  unfold GMap.addFill
  rw [get_align, h k, get_groupBy, get_groupBy, get_groupBy, sel_append, hred]
  by_cases h1 : k ∈ groupKeys seen <;> by_cases h2 : k ∈ groupKeys new <;>
    simp [h1, h2, mem_groupKeys_append]
  · rw [sel_of_not_mem k new h2, hnil, hz]
  · rw [sel_of_not_mem k seen h1, hnil, zh]

/-! ## groupby aggregations and value_counts -/

/-- common shape of GroupbySum / GroupbyCount / GroupbySize -/
def groupAgg {V : Type} [Add V] (z : V) (red : Col → V) : Aggregation (List GRow) (GMap V) (GMap V) where
  initial _ := []
  onNew acc new := (GMap.addFill z acc (groupBy red new), GMap.addFill z acc (groupBy red new))

theorem groupAgg_run {V : Type} [Add V] (z : V) (red : Col → V)
    (hred : ∀ a b, red (a ++ b) = red a + red b) (hnil : red [] = z)
    (hz : ∀ x : V, x + z = x) (zh : ∀ x : V, z + x = x)
    (bs : List (List GRow)) (k : Nat) (hk : k < bs.length) :
    ∃ r, (run (groupAgg z red) bs)[k]? = some r ∧ GMap.Same r (groupBy red (bs.take (k + 1)).flatten) := by
  refine run_spec (groupAgg z red)
    (fun seen acc => GMap.Same (acc.getD []) (groupBy red seen.flatten))
    (fun seen r => GMap.Same r (groupBy red seen.flatten)) (fun _ => rfl) ?_ bs k hk
  intro seen acc b h
  rw [node_eq (groupAgg z red) [] (fun _ => rfl) (fun _ => rfl)]
  simp only [groupAgg, Option.getD_some, flatten_snoc]
  exact ⟨addFill_groupBy z red hred hnil hz zh _ _ _ h, addFill_groupBy z red hred hnil hz zh _ _ _ h⟩

theorem get_valueCounts (c : Col) (k : Rat) :
    (valueCounts c).get k = if k ∈ vals c then some (((vals c).count k : Nat) : Int) else none := by
  unfold valueCounts GMap.get
  rw [lookup_keys_map (fun k => (((vals c).count k : Nat) : Int))]
  simp [List.mem_eraseDups]

theorem addFill_valueCounts (acc : GMap Int) (seen new : Col)
    (h : GMap.Same acc (valueCounts seen)) : GMap.Same (GMap.addFill 0 acc (valueCounts new)) (valueCounts (seen ++ new)) := by
  intro k
  unfold GMap.addFill
  rw [get_align, h k, get_valueCounts, get_valueCounts, get_valueCounts, vals_append]
  by_cases h1 : k ∈ vals seen <;> by_cases h2 : k ∈ vals new <;>
    simp [h1, h2, List.count_append, List.count_eq_zero_of_not_mem]

theorem valueCounts_run (bs : List Col) (k : Nat) (hk : k < bs.length) :
    ∃ r, (run ValueCounts bs)[k]? = some r ∧ GMap.Same r (valueCounts (bs.take (k + 1)).flatten) := by
  refine run_spec ValueCounts
    (fun seen acc => GMap.Same (acc.getD []) (valueCounts seen.flatten))
    (fun seen r => GMap.Same r (valueCounts seen.flatten)) (fun _ => rfl) ?_ bs k hk
  intro seen acc b h
  rw [node_eq ValueCounts [] (fun _ => rfl) (fun _ => rfl)]
  simp only [ValueCounts, Option.getD_some, flatten_snoc]
  exact ⟨addFill_valueCounts _ _ _ h, addFill_valueCounts _ _ _ h⟩

theorem gmeanResult_same (s : GMeanSt) (rows : List GRow)
    (ht : GMap.Same s.totals (groupBy psum rows)) (hc : GMap.Same s.counts (groupBy pcount rows)) :
    GMap.Same (gmeanResult s) (groupBy pmean rows) := by
  intro k
  unfold gmeanResult
  rw [get_align, ht k, hc k, get_groupBy, get_groupBy, get_groupBy]
  by_cases h : k ∈ groupKeys rows <;> simp [h, pmean]

theorem gmean_run (bs : List (List GRow)) (k : Nat) (hk : k < bs.length) :
    ∃ r, (run GroupbyMean bs)[k]? = some r ∧ GMap.Same r (groupBy pmean (bs.take (k + 1)).flatten) := by
  refine run_spec GroupbyMean
    (fun seen acc => GMap.Same (acc.getD ⟨[], []⟩).totals (groupBy psum seen.flatten) ∧
                     GMap.Same (acc.getD ⟨[], []⟩).counts (groupBy pcount seen.flatten))
    (fun seen r => GMap.Same r (groupBy pmean seen.flatten)) ⟨fun _ => rfl, fun _ => rfl⟩ ?_ bs k hk
  intro seen acc b h
  rw [node_eq GroupbyMean ⟨[], []⟩ (fun _ => rfl) (fun _ => rfl)]
  simp only [GroupbyMean, Option.getD_some, flatten_snoc]
  have h1 := addFill_groupBy (0 : Rat) psum psum_append rfl Rat.add_zero Rat.zero_add _ _ b h.1
  have h2 := addFill_groupBy (0 : Int) pcount pcount_append rfl Int.add_zero Int.zero_add _ _ b h.2
  exact ⟨⟨h1, h2⟩, gmeanResult_same _ _ h1 h2⟩

/-- per-group result of the `GroupbyVar` stream: the two-moment formula on the group's sums -/
def gvarOf (ddof : Nat) (c : Col) : Val := varResult ddof (psum c) (psumsq c) (pcount c)

theorem gvarResult_same (ddof : Nat) (s : GVarSt) (rows : List GRow)
    (hx : GMap.Same s.x (groupBy psum rows)) (hx2 : GMap.Same s.x2 (groupBy psumsq rows))
    (hn : GMap.Same s.n (groupBy pcount rows)) :
    GMap.Same (gvarResult ddof s) (groupBy (gvarOf ddof) rows) := by
  intro k
  unfold gvarResult
  rw [get_align, get_align, hx k, hx2 k, hn k, get_groupBy, get_groupBy, get_groupBy, get_groupBy]
  by_cases h : k ∈ groupKeys rows <;> simp [h, gvarOf]

theorem gvar_run (ddof : Nat) (bs : List (List GRow)) (k : Nat) (hk : k < bs.length) :
    ∃ r, (run (GroupbyVar ddof) bs)[k]? = some r ∧
      GMap.Same r (groupBy (gvarOf ddof) (bs.take (k + 1)).flatten) := by
  refine run_spec (GroupbyVar ddof)
    (fun seen acc => GMap.Same (acc.getD ⟨[], [], []⟩).x (groupBy psum seen.flatten) ∧
                     GMap.Same (acc.getD ⟨[], [], []⟩).x2 (groupBy psumsq seen.flatten) ∧
                     GMap.Same (acc.getD ⟨[], [], []⟩).n (groupBy pcount seen.flatten))
    (fun seen r => GMap.Same r (groupBy (gvarOf ddof) seen.flatten))
    ⟨fun _ => rfl, fun _ => rfl, fun _ => rfl⟩ ?_ bs k hk
  intro seen acc b h
  rw [node_eq (GroupbyVar ddof) ⟨[], [], []⟩ (fun _ => rfl) (fun _ => rfl)]
  simp only [GroupbyVar, Option.getD_some, flatten_snoc]
  by_cases he : b.isEmpty = true
  · have := (isEmpty_eq_true_iff b).1 he; subst this
    simp only [List.isEmpty_nil, if_true, List.append_nil]
    exact ⟨h, gvarResult_same ddof _ _ h.1 h.2.1 h.2.2⟩
  · simp only [he]
    have h1 := addFill_groupBy (0 : Rat) psum psum_append rfl Rat.add_zero Rat.zero_add _ _ b h.1
    have h2 := addFill_groupBy (0 : Rat) psumsq psumsq_append rfl Rat.add_zero Rat.zero_add _ _ b h.2.1
    have h3 := addFill_groupBy (0 : Int) pcount pcount_append rfl Int.add_zero Int.zero_add _ _ b h.2.2
    exact ⟨⟨h1, h2, h3⟩, gvarResult_same ddof _ _ h1 h2 h3⟩

/-! ## element-wise expressions -/

@[simp] theorem CExpr.eval_length (e : CExpr) (fr : Frame) : (e.eval fr).length = fr.length := by
  induction e with
  | col c => simp [CExpr.eval]
  | bin op a b iha ihb => simp [CExpr.eval, iha, ihb]
  | binr op a q ih => simp [CExpr.eval, ih]
  | binl op q a ih => simp [CExpr.eval, ih]
  | neg a ih => simp [CExpr.eval, ih]

@[simp] theorem MExpr.eval_length (m : MExpr) (fr : Frame) : (m.eval fr).length = fr.length := by
  induction m with
  | cmp op a b => simp [MExpr.eval]
  | cmpr op a q => simp [MExpr.eval]
  | and a b iha ihb => simp [MExpr.eval, iha, ihb]
  | or a b iha ihb => simp [MExpr.eval, iha, ihb]
  | not a ih => simp [MExpr.eval, ih]

/-- element-wise: evaluating on a concatenation = concatenating the evaluations -/
theorem CExpr.eval_append (e : CExpr) (f g : Frame) : e.eval (f ++ g) = e.eval f ++ e.eval g := by
  induction e with
  | col c => simp [CExpr.eval]
  | bin op a b iha ihb => simp [CExpr.eval, iha, ihb, List.zipWith_append]
  | binr op a q ih => simp [CExpr.eval, ih]
  | binl op q a ih => simp [CExpr.eval, ih]
  | neg a ih => simp [CExpr.eval, ih]

theorem MExpr.eval_append (m : MExpr) (f g : Frame) : m.eval (f ++ g) = m.eval f ++ m.eval g := by
  induction m with
  | cmp op a b => simp [MExpr.eval, CExpr.eval_append, List.zipWith_append]
  | cmpr op a q => simp [MExpr.eval, CExpr.eval_append]
  | and a b iha ihb => simp [MExpr.eval, iha, ihb, List.zipWith_append]
  | or a b iha ihb => simp [MExpr.eval, iha, ihb, List.zipWith_append]
  | not a ih => simp [MExpr.eval, ih]

theorem maskFilter_append {α} (f g : List α) (m n : List Bool) (h : f.length = m.length) :
    maskFilter (f ++ g) (m ++ n) = maskFilter f m ++ maskFilter g n := by
  simp [maskFilter, List.zip_append h, List.filterMap_append]

theorem Stage.eval_append (s : Stage) (f g : Frame) : s.eval (f ++ g) = s.eval f ++ s.eval g := by
  cases s with
  | filter m => simp [Stage.eval, MExpr.eval_append, maskFilter_append]
  | assign c e => simp [Stage.eval, CExpr.eval_append, List.zipWith_append]
  | select cs => simp [Stage.eval]

theorem evalPipe_append (p : List Stage) (f g : Frame) : evalPipe p (f ++ g) = evalPipe p f ++ evalPipe p g := by
  induction p generalizing f g with
  | nil => rfl
  | cons s p ih => simp only [evalPipe, List.foldl_cons] at ih ⊢; rw [Stage.eval_append, ih]

@[simp] theorem CExpr.eval_nil (e : CExpr) : e.eval [] = [] := by
  exact List.eq_nil_of_length_eq_zero (by simp)
@[simp] theorem MExpr.eval_nil (m : MExpr) : m.eval [] = [] := by
  exact List.eq_nil_of_length_eq_zero (by simp)
@[simp] theorem Stage.eval_nil (s : Stage) : s.eval [] = [] := by
  cases s <;> simp [Stage.eval, maskFilter]
@[simp] theorem evalPipe_nil (p : List Stage) : evalPipe p [] = [] := by
  induction p with
  | nil => rfl
  | cons s p ih => simpa [evalPipe] using ih

theorem evalPipe_flatten (p : List Stage) (bs : List Frame) :
    evalPipe p bs.flatten = (bs.map (evalPipe p)).flatten := by
  induction bs with
  | nil => simp
  | cons b bs ih => simp [evalPipe_append, ih]

theorem CExpr.eval_flatten (e : CExpr) (bs : List Frame) :
    e.eval bs.flatten = (bs.map e.eval).flatten := by
  induction bs with
  | nil => simp
  | cons b bs ih => simp [CExpr.eval_append, ih]

theorem grows_append (key : CExpr) (c : String) (f g : Frame) :
    grows key c (f ++ g) = grows key c f ++ grows key c g := by
  simp [grows, CExpr.eval_append, List.zip_append]

theorem grows_flatten (key : CExpr) (c : String) (bs : List Frame) :
    grows key c bs.flatten = (bs.map (grows key c)).flatten := by
  induction bs with
  | nil => simp [grows]
  | cons b bs ih => simp [grows_append, ih]

/-! ## streaming = per-batch pandas -/

theorem CExpr.stream_eq (e : CExpr) (src : List Frame) : e.stream src = src.map e.eval := by
  induction e with
  | col c => rfl
  | bin op a b iha ihb => simp [CExpr.stream, CExpr.eval, iha, ihb, List.zip_map']
  | binr op a q ih => simp [CExpr.stream, CExpr.eval, ih]
  | binl op q a ih => simp [CExpr.stream, CExpr.eval, ih]
  | neg a ih => simp [CExpr.stream, CExpr.eval, ih]

theorem MExpr.stream_eq (m : MExpr) (src : List Frame) : m.stream src = src.map m.eval := by
  induction m with
  | cmp op a b => simp [MExpr.stream, MExpr.eval, CExpr.stream_eq, List.zip_map']
  | cmpr op a q => simp [MExpr.stream, MExpr.eval, CExpr.stream_eq]
  | and a b iha ihb => simp [MExpr.stream, MExpr.eval, iha, ihb, List.zip_map']
  | or a b iha ihb => simp [MExpr.stream, MExpr.eval, iha, ihb, List.zip_map']
  | not a ih => simp [MExpr.stream, MExpr.eval, ih]

theorem zip_map_right {α β} (g : α → β) (l : List α) : l.zip (l.map g) = l.map (fun a => (a, g a)) := by
  have := @List.zip_map' α α β id g l
  simpa using this

theorem Stage.stream_eq (s : Stage) (src : List Frame) : s.stream src = src.map s.eval := by
  cases s with
  | filter m => simp [Stage.stream, Stage.eval, MExpr.stream_eq, zip_map_right]
  | assign c e => simp [Stage.stream, Stage.eval, CExpr.stream_eq, zip_map_right]
  | select cs => rfl

theorem streamPipe_eq (p : List Stage) (src : List Frame) : streamPipe p src = src.map (evalPipe p) := by
  induction p generalizing src with
  | nil => simp [streamPipe]; exact (List.map_id' src).symm
  | cons s p ih =>
    have e : ∀ a, evalPipe (s :: p) a = evalPipe p (s.eval a) := fun _ => rfl
    simp only [streamPipe, List.foldl_cons] at ih ⊢
    rw [Stage.stream_eq, ih]; simp [e]

theorem streamGrows_eq (key : CExpr) (c : String) (src : List Frame) :
    streamGrows key c src = src.map (grows key c) := by
  simp [streamGrows, grows, CExpr.stream_eq, zip_map_right]

theorem streamGrowsCol_eq (g c : String) (src : List Frame) :
    streamGrowsCol g c src = src.map (grows (.col g) c) := by
  simp [streamGrowsCol, grows, CExpr.eval]

end StreamzVerif.Agg
