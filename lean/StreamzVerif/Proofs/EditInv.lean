import StreamzVerif.Model.Edit
import StreamzVerif.Proofs.Propagate
/-
Helper lemmas for C15 (delivery follows the current topology under connect / disconnect / destroy / gc).

  A. per-kind `_add_upstream` / `_remove_upstream`: effect on `ups`, on what a node keeps alive
  B. a generic invariant principle for the interpreter (`interp_inv`): a state predicate that survives
     reference counting, the `.set`s and the `.detach`s a node's `upd` can produce survives every run,
     successful or not, whatever the fuel
  C. link consistency (`Links`), preserved by connect / disconnect / destroy / collect / runs
  D. per-input state of `zip` / `combine_latest` as a function of the current upstream list (`ZipRep`, `CLRep`)
  E. liveness: `aliveIter` is extensive, monotone and reaches a fixed point within `nodes.length` rounds
  F. histories (`Op`, `runOps`) and the history invariant

Everything lives in the sub-namespace `StreamzVerif.Graph.Edit` (generic helper names such as `proj`, `cnt`,
`Stable`, `Op` would otherwise collide with other proof files); `Props/C15.lean` opens it.
-/
namespace StreamzVerif.Graph.Edit

/-! ### A. per-kind upstream editing -/

theorem addUpstream_ups (k : Kind) (s : NState) (u : NodeId) : (addUpstream k s u).ups = s.ups ++ [u] := by
  cases k <;> rfl

theorem removeUpstream_ok {k : Kind} {s s' : NState} {u : NodeId} {md : Meta}
    (h : removeUpstream k s u = .ok (s', md)) : u ∈ s.ups ∧ s'.ups = s.ups.erase u := by
  cases k with
  | zip lits =>
    simp only [removeUpstream] at h
    split at h
    · cases h
    · split at h
      · next hc => cases h; exact ⟨List.contains_iff_mem.1 hc, rfl⟩
      · cases h
  | combineLatest eo =>
    simp only [removeUpstream] at h
    split at h
    · cases h
    · next idx hi =>
      cases h
      refine ⟨?_, rfl⟩
      unfold idxOf at hi
      simp only [] at hi
      split at hi
      · next hlt => exact List.idxOf_lt_length_iff.1 hlt
      · cases hi
  | _ =>
    simp only [removeUpstream] at h
    split at h
    · next hc => cases h; exact ⟨List.contains_iff_mem.1 hc, rfl⟩
    · cases h

/-- what a node holds strongly: its upstreams, and (combine_latest) the streams of `emit_on` -/
def keeps (s : NState) (i : NodeId) : Bool := s.ups.contains i || s.emitOn.contains i

theorem keeps_iff {s : NState} {i : NodeId} : keeps s i = true ↔ i ∈ s.ups ∨ i ∈ s.emitOn := by
  simp [keeps]

theorem addUpstream_keeps {k : Kind} {s : NState} {u i : NodeId} (h : keeps (addUpstream k s u) i = true) :
    keeps s i = true ∨ i = u := by
  rw [keeps_iff] at h
  rw [keeps_iff]
  cases k with
  | combineLatest eo =>
    cases eo with
    | none =>
      simp only [addUpstream, List.mem_append, List.mem_singleton] at h
      rcases h with (h | h) | (h | h) <;> simp [h]
    | some l =>
      simp only [addUpstream, List.mem_append, List.mem_singleton] at h
      rcases h with (h | h) | h <;> simp [h]
  | _ =>
    simp only [addUpstream, List.mem_append, List.mem_singleton] at h
    rcases h with (h | h) | h <;> simp [h]

theorem removeUpstream_keeps {k : Kind} {s s' : NState} {u i : NodeId} {md : Meta}
    (h : removeUpstream k s u = .ok (s', md)) (hk : keeps s' i = true) : keeps s i = true := by
  rw [keeps_iff] at hk
  rw [keeps_iff]
  have hu := (removeUpstream_ok h).2
  cases k with
  | zip lits =>
    simp only [removeUpstream] at h
    split at h
    · cases h
    · split at h
      · cases h
        rcases hk with hk | hk
        · exact .inl (List.mem_of_mem_erase hk)
        · exact .inr hk
      · cases h
  | combineLatest eo =>
    simp only [removeUpstream] at h
    split at h
    · cases h
    · cases h
      cases eo with
      | none =>
        rcases hk with hk | hk
        · exact .inl (List.mem_of_mem_erase hk)
        · exact .inl (List.mem_of_mem_erase hk)
      | some l =>
        rcases hk with hk | hk
        · exact .inl (List.mem_of_mem_erase hk)
        · exact .inr hk
  | _ =>
    simp only [removeUpstream] at h
    split at h
    · cases h
      rcases hk with hk | hk
      · exact .inl (List.mem_of_mem_erase hk)
      · exact .inr hk
    · cases h

/-! #### what an `update` body can write: never `ups`, never `emit_on` -/

theorem emitAllButLast_no_set (l : List Val) (md : Meta) (s' : NState) : Eff.set s' ∉ emitAllButLast l md := by
  induction l with
  | nil => simp [emitAllButLast]
  | cons x t ih =>
    cases t with
    | nil => simp [emitAllButLast]
    | cons y t => simp only [emitAllButLast, List.mem_cons, not_or]; exact ⟨by simp, ih⟩

theorem drain_set_frame (l : List (Val × Meta)) (st s' : NState) (h : Eff.set s' ∈ upd.drain l st) :
    s'.ups = st.ups ∧ s'.emitOn = st.emitOn := by
  induction l generalizing st with
  | nil => simp [upd.drain] at h
  | cons x t ih =>
    obtain ⟨v, m⟩ := x
    simp only [upd.drain, List.mem_append, List.mem_cons, List.not_mem_nil, or_false] at h
    rcases h with (h | h | h) | h
    · cases h; exact ⟨rfl, rfl⟩
    · cases h
    · cases h
    · have := ih _ h
      exact this

/-- Every state an `update` body writes has the `upstreams` list and the `emit_on` tuple it started with. -/
theorem upd_set_frame {k : Kind} {s s' : NState} {who : NodeId} {v : Val} {md : Meta}
    (h : Eff.set s' ∈ (upd k s who v md).effs) : s'.ups = s.ups ∧ s'.emitOn = s.emitOn := by
  cases k with
  | flatten =>
    simp only [upd] at h
    split at h
    · simp [raise] at h
    · exact absurd h (emitAllButLast_no_set _ _ _)
  | zipLatest =>
    simp only [upd] at h
    split at h
    · simp [raise] at h
    · split at h
      · simp only [List.mem_append, List.mem_cons] at h
        rcases h with h | h
        · rcases h with (h | h) | h
          · simp at h
          · split at h <;> simp at h
          · simp at h; cases h; exact ⟨rfl, rfl⟩
        · have := drain_set_frame _ _ _ h
          exact this
      · simp only [List.mem_append, List.mem_cons] at h
        rcases h with (h | h) | h
        · simp at h
        · split at h <;> simp at h
        · simp at h; cases h; exact ⟨rfl, rfl⟩
  | pluck p =>
    cases p <;> simp only [upd, raise] at h <;> split at h <;> simp at h
  | _ =>
    simp only [upd, raise] at h
    repeat' split at h
    all_goals (try simp at h)
    all_goals (repeat' split at h)
    all_goals (try simp at h)
    all_goals (try (rcases h with h | h <;> (cases h; exact ⟨rfl, rfl⟩)))
    all_goals (try (cases h; exact ⟨rfl, rfl⟩))

theorem flushProg_set_frame {s s' : NState} (h : Eff.set s' ∈ flushProg s) :
    s'.ups = s.ups ∧ s'.emitOn = s.emitOn := by
  simp only [flushProg, List.mem_cons, List.not_mem_nil, or_false] at h
  rcases h with h | h | h
  · cases h
  · cases h
  · cases h; exact ⟨rfl, rfl⟩

theorem detach_fold_downs_eq (d : NodeId) (us : List NodeId) (S : State) (u : NodeId) :
    (us.foldl (fun S u => S.setDowns u ((S.downs u).filter (· ≠ d))) S).downs u =
      if u ∈ us then (S.downs u).filter (· ≠ d) else S.downs u := by
  induction us generalizing S with
  | nil => simp
  | cons w us ih =>
    rw [List.foldl_cons, ih]
    simp only [State.setDowns, List.mem_cons]
    by_cases h1 : u = w
    · subst h1
      simp only [if_true, true_or, List.filter_filter, Bool.and_self]
      split <;> rfl
    · simp only [h1, if_false, false_or]

/-- `slice._check_end`: `d` leaves the downstream set of exactly its upstreams; nothing else changes. -/
theorem detachNode_downs_eq (d : NodeId) (S : State) (u : NodeId) :
    (detachNode d S).downs u = if u ∈ (S.loc d).ups then (S.downs u).filter (· ≠ d) else S.downs u :=
  detach_fold_downs_eq d _ S u

/-! ### B. invariants of the interpreter -/

variable (G : NodeId → Kind)

/-- a call is well-formed w.r.t. a validity predicate on effects -/
def callValid (Valid : NodeId → Eff → Prop) : Call → Prop
  | .effs d es => ∀ e ∈ es, Valid d e
  | _ => True

theorem sinkRes_st_loc (m : SinkMode) (d who : NodeId) (v : Val) (md : Meta) (S : State) :
    (sinkRes m d who v md S).st.loc = S.loc := by
  unfold sinkRes
  cases m with
  | sync fn => simp only []; split <;> rfl
  | async => simp only []; split <;> simp

theorem interp_inv (P : State → Prop) (Valid : NodeId → Eff → Prop)
    (hq : ∀ S S', P S → S'.loc = S.loc → S'.downs = S.downs → P S')
    (hset : ∀ S d s, P S → Valid d (.set s) → P (S.setLoc d s))
    (hdet : ∀ S d, P S → Valid d .detach → P (detachNode d S))
    (hupd : ∀ S d who v md, P S → ∀ e ∈ (upd (G d) (S.loc d) who v md).effs, Valid d e)
    (f : Nat) : ∀ (c : Call) (S : State), P S → callValid Valid c → P (interp G f c S).st := by
  induction f with
  | zero => intro c S hP _; rw [interp_zero_st]; exact hP
  | succ f ih =>
    intro c S hP hV
    cases c with
    | emit n v md =>
      simp only [interp]
      rw [emitAt_succ]
      exact ih (.deliver (S.downs n) n v md) (emitPre S n md).1 (hq _ _ hP (by simp) (by simp)) trivial
    | deliver ds n v md =>
      simp only [interp]
      cases ds with
      | nil => rw [deliver_nil]; exact hP
      | cons d ds =>
        rw [deliver_cons]
        have h1 := ih (.update d n v md) S hP trivial
        simp only [interp] at h1
        simp only []
        split
        · exact h1
        · exact ih (.deliver ds n v md) (releaseMd md (update G f d n v md S).st).1
            (hq _ _ h1 (by simp) (by simp)) trivial
    | update d who v md =>
      simp only [interp]
      by_cases hs : ∃ m, G d = .sink m
      · obtain ⟨m, hm⟩ := hs
        rw [update_sink G _ _ _ _ _ _ m hm]
        exact hq _ _ hP (sinkRes_st_loc _ _ _ _ _ _) (sinkRes_downs _ _ _ _ _ _)
      · have hs' : ∀ m, G d ≠ .sink m := fun m hm => hs ⟨m, hm⟩
        rw [update_other G _ _ _ _ _ _ hs', updWrap_st]
        exact ih (.effs d _) S hP (hupd S d who v md hP)
    | effs d es =>
      simp only [interp]
      cases es with
      | nil => rw [runEffs_nil]; exact hP
      | cons e es =>
        have hV' : callValid Valid (.effs d es) := fun x hx => hV x (List.mem_cons_of_mem _ hx)
        have hVe : Valid d e := hV e (List.mem_cons_self ..)
        rw [runEffs_cons]
        cases e with
        | retain md => exact ih (.effs d es) (retainMd 1 md S).1 (hq _ _ hP (by simp) (by simp)) hV'
        | release md => exact ih (.effs d es) (releaseMd md S).1 (hq _ _ hP (by simp) (by simp)) hV'
        | set s => exact ih (.effs d es) (S.setLoc d s) (hset _ _ _ hP hVe) hV'
        | detach => exact ih (.effs d es) (detachNode d S) (hdet _ _ hP hVe) hV'
        | emit v md =>
          have h1 := ih (.emit d v md) S hP trivial
          simp only [interp] at h1
          simp only []
          split
          · exact h1
          · exact ih (.effs d es) (emitAt G f d v md S).st h1 hV'
        | emitThenRelease v md =>
          have h1 := ih (.emit d v md) S hP trivial
          simp only [interp] at h1
          simp only []
          split
          · exact h1
          · split
            · exact h1
            · exact ih (.effs d es) (etrPost md (emitAt G f d v md S).toks (emitAt G f d v md S).st).1
                (hq _ _ h1 (by simp) (by simp)) hV'

/-- Runs (successful or not) never touch `upstreams` / `emit_on` of any node. -/
theorem interp_ups (f : Nat) (c : Call) (S : State)
    (hc : callValid (fun d e => ∀ s, e = .set s → s.ups = (S.loc d).ups ∧ s.emitOn = (S.loc d).emitOn) c) (i : NodeId) :
    ((interp G f c S).st.loc i).ups = (S.loc i).ups ∧ ((interp G f c S).st.loc i).emitOn = (S.loc i).emitOn := by
  refine interp_inv G
    (fun S' => ∀ i, (S'.loc i).ups = (S.loc i).ups ∧ (S'.loc i).emitOn = (S.loc i).emitOn)
    (fun d e => ∀ s, e = .set s → s.ups = (S.loc d).ups ∧ s.emitOn = (S.loc d).emitOn)
    ?_ ?_ ?_ ?_ f c S (fun _ => ⟨rfl, rfl⟩) hc i
  · intro S1 S2 h hl _ j; rw [hl]; exact h j
  · intro S1 d s h hv j
    by_cases hj : j = d
    · subst hj; rw [setLoc_same]; exact hv s rfl
    · rw [setLoc_other _ _ hj]; exact h j
  · intro S1 d h _ j; rw [detachNode_loc]; exact h j
  · intro S1 d who v md h e he s hs
    subst hs
    have := upd_set_frame he
    rw [this.1, this.2]; exact h d

theorem emitAt_ups (f : Nat) (n : NodeId) (v : Val) (md : Meta) (S : State) (i : NodeId) :
    ((emitAt G f n v md S).st.loc i).ups = (S.loc i).ups ∧
      ((emitAt G f n v md S).st.loc i).emitOn = (S.loc i).emitOn :=
  interp_ups G f (.emit n v md) S trivial i

theorem flushAt_ups (f : Nat) (d : NodeId) (S : State) (i : NodeId) :
    ((flushAt G f d S).st.loc i).ups = (S.loc i).ups ∧ ((flushAt G f d S).st.loc i).emitOn = (S.loc i).emitOn :=
  interp_ups G f (.effs d (flushProg (S.loc d))) S (fun _ he s hs => by subst hs; exact flushProg_set_frame he) i

/-- the only kind whose `update` can change the topology: a `slice` with a non-zero end -/
def BoundedSlice (k : Kind) : Prop := ∃ a e c, k = .slice a (some e) c ∧ e ≠ 0

def NoBoundedSlice : Prop := ∀ i, ¬ BoundedSlice (G i)

theorem NoBoundedSlice.noDetach (h : NoBoundedSlice G) : NoDetach G :=
  fun i _ _ _ _ hm => h i (upd_detach hm)

theorem detachNode_mem_of_ne {d x u : NodeId} {S : State} (hx : x ∈ S.downs u) (hne : x ≠ d) :
    x ∈ (detachNode d S).downs u := by
  rw [detachNode_downs_eq]
  split
  · exact List.mem_filter.2 ⟨hx, by simpa using hne⟩
  · exact hx

/-- Runs (successful or not) only ever remove edges *into end-bounded slices*. -/
theorem interp_downs_keep (f : Nat) (c : Call) (S : State)
    (hc : callValid (fun d e => e = .detach → BoundedSlice (G d)) c) {u x : NodeId}
    (hx : x ∈ S.downs u) (hb : ¬ BoundedSlice (G x)) : x ∈ (interp G f c S).st.downs u := by
  refine interp_inv G
    (fun S' => ∀ u x, x ∈ S.downs u → ¬ BoundedSlice (G x) → x ∈ S'.downs u)
    (fun d e => e = .detach → BoundedSlice (G d))
    ?_ ?_ ?_ ?_ f c S (fun _ _ h _ => h) hc u x hx hb
  · intro S1 S2 h _ hd u x h1 h2; rw [hd]; exact h u x h1 h2
  · intro S1 d s h _ u x h1 h2; exact h u x h1 h2
  · intro S1 d h hv u x h1 h2
    refine detachNode_mem_of_ne (h u x h1 h2) ?_
    intro hxd; subst hxd; exact h2 (hv rfl)
  · intro S1 d who v md _ e he hs
    subst hs
    exact upd_detach he

theorem emitAt_downs_keep (f : Nat) (n : NodeId) (v : Val) (md : Meta) (S : State) {u x : NodeId}
    (hx : x ∈ S.downs u) (hb : ¬ BoundedSlice (G x)) : x ∈ (emitAt G f n v md S).st.downs u :=
  interp_downs_keep G f (.emit n v md) S trivial hx hb

/-! ### C. link consistency -/

/-- Upstream and downstream links agree.  `fwd`: every child listed by `u` lists `u` as a parent; `bwd`:
every parent listed by a child `d` *in `A`* lists `d` (the children outside `A` are those that were garbage
collected, or end-bounded slices that detached themselves: they keep their strong `upstreams` entries while
the parents' weak sets no longer contain them); no duplicates on either side. -/
structure Links (A : NodeId → Prop) (S : State) : Prop where
  fwd : ∀ u d, d ∈ S.downs u → u ∈ (S.loc d).ups
  bwd : ∀ u d, A d → u ∈ (S.loc d).ups → d ∈ S.downs u
  nodupDowns : ∀ u, (S.downs u).Nodup
  nodupUps : ∀ d, (S.loc d).ups.Nodup

/-- full mutual consistency -/
def Consistent (S : State) : Prop := Links (fun _ => True) S

theorem Consistent.iff {S : State} (h : Consistent S) (u d : NodeId) :
    d ∈ S.downs u ↔ u ∈ (S.loc d).ups := ⟨h.fwd u d, h.bwd u d trivial⟩

theorem Links.iff {A : NodeId → Prop} {S : State} (h : Links A S) {d : NodeId} (hd : A d) (u : NodeId) :
    d ∈ S.downs u ↔ u ∈ (S.loc d).ups := ⟨h.fwd u d, h.bwd u d hd⟩

theorem Links.mono {A B : NodeId → Prop} {S : State} (h : Links A S) (hab : ∀ d, B d → A d) : Links B S :=
  ⟨h.fwd, fun u d hd => h.bwd u d (hab d hd), h.nodupDowns, h.nodupUps⟩

/-- transfer along a step that keeps every `upstreams` list, only shrinks downstream lists, and keeps the
edges into `A'` -/
theorem Links.transfer {A A' : NodeId → Prop} {S S' : State} (h : Links A S)
    (hups : ∀ i, (S'.loc i).ups = (S.loc i).ups)
    (hsub : ∀ u, (S'.downs u).Sublist (S.downs u))
    (hkeep : ∀ u d, A' d → d ∈ S.downs u → d ∈ S'.downs u)
    (hA : ∀ d, A' d → A d) : Links A' S' where
  fwd u d hd := by rw [hups]; exact h.fwd u d ((hsub u).subset hd)
  bwd u d hd hu := hkeep u d hd (h.bwd u d (hA d hd) (by rw [← hups]; exact hu))
  nodupDowns u := (hsub u).nodup (h.nodupDowns u)
  nodupUps d := by rw [hups]; exact h.nodupUps d

/-! #### connect -/

theorem connect_downs (u d : NodeId) (S : State) (x : NodeId) :
    (connect G u d S).downs x =
      if x = u then (if d ∈ S.downs u then S.downs u else S.downs u ++ [d]) else S.downs x := by
  simp only [connect, setLoc_downs, State.setDowns, List.contains_iff_mem]

theorem connect_downs_new {u d : NodeId} {S : State} (h1 : d ∉ S.downs u) (x : NodeId) :
    (connect G u d S).downs x = if x = u then S.downs u ++ [d] else S.downs x := by
  rw [connect_downs, if_neg h1]

theorem connect_loc (u d : NodeId) (S : State) (x : NodeId) :
    (connect G u d S).loc x = if x = d then addUpstream (G d) (S.loc d) u else S.loc x := by
  simp only [connect, State.setLoc, State.setDowns]

theorem connect_ups (u d : NodeId) (S : State) (x : NodeId) :
    ((connect G u d S).loc x).ups = if x = d then (S.loc d).ups ++ [u] else (S.loc x).ups := by
  rw [connect_loc]; split
  · exact addUpstream_ups _ _ _
  · rfl

/-- `u.connect(d)` keeps the links consistent; absence of a parallel edge is needed for `Nodup` only. -/
theorem Links.of_connect {A : NodeId → Prop} {S : State} (h : Links A S) {u d : NodeId}
    (h1 : d ∉ S.downs u) (h2 : u ∉ (S.loc d).ups) : Links A (connect G u d S) where
  fwd u' d' hd := by
    rw [connect_downs_new G h1] at hd
    rw [connect_ups]
    split at hd
    · next hu =>
      subst hu
      rw [List.mem_append, List.mem_singleton] at hd
      rcases hd with hd | hd
      · have := h.fwd _ _ hd
        split
        · next hdd => subst hdd; exact List.mem_append_left _ this
        · exact this
      · subst hd; simp
    · have := h.fwd _ _ hd
      split
      · next hdd => subst hdd; exact List.mem_append_left _ this
      · exact this
  bwd u' d' hA hu := by
    rw [connect_ups] at hu
    rw [connect_downs_new G h1]
    split at hu
    · next hdd =>
      subst hdd
      rw [List.mem_append, List.mem_singleton] at hu
      rcases hu with hu | hu
      · have := h.bwd _ _ hA hu
        split
        · next huu => subst huu; exact absurd this h1
        · exact this
      · subst hu; simp
    · next hdd =>
      have := h.bwd _ _ hA hu
      split
      · next huu => subst huu; exact List.mem_append_left _ this
      · exact this
  nodupDowns x := by
    rw [connect_downs_new G h1]
    split
    · next hx =>
      subst hx
      rw [List.nodup_append]
      refine ⟨h.nodupDowns _, by simp, ?_⟩
      intro a ha b hb
      rw [List.mem_singleton] at hb; subst hb
      intro hab; subst hab; exact h1 ha
    · exact h.nodupDowns x
  nodupUps x := by
    rw [connect_ups]
    split
    · next hx =>
      subst hx
      rw [List.nodup_append]
      refine ⟨h.nodupUps _, by simp, ?_⟩
      intro a ha b hb
      rw [List.mem_singleton] at hb; subst hb
      intro hab; subst hab; exact h2 ha
    · exact h.nodupUps x

/-! #### disconnect -/

/-- `u.disconnect(d)` for an edge that does not exist raises `KeyError` and changes nothing. -/
theorem disconnect_absent {u d : NodeId} {S : State} (h : d ∉ S.downs u) :
    (disconnect G u d S).st = S ∧ (disconnect G u d S).err = some .keyError ∧ (disconnect G u d S).log = [] := by
  have hc : (S.downs u).contains d = false := by
    rw [Bool.eq_false_iff]; intro hc; exact h (List.contains_iff_mem.1 hc)
  simp only [disconnect, hc]
  exact ⟨rfl, rfl, rfl⟩

/-- what a successful `u.disconnect(d)` did -/
theorem disconnect_ok {u d : NodeId} {S : State} (h : (disconnect G u d S).err = none) :
    d ∈ S.downs u ∧ ∃ s' md, removeUpstream (G d) (S.loc d) u = .ok (s', md) ∧
      (disconnect G u d S).st = (releaseMd md ((S.setDowns u ((S.downs u).erase d)).setLoc d s')).1 ∧
      (disconnect G u d S).log = (releaseMd md ((S.setDowns u ((S.downs u).erase d)).setLoc d s')).2 := by
  by_cases hd : d ∈ S.downs u
  · refine ⟨hd, ?_⟩
    have hc : (S.downs u).contains d = true := List.contains_iff_mem.2 hd
    simp only [disconnect, hc, if_true, dropUpstream, setDowns_loc] at h ⊢
    cases hr : removeUpstream (G d) (S.loc d) u with
    | error e => rw [hr] at h; cases h
    | ok p =>
      obtain ⟨s', md⟩ := p
      exact ⟨s', md, rfl, rfl, rfl⟩
  · rw [(disconnect_absent G hd).2.1] at h; cases h

theorem disconnect_ok_downs {u d : NodeId} {S : State} (h : (disconnect G u d S).err = none) (x : NodeId) :
    (disconnect G u d S).st.downs x = if x = u then (S.downs u).erase d else S.downs x := by
  obtain ⟨_, s', md, _, hst, _⟩ := disconnect_ok G h
  rw [hst, releaseMd_downs, setLoc_downs]; rfl

theorem disconnect_ok_loc {u d : NodeId} {S : State} (h : (disconnect G u d S).err = none) :
    ∃ s' md, removeUpstream (G d) (S.loc d) u = .ok (s', md) ∧
      ∀ x, (disconnect G u d S).st.loc x = if x = d then s' else S.loc x := by
  obtain ⟨_, s', md, hr, hst, _⟩ := disconnect_ok G h
  refine ⟨s', md, hr, fun x => ?_⟩
  rw [hst, releaseMd_loc]; rfl

theorem disconnect_ok_ups {u d : NodeId} {S : State} (h : (disconnect G u d S).err = none) (x : NodeId) :
    ((disconnect G u d S).st.loc x).ups = if x = d then (S.loc d).ups.erase u else (S.loc x).ups := by
  obtain ⟨s', md, hr, hl⟩ := disconnect_ok_loc G h
  rw [hl]; split
  · exact (removeUpstream_ok hr).2
  · rfl

/-- A successful `u.disconnect(d)` keeps the links consistent. -/
theorem Links.of_disconnect {A : NodeId → Prop} {S : State} (h : Links A S) {u d : NodeId}
    (hok : (disconnect G u d S).err = none) : Links A (disconnect G u d S).st where
  fwd u' d' hd := by
    rw [disconnect_ok_downs G hok] at hd
    rw [disconnect_ok_ups G hok]
    split at hd
    · next hu =>
      subst hu
      have hm := (List.Nodup.mem_erase_iff (h.nodupDowns _)).1 hd
      rw [if_neg hm.1]
      exact h.fwd _ _ hm.2
    · next hu =>
      have := h.fwd _ _ hd
      split
      · next hdd => subst hdd; exact (List.Nodup.mem_erase_iff (h.nodupUps _)).2 ⟨hu, this⟩
      · exact this
  bwd u' d' hA hu := by
    rw [disconnect_ok_ups G hok] at hu
    rw [disconnect_ok_downs G hok]
    split at hu
    · next hdd =>
      subst hdd
      have hm := (List.Nodup.mem_erase_iff (h.nodupUps _)).1 hu
      rw [if_neg hm.1]
      exact h.bwd _ _ hA hm.2
    · next hdd =>
      have := h.bwd _ _ hA hu
      split
      · next huu => subst huu; exact (List.Nodup.mem_erase_iff (h.nodupDowns _)).2 ⟨hdd, this⟩
      · exact this
  nodupDowns x := by
    rw [disconnect_ok_downs G hok]
    split
    · exact (h.nodupDowns _).erase _
    · exact h.nodupDowns x
  nodupUps x := by
    rw [disconnect_ok_ups G hok]
    split
    · exact (h.nodupUps _).erase _
    · exact h.nodupUps x

/-- ... and the edge is gone on both sides. -/
theorem Links.of_disconnect_removed {A : NodeId → Prop} {S : State} (h : Links A S) {u d : NodeId}
    (hok : (disconnect G u d S).err = none) :
    d ∉ (disconnect G u d S).st.downs u ∧ u ∉ ((disconnect G u d S).st.loc d).ups := by
  rw [disconnect_ok_downs G hok, disconnect_ok_ups G hok, if_pos rfl, if_pos rfl]
  exact ⟨(h.nodupDowns u).not_mem_erase, (h.nodupUps d).not_mem_erase⟩

/-! #### destroy -/

theorem destroyLoop_cons_ok {u : NodeId} {us : List NodeId} {d : NodeId} {S : State}
    (hok : (destroyLoop G (u :: us) d S).err = none) :
    (disconnect G u d S).err = none ∧ (destroyLoop G us d (disconnect G u d S).st).err = none ∧
      (destroyLoop G (u :: us) d S).st = (destroyLoop G us d (disconnect G u d S).st).st := by
  simp only [destroyLoop] at hok ⊢
  cases he : (disconnect G u d S).err with
  | some e => rw [he] at hok; simp only [] at hok; rw [he] at hok; cases hok
  | none => rw [he] at hok; exact ⟨rfl, hok, rfl⟩

/-- anything every successful `disconnect` preserves, a successful `destroy` preserves -/
theorem destroyLoop_inv (P : State → Prop) (d : NodeId)
    (hstep : ∀ u S, P S → (disconnect G u d S).err = none → P (disconnect G u d S).st)
    (us : List NodeId) (S : State) (hP : P S) (hok : (destroyLoop G us d S).err = none) :
    P (destroyLoop G us d S).st := by
  induction us generalizing S with
  | nil => exact hP
  | cons u us ih =>
    obtain ⟨he, hok', hst⟩ := destroyLoop_cons_ok G hok
    rw [hst]
    exact ih _ (hstep u S hP he) hok'

theorem Links.of_destroy {A : NodeId → Prop} {S : State} (h : Links A S) {d : NodeId}
    (hok : (destroy G d S).err = none) : Links A (destroy G d S).st :=
  destroyLoop_inv G (Links A) d (fun _ _ hP he => hP.of_disconnect G he) _ S h hok

theorem destroyLoop_ups_nil (d : NodeId) (us : List NodeId) (S : State) (hus : (S.loc d).ups = us) (hn : us.Nodup)
    (hok : (destroyLoop G us d S).err = none) : ((destroyLoop G us d S).st.loc d).ups = [] := by
  induction us generalizing S with
  | nil => exact hus
  | cons u us ih =>
    obtain ⟨he, hok', hst⟩ := destroyLoop_cons_ok G hok
    rw [hst]
    refine ih _ ?_ (List.nodup_cons.1 hn).2 hok'
    rw [disconnect_ok_ups G he, if_pos rfl, hus]
    simp

/-! #### destroy(streams=selection) -/

theorem destroyLoop_ups_erase (d : NodeId) (us : List NodeId) (S : State)
    (hok : (destroyLoop G us d S).err = none) (x : NodeId) :
    ((destroyLoop G us d S).st.loc x).ups = if x = d then us.foldl List.erase (S.loc d).ups else (S.loc x).ups := by
  induction us generalizing S with
  | nil =>
    simp only [destroyLoop, List.foldl]
    split
    · next h => rw [h]
    · rfl
  | cons u us ih =>
    obtain ⟨he, hok', hst⟩ := destroyLoop_cons_ok G hok
    rw [hst, ih _ hok', disconnect_ok_ups G he, disconnect_ok_ups G he]
    split <;> simp_all [List.foldl]

theorem destroyLoop_downs_other (d : NodeId) (us : List NodeId) (S : State)
    (hok : (destroyLoop G us d S).err = none) (x : NodeId) (hx : x ∉ us) :
    (destroyLoop G us d S).st.downs x = S.downs x := by
  induction us generalizing S with
  | nil => simp [destroyLoop]
  | cons u us ih =>
    obtain ⟨he, hok', hst⟩ := destroyLoop_cons_ok G hok
    have hxu : x ≠ u := fun h => hx (h ▸ List.mem_cons_self)
    have hxs : x ∉ us := fun h => hx (List.mem_cons_of_mem _ h)
    rw [hst, ih _ hok' hxs, disconnect_ok_downs G he, if_neg hxu]

theorem destroyLoop_absent_kept (d : NodeId) (us : List NodeId) (S : State)
    (hok : (destroyLoop G us d S).err = none) (x : NodeId) (hx : d ∉ S.downs x) :
    d ∉ (destroyLoop G us d S).st.downs x := by
  induction us generalizing S with
  | nil => simpa [destroyLoop] using hx
  | cons u us ih =>
    obtain ⟨he, hok', hst⟩ := destroyLoop_cons_ok G hok
    rw [hst]
    refine ih _ hok' ?_
    rw [disconnect_ok_downs G he]
    split
    · next h => subst h; exact fun hm => hx (List.mem_of_mem_erase hm)
    · exact hx

theorem Links.destroyLoop_removed {A : NodeId → Prop} (d : NodeId) (us : List NodeId) (S : State) (h : Links A S)
    (hok : (destroyLoop G us d S).err = none) (x : NodeId) (hx : x ∈ us) :
    d ∉ (destroyLoop G us d S).st.downs x := by
  induction us generalizing S with
  | nil => cases hx
  | cons u us ih =>
    obtain ⟨he, hok', hst⟩ := destroyLoop_cons_ok G hok
    rw [hst]
    by_cases hxu : x = u
    · subst hxu
      exact destroyLoop_absent_kept G d us _ hok' x (h.of_disconnect_removed G he).1
    · cases hx with
      | head => exact absurd rfl hxu
      | tail _ hm => exact ih _ (h.of_disconnect G he) hok' hm

/-- After a successful `d.destroy()` the node has no upstreams, and no node lists it as a child. -/
theorem Links.of_destroy_isolated {A : NodeId → Prop} {S : State} (h : Links A S) {d : NodeId}
    (hok : (destroy G d S).err = none) :
    ((destroy G d S).st.loc d).ups = [] ∧ ∀ u, d ∉ (destroy G d S).st.downs u := by
  have h1 := destroyLoop_ups_nil G d _ S rfl (h.nodupUps d) hok
  refine ⟨h1, fun u hu => ?_⟩
  have := (h.of_destroy G hok).fwd u d hu
  unfold Graph.destroy at this
  rw [h1] at this
  cases this

/-! #### collect -/

@[simp] theorem collect_loc (nodes : List NodeId) (L : Live) (S : State) : (collect nodes L S).loc = S.loc := rfl

theorem collect_downs (nodes : List NodeId) (L : Live) (S : State) (u : NodeId) :
    (collect nodes L S).downs u = (S.downs u).filter (alive nodes L S) := rfl

/-- Garbage collection keeps the links consistent for the nodes that are alive. -/
theorem Links.of_collect {A : NodeId → Prop} {S : State} (h : Links A S) (nodes : List NodeId) (L : Live) :
    Links (fun d => A d ∧ alive nodes L S d = true) (collect nodes L S) :=
  h.transfer (fun _ => rfl) (fun _ => List.filter_sublist)
    (fun u d hd hm => by rw [collect_downs]; exact List.mem_filter.2 ⟨hm, hd.2⟩) (fun _ hd => hd.1)

/-! #### runs -/

/-- Every `_emit`, finished or aborted by an exception (or by lack of fuel), keeps the links consistent for
all nodes that are not end-bounded slices. -/
theorem Links.of_emitAt {A : NodeId → Prop} {S : State} (h : Links A S) (f : Nat) (n : NodeId) (v : Val) (md : Meta) :
    Links (fun d => A d ∧ ¬ BoundedSlice (G d)) (emitAt G f n v md S).st :=
  h.transfer (fun i => (emitAt_ups G f n v md S i).1) (interp_downs_sublist G f (.emit n v md) S)
    (fun _ _ hd hm => emitAt_downs_keep G f n v md S hm hd.2) (fun _ hd => hd.1)

theorem Links.of_emitAt_static {A : NodeId → Prop} {S : State} (h : Links A S) (hG : NoBoundedSlice G)
    (f : Nat) (n : NodeId) (v : Val) (md : Meta) : Links A (emitAt G f n v md S).st :=
  (h.of_emitAt G f n v md).mono (fun d hd => ⟨hd, hG d⟩)

/-! ### D. per-input state of `zip` and `combine_latest` -/

/-! list helpers -/
section ListHelpers
variable {β : Type}

theorem filterMap_congr' {α γ : Type} {f g : α → Option γ} {l : List α} (h : ∀ a ∈ l, f a = g a) :
    l.filterMap f = l.filterMap g := by
  induction l with
  | nil => rfl
  | cons a l ih =>
    simp only [List.filterMap_cons, h a (List.mem_cons_self ..)]
    rw [ih (fun x hx => h x (List.mem_cons_of_mem _ hx))]

theorem idxOf_cons_ne {a b : NodeId} (l : List NodeId) (h : b ≠ a) : List.idxOf a (b :: l) = List.idxOf a l + 1 := by
  rw [List.idxOf_cons]
  have : (b == a) = false := by simpa using h
  rw [this]; rfl

theorem find?_keyed (l : List NodeId) (g : NodeId → β) (who : NodeId) :
    (l.map (fun w => (w, g w))).find? (fun b => decide (b.1 = who)) =
      if who ∈ l then some (who, g who) else none := by
  induction l with
  | nil => simp
  | cons a l ih =>
    simp only [List.map_cons, List.find?_cons, List.mem_cons]
    by_cases h : a = who
    · subst h; simp
    · have h' : ¬ who = a := fun e => h e.symm
      simp only [h, decide_false, h', false_or]
      exact ih

theorem map_keyed_update (l : List NodeId) (g : NodeId → β) (who : NodeId) (L : β) :
    (l.map (fun w => (w, g w))).map (fun b => if b.1 = who then (b.1, L) else b) =
      l.map (fun w => (w, if w = who then L else g w)) := by
  rw [List.map_map]
  apply List.map_congr_left
  intro a _
  simp only [Function.comp]
  split <;> rfl

theorem idxOf_some {l : List NodeId} {who : NodeId} {i : Nat} :
    idxOf l who = some i ↔ who ∈ l ∧ i = List.idxOf who l := by
  unfold idxOf
  simp only []
  constructor
  · intro h
    split at h
    · next hlt => cases h; exact ⟨List.idxOf_lt_length_iff.1 hlt, rfl⟩
    · cases h
  · rintro ⟨hm, rfl⟩
    rw [if_pos (List.idxOf_lt_length_iff.2 hm)]

theorem idxOf_none {l : List NodeId} {who : NodeId} : idxOf l who = none ↔ who ∉ l := by
  unfold idxOf
  simp only []
  constructor
  · intro h hm
    rw [if_pos (List.idxOf_lt_length_iff.2 hm)] at h; cases h
  · intro hm
    rw [if_neg (fun hlt => hm (List.idxOf_lt_length_iff.1 hlt))]

theorem map_set_idxOf {l : List NodeId} (hn : l.Nodup) {who : NodeId} (hm : who ∈ l) (f : NodeId → β) (x : β) :
    (l.map f).set (List.idxOf who l) x = l.map (fun w => if w = who then x else f w) := by
  induction l with
  | nil => cases hm
  | cons a l ih =>
    have hn' := List.nodup_cons.1 hn
    by_cases h : a = who
    · subst h
      rw [List.idxOf_cons_self]
      simp only [List.map_cons, List.set_cons_zero, if_true]
      congr 1
      apply List.map_congr_left
      intro w hw
      have : w ≠ a := fun e => hn'.1 (e ▸ hw)
      rw [if_neg this]
    · rw [idxOf_cons_ne l h]
      simp only [List.map_cons, List.set_cons_succ, if_neg h]
      congr 1
      exact ih hn'.2 (by rcases List.mem_cons.1 hm with e | e; exact absurd e.symm h; exact e)

theorem getD_map_idxOf {l : List NodeId} {who : NodeId} (hm : who ∈ l) (f : NodeId → β) (dflt : β) :
    (l.map f).getD (List.idxOf who l) dflt = f who := by
  induction l with
  | nil => cases hm
  | cons a l ih =>
    by_cases h : a = who
    · subst h; rw [List.idxOf_cons_self]; rfl
    · rw [idxOf_cons_ne l h]
      simp only [List.map_cons, List.getD_cons_succ]
      exact ih (by rcases List.mem_cons.1 hm with e | e; exact absurd e.symm h; exact e)

theorem eraseIdx_map_idxOf {l : List NodeId} {u : NodeId} (hm : u ∈ l) (f : NodeId → β) :
    (l.map f).eraseIdx (List.idxOf u l) = (l.erase u).map f := by
  induction l with
  | nil => cases hm
  | cons a l ih =>
    by_cases h : a = u
    · subst h; rw [List.idxOf_cons_self]; simp
    · rw [idxOf_cons_ne l h]
      have : (a == u) = false := by simpa using h
      simp only [List.map_cons, List.eraseIdx_cons_succ, List.erase_cons, this]
      simp only [Bool.false_eq_true, if_false, List.map_cons]
      congr 1
      exact ih (by rcases List.mem_cons.1 hm with e | e; exact absurd e.symm h; exact e)

theorem erase_eq_filter_ne {l : List NodeId} (hn : l.Nodup) (u : NodeId) :
    l.erase u = l.filter (fun w => decide (w ≠ u)) := by
  rw [hn.erase_eq_filter]
  apply List.filter_congr
  intro x _
  by_cases hx : x = u <;> simp [hx]

end ListHelpers

/-! #### zip -/

/-- `zip.buffers` seen as a function of the upstream list: one deque per current upstream, in `upstreams`
order (the dict is in insertion order, and both are appended to / deleted from together). -/
def ZipRep (s : NState) (buf : NodeId → List (Val × Meta)) : Prop :=
  s.bufs = s.ups.map (fun w => (w, buf w))

/-- the literal form: the dict keys are the upstreams -/
def ZipAligned (s : NState) : Prop := s.bufs.map (·.1) = s.ups

/-- `self.buffers[w]` -/
def zipBuf (s : NState) (w : NodeId) : List (Val × Meta) :=
  ((s.bufs.find? (fun b => decide (b.1 = w))).map (·.2)).getD []

theorem ZipRep.aligned {s : NState} {buf : NodeId → List (Val × Meta)} (h : ZipRep s buf) : ZipAligned s := by
  unfold ZipAligned; rw [h, List.map_map]; simp [Function.comp_def]

theorem ZipRep.zipBuf {s : NState} {buf : NodeId → List (Val × Meta)} (h : ZipRep s buf) {w : NodeId}
    (hw : w ∈ s.ups) : zipBuf s w = buf w := by
  unfold Edit.zipBuf; rw [h, find?_keyed, if_pos hw]; rfl

theorem find?_key_self {l : List (NodeId × β)} (hn : (l.map (·.1)).Nodup) {b : NodeId × β} (hb : b ∈ l) :
    l.find? (fun c => decide (c.1 = b.1)) = some b := by
  induction l with
  | nil => cases hb
  | cons a l ih =>
    simp only [List.map_cons, List.nodup_cons] at hn
    rw [List.find?_cons]
    rcases List.mem_cons.1 hb with e | e
    · subst e; simp
    · have : a.1 ≠ b.1 := fun h => hn.1 (h ▸ List.mem_map_of_mem e)
      simp only [this, decide_false]
      exact ih hn.2 e

/-- keys = upstreams (no duplicates) is the same as: the dict is the upstream list paired with its deques -/
theorem ZipAligned.rep {s : NState} (h : ZipAligned s) (hn : s.ups.Nodup) : ZipRep s (zipBuf s) := by
  unfold ZipAligned at h
  unfold ZipRep
  rw [← h, List.map_map]
  have hk : (s.bufs.map (·.1)).Nodup := by rw [h]; exact hn
  conv => lhs; rw [← List.map_id s.bufs]
  apply List.map_congr_left
  intro b hb
  simp only [Function.comp, Edit.zipBuf, find?_key_self hk hb]
  rfl

/-- `zip.update` as a function on the per-upstream buffers: append to the sender's deque; if that deque was
empty and now every deque is non-empty, pop the heads (in `upstreams` order) and emit them. -/
def zipStep (lits : List (Nat × Val)) (ups : List NodeId) (buf : NodeId → List (Val × Meta)) (a : Arr) :
    (NodeId → List (Val × Meta)) × List (Val × Meta) :=
  let buf1 := fun w => if w = a.1 then buf a.1 ++ [a.2] else buf w
  if (buf a.1).isEmpty && ups.all (fun w => !(buf1 w).isEmpty) then
    let heads := ups.filterMap (fun u => (buf1 u).head?)
    (fun w => (buf1 w).tail, [(.tup (packLiterals lits (heads.map (·.1))), flatMd (heads.map (·.2)))])
  else (buf1, [])

theorem zip_stepLoc {lits : List (Nat × Val)} {s : NState} {buf : NodeId → List (Val × Meta)}
    (hr : ZipRep s buf) {a : Arr} (hw : a.1 ∈ s.ups) :
    stepLoc (.zip lits) s a =
      ({ s with bufs := s.ups.map (fun w => (w, (zipStep lits s.ups buf a).1 w)) },
       (zipStep lits s.ups buf a).2) := by
  obtain ⟨who, x, md⟩ := a
  have hb : s.bufs = s.ups.map (fun w => (w, buf w)) := hr
  have hheads : ∀ g : NodeId → List (Val × Meta),
      s.ups.filterMap (fun u => (if u ∈ s.ups then some (u, g u) else none).bind fun b => b.snd.head?) =
        s.ups.filterMap (fun u => (g u).head?) :=
    fun g => filterMap_congr' (fun u hu => by rw [if_pos hu]; rfl)
  have hall : ∀ g : NodeId → List (Val × Meta),
      (s.ups.map (fun w => (w, g w))).all (fun b => !b.snd.isEmpty) = s.ups.all (fun w => !(g w).isEmpty) :=
    fun g => by rw [List.all_map]; rfl
  have hlen : (buf who ++ [(x, md)]).length = 1 ↔ (buf who).isEmpty = true := by
    cases buf who <;> simp
  simp only [stepLoc, upd, hb, find?_keyed, if_pos hw, map_keyed_update, zipStep]
  simp only [hheads, hall, hlen, List.map_map]
  by_cases hc : (buf who).isEmpty = true ∧
      (s.ups.all fun w => !(if w = who then buf who ++ [(x, md)] else buf w).isEmpty) = true
  · have hc' : ((buf who).isEmpty && s.ups.all fun w => !(if w = who then buf who ++ [(x, md)] else buf w).isEmpty)
        = true := by rw [Bool.and_eq_true]; exact hc
    rw [if_pos hc, if_pos hc']
    simp only [finalLoc, outsOf, Function.comp_def]
  · have hc' : ¬ ((buf who).isEmpty && s.ups.all fun w => !(if w = who then buf who ++ [(x, md)] else buf w).isEmpty)
        = true := by rw [Bool.and_eq_true]; exact hc
    rw [if_neg hc, if_neg hc']
    simp only [finalLoc, outsOf]

theorem zip_stepLoc_ups {lits : List (Nat × Val)} {s : NState} {buf : NodeId → List (Val × Meta)}
    (hr : ZipRep s buf) {a : Arr} (hw : a.1 ∈ s.ups) :
    (stepLoc (.zip lits) s a).1.ups = s.ups ∧
      ZipRep (stepLoc (.zip lits) s a).1 (zipStep lits s.ups buf a).1 := by
  rw [zip_stepLoc hr hw]; exact ⟨rfl, rfl⟩

/-- a whole arrival list, on the buffers -/
def zipRun (lits : List (Nat × Val)) (ups : List NodeId) :
    (NodeId → List (Val × Meta)) → List Arr → (NodeId → List (Val × Meta)) × List (Val × Meta)
  | buf, [] => (buf, [])
  | buf, a :: as =>
    let r := zipStep lits ups buf a
    let r' := zipRun lits ups r.1 as
    (r'.1, r.2 ++ r'.2)

/-- **zip is a function of its current upstream list and the per-upstream buffers**: run over any list of
arrivals from current upstreams, the node's state and outputs are those of `zipRun`. -/
theorem zip_localRun {lits : List (Nat × Val)} {s : NState} {buf : NodeId → List (Val × Meta)}
    (hr : ZipRep s buf) {as : List Arr} (hw : ∀ a ∈ as, a.1 ∈ s.ups) :
    localRun (.zip lits) s as =
      ({ s with bufs := s.ups.map (fun w => (w, (zipRun lits s.ups buf as).1 w)) },
       (zipRun lits s.ups buf as).2) := by
  induction as generalizing s buf with
  | nil =>
    simp only [localRun, zipRun]
    have hb : s.bufs = s.ups.map (fun w => (w, buf w)) := hr
    rw [← hb]
  | cons a as ih =>
    have ha := hw a (List.mem_cons_self ..)
    have h1 := zip_stepLoc (lits := lits) hr ha
    have h2 := zip_stepLoc_ups (lits := lits) hr ha
    simp only [localRun, zipRun]
    have := ih h2.2 (fun b hb => by rw [h2.1]; exact hw b (List.mem_cons_of_mem _ hb))
    rw [this, h2.1]
    rw [h1]

/-- `_add_upstream` of a new upstream: one more, empty, deque at the end. -/
theorem zip_addUpstream {lits : List (Nat × Val)} {s : NState} {buf : NodeId → List (Val × Meta)}
    (hr : ZipRep s buf) {u : NodeId} (hu : u ∉ s.ups) :
    addUpstream (.zip lits) s u =
      { s with ups := s.ups ++ [u],
               bufs := (s.ups ++ [u]).map (fun w => (w, if w = u then [] else buf w)) } := by
  have hb : s.bufs = s.ups.map (fun w => (w, buf w)) := hr
  have hany : s.bufs.any (fun b => decide (b.1 = u)) = false := by
    rw [hb, List.any_map, Bool.eq_false_iff]
    intro h
    obtain ⟨w, hw, he⟩ := List.any_eq_true.1 h
    simp only [Function.comp, decide_eq_true_eq] at he
    exact hu (he ▸ hw)
  simp only [addUpstream, hany]
  congr 1
  rw [hb, List.map_append]
  simp only [Bool.false_eq_true, if_false, List.map_cons, List.map_nil, if_true]
  congr 1
  apply List.map_congr_left
  intro w hw
  have : w ≠ u := fun e => hu (e ▸ hw)
  rw [if_neg this]

theorem ZipRep.addUpstream {lits : List (Nat × Val)} {s : NState} {buf : NodeId → List (Val × Meta)}
    (hr : ZipRep s buf) {u : NodeId} (hu : u ∉ s.ups) :
    ZipRep (Graph.addUpstream (.zip lits) s u) (fun w => if w = u then [] else buf w) := by
  rw [zip_addUpstream hr hu]; rfl

/-- `_remove_upstream`: exactly the deque of `u` is dropped (and what it held is released); the other deques,
and their order, are untouched. -/
theorem zip_removeUpstream {lits : List (Nat × Val)} {s : NState} {buf : NodeId → List (Val × Meta)}
    (hr : ZipRep s buf) (hn : s.ups.Nodup) {u : NodeId} (hu : u ∈ s.ups) :
    removeUpstream (.zip lits) s u =
      .ok ({ s with ups := s.ups.erase u, bufs := (s.ups.erase u).map (fun w => (w, buf w)) },
           flatMd ((buf u).map (·.2))) := by
  have hb : s.bufs = s.ups.map (fun w => (w, buf w)) := hr
  have hc : s.ups.contains u = true := List.contains_iff_mem.2 hu
  simp only [removeUpstream, hb, find?_keyed, if_pos hu, hc, if_true]
  congr 3
  rw [erase_eq_filter_ne hn, List.filter_map]
  rfl

theorem zip_removeUpstream_absent {lits : List (Nat × Val)} {s : NState} {buf : NodeId → List (Val × Meta)}
    (hr : ZipRep s buf) {u : NodeId} (hu : u ∉ s.ups) : removeUpstream (.zip lits) s u = .error .keyError := by
  have hb : s.bufs = s.ups.map (fun w => (w, buf w)) := hr
  simp only [removeUpstream, hb, find?_keyed, if_neg hu]

/-- the elements an upstream contributed to an arrival list -/
def proj (w : NodeId) (as : List Arr) : List (Val × Meta) :=
  as.filterMap (fun a => if a.1 = w then some a.2 else none)

/-- While some current upstream has an empty deque and does not deliver, nothing is emitted: arrivals are only
appended to their deques. -/
theorem zipRun_waiting (lits : List (Nat × Val)) {ups : List NodeId} {w0 : NodeId} (h0 : w0 ∈ ups)
    (as : List Arr) (has : ∀ a ∈ as, a.1 ≠ w0) (buf : NodeId → List (Val × Meta)) (hb : buf w0 = []) :
    zipRun lits ups buf as = (fun w => buf w ++ proj w as, []) := by
  induction as generalizing buf with
  | nil => simp [zipRun, proj]
  | cons a as ih =>
    have ha : a.1 ≠ w0 := has a (List.mem_cons_self ..)
    have hstep : zipStep lits ups buf a = (fun w => if w = a.1 then buf a.1 ++ [a.2] else buf w, []) := by
      unfold zipStep
      simp only []
      rw [if_neg]
      rw [Bool.and_eq_true, List.all_eq_true]
      rintro ⟨_, hall⟩
      have := hall w0 h0
      rw [if_neg (fun e => ha e.symm), hb] at this
      simp at this
    simp only [zipRun, hstep]
    rw [ih (fun b hb' => has b (List.mem_cons_of_mem _ hb')) _ (by rw [if_neg (fun e => ha e.symm)]; exact hb)]
    simp only [List.nil_append, Prod.mk.injEq, and_true]
    funext w
    simp only [proj, List.filterMap_cons]
    by_cases hw : w = a.1
    · subst hw; simp
    · have hw' : ¬ a.1 = w := fun e => hw e.symm
      simp [hw, hw']

/-- **The stuck state.**  Once every deque of a current upstream is non-empty, no arrival from a current
upstream ever emits anything: `zip.update` only fires when the sender's deque *becomes* non-empty. -/
theorem zipRun_stuck (lits : List (Nat × Val)) {ups : List NodeId} (as : List Arr) (has : ∀ a ∈ as, a.1 ∈ ups)
    (buf : NodeId → List (Val × Meta)) (hb : ∀ w ∈ ups, (buf w).isEmpty = false) :
    (zipRun lits ups buf as).2 = [] ∧ ∀ w ∈ ups, ((zipRun lits ups buf as).1 w).isEmpty = false := by
  induction as generalizing buf with
  | nil => exact ⟨rfl, hb⟩
  | cons a as ih =>
    have ha := has a (List.mem_cons_self ..)
    have hstep : zipStep lits ups buf a = (fun w => if w = a.1 then buf a.1 ++ [a.2] else buf w, []) := by
      unfold zipStep
      simp only [hb a.1 ha, Bool.false_and, Bool.false_eq_true, if_false]
    simp only [zipRun, hstep, List.nil_append]
    apply ih (fun b hb' => has b (List.mem_cons_of_mem _ hb'))
    intro w hw
    split
    · simp
    · exact hb w hw

/-! #### combine_latest -/

/-- the per-upstream components of `combine_latest`: latest value, its metadata, "nothing received yet" -/
structure CLComp where
  last : NodeId → Val
  md : NodeId → Meta
  miss : NodeId → Bool

/-- `last`, `metadata` are index-aligned with `upstreams`, `missing` is a subset of it: all three are the
upstream list mapped / filtered through per-upstream components. -/
def CLRep (s : NState) (c : CLComp) : Prop :=
  s.last = s.ups.map c.last ∧ s.lastMd = s.ups.map c.md ∧ s.missing = s.ups.filter c.miss

/-- the literal form -/
def CLAligned (s : NState) : Prop :=
  s.last.length = s.ups.length ∧ s.lastMd.length = s.ups.length ∧ (∀ w ∈ s.missing, w ∈ s.ups) ∧ s.missing.Nodup

theorem CLRep.aligned {s : NState} {c : CLComp} (h : CLRep s c) (hn : s.ups.Nodup) : CLAligned s := by
  obtain ⟨h1, h2, h3⟩ := h
  refine ⟨by rw [h1, List.length_map], by rw [h2, List.length_map], ?_, ?_⟩
  · intro w hw; rw [h3] at hw; exact (List.mem_filter.1 hw).1
  · rw [h3]; exact List.filter_sublist.nodup hn

def CLComp.recv (c : CLComp) (a : Arr) : CLComp :=
  { last := fun w => if w = a.1 then a.2.1 else c.last w
    md := fun w => if w = a.1 then a.2.2 else c.md w
    miss := fun w => decide (w ≠ a.1) && c.miss w }

/-- `combine_latest.update` on the components: store the sender's value; emit the tuple of latest values when
nothing is missing and the sender is in `emit_on`. -/
def clStep (ups emitOn : List NodeId) (c : CLComp) (a : Arr) : CLComp × List (Val × Meta) :=
  let c' := c.recv a
  if (ups.filter c'.miss).isEmpty && emitOn.contains a.1 then
    (c', [(.tup (ups.map c'.last), flatMd (ups.map c'.md))])
  else (c', [])

theorem cl_stepLoc {eo : Option (List NodeId)} {s : NState} {c : CLComp} (hr : CLRep s c) (hn : s.ups.Nodup)
    {a : Arr} (hw : a.1 ∈ s.ups) :
    stepLoc (.combineLatest eo) s a =
      ({ s with last := s.ups.map (clStep s.ups s.emitOn c a).1.last,
                lastMd := s.ups.map (clStep s.ups s.emitOn c a).1.md,
                missing := s.ups.filter (clStep s.ups s.emitOn c a).1.miss },
       (clStep s.ups s.emitOn c a).2) := by
  obtain ⟨who, x, md⟩ := a
  obtain ⟨h1, h2, h3⟩ := hr
  have hi : idxOf s.ups who = some (List.idxOf who s.ups) := idxOf_some.2 ⟨hw, rfl⟩
  have hl : s.last.set (List.idxOf who s.ups) x = s.ups.map (c.recv (who, x, md)).last := by
    rw [h1, map_set_idxOf hn hw]; rfl
  have hm : s.lastMd.set (List.idxOf who s.ups) md = s.ups.map (c.recv (who, x, md)).md := by
    rw [h2, map_set_idxOf hn hw]; rfl
  have hmiss : s.missing.filter (fun w => decide (w ≠ who)) = s.ups.filter (c.recv (who, x, md)).miss := by
    rw [h3, List.filter_filter]; rfl
  simp only [stepLoc, upd, hi, hl, hm, hmiss, clStep]
  by_cases hc : (s.ups.filter (c.recv (who, x, md)).miss).isEmpty = true ∧ s.emitOn.contains who = true
  · have hc' : ((s.ups.filter (c.recv (who, x, md)).miss).isEmpty && s.emitOn.contains who) = true := by
      rw [Bool.and_eq_true]; exact hc
    rw [if_pos hc, if_pos hc']
    cases (s.lastMd.getD (List.idxOf who s.ups) []).isEmpty <;> simp [finalLoc, outsOf]
  · have hc' : ¬ ((s.ups.filter (c.recv (who, x, md)).miss).isEmpty && s.emitOn.contains who) = true := by
      rw [Bool.and_eq_true]; exact hc
    rw [if_neg hc, if_neg hc']
    cases (s.lastMd.getD (List.idxOf who s.ups) []).isEmpty <;> simp [finalLoc, outsOf]

theorem cl_stepLoc_frame {eo : Option (List NodeId)} {s : NState} {c : CLComp} (hr : CLRep s c) (hn : s.ups.Nodup)
    {a : Arr} (hw : a.1 ∈ s.ups) :
    (stepLoc (.combineLatest eo) s a).1.ups = s.ups ∧ (stepLoc (.combineLatest eo) s a).1.emitOn = s.emitOn ∧
      CLRep (stepLoc (.combineLatest eo) s a).1 (c.recv a) := by
  rw [cl_stepLoc hr hn hw]
  refine ⟨rfl, rfl, ?_⟩
  unfold clStep
  simp only []
  split <;> exact ⟨rfl, rfl, rfl⟩

def clRun (ups emitOn : List NodeId) : CLComp → List Arr → CLComp × List (Val × Meta)
  | c, [] => (c, [])
  | c, a :: as =>
    let r := clStep ups emitOn c a
    let r' := clRun ups emitOn r.1 as
    (r'.1, r.2 ++ r'.2)

/-- **combine_latest is a function of its current upstream list and the per-upstream components.** -/
theorem cl_localRun {eo : Option (List NodeId)} {s : NState} {c : CLComp} (hr : CLRep s c) (hn : s.ups.Nodup)
    {as : List Arr} (hw : ∀ a ∈ as, a.1 ∈ s.ups) :
    localRun (.combineLatest eo) s as =
      ({ s with last := s.ups.map (clRun s.ups s.emitOn c as).1.last,
                lastMd := s.ups.map (clRun s.ups s.emitOn c as).1.md,
                missing := s.ups.filter (clRun s.ups s.emitOn c as).1.miss },
       (clRun s.ups s.emitOn c as).2) := by
  induction as generalizing s c with
  | nil =>
    obtain ⟨h1, h2, h3⟩ := hr
    simp only [localRun, clRun]
    rw [← h1, ← h2, ← h3]
  | cons a as ih =>
    have ha := hw a (List.mem_cons_self ..)
    have h1 := cl_stepLoc (eo := eo) hr hn ha
    obtain ⟨h2, h3, h4⟩ := cl_stepLoc_frame (eo := eo) hr hn ha
    simp only [localRun, clRun]
    have := ih h4 (by rw [h2]; exact hn) (fun b hb => by rw [h2]; exact hw b (List.mem_cons_of_mem _ hb))
    rw [this, h2, h3]
    have hc1 : (clStep s.ups s.emitOn c a).1 = c.recv a := by
      unfold clStep; simp only []; split <;> rfl
    rw [h1, hc1]

/-- `_add_upstream` of a new upstream: a new last component, empty and missing. -/
theorem cl_addUpstream {eo : Option (List NodeId)} {s : NState} {c : CLComp} (hr : CLRep s c)
    {u : NodeId} (hu : u ∉ s.ups) :
    addUpstream (.combineLatest eo) s u =
      { s with ups := s.ups ++ [u],
               last := (s.ups ++ [u]).map (fun w => if w = u then Val.none else c.last w),
               lastMd := (s.ups ++ [u]).map (fun w => if w = u then [] else c.md w),
               missing := (s.ups ++ [u]).filter (fun w => decide (w = u) || c.miss w),
               emitOn := match eo with | none => s.ups ++ [u] | some _ => s.emitOn } := by
  obtain ⟨h1, h2, h3⟩ := hr
  have hmc : s.missing.contains u = false := by
    rw [Bool.eq_false_iff]; intro h
    have := List.contains_iff_mem.1 h
    rw [h3] at this
    exact hu (List.mem_filter.1 this).1
  have e1 : (s.ups ++ [u]).map (fun w => if w = u then Val.none else c.last w) = s.last ++ [Val.none] := by
    rw [List.map_append, h1]; simp only [List.map_cons, List.map_nil, if_true]
    congr 1
    apply List.map_congr_left
    intro w hw; rw [if_neg (fun e : w = u => hu (e ▸ hw))]
  have e2 : (s.ups ++ [u]).map (fun w => if w = u then ([] : Meta) else c.md w) = s.lastMd ++ [[]] := by
    rw [List.map_append, h2]; simp only [List.map_cons, List.map_nil, if_true]
    congr 1
    apply List.map_congr_left
    intro w hw; rw [if_neg (fun e : w = u => hu (e ▸ hw))]
  have e3 : (s.ups ++ [u]).filter (fun w => decide (w = u) || c.miss w) = s.missing ++ [u] := by
    rw [List.filter_append, h3]
    congr 1
    · apply List.filter_congr
      intro w hw
      have : ¬ w = u := fun e => hu (e ▸ hw)
      simp [this]
    · simp
  simp only [addUpstream, hmc, e1, e2, e3]
  rfl

theorem CLRep.addUpstream {eo : Option (List NodeId)} {s : NState} {c : CLComp} (hr : CLRep s c)
    {u : NodeId} (hu : u ∉ s.ups) :
    CLRep (Graph.addUpstream (.combineLatest eo) s u)
      { last := fun w => if w = u then Val.none else c.last w
        md := fun w => if w = u then [] else c.md w
        miss := fun w => decide (w = u) || c.miss w } := by
  rw [cl_addUpstream hr hu]; exact ⟨rfl, rfl, rfl⟩

/-- `_remove_upstream`: exactly the component of `u` is dropped (its metadata released); the other components,
and their order, are untouched. -/
theorem cl_removeUpstream {eo : Option (List NodeId)} {s : NState} {c : CLComp} (hr : CLRep s c)
    (hn : s.ups.Nodup) {u : NodeId} (hu : u ∈ s.ups) :
    removeUpstream (.combineLatest eo) s u =
      .ok ({ s with ups := s.ups.erase u,
                    last := (s.ups.erase u).map c.last,
                    lastMd := (s.ups.erase u).map c.md,
                    missing := (s.ups.erase u).filter c.miss,
                    emitOn := match eo with | none => s.ups.erase u | some _ => s.emitOn },
           c.md u) := by
  obtain ⟨h1, h2, h3⟩ := hr
  have hi : idxOf s.ups u = some (List.idxOf u s.ups) := idxOf_some.2 ⟨hu, rfl⟩
  have e1 : s.last.eraseIdx (List.idxOf u s.ups) = (s.ups.erase u).map c.last := by
    rw [h1, eraseIdx_map_idxOf hu]
  have e2 : s.lastMd.eraseIdx (List.idxOf u s.ups) = (s.ups.erase u).map c.md := by
    rw [h2, eraseIdx_map_idxOf hu]
  have e3 : s.missing.filter (fun w => decide (w ≠ u)) = (s.ups.erase u).filter c.miss := by
    rw [h3, erase_eq_filter_ne hn, List.filter_filter, List.filter_filter]
    apply List.filter_congr
    intro w _; exact Bool.and_comm _ _
  have e4 : s.lastMd.getD (List.idxOf u s.ups) [] = c.md u := by
    rw [h2, getD_map_idxOf hu]
  simp only [removeUpstream, hi, e1, e2, e3, e4]
  cases eo <;> rfl

theorem cl_removeUpstream_absent {eo : Option (List NodeId)} {s : NState} {u : NodeId} (hu : u ∉ s.ups) :
    removeUpstream (.combineLatest eo) s u = .error .valueError := by
  simp only [removeUpstream, idxOf_none.2 hu]

/-! #### the alignment invariant, globally -/

theorem CLRep.recv_state {s : NState} {c : CLComp} (hr : CLRep s c) (hn : s.ups.Nodup) {who : NodeId}
    (hw : who ∈ s.ups) (x : Val) (md : Meta) :
    CLRep { s with lastMd := s.lastMd.set (List.idxOf who s.ups) md, last := s.last.set (List.idxOf who s.ups) x,
                   missing := s.missing.filter (fun w => decide (w ≠ who)) } (c.recv (who, x, md)) := by
  obtain ⟨h1, h2, h3⟩ := hr
  refine ⟨?_, ?_, ?_⟩
  · show s.last.set _ x = _; rw [h1, map_set_idxOf hn hw]; rfl
  · show s.lastMd.set _ md = _; rw [h2, map_set_idxOf hn hw]; rfl
  · show s.missing.filter _ = _; rw [h3, List.filter_filter]; rfl

/-- per-input state is aligned with `upstreams` (and `emit_on` follows `upstreams` when not given) -/
def NodeAligned (k : Kind) (s : NState) : Prop :=
  match k with
  | .zip _ => ZipAligned s
  | .combineLatest eo => (∃ c, CLRep s c) ∧ (eo = none → s.emitOn = s.ups)
  | _ => True

/-- every state an `update` body writes is aligned if the state it started from was -/
theorem upd_set_aligned {k : Kind} {s s' : NState} {who : NodeId} {v : Val} {md : Meta}
    (ha : NodeAligned k s) (hn : s.ups.Nodup) (h : Eff.set s' ∈ (upd k s who v md).effs) : NodeAligned k s' := by
  cases k with
  | zip lits =>
    have hu := (upd_set_frame h).1
    simp only [NodeAligned, ZipAligned] at ha ⊢
    simp only [upd] at h
    split at h
    · simp [raise] at h
    · split at h
      · simp only [List.mem_cons, List.not_mem_nil, or_false] at h
        rcases h with h | h | h | h
        · cases h
        · cases h
          simp only [List.map_map]
          rw [← ha]
          apply List.map_congr_left
          intro b _; simp only [Function.comp]; split <;> rfl
        · cases h
        · cases h
      · simp only [List.mem_cons, List.not_mem_nil, or_false] at h
        rcases h with h | h
        · cases h
        · cases h
          rw [← ha]
          simp only [List.map_map]
          apply List.map_congr_left
          intro b _; simp only [Function.comp]; split <;> rfl
  | combineLatest eo =>
    obtain ⟨⟨c, hc⟩, he⟩ := ha
    have hf := upd_set_frame h
    simp only [upd] at h
    split at h
    · simp [raise] at h
    · next idx hi =>
      obtain ⟨hw, rfl⟩ := idxOf_some.1 hi
      have key := hc.recv_state hn hw v md
      have : s' = { s with lastMd := s.lastMd.set (List.idxOf who s.ups) md,
                           last := s.last.set (List.idxOf who s.ups) v,
                           missing := s.missing.filter (fun w => decide (w ≠ who)) } := by
        split at h
        · simp only [List.mem_append, List.mem_cons, List.not_mem_nil, or_false] at h
          rcases h with (h | h) | h | h
          · cases h
          · split at h <;> simp at h
          · cases h; rfl
          · cases h
        · simp only [List.mem_append, List.mem_cons, List.not_mem_nil, or_false] at h
          rcases h with (h | h) | h
          · cases h
          · split at h <;> simp at h
          · cases h; rfl
      refine ⟨⟨_, this ▸ key⟩, fun e => ?_⟩
      rw [hf.1, hf.2]; exact he e
  | _ => trivial

theorem NodeAligned.addUpstream {k : Kind} {s : NState} (ha : NodeAligned k s) {u : NodeId} (hu : u ∉ s.ups) :
    NodeAligned k (Graph.addUpstream k s u) := by
  cases k with
  | zip lits =>
    simp only [NodeAligned] at ha ⊢
    -- the keys: `u` is new, so it is appended
    have hany : s.bufs.any (fun b => decide (b.1 = u)) = false := by
      rw [Bool.eq_false_iff]
      intro h
      obtain ⟨b, hb, he⟩ := List.any_eq_true.1 h
      simp only [decide_eq_true_eq] at he
      apply hu
      unfold ZipAligned at ha
      rw [← ha, ← he]
      exact List.mem_map_of_mem hb
    unfold ZipAligned at ha ⊢
    simp only [Graph.addUpstream, hany, Bool.false_eq_true, if_false, List.map_append, ha, List.map_cons, List.map_nil]
  | combineLatest eo =>
    obtain ⟨⟨c, hc⟩, he⟩ := ha
    refine ⟨⟨_, hc.addUpstream hu⟩, fun e => ?_⟩
    subst e
    rfl
  | _ => trivial

theorem NodeAligned.removeUpstream {k : Kind} {s s' : NState} (ha : NodeAligned k s) (hn : s.ups.Nodup)
    {u : NodeId} {md : Meta} (h : Graph.removeUpstream k s u = .ok (s', md)) : NodeAligned k s' := by
  have hu := (removeUpstream_ok h).1
  cases k with
  | zip lits =>
    simp only [NodeAligned] at ha ⊢
    rw [zip_removeUpstream (ha.rep hn) hn hu] at h
    cases h
    exact ZipRep.aligned (buf := zipBuf s) rfl
  | combineLatest eo =>
    obtain ⟨⟨c, hc⟩, he⟩ := ha
    rw [cl_removeUpstream hc hn hu] at h
    cases h
    refine ⟨⟨c, rfl, rfl, rfl⟩, fun e => ?_⟩
    subst e; rfl
  | _ => trivial

/-- removing a current upstream never fails on an aligned node -/
theorem NodeAligned.removeUpstream_ok {k : Kind} {s : NState} (ha : NodeAligned k s) (hn : s.ups.Nodup)
    {u : NodeId} (hu : u ∈ s.ups) : ∃ s' md, Graph.removeUpstream k s u = .ok (s', md) := by
  cases k with
  | zip lits => exact ⟨_, _, zip_removeUpstream (ha.rep hn) hn hu⟩
  | combineLatest eo =>
    obtain ⟨⟨c, hc⟩, _⟩ := ha
    exact ⟨_, _, cl_removeUpstream hc hn hu⟩
  | _ =>
    have hc : s.ups.contains u = true := List.contains_iff_mem.2 hu
    simp only [Graph.removeUpstream, hc, if_true]
    exact ⟨_, _, rfl⟩

def Aligned (S : State) : Prop := ∀ i, NodeAligned (G i) (S.loc i)

theorem Aligned.of_connect {S : State} (ha : Aligned G S) {u d : NodeId}
    (h2 : u ∉ (S.loc d).ups) : Aligned G (connect G u d S) := by
  intro i
  rw [connect_loc]
  split
  · next hi => subst hi; exact (ha i).addUpstream h2
  · exact ha i

theorem Aligned.of_disconnect {A : NodeId → Prop} {S : State} (ha : Aligned G S) (hl : Links A S) {u d : NodeId}
    (hok : (disconnect G u d S).err = none) : Aligned G (disconnect G u d S).st := by
  obtain ⟨s', md, hr, hloc⟩ := disconnect_ok_loc G hok
  intro i
  rw [hloc]
  split
  · next hi => subst hi; exact (ha i).removeUpstream (hl.nodupUps i) hr
  · exact ha i

/-- On consistent, aligned states `u.disconnect(d)` raises exactly when the edge does not exist. -/
theorem disconnect_ok_of_edge {A : NodeId → Prop} {S : State} (ha : Aligned G S) (hl : Links A S) {u d : NodeId}
    (hd : d ∈ S.downs u) : (disconnect G u d S).err = none := by
  obtain ⟨s', md, hr⟩ := (ha d).removeUpstream_ok (hl.nodupUps d) (hl.fwd u d hd)
  have hc : (S.downs u).contains d = true := List.contains_iff_mem.2 hd
  simp only [disconnect, hc, if_true, dropUpstream, setDowns_loc, hr]

theorem Aligned.of_destroy {A : NodeId → Prop} {S : State} (ha : Aligned G S) (hl : Links A S) {d : NodeId}
    (hok : (destroy G d S).err = none) : Aligned G (destroy G d S).st :=
  (destroyLoop_inv G (fun S => Links A S ∧ Aligned G S) d
    (fun _ _ hP he => ⟨hP.1.of_disconnect G he, hP.2.of_disconnect G hP.1 he⟩) _ S ⟨hl, ha⟩ hok).2

/-- `d.destroy()` succeeds on consistent, aligned states (for a node whose parents still list it). -/
theorem destroy_ok {A : NodeId → Prop} {S : State} (ha : Aligned G S) (hl : Links A S) {d : NodeId} (hd : A d) :
    (destroy G d S).err = none := by
  unfold destroy
  generalize hus : (S.loc d).ups = us
  induction us generalizing S with
  | nil => rfl
  | cons u us ih =>
    have hu : u ∈ (S.loc d).ups := by rw [hus]; exact List.mem_cons_self ..
    have he := disconnect_ok_of_edge G ha hl (hl.bwd u d hd hu)
    simp only [destroyLoop, he]
    refine ih (ha.of_disconnect G hl he) (hl.of_disconnect G he) ?_
    rw [disconnect_ok_ups G he, if_pos rfl, hus]
    simp

theorem Aligned.of_collect {S : State} (ha : Aligned G S) (nodes : List NodeId) (L : Live) :
    Aligned G (collect nodes L S) := ha

/-- Every run, finished or aborted, keeps per-input state aligned with `upstreams`. -/
theorem Aligned.of_interp {S : State} (ha : Aligned G S) (hn : ∀ i, (S.loc i).ups.Nodup) (f : Nat) (c : Call)
    (hc : callValid (fun d e => ∀ s, e = .set s → NodeAligned (G d) s ∧ s.ups.Nodup) c) :
    Aligned G (interp G f c S).st := by
  refine (interp_inv G (fun S' => Aligned G S' ∧ ∀ i, (S'.loc i).ups.Nodup)
    (fun d e => ∀ s, e = .set s → NodeAligned (G d) s ∧ s.ups.Nodup) ?_ ?_ ?_ ?_ f c S ⟨ha, hn⟩ hc).1
  · intro S1 S2 h hl _
    refine ⟨fun i => ?_, fun i => ?_⟩
    · rw [hl]; exact h.1 i
    · rw [hl]; exact h.2 i
  · intro S1 d s h hv
    refine ⟨fun i => ?_, fun i => ?_⟩
    · by_cases hi : i = d
      · subst hi; rw [setLoc_same]; exact (hv s rfl).1
      · rw [setLoc_other _ _ hi]; exact h.1 i
    · by_cases hi : i = d
      · subst hi; rw [setLoc_same]; exact (hv s rfl).2
      · rw [setLoc_other _ _ hi]; exact h.2 i
  · intro S1 d h _
    refine ⟨fun i => ?_, fun i => ?_⟩
    · rw [detachNode_loc]; exact h.1 i
    · rw [detachNode_loc]; exact h.2 i
  · intro S1 d who v md h e he s hs
    subst hs
    exact ⟨upd_set_aligned (h.1 d) (h.2 d) he, by rw [(upd_set_frame he).1]; exact h.2 d⟩

theorem Aligned.of_emitAt {S : State} (ha : Aligned G S) (hn : ∀ i, (S.loc i).ups.Nodup) (f : Nat) (n : NodeId)
    (v : Val) (md : Meta) : Aligned G (emitAt G f n v md S).st :=
  ha.of_interp G hn f (.emit n v md) trivial

/-! ### E. liveness -/

section Liveness
variable (nodes : List NodeId)

theorem aliveStep_eq (S : State) (a : NodeId → Bool) (i : NodeId) :
    aliveStep nodes S a i = (a i || nodes.any (fun c => a c && keeps (S.loc c) i)) := rfl

theorem aliveStep_true_iff {S : State} {a : NodeId → Bool} {i : NodeId} :
    aliveStep nodes S a i = true ↔ a i = true ∨ ∃ c ∈ nodes, a c = true ∧ keeps (S.loc c) i = true := by
  rw [aliveStep_eq, Bool.or_eq_true, List.any_eq_true]
  simp only [Bool.and_eq_true]

theorem aliveStep_extensive {S : State} {a : NodeId → Bool} {i : NodeId} (h : a i = true) :
    aliveStep nodes S a i = true := (aliveStep_true_iff nodes).2 (.inl h)

/-- monotone in the seed and in what nodes keep alive -/
theorem aliveStep_mono {S S' : State} {a b : NodeId → Bool} (hab : ∀ i, a i = true → b i = true)
    (hk : ∀ c i, keeps (S.loc c) i = true → keeps (S'.loc c) i = true) {i : NodeId}
    (h : aliveStep nodes S a i = true) : aliveStep nodes S' b i = true := by
  rw [aliveStep_true_iff] at h ⊢
  rcases h with h | ⟨c, hc, h1, h2⟩
  · exact .inl (hab i h)
  · exact .inr ⟨c, hc, hab c h1, hk c i h2⟩

theorem aliveIter_succ' (S : State) (n : Nat) (a : NodeId → Bool) :
    aliveIter nodes S (n + 1) a = aliveStep nodes S (aliveIter nodes S n a) := by
  induction n generalizing a with
  | zero => rfl
  | succ n ih => rw [aliveIter, ih]; rfl

theorem aliveIter_extensive {S : State} (n : Nat) {a : NodeId → Bool} {i : NodeId} (h : a i = true) :
    aliveIter nodes S n a i = true := by
  induction n generalizing a with
  | zero => exact h
  | succ n ih => exact ih (aliveStep_extensive nodes h)

theorem aliveIter_mono {S S' : State} (n : Nat) {a b : NodeId → Bool} (hab : ∀ i, a i = true → b i = true)
    (hk : ∀ c i, keeps (S.loc c) i = true → keeps (S'.loc c) i = true) {i : NodeId}
    (h : aliveIter nodes S n a i = true) : aliveIter nodes S' n b i = true := by
  induction n generalizing a b i with
  | zero => exact hab i h
  | succ n ih => exact ih (fun j hj => aliveStep_mono nodes hab hk hj) h

/-- a set closed under one round contains every iterate that starts inside it -/
theorem aliveIter_le_closed {S : State} {B : NodeId → Bool}
    (hB : ∀ i, aliveStep nodes S B i = true → B i = true) (n : Nat) {a : NodeId → Bool}
    (hab : ∀ i, a i = true → B i = true) {i : NodeId} (h : aliveIter nodes S n a i = true) : B i = true := by
  induction n generalizing a i with
  | zero => exact hab i h
  | succ n ih =>
    exact ih (fun j hj => hB j (aliveStep_mono nodes hab (fun _ _ hk => hk) hj)) h

/-! the fixed point is reached within `nodes.length` rounds -/

/-- number of alive entries of `nodes` -/
def cnt (a : NodeId → Bool) : Nat := (nodes.filter a).length

theorem cnt_le (a : NodeId → Bool) : cnt nodes a ≤ nodes.length := List.length_filter_le _ _

theorem cnt_lt {a b : NodeId → Bool} (hab : ∀ i, a i = true → b i = true) {x : NodeId} (hx : x ∈ nodes)
    (hbx : b x = true) (hax : a x = false) : cnt nodes a < cnt nodes b := by
  unfold cnt
  induction nodes with
  | nil => cases hx
  | cons y l ih =>
    have hle : (l.filter a).length ≤ (l.filter b).length := by
      clear ih hx
      induction l with
      | nil => exact Nat.le_refl _
      | cons z l ih2 =>
        simp only [List.filter_cons]
        cases hz : a z with
        | true => rw [hab z hz]; simp only [if_true, List.length_cons]; omega
        | false => simp only [Bool.false_eq_true, if_false]; split <;> (try simp only [List.length_cons]) <;> omega
    simp only [List.filter_cons]
    rcases List.mem_cons.1 hx with e | e
    · subst e
      rw [hbx, hax]; simp only [if_true, Bool.false_eq_true, if_false, List.length_cons]; omega
    · have := ih e
      cases hy : a y with
      | true => rw [hab y hy]; simp only [if_true, List.length_cons]; omega
      | false => simp only [Bool.false_eq_true, if_false]; split <;> (try simp only [List.length_cons]) <;> omega

/-- if a round changes nothing *on `nodes`*, the next round changes nothing at all -/
theorem aliveStep_stable_of_agree {S : State} {a : NodeId → Bool}
    (h : ∀ x ∈ nodes, aliveStep nodes S a x = a x) (i : NodeId) :
    aliveStep nodes S (aliveStep nodes S a) i = aliveStep nodes S a i := by
  have hany : nodes.any (fun c => aliveStep nodes S a c && keeps (S.loc c) i) =
      nodes.any (fun c => a c && keeps (S.loc c) i) := by
    rw [Bool.eq_iff_iff, List.any_eq_true, List.any_eq_true]
    constructor
    · rintro ⟨c, hc, h1⟩; exact ⟨c, hc, by rw [← h c hc]; exact h1⟩
    · rintro ⟨c, hc, h1⟩; exact ⟨c, hc, by rw [h c hc]; exact h1⟩
  rw [aliveStep_eq nodes S (aliveStep nodes S a), hany, aliveStep_eq nodes S a]
  cases a i <;> cases nodes.any (fun c => a c && keeps (S.loc c) i) <;> rfl

/-- `a` is a fixed point of a round -/
def Stable (S : State) (a : NodeId → Bool) : Prop := ∀ i, aliveStep nodes S a i = a i

theorem Stable.step {S : State} {a : NodeId → Bool} (h : Stable nodes S a) : Stable nodes S (aliveStep nodes S a) := by
  intro i
  have : aliveStep nodes S a = a := funext h
  rw [this]; exact h i

theorem stable_or_grows (S : State) (a : NodeId → Bool) (k : Nat) :
    Stable nodes S (aliveIter nodes S k a) ∨ k + 1 ≤ cnt nodes (aliveIter nodes S k a) := by
  induction k with
  | zero =>
    by_cases h : ∃ x ∈ nodes, a x = true
    · obtain ⟨x, hx, hax⟩ := h
      right
      show 1 ≤ (nodes.filter a).length
      exact List.length_pos_of_mem (List.mem_filter.2 ⟨hx, hax⟩)
    · left
      intro i
      show aliveStep nodes S a i = a i
      rw [Bool.eq_iff_iff, aliveStep_true_iff]
      constructor
      · rintro (h1 | ⟨c, hc, h1, _⟩)
        · exact h1
        · exact absurd ⟨c, hc, h1⟩ h
      · exact .inl
  | succ k ih =>
    rw [aliveIter_succ']
    rcases ih with ih | ih
    · exact .inl ih.step
    · by_cases h : ∀ x ∈ nodes, aliveStep nodes S (aliveIter nodes S k a) x = aliveIter nodes S k a x
      · exact .inl (aliveStep_stable_of_agree nodes h)
      · right
        have h' : ∃ x, x ∈ nodes ∧ aliveStep nodes S (aliveIter nodes S k a) x ≠ aliveIter nodes S k a x := by
          apply Classical.byContradiction
          intro hne
          apply h
          intro x hx
          apply Classical.byContradiction
          intro hxne
          exact hne ⟨x, hx, hxne⟩
        obtain ⟨x, hx, hne⟩ := h'
        have hlt := cnt_lt nodes (a := aliveIter nodes S k a) (b := aliveStep nodes S (aliveIter nodes S k a))
          (fun i hi => aliveStep_extensive nodes hi) hx
        cases hb : aliveStep nodes S (aliveIter nodes S k a) x with
        | true =>
          cases ha : aliveIter nodes S k a x with
          | true => rw [hb, ha] at hne; exact absurd rfl hne
          | false => have := hlt hb ha; omega
        | false =>
          cases ha : aliveIter nodes S k a x with
          | true => rw [aliveStep_extensive nodes ha] at hb; cases hb
          | false => rw [hb, ha] at hne; exact absurd rfl hne

/-- **`alive` is a fixed point**: `nodes.length` rounds suffice. -/
theorem aliveIter_stable (S : State) (a : NodeId → Bool) : Stable nodes S (aliveIter nodes S nodes.length a) := by
  rcases stable_or_grows nodes S a nodes.length with h | h
  · exact h
  · have := cnt_le nodes (aliveIter nodes S nodes.length a)
    omega

theorem alive_stable (L : Live) (S : State) : Stable nodes S (alive nodes L S) := aliveIter_stable nodes S _

/-- `alive` is closed under "kept by an alive node of the program". -/
theorem alive_closed {L : Live} {S : State} {c i : NodeId} (hc : c ∈ nodes) (ha : alive nodes L S c = true)
    (hk : keeps (S.loc c) i = true) : alive nodes L S i = true := by
  rw [← alive_stable nodes L S i]
  exact (aliveStep_true_iff nodes).2 (.inr ⟨c, hc, ha, hk⟩)

theorem alive_of_root {L : Live} {S : State} {i : NodeId} (h : L.held i = true ∨ L.sinkReg i = true) :
    alive nodes L S i = true :=
  aliveIter_extensive nodes _ (by simpa using h)

/-- conversely every alive node is a root or is kept by an alive node: nothing else is alive -/
theorem alive_cases {L : Live} {S : State} {i : NodeId} (h : alive nodes L S i = true) :
    L.held i = true ∨ L.sinkReg i = true ∨ ∃ c ∈ nodes, alive nodes L S c = true ∧ keeps (S.loc c) i = true := by
  unfold alive at h ⊢
  generalize nodes.length = n at h ⊢
  induction n generalizing i with
  | zero => simp only [aliveIter, Bool.or_eq_true] at h; rcases h with h | h; exact .inl h; exact .inr (.inl h)
  | succ n ih =>
    rw [aliveIter_succ'] at h
    have hmono : ∀ j, aliveIter nodes S n (fun i => L.held i || L.sinkReg i) j = true →
        aliveIter nodes S (n + 1) (fun i => L.held i || L.sinkReg i) j = true := by
      intro j hj; rw [aliveIter_succ']; exact aliveStep_extensive nodes hj
    rcases (aliveStep_true_iff nodes).1 h with h | ⟨c, hc, h1, h2⟩
    · rcases ih h with h | h | ⟨c, hc, h1, h2⟩
      · exact .inl h
      · exact .inr (.inl h)
      · exact .inr (.inr ⟨c, hc, hmono c h1, h2⟩)
    · exact .inr (.inr ⟨c, hc, hmono c h1, h2⟩)

/-- reachability "upwards" from a root, as an inductive predicate -/
inductive Kept (L : Live) (S : State) : NodeId → Prop
  | root {i} : L.held i = true ∨ L.sinkReg i = true → Kept L S i
  | up {c i} : Kept L S c → c ∈ nodes → keeps (S.loc c) i = true → Kept L S i

/-- **`alive` is exactly reachability from the roots**: held by the program, or a registered sink, or kept
(through `upstreams` / `emit_on`) by such a node. -/
theorem alive_iff_kept {L : Live} {S : State} {i : NodeId} : alive nodes L S i = true ↔ Kept nodes L S i := by
  constructor
  · unfold alive
    generalize nodes.length = n
    intro h
    induction n generalizing i with
    | zero =>
      simp only [aliveIter, Bool.or_eq_true] at h
      exact .root h
    | succ n ih =>
      rw [aliveIter_succ'] at h
      rcases (aliveStep_true_iff nodes).1 h with h | ⟨c, hc, h1, h2⟩
      · exact ih h
      · exact .up (ih h1) hc h2
  · intro h
    induction h with
    | root h => exact alive_of_root nodes h
    | up _ hc hk ih => exact alive_closed nodes hc ih hk

/-- liveness only depends on `upstreams` / `emit_on` -/
theorem alive_congr {L : Live} {S S' : State} (h : ∀ c i, keeps (S'.loc c) i = keeps (S.loc c) i) :
    alive nodes L S' = alive nodes L S := by
  funext i
  rw [Bool.eq_iff_iff]
  exact ⟨aliveIter_mono nodes _ (fun _ h => h) (fun c j hk => by rw [← h]; exact hk),
         aliveIter_mono nodes _ (fun _ h => h) (fun c j hk => by rw [h]; exact hk)⟩

/-- fewer roots, fewer kept links: fewer alive nodes -/
theorem alive_mono {L L' : Live} {S S' : State}
    (hL : ∀ i, (L.held i = true ∨ L.sinkReg i = true) → (L'.held i = true ∨ L'.sinkReg i = true))
    (hk : ∀ c i, keeps (S.loc c) i = true → keeps (S'.loc c) i = true) {i : NodeId}
    (h : alive nodes L S i = true) : alive nodes L' S' i = true :=
  aliveIter_mono nodes _ (fun j hj => by simpa using hL j (by simpa using hj)) hk h

end Liveness

/-! #### how liveness changes under the operations -/

section LiveOps
variable (nodes : List NodeId)

/-- connecting an alive `u` under `d` resurrects nothing -/
theorem alive_connect_le {L : Live} {S : State} {u d : NodeId} (hu : alive nodes L S u = true) {i : NodeId}
    (h : alive nodes L (connect G u d S) i = true) : alive nodes L S i = true := by
  refine aliveIter_le_closed nodes (S := connect G u d S) (B := alive nodes L S) ?_ _ ?_ h
  · intro j hj
    rcases (aliveStep_true_iff nodes).1 hj with hj | ⟨c, hc, h1, h2⟩
    · exact hj
    · rw [connect_loc] at h2
      split at h2
      · next hcd =>
        subst hcd
        rcases addUpstream_keeps h2 with h2 | h2
        · exact alive_closed nodes hc h1 h2
        · subst h2; exact hu
      · exact alive_closed nodes hc h1 h2
  · intro j hj
    exact alive_of_root nodes (by simpa using hj)

/-- ... and (on aligned states) kills nothing -/
theorem alive_connect_ge {L : Live} {S : State} (ha : Aligned G S) {u d : NodeId} {i : NodeId}
    (h : alive nodes L S i = true) : alive nodes L (connect G u d S) i = true := by
  refine alive_mono nodes (fun _ h => h) ?_ h
  intro c j hk
  rw [connect_loc]
  split
  · next hcd =>
    subst hcd
    rw [keeps_iff] at hk ⊢
    rw [addUpstream_ups]
    rcases hk with hk | hk
    · exact .inl (List.mem_append_left _ hk)
    · have hal := ha c
      cases hG : G c with
      | combineLatest eo =>
        rw [hG] at hal
        cases eo with
        | none =>
          have := hal.2 rfl
          rw [this] at hk
          exact .inl (List.mem_append_left _ hk)
        | some l => exact .inr hk
      | zip lits => exact .inr hk
      | _ => exact .inr hk
  · exact hk

theorem alive_disconnect_le {L : Live} {S : State} {u d : NodeId} (hok : (disconnect G u d S).err = none)
    {i : NodeId} (h : alive nodes L (disconnect G u d S).st i = true) : alive nodes L S i = true := by
  obtain ⟨s', md, hr, hloc⟩ := disconnect_ok_loc G hok
  refine alive_mono nodes (fun _ h => h) ?_ h
  intro c j hk
  rw [hloc] at hk
  split at hk
  · next hcd => subst hcd; exact removeUpstream_keeps hr hk
  · exact hk

theorem alive_emitAt {L : Live} {S : State} (f : Nat) (n : NodeId) (v : Val) (md : Meta) :
    alive nodes L (emitAt G f n v md S).st = alive nodes L S :=
  alive_congr nodes (fun c i => by
    have := emitAt_ups G f n v md S c
    unfold keeps; rw [this.1, this.2])

theorem alive_collect {L : Live} {S : State} (nodes' : List NodeId) (L' : Live) :
    alive nodes L (collect nodes' L' S) = alive nodes L S := alive_congr nodes (fun _ _ => rfl)

end LiveOps

/-- On consistent, aligned states `u.disconnect(d)` either succeeds or is the `KeyError` no-op for a missing edge. -/
theorem disconnect_cases {A : NodeId → Prop} {S : State} (ha : Aligned G S) (hl : Links A S) (u d : NodeId) :
    (disconnect G u d S).err = none ∨
      ((disconnect G u d S).st = S ∧ (disconnect G u d S).err = some .keyError ∧ d ∉ S.downs u) := by
  by_cases hd : d ∈ S.downs u
  · exact .inl (disconnect_ok_of_edge G ha hl hd)
  · have := disconnect_absent G hd
    exact .inr ⟨this.1, this.2.1, hd⟩

/-- `destroy`, successful or not: anything that successful disconnects preserve (together with consistency and
alignment) is preserved. -/
theorem destroyLoop_inv_any {A : NodeId → Prop} (P : State → Prop) (d : NodeId)
    (hstep : ∀ u S, Links A S → Aligned G S → P S → (disconnect G u d S).err = none → P (disconnect G u d S).st)
    (us : List NodeId) (S : State) (hl : Links A S) (ha : Aligned G S) (hP : P S) :
    Links A (destroyLoop G us d S).st ∧ Aligned G (destroyLoop G us d S).st ∧ P (destroyLoop G us d S).st := by
  induction us generalizing S with
  | nil => exact ⟨hl, ha, hP⟩
  | cons u us ih =>
    simp only [destroyLoop]
    rcases disconnect_cases G ha hl u d with he | ⟨hst, he, _⟩
    · rw [he]
      exact ih _ (hl.of_disconnect G he) (ha.of_disconnect G hl he) (hstep u S hl ha hP he)
    · rw [he]
      simp only []
      rw [hst]
      exact ⟨hl, ha, hP⟩

/-! ### F. histories -/

def isSinkKind : Kind → Bool
  | .sink _ => true
  | _ => false

/-- what a program does to a pipeline -/
inductive Op
  | connect (u d : NodeId)
  | disconnect (u d : NodeId)
  | destroy (d : NodeId)
  | drop (i : NodeId)                                   -- the program forgets its reference to `i`
  | emit (fuel : Nat) (n : NodeId) (v : Val) (md : Meta)

/-- pipeline state + which nodes the program holds / which sinks are registered in `_global_sinks` -/
structure HState where
  S : State
  L : Live

def unhold (L : Live) (i : NodeId) : Live := { L with held := fun q => if q = i then false else L.held q }
def unregister (L : Live) (i : NodeId) : Live :=
  { L with sinkReg := fun q => if q = i then false else L.sinkReg q }

variable (nodes : List NodeId)

/-- after anything that can change liveness the collector runs (CPython: immediately, by reference counting) -/
def gc (h : HState) : HState := { h with S := collect nodes h.L h.S }

/-- one operation, exceptions included (a failed edit leaves whatever it had done so far); the same steps the
correspondence driver `Drivers/Graph.lean` takes -/
def stepOp : Op → HState → HState
  | .connect u d, h => { h with S := connect G u d h.S }
  | .disconnect u d, h => gc nodes { h with S := (disconnect G u d h.S).st }
  | .destroy d, h =>
    let r := destroy G d h.S
    -- Sink.destroy: super().destroy(); _global_sinks.remove(self)
    gc nodes { S := r.st, L := if r.err.isNone && isSinkKind (G d) then unregister h.L d else h.L }
  | .drop i, h => gc nodes { h with L := unhold h.L i }
  | .emit f n v md, h => { h with S := (emitAt G f n v md h.S).st }

def runOps : List Op → HState → HState
  | [], h => h
  | op :: ops, h => runOps ops (stepOp G nodes op h)

/-- the program connects only streams it holds, and never creates a parallel edge -/
def OpOk (op : Op) (h : HState) : Prop :=
  match op with
  | .connect u d => h.L.held u = true ∧ h.L.held d = true ∧ d ∉ h.S.downs u ∧ u ∉ (h.S.loc d).ups
  | _ => True

def ValidHist : List Op → HState → Prop
  | [], _ => True
  | op :: ops, h => OpOk op h ∧ ValidHist ops (stepOp G nodes op h)

/-- the invariant of histories -/
structure HInv (h : HState) : Prop where
  links : Links (fun d => alive nodes h.L h.S d = true ∧ ¬ BoundedSlice (G d)) h.S
  aligned : Aligned G h.S
  downsAlive : ∀ u d, d ∈ h.S.downs u → alive nodes h.L h.S d = true

theorem HInv.of_gc {A : NodeId → Prop} {S : State} {L : Live} (hl : Links A S) (ha : Aligned G S)
    (hA : ∀ d, alive nodes L S d = true → ¬ BoundedSlice (G d) → A d) : HInv G nodes (gc nodes { S := S, L := L }) where
  links := by
    have := hl.of_collect nodes L
    refine this.mono (fun d hd => ?_)
    simp only [gc, alive_collect] at hd
    exact ⟨hA d hd.1 hd.2, hd.1⟩
  aligned := ha
  downsAlive u d hd := by
    simp only [gc, alive_collect] at hd ⊢
    rw [collect_downs] at hd
    exact (List.mem_filter.1 hd).2

theorem unhold_le (L : Live) (i j : NodeId)
    (h : (unhold L i).held j = true ∨ (unhold L i).sinkReg j = true) : L.held j = true ∨ L.sinkReg j = true := by
  simp only [unhold] at h
  rcases h with h | h
  · split at h
    · cases h
    · exact .inl h
  · exact .inr h

theorem unregister_le (L : Live) (i j : NodeId)
    (h : (unregister L i).held j = true ∨ (unregister L i).sinkReg j = true) :
    L.held j = true ∨ L.sinkReg j = true := by
  simp only [unregister] at h
  rcases h with h | h
  · exact .inl h
  · split at h
    · cases h
    · exact .inr h

/-- **The history invariant is preserved by every operation** (failed edits included). -/
theorem HInv.step {h : HState} (hi : HInv G nodes h) (op : Op) (hok : OpOk op h) :
    HInv G nodes (stepOp G nodes op h) := by
  obtain ⟨S, L⟩ := h
  cases op with
  | connect u d =>
    obtain ⟨hu, hd, h1, h2⟩ := hok
    have hau : alive nodes L S u = true := alive_of_root nodes (.inl hu)
    have had : alive nodes L S d = true := alive_of_root nodes (.inl hd)
    refine ⟨?_, hi.aligned.of_connect G h2, ?_⟩
    · exact (hi.links.of_connect G h1 h2).mono (fun x hx => ⟨alive_connect_le G nodes hau hx.1, hx.2⟩)
    · intro w x hx
      simp only [stepOp] at hx ⊢
      rw [connect_downs_new G h1] at hx
      apply alive_connect_ge G nodes hi.aligned
      split at hx
      · rcases List.mem_append.1 hx with hx | hx
        · exact hi.downsAlive _ _ hx
        · rw [List.mem_singleton] at hx; subst hx; exact had
      · exact hi.downsAlive _ _ hx
  | disconnect u d =>
    simp only [stepOp]
    rcases disconnect_cases G hi.aligned hi.links u d with he | ⟨hst, _, _⟩
    · exact HInv.of_gc G nodes (hi.links.of_disconnect G he) (hi.aligned.of_disconnect G hi.links he)
        (fun x hx hb => ⟨alive_disconnect_le G nodes he hx, hb⟩)
    · rw [hst]
      exact HInv.of_gc G nodes hi.links hi.aligned (fun x hx hb => ⟨hx, hb⟩)
  | destroy d =>
    simp only [stepOp]
    obtain ⟨hl, ha, hP⟩ := destroyLoop_inv_any G (fun S' => ∀ i, alive nodes L S' i = true → alive nodes L S i = true) d
      (fun u S1 _ _ hP he i hi' => hP i (alive_disconnect_le G nodes he hi')) (S.loc d).ups S hi.links hi.aligned
      (fun _ h => h)
    refine HInv.of_gc G nodes hl ha (fun x hx hb => ⟨hP x ?_, hb⟩)
    refine alive_mono nodes ?_ (fun _ _ hk => hk) hx
    intro j hj
    split at hj
    · exact unregister_le L d j hj
    · exact hj
  | drop i =>
    simp only [stepOp]
    exact HInv.of_gc G nodes hi.links hi.aligned
      (fun x hx hb => ⟨alive_mono nodes (unhold_le L i) (fun _ _ hk => hk) hx, hb⟩)
  | emit f n v md =>
    refine ⟨?_, hi.aligned.of_emitAt G hi.links.nodupUps f n v md, ?_⟩
    · simp only [stepOp]
      refine (hi.links.of_emitAt G f n v md).mono (fun x hx => ?_)
      rw [alive_emitAt] at hx
      exact ⟨hx, hx.2⟩
    · intro w x hx
      simp only [stepOp] at hx ⊢
      rw [alive_emitAt]
      exact hi.downsAlive w x ((interp_downs_sublist G f (.emit n v md) S w).subset hx)

/-- no operation makes a dead node alive again -/
theorem alive_step_le {h : HState} (hi : HInv G nodes h) (op : Op) (hok : OpOk op h) {i : NodeId}
    (hal : alive nodes (stepOp G nodes op h).L (stepOp G nodes op h).S i = true) : alive nodes h.L h.S i = true := by
  obtain ⟨S, L⟩ := h
  cases op with
  | connect u d => exact alive_connect_le G nodes (alive_of_root nodes (.inl hok.1)) hal
  | disconnect u d =>
    simp only [stepOp, gc, alive_collect] at hal
    rcases disconnect_cases G hi.aligned hi.links u d with he | ⟨hst, _, _⟩
    · exact alive_disconnect_le G nodes he hal
    · rw [hst] at hal; exact hal
  | destroy d =>
    simp only [stepOp, gc, alive_collect] at hal
    obtain ⟨_, _, hP⟩ := destroyLoop_inv_any G (fun S' => ∀ i, alive nodes L S' i = true → alive nodes L S i = true) d
      (fun u S1 _ _ hP he i hi' => hP i (alive_disconnect_le G nodes he hi')) (S.loc d).ups S hi.links hi.aligned
      (fun _ h => h)
    refine hP i (alive_mono nodes ?_ (fun _ _ hk => hk) hal)
    intro j hj
    split at hj
    · exact unregister_le L d j hj
    · exact hj
  | drop j =>
    simp only [stepOp, gc, alive_collect] at hal
    exact alive_mono nodes (unhold_le L j) (fun _ _ hk => hk) hal
  | emit f n v md =>
    simp only [stepOp] at hal
    rw [alive_emitAt] at hal
    exact hal

theorem HInv.run {ops : List Op} {h : HState} (hi : HInv G nodes h) (hv : ValidHist G nodes ops h) :
    HInv G nodes (runOps G nodes ops h) := by
  induction ops generalizing h with
  | nil => exact hi
  | cons op ops ih => exact ih (hi.step G nodes op hv.1) hv.2

/-- a consistent, aligned pipeline all of whose attached nodes are alive satisfies the invariant -/
theorem HInv.init {h : HState} (hc : Consistent h.S) (ha : Aligned G h.S)
    (hd : ∀ u d, d ∈ h.S.downs u → alive nodes h.L h.S d = true) : HInv G nodes h :=
  ⟨hc.mono (fun _ _ => trivial), ha, hd⟩

/-! #### acyclicity along histories -/

theorem dropUpstream_downs (u d : NodeId) (S : State) : (dropUpstream G u d S).st.downs = S.downs := by
  unfold dropUpstream
  split
  · rfl
  · simp

/-- `disconnect`, successful or not, only removes from downstream lists -/
theorem disconnect_downs_sublist (u d : NodeId) (S : State) (x : NodeId) :
    ((disconnect G u d S).st.downs x).Sublist (S.downs x) := by
  unfold disconnect
  split
  · rw [dropUpstream_downs]
    simp only [State.setDowns]
    split
    · next h => subst h; exact List.erase_sublist
    · exact List.Sublist.refl _
  · exact List.Sublist.refl _

theorem destroyLoop_downs_sublist (us : List NodeId) (d : NodeId) (S : State) (x : NodeId) :
    ((destroyLoop G us d S).st.downs x).Sublist (S.downs x) := by
  induction us generalizing S with
  | nil => exact List.Sublist.refl _
  | cons u us ih =>
    simp only [destroyLoop]
    split
    · exact disconnect_downs_sublist G u d S x
    · exact (ih _).trans (disconnect_downs_sublist G u d S x)

/-- the program only connects a stream to a later-created one (what the fluent API does) -/
def OpDag (op : Op) : Prop :=
  match op with
  | .connect u d => u < d
  | _ => True

theorem acyclic_step {h : HState} (hA : Acyclic h.S) (op : Op) (hd : OpDag op) :
    Acyclic (stepOp G nodes op h).S := by
  cases op with
  | connect u d =>
    intro w x hx
    simp only [stepOp] at hx
    rw [connect_downs] at hx
    split at hx
    · next hw =>
      subst hw
      split at hx
      · exact hA _ _ hx
      · rcases List.mem_append.1 hx with hx | hx
        · exact hA _ _ hx
        · rw [List.mem_singleton] at hx; subst hx; exact hd
    · exact hA _ _ hx
  | disconnect u d =>
    exact hA.of_sublist (fun x => List.filter_sublist.trans (disconnect_downs_sublist G u d h.S x))
  | destroy d =>
    exact hA.of_sublist (fun x => List.filter_sublist.trans (destroyLoop_downs_sublist G _ d h.S x))
  | drop i => exact hA.of_sublist (fun x => List.filter_sublist)
  | emit f n v md => exact hA.of_sublist (interp_downs_sublist G f (.emit n v md) h.S)

theorem acyclic_runOps {ops : List Op} {h : HState} (hA : Acyclic h.S) (hd : ∀ op ∈ ops, OpDag op) :
    Acyclic (runOps G nodes ops h).S := by
  induction ops generalizing h with
  | nil => exact hA
  | cons op ops ih =>
    exact ih (acyclic_step G nodes hA op (hd op (List.mem_cons_self ..))) (fun o ho => hd o (List.mem_cons_of_mem _ ho))

/-! #### the initial state of the correspondence driver -/

/-- `Drivers/Graph.lean`'s `initState`, restated: node `i` is of kind `kinds[i]` with upstream list `upss[i]` -/
def initState (kinds : List Kind) (upss : List (List NodeId)) : State :=
  let idx := List.range kinds.length
  let loc0 : NodeId → NState := fun i =>
    let ups := upss.getD i []
    match kinds.getD i .source with
    | .zip _ => { ups := ups, bufs := ups.eraseDups.map (fun u => (u, [])) }
    | .combineLatest eo =>
      { ups := ups, last := ups.map (fun _ => Val.none), lastMd := ups.map (fun _ => []),
        missing := ups.eraseDups, emitOn := match eo with | none => ups | some l => l.filterMap (fun k => ups[k]?) }
    | .zipLatest =>
      { ups := ups, last := ups.map (fun _ => Val.none), lastMd := ups.map (fun _ => []), missing := ups.eraseDups }
    | .accumulate _ start _ _ => { ups := ups, acc := start }
    | _ => { ups := ups }
  let downs0 : NodeId → List NodeId := fun u =>
    (idx.filter (fun i => (upss.getD i []).contains u))
  { loc := loc0, downs := downs0 }

theorem eraseDups_of_nodup {l : List NodeId} (h : l.Nodup) : l.eraseDups = l := by
  induction l with
  | nil => simp
  | cons a l ih =>
    have hn := List.nodup_cons.1 h
    rw [List.eraseDups_cons]
    have : l.filter (fun b => !b == a) = l := by
      rw [List.filter_eq_self]
      intro b hb
      have : b ≠ a := fun e => hn.1 (e ▸ hb)
      simpa using this
    rw [this, ih hn.2]

theorem initState_ups (kinds : List Kind) (upss : List (List NodeId)) (i : NodeId) :
    ((initState kinds upss).loc i).ups = upss.getD i [] := by
  simp only [initState]
  split <;> rfl

theorem initState_downs (kinds : List Kind) (upss : List (List NodeId)) (u d : NodeId) :
    d ∈ (initState kinds upss).downs u ↔ d < kinds.length ∧ u ∈ upss.getD d [] := by
  simp only [initState, List.mem_filter, List.mem_range, List.contains_iff_mem]

theorem initState_consistent {kinds : List Kind} {upss : List (List NodeId)} (hlen : upss.length ≤ kinds.length)
    (hnd : ∀ l ∈ upss, l.Nodup) : Consistent (initState kinds upss) where
  fwd u d hd := by rw [initState_ups]; exact ((initState_downs ..).1 hd).2
  bwd u d _ hu := by
    rw [initState_ups] at hu
    rw [initState_downs]
    refine ⟨?_, hu⟩
    apply Classical.byContradiction
    intro hge
    have : upss.getD d [] = [] := by
      have h1 : kinds.length ≤ d := Nat.le_of_not_lt hge
      rw [List.getD_eq_getElem?_getD, List.getElem?_eq_none (Nat.le_trans hlen h1)]; rfl
    rw [this] at hu; cases hu
  nodupDowns u := List.filter_sublist.nodup List.nodup_range
  nodupUps d := by
    rw [initState_ups, List.getD_eq_getElem?_getD]
    cases h : upss[d]? with
    | none => simp
    | some l => exact hnd l (List.mem_of_getElem? h)

theorem initState_aligned {kinds : List Kind} {upss : List (List NodeId)} (hnd : ∀ l ∈ upss, l.Nodup) :
    Aligned (fun i => kinds.getD i .source) (initState kinds upss) := by
  intro i
  have hn : (upss.getD i []).Nodup := by
    rw [List.getD_eq_getElem?_getD]
    cases h : upss[i]? with
    | none => simp
    | some l => exact hnd l (List.mem_of_getElem? h)
  simp only [initState]
  cases hk : kinds.getD i .source with
  | zip lits =>
    simp only [NodeAligned, ZipAligned, eraseDups_of_nodup hn, List.map_map]
    simp [Function.comp_def]
  | combineLatest eo =>
    simp only [NodeAligned, eraseDups_of_nodup hn]
    refine ⟨⟨⟨fun _ => Val.none, fun _ => [], fun _ => true⟩, rfl, rfl, ?_⟩, fun e => ?_⟩
    · exact (List.filter_eq_self.2 (fun _ _ => rfl)).symm
    · subst e; rfl
  | _ => trivial

/-! #### small facts used by the property file -/

/-- the node `zip.__init__` builds over the current upstream list: one empty deque per upstream -/
def zipFresh (s : NState) : NState := { s with bufs := s.ups.map (fun w => (w, [])) }

theorem zipFresh_rep (s : NState) : ZipRep (zipFresh s) (fun _ => []) := rfl

/-- an arrival in the log of a successful `_emit` went along an edge of the start topology -/
theorem arrival_edge {fuel : Nat} {n : NodeId} {v : Val} {md : Meta} {S : State} (hA : Acyclic S)
    (he : (emitAt G fuel n v md S).err = none) (hc : (emitAt G fuel n v md S).carried = none)
    {d who : NodeId} {v' : Val} {md' : Meta} (h : Ev.arrive d who v' md' ∈ (emitAt G fuel n v md S).log) :
    d ∈ S.downs who := by
  have hr := run_of_ok G fuel (.emit n v md) S ⟨he, hc⟩
  have h1 := (run_edges_sub G hr hA who).subset (mem_arrivalsFrom.2 h)
  rw [List.mem_flatMap] at h1
  obtain ⟨e, _, h2⟩ := h1
  unfold fanout at h2
  rw [List.mem_map] at h2
  obtain ⟨d', hd', heq⟩ := h2
  have : d' = d := congrArg Prod.fst heq
  rw [← this]; exact hd'

theorem emit_snapshot {fuel : Nat} {n : NodeId} {v : Val} {md : Meta} {S : State} (hA : Acyclic S)
    (he : (emitAt G fuel n v md S).err = none) (hc : (emitAt G fuel n v md S).carried = none) :
    arrivalsFrom n (emitAt G fuel n v md S).log = (S.downs n).map (fun d => (d, v, md)) :=
  run_deliv G (run_of_ok G fuel (.emit n v md) S ⟨he, hc⟩) hA

/-- what a successful `destroy` leaves of every downstream list -/
theorem destroy_downs {A : NodeId → Prop} {S : State} (hl : Links A S) {d : NodeId}
    (hok : (destroy G d S).err = none) (x : NodeId) : (destroy G d S).st.downs x = (S.downs x).erase d := by
  have key := destroyLoop_inv G
    (fun S' => Links A S' ∧ ∀ x, (S'.downs x).erase d = (S.downs x).erase d) d
    (fun u S1 hP he => ⟨hP.1.of_disconnect G he, fun x => by
      rw [disconnect_ok_downs G he, ← hP.2 x]
      split
      · next hx =>
        subst hx
        exact List.erase_of_not_mem (hP.1.nodupDowns x).not_mem_erase
      · rfl⟩) (S.loc d).ups S ⟨hl, fun _ => rfl⟩ hok
  have hiso := (hl.of_destroy_isolated G hok).2 x
  rw [← key.2 x]
  exact (List.erase_of_not_mem hiso).symm

theorem sinkReg_stepOp (op : Op) (h : HState) (d : NodeId) (hne : op ≠ .destroy d) :
    (stepOp G nodes op h).L.sinkReg d = h.L.sinkReg d := by
  cases op with
  | destroy d' =>
    simp only [stepOp, gc]
    split
    · simp only [unregister]
      rw [if_neg]
      intro e; subst e; exact hne rfl
    · rfl
  | _ => rfl

theorem sinkReg_runOps (ops : List Op) (h : HState) (d : NodeId) (hne : Op.destroy d ∉ ops) :
    (runOps G nodes ops h).L.sinkReg d = h.L.sinkReg d := by
  induction ops generalizing h with
  | nil => rfl
  | cons op ops ih =>
    simp only [runOps]
    rw [ih _ (fun hm => hne (List.mem_cons_of_mem _ hm))]
    exact sinkReg_stepOp G nodes op h d (fun e => hne (e ▸ List.mem_cons_self ..))

end StreamzVerif.Graph.Edit
