import StreamzVerif.Model.Rolling
/-! Helper lemmas for `Props/C11.lean`. -/
namespace StreamzVerif.Rolling

/-! ### runAcc -/
section
variable {σ β γ : Type}

theorem runAcc_append (step : σ → β → σ × γ) (s : σ) (l m : List β) :
    runAcc step s (l ++ m) =
      ((runAcc step (runAcc step s l).1 m).1, (runAcc step s l).2 ++ (runAcc step (runAcc step s l).1 m).2) := by
  induction l generalizing s with
  | nil => simp [runAcc]
  | cons b bs ih => simp [runAcc, ih]

theorem runAcc_length (step : σ → β → σ × γ) (s : σ) (l : List β) :
    (runAcc step s l).2.length = l.length := by
  induction l generalizing s with
  | nil => simp [runAcc]
  | cons b bs ih => simp [runAcc, ih]
end

/-! ### lastN -/
section
variable {α : Type}

theorem lastN_length (n : Nat) (l : List α) : (lastN n l).length = min n l.length := by
  simp [lastN]; omega

theorem lastN_append_lastN (n : Nat) (l p : List α) : lastN n (lastN n l ++ p) = lastN n (l ++ p) := by
  simp only [lastN, List.length_append, List.length_drop, List.drop_append, List.drop_drop]
  congr 1
  · congr 1; omega
  · congr 1; omega

theorem mem_lastN {n : Nat} {l : List α} {x : α} (h : x ∈ lastN n l) : x ∈ l :=
  List.mem_of_mem_drop h
end

/-! ### rolling -/
section
variable {α β : Type}

theorem rollFrom_length (sel : List α → List α) (agg : List α → β) (pre xs : List α) :
    (rollFrom sel agg pre xs).length = xs.length := by
  induction xs generalizing pre with
  | nil => simp [rollFrom]
  | cons x xs ih => simp [rollFrom, ih]

theorem rollFrom_append (sel : List α → List α) (agg : List α → β) (pre a b : List α) :
    rollFrom sel agg pre (a ++ b) = rollFrom sel agg pre a ++ rollFrom sel agg (pre ++ a) b := by
  induction a generalizing pre with
  | nil => simp [rollFrom]
  | cons x xs ih => simp [rollFrom, ih]

/-- Dropping the rows of `a` from the one-pass result over `a ++ b` leaves the one-pass
result over `b` continued after `a`. -/
theorem rollWhole_drop (sel : List α → List α) (agg : List α → β) (a b : List α) :
    (rollWhole sel agg (a ++ b)).drop a.length = rollFrom sel agg a b := by
  unfold rollWhole
  rw [rollFrom_append]
  have : a.length = (rollFrom sel agg [] a).length := (rollFrom_length sel agg [] a).symm
  rw [this, List.drop_left]
  simp

/-- Locality: the continuation over `b` only looks at `sel (pre ++ p)` for the non-empty
prefixes `p` of `b`. -/
theorem rollFrom_congr (sel : List α → List α) (agg : List α → β) (b : List α) :
    ∀ d c : List α, (∀ p s, p ≠ [] → b = p ++ s → sel (d ++ p) = sel (c ++ p)) →
      rollFrom sel agg d b = rollFrom sel agg c b := by
  induction b with
  | nil => intros; simp [rollFrom]
  | cons x xs ih =>
    intro d c h
    simp only [rollFrom]
    rw [h [x] xs (by simp) (by simp)]
    congr 1
    apply ih
    intro p s hp hs
    have := h (x :: p) s (by simp) (by simp [hs])
    simpa using this
end


/-! ### the rolling accumulator against one pass, generically in the window selector -/
section
variable {α β : Type}

/-- One-pass result cut at the batch boundaries: for every batch the one-pass values at its rows
(`rollFrom sel agg d b = (rollWhole sel agg (d ++ b)).drop d.length`, see `rollWhole_drop`). -/
def rollBatches (sel : List α → List α) (agg : List α → β) (d : List α) : List (List α) → List (List β)
  | [] => []
  | b :: bs => rollFrom sel agg d b :: rollBatches sel agg (d ++ b) bs

theorem rollBatches_flatten (sel : List α → List α) (agg : List α → β) (d : List α) (bs : List (List α)) :
    (rollBatches sel agg d bs).flatten = rollFrom sel agg d bs.flatten := by
  induction bs generalizing d with
  | nil => simp [rollBatches, rollFrom]
  | cons b bs ih => simp [rollBatches, ih, rollFrom_append]

/-- The carried rows `acc` stand in for all the data `d` seen so far: every later window is the
same whether computed after `d` or after `acc` (for tables satisfying `ok`), and `acc` is made of rows of `d`. -/
def Covers (sel : List α → List α) (ok : List α → Prop) (d acc : List α) : Prop :=
  (∀ p, p ≠ [] → ok (d ++ p) → sel (d ++ p) = sel (acc ++ p)) ∧ ∀ x ∈ acc, x ∈ d

theorem rollStep_out (sel carry : List α → List α) (agg : List α → β) (ok : List α → Prop)
    (hpre : ∀ l m, ok (l ++ m) → ok l) (d acc b : List α) (hc : Covers sel ok d acc) (hok : ok (d ++ b)) :
    (rollStep sel carry agg acc b).2 = rollFrom sel agg d b := by
  simp only [rollStep]
  rw [rollWhole_drop]
  apply rollFrom_congr
  intro p s hp hs
  refine (hc.1 p hp (hpre _ s ?_)).symm
  rw [List.append_assoc, ← hs]; exact hok

theorem runAcc_roll (sel carry : List α → List α) (agg : List α → β) (ok : List α → Prop)
    (hpre : ∀ l m, ok (l ++ m) → ok l)
    (hcarry : ∀ d acc b, Covers sel ok d acc → ok (d ++ b) → Covers sel ok (d ++ b) (carry (acc ++ b))) :
    ∀ (bs : List (List α)) (d acc : List α), Covers sel ok d acc → ok (d ++ bs.flatten) →
      (runAcc (rollStep sel carry agg) acc bs).2 = rollBatches sel agg d bs ∧
      Covers sel ok (d ++ bs.flatten) (runAcc (rollStep sel carry agg) acc bs).1 := by
  intro bs
  induction bs with
  | nil => intro d acc hc _; simpa [runAcc, rollBatches] using hc
  | cons b bs ih =>
    intro d acc hc hok
    have hok1 : ok (d ++ b) := hpre _ bs.flatten (by simpa using hok)
    have h1 := rollStep_out sel carry agg ok hpre d acc b hc hok1
    have hc' := hcarry d acc b hc hok1
    have := ih (d ++ b) (carry (acc ++ b)) hc' (by simpa using hok)
    simp only [runAcc, rollBatches, List.flatten_cons]
    rw [h1]
    have hst : (rollStep sel carry agg acc b).1 = carry (acc ++ b) := rfl
    rw [hst, this.1]
    exact ⟨rfl, by simpa using this.2⟩

theorem covers_nil (sel : List α → List α) (ok : List α → Prop) : Covers sel ok [] [] :=
  ⟨fun _ _ _ => rfl, fun _ h => h⟩

/-- row-count windows -/
theorem carryCount_covers (W : Nat) (d acc b : List α)
    (hc : Covers (selCount W) (fun _ => True) d acc) :
    Covers (selCount W) (fun _ => True) (d ++ b) (carryCount W (acc ++ b)) := by
  constructor
  · intro p hp _
    have h := hc.1 (b ++ p) (by simp [hp]) trivial
    simp only [selCount, List.append_assoc] at h ⊢
    rw [h]
    unfold carryCount
    split
    · simp
    · rw [lastN_append_lastN]; simp
  · intro x hx
    have hx' : x ∈ acc ++ b := by
      unfold carryCount at hx
      split at hx
      · exact hx
      · exact mem_lastN hx
    rcases List.mem_append.mp hx' with h | h
    · exact List.mem_append_left _ (hc.2 x h)
    · exact List.mem_append_right _ h

/-- time windows -/
def Sorted (time : α → Int) (l : List α) : Prop := l.Pairwise (fun a b => time a ≤ time b)

theorem sorted_prefix (time : α → Int) (l m : List α) (h : Sorted time (l ++ m)) : Sorted time l :=
  (List.pairwise_append.mp h).1

theorem maxTime_none (time : α → Int) (l : List α) (h : maxTime time l = none) : l = [] := by
  cases l with
  | nil => rfl
  | cons x xs => simp only [maxTime] at h; split at h <;> simp at h

theorem maxTime_attained (time : α → Int) (l : List α) (m : Int) (h : maxTime time l = some m) :
    ∃ x ∈ l, time x = m := by
  induction l generalizing m with
  | nil => simp [maxTime] at h
  | cons x xs ih =>
    simp only [maxTime] at h
    split at h
    · simp at h; exact ⟨x, by simp, h⟩
    · next m' hm' =>
      simp at h
      obtain ⟨y, hy, hym⟩ := ih m' hm'
      by_cases hle : time x ≤ m'
      · exact ⟨y, by simp [hy], by omega⟩
      · exact ⟨x, by simp, by omega⟩

theorem selTime_append (time : α → Int) (W : Int) (l p : List α) (r : α) (hr : p.getLast? = some r) :
    selTime time W (l ++ p) =
      l.filter (fun x => decide (time r - W < time x)) ++ p.filter (fun x => decide (time r - W < time x)) := by
  simp [selTime, List.getLast?_append, hr]

theorem carryTime_covers (time : α → Int) (W : Int) (d acc b : List α)
    (hc : Covers (selTime time W) (Sorted time) d acc) (_hok : Sorted time (d ++ b)) :
    Covers (selTime time W) (Sorted time) (d ++ b) (carryTime time W (acc ++ b)) := by
  constructor
  · intro p hp hs
    have h := hc.1 (b ++ p) (by simp [hp]) (by simpa using hs)
    rw [List.append_assoc, h, ← List.append_assoc]
    obtain ⟨r, hr⟩ : ∃ r, p.getLast? = some r := by
      cases hl : p.getLast? with
      | none => exact absurd (List.getLast?_eq_none_iff.mp hl) hp
      | some r => exact ⟨r, rfl⟩
    rw [selTime_append time W _ p r hr, selTime_append time W _ p r hr]
    congr 1
    unfold carryTime
    split
    · rfl
    · next mx hmx =>
      rw [List.filter_filter]
      apply List.filter_congr
      intro x _
      obtain ⟨y, hy, hym⟩ := maxTime_attained time _ mx hmx
      have hyd : y ∈ d ++ b := by
        rcases List.mem_append.mp hy with h | h
        · exact List.mem_append_left _ (hc.2 y h)
        · exact List.mem_append_right _ h
      have hrp : r ∈ p := List.mem_of_getLast? hr
      have hle : time y ≤ time r := (List.pairwise_append.mp hs).2.2 y hyd r hrp
      by_cases hx : time r - W < time x
      · have : mx - W ≤ time x := by omega
        simp [hx, this]
      · simp [hx]
  · intro x hx
    have hx' : x ∈ acc ++ b := by
      unfold carryTime at hx
      split at hx
      · exact hx
      · exact (List.mem_filter.mp hx).1
    rcases List.mem_append.mp hx' with h | h
    · exact List.mem_append_left _ (hc.2 x h)
    · exact List.mem_append_right _ h
end


/-! ### cumulative aggregations -/
section
variable {α : Type}

theorem cumFrom_length (f : α → α → α) (run : Option α) (xs : List (Option α)) :
    (cumFrom f run xs).length = xs.length := by
  induction xs generalizing run with
  | nil => simp [cumFrom]
  | cons x xs ih => cases x <;> simp [cumFrom, ih]

theorem cumFrom_append (f : α → α → α) (run : Option α) (a b : List (Option α)) :
    cumFrom f run (a ++ b) = cumFrom f run a ++ cumFrom f (runVal f run a) b := by
  induction a generalizing run with
  | nil => simp [cumFrom, runVal]
  | cons x xs ih => cases x <;> simp [cumFrom, runVal, ih]

theorem runVal_append (f : α → α → α) (run : Option α) (a b : List (Option α)) :
    runVal f run (a ++ b) = runVal f (runVal f run a) b := by
  induction a generalizing run with
  | nil => simp [runVal]
  | cons x xs ih => cases x <;> simp [runVal, ih]

/-- Seeding with the carried row: `op([r] ++ new) = [r] ++ (op continued from r)(new)`. -/
theorem cumWhole_seed (f : α → α → α) (r : Option α) (new : List (Option α)) :
    cumWhole f (r :: new) = r :: cumFrom f r new := by
  cases r <;> simp [cumWhole, cumFrom]

theorem ffillFrom_length (last : Option α) (xs : List (Option α)) : (ffillFrom last xs).length = xs.length := by
  induction xs generalizing last with
  | nil => simp [ffillFrom]
  | cons x xs ih => cases x <;> simp [ffillFrom, ih]

theorem lastRow_cons {γ : Type} (a : γ) (l : List γ) (h : l ≠ []) : lastRow (a :: l) = lastRow l := by
  cases l with
  | nil => exact absurd rfl h
  | cons b l => simp [lastRow, List.getLast?_cons_cons]

theorem ne_nil_of_length {γ δ : Type} {l : List γ} {m : List δ} (h : l.length = m.length) (hm : m ≠ []) : l ≠ [] := by
  intro hl; subst hl
  cases m with
  | nil => exact hm rfl
  | cons _ _ => simp at h

/-- The last row of the forward-filled cumulative result is the running value. -/
theorem lastRow_ffill (f : α → α → α) (xs : List (Option α)) :
    ∀ run, xs ≠ [] → lastRow (ffillFrom run (cumFrom f run xs)) = [runVal f run xs] := by
  induction xs with
  | nil => intro _ h; exact absurd rfl h
  | cons x xs ih =>
    intro run _
    cases xs with
    | nil => cases x <;> simp [cumFrom, ffillFrom, runVal, lastRow]
    | cons y ys =>
      have hne : ∀ r, ffillFrom r (cumFrom f r (y :: ys)) ≠ [] := fun r =>
        ne_nil_of_length (m := y :: ys) (by rw [ffillFrom_length, cumFrom_length]) (by simp)
      cases x with
      | none =>
        simp only [cumFrom, ffillFrom, runVal]
        rw [lastRow_cons _ _ (hne _)]
        exact ih run (by simp)
      | some v =>
        simp only [cumFrom, ffillFrom, runVal]
        rw [lastRow_cons _ _ (hne _)]
        exact ih _ (by simp)

/-- When the batch ends in a valid value the plain last row is already the running value. -/
theorem lastRow_cum_valid (f : α → α → α) (xs : List (Option α)) :
    ∀ run v, xs.getLast? = some (some v) → lastRow (cumFrom f run xs) = [runVal f run xs] := by
  induction xs with
  | nil => intro _ _ h; simp at h
  | cons x xs ih =>
    intro run v hl
    cases xs with
    | nil =>
      simp at hl; subst hl
      simp [cumFrom, runVal, lastRow]
    | cons y ys =>
      have hne : ∀ r, cumFrom f r (y :: ys) ≠ [] := fun r =>
        ne_nil_of_length (m := y :: ys) (cumFrom_length _ _ _) (by simp)
      rw [List.getLast?_cons_cons] at hl
      cases x with
      | none =>
        simp only [cumFrom, runVal]
        rw [lastRow_cons _ _ (hne _)]
        exact ih run v hl
      | some w =>
        simp only [cumFrom, runVal]
        rw [lastRow_cons _ _ (hne _)]
        exact ih _ v hl

/-- One-pass result cut at the batch boundaries
(`cumFrom f (runVal f none d) b = (cumWhole f (d ++ b)).drop d.length`, see `cumWhole_drop`). -/
def cumBatches (f : α → α → α) (d : List (Option α)) : List (List (Option α)) → List (List (Option α))
  | [] => []
  | b :: bs => cumFrom f (runVal f none d) b :: cumBatches f (d ++ b) bs

theorem cumWhole_drop (f : α → α → α) (d b : List (Option α)) :
    (cumWhole f (d ++ b)).drop d.length = cumFrom f (runVal f none d) b := by
  unfold cumWhole
  rw [cumFrom_append]
  have : d.length = (cumFrom f none d).length := (cumFrom_length f none d).symm
  rw [this, List.drop_left]

theorem cumBatches_flatten (f : α → α → α) (d : List (Option α)) (bs : List (List (Option α))) :
    (cumBatches f d bs).flatten = cumFrom f (runVal f none d) bs.flatten := by
  induction bs generalizing d with
  | nil => simp [cumBatches, cumFrom]
  | cons b bs ih => simp [cumBatches, ih, cumFrom_append, runVal_append]

/-- The carried state is nothing before the first row, afterwards the one-row frame holding the running value. -/
def CumInv (f : α → α → α) (d state : List (Option α)) : Prop :=
  (d = [] ∧ state = []) ∨ state = [runVal f none d]

theorem cumStep_spec (f : α → α → α) (d state b : List (Option α)) (h : CumInv f d state) :
    (cumStep f state b).2 = cumFrom f (runVal f none d) b ∧ CumInv f (d ++ b) (cumStep f state b).1 := by
  unfold cumStep
  cases b with
  | nil => simpa [cumFrom] using h
  | cons x xs =>
    simp only [List.isEmpty_cons, Bool.false_eq_true, if_false]
    rcases h with ⟨hd, hs⟩ | hs
    · subst hd hs
      simp only [List.nil_append, List.isEmpty_nil, if_true, runVal]
      refine ⟨rfl, Or.inr ?_⟩
      exact lastRow_ffill f (x :: xs) none (by simp)
    · subst hs
      simp only [List.singleton_append, List.isEmpty_cons, Bool.false_eq_true, if_false]
      rw [cumWhole_seed]
      refine ⟨by simp, Or.inr ?_⟩
      have hne : ffillFrom (runVal f none d) (cumFrom f (runVal f none d) (x :: xs)) ≠ [] :=
        ne_nil_of_length (m := x :: xs) (by rw [ffillFrom_length, cumFrom_length]) (by simp)
      have : ffillFrom none (runVal f none d :: cumFrom f (runVal f none d) (x :: xs)) =
          runVal f none d :: ffillFrom (runVal f none d) (cumFrom f (runVal f none d) (x :: xs)) := by
        cases runVal f none d <;> simp [ffillFrom]
      rw [this, lastRow_cons _ _ hne, lastRow_ffill f (x :: xs) _ (by simp), runVal_append]

theorem runAcc_cum (f : α → α → α) (bs : List (List (Option α))) :
    ∀ d state, CumInv f d state →
      (runAcc (cumStep f) state bs).2 = cumBatches f d bs ∧
      CumInv f (d ++ bs.flatten) (runAcc (cumStep f) state bs).1 := by
  induction bs with
  | nil => intro d state h; simpa [runAcc, cumBatches] using h
  | cons b bs ih =>
    intro d state h
    have h1 := cumStep_spec f d state b h
    have := ih (d ++ b) _ h1.2
    simp only [runAcc, cumBatches, List.flatten_cons]
    rw [h1.1, this.1]
    exact ⟨rfl, by simpa using this.2⟩

/-- The unfixed accumulator is right as long as no non-empty batch ends in NaN. -/
theorem cumStepOrig_spec (f : α → α → α) (d state b : List (Option α)) (h : CumInv f d state)
    (hb : b.getLast? ≠ some none) :
    (cumStepOrig f state b).2 = cumFrom f (runVal f none d) b ∧ CumInv f (d ++ b) (cumStepOrig f state b).1 := by
  unfold cumStepOrig
  cases b with
  | nil => simpa [cumFrom] using h
  | cons x xs =>
    obtain ⟨v, hv⟩ : ∃ v, (x :: xs).getLast? = some (some v) := by
      cases hl : (x :: xs).getLast? with
      | none => simp at hl
      | some o =>
        cases o with
        | none => exact absurd hl hb
        | some v => exact ⟨v, rfl⟩
    simp only [List.isEmpty_cons, Bool.false_eq_true, if_false]
    rcases h with ⟨hd, hs⟩ | hs
    · subst hd hs
      simp only [List.nil_append, List.isEmpty_nil, if_true, runVal]
      exact ⟨rfl, Or.inr (lastRow_cum_valid f (x :: xs) none v hv)⟩
    · subst hs
      simp only [List.singleton_append, List.isEmpty_cons, Bool.false_eq_true, if_false]
      rw [cumWhole_seed]
      refine ⟨by simp, Or.inr ?_⟩
      have hne : cumFrom f (runVal f none d) (x :: xs) ≠ [] :=
        ne_nil_of_length (m := x :: xs) (cumFrom_length _ _ _) (by simp)
      rw [lastRow_cons _ _ hne, lastRow_cum_valid f (x :: xs) _ v hv, runVal_append]

theorem runAcc_cumOrig (f : α → α → α) (bs : List (List (Option α))) :
    ∀ d state, CumInv f d state → (∀ b ∈ bs, b.getLast? ≠ some none) →
      (runAcc (cumStepOrig f) state bs).2 = cumBatches f d bs := by
  induction bs with
  | nil => intro d state _ _; simp [runAcc, cumBatches]
  | cons b bs ih =>
    intro d state h hb
    have h1 := cumStepOrig_spec f d state b h (hb b (by simp))
    have := ih (d ++ b) _ h1.2 (fun b' hb' => hb b' (by simp [hb']))
    simp only [runAcc, cumBatches]
    rw [h1.1, this]
end


/-! ### expanding aggregations -/
section
variable {α σ ρ : Type}

theorem prefixes_length (d : List α) (bs : List (List α)) : (prefixes d bs).length = bs.length := by
  induction bs generalizing d with
  | nil => simp [prefixes]
  | cons b bs ih => simp [prefixes, ih]

/-- Before the first batch there is no state; afterwards `dfs` holds every row seen (`diff_expanding`
never drops anything) and the aggregation state is `rep` of those rows. -/
def ExpInv (rep : List α → σ) (d : List α) (acc : Option (List (List α) × σ)) : Prop :=
  (acc = none ∧ d = []) ∨ ∃ dfs, acc = some (dfs, rep d) ∧ dfs.flatten = d ∧ ∀ x ∈ dfs, x ≠ []

theorem expStep_spec (A : Agg α σ ρ) (rep : List α → σ) (val : List α → ρ)
    (h0 : rep [] = A.initial) (hstep : ∀ d b, A.onNew (rep d) b = (rep (d ++ b), val (d ++ b)))
    (d b : List α) (acc : Option (List (List α) × σ)) (h : ExpInv rep d acc) :
    (expStep A acc b).2 = val (d ++ b) ∧ ExpInv rep (d ++ b) (expStep A acc b).1 := by
  have key : ∀ dfs : List (List α), dfs.flatten = d → (∀ x ∈ dfs, x ≠ []) →
      (expStep A (some (dfs, rep d)) b).2 = val (d ++ b) ∧
        ExpInv rep (d ++ b) (expStep A (some (dfs, rep d)) b).1 := by
    intro dfs hf hne
    simp only [expStep, Option.getD_some, hstep]
    refine ⟨by first | trivial | rfl, Or.inr ⟨_, rfl, ?_, ?_⟩⟩
    · cases b with
      | nil => simpa using hf
      | cons x xs => simp [hf]
    · cases b with
      | nil => simpa using hne
      | cons x xs =>
        intro y hy
        simp only [List.isEmpty_cons, Bool.false_eq_true, if_false, List.mem_append, List.mem_singleton] at hy
        rcases hy with hy | hy
        · exact hne y hy
        · subst hy; simp
  rcases h with ⟨ha, hd⟩ | ⟨dfs, ha, hf, hne⟩
  · subst ha hd
    have := key [] rfl (by simp)
    simpa [expStep, h0] using this
  · subst ha
    exact key dfs hf hne

theorem runAcc_exp (A : Agg α σ ρ) (rep : List α → σ) (val : List α → ρ)
    (h0 : rep [] = A.initial) (hstep : ∀ d b, A.onNew (rep d) b = (rep (d ++ b), val (d ++ b)))
    (bs : List (List α)) :
    ∀ d acc, ExpInv rep d acc →
      (runAcc (expStep A) acc bs).2 = (prefixes d bs).map val ∧
      ExpInv rep (d ++ bs.flatten) (runAcc (expStep A) acc bs).1 := by
  induction bs with
  | nil => intro d acc h; simpa [runAcc, prefixes] using h
  | cons b bs ih =>
    intro d acc h
    have h1 := expStep_spec A rep val h0 hstep d b acc h
    have := ih (d ++ b) _ h1.2
    simp only [runAcc, prefixes, List.map_cons, List.flatten_cons]
    rw [h1.1, this.1]
    exact ⟨rfl, by simpa using this.2⟩
end

theorem valid_append (a b : List (Option Rat)) : valid (a ++ b) = valid a ++ valid b := by
  simp [valid, List.filterMap_append]

theorem sumR_append (a b : List Rat) : sumR (a ++ b) = sumR a + sumR b := by
  induction a with
  | nil => simp [sumR, Rat.zero_add]
  | cons x xs ih =>
    simp only [sumR, List.cons_append, List.foldr_cons] at ih ⊢
    rw [ih, Rat.add_assoc]

theorem sumSqR_append (a b : List Rat) : sumSqR (a ++ b) = sumSqR a + sumSqR b := by
  induction a with
  | nil => simp [sumSqR, Rat.zero_add]
  | cons x xs ih =>
    simp only [sumSqR, List.cons_append, List.map_cons, List.foldr_cons] at ih ⊢
    rw [ih, Rat.add_assoc]

theorem isEmpty_eq_true_iff {γ : Type} (l : List γ) : l.isEmpty = true ↔ l = [] := by
  cases l <;> simp

/-! ### ewm -/

theorem ewmLoop_append (q : Rat) (s : Option Rat × Rat) (a b : List Rat) :
    ewmLoop q s (a ++ b) = ewmLoop q (ewmLoop q s a) b := by
  induction a generalizing s with
  | nil => simp [ewmLoop]
  | cons x xs ih => obtain ⟨r, w⟩ := s; simp [ewmLoop, ih]

theorem ewmDen_nonneg (q : Rat) (hq : 0 ≤ q) (n : Nat) : 0 ≤ ewmDen q n := by
  induction n with
  | zero => simp [ewmDen]
  | succ n ih =>
    have := Rat.mul_nonneg hq ih
    simp only [ewmDen]; grind

theorem ewmDen_pos (q : Rat) (hq : 0 ≤ q) (n : Nat) : 1 ≤ ewmDen q (n + 1) := by
  have := Rat.mul_nonneg hq (ewmDen_nonneg q hq n)
  simp only [ewmDen]; grind

/-- The loop carries exactly (weighted mean, sum of weights) of everything seen. -/
theorem ewmLoop_spec (q : Rat) (hq : 0 ≤ q) (xs : List Rat) :
    ∀ d : List Rat, d ≠ [] →
      ewmLoop q (some (ewmNum q d.reverse / ewmDen q d.length), ewmDen q d.length) xs =
        (some (ewmNum q (d ++ xs).reverse / ewmDen q (d ++ xs).length), ewmDen q (d ++ xs).length) := by
  induction xs with
  | nil => intro d _; simp [ewmLoop]
  | cons x xs ih =>
    intro d hd
    have hlen : d.length = (d.length - 1) + 1 := by
      cases d with
      | nil => exact absurd rfl hd
      | cons _ _ => simp
    have hD : ewmDen q d.length ≠ 0 := by
      have := ewmDen_pos q hq (d.length - 1)
      rw [← hlen] at this
      intro h0; rw [h0] at this; exact absurd this (by decide)
    have := ih (d ++ [x]) (by simp)
    simp only [List.append_assoc, List.singleton_append] at this
    rw [← this]
    simp only [ewmLoop, Option.map_some, List.reverse_append, List.reverse_cons, List.reverse_nil,
      List.nil_append, List.singleton_append, ewmNum, List.length_append, List.length_cons, List.length_nil,
      ewmDen]
    congr 2
    · congr 1
      generalize ewmDen q d.length = D at hD
      generalize ewmNum q d.reverse = N
      grind
    · grind

/-- What `EWMean` holds after the (NaN-free) rows `d`. -/
def ewmStateOf (q : Rat) (d : List Rat) : EwmSt :=
  { result := ewmAt q d, oldWt := if d.isEmpty then 1 else ewmDen q d.length, isFirst := d.isEmpty }

def EwmInv (q : Rat) (d : List Rat) (acc : Option (List (List Rat) × EwmSt)) : Prop :=
  (acc = none ∧ d = []) ∨ ∃ dfs, acc = some (dfs, ewmStateOf q d) ∧ dfs.flatten = d

theorem ewmOnNew_first (q : Rat) (st st' : EwmSt) (b : List Rat) (h1 : st.isFirst = true) (h2 : st'.isFirst = true)
    (hw : st.oldWt = st'.oldWt) : ewmOnNew q st b = ewmOnNew q st' b := by
  simp [ewmOnNew, h1, h2, hw]

theorem ewmOnNew_spec (q : Rat) (hq : 0 ≤ q) (d b : List Rat) :
    ewmOnNew q (ewmStateOf q d) b = (ewmStateOf q (d ++ b), ewmAt q (d ++ b)) := by
  cases d with
  | nil =>
    cases b with
    | nil => simp [ewmOnNew, ewmStateOf, ewmLoop, ewmAt]
    | cons x xs =>
      have h := ewmLoop_spec q hq xs [x] (by simp)
      have h1 : ewmNum q [x].reverse / ewmDen q [x].length = x := by
        simp only [List.reverse_cons, List.reverse_nil, List.nil_append, List.length_cons, List.length_nil,
          ewmNum, ewmDen]
        grind
      have h2 : ewmDen q [x].length = 1 := by
        simp only [List.length_cons, List.length_nil, ewmDen]; grind
      rw [h1, h2] at h
      simp [ewmOnNew, ewmStateOf, ewmAt, h]
  | cons y ys =>
    generalize hd : y :: ys = d
    have hne : d ≠ [] := by subst hd; simp
    have he : d.isEmpty = false := by subst hd; rfl
    cases b with
    | nil => simp [ewmOnNew, ewmStateOf, ewmLoop, ewmAt, he]
    | cons x xs =>
      have h := ewmLoop_spec q hq (x :: xs) d hne
      simp [ewmOnNew, ewmStateOf, ewmAt, he, h]

theorem ewmStep_spec (q : Rat) (hq : 0 ≤ q) (d b : List Rat) (acc : Option (List (List Rat) × EwmSt))
    (h : EwmInv q d acc) :
    (ewmStep q acc b).2 = ewmAt q (d ++ b) ∧ EwmInv q (d ++ b) (ewmStep q acc b).1 := by
  rcases h with ⟨ha, hd⟩ | ⟨dfs, ha, hf⟩
  · subst ha hd
    have : ewmOnNew q (ewmInitial b) b = ewmOnNew q (ewmStateOf q []) b :=
      ewmOnNew_first q _ _ b rfl rfl rfl
    simp only [ewmStep, ewmStepWith, Option.getD_none, this, ewmOnNew_spec q hq]
    refine ⟨by first | trivial | rfl, Or.inr ⟨_, rfl, ?_⟩⟩
    cases b <;> simp
  · subst ha
    simp only [ewmStep, ewmStepWith, Option.getD_some, ewmOnNew_spec q hq]
    refine ⟨by first | trivial | rfl, Or.inr ⟨_, rfl, ?_⟩⟩
    cases b <;> simp [hf]

theorem runAcc_ewm (q : Rat) (hq : 0 ≤ q) (bs : List (List Rat)) :
    ∀ d acc, EwmInv q d acc →
      (runAcc (ewmStep q) acc bs).2 = (prefixes d bs).map (ewmAt q) ∧
      EwmInv q (d ++ bs.flatten) (runAcc (ewmStep q) acc bs).1 := by
  induction bs with
  | nil => intro d acc h; simpa [runAcc, prefixes] using h
  | cons b bs ih =>
    intro d acc h
    have h1 := ewmStep_spec q hq d b acc h
    have := ih (d ++ b) _ h1.2
    simp only [runAcc, prefixes, List.map_cons, List.flatten_cons]
    rw [h1.1, this.1]
    exact ⟨rfl, by simpa using this.2⟩

end StreamzVerif.Rolling
