import StreamzVerif.Model.Source
/-! Helper lemmas for `Props/C18.lean` (invariants of the two life-cycle models). -/
namespace StreamzVerif.Source

/-- What the history of public calls alone says about `stopped`
(initially stopped; the last of `start` / `stop` wins). -/
def ctlStopped (acts : List Act) : Bool :=
  acts.foldl (fun b a => match a with | .start => false | .stop => true | .resume _ => b) true

theorem run_append (f : Bool) (s : St) (a b : List Act) : run f s (a ++ b) = run f (run f s a) b := by
  simp [run, List.foldl_append]

theorem run_cons (f : Bool) (s : St) (a : Act) (as : List Act) : run f s (a :: as) = run f (step f s a) as := rfl

theorem irun_append (f : Bool) (c : Cfg) (s : ISt) (a b : List Act) :
    irun f c s (a ++ b) = irun f c (irun f c s a) b := by
  simp [irun, List.foldl_append]

theorem irun_cons (f : Bool) (c : Cfg) (s : ISt) (a : Act) (as : List Act) :
    irun f c s (a :: as) = irun f c (istep f c s a) as := rfl

/-! ## Polling sources -/

/-- With the fix, `_run_live` is set exactly when one invocation of `run()` is live. -/
def Inv (s : St) : Prop := s.loops.length = if s.runLive then 1 else 0

theorem inv_init : Inv init := by simp [Inv, init]

theorem inv_step (s : St) (a : Act) (h : Inv s) : Inv (step true s a) := by
  unfold Inv at *
  cases a with
  | start =>
    simp only [step]
    split
    · cases hr : s.runLive <;> simp_all
    · exact h
  | stop =>
    simp only [step]
    split <;> simp_all
  | resume i =>
    cases hx : s.loops[i]? with
    | none => simpa [step, hx] using h
    | some x =>
      have hi : i < s.loops.length := (List.getElem?_eq_some_iff.mp hx).1
      cases hst : s.stopped <;> cases hr : s.runLive <;> simp_all [step]

theorem inv_run (s : St) (acts : List Act) (h : Inv s) : Inv (run true s acts) := by
  induction acts generalizing s with
  | nil => exact h
  | cons a as ih => exact ih _ (inv_step s a h)

/-- `stopped` is a function of the public calls alone (polling sources never set it themselves). -/
theorem stopped_step (f : Bool) (s : St) (a : Act) :
    (step f s a).stopped = (match a with | .start => false | .stop => true | .resume _ => s.stopped) := by
  cases a with
  | start => cases hs : s.stopped <;> cases hr : (f && s.runLive) <;> simp [step, hs, hr]
  | stop => cases hs : s.stopped <;> simp [step, hs]
  | resume i => cases hx : s.loops[i]? <;> cases hs : s.stopped <;> simp [step, hx, hs]

theorem stopped_run_aux (f : Bool) (s : St) (acts : List Act) :
    (run f s acts).stopped =
      acts.foldl (fun b a => match a with | .start => false | .stop => true | .resume _ => b) s.stopped := by
  induction acts generalizing s with
  | nil => rfl
  | cons a as ih =>
    rw [run_cons, ih, stopped_step]
    cases a <;> rfl

theorem stopped_run (f : Bool) (acts : List Act) : (run f init acts).stopped = ctlStopped acts :=
  stopped_run_aux f init acts

/-- While stopped, nothing but `start` begins a cycle or clears the flag. -/
theorem stopped_step_quiet (f : Bool) (s : St) (a : Act) (hs : s.stopped = true) (ha : a ≠ .start) :
    (step f s a).stopped = true ∧ (step f s a).cycles = s.cycles := by
  cases a with
  | start => exact absurd rfl ha
  | stop => simp [step, hs]
  | resume i => cases hx : s.loops[i]? <;> simp [step, hx, hs]

theorem stopped_run_quiet (f : Bool) (s : St) (mid : List Act) (hs : s.stopped = true)
    (hm : ∀ a ∈ mid, a ≠ Act.start) :
    (run f s mid).stopped = true ∧ (run f s mid).cycles = s.cycles := by
  induction mid generalizing s with
  | nil => exact ⟨hs, rfl⟩
  | cons a as ih =>
    have h1 := stopped_step_quiet f s a hs (hm a (by simp))
    have h2 := ih (step f s a) h1.1 (fun b hb => hm b (by simp [hb]))
    rw [run_cons]
    exact ⟨h2.1, h2.2.trans h1.2⟩

/-- With the fix, a started polling source always has its `_run_live` flag set. -/
def Inv2 (s : St) : Prop := s.stopped = false → s.runLive = true

theorem inv2_step (s : St) (a : Act) (h : Inv2 s) : Inv2 (step true s a) := by
  unfold Inv2 at *
  cases a with
  | start => cases hs : s.stopped <;> cases hr : s.runLive <;> simp_all [step]
  | stop => cases hs : s.stopped <;> simp_all [step]
  | resume i => cases hx : s.loops[i]? <;> cases hs : s.stopped <;> simp_all [step]

theorem inv2_run (s : St) (acts : List Act) (h : Inv2 s) : Inv2 (run true s acts) := by
  induction acts generalizing s with
  | nil => exact h
  | cons a as ih => exact ih _ (inv2_step s a h)

/-- The ORIGINAL mechanism keeps one loop as long as no `start()` takes effect while an
invocation of `run()` is still live. -/
def CalmFrom (s : St) : List Act → Prop
  | [] => True
  | a :: as => (a = Act.start → s.stopped = true → s.loops = []) ∧ CalmFrom (step false s a) as

theorem orig_calm_le_one (s : St) (acts : List Act) (h : s.loops.length ≤ 1) (hc : CalmFrom s acts) :
    (run false s acts).loops.length ≤ 1 := by
  induction acts generalizing s with
  | nil => exact h
  | cons a as ih =>
    obtain ⟨h1, h2⟩ := hc
    refine ih _ ?_ h2
    cases a with
    | start =>
      cases hs : s.stopped with
      | false => simpa [step, hs] using h
      | true => simp [step, hs, h1 rfl hs]
    | stop => cases hs : s.stopped <;> simpa [step, hs] using h
    | resume i =>
      cases hx : s.loops[i]? with
      | none => simpa [step, hx] using h
      | some x =>
        have := List.length_eraseIdx_le s.loops i
        cases hs : s.stopped <;> simp [step, hx, hs] <;> omega

/-! ## from_iterable -/

/-- Every `take` in the log happened when no emit-awaitable was pending. -/
def Good : List IEv → Prop
  | [] => True
  | .take _ :: l => pending l = 0 ∧ Good l
  | _ :: l => Good l

def inEmitCount (ls : List ILoop) : Nat := (ls.filter (fun l => l.phase == IPhase.inEmit)).length

structure IInv (c : Cfg) (s : ISt) : Prop where
  live : s.loops.length = if s.runLive then 1 else 0
  pend : pending s.log = inEmitCount s.loops
  good : Good s.log
  pre : c.shared = false → curRun s.log <+: c.items
  exh : c.shared = false → ∀ l, s.log = IEv.exhausted :: l → curRun l = c.items
  pos0 : c.shared = false → ∀ l ∈ s.loops, l.phase = .fresh → l.pos = 0
  posE : c.shared = false → ∀ l ∈ s.loops, l.phase = .inEmit → curRun s.log = c.items.take l.pos
  tk : c.shared = true → taken s.log = c.items.take s.cursor
  sub : c.shared = true → (emitted s.log).Sublist (taken s.log)

theorem iinv_init (c : Cfg) : IInv c iinit := by
  constructor <;> simp [iinit, pending, inEmitCount, Good, curRun, taken, emitted]

theorem take_snoc {items : List Nat} {p x : Nat} (h : items[p]? = some x) :
    items.take p ++ [x] = items.take (p + 1) := by
  rw [List.take_add_one, h]; rfl

/-- Precondition of `takeNext` for the only live loop `l`: nothing pending, and the
current run has emitted `items.take l.pos`. -/
theorem iinv_takeNext (c : Cfg) (s : ISt) (l : ILoop)
    (hl : s.loops = [l]) (hr : s.runLive = true) (hp : pending s.log = 0) (hg : Good s.log)
    (hcur : c.shared = false → curRun s.log = c.items.take l.pos)
    (htk : c.shared = true → taken s.log = c.items.take s.cursor)
    (hsub : c.shared = true → (emitted s.log).Sublist (taken s.log)) :
    IInv c (takeNext c s 0 l) := by
  unfold takeNext
  cases hsh : c.shared with
  | false =>
    have hcur' := hcur hsh
    simp only [Bool.false_eq_true, ↓reduceIte]
    cases hx : c.items[l.pos]? with
    | none =>
      have hlen : c.items.length ≤ l.pos := by simpa using hx
      constructor <;>
        simp_all [leave, pending, inEmitCount, Good, curRun, List.take_of_length_le]
    | some x =>
      have hsn := take_snoc hx
      cases hst : s.stopped with
      | true =>
        constructor <;>
          simp_all [leave, pending, inEmitCount, Good, curRun, List.take_prefix]
      | false =>
        constructor <;>
          simp_all [leave, pending, inEmitCount, Good, curRun, List.take_prefix]
  | true =>
    have htk' := htk hsh
    have hsub' := hsub hsh
    simp only [↓reduceIte]
    cases hx : c.items[s.cursor]? with
    | none =>
      constructor <;>
        simp_all [leave, pending, inEmitCount, Good, curRun, taken, emitted]
    | some x =>
      have hsn := take_snoc hx
      have hsub2 : (emitted s.log).Sublist (c.items.take s.cursor) := htk' ▸ hsub'
      have hs1 : (emitted s.log).Sublist (c.items.take (s.cursor + 1)) := by
        rw [← hsn]; exact hsub2.trans (List.sublist_append_left _ _)
      have hs2 : (emitted s.log ++ [x]).Sublist (c.items.take (s.cursor + 1)) := by
        rw [← hsn]; exact hsub2.append (List.Sublist.refl _)
      cases hst : s.stopped with
      | true =>
        constructor <;>
          simp_all [leave, pending, inEmitCount, Good, curRun, taken, emitted]
      | false =>
        constructor <;>
          simp_all [leave, pending, inEmitCount, Good, curRun, taken, emitted]

theorem iinv_step (c : Cfg) (s : ISt) (a : Act) (h : IInv c s) : IInv c (istep true c s a) := by
  cases a with
  | start =>
    cases hst : s.stopped with
    | false => simpa [istep, hst] using h
    | true =>
      cases hr : s.runLive with
      | true =>
        have : istep true c s .start = { s with stopped := false } := by simp [istep, hst, hr]
        rw [this]; exact ⟨h.live, h.pend, h.good, h.pre, h.exh, h.pos0, h.posE, h.tk, h.sub⟩
      | false =>
        obtain ⟨h1, h2, h3, h4, h5, h6, h7, h8, h9⟩ := h
        have hnil : s.loops = [] := by simpa [hr] using h1
        constructor <;> simp_all [istep, inEmitCount]
  | stop =>
    cases hst : s.stopped with
    | true => simpa [istep, hst] using h
    | false =>
      have : istep true c s .stop = { s with stopped := true } := by simp [istep, hst]
      rw [this]; exact ⟨h.live, h.pend, h.good, h.pre, h.exh, h.pos0, h.posE, h.tk, h.sub⟩
  | resume i =>
    cases hx : s.loops[i]? with
    | none => simpa [istep, hx] using h
    | some l =>
      have hi : i < s.loops.length := (List.getElem?_eq_some_iff.mp hx).1
      have hr : s.runLive = true := by
        cases hr : s.runLive with
        | true => rfl
        | false => have := h.live; simp [hr] at this; simp [this] at hi
      have hlen : s.loops.length = 1 := by simpa [hr] using h.live
      have hi0 : i = 0 := by omega
      subst hi0
      have hl : s.loops = [l] := by
        match hs : s.loops, hlen with
        | [l0], _ => simp [hs] at hx; simp [hx]
      cases hph : l.phase with
      | fresh =>
        have hp : pending s.log = 0 := by
          have := h.pend; simpa [hl, inEmitCount, hph] using this
        have := iinv_takeNext c { s with log := IEv.begin :: s.log } l hl hr
          (by simpa [pending] using hp) (by simpa [Good] using h.good)
          (fun hsh => by simp [curRun, h.pos0 hsh l (by simp [hl]) hph])
          (fun hsh => by simpa [taken] using h.tk hsh)
          (fun hsh => by simpa [taken, emitted] using h.sub hsh)
        simpa [istep, hx, hph] using this
      | inEmit =>
        have hp : pending s.log = 1 := by
          have := h.pend; simpa [hl, inEmitCount, hph] using this
        cases hst : s.stopped with
        | true =>
          obtain ⟨h1, h2, h3, h4, h5, h6, h7, h8, h9⟩ := h
          simp only [istep, hx, hph, hst, ↓reduceIte]
          constructor <;> simp_all [leave, pending, inEmitCount, Good, curRun, taken, emitted]
        | false =>
          have := iinv_takeNext c { s with log := IEv.done :: s.log } l hl hr
            (by simp [pending, hp]) (by simpa [Good] using h.good)
            (fun hsh => by simpa [curRun] using h.posE hsh l (by simp [hl]) hph)
            (fun hsh => by simpa [taken] using h.tk hsh)
            (fun hsh => by simpa [taken, emitted] using h.sub hsh)
          simpa [istep, hx, hph, hst] using this

theorem iinv_run (c : Cfg) (s : ISt) (acts : List Act) (h : IInv c s) : IInv c (irun true c s acts) := by
  induction acts generalizing s with
  | nil => exact h
  | cons a as ih => exact ih _ (iinv_step c s a h)

/-- `Good` unfolded: at every `take` in the log nothing was pending. -/
theorem good_split {log : List IEv} (h : Good log) (post pre : List IEv) (x : Nat)
    (hs : log = post ++ IEv.take x :: pre) : pending pre = 0 := by
  induction post generalizing log with
  | nil =>
    subst hs
    have h' : pending pre = 0 ∧ Good pre := by simpa [Good] using h
    exact h'.1
  | cons e es ih =>
    subst hs
    cases e with
    | take y =>
      have h' : pending (es ++ IEv.take x :: pre) = 0 ∧ Good (es ++ IEv.take x :: pre) := by
        simpa [Good] using h
      exact ih h'.2 rfl
    | _ => exact ih (by simpa [Good] using h) rfl

/-- While stopped, nothing but `start` emits or clears the flag (either mechanism). -/
theorem istopped_step_quiet (f : Bool) (c : Cfg) (s : ISt) (a : Act) (hs : s.stopped = true)
    (ha : a ≠ .start) :
    (istep f c s a).stopped = true ∧ emitted (istep f c s a).log = emitted s.log := by
  cases a with
  | start => exact absurd rfl ha
  | stop => simp [istep, hs]
  | resume i =>
    cases hx : s.loops[i]? with
    | none => simp [istep, hx, hs]
    | some l =>
      cases hph : l.phase with
      | fresh =>
        simp only [istep, hx, hph, takeNext]
        split <;> simp [leave, hs, emitted]
      | inEmit => simp [istep, hx, hph, hs, leave, emitted]

theorem istopped_run_quiet (f : Bool) (c : Cfg) (s : ISt) (mid : List Act) (hs : s.stopped = true)
    (hm : ∀ a ∈ mid, a ≠ Act.start) :
    (irun f c s mid).stopped = true ∧ emitted (irun f c s mid).log = emitted s.log := by
  induction mid generalizing s with
  | nil => exact ⟨hs, rfl⟩
  | cons a as ih =>
    have h1 := istopped_step_quiet f c s a hs (hm a (by simp))
    have h2 := ih (istep f c s a) h1.1 (fun b hb => hm b (by simp [hb]))
    rw [irun_cons]
    exact ⟨h2.1, h2.2.trans h1.2⟩

end StreamzVerif.Source
