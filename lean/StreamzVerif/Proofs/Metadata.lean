import StreamzVerif.Proofs.Propagate
/-
C10 helper lemmas: what the node-local `upd` of every kind does with metadata.

`Meta = List MEntry` is a flat list *by typing*: in the model the shape clause of C10 ("a flat list of
dictionaries") holds by construction; that the *implementation's* metadata is a flat list of dicts is checked by
the correspondence harness (shape check on every recorded element), not here.

Structure
  1. one-to-one kinds (`Kind.oneToOne`): at most one output, carrying exactly the arrival's metadata
  2. `flatten`: all pieces but the last carry `[]`, the last carries `md`
  3. closure (`NState.AllP`, `EffsFrom`, `upd_effs_from`): every entry that `upd` puts on an output or into the
     node state comes from the arrival's metadata or from metadata already stored in the node state;
     `interp_md_closed`: the same for whole interpreter runs (all fuel, failing runs included)
  4. batching kinds: `partition`, `partitionUnique`, `collect` + `flushProg`, `slidingWindow`
  5. combining kinds: `zip`, `combineLatest`, `zipLatest`
-/
namespace StreamzVerif.Graph

/-! ### 1. One-to-one kinds -/

def Kind.oneToOne : Kind → Bool
  | .source | .union | .map _ | .starmap _ | .filter _ | .accumulate .. | .slice .. | .unique .. | .pluck _ => true
  | _ => false

@[simp] theorem outsOf_nil : outsOf [] = [] := rfl
@[simp] theorem outsOf_emit (v : Val) (md : Meta) (es : List Eff) :
    outsOf (.emit v md :: es) = (v, md) :: outsOf es := rfl
@[simp] theorem outsOf_etr (v : Val) (md : Meta) (es : List Eff) :
    outsOf (.emitThenRelease v md :: es) = (v, md) :: outsOf es := rfl
@[simp] theorem outsOf_set (s : NState) (es : List Eff) : outsOf (.set s :: es) = outsOf es := rfl
@[simp] theorem outsOf_retain (md : Meta) (es : List Eff) : outsOf (.retain md :: es) = outsOf es := rfl
@[simp] theorem outsOf_release (md : Meta) (es : List Eff) : outsOf (.release md :: es) = outsOf es := rfl
@[simp] theorem outsOf_detach (es : List Eff) : outsOf (.detach :: es) = outsOf es := rfl

@[simp] theorem finalLoc_nil (s : NState) : finalLoc [] s = s := rfl
@[simp] theorem finalLoc_set (s' s : NState) (es : List Eff) : finalLoc (.set s' :: es) s = finalLoc es s' := rfl
@[simp] theorem finalLoc_emit (v : Val) (md : Meta) (es : List Eff) (s : NState) :
    finalLoc (.emit v md :: es) s = finalLoc es s := rfl
@[simp] theorem finalLoc_etr (v : Val) (md : Meta) (es : List Eff) (s : NState) :
    finalLoc (.emitThenRelease v md :: es) s = finalLoc es s := rfl
@[simp] theorem finalLoc_retain (md : Meta) (es : List Eff) (s : NState) :
    finalLoc (.retain md :: es) s = finalLoc es s := rfl
@[simp] theorem finalLoc_release (md : Meta) (es : List Eff) (s : NState) :
    finalLoc (.release md :: es) s = finalLoc es s := rfl
@[simp] theorem finalLoc_detach (es : List Eff) (s : NState) : finalLoc (.detach :: es) s = finalLoc es s := rfl

theorem outsOf_ite_release (c : Prop) [Decidable c] (old : Meta) :
    outsOf (if c then [Eff.release old] else []) = [] := by split <;> rfl
theorem finalLoc_ite_release (c : Prop) [Decidable c] (old : Meta) (s : NState) :
    finalLoc (if c then [Eff.release old] else []) s = s := by split <;> rfl

theorem raise_effs (e : Err) (es : List Eff) : (raise e es).effs = es := rfl
@[simp] theorem raise_effs_nil (e : Err) : (raise e).effs = [] := rfl

/-- exact outputs of the simple one-to-one kinds -/
theorem source_outs (s : NState) (who : NodeId) (x : Val) (md : Meta) :
    outsOf (upd .source s who x md).effs = [(x, md)] := rfl
theorem union_outs (s : NState) (who : NodeId) (x : Val) (md : Meta) :
    outsOf (upd .union s who x md).effs = [(x, md)] := rfl

theorem map_outs (f : Fn) (s : NState) (who : NodeId) (x : Val) (md : Meta) :
    outsOf (upd (.map f) s who x md).effs = match f.eval x with | .ok y => [(y, md)] | .error _ => [] := by
  cases h : f.eval x <;> simp [upd, h]

theorem starmap_outs (f : Fn) (s : NState) (who : NodeId) (l : List Val) (md : Meta) :
    outsOf (upd (.starmap f) s who (.tup l) md).effs =
      match f.eval (.tup l) with | .ok y => [(y, md)] | .error _ => [] := by
  cases h : f.eval (.tup l) <;> simp [upd, h]

theorem filter_outs (p : Fn) (s : NState) (who : NodeId) (x : Val) (md : Meta) :
    outsOf (upd (.filter p) s who x md).effs =
      match p.eval x with | .ok b => if b.truthy then [(x, md)] else [] | .error _ => [] := by
  cases h : p.eval x with
  | error e => simp [upd, h]
  | ok b => by_cases hb : b.truthy = true <;> simp [upd, h, hb]

theorem slice_outs (start : Nat) (stop : Option Nat) (step : Nat) (s : NState) (who : NodeId) (x : Val)
    (md : Meta) :
    outsOf (upd (.slice start stop step) s who x md).effs =
      if s.cnt ≥ start ∧ (s.cnt - start) % step = 0 then [(x, md)] else [] := by
  have hfin : ∀ (b : Bool), outsOf (if b = true then [Eff.detach] else []) = [] := by
    intro b; cases b <;> rfl
  simp only [upd, outsOf_append, hfin]
  split <;> simp

theorem unique_outs (maxsize : Option Nat) (key : Fn) (hashable : Bool) (s : NState) (who : NodeId) (x : Val)
    (md : Meta) :
    outsOf (upd (.unique maxsize key hashable) s who x md).effs =
      match key.eval x with
      | .ok y => if (hashable && !y.hashable) || s.seen.contains y then [] else [(x, md)]
      | .error _ => [] := by
  cases h : key.eval x with
  | error e => simp [upd, h]
  | ok y =>
    by_cases h1 : (hashable && !y.hashable) = true
    · simp [upd, h, h1]
    · by_cases h2 : y ∈ s.seen <;> simp [upd, h, h1, h2]

theorem pluck_idx_outs (i : Nat) (s : NState) (who : NodeId) (x : Val) (md : Meta) :
    outsOf (upd (.pluck (.idx i)) s who x md).effs =
      match pluckOne x i with | .ok v => [(v, md)] | .error _ => [] := by
  cases h : pluckOne x i <;> simp [upd, h]

theorem pluck_idxs_outs (l : List Nat) (s : NState) (who : NodeId) (x : Val) (md : Meta) :
    outsOf (upd (.pluck (.idxs l)) s who x md).effs =
      match l.mapM (pluckOne x) with | .ok vs => [(.tup vs, md)] | .error _ => [] := by
  cases h : l.mapM (pluckOne x) <;> simp [upd, h]

/-- `accumulate`, all flag combinations: the body either raises before emitting, or emits exactly one element
carrying exactly the arrival's metadata. -/
theorem accumulate_outs (f : Fn2) (start : Option Val) (rs ws : Bool) (s : NState) (who : NodeId) (x : Val)
    (md : Meta) :
    ((upd (.accumulate f start rs ws) s who x md).err ≠ none ∧
        outsOf (upd (.accumulate f start rs ws) s who x md).effs = []) ∨
    ((upd (.accumulate f start rs ws) s who x md).err = none ∧
        ∃ y, outsOf (upd (.accumulate f start rs ws) s who x md).effs = [(y, md)]) := by
  simp only [upd]
  split
  · exact Or.inr ⟨rfl, _, rfl⟩
  · split
    · exact Or.inl ⟨by simp [raise], rfl⟩
    · split
      · split
        · exact Or.inr ⟨rfl, _, rfl⟩
        · exact Or.inl ⟨by simp [raise], rfl⟩
        · exact Or.inr ⟨rfl, _, rfl⟩
        · exact Or.inl ⟨by simp [raise], rfl⟩
        · exact Or.inl ⟨by simp [raise], rfl⟩
      · exact Or.inr ⟨rfl, _, rfl⟩

/-- Uniform statement: a one-to-one kind emits nothing or exactly one element with exactly the arrival's
metadata. -/
theorem upd_oneToOne {k : Kind} (hk : k.oneToOne = true) (s : NState) (who : NodeId) (x : Val) (md : Meta) :
    outsOf (upd k s who x md).effs = [] ∨ ∃ y, outsOf (upd k s who x md).effs = [(y, md)] := by
  cases k with
  | source => exact Or.inr ⟨x, rfl⟩
  | union => exact Or.inr ⟨x, rfl⟩
  | map f => rw [map_outs]; split <;> simp
  | starmap f =>
    cases x with
    | tup l => rw [starmap_outs]; split <;> simp
    | _ => exact Or.inl rfl
  | filter p =>
    rw [filter_outs]; split
    · split <;> simp
    · simp
  | accumulate f st rs ws =>
    rcases accumulate_outs f st rs ws s who x md with h | h
    · exact Or.inl h.2
    · exact Or.inr h.2
  | slice a b c => rw [slice_outs]; split <;> simp
  | unique m key h =>
    rw [unique_outs]; split
    · split <;> simp
    · simp
  | pluck p =>
    cases p with
    | idx i => rw [pluck_idx_outs]; split <;> simp
    | idxs l => rw [pluck_idxs_outs]; split <;> simp
  | partition _ _ => cases hk
  | partitionUnique _ _ _ => cases hk
  | slidingWindow _ _ => cases hk
  | flatten => cases hk
  | collect => cases hk
  | zip _ => cases hk
  | combineLatest _ => cases hk
  | zipLatest => cases hk
  | sink _ => cases hk

/-- Over any arrival list and from any state: every output of a one-to-one node carries the metadata of one of
its arrivals, unchanged. -/
theorem localOuts_oneToOne (G : NodeId → Kind) (i : NodeId) (hk : (G i).oneToOne = true) (s : NState)
    (as : List Arr) : ∀ o ∈ localOuts G i s as, ∃ a ∈ as, a.2.2 = o.2 := by
  induction as generalizing s with
  | nil => intro o ho; simp at ho
  | cons a as ih =>
    intro o ho
    simp only [localOuts, List.mem_append] at ho
    rcases ho with ho | ho
    · rcases upd_oneToOne hk s a.1 a.2.1 a.2.2 with h | ⟨y, h⟩
      · rw [h] at ho; simp at ho
      · rw [h] at ho
        simp only [List.mem_singleton] at ho
        exact ⟨a, by simp, by rw [ho]⟩
    · obtain ⟨b, hb, e⟩ := ih _ o ho
      exact ⟨b, by simp [hb], e⟩

/-- ... and in order, without duplication: the metadata sequence of the outputs is a sub-sequence of the
metadata sequence of the arrivals. -/
theorem localRun_oneToOne_sublist {k : Kind} (hk : k.oneToOne = true) (s : NState) (as : List Arr) :
    ((localRun k s as).2.map (·.2)).Sublist (as.map (·.2.2)) := by
  induction as generalizing s with
  | nil => simp [localRun]
  | cons a as ih =>
    simp only [localRun, stepLoc, List.map_append, List.map_cons]
    have h2 := ih (finalLoc (upd k s a.1 a.2.1 a.2.2).effs s)
    rcases upd_oneToOne hk s a.1 a.2.1 a.2.2 with h | ⟨y, h⟩
    · rw [h]; simpa using h2.cons a.2.2
    · rw [h]; simpa using h2.cons_cons a.2.2

/-! ### 2. flatten -/

/-- the metadata `flatten` attaches to the pieces of an iterable of length `n` -/
def lastOnly (n : Nat) (md : Meta) : List Meta :=
  match n with
  | 0 => []
  | m + 1 => List.replicate m [] ++ [md]

theorem outsOf_emitAllButLast_zip (l : List Val) (md : Meta) :
    outsOf (emitAllButLast l md) = l.zip (lastOnly l.length md) := by
  induction l with
  | nil => rfl
  | cons x t ih =>
    cases t with
    | nil => rfl
    | cons y t =>
      simp only [emitAllButLast, outsOf_emit, ih]
      simp [lastOnly, List.replicate_succ]

theorem flatten_outs (s : NState) (who : NodeId) (x : Val) (md : Meta) :
    outsOf (upd .flatten s who x md).effs =
      match iterVal x with
      | .ok l => l.zip (lastOnly l.length md)
      | .error _ => [] := by
  cases h : iterVal x <;> simp [upd, h, outsOf_emitAllButLast_zip]

theorem lastOnly_length (n : Nat) (md : Meta) : (lastOnly n md).length = n := by
  cases n <;> simp [lastOnly]

theorem lastOnly_flatten (n : Nat) (md : Meta) (h : n ≠ 0) : (lastOnly n md).flatten = md := by
  cases n with
  | zero => exact absurd rfl h
  | succ m =>
    simp only [lastOnly, List.flatten_append, List.flatten_singleton]
    have : (List.replicate m ([] : Meta)).flatten = [] := by
      induction m with
      | zero => rfl
      | succ m ih => simp [List.replicate_succ, ih]
    simp [this]

theorem lastOnly_get (n : Nat) (md : Meta) (i : Nat) (hi : i < n) :
    (lastOnly n md)[i]? = some (if i + 1 = n then md else []) := by
  cases n with
  | zero => omega
  | succ m =>
    simp only [lastOnly]
    by_cases h : i < m
    · rw [List.getElem?_append_left (by simpa using h), List.getElem?_replicate]
      have : ¬ i = m := by omega
      simp [h, this]
    · have : i = m := by omega
      subst this
      rw [List.getElem?_append_right (by simp)]
      simp

/-- piece number `i` of a flattened iterable: its value is the `i`-th element, its metadata is the arrival's
metadata for the last piece and `[]` for every other one -/
theorem flatten_piece_get (s : NState) (who : NodeId) (x : Val) (md : Meta) (l : List Val)
    (h : iterVal x = .ok l) (i : Nat) (hi : i < l.length) :
    (outsOf (upd .flatten s who x md).effs)[i]? = some (l[i], if i + 1 = l.length then md else []) := by
  rw [flatten_outs, h]
  simp only []
  rw [List.getElem?_zip_eq_some]
  exact ⟨by simp [hi], lastOnly_get _ _ _ hi⟩

/-! ### 3. Closure: no metadata entry is invented -/

/-- every entry of a metadata list satisfies `P` -/
def AllMd (P : MEntry → Prop) (md : Meta) : Prop := ∀ m ∈ md, P m

theorem AllMd.nil (P : MEntry → Prop) : AllMd P [] := fun _ h => by simp at h

theorem AllMd.append {P : MEntry → Prop} {a b : Meta} (ha : AllMd P a) (hb : AllMd P b) : AllMd P (a ++ b) := by
  intro m hm
  rcases List.mem_append.1 hm with h | h
  · exact ha m h
  · exact hb m h

theorem AllMd.flatMd {P : MEntry → Prop} {mds : List Meta} (h : ∀ l ∈ mds, AllMd P l) : AllMd P (flatMd mds) := by
  intro m hm
  simp only [Graph.flatMd, List.mem_flatten] at hm
  obtain ⟨l, hl, hml⟩ := hm
  exact h l hl m hml

/-- every entry of every metadata list stored in the node state satisfies `P` (the `md` components of
`items`, `bufs`, `lastMd`, `lossless`: all the places where a node keeps metadata between updates) -/
structure NState.AllP (P : MEntry → Prop) (s : NState) : Prop where
  items : ∀ it ∈ s.items, AllMd P it.2.2
  bufs : ∀ b ∈ s.bufs, ∀ e ∈ b.2, AllMd P e.2
  lastMd : ∀ l ∈ s.lastMd, AllMd P l
  lossless : ∀ e ∈ s.lossless, AllMd P e.2

def Eff.From (P : MEntry → Prop) : Eff → Prop
  | .emit _ md => AllMd P md
  | .emitThenRelease _ md => AllMd P md
  | .set s => s.AllP P
  | _ => True

/-- every emission and every state written by an effect program only carries entries satisfying `P` -/
def EffsFrom (P : MEntry → Prop) (es : List Eff) : Prop := ∀ e ∈ es, e.From P

@[simp] theorem effsFrom_nil (P : MEntry → Prop) : EffsFrom P [] := fun _ h => by simp at h
@[simp] theorem effsFrom_cons (P : MEntry → Prop) (e : Eff) (es : List Eff) :
    EffsFrom P (e :: es) ↔ e.From P ∧ EffsFrom P es := by
  simp [EffsFrom]
@[simp] theorem effsFrom_append (P : MEntry → Prop) (a b : List Eff) :
    EffsFrom P (a ++ b) ↔ EffsFrom P a ∧ EffsFrom P b := by
  simp only [EffsFrom, List.mem_append]
  exact ⟨fun h => ⟨fun e he => h e (Or.inl he), fun e he => h e (Or.inr he)⟩,
    fun h e he => he.elim (h.1 e) (h.2 e)⟩
@[simp] theorem from_emit (P : MEntry → Prop) (v : Val) (md : Meta) : (Eff.emit v md).From P ↔ AllMd P md := Iff.rfl
@[simp] theorem from_etr (P : MEntry → Prop) (v : Val) (md : Meta) :
    (Eff.emitThenRelease v md).From P ↔ AllMd P md := Iff.rfl
@[simp] theorem from_set (P : MEntry → Prop) (s : NState) : (Eff.set s).From P ↔ s.AllP P := Iff.rfl
@[simp] theorem from_retain (P : MEntry → Prop) (md : Meta) : (Eff.retain md).From P := trivial
@[simp] theorem from_release (P : MEntry → Prop) (md : Meta) : (Eff.release md).From P := trivial
@[simp] theorem from_detach (P : MEntry → Prop) : (Eff.detach).From P := trivial

theorem EffsFrom.outs {P : MEntry → Prop} {es : List Eff} (h : EffsFrom P es) : ∀ o ∈ outsOf es, AllMd P o.2 := by
  induction es with
  | nil => intro o ho; simp at ho
  | cons e es ih =>
    rw [effsFrom_cons] at h
    cases e with
    | emit v md =>
      intro o ho
      simp only [outsOf_emit, List.mem_cons] at ho
      rcases ho with rfl | ho
      · exact h.1
      · exact ih h.2 o ho
    | emitThenRelease v md =>
      intro o ho
      simp only [outsOf_etr, List.mem_cons] at ho
      rcases ho with rfl | ho
      · exact h.1
      · exact ih h.2 o ho
    | retain md => exact ih h.2
    | release md => exact ih h.2
    | set s => exact ih h.2
    | detach => exact ih h.2

theorem EffsFrom.final {P : MEntry → Prop} {es : List Eff} (h : EffsFrom P es) {s : NState} (hs : s.AllP P) :
    (finalLoc es s).AllP P := by
  induction es generalizing s with
  | nil => exact hs
  | cons e es ih =>
    rw [effsFrom_cons] at h
    cases e with
    | set s' => exact ih h.2 h.1
    | emit v md => exact ih h.2 hs
    | emitThenRelease v md => exact ih h.2 hs
    | retain md => exact ih h.2 hs
    | release md => exact ih h.2 hs
    | detach => exact ih h.2 hs

theorem emitAllButLast_from {P : MEntry → Prop} (l : List Val) {md : Meta} (h : AllMd P md) :
    EffsFrom P (emitAllButLast l md) := by
  induction l with
  | nil => simp [emitAllButLast]
  | cons x t ih =>
    cases t with
    | nil => simp [emitAllButLast, h]
    | cons y t => simp only [emitAllButLast, effsFrom_cons, from_emit]; exact ⟨AllMd.nil P, ih⟩

theorem drain_from {P : MEntry → Prop} (l : List (Val × Meta)) (st : NState) (hst : st.AllP P)
    (hl : ∀ e ∈ l, AllMd P e.2) : EffsFrom P (upd.drain l st) := by
  induction l generalizing st with
  | nil => simp [upd.drain]
  | cons e rest ih =>
    obtain ⟨v, m⟩ := e
    have hm : AllMd P m := hl (v, m) (by simp)
    have hrest : ∀ e ∈ rest, AllMd P e.2 := fun e he => hl e (by simp [he])
    have hset : ∀ l ∈ st.lastMd.set 0 m, AllMd P l := by
      intro l hl'
      rcases List.mem_or_eq_of_mem_set hl' with h | h
      · exact hst.lastMd l h
      · rw [h]; exact hm
    have hst' : NState.AllP P { st with lossless := rest, last := st.last.set 0 v, lastMd := st.lastMd.set 0 m } :=
      ⟨hst.items, hst.bufs, hset, hrest⟩
    simp only [upd.drain, List.cons_append, List.nil_append, effsFrom_cons, from_set, from_emit, from_release,
      true_and]
    exact ⟨hst', AllMd.flatMd hset, ih _ hst' hrest⟩

/-- **No entry from nowhere, node level.**  Whatever `upd` emits and whatever it writes into the node state only
carries metadata entries of the arriving element or entries already stored in the node state. -/
theorem upd_effs_from {P : MEntry → Prop} (k : Kind) (s : NState) (who : NodeId) (x : Val) (md : Meta)
    (hmd : AllMd P md) (hs : s.AllP P) : EffsFrom P (upd k s who x md).effs := by
  cases k with
  | source => simp [upd, hmd]
  | union => simp [upd, hmd]
  | sink m => simp [upd]
  | map f => cases h : f.eval x <;> simp [upd, h, hmd]
  | starmap f =>
    cases x with
    | tup l => cases h : f.eval (.tup l) <;> simp [upd, h, hmd]
    | _ => simp [upd]
  | filter p =>
    cases h : p.eval x with
    | error e => simp [upd, h]
    | ok b => by_cases hb : b.truthy = true <;> simp [upd, h, hb, hmd]
  | accumulate f st rs ws =>
    have hacc : ∀ a : Option Val, NState.AllP P { s with acc := a } := fun a =>
      ⟨hs.items, hs.bufs, hs.lastMd, hs.lossless⟩
    simp only [upd]
    split
    · simp [hmd, hacc]
    · split
      · simp
      · split
        · split <;> simp [hmd, hacc]
        · simp [hmd, hacc]
  | slice a b c =>
    have hcnt : NState.AllP P { s with cnt := s.cnt + 1 } := ⟨hs.items, hs.bufs, hs.lastMd, hs.lossless⟩
    have hfin : ∀ (b : Bool), EffsFrom P (if b = true then [Eff.detach] else []) := by
      intro b; cases b <;> simp
    simp only [upd, effsFrom_append, hfin, and_true]
    refine ⟨?_, by simp [hcnt]⟩
    split <;> simp [hmd]
  | unique m key hb =>
    have hseen : ∀ l : List Val, NState.AllP P { s with seen := l } := fun l =>
      ⟨hs.items, hs.bufs, hs.lastMd, hs.lossless⟩
    cases h : key.eval x with
    | error e => simp [upd, h]
    | ok y =>
      by_cases h1 : (hb && !y.hashable) = true
      · simp [upd, h, h1]
      · by_cases h2 : y ∈ s.seen <;> simp [upd, h, h1, h2, hseen, hmd]
  | flatten => cases h : iterVal x <;> simp [upd, h, emitAllButLast_from _ hmd]
  | pluck p =>
    cases p with
    | idx i => cases h : pluckOne x i <;> simp [upd, h, hmd]
    | idxs l => cases h : l.mapM (pluckOne x) <;> simp [upd, h, hmd]
  | collect =>
    have : NState.AllP P { s with items := s.items ++ [(Val.none, x, md)] } := by
      refine ⟨?_, hs.bufs, hs.lastMd, hs.lossless⟩
      intro it hit
      rcases List.mem_append.1 hit with h | h
      · exact hs.items it h
      · simp only [List.mem_singleton] at h; rw [h]; exact hmd
    simp [upd, this]
  | partition n key =>
    simp only [upd]
    split
    · simp [raise_effs]
    · next ky hk =>
      have hitems : ∀ it ∈ s.items ++ [(ky, x, md)], AllMd P it.2.2 := by
        intro it hit
        rcases List.mem_append.1 hit with h | h
        · exact hs.items it h
        · simp only [List.mem_singleton] at h; rw [h]; exact hmd
      split
      · simp [raise_effs]
      · split
        · simp only [effsFrom_cons, from_retain, from_set, from_etr, effsFrom_nil, and_true, true_and]
          refine ⟨⟨fun it hit => hitems it (List.mem_filter.1 hit).1, hs.bufs, hs.lastMd, hs.lossless⟩, ?_⟩
          apply AllMd.flatMd
          intro l hl
          simp only [List.mem_map] at hl
          obtain ⟨it, hit, rfl⟩ := hl
          exact hitems it (List.mem_filter.1 hit).1
        · simp only [effsFrom_cons, from_retain, from_set, effsFrom_nil, and_true, true_and]
          exact ⟨hitems, hs.bufs, hs.lastMd, hs.lossless⟩
  | partitionUnique n key keepLast =>
    simp only [upd]
    split
    · simp [raise_effs]
    · next ky hk =>
      split
      · simp [raise_effs]
      · -- the new buffer, whichever branch computed it, only holds old items and the new one
        have hnew : ∀ it ∈ s.items ++ [(ky, x, md)], AllMd P it.2.2 := by
          intro it hit
          rcases List.mem_append.1 hit with h | h
          · exact hs.items it h
          · simp only [List.mem_singleton] at h; rw [h]; exact hmd
        have hrelT : ∀ (o : Option (Val × Val × Meta)),
            EffsFrom P (match o with
              | some it => (if it.2.2.isEmpty then [] else [Eff.release it.2.2])
              | none => []) := by
          intro o; cases o with
          | none => simp
          | some it => simp only []; split <;> simp
        have key : ∀ (items : List (Val × Val × Meta)) (rel : List Eff),
            (∀ it ∈ items, AllMd P it.2.2) → EffsFrom P rel →
            EffsFrom P (if items.length = n then
                ({ effs := [.retain md] ++ rel ++ [.set { s with items := [] },
                    .emit (.tup (items.map (·.2.1))) (flatMd (items.map (·.2.2))),
                    .release (flatMd (items.map (·.2.2)))] } : UpdRes)
              else { effs := [.retain md] ++ rel ++ [.set { s with items := items }], passRet := false }).effs := by
          intro items rel hi hr
          split
          · simp only [effsFrom_append, effsFrom_cons, from_retain, from_set, from_emit, from_release,
              effsFrom_nil, and_true, true_and]
            refine ⟨hr, ⟨fun it hit => by simp at hit, hs.bufs, hs.lastMd, hs.lossless⟩, ?_⟩
            apply AllMd.flatMd
            intro l hl
            simp only [List.mem_map] at hl
            obtain ⟨it, hit, rfl⟩ := hl
            exact hi it hit
          · simp only [effsFrom_append, effsFrom_cons, from_retain, from_set, effsFrom_nil, and_true, true_and]
            exact ⟨hr, hi, hs.bufs, hs.lastMd, hs.lossless⟩
        cases keepLast with
        | true =>
          simp only [if_true]
          refine key _ _ ?_ (hrelT _)
          intro it hit
          rcases List.mem_append.1 hit with h | h
          · exact hs.items it (List.mem_filter.1 h).1
          · exact hnew it (List.mem_append.2 (Or.inr h))
        | false =>
          simp only [Bool.false_eq_true, if_false]
          cases hp : s.items.find? (fun it => decide (it.1 = ky)) with
          | some it0 => exact key _ _ hs.items (by simp)
          | none => exact key _ _ hnew (by simp)
  | slidingWindow n part =>
    have hmds : ∀ it ∈ (s.items ++ [(Val.none, Val.none, md)]).drop ((s.items.length + 1) - n),
        AllMd P it.2.2 := by
      intro it hit
      rcases List.mem_append.1 (List.mem_of_mem_drop hit) with h | h
      · exact hs.items it h
      · simp only [List.mem_singleton] at h; rw [h]; exact hmd
    simp only [upd]
    split
    · simp only [List.cons_append, List.nil_append, effsFrom_cons, from_retain, from_set, from_emit, true_and]
      refine ⟨⟨hmds, hs.bufs, hs.lastMd, hs.lossless⟩, ?_, ?_⟩
      · apply AllMd.flatMd
        intro l hl
        simp only [List.mem_map] at hl
        obtain ⟨it, hit, rfl⟩ := hl
        exact hmds it hit
      · split
        · split
          · next h t hht =>
            simp only [effsFrom_cons, from_set, from_release, effsFrom_nil, and_true]
            exact ⟨fun it hit => hmds it (by rw [hht]; simp [hit]), hs.bufs, hs.lastMd, hs.lossless⟩
          · simp
        · simp
    · simp only [effsFrom_cons, from_retain, from_set, effsFrom_nil, and_true, true_and]
      exact ⟨hmds, hs.bufs, hs.lastMd, hs.lossless⟩
  | zip lits =>
    simp only [upd]
    split
    · simp [raise_effs]
    · next w L hfind =>
      have hL : ∀ e ∈ L, AllMd P e.2 := by
        have := List.mem_of_find?_eq_some hfind
        exact hs.bufs _ this
      have hL' : ∀ e ∈ L ++ [(x, md)], AllMd P e.2 := by
        intro e he
        rcases List.mem_append.1 he with h | h
        · exact hL e h
        · simp only [List.mem_singleton] at h; rw [h]; exact hmd
      have hbufs : ∀ b ∈ s.bufs.map (fun b => if b.1 = who then (b.1, L ++ [(x, md)]) else b),
          ∀ e ∈ b.2, AllMd P e.2 := by
        intro b hb
        simp only [List.mem_map] at hb
        obtain ⟨b0, hb0, rfl⟩ := hb
        split
        · exact hL'
        · exact hs.bufs b0 hb0
      split
      · simp only [effsFrom_cons, from_retain, from_set, from_emit, from_release, effsFrom_nil, and_true,
          true_and]
        refine ⟨⟨hs.items, ?_, hs.lastMd, hs.lossless⟩, ?_⟩
        · intro b hb
          simp only [List.mem_map] at hb
          obtain ⟨b1, hb1, rfl⟩ := hb
          intro e he
          exact hbufs b1 (by simpa using hb1) e (List.mem_of_mem_tail he)
        · apply AllMd.flatMd
          intro l hl
          simp only [List.mem_map, List.mem_filterMap] at hl
          obtain ⟨hd, ⟨u, _, hu⟩, rfl⟩ := hl
          cases hf : List.find? (fun b => decide (b.1 = u))
              (s.bufs.map (fun b => if b.1 = who then (b.1, L ++ [(x, md)]) else b)) with
          | none => rw [hf] at hu; simp at hu
          | some b =>
            rw [hf] at hu
            simp only [Option.bind_some] at hu
            exact hbufs b (List.mem_of_find?_eq_some hf) hd (List.mem_of_head? hu)
      · simp only [effsFrom_cons, from_retain, from_set, effsFrom_nil, and_true, true_and]
        exact ⟨hs.items, hbufs, hs.lastMd, hs.lossless⟩
  | combineLatest eo =>
    simp only [upd]
    split
    · simp [raise_effs]
    · next idx hidx =>
      have hset : ∀ l ∈ s.lastMd.set idx md, AllMd P l := by
        intro l hl
        rcases List.mem_or_eq_of_mem_set hl with h | h
        · exact hs.lastMd l h
        · rw [h]; exact hmd
      have hrel : EffsFrom P (if (s.lastMd.getD idx []).isEmpty then [] else [Eff.release (s.lastMd.getD idx [])]) := by
        split <;> simp
      have hs1 : NState.AllP P { s with lastMd := s.lastMd.set idx md, last := s.last.set idx x,
                                        missing := s.missing.filter (· ≠ who) } :=
        ⟨hs.items, hs.bufs, hset, hs.lossless⟩
      split
      · simp only [effsFrom_append, effsFrom_cons, from_retain, from_set, from_emit, effsFrom_nil, and_true,
          true_and]
        exact ⟨hrel, hs1, AllMd.flatMd hset⟩
      · simp only [effsFrom_append, effsFrom_cons, from_retain, from_set, effsFrom_nil, and_true, true_and]
        exact ⟨hrel, hs1⟩
  | zipLatest =>
    simp only [upd]
    split
    · simp [raise_effs]
    · next idx hidx =>
      have hset : ∀ l ∈ s.lastMd.set idx md, AllMd P l := by
        intro l hl
        rcases List.mem_or_eq_of_mem_set hl with h | h
        · exact hs.lastMd l h
        · rw [h]; exact hmd
      have hloss : ∀ e ∈ (if idx = 0 then s.lossless ++ [(x, md)] else s.lossless), AllMd P e.2 := by
        intro e he
        split at he
        · rcases List.mem_append.1 he with h | h
          · exact hs.lossless e h
          · simp only [List.mem_singleton] at h; rw [h]; exact hmd
        · exact hs.lossless e he
      have hrel : EffsFrom P (if (!decide (idx = 0)) = true ∧ (!(s.lastMd.getD idx []).isEmpty) = true
          then [Eff.release (s.lastMd.getD idx [])] else []) := by
        split <;> simp
      have hs1 : NState.AllP P { s with lossless := if idx = 0 then s.lossless ++ [(x, md)] else s.lossless,
                                        lastMd := s.lastMd.set idx md, last := s.last.set idx x,
                                        missing := s.missing.filter (· ≠ who) } :=
        ⟨hs.items, hs.bufs, hset, hloss⟩
      split
      · simp only [effsFrom_append, effsFrom_cons, from_retain, from_set, effsFrom_nil, and_true, true_and]
        exact ⟨⟨hrel, hs1⟩, drain_from _ _ hs1 hloss⟩
      · simp only [effsFrom_append, effsFrom_cons, from_retain, from_set, effsFrom_nil, and_true, true_and]
        exact ⟨hrel, hs1⟩

/-- Over any arrival list: outputs and final state of a node run in isolation only carry entries of the arrivals'
metadata or of the metadata stored in the start state. -/
theorem localRun_from {P : MEntry → Prop} (k : Kind) (s : NState) (as : List Arr) (hs : s.AllP P)
    (has : ∀ a ∈ as, AllMd P a.2.2) :
    (localRun k s as).1.AllP P ∧ ∀ o ∈ (localRun k s as).2, AllMd P o.2 := by
  induction as generalizing s with
  | nil => exact ⟨hs, fun o ho => by simp [localRun] at ho⟩
  | cons a as ih =>
    have h1 := upd_effs_from k s a.1 a.2.1 a.2.2 (has a (by simp)) hs
    obtain ⟨ih1, ih2⟩ := ih (finalLoc (upd k s a.1 a.2.1 a.2.2).effs s) (h1.final hs)
      (fun b hb => has b (by simp [hb]))
    refine ⟨ih1, ?_⟩
    intro o ho
    simp only [localRun, stepLoc, List.mem_append] at ho
    rcases ho with ho | ho
    · exact h1.outs o ho
    · exact ih2 o ho

/-! #### whole runs of the interpreter -/

def Ev.From (P : MEntry → Prop) : Ev → Prop
  | .arrive _ _ _ md => AllMd P md
  | .emit _ _ md => AllMd P md
  | .sinkStart _ _ _ md => AllMd P md
  | _ => True

/-- every metadata list appearing in the log (arrivals, emissions, consumer invocations) only has entries
satisfying `P` -/
def LogFrom (P : MEntry → Prop) (l : List Ev) : Prop := ∀ ev ∈ l, ev.From P

def Call.From (P : MEntry → Prop) : Call → Prop
  | .emit _ _ md => AllMd P md
  | .deliver _ _ _ md => AllMd P md
  | .update _ _ _ md => AllMd P md
  | .effs _ es => EffsFrom P es

/-- all metadata stored in any node's state only has entries satisfying `P` -/
def State.AllP (P : MEntry → Prop) (S : State) : Prop := ∀ j, (S.loc j).AllP P

theorem LogFrom.nil (P : MEntry → Prop) : LogFrom P [] := fun _ h => by simp at h
theorem LogFrom.append {P : MEntry → Prop} {a b : List Ev} (ha : LogFrom P a) (hb : LogFrom P b) :
    LogFrom P (a ++ b) := by
  intro ev hev
  rcases List.mem_append.1 hev with h | h
  · exact ha ev h
  · exact hb ev h
theorem LogFrom.cons {P : MEntry → Prop} {e : Ev} {l : List Ev} (he : e.From P) (hl : LogFrom P l) :
    LogFrom P (e :: l) := by
  intro ev hev
  rcases List.mem_cons.1 hev with rfl | h
  · exact he
  · exact hl ev h
theorem retainMd_from (P : MEntry → Prop) (k : Nat) (md : Meta) (S : State) : LogFrom P (retainMd k md S).2 := by
  induction md generalizing S with
  | nil => exact LogFrom.nil P
  | cons m ms ih =>
    unfold retainMd
    split
    · exact ih S
    · exact LogFrom.cons trivial (ih _)
theorem releaseMd_from (P : MEntry → Prop) (md : Meta) (S : State) : LogFrom P (releaseMd md S).2 := by
  induction md generalizing S with
  | nil => exact LogFrom.nil P
  | cons m ms ih =>
    unfold releaseMd
    split
    · exact ih S
    · simp only []
      refine LogFrom.cons trivial ?_
      split
      · exact LogFrom.cons trivial (ih _)
      · exact ih _
theorem emitPre_from (P : MEntry → Prop) (S : State) (n : NodeId) (md : Meta) : LogFrom P (emitPre S n md).2 := by
  unfold emitPre; split
  · exact LogFrom.nil P
  · exact retainMd_from P _ _ _
theorem etrPost_from (P : MEntry → Prop) (md : Meta) (toks : List Tok) (S : State) :
    LogFrom P (etrPost md toks S).2 := by
  unfold etrPost; split
  · exact releaseMd_from P _ _
  · exact LogFrom.nil P

theorem State.AllP.of_loc_eq {P : MEntry → Prop} {S S' : State} (h : S.AllP P) (e : S'.loc = S.loc) :
    S'.AllP P := fun j => by rw [e]; exact h j
theorem State.AllP.setLoc {P : MEntry → Prop} {S : State} (h : S.AllP P) (d : NodeId) {s : NState}
    (hs : s.AllP P) : (S.setLoc d s).AllP P := by
  intro j
  by_cases hj : j = d
  · subst hj; rw [setLoc_same]; exact hs
  · rw [setLoc_other S s hj]; exact h j

theorem sinkRes_from {P : MEntry → Prop} (m : SinkMode) (d who : NodeId) (v : Val) (md : Meta) (S : State)
    (hmd : AllMd P md) : LogFrom P (sinkRes m d who v md S).log := by
  unfold sinkRes
  cases m with
  | sync fn =>
    simp only []
    split
    · exact LogFrom.cons hmd (LogFrom.nil P)
    · exact LogFrom.cons hmd (LogFrom.cons trivial (LogFrom.nil P))
  | async =>
    simp only []
    refine LogFrom.append (LogFrom.cons hmd (LogFrom.cons hmd (LogFrom.nil P))) ?_
    split
    · exact LogFrom.nil P
    · exact retainMd_from P _ _ _

theorem updWrap_from {P : MEntry → Prop} {k : Kind} {d who : NodeId} {v : Val} {md : Meta} {u : UpdRes} {r : Res}
    (hmd : AllMd P md) (hr : LogFrom P r.log) : LogFrom P (updWrap k d who v md u r).log := by
  have h1 : LogFrom P (Ev.arrive d who v md :: r.log) := LogFrom.cons hmd hr
  have h2 : ∀ e, LogFrom P (Ev.arrive d who v md :: r.log ++ [Ev.raised d e]) := fun e =>
    LogFrom.append (a := Ev.arrive d who v md :: r.log) h1 (LogFrom.cons trivial (LogFrom.nil P))
  unfold updWrap
  cases r.err <;> cases u.err <;> simp only [] <;> split <;> (try split) <;> first | exact h1 | exact h2 _

theorem interp_zero_log (G : NodeId → Kind) (c : Call) (S : State) : (interp G 0 c S).log = [] := by
  cases c <;> simp only [interp]
  · rw [emitAt.eq_1]; rfl
  · rw [deliver.eq_1]; rfl
  · rw [update.eq_1]; rfl
  · rw [runEffs.eq_1]; rfl

/-- **No entry from nowhere, run level.**  For every graph (cyclic or not), every fuel and every call of the
interpreter — successful, failing or out of fuel — if the metadata handed in and all metadata stored in node
states only have entries satisfying `P`, then so has every metadata list in the log and in the final state. -/
theorem interp_md_closed (G : NodeId → Kind) {P : MEntry → Prop} (f : Nat) : ∀ (c : Call) (S : State),
    c.From P → S.AllP P → LogFrom P (interp G f c S).log ∧ (interp G f c S).st.AllP P := by
  induction f with
  | zero => intro c S _ hS; rw [interp_zero_log, interp_zero_st]; exact ⟨LogFrom.nil P, hS⟩
  | succ f ih =>
    intro c S hc hS
    cases c with
    | emit n v md =>
      simp only [interp]
      rw [emitAt_succ]
      have := ih (.deliver (S.downs n) n v md) (emitPre S n md).1 hc (hS.of_loc_eq (by simp))
      simp only [interp] at this
      exact ⟨LogFrom.cons hc (LogFrom.append (emitPre_from P S n md) this.1), this.2⟩
    | deliver ds n v md =>
      simp only [interp]
      cases ds with
      | nil => rw [deliver_nil]; exact ⟨LogFrom.nil P, hS⟩
      | cons d ds =>
        rw [deliver_cons]
        have h1 := ih (.update d n v md) S hc hS
        simp only [interp] at h1
        simp only []
        split
        · exact h1
        · have h2 := ih (.deliver ds n v md) (releaseMd md (update G f d n v md S).st).1 hc
            (h1.2.of_loc_eq (by simp))
          simp only [interp] at h2
          exact ⟨LogFrom.append (LogFrom.append h1.1 (releaseMd_from P _ _)) h2.1, h2.2⟩
    | update d who v md =>
      simp only [interp]
      by_cases hs : ∃ m, G d = .sink m
      · obtain ⟨m, hm⟩ := hs
        rw [update_sink G _ _ _ _ _ _ m hm]
        exact ⟨sinkRes_from m d who v md S hc, hS.of_loc_eq (sinkRes_loc _ _ _ _ _ _)⟩
      · have hs' : ∀ m, G d ≠ .sink m := fun m hm => hs ⟨m, hm⟩
        rw [update_other G _ _ _ _ _ _ hs', updWrap_st]
        have := ih (.effs d (upd (G d) (S.loc d) who v md).effs) S
          (upd_effs_from (G d) (S.loc d) who v md hc (hS d)) hS
        simp only [interp] at this
        exact ⟨updWrap_from hc this.1, this.2⟩
    | effs d es =>
      simp only [interp]
      cases es with
      | nil => rw [runEffs_nil]; exact ⟨LogFrom.nil P, hS⟩
      | cons e es =>
        rw [runEffs_cons]
        have hc' : e.From P ∧ EffsFrom P es := (effsFrom_cons P e es).1 hc
        cases e with
        | retain md =>
          have := ih (.effs d es) (retainMd 1 md S).1 hc'.2 (hS.of_loc_eq (by simp))
          simp only [interp] at this
          exact ⟨LogFrom.append (retainMd_from P _ _ _) this.1, this.2⟩
        | release md =>
          have := ih (.effs d es) (releaseMd md S).1 hc'.2 (hS.of_loc_eq (by simp))
          simp only [interp] at this
          exact ⟨LogFrom.append (releaseMd_from P _ _) this.1, this.2⟩
        | set s =>
          have := ih (.effs d es) (S.setLoc d s) hc'.2 (hS.setLoc d hc'.1)
          simpa only [interp] using this
        | detach =>
          have := ih (.effs d es) (detachNode d S) hc'.2 (hS.of_loc_eq (by simp))
          simpa only [interp] using this
        | emit v md =>
          have h1 := ih (.emit d v md) S hc'.1 hS
          simp only [interp] at h1
          simp only []
          split
          · exact h1
          · have h2 := ih (.effs d es) (emitAt G f d v md S).st hc'.2 h1.2
            simp only [interp] at h2
            exact ⟨LogFrom.append h1.1 h2.1, h2.2⟩
        | emitThenRelease v md =>
          have h1 := ih (.emit d v md) S hc'.1 hS
          simp only [interp] at h1
          simp only []
          split
          · exact h1
          · split
            · exact h1
            · have h2 := ih (.effs d es) (etrPost md (emitAt G f d v md S).toks (emitAt G f d v md S).st).1 hc'.2
                (h1.2.of_loc_eq (by simp))
              simp only [interp] at h2
              exact ⟨LogFrom.append (LogFrom.append h1.1 (etrPost_from P _ _ _)) h2.1, h2.2⟩

/-! ### 4. Batching kinds -/

/-- A batch built from the members `ms` (value, metadata): the tuple of the values, carrying the concatenation
of the members' metadata in member order. -/
def packMd (ms : List (Val × Meta)) : Val × Meta := (.tup (ms.map (·.1)), (ms.map (·.2)).flatten)

theorem packMd_items (l : List (Val × Val × Meta)) :
    ((Val.tup (l.map (·.2.1)), flatMd (l.map (·.2.2))) : Val × Meta) = packMd (l.map (·.2)) := by
  simp [packMd, flatMd, List.map_map, Function.comp_def]

/-- evaluate `finalLoc` / `outsOf` on a literal effect program -/
macro "c10_eff_simp" : tactic =>
  `(tactic| simp only [finalLoc_nil, finalLoc_set, finalLoc_emit, finalLoc_etr, finalLoc_retain, finalLoc_release,
      finalLoc_detach, outsOf_nil, outsOf_emit, outsOf_etr, outsOf_set, outsOf_retain, outsOf_release,
      outsOf_detach, List.cons_append, List.nil_append, raise_effs, packMd_items])

/-- One step of a buffering node (`items` is the buffer of (key, value, metadata)): the new buffer and the
members of every emitted batch are drawn, in order and without repetition, from `old buffer ++ [arrival]`, and
the batch carries exactly its members' metadata. `Q` is an extra fact about the members (e.g. their number). -/
def BufStep (Q : List (Val × Meta) → Prop) (k : Kind) : Prop :=
  ∀ (s : NState) (a : Arr),
    ((stepLoc k s a).1.items.map (·.2)).Sublist (s.items.map (·.2) ++ [a.2]) ∧
    ∀ o ∈ (stepLoc k s a).2, ∃ ms, ms.Sublist (s.items.map (·.2) ++ [a.2]) ∧ Q ms ∧ o = packMd ms

theorem BufStep.localRun {Q : List (Val × Meta) → Prop} {k : Kind} (h : BufStep Q k) (s : NState)
    (as : List Arr) :
    ((localRun k s as).1.items.map (·.2)).Sublist (s.items.map (·.2) ++ as.map (·.2)) ∧
    ∀ o ∈ (localRun k s as).2, ∃ ms, ms.Sublist (s.items.map (·.2) ++ as.map (·.2)) ∧ Q ms ∧ o = packMd ms := by
  induction as generalizing s with
  | nil => exact ⟨by simp [Graph.localRun], fun o ho => by simp [Graph.localRun] at ho⟩
  | cons a as ih =>
    obtain ⟨h1, h2⟩ := h s a
    obtain ⟨ih1, ih2⟩ := ih (stepLoc k s a).1
    have hsub : (((stepLoc k s a).1.items.map (·.2)) ++ as.map (·.2)).Sublist
        (s.items.map (·.2) ++ (a :: as).map (·.2)) := by
      have := h1.append (List.Sublist.refl (as.map (·.2)))
      simpa using this
    refine ⟨ih1.trans hsub, ?_⟩
    intro o ho
    simp only [Graph.localRun, List.mem_append] at ho
    rcases ho with ho | ho
    · obtain ⟨ms, hms, hq, e⟩ := h2 o ho
      refine ⟨ms, hms.trans ?_, hq, e⟩
      simp
    · obtain ⟨ms, hms, hq, e⟩ := ih2 o ho
      exact ⟨ms, hms.trans hsub, hq, e⟩

/-- `partition`'s key -/
def partKeyOf (key : Option Fn) (x : Val) : Except Err Val :=
  match key with
  | none => .ok .none
  | some kf => kf.eval x

/-- One `partition.update`, exactly: the arrival is appended to the buffer; when its key group reaches `n` the
group is emitted as one batch and removed. -/
theorem partition_step (n : Nat) (key : Option Fn) (s : NState) (who : NodeId) (x : Val) (md : Meta) :
    stepLoc (.partition n key) s (who, x, md) =
      match partKeyOf key x with
      | .error _ => (s, [])
      | .ok ky =>
        if ky.hashable then
          if ((s.items ++ [(ky, x, md)]).filter (fun it => it.1 = ky)).length = n then
            ({ s with items := (s.items ++ [(ky, x, md)]).filter (fun it => it.1 ≠ ky) },
              [packMd (((s.items ++ [(ky, x, md)]).filter (fun it => it.1 = ky)).map (·.2))])
          else ({ s with items := s.items ++ [(ky, x, md)] }, [])
        else (s, []) := by
  cases key with
  | none =>
    simp only [stepLoc, upd, partKeyOf, Val.hashable, Bool.not_true, Bool.false_eq_true, if_false, if_true]
    split
    · c10_eff_simp
    · c10_eff_simp
  | some kf =>
    simp only [stepLoc, upd, partKeyOf]
    cases hk : kf.eval x with
    | error e => simp [raise_effs]
    | ok ky =>
      simp only []
      by_cases hh : ky.hashable = true
      · simp only [hh, Bool.not_true, Bool.false_eq_true, if_false, if_true]
        split
        · c10_eff_simp
        · c10_eff_simp
      · simp [hh, raise_effs]

theorem partition_bufStep (n : Nat) (key : Option Fn) :
    BufStep (fun ms => ms.length = n) (.partition n key) := by
  intro s a
  obtain ⟨who, x, md⟩ := a
  rw [partition_step]
  split
  · exact ⟨by simp, fun o ho => by simp at ho⟩
  · next ky hk =>
    split
    · split
      · next hlen =>
        refine ⟨?_, ?_⟩
        · have := (List.filter_sublist (p := fun it => decide (it.1 ≠ ky))
            (l := s.items ++ [(ky, x, md)])).map (·.2)
          simpa using this
        · intro o ho
          simp only [List.mem_singleton] at ho
          refine ⟨_, ?_, ?_, ho⟩
          · have := (List.filter_sublist (p := fun it => decide (it.1 = ky))
              (l := s.items ++ [(ky, x, md)])).map (·.2)
            simpa using this
          · simpa using hlen
      · exact ⟨by simp, fun o ho => by simp at ho⟩
    · exact ⟨by simp, fun o ho => by simp at ho⟩

/-- consecutive full chunks of `n`, starting with a partial chunk `cur` -/
def chunksFrom {α : Type} (n : Nat) : List α → List α → List (List α)
  | _, [] => []
  | cur, x :: xs =>
    if (cur ++ [x]).length = n then (cur ++ [x]) :: chunksFrom n [] xs else chunksFrom n (cur ++ [x]) xs

/-- `partition(n)` without a key, over any arrival list: the outputs are the consecutive chunks of `n`
arrivals, each carrying the concatenation of its members' metadata in arrival order. -/
theorem partition_nokey_outputs (n : Nat) (s : NState) (hs : ∀ it ∈ s.items, it.1 = Val.none)
    (as : List Arr) :
    (localRun (.partition n none) s as).2 = (chunksFrom n (s.items.map (·.2)) (as.map (·.2))).map packMd := by
  induction as generalizing s with
  | nil => simp [localRun, chunksFrom]
  | cons a as ih =>
    obtain ⟨who, x, md⟩ := a
    have hall : ∀ it ∈ s.items ++ [(Val.none, x, md)], it.1 = Val.none := by
      intro it hit
      rcases List.mem_append.1 hit with h | h
      · exact hs it h
      · simp only [List.mem_singleton] at h; rw [h]
    have hf1 : (s.items ++ [(Val.none, x, md)]).filter (fun it => it.1 = Val.none) = s.items ++ [(Val.none, x, md)] :=
      List.filter_eq_self.2 (fun it hit => by simp [hall it hit])
    have hf2 : (s.items ++ [(Val.none, x, md)]).filter (fun it => it.1 ≠ Val.none) = [] :=
      List.filter_eq_nil_iff.2 (fun it hit => by simp [hall it hit])
    simp only [localRun, partition_step, partKeyOf, Val.hashable, if_true, hf1, hf2, List.map_cons, chunksFrom]
    have hlen : (s.items ++ [(Val.none, x, md)]).length = (s.items.map (·.2) ++ [(x, md)]).length := by simp
    by_cases hn : (s.items ++ [(Val.none, x, md)]).length = n
    · have hn' : (s.items.map (·.2) ++ [(x, md)]).length = n := hlen ▸ hn
      rw [if_pos hn, if_pos hn']
      simp only [List.map_cons, List.singleton_append]
      rw [ih _ (by simp)]
      simp
    · have hn' : ¬ (s.items.map (·.2) ++ [(x, md)]).length = n := fun h => hn (hlen ▸ h)
      rw [if_neg hn, if_neg hn']
      simp only [List.nil_append]
      rw [ih _ hall]
      simp

/-- the buffer of `partition_unique` after an arrival with key `ky` -/
def puBuffer (keepLast : Bool) (items : List (Val × Val × Meta)) (ky x : Val) (md : Meta) :
    List (Val × Val × Meta) :=
  if keepLast then items.filter (fun it => it.1 ≠ ky) ++ [(ky, x, md)]
  else if items.any (fun it => it.1 = ky) then items else items ++ [(ky, x, md)]

/-- One `partition_unique.update`, exactly: with `keep = "last"` a buffered element with the same key is
*replaced* (dropped, the new one goes to the end), with `keep = "first"` the new element is dropped; when the
buffer reaches `n` distinct keys all of it is emitted as one batch. Dropped / replaced elements are not in the
buffer any more, so they contribute neither a member nor metadata. -/
theorem partitionUnique_step (n : Nat) (key : Fn) (keepLast : Bool) (s : NState) (who : NodeId) (x : Val)
    (md : Meta) :
    stepLoc (.partitionUnique n key keepLast) s (who, x, md) =
      match key.eval x with
      | .error _ => (s, [])
      | .ok ky =>
        if ky.hashable then
          if (puBuffer keepLast s.items ky x md).length = n then
            ({ s with items := [] }, [packMd ((puBuffer keepLast s.items ky x md).map (·.2))])
          else ({ s with items := puBuffer keepLast s.items ky x md }, [])
        else (s, []) := by
  cases hk : key.eval x with
  | error e => simp [stepLoc, upd, hk, raise_effs]
  | ok ky =>
    by_cases hh : ky.hashable = true
    · cases keepLast with
      | true =>
        simp only [stepLoc, upd, hk, hh, Bool.not_true, Bool.false_eq_true, if_false, if_true, puBuffer]
        cases hp : s.items.find? (fun it => decide (it.1 = ky)) with
        | none => simp only []; split <;> c10_eff_simp
        | some it0 =>
          simp only []
          by_cases he : it0.2.2.isEmpty = true
          · simp only [he, if_true]; split <;> c10_eff_simp
          · simp only [he, Bool.false_eq_true, if_false]; split <;> c10_eff_simp
      | false =>
        simp only [stepLoc, upd, hk, hh, Bool.not_true, Bool.false_eq_true, if_false, if_true, puBuffer]
        cases hp : s.items.find? (fun it => decide (it.1 = ky)) with
        | some it0 =>
          have hany : s.items.any (fun it => decide (it.1 = ky)) = true := by
            rw [List.any_eq_true]
            exact ⟨it0, List.mem_of_find?_eq_some hp, List.find?_some (p := fun (it : Val × Val × Meta) => decide (it.1 = ky)) hp⟩
          simp only [hany, if_true]
          split
          · c10_eff_simp
          · c10_eff_simp
        | none =>
          have hany : s.items.any (fun it => decide (it.1 = ky)) = false := by
            rw [List.any_eq_false]
            intro it hit
            have := List.find?_eq_none.1 hp it hit
            simpa using this
          simp only [hany, Bool.false_eq_true, if_false]
          split
          · c10_eff_simp
          · c10_eff_simp
    · simp [stepLoc, upd, hk, hh, raise_effs]

theorem puBuffer_sublist (keepLast : Bool) (items : List (Val × Val × Meta)) (ky x : Val) (md : Meta) :
    (puBuffer keepLast items ky x md).Sublist (items ++ [(ky, x, md)]) := by
  unfold puBuffer
  split
  · exact List.filter_sublist.append (List.Sublist.refl _)
  · split
    · exact List.sublist_append_left _ _
    · exact List.Sublist.refl _

theorem partitionUnique_bufStep (n : Nat) (key : Fn) (keepLast : Bool) :
    BufStep (fun ms => ms.length = n) (.partitionUnique n key keepLast) := by
  intro s a
  obtain ⟨who, x, md⟩ := a
  rw [partitionUnique_step]
  split
  · exact ⟨by simp, fun o ho => by simp at ho⟩
  · next ky hk =>
    have hsub := (puBuffer_sublist keepLast s.items ky x md).map (·.2)
    simp only [List.map_append, List.map_cons, List.map_nil] at hsub
    split
    · split
      · next hlen =>
        refine ⟨by simp, ?_⟩
        intro o ho
        simp only [List.mem_singleton] at ho
        exact ⟨_, hsub, by simpa using hlen, ho⟩
      · exact ⟨hsub, fun o ho => by simp at ho⟩
    · exact ⟨by simp, fun o ho => by simp at ho⟩

/-! #### collect -/

theorem collect_step (s : NState) (a : Arr) :
    stepLoc .collect s a = ({ s with items := s.items ++ [(Val.none, a.2.1, a.2.2)] }, []) := by
  simp [stepLoc, upd]

/-- `collect` emits nothing by itself and caches every arrival, with its metadata, in arrival order. -/
theorem collect_localRun (s : NState) (as : List Arr) :
    localRun .collect s as =
      ({ s with items := s.items ++ as.map (fun a => (Val.none, a.2.1, a.2.2)) }, []) := by
  induction as generalizing s with
  | nil => simp [localRun]
  | cons a as ih => simp [localRun, collect_step, ih]

/-- `collect.flush()`: one batch of everything cached, carrying the concatenation of the members' metadata in
arrival order; the cache is emptied. -/
theorem flush_outs (s : NState) :
    outsOf (flushProg s) = [packMd (s.items.map (·.2))] ∧ finalLoc (flushProg s) s = { s with items := [] } := by
  simp [flushProg, packMd_items]

theorem collect_flush (s : NState) (as : List Arr) :
    outsOf (flushProg (localRun .collect s as).1) = [packMd (s.items.map (·.2) ++ as.map (·.2))] := by
  rw [(flush_outs _).1, collect_localRun]
  simp [List.map_map, Function.comp_def]

theorem flushProg_from {P : MEntry → Prop} (s : NState) (hs : s.AllP P) : EffsFrom P (flushProg s) := by
  simp only [flushProg, effsFrom_cons, from_emit, from_release, from_set, effsFrom_nil, and_true, true_and]
  refine ⟨?_, fun it hit => by simp at hit, hs.bufs, hs.lastMd, hs.lossless⟩
  apply AllMd.flatMd
  intro l hl
  simp only [List.mem_map] at hl
  obtain ⟨it, hit, rfl⟩ := hl
  exact hs.items it hit

/-! #### sliding_window -/

theorem lastN_length_le {α : Type} (n : Nat) (l : List α) : (lastN n l).length ≤ n := by
  simp only [lastN, List.length_drop]; omega

theorem lastN_map {α β : Type} (f : α → β) (n : Nat) (l : List α) : (lastN n l).map f = lastN n (l.map f) := by
  simp [lastN, List.map_drop]

/-- appending to the bounded buffer = appending to the whole history and cutting again -/
theorem lastN_lastN_append {α : Type} (n : Nat) (h : List α) (a : α) :
    lastN n (lastN n h ++ [a]) = lastN n (h ++ [a]) := by
  unfold lastN
  rw [← List.drop_append_of_le_length (by omega), List.drop_drop]
  congr 1
  simp only [List.length_append, List.length_drop, List.length_singleton]
  omega

/-- The two deques of `sliding_window` describe the same member list `L` of (value, metadata): the value
window `win` is its first components; the metadata deque `items` is its second components — either all of them
(window not yet emitted, or a downstream exception skipped the `popleft` after the emission), or all but the
head (the head was released after a full window was emitted). -/
structure SWInv (n : Nat) (s : NState) (L : List (Val × Meta)) : Prop where
  win : s.win = L.map (·.1)
  mds : s.items.map (·.2.2) = L.map (·.2) ∨ (L.length = n ∧ s.items.map (·.2.2) = L.tail.map (·.2))
  len : L.length ≤ n

theorem SWInv.init (n : Nat) (s : NState) (hw : s.win = []) (hi : s.items = []) : SWInv n s [] :=
  ⟨by simp [hw], Or.inl (by simp [hi]), Nat.zero_le _⟩

/-- the new value window and the new metadata deque of one `sliding_window.update`, in terms of `L` -/
theorem slidingWindow_buffers (n : Nat) (s : NState) (L : List (Val × Meta)) (h : SWInv n s L) (x : Val)
    (md : Meta) :
    (s.win ++ [x]).drop ((s.win.length + 1) - n) = (lastN n (L ++ [(x, md)])).map (·.1) ∧
    ((s.items ++ [(Val.none, Val.none, md)]).drop ((s.items.length + 1) - n)).map (·.2.2)
      = (lastN n (L ++ [(x, md)])).map (·.2) := by
  obtain ⟨hw, hm, hlen⟩ := h
  have hwl : s.win.length = L.length := by rw [hw]; simp
  refine ⟨?_, ?_⟩
  · rw [lastN_map, hwl]
    simp [lastN, hw]
  · rw [List.map_drop, List.map_append, lastN_map]
    rcases hm with hm | ⟨hf, hm⟩
    · have hil : s.items.length = L.length := by
        have := congrArg List.length hm
        simpa using this
      rw [hm, hil]
      simp [lastN]
    · have hil : s.items.length = L.tail.length := by
        have := congrArg List.length hm
        simpa using this
      rw [hm, hil]
      cases L with
      | nil =>
        have hn : n = 0 := by simpa using hf.symm
        subst hn; simp [lastN]
      | cons y t =>
        have hn : n = t.length + 1 := by simpa using hf.symm
        subst hn
        simp [lastN]

/-- One `sliding_window.update` under the invariant: the window becomes the last `n` of `L ++ [arrival]`, and
when it is emitted the tuple's metadata is the concatenation of the members' metadata in member order. -/
theorem slidingWindow_step (n : Nat) (part : Bool) (s : NState) (L : List (Val × Meta)) (h : SWInv n s L)
    (who : NodeId) (x : Val) (md : Meta) :
    SWInv n (stepLoc (.slidingWindow n part) s (who, x, md)).1 (lastN n (L ++ [(x, md)])) ∧
    (stepLoc (.slidingWindow n part) s (who, x, md)).2 =
      if part = true ∨ (lastN n (L ++ [(x, md)])).length = n then [packMd (lastN n (L ++ [(x, md)]))] else [] := by
  obtain ⟨hwin, hmds⟩ := slidingWindow_buffers n s L h x md
  have hmdsl : ((s.items ++ [(Val.none, Val.none, md)]).drop ((s.items.length + 1) - n)).length
      = (lastN n (L ++ [(x, md)])).length := by
    have := congrArg List.length hmds
    simpa using this
  have hwinl : ((s.win ++ [x]).drop ((s.win.length + 1) - n)).length = (lastN n (L ++ [(x, md)])).length := by
    have := congrArg List.length hwin
    simpa using this
  generalize hL' : lastN n (L ++ [(x, md)]) = L' at hwin hmds hmdsl hwinl
  have hL'len : L'.length ≤ n := by rw [← hL']; exact lastN_length_le _ _
  generalize hM : (s.items ++ [(Val.none, Val.none, md)]).drop ((s.items.length + 1) - n) = mds
    at hmds hmdsl
  generalize hW : (s.win ++ [x]).drop ((s.win.length + 1) - n) = win at hwin hwinl
  simp only [stepLoc, upd, hM, hW, hwinl, hmdsl]
  have hpack : ((Val.tup win, flatMd (mds.map (·.2.2))) : Val × Meta) = packMd L' := by
    simp [packMd, flatMd, hwin, hmds]
  by_cases hc : part = true ∨ L'.length = n
  · rw [if_pos hc, if_pos hc]
    by_cases hfull : L'.length = n
    · rw [if_pos hfull]
      cases mds with
      | nil =>
        simp only [List.append_nil]
        c10_eff_simp
        exact ⟨⟨hwin, Or.inl hmds, hL'len⟩, by rw [hpack]⟩
      | cons hd tl =>
        simp only [List.cons_append, List.nil_append]
        c10_eff_simp
        refine ⟨⟨hwin, Or.inr ⟨hfull, ?_⟩, hL'len⟩, by rw [hpack]⟩
        cases L' with
        | nil => simp at hmds
        | cons y t =>
          simp only [List.map_cons, List.cons.injEq] at hmds
          simpa using hmds.2
    · rw [if_neg hfull]
      simp only [List.append_nil]
      c10_eff_simp
      exact ⟨⟨hwin, Or.inl hmds, hL'len⟩, by rw [hpack]⟩
  · rw [if_neg hc, if_neg hc]
    c10_eff_simp
    exact ⟨⟨hwin, Or.inl hmds, hL'len⟩, trivial⟩

/-- If the emission of the window raises downstream, `update` is abandoned right after its first state write
(`retain`, append to both deques), the `popleft` of the metadata deque is skipped — and the invariant still
holds for the state left behind, so the windows emitted later carry the right metadata all the same (the
metadata deque is bounded too, the surplus head is evicted by the next append). -/
theorem slidingWindow_interrupted (n : Nat) (part : Bool) (s : NState) (L : List (Val × Meta)) (h : SWInv n s L)
    (who : NodeId) (x : Val) (md : Meta) :
    SWInv n (finalLoc ((upd (.slidingWindow n part) s who x md).effs.take 2) s) (lastN n (L ++ [(x, md)])) := by
  obtain ⟨hwin, hmds⟩ := slidingWindow_buffers n s L h x md
  have hlen : (lastN n (L ++ [(x, md)])).length ≤ n := lastN_length_le _ _
  simp only [upd]
  split
  · simp only [List.cons_append, List.nil_append, List.take_succ_cons, List.take_zero]
    c10_eff_simp
    exact ⟨hwin, Or.inl hmds, hlen⟩
  · simp only [List.take_succ_cons, List.take_zero]
    c10_eff_simp
    exact ⟨hwin, Or.inl hmds, hlen⟩

/-- what `sliding_window(n, return_partial = part)` emits over a list of (value, metadata) arrivals, given the
history `hist` of everything that arrived before: after each arrival the window is the last `n` elements of the
history; it is emitted when full (or always, with `return_partial`) -/
def swSpec (n : Nat) (part : Bool) : List (Val × Meta) → List (Val × Meta) → List (Val × Meta)
  | _, [] => []
  | hist, a :: as =>
    (if part = true ∨ (lastN n (hist ++ [a])).length = n then [packMd (lastN n (hist ++ [a]))] else [])
      ++ swSpec n part (hist ++ [a]) as

/-- `sliding_window` over any arrival list (runs without downstream failures, i.e. `localRun`): every emitted
window is the last `n` arrivals, and its metadata is the concatenation of exactly those members' metadata, oldest
first. -/
theorem slidingWindow_localRun (n : Nat) (part : Bool) (s : NState) (hist : List (Val × Meta))
    (h : SWInv n s (lastN n hist)) (as : List Arr) :
    SWInv n (localRun (.slidingWindow n part) s as).1 (lastN n (hist ++ as.map (·.2))) ∧
    (localRun (.slidingWindow n part) s as).2 = swSpec n part hist (as.map (·.2)) := by
  induction as generalizing s hist with
  | nil => exact ⟨by simpa [localRun] using h, by simp [localRun, swSpec]⟩
  | cons a as ih =>
    obtain ⟨who, x, md⟩ := a
    obtain ⟨h1, h2⟩ := slidingWindow_step n part s _ h who x md
    rw [lastN_lastN_append] at h1 h2
    obtain ⟨ih1, ih2⟩ := ih _ (hist ++ [(x, md)]) h1
    simp only [localRun, List.map_cons, swSpec]
    refine ⟨?_, by rw [h2, ih2]⟩
    simpa [List.append_assoc] using ih1

/-! ### 5. Combining kinds -/

theorem seqOf_cons_ite (u : NodeId) (a : Arr) (as : List Arr) :
    seqOf u (a :: as) = if a.1 = u then a.2 :: seqOf u as else seqOf u as := by
  unfold seqOf
  by_cases h : a.1 = u <;> simp [h]

theorem idxOf_some {l : List NodeId} {x : NodeId} {i : Nat} (h : idxOf l x = some i) :
    i < l.length ∧ l[i]? = some x := by
  unfold idxOf at h
  simp only [] at h
  split at h
  · next hlt =>
    cases h
    exact ⟨hlt, by rw [List.getElem?_eq_getElem hlt, List.getElem_idxOf hlt]⟩
  · cases h

/-- the table "latest element per upstream position" after one arrival -/
def tableStep (ups : List NodeId) (T : List (Val × Meta)) (a : Arr) : List (Val × Meta) :=
  match idxOf ups a.1 with
  | some i => T.set i a.2
  | none => T

/-- ... and after a list of arrivals -/
def latestTable (ups : List NodeId) (T : List (Val × Meta)) (as : List Arr) : List (Val × Meta) :=
  as.foldl (tableStep ups) T

theorem tableStep_length (ups : List NodeId) (T : List (Val × Meta)) (a : Arr) :
    (tableStep ups T a).length = T.length := by
  unfold tableStep; split <;> simp

theorem latestTable_length (ups : List NodeId) (T : List (Val × Meta)) (as : List Arr) :
    (latestTable ups T as).length = T.length := by
  induction as generalizing T with
  | nil => rfl
  | cons a as ih => simp only [latestTable, List.foldl_cons] at ih ⊢; rw [ih, tableStep_length]

/-- The table really holds the latest element of each upstream: slot `i` (the position of upstream `u` in
`upstreams`) holds the last arrival from `u`, or its initial content when nothing arrived from `u`. -/
theorem tableStep_get (ups : List NodeId) (T : List (Val × Meta)) (a : Arr) (u : NodeId) (i : Nat)
    (hi : idxOf ups u = some i) (hlt : i < T.length) :
    (tableStep ups T a)[i]? = if a.1 = u then some a.2 else T[i]? := by
  unfold tableStep
  by_cases hau : a.1 = u
  · simp [hau, hi, hlt]
  · simp only [hau, if_false]
    cases hj : idxOf ups a.1 with
    | none => rfl
    | some j =>
      have hne : j ≠ i := by
        intro hji
        have h2 := (idxOf_some hj).2
        have h3 := (idxOf_some hi).2
        rw [hji, h3] at h2
        cases h2
        exact hau rfl
      simp [hne]

theorem latestTable_get (ups : List NodeId) (T : List (Val × Meta)) (as : List Arr) (u : NodeId) (i : Nat)
    (hi : idxOf ups u = some i) (hlt : i < T.length) :
    (latestTable ups T as)[i]? = (seqOf u as).getLast?.or T[i]? := by
  induction as generalizing T with
  | nil => simp [latestTable, seqOf]
  | cons a as ih =>
    have hlt1 : i < (tableStep ups T a).length := by rw [tableStep_length]; exact hlt
    have h1 := ih (tableStep ups T a) hlt1
    simp only [latestTable, List.foldl_cons] at h1 ⊢
    rw [h1, seqOf_cons_ite, tableStep_get ups T a u i hi hlt]
    by_cases hau : a.1 = u
    · simp only [hau, if_true, List.getLast?_cons]
      cases (seqOf u as).getLast? <;> simp
    · simp [hau]

/-- `combine_latest` / `zip_latest` keep `last` and `metadata` as two parallel lists: slot `i` of both is the
latest element of upstream number `i`. -/
structure CLInv (s : NState) (T : List (Val × Meta)) : Prop where
  last : s.last = T.map (·.1)
  lastMd : s.lastMd = T.map (·.2)

/-- One `combine_latest.update`, exactly: the arrival replaces its upstream's slot; when the node emits, the
tuple is the table of latest values and its metadata is the concatenation of the latest metadata per upstream, in
upstream order. -/
theorem combineLatest_step (eo : Option (List NodeId)) (s : NState) (T : List (Val × Meta)) (h : CLInv s T)
    (a : Arr) :
    CLInv (stepLoc (.combineLatest eo) s a).1 (tableStep s.ups T a) ∧
    (stepLoc (.combineLatest eo) s a).1.ups = s.ups ∧
    (stepLoc (.combineLatest eo) s a).2 =
      match idxOf s.ups a.1 with
      | none => []
      | some _ =>
        if (s.missing.filter (· ≠ a.1)).isEmpty ∧ s.emitOn.contains a.1 then [packMd (tableStep s.ups T a)] else [] := by
  obtain ⟨who, x, md⟩ := a
  obtain ⟨hl, hm⟩ := h
  have hrelO : ∀ (es : List Eff) (old : Meta),
      outsOf ((if old.isEmpty then [] else [Eff.release old]) ++ es) = outsOf es := by
    intro es old; split <;> simp
  have hrelF : ∀ (es : List Eff) (t : NState) (old : Meta),
      finalLoc ((if old.isEmpty then [] else [Eff.release old]) ++ es) t = finalLoc es t := by
    intro es t old; split <;> simp
  cases hidx : idxOf s.ups who with
  | none =>
    simp only [stepLoc, upd, hidx, tableStep]
    c10_eff_simp
    exact ⟨⟨hl, hm⟩, trivial, trivial⟩
  | some idx =>
    simp only [stepLoc, upd, hidx, tableStep]
    split
    · c10_eff_simp
      simp only [hrelO, hrelF]
      c10_eff_simp
      refine ⟨⟨by simp [hl, List.map_set], by simp [hm, List.map_set]⟩, trivial, ?_⟩
      simp [packMd, flatMd, hl, hm, List.map_set]
    · c10_eff_simp
      simp only [hrelO, hrelF]
      c10_eff_simp
      exact ⟨⟨by simp [hl, List.map_set], by simp [hm, List.map_set]⟩, trivial, trivial⟩

/-- `combine_latest` over any arrival list: every output is emitted right after some arrival `a` and is the
table of the latest element per upstream at that moment — its metadata is the concatenation, in upstream order,
of the metadata of the latest element of each upstream (`latestTable_get`). -/
theorem combineLatest_localRun (eo : Option (List NodeId)) (s : NState) (T : List (Val × Meta)) (h : CLInv s T)
    (as : List Arr) :
    CLInv (localRun (.combineLatest eo) s as).1 (latestTable s.ups T as) ∧
    ∀ o ∈ (localRun (.combineLatest eo) s as).2, ∃ pre a post, as = pre ++ a :: post ∧
      o = packMd (latestTable s.ups T (pre ++ [a])) := by
  induction as generalizing s T with
  | nil => exact ⟨by simpa [localRun, latestTable] using h, fun o ho => by simp [localRun] at ho⟩
  | cons a as ih =>
    obtain ⟨h1, h2, h3⟩ := combineLatest_step eo s T h a
    obtain ⟨ih1, ih2⟩ := ih _ _ h1
    rw [h2] at ih1 ih2
    refine ⟨by simpa [localRun, latestTable] using ih1, ?_⟩
    intro o ho
    simp only [localRun, List.mem_append] at ho
    rcases ho with ho | ho
    · rw [h3] at ho
      refine ⟨[], a, as, rfl, ?_⟩
      split at ho
      · simp at ho
      · split at ho
        · simpa [latestTable] using ho
        · simp at ho
    · obtain ⟨pre, b, post, e1, e2⟩ := ih2 o ho
      exact ⟨a :: pre, b, post, by rw [e1]; rfl, by rw [e2]; simp [latestTable]⟩

/-! #### zip_latest -/

/-- what the drain loop of `zip_latest` does to the table: slot 0 takes each buffered lossless element in turn -/
def drainTable (T : List (Val × Meta)) (Q : List (Val × Meta)) : List (Val × Meta) :=
  Q.foldl (fun T q => T.set 0 q) T

theorem drain_spec (Q : List (Val × Meta)) (st : NState) (T : List (Val × Meta)) (h : CLInv st T)
    (hq : st.lossless = Q) :
    outsOf (upd.drain Q st) = Q.map (fun q => packMd (T.set 0 q)) ∧
    CLInv (finalLoc (upd.drain Q st) st) (drainTable T Q) ∧
    (finalLoc (upd.drain Q st) st).lossless = [] ∧
    (finalLoc (upd.drain Q st) st).ups = st.ups := by
  induction Q generalizing st T with
  | nil => exact ⟨rfl, h, hq, rfl⟩
  | cons q rest ih =>
    obtain ⟨v, m⟩ := q
    obtain ⟨hl, hm⟩ := h
    have h' : CLInv { st with lossless := rest, last := st.last.set 0 v, lastMd := st.lastMd.set 0 m }
        (T.set 0 (v, m)) := ⟨by simp [hl, List.map_set], by simp [hm, List.map_set]⟩
    obtain ⟨i1, i2, i3, i4⟩ := ih _ _ h' rfl
    simp only [upd.drain]
    c10_eff_simp
    refine ⟨?_, i2, i3, i4⟩
    rw [i1]
    simp [packMd, flatMd, hl, hm, List.map_set]

theorem drainTable_tail (T : List (Val × Meta)) (Q : List (Val × Meta)) :
    (drainTable T Q).tail = T.tail ∧ (drainTable T Q).length = T.length := by
  induction Q generalizing T with
  | nil => exact ⟨rfl, rfl⟩
  | cons q rest ih =>
    obtain ⟨h1, h2⟩ := ih (T.set 0 q)
    simp only [drainTable, List.foldl_cons] at h1 h2 ⊢
    refine ⟨by rw [h1]; cases T <;> rfl, by rw [h2]; simp⟩

/-- `zip_latest`'s state: the two parallel tables and the buffer of not yet emitted lossless elements -/
structure ZLInv (s : NState) (T : List (Val × Meta)) (Q : List (Val × Meta)) : Prop where
  tab : CLInv s T
  q : s.lossless = Q

/-- One `zip_latest.update`, exactly: the arrival replaces its upstream's slot (and is queued when it comes from
the lossless upstream, number 0); once no upstream is missing every queued lossless element `q` is emitted with
the table whose slot 0 is `q`: tuple metadata = `q`'s metadata first, then the latest metadata of the other
upstreams in upstream order. -/
theorem zipLatest_step (s : NState) (T Q : List (Val × Meta)) (h : ZLInv s T Q) (a : Arr) :
    (stepLoc .zipLatest s a).1.ups = s.ups ∧
    match idxOf s.ups a.1 with
    | none => ZLInv (stepLoc .zipLatest s a).1 T Q ∧ (stepLoc .zipLatest s a).2 = []
    | some idx =>
      if (s.missing.filter (· ≠ a.1)).isEmpty then
        ZLInv (stepLoc .zipLatest s a).1
          (drainTable (T.set idx a.2) (if idx = 0 then Q ++ [a.2] else Q)) [] ∧
        (stepLoc .zipLatest s a).2 =
          (if idx = 0 then Q ++ [a.2] else Q).map (fun q => packMd ((T.set idx a.2).set 0 q))
      else
        ZLInv (stepLoc .zipLatest s a).1 (T.set idx a.2) (if idx = 0 then Q ++ [a.2] else Q) ∧
        (stepLoc .zipLatest s a).2 = [] := by
  obtain ⟨who, x, md⟩ := a
  obtain ⟨⟨hl, hm⟩, hq⟩ := h
  subst hq
  cases hidx : idxOf s.ups who with
  | none =>
    simp only [stepLoc, upd, hidx]
    c10_eff_simp
    exact ⟨trivial, ⟨⟨hl, hm⟩, rfl⟩, trivial⟩
  | some idx =>
    have hs1 : ZLInv { s with lossless := if idx = 0 then s.lossless ++ [(x, md)] else s.lossless,
                              lastMd := s.lastMd.set idx md, last := s.last.set idx x,
                              missing := s.missing.filter (· ≠ who) }
        (T.set idx (x, md)) (if idx = 0 then s.lossless ++ [(x, md)] else s.lossless) :=
      ⟨⟨by simp [hl, List.map_set], by simp [hm, List.map_set]⟩, rfl⟩
    simp only [stepLoc, upd, hidx]
    split
    · next hmiss =>
      have hd := drain_spec _ _ _ hs1.tab hs1.q
      simp only [] at hd
      obtain ⟨d1, d2, d3, d4⟩ := hd
      simp only [outsOf_append, finalLoc_append, outsOf_ite_release, finalLoc_ite_release]
      c10_eff_simp
      exact ⟨d4, ⟨d2, d3⟩, d1⟩
    · simp only [outsOf_append, finalLoc_append, outsOf_ite_release, finalLoc_ite_release]
      c10_eff_simp
      exact ⟨trivial, hs1, trivial⟩

theorem set_tail_congr {α : Type} {T T0 : List α} (ht : T.tail = T0.tail) (hl : T.length = T0.length) (i : Nat)
    (e : α) : (T.set i e).tail = (T0.set i e).tail ∧ (T.set i e).length = (T0.set i e).length := by
  refine ⟨?_, by simp [hl]⟩
  cases i with
  | zero =>
    cases T <;> cases T0 <;> simp_all
  | succ i => rw [← List.set_tail, ← List.set_tail, ht]

theorem set_zero_congr {α : Type} {T T0 : List α} (ht : T.tail = T0.tail) (hl : T.length = T0.length) (q : α) :
    T.set 0 q = T0.set 0 q := by
  cases T <;> cases T0 <;> simp_all

theorem tableStep_tail_congr (ups : List NodeId) {T T0 : List (Val × Meta)} (ht : T.tail = T0.tail)
    (hl : T.length = T0.length) (a : Arr) :
    (tableStep ups T a).tail = (tableStep ups T0 a).tail ∧
    (tableStep ups T a).length = (tableStep ups T0 a).length := by
  unfold tableStep
  split
  · exact set_tail_congr ht hl _ _
  · exact ⟨ht, hl⟩

/-- `zip_latest` over any arrival list: every output is emitted right after some arrival `a`, for one element
`q` of the lossless upstream (buffered before, or arrived up to `a`), and it is the table of the latest element
per upstream at that moment with slot 0 replaced by `q`: metadata = `q`'s metadata, then the latest metadata of
the other upstreams in upstream order. -/
theorem zipLatest_localRun (s : NState) (T Q T0 : List (Val × Meta)) (h : ZLInv s T Q)
    (ht : T.tail = T0.tail) (hlen : T.length = T0.length) (as : List Arr) :
    ∀ o ∈ (localRun .zipLatest s as).2, ∃ q pre a post, as = pre ++ a :: post ∧
      (q ∈ Q ∨ ∃ b ∈ pre ++ [a], idxOf s.ups b.1 = some 0 ∧ q = b.2) ∧
      o = packMd ((latestTable s.ups T0 (pre ++ [a])).set 0 q) := by
  induction as generalizing s T Q T0 with
  | nil => intro o ho; simp [localRun] at ho
  | cons a as ih =>
    obtain ⟨hups, hstep⟩ := zipLatest_step s T Q h a
    obtain ⟨tt, tl⟩ := tableStep_tail_congr s.ups ht hlen a
    -- outputs of the remaining arrivals, re-based on the start of the list
    have hrest : ∀ (T' Q' : List (Val × Meta)), ZLInv (stepLoc .zipLatest s a).1 T' Q' →
        T'.tail = (tableStep s.ups T0 a).tail → T'.length = (tableStep s.ups T0 a).length →
        (∀ q ∈ Q', q ∈ Q ∨ (idxOf s.ups a.1 = some 0 ∧ q = a.2)) →
        ∀ o ∈ (localRun .zipLatest (stepLoc .zipLatest s a).1 as).2, ∃ q pre b post,
          a :: as = pre ++ b :: post ∧
          (q ∈ Q ∨ ∃ c ∈ pre ++ [b], idxOf s.ups c.1 = some 0 ∧ q = c.2) ∧
          o = packMd ((latestTable s.ups T0 (pre ++ [b])).set 0 q) := by
      intro T' Q' hinv ht' hl' hQ' o ho
      obtain ⟨q, pre, b, post, e1, e2, e3⟩ := ih _ T' Q' _ hinv ht' hl' o ho
      rw [hups] at e2 e3
      refine ⟨q, a :: pre, b, post, by rw [e1]; rfl, ?_, by rw [e3]; simp [latestTable]⟩
      rcases e2 with e2 | ⟨c, hc, hc2⟩
      · rcases hQ' q e2 with h1 | ⟨h1, h2⟩
        · exact Or.inl h1
        · exact Or.inr ⟨a, by simp, h1, h2⟩
      · exact Or.inr ⟨c, by simp only [List.cons_append, List.mem_cons]; exact Or.inr hc, hc2⟩
    intro o ho
    simp only [localRun, List.mem_append] at ho
    cases hidx : idxOf s.ups a.1 with
    | none =>
      rw [hidx] at hstep
      simp only [] at hstep
      rcases ho with ho | ho
      · rw [hstep.2] at ho; simp at ho
      · refine hrest T Q hstep.1 ?_ ?_ (fun q hq => Or.inl hq) o ho
        · simpa [tableStep, hidx] using ht
        · simpa [tableStep, hidx] using hlen
    | some idx =>
      rw [hidx] at hstep
      simp only [] at hstep
      have hT1 : (T.set idx a.2).tail = (tableStep s.ups T0 a).tail ∧
          (T.set idx a.2).length = (tableStep s.ups T0 a).length := by
        simpa [tableStep, hidx] using tableStep_tail_congr s.ups ht hlen a
      have hQ1 : ∀ q ∈ (if idx = 0 then Q ++ [a.2] else Q), q ∈ Q ∨ (idxOf s.ups a.1 = some 0 ∧ q = a.2) := by
        intro q hq
        split at hq
        · next h0 =>
          rcases List.mem_append.1 hq with h | h
          · exact Or.inl h
          · simp only [List.mem_singleton] at h; exact Or.inr ⟨by rw [hidx, h0], h⟩
        · exact Or.inl hq
      split at hstep
      · obtain ⟨hinv, houts⟩ := hstep
        obtain ⟨dt, dl⟩ := drainTable_tail (T.set idx a.2) (if idx = 0 then Q ++ [a.2] else Q)
        rcases ho with ho | ho
        · rw [houts] at ho
          simp only [List.mem_map] at ho
          obtain ⟨q, hq, rfl⟩ := ho
          refine ⟨q, [], a, as, rfl, ?_, ?_⟩
          · rcases hQ1 q hq with h1 | ⟨h1, h2⟩
            · exact Or.inl h1
            · exact Or.inr ⟨a, by simp, h1, h2⟩
          · rw [set_zero_congr hT1.1 hT1.2]; simp [latestTable]
        · exact hrest _ [] hinv (dt.trans hT1.1) (dl.trans hT1.2) (fun q hq => by simp at hq) o ho
      · obtain ⟨hinv, houts⟩ := hstep
        rcases ho with ho | ho
        · rw [houts] at ho; simp at ho
        · exact hrest _ _ hinv hT1.1 hT1.2 hQ1 o ho

/-! #### zip -/

/-- the FIFO buffer `zip` keeps for upstream `u` -/
def qOf (s : NState) (u : NodeId) : List (Val × Meta) :=
  match s.bufs.find? (fun b => b.1 = u) with
  | some b => b.2
  | none => []

/-- per-upstream histories after one more arrival -/
def histAdd (H : NodeId → List (Val × Meta)) (a : Arr) : NodeId → List (Val × Meta) :=
  fun u => if u = a.1 then H u ++ [a.2] else H u

/-- row `j` of the per-upstream histories, packed as `zip` packs it: the `j`-th element of every upstream in
upstream order, literals spliced into the tuple of values (they carry no metadata), metadata concatenated in
upstream order -/
def zipRowOf (lits : List (Nat × Val)) (ups : List NodeId) (H : NodeId → List (Val × Meta)) (j : Nat) :
    Val × Meta :=
  (.tup (packLiterals lits ((ups.filterMap (fun u => (H u)[j]?)).map (·.1))),
    ((ups.filterMap (fun u => (H u)[j]?)).map (·.2)).flatten)

/-- `zip`'s buffers are aligned queues: every upstream has a buffer, and it holds what arrived from that
upstream (`H u`) minus the `e` rows already emitted. -/
structure ZipInv (s : NState) (H : NodeId → List (Val × Meta)) (e : Nat) : Prop where
  has : ∀ u ∈ s.ups, (s.bufs.find? (fun b => b.1 = u)).isSome
  q : ∀ u ∈ s.ups, qOf s u = (H u).drop e
  le : ∀ u ∈ s.ups, e ≤ (H u).length

theorem find?_map_sameKey {β : Type} (bufs : List (NodeId × β)) (f : NodeId × β → NodeId × β)
    (hf : ∀ b, (f b).1 = b.1) (u : NodeId) :
    (bufs.map f).find? (fun b => b.1 = u) = (bufs.find? (fun b => b.1 = u)).map f := by
  rw [List.find?_map]
  have : ((fun b : NodeId × β => decide (b.1 = u)) ∘ f) = (fun b => decide (b.1 = u)) := by
    funext b
    simp [hf b]
  rw [this]

theorem filterMap_congr_on {α β : Type} {l : List α} {f g : α → Option β} (h : ∀ x ∈ l, f x = g x) :
    l.filterMap f = l.filterMap g := by
  induction l with
  | nil => rfl
  | cons x xs ih =>
    simp only [List.filterMap_cons, h x (by simp)]
    rw [ih (fun y hy => h y (by simp [hy]))]

/-- One `zip.update` under the invariant: the arrival is queued; when every upstream's queue is non-empty the
heads are emitted as one tuple — row `e` of the histories — whose metadata is the concatenation of the heads'
metadata in upstream order. -/
theorem zip_step (lits : List (Nat × Val)) (s : NState) (H : NodeId → List (Val × Meta)) (e : Nat)
    (h : ZipInv s H e) (a : Arr) :
    (stepLoc (.zip lits) s a).1.ups = s.ups ∧
    ((ZipInv (stepLoc (.zip lits) s a).1 (histAdd H a) e ∧ (stepLoc (.zip lits) s a).2 = []) ∨
     (ZipInv (stepLoc (.zip lits) s a).1 (histAdd H a) (e + 1) ∧
        (stepLoc (.zip lits) s a).2 = [zipRowOf lits s.ups (histAdd H a) e])) := by
  obtain ⟨who, x, md⟩ := a
  obtain ⟨hhas, hq, hle⟩ := h
  cases hfind : s.bufs.find? (fun b => decide (b.1 = who)) with
  | none =>
    simp only [stepLoc, upd, hfind]
    c10_eff_simp
    refine ⟨trivial, Or.inl ⟨⟨hhas, ?_, ?_⟩, trivial⟩⟩
    · intro u hu
      have hne : u ≠ who := by
        intro huw; subst huw
        have := hhas u hu
        rw [hfind] at this; cases this
      simp [histAdd, hne, hq u hu]
    · intro u hu
      have hne : u ≠ who := by
        intro huw; subst huw
        have := hhas u hu
        rw [hfind] at this; cases this
      simp [histAdd, hne, hle u hu]
  | some b0 =>
    obtain ⟨w, L⟩ := b0
    have hw : w = who := by simpa using List.find?_some hfind
    subst hw
    have hqw : qOf s w = L := by simp [qOf, hfind]
    -- the buffers after queueing the arrival
    let f : NodeId × List (Val × Meta) → NodeId × List (Val × Meta) :=
      fun b => if b.1 = w then (b.1, L ++ [(x, md)]) else b
    have hf : ∀ b, (f b).1 = b.1 := by intro b; simp only [f]; split <;> rfl
    have hfind1 : ∀ u, (s.bufs.map f).find? (fun b => b.1 = u) = (s.bufs.find? (fun b => b.1 = u)).map f :=
      find?_map_sameKey s.bufs f hf
    have hq1 : ∀ u ∈ s.ups, ∃ b1, (s.bufs.map f).find? (fun b => b.1 = u) = some b1 ∧
        b1.2 = (histAdd H (w, x, md) u).drop e := by
      intro u hu
      have h1 := hhas u hu
      cases hb : s.bufs.find? (fun b => decide (b.1 = u)) with
      | none => rw [hb] at h1; cases h1
      | some b =>
        refine ⟨f b, by rw [hfind1, hb]; rfl, ?_⟩
        have hbu : b.1 = u := by simpa using List.find?_some hb
        have hqu : b.2 = (H u).drop e := by rw [← hq u hu]; simp [qOf, hb]
        by_cases huw : u = w
        · subst huw
          have hbL : b.2 = L := by rw [← hqw]; simp [qOf, hb]
          simp only [f, hbu, if_true, histAdd]
          rw [List.drop_append_of_le_length (hle u hu), ← hqu, hbL]
        · have : ¬ b.1 = w := by rw [hbu]; exact huw
          simp only [f, this, if_false, histAdd, huw]
          exact hqu
    have hhas1 : ∀ (g : NodeId × List (Val × Meta) → NodeId × List (Val × Meta)), (∀ b, (g b).1 = b.1) →
        ∀ u ∈ s.ups, ((s.bufs.map g).find? (fun b => b.1 = u)).isSome := by
      intro g hg u hu
      rw [find?_map_sameKey s.bufs g hg, Option.isSome_map]
      exact hhas u hu
    simp only [stepLoc, upd, hfind]
    split
    · next hc =>
      c10_eff_simp
      refine ⟨trivial, Or.inr ⟨⟨?_, ?_, ?_⟩, ?_⟩⟩
      · intro u hu
        rw [List.map_map]
        exact hhas1 _ (fun b => by simp only [Function.comp]; exact hf b) u hu
      · intro u hu
        obtain ⟨b1, hb1, hb2⟩ := hq1 u hu
        simp only [qOf]
        rw [find?_map_sameKey (s.bufs.map f) (fun b => (b.1, b.2.tail)) (fun _ => rfl), hb1]
        simp only [Option.map_some]
        rw [hb2, List.tail_drop]
      · intro u hu
        obtain ⟨b1, hb1, hb2⟩ := hq1 u hu
        have hmem : b1 ∈ s.bufs.map f := List.mem_of_find?_eq_some hb1
        have hne := (List.all_eq_true.1 hc.2) b1 hmem
        have : b1.2 ≠ [] := by
          intro h0; rw [h0] at hne; simp at hne
        rw [hb2] at this
        have : e < (histAdd H (w, x, md) u).length := by
          apply Nat.lt_of_not_le
          intro hge
          exact this (List.drop_eq_nil_of_le hge)
        omega
      · have hheads : s.ups.filterMap (fun u => ((s.bufs.map f).find? (fun b => b.1 = u)).bind (·.2.head?))
            = s.ups.filterMap (fun u => (histAdd H (w, x, md) u)[e]?) := by
          apply filterMap_congr_on
          intro u hu
          obtain ⟨b1, hb1, hb2⟩ := hq1 u hu
          rw [hb1]
          simp only [Option.bind_some]
          rw [hb2, List.head?_drop]
        simp only [zipRowOf, flatMd]
        rw [← hheads]
    · c10_eff_simp
      refine ⟨trivial, Or.inl ⟨⟨hhas1 f hf, ?_, ?_⟩, trivial⟩⟩
      · intro u hu
        obtain ⟨b1, hb1, hb2⟩ := hq1 u hu
        simp only [qOf]
        rw [hb1]
        exact hb2
      · intro u hu
        have := hle u hu
        simp only [histAdd]
        split <;> simp <;> omega

theorem histAdd_seqOf (H : NodeId → List (Val × Meta)) (a : Arr) (as : List Arr) (u : NodeId) :
    histAdd H a u ++ seqOf u as = H u ++ seqOf u (a :: as) := by
  rw [seqOf_cons_ite]
  simp only [histAdd]
  by_cases h : u = a.1
  · simp [h]
  · have : ¬ a.1 = u := fun h' => h h'.symm
    simp [h, this]

theorem zipRowOf_stable (lits : List (Nat × Val)) (ups : List NodeId) (H : NodeId → List (Val × Meta))
    (t : NodeId → List (Val × Meta)) (j : Nat) (hj : ∀ u ∈ ups, j < (H u).length) :
    zipRowOf lits ups (fun u => H u ++ t u) j = zipRowOf lits ups H j := by
  have : ups.filterMap (fun u => (H u ++ t u)[j]?) = ups.filterMap (fun u => (H u)[j]?) :=
    filterMap_congr_on (fun u hu => List.getElem?_append_left (hj u hu))
  simp only [zipRowOf, this]

/-- `zip` over any arrival list: the outputs are, in order, the rows `e, e+1, …` of the per-upstream histories
(`H u ++` what arrived from `u`): output number `j` is made of the `j`-th element of every upstream, and its
metadata is the concatenation of those elements' metadata in upstream order; literals contribute nothing. -/
theorem zip_localRun (lits : List (Nat × Val)) (s : NState) (H : NodeId → List (Val × Meta)) (e : Nat)
    (h : ZipInv s H e) (as : List Arr) :
    ZipInv (localRun (.zip lits) s as).1 (fun u => H u ++ seqOf u as)
      (e + (localRun (.zip lits) s as).2.length) ∧
    (localRun (.zip lits) s as).2 =
      (List.range' e (localRun (.zip lits) s as).2.length).map
        (zipRowOf lits s.ups (fun u => H u ++ seqOf u as)) := by
  induction as generalizing s H e with
  | nil =>
    refine ⟨?_, by simp [localRun]⟩
    simpa [localRun, seqOf] using h
  | cons a as ih =>
    obtain ⟨hups, hstep⟩ := zip_step lits s H e h a
    have hH : (fun u => histAdd H a u ++ seqOf u as) = (fun u => H u ++ seqOf u (a :: as)) :=
      funext (histAdd_seqOf H a as)
    rcases hstep with ⟨hinv, houts⟩ | ⟨hinv, houts⟩
    · obtain ⟨ih1, ih2⟩ := ih _ _ _ hinv
      rw [hups, hH] at ih2
      rw [hH] at ih1
      simp only [localRun, houts, List.nil_append]
      exact ⟨ih1, ih2⟩
    · obtain ⟨ih1, ih2⟩ := ih _ _ _ hinv
      rw [hups, hH] at ih2
      rw [hH] at ih1
      simp only [localRun, houts, List.singleton_append, List.length_cons]
      refine ⟨by rw [show e + ((localRun (.zip lits) (stepLoc (.zip lits) s a).1 as).2.length + 1)
          = e + 1 + (localRun (.zip lits) (stepLoc (.zip lits) s a).1 as).2.length by omega]; exact ih1, ?_⟩
      rw [List.range'_succ, List.map_cons, ← ih2]
      congr 1
      rw [← hH]
      exact (zipRowOf_stable lits s.ups (histAdd H a) (fun u => seqOf u as) e
        (fun u hu => by have := hinv.le u (by rw [hups]; exact hu); omega)).symm

/-- a freshly built `zip` node (one empty buffer per upstream) satisfies the invariant -/
theorem ZipInv.init (s : NState) (h : s.bufs = s.ups.map (fun u => (u, []))) : ZipInv s (fun _ => []) 0 := by
  refine ⟨?_, ?_, fun _ _ => Nat.le_refl _⟩
  · intro u hu
    rw [h, find?_map_key s.ups (fun _ => ([] : List (Val × Meta))) u hu]; rfl
  · intro u hu
    simp only [qOf]
    rw [h, find?_map_key s.ups (fun _ => ([] : List (Val × Meta))) u hu]; rfl

/-- any `combine_latest` / `zip_latest` state whose two tables have the same length is described by the
table of pairs -/
theorem CLInv.of_zip (s : NState) (h : s.last.length = s.lastMd.length) : CLInv s (s.last.zip s.lastMd) :=
  ⟨(List.map_fst_zip (l₁ := s.last) (l₂ := s.lastMd) (by omega)).symm,
   (List.map_snd_zip (l₁ := s.last) (l₂ := s.lastMd) (by omega)).symm⟩

/-! ### 6. Graph level -/

theorem packMd_eq_tupOf (ms : List (Val × Meta)) : packMd ms = tupOf ms := by
  simp [packMd, tupOf, flatMd]

theorem mem_arrivalsAt {d who : NodeId} {v : Val} {md : Meta} {l : List Ev} :
    (who, v, md) ∈ arrivalsAt d l ↔ Ev.arrive d who v md ∈ l := by
  induction l with
  | nil => simp
  | cons ev l ih =>
    have hc : ev :: l = [ev] ++ l := rfl
    rw [hc, arrivalsAt_append, List.mem_append, List.mem_append, ih]
    refine or_congr ?_ Iff.rfl
    cases ev with
    | arrive d' who' v' md' =>
      by_cases h : d' = d
      · subst h; simp [arrivalsAt]
      · simp [arrivalsAt, h]; intro h2; exact absurd h2.symm h
    | _ => simp [arrivalsAt]

/-- every metadata list a node keeps between updates -/
def NState.storedMds (s : NState) : List Meta :=
  s.items.map (·.2.2) ++ s.bufs.flatMap (fun b => b.2.map (·.2)) ++ s.lastMd ++ s.lossless.map (·.2)

theorem NState.allP_iff (P : MEntry → Prop) (s : NState) : s.AllP P ↔ ∀ l ∈ s.storedMds, AllMd P l := by
  constructor
  · intro h l hl
    simp only [NState.storedMds, List.mem_append, List.mem_map, List.mem_flatMap] at hl
    rcases hl with ((⟨it, hit, rfl⟩ | ⟨b, hb, e, he, rfl⟩) | hl) | ⟨e, he, rfl⟩
    · exact h.items it hit
    · exact h.bufs b hb e he
    · exact h.lastMd l hl
    · exact h.lossless e he
  · intro h
    refine ⟨fun it hit => h _ ?_, fun b hb e he => h _ ?_, fun l hl => h _ ?_, fun e he => h _ ?_⟩
    · simp only [NState.storedMds, List.mem_append, List.mem_map, List.mem_flatMap]
      exact Or.inl (Or.inl (Or.inl ⟨it, hit, rfl⟩))
    · simp only [NState.storedMds, List.mem_append, List.mem_map, List.mem_flatMap]
      exact Or.inl (Or.inl (Or.inr ⟨b, hb, e, he, rfl⟩))
    · simp only [NState.storedMds, List.mem_append, List.mem_map, List.mem_flatMap]
      exact Or.inl (Or.inr hl)
    · simp only [NState.storedMds, List.mem_append, List.mem_map, List.mem_flatMap]
      exact Or.inr ⟨e, he, rfl⟩

/-- a state that stores no metadata entry at all (e.g. a freshly built pipeline) -/
theorem NState.allP_false_iff (s : NState) : s.AllP (fun _ => False) ↔ ∀ l ∈ s.storedMds, l = [] := by
  rw [NState.allP_iff]
  refine forall_congr' fun l => forall_congr' fun _ => ?_
  constructor
  · intro h
    cases l with
    | nil => rfl
    | cons m ms => exact (h m (by simp)).elim
  · intro h; rw [h]; exact AllMd.nil _

theorem allMd_false {md : Meta} (h : AllMd (fun _ => False) md) : md = [] := by
  cases md with
  | nil => rfl
  | cons m ms => exact (h m (by simp)).elim

theorem wakeWaiters_loc (ws : List (List Tok × Meta)) (S : State) : (wakeWaiters ws S).1.loc = S.loc := by
  induction ws generalizing S with
  | nil => rfl
  | cons w ws ih =>
    obtain ⟨toks, md⟩ := w
    unfold wakeWaiters
    split
    · simp only []; rw [ih]; simp
    · simp only []; rw [ih]

theorem wakeWaiters_from (P : MEntry → Prop) (ws : List (List Tok × Meta)) (S : State) :
    LogFrom P (wakeWaiters ws S).2 := by
  induction ws generalizing S with
  | nil => exact LogFrom.nil P
  | cons w ws ih =>
    obtain ⟨toks, md⟩ := w
    unfold wakeWaiters
    split
    · exact LogFrom.append (releaseMd_from P _ _) (ih _)
    · exact ih _

theorem sinkDone_closed (P : MEntry → Prop) {tok : Tok} {S S' : State} {l : List Ev}
    (h : sinkDone tok S = some (S', l)) : S'.loc = S.loc ∧ LogFrom P l := by
  unfold sinkDone at h
  split at h
  · cases h
  · next t d md hf =>
    simp only [Option.some.injEq, Prod.mk.injEq] at h
    obtain ⟨h1, h2⟩ := h
    subst h1 h2
    refine ⟨by rw [wakeWaiters_loc]; simp, ?_⟩
    exact LogFrom.cons trivial (LogFrom.append (releaseMd_from P _ _) (wakeWaiters_from P _ _))

theorem sinkFail_loc {tok : Tok} {S S' : State} (h : sinkFail tok S = some S') : S'.loc = S.loc := by
  unfold sinkFail at h
  split at h
  · cases h
  · cases h; rfl

/-- what the environment does to a pipeline: emit at an entry node, flush a `collect`, let an asynchronous
consumer finish or fail -/
inductive Action
  | emit (n : NodeId) (v : Val) (md : Meta)
  | flush (d : NodeId)
  | done (tok : Tok)
  | fail (tok : Tok)

/-- the metadata an action brings into the pipeline -/
def Action.md : Action → Meta
  | .emit _ _ md => md
  | _ => []

def stepAct (G : NodeId → Kind) (fuel : Nat) (S : State) : Action → State × List Ev
  | .emit n v md => ((emitAt G fuel n v md S).st, (emitAt G fuel n v md S).log)
  | .flush d => ((flushAt G fuel d S).st, (flushAt G fuel d S).log)
  | .done tok => match sinkDone tok S with | some (S', l) => (S', l) | none => (S, [])
  | .fail tok => match sinkFail tok S with | some S' => (S', []) | none => (S, [])

/-- a whole session: the state persists from one action to the next, whether or not an action raised -/
def runActs (G : NodeId → Kind) (fuel : Nat) : State → List Action → State × List Ev
  | S, [] => (S, [])
  | S, a :: as => ((runActs G fuel (stepAct G fuel S a).1 as).1,
      (stepAct G fuel S a).2 ++ (runActs G fuel (stepAct G fuel S a).1 as).2)

theorem stepAct_md_closed (G : NodeId → Kind) {P : MEntry → Prop} (fuel : Nat) (S : State) (a : Action)
    (hS : S.AllP P) (ha : AllMd P a.md) :
    LogFrom P (stepAct G fuel S a).2 ∧ (stepAct G fuel S a).1.AllP P := by
  cases a with
  | emit n v md =>
    have := interp_md_closed G (P := P) fuel (.emit n v md) S ha hS
    exact this
  | flush d =>
    have := interp_md_closed G (P := P) fuel (.effs d (flushProg (S.loc d))) S (flushProg_from _ (hS d)) hS
    exact this
  | done tok =>
    simp only [stepAct]
    split
    · next S' l h =>
      obtain ⟨h1, h2⟩ := sinkDone_closed P h
      exact ⟨h2, hS.of_loc_eq h1⟩
    · exact ⟨LogFrom.nil P, hS⟩
  | fail tok =>
    simp only [stepAct]
    split
    · next S' h => exact ⟨LogFrom.nil P, hS.of_loc_eq (sinkFail_loc h)⟩
    · exact ⟨LogFrom.nil P, hS⟩

theorem runActs_md_closed (G : NodeId → Kind) {P : MEntry → Prop} (fuel : Nat) (S : State) (acts : List Action)
    (hS : S.AllP P) (ha : ∀ a ∈ acts, AllMd P a.md) :
    LogFrom P (runActs G fuel S acts).2 ∧ (runActs G fuel S acts).1.AllP P := by
  induction acts generalizing S with
  | nil => exact ⟨LogFrom.nil P, hS⟩
  | cons a as ih =>
    obtain ⟨h1, h2⟩ := stepAct_md_closed G fuel S a hS (ha a (by simp))
    obtain ⟨h3, h4⟩ := ih _ h2 (fun b hb => ha b (by simp [hb]))
    exact ⟨LogFrom.append h1 h3, h4⟩

end StreamzVerif.Graph
