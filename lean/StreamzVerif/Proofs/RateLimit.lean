import StreamzVerif.Model.RateLimit
/-! Helper lemmas and the event-loop invariants for `Model/RateLimit.lean` (core Lean only). -/
namespace StreamzVerif.RateLimit

/-! ### one `update` call -/

theorem reserve_next (I : Time) (s : St) (now : Time) :
    (reserve I s now).st.next = max now s.next + I := by
  unfold reserve
  by_cases h : now < s.next <;> simp [h]

theorem reserve_due (I : Time) (s : St) (now : Time) :
    (reserve I s now).due now = max now s.next := by
  unfold reserve Reserve.due
  by_cases h : now < s.next <;> simp [h] <;> omega

theorem reserve_sleep_none {I : Time} {s : St} {now : Time} (h : (reserve I s now).sleep = none) :
    s.next ≤ now := by
  unfold reserve at h
  by_cases h' : now < s.next <;> simp [h'] at h
  omega

theorem reserve_sleep_some {I : Time} {s : St} {now d : Time} (h : (reserve I s now).sleep = some d) :
    now < s.next ∧ now + d = s.next := by
  unfold reserve at h
  by_cases h' : now < s.next <;> simp [h'] at h
  omega

/-! ### the functional plan -/

section plan
variable {α : Type}

theorem plan_append (I : Time) (s : St) (l₁ l₂ : List (Time × α)) :
    plan I s (l₁ ++ l₂) = plan I s l₁ ++ plan I (after I s l₁) l₂ := by
  induction l₁ generalizing s with
  | nil => rfl
  | cons p l ih => obtain ⟨now, x⟩ := p; simp [plan, after, ih]

theorem after_append (I : Time) (s : St) (l₁ l₂ : List (Time × α)) :
    after I s (l₁ ++ l₂) = after I (after I s l₁) l₂ := by
  induction l₁ generalizing s with
  | nil => rfl
  | cons p l ih => obtain ⟨now, x⟩ := p; simp [after, ih]

theorem plan_map_snd (I : Time) (s : St) (l : List (Time × α)) :
    (plan I s l).map Prod.snd = l.map Prod.snd := by
  induction l generalizing s with
  | nil => rfl
  | cons p l ih => obtain ⟨now, x⟩ := p; simp [plan, ih]

theorem plan_length (I : Time) (s : St) (l : List (Time × α)) : (plan I s l).length = l.length := by
  have := congrArg List.length (plan_map_snd I s l); simpa using this

theorem plan_ge_next (I : Time) (s : St) (l : List (Time × α)) :
    ∀ p ∈ plan I s l, s.next ≤ p.1 := by
  induction l generalizing s with
  | nil => intro p hp; simp [plan] at hp
  | cons q l ih =>
    obtain ⟨now, x⟩ := q
    intro p hp
    simp only [plan, List.mem_cons] at hp
    rcases hp with rfl | hp
    · simp only [reserve_due]; omega
    · have := ih _ p hp
      rw [reserve_next] at this; omega

theorem plan_pairwise (I : Time) (s : St) (l : List (Time × α)) :
    (plan I s l).Pairwise (fun a b => a.1 + I ≤ b.1) := by
  induction l generalizing s with
  | nil => simp [plan]
  | cons q l ih =>
    obtain ⟨now, x⟩ := q
    simp only [plan, List.pairwise_cons]
    refine ⟨?_, ih _⟩
    intro p hp
    have := plan_ge_next I _ l p hp
    rw [reserve_next] at this
    simp only [reserve_due]; exact this

theorem after_next_ge (I : Time) (s : St) (l : List (Time × α)) : s.next ≤ (after I s l).next := by
  induction l generalizing s with
  | nil => exact Nat.le_refl _
  | cons q l ih =>
    obtain ⟨now, x⟩ := q
    have := ih (reserve I s now).st
    rw [reserve_next] at this
    simp only [after]; omega

theorem after_next_le (I : Time) (s : St) (l : List (Time × α)) (b : Time) (hs : s.next ≤ b)
    (hl : ∀ p ∈ plan I s l, p.1 + I ≤ b) : (after I s l).next ≤ b := by
  induction l generalizing s with
  | nil => exact hs
  | cons q l ih =>
    obtain ⟨now, x⟩ := q
    simp only [after]
    apply ih
    · have := hl ((reserve I s now).due now, x) (by simp [plan])
      rw [reserve_next]; rw [reserve_due] at this; exact this
    · intro p hp; exact hl p (by simp [plan, hp])

theorem plan_snoc (I : Time) (s : St) (l : List (Time × α)) (now : Time) (x : α) :
    plan I s (l ++ [(now, x)]) = plan I s l ++ [(max now (after I s l).next, x)] := by
  rw [plan_append]; simp [plan, reserve_due]

theorem after_snoc (I : Time) (s : St) (l : List (Time × α)) (now : Time) (x : α) :
    (after I s (l ++ [(now, x)])).next = max now (after I s l).next + I := by
  rw [after_append]; simp [after, reserve_next]

end plan

/-! ### feasible schedules (used to state optimality) -/

section feasible
variable {α : Type}

/-- A schedule `e` (one instant per arrival) is *feasible* from `lo` when no element leaves before it
arrived or before `lo`, and each leaves at least `I` after the one before. -/
def Feasible (I : Time) : Time → List (Time × α) → List Time → Prop
  | _, [], [] => True
  | lo, (now, _) :: l, t :: e => now ≤ t ∧ lo ≤ t ∧ Feasible I (t + I) l e
  | _, _, _ => False

/-- Pointwise "not later than". -/
def NotLater : List (Time × α) → List Time → Prop
  | [], [] => True
  | p :: l, t :: e => p.1 ≤ t ∧ NotLater l e
  | _, _ => False

theorem Feasible.mono {I : Time} {lo lo' : Time} {l : List (Time × α)} {e : List Time}
    (h : Feasible I lo l e) (hle : lo' ≤ lo) : Feasible I lo' l e := by
  cases l with
  | nil => cases e <;> simp_all [Feasible]
  | cons p l =>
    obtain ⟨now, x⟩ := p
    cases e with
    | nil => simp [Feasible] at h
    | cons t e => simp only [Feasible] at h ⊢; exact ⟨h.1, by omega, h.2.2⟩

end feasible

/-! ### rate_limit event-loop invariant -/

/-- What holds in every reachable state of the event-loop model started from `init α c0`. -/
structure Inv {α : Type} (I : Time) (s : Sys α) : Prop where
  /-- delivered ++ still sleeping = the functional plan of everything that arrived -/
  hist : s.outs ++ s.timers = plan I { next := 0 } s.ins
  st_eq : s.st = after I { next := 0 } s.ins
  due_ge : ∀ p ∈ s.timers, s.clock ≤ p.1
  below : ∀ p ∈ s.timers, p.1 + I ≤ s.st.next
  spaced : s.timers.Pairwise (fun a b => a.1 + I ≤ b.1)
  zero : I = 0 → s.timers = [] ∧ s.st.next ≤ s.clock
  past : ∀ p ∈ s.ins, p.1 ≤ s.clock

theorem inv_init (α : Type) (I c0 : Time) : Inv I (init α c0) := by
  constructor <;> simp [init, plan, after]

theorem step_inv {α : Type} {I : Time} {s s' : Sys α} {a : Act α} (h : Inv I s)
    (hs : step I s a = some s') : Inv I s' := by
  cases a with
  | arrive x =>
    simp only [step] at hs
    have hplan : plan I { next := 0 } (s.ins ++ [(s.clock, x)])
        = plan I { next := 0 } s.ins ++ [((reserve I s.st s.clock).due s.clock, x)] := by
      rw [plan_append, ← h.st_eq]; simp [plan]
    have hafter : after I { next := 0 } (s.ins ++ [(s.clock, x)]) = (reserve I s.st s.clock).st := by
      rw [after_append, ← h.st_eq]; simp [after]
    have hnext := reserve_next I s.st s.clock
    cases hsl : (reserve I s.st s.clock).sleep with
    | some d =>
      rw [hsl] at hs
      simp only [Option.some.injEq] at hs
      subst hs
      obtain ⟨hlt, hd⟩ := reserve_sleep_some hsl
      have hdue : (reserve I s.st s.clock).due s.clock = s.clock + d := by
        simp [Reserve.due, hsl]
      constructor
      · simp only []; rw [hplan, hdue, ← List.append_assoc, h.hist]
      · simp only []; rw [hafter]
      · intro p hp
        simp only [List.mem_append, List.mem_singleton] at hp
        rcases hp with hp | rfl
        · exact h.due_ge p hp
        · simp
      · intro p hp
        simp only [List.mem_append, List.mem_singleton] at hp
        simp only []; rw [hnext]
        rcases hp with hp | rfl
        · have := h.below p hp; omega
        · simp only []; omega
      · simp only []
        rw [List.pairwise_append]
        refine ⟨h.spaced, by simp, ?_⟩
        intro a ha b hb
        simp only [List.mem_singleton] at hb
        subst hb
        have := h.below a ha
        simp only []; omega
      · intro hI
        have := (h.zero hI).2
        omega
      · intro p hp
        simp only [List.mem_append, List.mem_singleton] at hp
        rcases hp with hp | rfl
        · exact h.past p hp
        · simp
    | none =>
      rw [hsl] at hs
      simp only [Option.some.injEq] at hs
      subst hs
      have hge := reserve_sleep_none hsl
      have hdue : (reserve I s.st s.clock).due s.clock = s.clock := by
        simp [Reserve.due, hsl]
      have hnil : s.timers = [] := by
        cases ht : s.timers with
        | nil => rfl
        | cons p tl =>
          have hp : p ∈ s.timers := by simp [ht]
          have h1 := h.due_ge p hp
          have h2 := h.below p hp
          have hI : I = 0 := by omega
          have := (h.zero hI).1
          rw [ht] at this; exact absurd this (by simp)
      constructor
      · simp only []; rw [hplan, hdue, ← h.hist, hnil]; simp
      · simp only []; rw [hafter]
      · simp [hnil]
      · simp [hnil]
      · simp [hnil]
      · intro hI
        refine ⟨hnil, ?_⟩
        simp only []; rw [hnext]; omega
      · intro p hp
        simp only [List.mem_append, List.mem_singleton] at hp
        rcases hp with hp | rfl
        · exact h.past p hp
        · simp
  | advance t =>
    simp only [step] at hs
    split at hs
    · rename_i hg
      simp only [Option.some.injEq] at hs
      subst hs
      obtain ⟨hct, hall⟩ := hg
      rw [List.all_eq_true] at hall
      constructor
      · exact h.hist
      · exact h.st_eq
      · intro p hp; have := hall p hp; simpa using this
      · exact h.below
      · exact h.spaced
      · intro hI; have := h.zero hI; exact ⟨this.1, by simp only []; omega⟩
      · intro p hp; have := h.past p hp; simp only []; omega
    · exact absurd hs (by simp)
  | fire i =>
    simp only [step] at hs
    cases hti : s.timers[i]? with
    | none => rw [hti] at hs; exact absurd hs (by simp)
    | some q =>
      obtain ⟨d, x⟩ := q
      rw [hti] at hs
      simp only [] at hs
      split at hs
      · rename_i hdc
        simp only [Option.some.injEq] at hs
        subst hs
        -- the due timer can only be the oldest one
        have hi0 : i = 0 := by
          cases i with
          | zero => rfl
          | succ j =>
            exfalso
            obtain ⟨hlen, hget⟩ := List.getElem?_eq_some_iff.mp hti
            have h0len : 0 < s.timers.length := by omega
            have hsp := (List.pairwise_iff_getElem.mp h.spaced) 0 (j + 1) h0len hlen (by omega)
            rw [hget] at hsp
            have hm : s.timers[0] ∈ s.timers := List.getElem_mem h0len
            have h1 := h.due_ge _ hm
            have hI : I = 0 := by simp only [] at hsp; omega
            have := (h.zero hI).1
            rw [this] at hlen; simp at hlen
        subst hi0
        cases ht : s.timers with
        | nil => rw [ht] at hti; simp at hti
        | cons p tl =>
          rw [ht] at hti
          simp only [List.getElem?_cons_zero, Option.some.injEq] at hti
          subst hti
          have hp : (d, x) ∈ s.timers := by simp [ht]
          have hdc' : s.clock = d := by have := h.due_ge _ hp; simp only [] at this; omega
          have hsp := h.spaced
          rw [ht, List.pairwise_cons] at hsp
          constructor
          · simp only [List.eraseIdx_cons_zero]
            rw [← h.hist, ht, hdc']; simp
          · exact h.st_eq
          · intro q hq
            simp only [List.eraseIdx_cons_zero] at hq
            exact h.due_ge q (by rw [ht]; exact List.mem_cons_of_mem _ hq)
          · intro q hq
            simp only [List.eraseIdx_cons_zero] at hq
            exact h.below q (by rw [ht]; exact List.mem_cons_of_mem _ hq)
          · simpa using hsp.2
          · intro hI; have := (h.zero hI).1; rw [ht] at this; exact absurd this (by simp)
          · exact h.past
      · exact absurd hs (by simp)

theorem run_inv {α : Type} {I : Time} {acts : List (Act α)} {s s' : Sys α} (h : Inv I s)
    (hr : run I s acts = some s') : Inv I s' := by
  induction acts generalizing s with
  | nil => simp only [run, Option.some.injEq] at hr; subst hr; exact h
  | cons a as ih =>
    simp only [run] at hr
    cases hst : step I s a with
    | none => rw [hst] at hr; exact absurd hr (by simp)
    | some s1 => rw [hst] at hr; exact ih (step_inv h hst) hr

theorem run_append {α : Type} (I : Time) (s : Sys α) (as bs : List (Act α)) :
    run I s (as ++ bs) = (run I s as).bind (fun s' => run I s' bs) := by
  induction as generalizing s with
  | nil => rfl
  | cons a as ih =>
    simp only [List.cons_append, run]
    cases step I s a with
    | none => rfl
    | some s1 => exact ih s1

/-- Liveness: in any state satisfying the invariant the loop can, by only advancing the clock and
firing timers (no further arrivals), deliver every sleeping element. -/
theorem drain {α : Type} (I : Time) (s : Sys α) (h : Inv I s) :
    ∃ acts s', run I s acts = some s' ∧ s'.timers = [] ∧ s'.ins = s.ins ∧
      (∀ a ∈ acts, ∀ x, a ≠ Act.arrive x) := by
  generalize hn : s.timers.length = n
  induction n generalizing s with
  | zero =>
    exact ⟨[], s, rfl, List.eq_nil_of_length_eq_zero hn, rfl, by simp⟩
  | succ n ih =>
    cases ht : s.timers with
    | nil => rw [ht] at hn; simp at hn
    | cons p tl =>
      obtain ⟨d, x⟩ := p
      have hp : (d, x) ∈ s.timers := by simp [ht]
      have hcd := h.due_ge _ hp
      have hsp := h.spaced
      rw [ht, List.pairwise_cons] at hsp
      -- advance to d
      have hadv : step I s (.advance d) = some { s with clock := d } := by
        simp only [step]
        have : (s.clock ≤ d ∧ s.timers.all (fun p => d ≤ p.1) = true) := by
          refine ⟨hcd, ?_⟩
          rw [List.all_eq_true]
          intro q hq
          rw [ht] at hq
          simp only [List.mem_cons] at hq
          rcases hq with rfl | hq
          · simp
          · have := hsp.1 q hq; simp only [] at this; simp; omega
        simp [this]
      let s1 : Sys α := { s with clock := d }
      have hfire : step I s1 (.fire 0) = some { s1 with timers := tl, outs := s1.outs ++ [(d, x)] } := by
        simp [step, s1, ht]
      have hinv1 := step_inv h hadv
      have hinv2 := step_inv hinv1 hfire
      obtain ⟨acts, s', hrun, hnil, hins, hno⟩ := ih _ hinv2 (by rw [ht] at hn; simpa using hn)
      refine ⟨.advance d :: .fire 0 :: acts, s', ?_, hnil, ?_, ?_⟩
      · simp only [run, hadv]
        have hfire' : step I { s with clock := d } (.fire 0) = _ := hfire
        rw [hfire']; exact hrun
      · rw [hins]
      · intro a ha y
        simp only [List.mem_cons] at ha
        rcases ha with rfl | rfl | ha
        · simp
        · simp
        · exact hno a ha y

/-! ### delay -/

theorem iterEnd_eq (I last now : Time) (h : last ≤ now) : iterEnd I last now = max now (last + I) := by
  unfold iterEnd pause
  by_cases h' : now - last < I <;> simp [h'] <;> omega

section delayPlan
variable {α : Type}

theorem delayPlan_map_snd (I last : Time) (l : List (Time × Time × α)) :
    (delayPlan I last l).map Prod.snd = l.map (fun p => p.2.2) := by
  induction l generalizing last with
  | nil => rfl
  | cons p l ih => obtain ⟨a, c, x⟩ := p; simp [delayPlan, ih]

theorem delayPlan_ge_last (I last : Time) (l : List (Time × Time × α)) :
    ∀ p ∈ delayPlan I last l, last ≤ p.1 := by
  induction l generalizing last with
  | nil => intro p hp; simp [delayPlan] at hp
  | cons q l ih =>
    obtain ⟨a, c, x⟩ := q
    intro p hp
    simp only [delayPlan, List.mem_cons] at hp
    rcases hp with rfl | hp
    · simp only []; omega
    · have := ih _ p hp
      rw [iterEnd_eq _ _ _ (by omega)] at this
      omega

end delayPlan

/-- Invariant of the delay event-loop model: the tornado queue holds exactly the arrivals
not yet handed to `_emit`, in order. -/
structure DInv {α : Type} (s : DSys α) : Prop where
  hist : s.ins.map Prod.snd = s.outs.map Prod.snd ++ s.queue
  sleeping_ge : ∀ u, s.cb = .sleeping u → s.clock ≤ u

theorem dinv_init (α : Type) (c0 : Time) : DInv (dinit α c0) := by
  constructor <;> simp [dinit]

theorem dstep_inv {α : Type} {I : Time} {s s' : DSys α} {a : DAct α} (h : DInv s)
    (hs : dstep I s a = some s') : DInv s' := by
  cases a with
  | arrive x =>
    simp only [dstep, Option.some.injEq] at hs
    subst hs
    exact ⟨by simp [h.hist], h.sleeping_ge⟩
  | advance t =>
    simp only [dstep] at hs
    split at hs
    · rename_i hg
      simp only [Option.some.injEq] at hs
      subst hs
      refine ⟨h.hist, ?_⟩
      intro u hu
      simp only [] at hu
      have := hg.2
      simp only [DSys.blocked, hu, decide_eq_false_iff_not, Nat.not_lt] at this
      exact this
    · exact absurd hs (by simp)
  | take =>
    simp only [dstep] at hs
    split at hs
    · rename_i last x q hcb hq
      simp only [Option.some.injEq] at hs
      subst hs
      refine ⟨by simp [h.hist, hq], ?_⟩
      intro u hu; simp at hu
    · exact absurd hs (by simp)
  | done =>
    simp only [dstep] at hs
    split at hs
    · rename_i last x hcb
      split at hs
      · simp only [Option.some.injEq] at hs
        subst hs
        refine ⟨h.hist, ?_⟩
        intro u hu
        simp only [Cb.sleeping.injEq] at hu
        simp only []; omega
      · simp only [Option.some.injEq] at hs
        subst hs
        refine ⟨h.hist, ?_⟩
        intro u hu; simp at hu
    · exact absurd hs (by simp)
  | wake =>
    simp only [dstep] at hs
    split at hs
    · split at hs
      · simp only [Option.some.injEq] at hs
        subst hs
        refine ⟨h.hist, ?_⟩
        intro u hu; simp at hu
      · exact absurd hs (by simp)
    · exact absurd hs (by simp)

theorem drun_inv {α : Type} {I : Time} {acts : List (DAct α)} {s s' : DSys α} (h : DInv s)
    (hr : drun I s acts = some s') : DInv s' := by
  induction acts generalizing s with
  | nil => simp only [drun, Option.some.injEq] at hr; subst hr; exact h
  | cons a as ih =>
    simp only [drun] at hr
    cases hst : dstep I s a with
    | none => rw [hst] at hr; exact absurd hr (by simp)
    | some s1 => rw [hst] at hr; exact ih (dstep_inv h hst) hr

theorem drun_append {α : Type} (I : Time) (s : DSys α) (as bs : List (DAct α)) :
    drun I s (as ++ bs) = (drun I s as).bind (fun s' => drun I s' bs) := by
  induction as generalizing s with
  | nil => rfl
  | cons a as ih =>
    simp only [List.cons_append, drun]
    cases dstep I s a with
    | none => rfl
    | some s1 => exact ih s1

/-- From any state satisfying the invariant the coroutine can get back to `queue.get()` without
the queue, the arrivals or the deliveries changing (downstream completes, sleep timer fires). -/
theorem to_waiting {α : Type} (I : Time) (s : DSys α) (h : DInv s) :
    ∃ acts s', drun I s acts = some s' ∧ (∃ l, s'.cb = .waiting l) ∧ s'.queue = s.queue ∧
      s'.ins = s.ins ∧ s'.outs = s.outs ∧ (∀ a ∈ acts, ∀ x, a ≠ DAct.arrive x) := by
  have sleep_case : ∀ (s : DSys α) (u : Time), s.cb = .sleeping u → s.clock ≤ u →
      ∃ acts s', drun I s acts = some s' ∧ (∃ l, s'.cb = .waiting l) ∧ s'.queue = s.queue ∧
        s'.ins = s.ins ∧ s'.outs = s.outs ∧ (∀ a ∈ acts, ∀ x, a ≠ DAct.arrive x) := by
    intro s u hcb hle
    refine ⟨[.advance u, .wake], { s with clock := u, cb := .waiting u }, ?_, ⟨u, rfl⟩, rfl, rfl, rfl, ?_⟩
    · simp [drun, dstep, DSys.blocked, hcb, hle]
    · intro a ha x; simp only [List.mem_cons, List.not_mem_nil, or_false] at ha
      rcases ha with rfl | rfl <;> simp
  cases hcb : s.cb with
  | waiting l => exact ⟨[], s, rfl, ⟨l, hcb⟩, rfl, rfl, rfl, by simp⟩
  | sleeping u => exact sleep_case s u hcb (h.sleeping_ge u hcb)
  | emitting last x =>
    cases hp : pause I last s.clock with
    | none =>
      refine ⟨[.done], { s with cb := .waiting s.clock }, ?_, ⟨_, rfl⟩, rfl, rfl, rfl, by simp⟩
      simp [drun, dstep, hcb, hp]
    | some d =>
      obtain ⟨acts, s', hrun, hw, hq, hi, ho, hno⟩ :=
        sleep_case { s with cb := .sleeping (s.clock + d) } (s.clock + d) rfl (by simp)
      refine ⟨.done :: acts, s', ?_, hw, hq, hi, ho, ?_⟩
      · simp only [drun, dstep, hcb, hp]; exact hrun
      · intro a ha y
        simp only [List.mem_cons] at ha
        rcases ha with rfl | ha
        · simp
        · exact hno a ha y

/-- Liveness: without further arrivals the coroutine can empty the queue and return to `queue.get()`. -/
theorem ddrain {α : Type} (I : Time) (s : DSys α) (h : DInv s) :
    ∃ acts s', drun I s acts = some s' ∧ s'.queue = [] ∧ (∃ l, s'.cb = .waiting l) ∧ s'.ins = s.ins ∧
      (∀ a ∈ acts, ∀ x, a ≠ DAct.arrive x) := by
  generalize hn : s.queue.length = n
  induction n generalizing s with
  | zero =>
    obtain ⟨acts, s', hrun, hw, hq, hi, _, hno⟩ := to_waiting I s h
    exact ⟨acts, s', hrun, by rw [hq]; exact List.eq_nil_of_length_eq_zero hn, hw, hi, hno⟩
  | succ n ih =>
    obtain ⟨acts, s1, hrun, ⟨l, hw⟩, hq, hi, _, hno⟩ := to_waiting I s h
    have hinv1 := drun_inv h hrun
    cases hqq : s1.queue with
    | nil => rw [hq] at hqq; rw [hqq] at hn; simp at hn
    | cons x q =>
      have htake : dstep I s1 .take = some { s1 with queue := q, cb := .emitting l x, outs := s1.outs ++ [(s1.clock, x)] } := by
        simp [dstep, hw, hqq]
      have hinv2 := dstep_inv hinv1 htake
      obtain ⟨acts2, s', hrun2, hnil, hw2, hi2, hno2⟩ := ih _ hinv2 (by
        simp only []; rw [← hq, hqq] at hn; simpa using hn)
      refine ⟨acts ++ .take :: acts2, s', ?_, hnil, hw2, ?_, ?_⟩
      · rw [drun_append, hrun]; simp only [Option.bind_some, drun, htake]; exact hrun2
      · rw [hi2]; exact hi
      · intro a ha y
        simp only [List.mem_append, List.mem_cons] at ha
        rcases ha with ha | rfl | ha
        · exact hno a ha y
        · simp
        · exact hno2 a ha y

end StreamzVerif.RateLimit
