import StreamzVerif.Proofs.Rolling
/-!
# Helper lemmas for the NaN-aware model of `EWMean` (finding `ewm-nan-unsupported` of C11)

* a simulation between the NaN-aware model on a table and the NaN-free model (`ewmStep`) on the same table
  with the NaN cells replaced by 0: same `old_wt`, same `is_first`, and the NaN-aware `result` is the NaN-free
  one, replaced by NaN as soon as a NaN cell has been seen;
* NaN is absorbing (direct, no hypothesis on `q`);
* the pandas specification: restriction to NaN-free tables, and the textbook form for `q ≠ 0`.
-/
namespace StreamzVerif.Rolling

/-! ### small facts -/

theorem hasNan_append (a b : List (Option Rat)) : hasNan (a ++ b) = (hasNan a || hasNan b) := by
  simp [hasNan]

theorem hasNan_cons (x : Option Rat) (xs : List (Option Rat)) : hasNan (x :: xs) = (x.isNone || hasNan xs) := by
  simp [hasNan]

theorem fillNan_append (a b : List (Option Rat)) : fillNan (a ++ b) = fillNan a ++ fillNan b := by
  simp [fillNan]

theorem fillNan_of_not_hasNan (t : List (Option Rat)) (h : hasNan t = false) : fillNan t = valid t := by
  induction t with
  | nil => rfl
  | cons x xs ih =>
    rw [hasNan_cons] at h
    cases x with
    | none => simp at h
    | some v =>
      simp only [Option.isNone_some, Bool.false_or] at h
      simp only [fillNan, valid] at ih
      simp [fillNan, valid, ih h]

theorem fillNan_map_some (l : List Rat) : fillNan (l.map some) = l := by
  induction l with
  | nil => rfl
  | cons x xs ih => simp only [fillNan] at ih; simp [fillNan, ih]

theorem hasNan_map_some (l : List Rat) : hasNan (l.map some) = false := by
  induction l with
  | nil => rfl
  | cons x xs ih => simp [hasNan_cons, ih]

theorem prefixes_map {α β : Type} (f : α → β) (d : List α) (bs : List (List α)) :
    prefixes (d.map f) (bs.map (List.map f)) = (prefixes d bs).map (List.map f) := by
  induction bs generalizing d with
  | nil => rfl
  | cons b bs ih => simp only [List.map_cons, prefixes, ← List.map_append, ih]

theorem zipWith_map_right {α β γ : Type} (f : α → β → γ) (g : α → β) (l : List α) :
    List.zipWith f l (l.map g) = l.map (fun t => f t (g t)) := by
  induction l with
  | nil => rfl
  | cons x xs ih => simp [ih]

/-! ### simulation by the NaN-free model on the filled table -/

theorem ewmCell_tag (wq : Rat) (b : Bool) (r : Rat) (x : Option Rat) :
    ewmCell wq (tagNan b r) x = tagNan (b || x.isNone) ((wq * r + 1 * x.getD 0) / (wq + 1)) := by
  cases b <;> cases x <;> simp [ewmCell, tagNan]

theorem ewmLoopNan_sim (q : Rat) (xs : List (Option Rat)) :
    ∀ (b : Bool) (r : Option Rat) (w : Rat),
      ewmLoopNan q (r.map (tagNan b), w) xs =
        ((ewmLoop q (r, w) (fillNan xs)).1.map (tagNan (b || hasNan xs)), (ewmLoop q (r, w) (fillNan xs)).2) := by
  induction xs with
  | nil => intro b r w; simp [ewmLoopNan, ewmLoop, fillNan, hasNan]
  | cons x xs ih =>
    intro b r w
    have h : (r.map (tagNan b)).map (fun r => ewmCell (w * q) r x)
        = (r.map (fun r => (w * q * r + 1 * x.getD 0) / (w * q + 1))).map (tagNan (b || x.isNone)) := by
      cases r with
      | none => rfl
      | some r => simp [ewmCell_tag]
    have hf : fillNan (x :: xs) = x.getD 0 :: fillNan xs := by simp [fillNan]
    rw [hf]
    simp only [ewmLoopNan, ewmLoop, h, ih, hasNan_cons, Bool.or_assoc]

/-- The states of the two models correspond when `b` tells whether a NaN cell has been consumed. -/
def RelSt (b : Bool) (stN : EwmNanSt) (st : EwmSt) : Prop :=
  stN.oldWt = st.oldWt ∧ stN.isFirst = st.isFirst ∧ (st.isFirst = true → b = false) ∧
    (st.isFirst = false → stN.result = st.result.map (tagNan b))

theorem ewmOnNewNan_sim (q : Rat) (b : Bool) (stN : EwmNanSt) (st : EwmSt) (new : List (Option Rat))
    (h : RelSt b stN st) :
    (ewmOnNewNan q stN new).2 = (ewmOnNew q st (fillNan new)).2.map (tagNan (b || hasNan new)) ∧
      RelSt (b || hasNan new) (ewmOnNewNan q stN new).1 (ewmOnNew q st (fillNan new)).1 := by
  obtain ⟨hw, hf, hb, hr⟩ := h
  cases hfirst : st.isFirst with
  | true =>
    have hbf := hb hfirst
    subst hbf
    rw [hfirst] at hf
    cases new with
    | nil =>
      simp [ewmOnNewNan, ewmOnNew, hf, hfirst, fillNan, hasNan, ewmLoopNan, ewmLoop, RelSt, hw]
    | cons x xs =>
      have hx : (some x : Option (Option Rat)) = (some (x.getD 0)).map (tagNan (false || x.isNone)) := by
        cases x <;> simp [tagNan]
      have hfl : fillNan (x :: xs) = x.getD 0 :: fillNan xs := by simp [fillNan]
      have hs := ewmLoopNan_sim q xs (false || x.isNone) (some (x.getD 0)) st.oldWt
      rw [← hx] at hs
      simp only [ewmOnNewNan, ewmOnNew, hf, hfirst, hfl, if_true, List.head?_cons, List.drop_succ_cons,
        List.drop_zero, hw, hs, hasNan_cons, Bool.or_assoc, List.isEmpty_cons, Bool.and_false, RelSt]
      simp
  | false =>
    rw [hfirst] at hf
    have hres := hr hfirst
    have hs := ewmLoopNan_sim q new b st.result st.oldWt
    rw [← hres] at hs
    simp only [ewmOnNewNan, ewmOnNew, hf, hfirst, hw, RelSt]
    simp [hs]

/-- The accumulator states (`window_accumulator`'s dict) correspond. -/
def RelAcc (b : Bool) (accN : Option (List (List (Option Rat)) × EwmNanSt))
    (acc : Option (List (List Rat) × EwmSt)) : Prop :=
  (accN = none ∧ acc = none ∧ b = false) ∨
    ∃ dfsN stN dfs st, accN = some (dfsN, stN) ∧ acc = some (dfs, st) ∧ dfs = dfsN.map fillNan ∧ RelSt b stN st

theorem ewmStepNan_sim (q : Rat) (b : Bool) (accN : Option (List (List (Option Rat)) × EwmNanSt))
    (acc : Option (List (List Rat) × EwmSt)) (new : List (Option Rat)) (h : RelAcc b accN acc) :
    (ewmStepNan q accN new).2 = (ewmStep q acc (fillNan new)).2.map (tagNan (b || hasNan new)) ∧
      RelAcc (b || hasNan new) (ewmStepNan q accN new).1 (ewmStep q acc (fillNan new)).1 := by
  have hemp : (fillNan new).isEmpty = new.isEmpty := by cases new <;> simp [fillNan]
  rcases h with ⟨hN, hA, hb⟩ | ⟨dfsN, stN, dfs, st, hN, hA, hd, hrel⟩
  · subst hN hA hb
    have hrel : RelSt false (ewmInitialNan new) (ewmInitial (fillNan new)) := by
      simp [RelSt, ewmInitialNan, ewmInitial]
    have hs := ewmOnNewNan_sim q false _ _ new hrel
    refine ⟨by simpa [ewmStepNan, ewmStep, ewmStepWith] using hs.1, Or.inr ?_⟩
    refine ⟨_, _, _, _, rfl, rfl, ?_, hs.2⟩
    simp only [Option.getD_none, hemp]
    cases new <;> simp [fillNan]
  · subst hN hA hd
    have hs := ewmOnNewNan_sim q b stN st new hrel
    refine ⟨by simpa [ewmStepNan, ewmStep, ewmStepWith] using hs.1, Or.inr ?_⟩
    refine ⟨_, _, _, _, rfl, rfl, ?_, hs.2⟩
    simp only [Option.getD_some, hemp]
    cases new <;> simp [fillNan]

theorem runAcc_ewmNan_sim (q : Rat) (bs : List (List (Option Rat))) :
    ∀ (d : List (Option Rat)) accN acc, RelAcc (hasNan d) accN acc →
      (runAcc (ewmStepNan q) accN bs).2 =
          List.zipWith (fun t (o : Option Rat) => o.map (tagNan (hasNan t))) (prefixes d bs)
            (runAcc (ewmStep q) acc (bs.map fillNan)).2 ∧
        RelAcc (hasNan (d ++ bs.flatten)) (runAcc (ewmStepNan q) accN bs).1
          (runAcc (ewmStep q) acc (bs.map fillNan)).1 := by
  induction bs with
  | nil => intro d accN acc h; simpa [runAcc, prefixes] using h
  | cons b bs ih =>
    intro d accN acc h
    have h1 := ewmStepNan_sim q (hasNan d) accN acc b h
    rw [← hasNan_append] at h1
    have h2 := ih (d ++ b) _ _ h1.2
    refine ⟨?_, ?_⟩
    · simp only [runAcc, List.map_cons, prefixes, List.zipWith_cons_cons, h1.1, h2.1]
    · simpa [runAcc, List.append_assoc] using h2.2

/-- The closed form `ewmStreamzNanAt` written through the filled table. -/
theorem ewmStreamzNanAt_eq (q : Rat) (t : List (Option Rat)) :
    (ewmAt q (fillNan t)).map (tagNan (hasNan t)) = ewmStreamzNanAt q t := by
  cases t with
  | nil => simp [ewmStreamzNanAt, ewmAt, fillNan]
  | cons x xs =>
    cases hn : hasNan (x :: xs) with
    | true => simp [ewmStreamzNanAt, ewmAt, fillNan, hn, tagNan]
    | false =>
      rw [fillNan_of_not_hasNan _ hn]
      simp only [ewmStreamzNanAt, List.isEmpty_cons, hn, Bool.false_eq_true, if_false]
      congr 1

/-! ### NaN is absorbing (direct, for every `q`) -/

theorem ewmLoopNan_nan (q : Rat) (xs : List (Option Rat)) :
    ∀ w, (ewmLoopNan q (some none, w) xs).1 = some none := by
  induction xs with
  | nil => intro w; rfl
  | cons x xs ih => intro w; simpa [ewmLoopNan, ewmCell] using ih (w * q + 1)

theorem ewmLoopNan_hasNan (q : Rat) (xs : List (Option Rat)) :
    ∀ (r : Option Rat) w, hasNan xs = true → (ewmLoopNan q (some r, w) xs).1 = some none := by
  induction xs with
  | nil => intro r w h; simp [hasNan] at h
  | cons x xs ih =>
    intro r w h
    simp only [ewmLoopNan, Option.map_some]
    cases x with
    | none =>
      have : ewmCell (w * q) r none = none := by cases r <;> rfl
      rw [this]; exact ewmLoopNan_nan q xs _
    | some v =>
      rw [hasNan_cons] at h
      exact ih _ _ (by simpa using h)

/-- A state as it can be after any number of batches: a row has been taken unless `is_first`. -/
def NanInv (acc : Option (List (List (Option Rat)) × EwmNanSt)) : Prop :=
  ∀ dfs st, acc = some (dfs, st) → st.isFirst = true ∨ st.result.isSome = true

/-- A state whose `result` is a NaN row. -/
def NanStuck (acc : Option (List (List (Option Rat)) × EwmNanSt)) : Prop :=
  ∃ dfs st, acc = some (dfs, st) ∧ st.isFirst = false ∧ st.result = some none

theorem ewmLoopNan_isSome (q : Rat) (xs : List (Option Rat)) :
    ∀ r w, (ewmLoopNan q (r, w) xs).1.isSome = r.isSome := by
  induction xs with
  | nil => intro r w; rfl
  | cons x xs ih => intro r w; simp [ewmLoopNan, ih]

theorem ewmStepNan_inv (q : Rat) (acc : Option (List (List (Option Rat)) × EwmNanSt)) (b : List (Option Rat))
    (h : NanInv acc) : NanInv (ewmStepNan q acc b).1 := by
  intro dfs st hst
  simp only [ewmStepNan, Option.some.injEq, Prod.mk.injEq] at hst
  rw [← hst.2]
  cases acc with
  | none =>
    cases b with
    | nil => left; simp [ewmOnNewNan, ewmInitialNan]
    | cons x xs => right; simp [ewmOnNewNan, ewmInitialNan, ewmLoopNan_isSome]
  | some a =>
    obtain ⟨dfs0, st0⟩ := a
    cases hf : st0.isFirst with
    | true =>
      cases b with
      | nil => left; simp [ewmOnNewNan, hf]
      | cons x xs => right; simp [ewmOnNewNan, hf, ewmLoopNan_isSome]
    | false =>
      rcases h dfs0 st0 rfl with h1 | h1
      · rw [hf] at h1; exact absurd h1 (by simp)
      · right; simp [ewmOnNewNan, hf, ewmLoopNan_isSome, h1]

theorem runAcc_ewmNan_inv (q : Rat) (bs : List (List (Option Rat))) :
    ∀ acc, NanInv acc → NanInv (runAcc (ewmStepNan q) acc bs).1 := by
  induction bs with
  | nil => intro acc h; simpa [runAcc] using h
  | cons b bs ih => intro acc h; simpa [runAcc] using ih _ (ewmStepNan_inv q acc b h)

/-- Folding a batch with a NaN cell into any reachable state emits NaN and leaves a NaN `result`. -/
theorem ewmStepNan_poison (q : Rat) (acc : Option (List (List (Option Rat)) × EwmNanSt)) (b : List (Option Rat))
    (h : NanInv acc) (hb : hasNan b = true) :
    (ewmStepNan q acc b).2 = some none ∧ NanStuck (ewmStepNan q acc b).1 := by
  cases b with
  | nil => simp [hasNan] at hb
  | cons x xs =>
    have first : ∀ w, (ewmLoopNan q (some x, w) xs).1 = some none := by
      intro w
      cases x with
      | none => exact ewmLoopNan_nan q xs w
      | some v =>
        rw [hasNan_cons] at hb
        exact ewmLoopNan_hasNan q xs _ w (by simpa using hb)
    cases acc with
    | none =>
      refine ⟨by simpa [ewmStepNan, ewmOnNewNan, ewmInitialNan] using first 1, _, _, rfl, ?_, ?_⟩
      · simp [ewmOnNewNan, ewmInitialNan]
      · simpa [ewmOnNewNan, ewmInitialNan] using first 1
    | some a =>
      obtain ⟨dfs0, st0⟩ := a
      cases hf : st0.isFirst with
      | true =>
        refine ⟨by simpa [ewmStepNan, ewmOnNewNan, hf] using first _, _, _, rfl, ?_, ?_⟩
        · simp [ewmOnNewNan, hf]
        · simpa [ewmOnNewNan, hf] using first _
      | false =>
        rcases h dfs0 st0 rfl with h1 | h1
        · rw [hf] at h1; exact absurd h1 (by simp)
        · obtain ⟨r, hr⟩ := Option.isSome_iff_exists.mp h1
          have := ewmLoopNan_hasNan q (x :: xs) r st0.oldWt hb
          refine ⟨by simpa [ewmStepNan, ewmOnNewNan, hf, hr] using this, _, _, rfl, ?_, ?_⟩
          · simp [ewmOnNewNan, hf]
          · simpa [ewmOnNewNan, hf, hr] using this

/-- From a NaN `result` every batch, whatever it holds, emits NaN and leaves a NaN `result`. -/
theorem ewmStepNan_stuck (q : Rat) (acc : Option (List (List (Option Rat)) × EwmNanSt)) (b : List (Option Rat))
    (h : NanStuck acc) : (ewmStepNan q acc b).2 = some none ∧ NanStuck (ewmStepNan q acc b).1 := by
  obtain ⟨dfs, st, rfl, hf, hr⟩ := h
  have := ewmLoopNan_nan q b st.oldWt
  refine ⟨by simpa [ewmStepNan, ewmOnNewNan, hf, hr] using this, _, _, rfl, ?_, ?_⟩
  · simp [ewmOnNewNan, hf]
  · simpa [ewmOnNewNan, hf, hr] using this

theorem runAcc_ewmNan_stuck (q : Rat) (bs : List (List (Option Rat))) :
    ∀ acc, NanStuck acc → (runAcc (ewmStepNan q) acc bs).2 = List.replicate bs.length (some none) := by
  induction bs with
  | nil => intro acc _; rfl
  | cons b bs ih =>
    intro acc h
    have h1 := ewmStepNan_stuck q acc b h
    simp [runAcc, h1.1, ih _ h1.2, List.replicate_succ]

/-! ### the pandas specification -/

theorem ewmNumNan_map_some (q : Rat) (l : List Rat) : ewmNumNan q (l.map some) = ewmNum q l := by
  induction l with
  | nil => rfl
  | cons x xs ih => simp [ewmNumNan, ewmNum, ih]

theorem ewmDenNan_map_some (q : Rat) (l : List Rat) : ewmDenNan q (l.map some) = ewmDen q l.length := by
  induction l with
  | nil => rfl
  | cons x xs ih => simp [ewmDenNan, ewmDen, ih]

theorem dropWhile_isNone_map_some (l : List Rat) : (l.map some).dropWhile Option.isNone = l.map some := by
  cases l <;> simp

theorem valid_reverse (l : List (Option Rat)) : valid l.reverse = (valid l).reverse := by
  simp [valid, List.filterMap_reverse]

/-- `(q·a)/(q·b) = a/b` for `q ≠ 0`. -/
theorem rat_mul_div_mul_left (q a b : Rat) (hq : q ≠ 0) : q * a / (q * b) = a / b := by
  rw [Rat.div_def, Rat.div_def, Rat.inv_mul_rev]
  have : q * a * (b⁻¹ * q⁻¹) = a * b⁻¹ * (q * q⁻¹) := by grind
  rw [this, Rat.mul_inv_cancel q hq, Rat.mul_one]

/-- Leading NaN rows (newest first) do not change the weighted mean when `q ≠ 0`. -/
theorem ewm_ratio_dropWhile (q : Rat) (hq : q ≠ 0) (r : List (Option Rat)) :
    ewmNumNan q r / ewmDenNan q r =
      ewmNumNan q (r.dropWhile Option.isNone) / ewmDenNan q (r.dropWhile Option.isNone) := by
  induction r with
  | nil => rfl
  | cons x xs ih =>
    cases x with
    | none => simp only [ewmNumNan, ewmDenNan, List.dropWhile, Option.isNone_none, rat_mul_div_mul_left q _ _ hq, ih]
    | some v => simp

theorem dropWhile_isNone_eq_nil (r : List (Option Rat)) :
    (r.dropWhile Option.isNone).isEmpty = (valid r).isEmpty := by
  induction r with
  | nil => rfl
  | cons x xs ih =>
    cases x with
    | none => simpa [List.dropWhile, valid] using ih
    | some v => simp [List.dropWhile, valid]

end StreamzVerif.Rolling
