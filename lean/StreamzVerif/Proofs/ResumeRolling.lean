import StreamzVerif.Proofs.Resume
import StreamzVerif.Model.Rolling
/-! Bridge between the generic `Resume.run` and the `runAcc` of the C11 models. -/
namespace StreamzVerif.Resume
open StreamzVerif.Rolling

theorem runAcc_eq_run {σ β ρ : Type} (step : σ → β → σ × ρ) (s : σ) (bs : List β) :
    runAcc step s bs = run step s bs := by
  induction bs generalizing s with
  | nil => simp [runAcc, run]
  | cons b bs ih => simp [runAcc, run, ih]

end StreamzVerif.Resume
