import StreamzVerif.Model.AsyncBufferFine
import StreamzVerif.Proofs.AsyncBuffer
/-! Invariant, measure and refinement lemmas for the fine-grained `buffer(n)` model (Model/AsyncBufferFine.lean). -/
set_option linter.unusedSimpArgs false
set_option linter.unusedVariables false
set_option linter.unnecessarySimpa false
namespace StreamzVerif.AsyncBufferFine
open StreamzVerif.AsyncBuffer

variable {α : Type}

@[simp] theorem items_waiting : (Cb.waitingGet : Cb α).items = [] := rfl
@[simp] theorem items_resumed (it : Item α) : (Cb.resumed it).items = [it] := rfl
@[simp] theorem items_emitting (it : Item α) : (Cb.emitting it).items = [it] := rfl
@[simp] theorem items_running_none : (Cb.running none : Cb α).items = [] := rfl
@[simp] theorem items_running_some (it : Item α) : (Cb.running (some it)).items = [it] := rfl
@[simp] theorem out_waiting : (Cb.waitingGet : Cb α).outItems = [] := rfl
@[simp] theorem out_resumed (it : Item α) : (Cb.resumed it).outItems = [] := rfl
@[simp] theorem out_emitting (it : Item α) : (Cb.emitting it).outItems = [it] := rfl
@[simp] theorem out_running_none : (Cb.running none : Cb α).outItems = [] := rfl
@[simp] theorem out_running_some (it : Item α) : (Cb.running (some it)).outItems = [it] := rfl
@[simp] theorem ho_waiting : (Cb.waitingGet : Cb α).handOff = [] := rfl
@[simp] theorem ho_resumed (it : Item α) : (Cb.resumed it).handOff = [it] := rfl
@[simp] theorem ho_emitting (it : Item α) : (Cb.emitting it).handOff = [] := rfl
@[simp] theorem ho_running (r : Option (Item α)) : (Cb.running r).handOff = [] := rfl

theorem ffull_iff (n : Nat) {γ : Type} (q : List γ) : full n q = true ↔ n ≠ 0 ∧ n ≤ q.length := by
  simp [full, BCfg.full]

@[simp] theorem release_key (it : Item α) : it.release.key = it.key := rfl
@[simp] theorem release_id (it : Item α) : it.release.id = it.id := rfl
@[simp] theorem release_val (it : Item α) : it.release.val = it.val := rfl

structure FInv (n : Nat) (s : FSt α) : Prop where
  /-- FIFO history: finished ++ held by the coroutine ++ queue ++ parked = everything that arrived, in order -/
  hist : s.ins = keys s.fin ++ keys s.cb.items ++ keys s.items ++ keys s.putters
  outs : s.outs = keys s.fin ++ keys s.cb.outItems
  idx : s.ins.map Prod.fst = List.range s.ins.length
  bound : n ≠ 0 → s.items.length ≤ n
  parked : s.putters ≠ [] → full n s.items = true ∧ s.cb ≠ .waitingGet
  waiting : s.cb = .waitingGet → s.items = [] ∧ s.putters = []
  acc : s.accepted = ids s.fin ++ ids s.cb.items ++ ids s.items
  notified : List.Perm (s.acked ++ s.acks) s.accepted
  held : ∀ it ∈ s.items ++ s.putters ++ s.cb.handOff, it.cnt = 1 ∧ it.fires = 0
  emitting : ∀ it, s.cb = .emitting it → it.cnt = 2 ∧ it.fires = 0
  releasing : ∀ it, s.cb = .running (some it) → it.cnt = 1 ∧ it.fires = 0
  finished : ∀ it ∈ s.fin, it.cnt = 0 ∧ it.fires = 1
  fired : s.log.filterMap fireId = ids s.fin
  emitted : s.log.filterMap emitOf = s.outs
  accepts : s.log.filterMap acceptId = s.accepted

theorem finv_init (n : Nat) : FInv n (init α) := by
  constructor <;> simp [init]

theorem finv_startEmit (n : Nat) (s : FSt α) (it : Item α)
    (hist : s.ins = keys s.fin ++ [it.key] ++ keys s.items ++ keys s.putters)
    (outs : s.outs = keys s.fin)
    (idx : s.ins.map Prod.fst = List.range s.ins.length)
    (bound : n ≠ 0 → s.items.length ≤ n)
    (parked : s.putters ≠ [] → full n s.items = true)
    (acc : s.accepted = ids s.fin ++ [it.id] ++ ids s.items)
    (notified : List.Perm (s.acked ++ s.acks) s.accepted)
    (held : ∀ it ∈ s.items ++ s.putters, it.cnt = 1 ∧ it.fires = 0)
    (hit : it.cnt = 1 ∧ it.fires = 0)
    (finished : ∀ it ∈ s.fin, it.cnt = 0 ∧ it.fires = 1)
    (fired : s.log.filterMap fireId = ids s.fin)
    (emitted : s.log.filterMap emitOf = s.outs)
    (accepts : s.log.filterMap acceptId = s.accepted) :
    FInv n (startEmit s it) := by
  have hc := handOver_cnt true it hit.1
  constructor
  · simpa [startEmit] using hist
  · simp [startEmit, outs]
  · simpa [startEmit] using idx
  · simpa [startEmit] using bound
  · intro hp; exact ⟨by simpa [startEmit] using parked hp, by simp [startEmit]⟩
  · simp [startEmit]
  · simpa [startEmit] using acc
  · simpa [startEmit] using notified
  · simpa [startEmit] using held
  · intro it' h
    simp [startEmit] at h
    subst h
    simp at hc
    exact ⟨hc.1, by rw [hc.2]; exact hit.2⟩
  · simp [startEmit]
  · simpa [startEmit] using finished
  · simp [startEmit, List.filterMap_append, fired, fire_emitEvs _ _ _ hit.1]
  · simp [startEmit, List.filterMap_append, emitted, Item.key]
  · simp [startEmit, List.filterMap_append, accepts]

theorem finv_getNext (n : Nat) (s : FSt α)
    (hist : s.ins = keys s.fin ++ keys s.items ++ keys s.putters)
    (outs : s.outs = keys s.fin)
    (idx : s.ins.map Prod.fst = List.range s.ins.length)
    (bound : n ≠ 0 → s.items.length ≤ n)
    (parked : s.putters ≠ [] → full n s.items = true)
    (acc : s.accepted = ids s.fin ++ ids s.items)
    (notified : List.Perm (s.acked ++ s.acks) s.accepted)
    (held : ∀ it ∈ s.items ++ s.putters, it.cnt = 1 ∧ it.fires = 0)
    (finished : ∀ it ∈ s.fin, it.cnt = 0 ∧ it.fires = 1)
    (fired : s.log.filterMap fireId = ids s.fin)
    (emitted : s.log.filterMap emitOf = s.outs)
    (accepts : s.log.filterMap acceptId = s.accepted) :
    FInv n (getNext s) := by
  unfold getNext
  cases hp : s.putters with
  | nil =>
    cases hq : s.items with
    | nil =>
      simp only
      constructor
      · simpa [hp, hq] using hist
      · simpa using outs
      · simpa using idx
      · simp
      · simp
      · simp
      · simpa [hq] using acc
      · simpa using notified
      · simp
      · simp
      · simp
      · simpa using finished
      · simpa using fired
      · simpa using emitted
      · simpa using accepts
    | cons h t =>
      simp only
      simp [hp, hq] at hist acc bound
      apply finv_startEmit
      · simp [hist]
      · simpa using outs
      · simpa using idx
      · intro hn; have := bound hn; simp; omega
      · simp
      · simp [acc]
      · simpa using notified
      · intro it hit; simp at hit; exact held it (by simp [hq, hit])
      · exact held h (by simp [hq])
      · simpa using finished
      · simpa using fired
      · simpa using emitted
      · simpa using accepts
  | cons p ps =>
    have hfull := parked (by simp [hp])
    rw [ffull_iff] at hfull
    have hperm : List.Perm (s.acked ++ (s.acks ++ [p.id])) (s.accepted ++ [p.id]) := by
      rw [← List.append_assoc]
      exact List.Perm.append_right _ notified
    cases hq : s.items with
    | nil => simp [hq] at hfull
    | cons h t =>
      simp only
      simp [hp, hq] at hist acc bound hfull
      apply finv_startEmit
      · simp [hist]
      · simpa using outs
      · simpa using idx
      · intro hn; have := bound hn; simpa using this
      · intro _; rw [ffull_iff]; simp; exact hfull
      · simp [acc]
      · simpa using hperm
      · intro it hit
        simp at hit
        rcases hit with hit | hit | hit
        · exact held it (by simp [hq, hit])
        · subst hit; exact held it (by simp [hp])
        · exact held it (by simp [hp, hit])
      · exact held h (by simp [hq])
      · simpa using finished
      · simp [List.filterMap_append, fired, fireId, List.filterMap_cons]
      · simp [List.filterMap_append, emitted, emitOf, List.filterMap_cons]
      · simp [List.filterMap_append, accepts, acceptId, List.filterMap_cons]

theorem perm_insert {l₁ l₂ l₃ : List Nat} (i : Nat) (h : List.Perm (l₁ ++ l₂) l₃) :
    List.Perm ((l₁ ++ [i]) ++ l₂) (l₃ ++ [i]) := by
  have h1 : List.Perm ((l₁ ++ [i]) ++ l₂) (i :: (l₁ ++ l₂)) := by
    simpa using (List.perm_middle (a := i) (l₁ := l₁) (l₂ := l₂))
  exact (h1.trans (List.Perm.cons i h)).trans (List.perm_append_singleton i l₃).symm

/-- `arrive` while no getter is registered: enqueue or park. -/
theorem finv_arrive_busy (n : Nat) (s : FSt α) (x : α) (h : FInv n s) (hcb : s.cb ≠ .waitingGet) :
    FInv n (if full n s.items then
        { s with ins := s.ins ++ [(s.ins.length, x)], putters := s.putters ++ [Item.enter s.ins.length x],
                 log := s.log ++ enterEvs1 s.ins.length ++ enterEvs2 s.ins.length x }
      else
        { s with ins := s.ins ++ [(s.ins.length, x)], items := s.items ++ [Item.enter s.ins.length x],
                 accepted := s.accepted ++ [s.ins.length], acked := s.acked ++ [s.ins.length],
                 log := s.log ++ enterEvs1 s.ins.length ++ [Ev.accept s.ins.length] ++ enterEvs2 s.ins.length x }) := by
  cases hf : full n s.items with
  | true =>
    simp only [if_true]
    constructor
    · simp [h.hist]
    · simpa using h.outs
    · simp [List.map_append, h.idx, List.range_succ]
    · simpa using h.bound
    · intro _; exact ⟨by simpa using hf, by simpa using hcb⟩
    · intro hw; exact absurd hw hcb
    · simpa using h.acc
    · simpa using h.notified
    · intro it hit
      have hh := h.held it
      simp at hit hh
      have he : (Item.enter s.ins.length x).cnt = 1 ∧ (Item.enter s.ins.length x).fires = 0 := by simp
      grind
    · simpa using h.emitting
    · simpa using h.releasing
    · simpa using h.finished
    · simp [List.filterMap_append, h.fired]
    · simp [List.filterMap_append, h.emitted]
    · simp [List.filterMap_append, h.accepts]
  | false =>
    simp only [Bool.false_eq_true, if_false]
    have hp : s.putters = [] := by
      cases hp' : s.putters with
      | nil => rfl
      | cons a t => have := (h.parked (by simp [hp'])).1; simp [hf] at this
    have hnf : ¬ (n ≠ 0 ∧ n ≤ s.items.length) := by rw [← ffull_iff]; simp [hf]
    constructor
    · simp [h.hist, hp]
    · simpa using h.outs
    · simp [List.map_append, h.idx, List.range_succ]
    · intro hn; have := h.bound hn; simp; omega
    · simp [hp]
    · intro hw; exact absurd hw hcb
    · simp [h.acc]
    · exact perm_insert _ h.notified
    · intro it hit
      have hh := h.held it
      simp [hp] at hit hh
      have he : (Item.enter s.ins.length x).cnt = 1 ∧ (Item.enter s.ins.length x).fires = 0 := by simp
      grind
    · simpa using h.emitting
    · simpa using h.releasing
    · simpa using h.finished
    · simp [List.filterMap_append, h.fired, fireId, List.filterMap_cons]
    · simp [List.filterMap_append, h.emitted, emitOf, List.filterMap_cons]
    · simp [List.filterMap_append, h.accepts, acceptId, List.filterMap_cons]

theorem step_arrive_busy (n : Nat) (s : FSt α) (x : α) (hcb : s.cb ≠ .waitingGet) :
    step n s (.arrive x) = some (if full n s.items then
        { s with ins := s.ins ++ [(s.ins.length, x)], putters := s.putters ++ [Item.enter s.ins.length x],
                 log := s.log ++ enterEvs1 s.ins.length ++ enterEvs2 s.ins.length x }
      else
        { s with ins := s.ins ++ [(s.ins.length, x)], items := s.items ++ [Item.enter s.ins.length x],
                 accepted := s.accepted ++ [s.ins.length], acked := s.acked ++ [s.ins.length],
                 log := s.log ++ enterEvs1 s.ins.length ++ [Ev.accept s.ins.length] ++ enterEvs2 s.ins.length x }) := by
  cases hc : s.cb <;> simp [hc] at hcb <;> simp only [step, hc] <;> split <;> rfl

theorem finv_step (n : Nat) (s s' : FSt α) (a : FAct α) (h : FInv n s) (hs : step n s a = some s') : FInv n s' := by
  cases a with
  | arrive x =>
    cases hcb : s.cb with
    | waitingGet =>
      simp [step, hcb] at hs
      subst hs
      obtain ⟨hq, hp⟩ := h.waiting hcb
      have hist := h.hist
      have acc := h.acc
      have outs := h.outs
      simp [hcb, hq, hp] at hist acc outs
      constructor
      · simp [hist, hq, hp]
      · simpa using outs
      · simp [List.map_append, h.idx, List.range_succ]
      · simp [hq]
      · simp [hp]
      · simp
      · simp [acc, hq]
      · exact perm_insert _ h.notified
      · simp [hq, hp]
      · simp
      · simp
      · simpa using h.finished
      · simp [List.filterMap_append, h.fired, fireId, List.filterMap_cons]
      · simp [List.filterMap_append, h.emitted, emitOf, List.filterMap_cons]
      · simp [List.filterMap_append, h.accepts, acceptId, List.filterMap_cons]
    | resumed it =>
      rw [step_arrive_busy n s x (by simp [hcb])] at hs
      cases hs
      exact finv_arrive_busy n s x h (by simp [hcb])
    | emitting it =>
      rw [step_arrive_busy n s x (by simp [hcb])] at hs
      cases hs
      exact finv_arrive_busy n s x h (by simp [hcb])
    | running r =>
      rw [step_arrive_busy n s x (by simp [hcb])] at hs
      cases hs
      exact finv_arrive_busy n s x h (by simp [hcb])
  | resumeCb =>
    have hist := h.hist
    have acc := h.acc
    have outs := h.outs
    have held := h.held
    cases hcb : s.cb with
    | waitingGet => simp [step, hcb] at hs
    | emitting it => simp [step, hcb] at hs
    | resumed it =>
      simp [step, hcb] at hs
      subst hs
      simp [hcb] at hist acc outs held
      apply finv_startEmit
      · simpa using hist
      · simpa using outs
      · exact h.idx
      · exact h.bound
      · intro hp; exact (h.parked hp).1
      · simpa using acc
      · exact h.notified
      · intro it' hit; simp at hit; exact held it' (by grind)
      · exact held it (by simp)
      · exact h.finished
      · exact h.fired
      · exact h.emitted
      · exact h.accepts
    | running r =>
      cases r with
      | none =>
        simp [step, hcb] at hs
        subst hs
        simp [hcb] at hist acc outs held
        apply finv_getNext
        · simpa using hist
        · simpa using outs
        · exact h.idx
        · exact h.bound
        · intro hp; exact (h.parked hp).1
        · simpa using acc
        · exact h.notified
        · intro it' hit; simp at hit; exact held it' hit
        · exact h.finished
        · exact h.fired
        · exact h.emitted
        · exact h.accepts
      | some it =>
        simp [step, hcb] at hs
        subst hs
        have hrel := h.releasing it hcb
        simp [hcb] at hist acc outs held
        apply finv_getNext
        · simpa using hist
        · simpa using outs
        · simpa using h.idx
        · simpa using h.bound
        · intro hp; exact (h.parked (by simpa using hp)).1
        · simpa using acc
        · simpa using h.notified
        · intro it' hit; simp at hit; exact held it' hit
        · intro it' hit
          simp at hit
          rcases hit with hit | hit
          · exact h.finished it' hit
          · subst hit; simp [Item.release, hrel.1, hrel.2]
        · simp [List.filterMap_append, h.fired, relEvs, hrel.1, fireId, List.filterMap_cons]
        · simp [List.filterMap_append, h.emitted]
        · simp [List.filterMap_append, h.accepts]
  | downDone =>
    cases hcb : s.cb with
    | waitingGet => simp [step, hcb] at hs
    | resumed it => simp [step, hcb] at hs
    | running r => simp [step, hcb] at hs
    | emitting it =>
      simp [step, hcb] at hs
      subst hs
      have hem := h.emitting it hcb
      constructor
      · simpa [hcb] using h.hist
      · simpa [hcb] using h.outs
      · simpa using h.idx
      · simpa using h.bound
      · intro hp; exact ⟨(h.parked (by simpa using hp)).1, by simp⟩
      · simp
      · simpa [hcb] using h.acc
      · simpa using h.notified
      · simpa [hcb] using h.held
      · simp
      · intro it' h'
        simp at h'
        subst h'
        simp [Item.release, hem.1, hem.2]
      · simpa using h.finished
      · simp [List.filterMap_append, h.fired, relEvs, hem.1, fireId, List.filterMap_cons]
      · simp [List.filterMap_append, h.emitted]
      · simp [List.filterMap_append, h.accepts]
  | ack =>
    cases hak : s.acks with
    | nil => simp [step, hak] at hs
    | cons i rest =>
      simp [step, hak] at hs
      subst hs
      constructor
      · simpa using h.hist
      · simpa using h.outs
      · simpa using h.idx
      · simpa using h.bound
      · simpa using h.parked
      · simpa using h.waiting
      · simpa using h.acc
      · have := h.notified; simpa [hak] using this
      · simpa using h.held
      · simpa using h.emitting
      · simpa using h.releasing
      · simpa using h.finished
      · simpa using h.fired
      · simpa using h.emitted
      · simpa using h.accepts

theorem finv_run (n : Nat) (acts : List (FAct α)) (s s' : FSt α) (h : FInv n s) (hr : run n s acts = some s') :
    FInv n s' := by
  induction acts generalizing s with
  | nil => simp [run] at hr; subst hr; exact h
  | cons a t ih =>
    simp only [run] at hr
    cases hs : step n s a with
    | none => simp [hs] at hr
    | some s1 =>
      simp [hs] at hr
      exact ih s1 (finv_step n s s1 a h hs) hr

/-! ### measure: arrival-free runs are bounded -/

def FAct.isArrive : FAct α → Bool
  | .arrive _ => true
  | _ => false

theorem getNext_measure (s : FSt α) :
    measure (getNext s) ≤ 3 * (s.items.length + s.putters.length) + s.acks.length := by
  unfold getNext
  cases hp : s.putters with
  | nil =>
    cases hq : s.items with
    | nil => simp [measure]
    | cons h t => simp [measure, startEmit]; omega
  | cons p ps =>
    cases hq : s.items with
    | nil => simp [measure, startEmit]; omega
    | cons h t => simp [measure, startEmit]; omega

theorem step_measure (n : Nat) (s s' : FSt α) (a : FAct α) (ha : a.isArrive = false) (hs : step n s a = some s') :
    measure s' < measure s := by
  cases a with
  | arrive x => simp [FAct.isArrive] at ha
  | resumeCb =>
    cases hcb : s.cb with
    | waitingGet => simp [step, hcb] at hs
    | emitting it => simp [step, hcb] at hs
    | resumed it =>
      simp [step, hcb] at hs; subst hs
      simp [measure, startEmit, hcb]
    | running r =>
      cases r with
      | none =>
        have hs' : s' = getNext s := by simpa [step, hcb] using hs.symm
        have hm : measure s = 3 * (s.items.length + s.putters.length) + s.acks.length + 1 := by simp [measure, hcb]
        rw [hs', hm]
        exact Nat.lt_succ_of_le (getNext_measure s)
      | some it =>
        have hs' : s' = getNext { s with fin := s.fin ++ [it.release], log := s.log ++ relEvs it } := by
          simpa [step, hcb] using hs.symm
        have hm : measure s = 3 * (s.items.length + s.putters.length) + s.acks.length + 1 := by simp [measure, hcb]
        rw [hs', hm]
        exact Nat.lt_succ_of_le (getNext_measure { s with fin := s.fin ++ [it.release], log := s.log ++ relEvs it })
  | downDone =>
    cases hcb : s.cb with
    | waitingGet => simp [step, hcb] at hs
    | resumed it => simp [step, hcb] at hs
    | running r => simp [step, hcb] at hs
    | emitting it => simp [step, hcb] at hs; subst hs; simp [measure, hcb]
  | ack =>
    cases hak : s.acks with
    | nil => simp [step, hak] at hs
    | cons i rest => simp [step, hak] at hs; subst hs; simp [measure, hak]

theorem run_measure (n : Nat) (acts : List (FAct α)) (s s' : FSt α) (ha : ∀ a ∈ acts, a.isArrive = false)
    (hr : run n s acts = some s') : measure s' + acts.length ≤ measure s := by
  induction acts generalizing s with
  | nil => simp [run] at hr; subst hr; simp
  | cons a t ih =>
    simp only [run] at hr
    cases hs : step n s a with
    | none => simp [hs] at hr
    | some s1 =>
      simp [hs] at hr
      have h1 := step_measure n s s1 a (ha a (by simp)) hs
      have h2 := ih s1 (fun b hb => ha b (by simp [hb])) hr
      simp; omega

/-- No loop handle is runnable and the consumer is idle: the coroutine waits for input and every producer knows. -/
theorem stuck_iff (n : Nat) (s : FSt α) :
    (step n s .resumeCb = none ∧ step n s .downDone = none ∧ step n s .ack = none) ↔
      (s.cb = .waitingGet ∧ s.acks = []) := by
  constructor
  · intro ⟨h1, h2, h3⟩
    constructor
    · cases hcb : s.cb with
      | waitingGet => rfl
      | resumed it => simp [step, hcb] at h1
      | emitting it => simp [step, hcb] at h2
      | running r => cases r <;> simp [step, hcb] at h1
    · cases hak : s.acks with
      | nil => rfl
      | cons i rest => simp [step, hak] at h3
  · intro ⟨h1, h2⟩
    simp [step, h1, h2]

/-! ### quiescing -/

theorem internal_is_step (n : Nat) (s s' : FSt α) (h : internal n s = some s') :
    step n s .resumeCb = some s' ∨ step n s .ack = some s' := by
  unfold internal at h
  cases hr : step n s .resumeCb with
  | some s1 => simp [hr] at h; left; rw [h]
  | none => simp [hr] at h; right; exact h

theorem internal_measure (n : Nat) (s s' : FSt α) (h : internal n s = some s') : measure s' < measure s := by
  rcases internal_is_step n s s' h with h | h
  · exact step_measure n s s' _ rfl h
  · exact step_measure n s s' _ rfl h

theorem finv_internal (n : Nat) (s s' : FSt α) (hi : FInv n s) (h : internal n s = some s') : FInv n s' := by
  rcases internal_is_step n s s' h with h | h
  · exact finv_step n s s' _ hi h
  · exact finv_step n s s' _ hi h

theorem quiesce_stuck_eq (n k : Nat) (s : FSt α) (h : internal n s = none) : quiesce n k s = s := by
  cases k <;> simp [quiesce, h]

theorem quiesce_next (n k : Nat) (s s' : FSt α) (h : internal n s = some s') : quiesce n (k + 1) s = quiesce n k s' := by
  simp [quiesce, h]

theorem finv_quiesce (n k : Nat) (s : FSt α) (hi : FInv n s) : FInv n (quiesce n k s) := by
  induction k generalizing s with
  | zero => exact hi
  | succ k ih =>
    simp only [quiesce]
    cases h : internal n s with
    | none => exact hi
    | some s' => exact ih s' (finv_internal n s s' hi h)

/-- with `measure s` fuel the loop really has nothing left to run -/
theorem quiesce_done (n k : Nat) (s : FSt α) (hk : measure s ≤ k) : internal n (quiesce n k s) = none := by
  induction k generalizing s with
  | zero =>
    simp only [quiesce]
    cases h : internal n s with
    | none => rfl
    | some s' => have := internal_measure n s s' h; omega
  | succ k ih =>
    simp only [quiesce]
    cases h : internal n s with
    | none => simpa using h
    | some s' => have := internal_measure n s s' h; exact ih s' (by omega)

theorem quiesce_path1 (n : Nat) (s1 s2 : FSt α) (h1 : internal n s1 = some s2) (h2 : internal n s2 = none) :
    quiesce n (measure s1) s1 = s2 := by
  have := internal_measure n s1 s2 h1
  obtain ⟨k, hk⟩ : ∃ k, measure s1 = k + 1 := ⟨measure s1 - 1, by omega⟩
  rw [hk, quiesce_next n k s1 s2 h1, quiesce_stuck_eq n k s2 h2]

theorem quiesce_path2 (n : Nat) (s1 s2 s3 : FSt α) (h1 : internal n s1 = some s2) (h2 : internal n s2 = some s3)
    (h3 : internal n s3 = none) : quiesce n (measure s1) s1 = s3 := by
  have m1 := internal_measure n s1 s2 h1
  have m2 := internal_measure n s2 s3 h2
  obtain ⟨k, hk⟩ : ∃ k, measure s1 = k + 2 := ⟨measure s1 - 2, by omega⟩
  rw [hk, quiesce_next n (k + 1) s1 s2 h1, quiesce_next n k s2 s3 h2, quiesce_stuck_eq n k s3 h3]

theorem internal_none_iff (n : Nat) (s : FSt α) :
    internal n s = none ↔ (s.cb = .waitingGet ∨ ∃ it, s.cb = .emitting it) ∧ s.acks = [] := by
  unfold internal
  constructor
  · intro h
    cases hr : step n s .resumeCb with
    | some s1 => simp [hr] at h
    | none =>
      simp [hr] at h
      constructor
      · cases hcb : s.cb with
        | waitingGet => exact Or.inl rfl
        | emitting it => exact Or.inr ⟨it, rfl⟩
        | resumed it => simp [step, hcb] at hr
        | running r => cases r <;> simp [step, hcb] at hr
      · cases hak : s.acks with
        | nil => rfl
        | cons i rest => simp [step, hak] at h
  · intro ⟨h1, h2⟩
    rcases h1 with h1 | ⟨it, h1⟩ <;> simp [step, h1, h2]

/-! ### refinement: quiescing after an external action is the settled model's step -/

theorem settled_of_internal_none (n : Nat) (s : FSt α) (h : internal n s = none) : Settled s :=
  (internal_none_iff n s).mp h

theorem qstep_settled (n : Nat) (s : FSt α) (a : FAct α) (hs : Settled s) : Settled (qstep n s a) := by
  unfold qstep
  cases h : step n s a with
  | none => exact hs
  | some s' => exact settled_of_internal_none n _ (quiesce_done n _ s' (Nat.le_refl _))

theorem finv_qstep (n : Nat) (s : FSt α) (a : FAct α) (hi : FInv n s) : FInv n (qstep n s a) := by
  unfold qstep
  cases h : step n s a with
  | none => exact hi
  | some s' => exact finv_quiesce n _ s' (finv_step n s s' a hi h)

theorem refine_arrive (n : Nat) (s : FSt α) (x : α) (hi : FInv n s) (hs : Settled s) :
    abs (qstep n s (.arrive x)) = bstep ⟨n, true⟩ (abs s) (.arrive x) := by
  obtain ⟨hcb, hak⟩ := hs
  rcases hcb with hcb | ⟨e, hcb⟩
  · -- direct hand-off to the waiting getter, then the coroutine's resumption
    obtain ⟨hq, hp⟩ := hi.waiting hcb
    let it := Item.enter s.ins.length x
    let s1 : FSt α := { s with ins := s.ins ++ [(s.ins.length, x)], cb := .resumed it, accepted := s.accepted ++ [s.ins.length], acked := s.acked ++ [s.ins.length], log := s.log ++ enterEvs1 s.ins.length ++ [Ev.accept s.ins.length] ++ enterEvs2 s.ins.length x }
    have h1 : step n s (.arrive x) = some s1 := by simp [step, hcb, s1, it]
    have h2 : internal n s1 = some (startEmit s1 it) := by simp [internal, step, s1]
    have h3 : internal n (startEmit s1 it) = none := by rw [internal_none_iff]; simp [startEmit, s1, hak]
    simp only [qstep, h1]
    rw [quiesce_path1 n s1 _ h2 h3]
    simp [abs, startEmit, bstep, arriveP, AsyncBuffer.startEmit, hcb, s1, it]
  · -- the coroutine is busy with the consumer: enqueue or park, nothing else is runnable
    rw [qstep, step_arrive_busy n s x (by simp [hcb])]
    simp only
    rw [quiesce_stuck_eq]
    · cases hf : full n s.items <;>
        simp [abs, bstep, arriveP, hcb, hf] <;> simp [full] at hf <;> simp [hf]
    · rw [internal_none_iff]
      cases hf : full n s.items <;> simp [hcb, hak]

theorem refine_downDone (n : Nat) (s : FSt α) (hi : FInv n s) (hs : Settled s) :
    abs (qstep n s .downDone) = bstep ⟨n, true⟩ (abs s) .downDone := by
  obtain ⟨hcb, hak⟩ := hs
  rcases hcb with hcb | ⟨e, hcb⟩
  · simp [qstep, step, hcb, abs, bstep, doneP]
  · let s1 : FSt α := { s with cb := .running (some e.release), log := s.log ++ relEvs e }
    let s2 : FSt α := getNext { s1 with fin := s1.fin ++ [e.release.release], log := s1.log ++ relEvs e.release }
    have h1 : step n s .downDone = some s1 := by simp [step, hcb, s1]
    have h2 : internal n s1 = some s2 := by simp [internal, step, s1, s2]
    simp only [qstep, h1]
    -- the resumption: release, next get
    cases hp : s.putters with
    | nil =>
      have h3 : internal n s2 = none := by
        rw [internal_none_iff]
        cases hq : s.items <;> simp [s2, s1, getNext, hp, hq, startEmit, hak]
      rw [quiesce_path1 n s1 s2 h2 h3]
      cases hq : s.items <;>
        simp [abs, s2, s1, getNext, startEmit, bstep, doneP, nextP, AsyncBuffer.startEmit, hcb, hp, hq, Item.finish, finishEvs]
    | cons p ps =>
      have hfull := (hi.parked (by simp [hp])).1
      rw [ffull_iff] at hfull
      cases hq : s.items with
      | nil => simp [hq] at hfull
      | cons h t =>
        let s3 : FSt α := { s2 with acks := [], acked := s2.acked ++ [p.id] }
        have h3 : internal n s2 = some s3 := by
          simp [internal, step, s3, s2, s1, getNext, hp, hq, startEmit, hak]
        have h4 : internal n s3 = none := by
          rw [internal_none_iff]; simp [s3, s2, s1, getNext, hp, hq, startEmit]
        rw [quiesce_path2 n s1 s2 s3 h2 h3 h4]
        simp [abs, s3, s2, s1, getNext, startEmit, bstep, doneP, nextP, AsyncBuffer.startEmit, hcb, hp, hq, Item.finish, finishEvs]

theorem qinit_eq (n : Nat) : qinit n α = { (init α) with cb := .waitingGet } := by
  simp [qinit, quiesce, internal, step, init, getNext]

theorem qinit_settled (n : Nat) : Settled (qinit n α) := by
  rw [qinit_eq]; simp [Settled, init]

theorem finv_qinit (n : Nat) : FInv n (qinit n α) :=
  finv_quiesce n 1 _ (finv_init n)

theorem abs_qinit (n : Nat) : abs (qinit n α) = binit α := by
  rw [qinit_eq]; simp [abs, init, binit]

theorem refine_qstep (n : Nat) (s : FSt α) (b : BAct α) (hi : FInv n s) (hs : Settled s) :
    abs (qstep n s (ofB b)) = bstep ⟨n, true⟩ (abs s) b := by
  cases b with
  | arrive x => exact refine_arrive n s x hi hs
  | downDone => exact refine_downDone n s hi hs

theorem refine_qrun (n : Nat) (acts : List (BAct α)) (s : FSt α) (hi : FInv n s) (hs : Settled s) :
    abs (qrun n s acts) = brun ⟨n, true⟩ (abs s) acts ∧ FInv n (qrun n s acts) ∧ Settled (qrun n s acts) := by
  induction acts generalizing s with
  | nil => exact ⟨rfl, hi, hs⟩
  | cons b t ih =>
    have := ih (qstep n s (ofB b)) (finv_qstep n s _ hi) (qstep_settled n s _ hs)
    simp only [qrun, List.map_cons, List.foldl_cons, brun] at this ⊢
    rw [← refine_qstep n s b hi hs]
    exact this

theorem cb_items_split (c : Cb α) : c.items = c.outItems ++ c.handOff := by
  cases c with
  | running r => cases r <;> rfl
  | _ => rfl

theorem finv_ids_nodup (n : Nat) (s : FSt α) (h : FInv n s) :
    (ids s.fin ++ ids s.cb.items ++ ids s.items ++ ids s.putters).Nodup := by
  have : ids s.fin ++ ids s.cb.items ++ ids s.items ++ ids s.putters = s.ins.map Prod.fst := by
    rw [h.hist]; simp [ids_eq_keys]
  rw [this, h.idx]
  exact List.nodup_range

/-- a state that is not stuck has a non-arrival action enabled -/
theorem progress (n : Nat) (s : FSt α) (h : ¬ (s.cb = .waitingGet ∧ s.acks = [])) :
    ∃ a : FAct α, a.isArrive = false ∧ ∃ s', step n s a = some s' := by
  cases hcb : s.cb with
  | resumed it => exact ⟨.resumeCb, rfl, Option.isSome_iff_exists.mp (by simp [step, hcb])⟩
  | emitting it => exact ⟨.downDone, rfl, Option.isSome_iff_exists.mp (by simp [step, hcb])⟩
  | running r => cases r <;> exact ⟨.resumeCb, rfl, Option.isSome_iff_exists.mp (by simp [step, hcb])⟩
  | waitingGet =>
    cases hak : s.acks with
    | nil => exact absurd ⟨hcb, hak⟩ h
    | cons i rest => exact ⟨.ack, rfl, Option.isSome_iff_exists.mp (by simp [step, hak])⟩

theorem run_append (n : Nat) (a b : List (FAct α)) (s : FSt α) :
    run n s (a ++ b) = (run n s a).bind (fun s' => run n s' b) := by
  induction a generalizing s with
  | nil => simp [run]
  | cons x t ih =>
    simp only [List.cons_append, run]
    cases step n s x with
    | none => simp
    | some s1 => simp [ih]

/-- without arrivals the loop and the consumer bring every state to rest -/
theorem drain (n : Nat) (k : Nat) (s : FSt α) (hk : measure s ≤ k) :
    ∃ acts s', (∀ a ∈ acts, a.isArrive = false) ∧ run n s acts = some s' ∧ s'.cb = .waitingGet ∧ s'.acks = [] := by
  induction k generalizing s with
  | zero =>
    refine ⟨[], s, by simp, rfl, ?_⟩
    unfold measure at hk
    have h1 : s.acks = [] := List.eq_nil_of_length_eq_zero (by omega)
    refine ⟨?_, h1⟩
    cases hcb : s.cb <;> simp [hcb] at hk
    rfl
  | succ k ih =>
    by_cases hst : s.cb = .waitingGet ∧ s.acks = []
    · exact ⟨[], s, by simp, rfl, hst.1, hst.2⟩
    · obtain ⟨a, ha, s1, hs1⟩ := progress n s hst
      have := step_measure n s s1 a ha hs1
      obtain ⟨acts, s', h1, h2, h3⟩ := ih s1 (by omega)
      refine ⟨a :: acts, s', ?_, by simp [run, hs1, h2], h3⟩
      intro b hb
      simp at hb
      rcases hb with hb | hb
      · rw [hb]; exact ha
      · exact h1 b hb

theorem run_ins (n : Nat) (acts : List (FAct α)) (s s' : FSt α) (ha : ∀ a ∈ acts, a.isArrive = false)
    (hr : run n s acts = some s') : s'.ins = s.ins := by
  have getNext_ins : ∀ s : FSt α, (getNext s).ins = s.ins := by
    intro s; unfold getNext
    split
    · split <;> rfl
    · split <;> rfl
  induction acts generalizing s with
  | nil => simp [run] at hr; rw [hr]
  | cons a t ih =>
    simp only [run] at hr
    cases hs : step n s a with
    | none => simp [hs] at hr
    | some s1 =>
      simp [hs] at hr
      rw [ih s1 (fun b hb => ha b (by simp [hb])) hr]
      cases a with
      | arrive x => have := ha (.arrive x) (by simp); simp [FAct.isArrive] at this
      | resumeCb =>
        cases hcb : s.cb with
        | waitingGet => simp [step, hcb] at hs
        | emitting it => simp [step, hcb] at hs
        | resumed it => simp [step, hcb] at hs; rw [← hs]; rfl
        | running r => cases r <;> simp [step, hcb] at hs <;> rw [← hs, getNext_ins]
      | downDone =>
        cases hcb : s.cb with
        | emitting it => simp [step, hcb] at hs; rw [← hs]
        | waitingGet => simp [step, hcb] at hs
        | resumed it => simp [step, hcb] at hs
        | running r => simp [step, hcb] at hs
      | ack =>
        cases hak : s.acks with
        | nil => simp [step, hak] at hs
        | cons i rest => simp [step, hak] at hs; rw [← hs]

end StreamzVerif.AsyncBufferFine
