import StreamzVerif.Proofs.NodeSem
/-
Graph-level part of C01: the interpreter `emitAt / deliver / update / runEffs` of
`Model/Graph.lean` (= `Stream._emit`) really is "each node runs its local `upd` on exactly
what its upstreams emitted".

Structure of this file
  1. local-run vocabulary (`finalLoc`, `outsOf`, `Arr`, `stepLoc`, `localRun` — textually identical to
     `Proofs/NodeSem.lean`, to be de-duplicated — plus `replay`, `localOuts`, `localRun_eq`) and log
     projections (`arrivalsAt`, `emitsOf`, `arrivalsFrom`, `arriveFromTo`, `fanout`)
  2. frame lemmas: reference counting / waiters / detach never touch `loc`; only `detach` touches `downs`
  3. unfolding lemmas for the interpreter (`emitAt_succ`, `deliver_cons`, `update_sink`, `update_other`,
     `runEffs_cons`; helper defs `emitPre`, `sinkRes`, `updWrap`, `etrPost`) and `fuel_mono_all`
  4. `Run`: the big-step relation of *successful* runs (no exception, no carried exception, enough fuel) and
     `run_of_ok` (every successful interpreter run is a `Run` derivation)
  5. rule inductions over `Run`: `run_downs_sublist`, `Acyclic` and its preservation, `run_bounds`
     (arrivals_above), `run_proj` (projection theorem), `run_emits`, `run_deliv`, `run_static`, `run_edges`,
     per-edge lemmas, `upd_detach` / `noDetach_of_slices`
  6. termination on finite DAGs: user functions never raise `outOfFuel`, `interp_downs_sublist` (all runs),
     `term_all`
  7. `run_complete` (every `Run` derivation is realised by the interpreter with some fuel)
  8. `run_edges_sub`: edge consistency when `slice` nodes detach (sub-sequence form)
  9. `run_df`: depth-first segment shape of the log
-/
namespace StreamzVerif.Graph

/-! ### 1. Vocabulary -/

def replay (G : NodeId → Kind) (i : NodeId) (s : NState) (arrivals : List Arr) : NState :=
  arrivals.foldl (fun s a => finalLoc (upd (G i) s a.1 a.2.1 a.2.2).effs s) s

def localOuts (G : NodeId → Kind) (i : NodeId) : NState → List Arr → List (Val × Meta)
  | _, [] => []
  | s, a :: as =>
    outsOf (upd (G i) s a.1 a.2.1 a.2.2).effs
      ++ localOuts G i (finalLoc (upd (G i) s a.1 a.2.1 a.2.2).effs s) as

theorem localRun_eq (G : NodeId → Kind) (i : NodeId) (s : NState) (as : List Arr) :
    localRun (G i) s as = (replay G i s as, localOuts G i s as) := by
  induction as generalizing s with
  | nil => rfl
  | cons a as ih => simp [localRun, stepLoc, replay, localOuts, ih]

@[simp] theorem replay_nil (G : NodeId → Kind) (i : NodeId) (s : NState) : replay G i s [] = s := rfl
@[simp] theorem localOuts_nil (G : NodeId → Kind) (i : NodeId) (s : NState) : localOuts G i s [] = [] := rfl

theorem replay_cons (G : NodeId → Kind) (i : NodeId) (s : NState) (a : Arr) (as : List Arr) :
    replay G i s (a :: as) = replay G i (finalLoc (upd (G i) s a.1 a.2.1 a.2.2).effs s) as := rfl

theorem replay_append (G : NodeId → Kind) (i : NodeId) (s : NState) (a b : List Arr) :
    replay G i s (a ++ b) = replay G i (replay G i s a) b := by
  simp [replay, List.foldl_append]

theorem localOuts_append (G : NodeId → Kind) (i : NodeId) (s : NState) (a b : List Arr) :
    localOuts G i s (a ++ b) = localOuts G i s a ++ localOuts G i (replay G i s a) b := by
  induction a generalizing s with
  | nil => simp
  | cons x xs ih => simp [localOuts, replay_cons, ih]

/-- the arrivals at node `i`, in log order -/
def arrivalsAt (i : NodeId) (log : List Ev) : List Arr :=
  log.filterMap fun
    | .arrive d who v md => if d = i then some (who, v, md) else none
    | _ => none

/-- the emissions of node `n`, in log order -/
def emitsOf (n : NodeId) (log : List Ev) : List (Val × Meta) :=
  log.filterMap fun
    | .emit m v md => if m = n then some (v, md) else none
    | _ => none

/-- everything delivered *from* `u` (destination, value, metadata), in log order -/
def arrivalsFrom (u : NodeId) (log : List Ev) : List (NodeId × Val × Meta) :=
  log.filterMap fun
    | .arrive d who v md => if who = u then some (d, v, md) else none
    | _ => none

/-- what travelled along the edge `u → d` -/
def arriveFromTo (u d : NodeId) (log : List Ev) : List (Val × Meta) :=
  log.filterMap fun
    | .arrive d' who v md => if who = u ∧ d' = d then some (v, md) else none
    | _ => none

/-- one emission handed to every member of a downstream list, in list order -/
def fanout (ds : List NodeId) (e : Val × Meta) : List (NodeId × Val × Meta) :=
  ds.map fun d => (d, e.1, e.2)

@[simp] theorem arrivalsAt_append (i : NodeId) (a b : List Ev) :
    arrivalsAt i (a ++ b) = arrivalsAt i a ++ arrivalsAt i b := by simp [arrivalsAt]
@[simp] theorem emitsOf_append (i : NodeId) (a b : List Ev) :
    emitsOf i (a ++ b) = emitsOf i a ++ emitsOf i b := by simp [emitsOf]
@[simp] theorem arrivalsFrom_append (i : NodeId) (a b : List Ev) :
    arrivalsFrom i (a ++ b) = arrivalsFrom i a ++ arrivalsFrom i b := by simp [arrivalsFrom]
@[simp] theorem arriveFromTo_append (u d : NodeId) (a b : List Ev) :
    arriveFromTo u d (a ++ b) = arriveFromTo u d a ++ arriveFromTo u d b := by simp [arriveFromTo]
@[simp] theorem arrivalsAt_nil (i : NodeId) : arrivalsAt i [] = [] := rfl
@[simp] theorem emitsOf_nil (i : NodeId) : emitsOf i [] = [] := rfl
@[simp] theorem arrivalsFrom_nil (i : NodeId) : arrivalsFrom i [] = [] := rfl
@[simp] theorem arriveFromTo_nil (u d : NodeId) : arriveFromTo u d [] = [] := rfl

/-- events that are neither arrivals nor emissions (reference counting, sink bookkeeping) -/
def Ev.quiet : Ev → Prop
  | .arrive .. => False
  | .emit .. => False
  | _ => True

def QuietL (l : List Ev) : Prop := ∀ e ∈ l, e.quiet

theorem QuietL.arrivalsAt {l : List Ev} (h : QuietL l) (i : NodeId) : arrivalsAt i l = [] := by
  induction l with
  | nil => rfl
  | cons e l ih =>
    have he := h e (by simp)
    have := ih (fun x hx => h x (by simp [hx]))
    cases e <;> simp_all [Graph.arrivalsAt, Ev.quiet]
theorem QuietL.emitsOf {l : List Ev} (h : QuietL l) (i : NodeId) : emitsOf i l = [] := by
  induction l with
  | nil => rfl
  | cons e l ih =>
    have he := h e (by simp)
    have := ih (fun x hx => h x (by simp [hx]))
    cases e <;> simp_all [Graph.emitsOf, Ev.quiet]
theorem QuietL.arrivalsFrom {l : List Ev} (h : QuietL l) (i : NodeId) : arrivalsFrom i l = [] := by
  induction l with
  | nil => rfl
  | cons e l ih =>
    have he := h e (by simp)
    have := ih (fun x hx => h x (by simp [hx]))
    cases e <;> simp_all [Graph.arrivalsFrom, Ev.quiet]

/-! ### 2. Frame lemmas -/

@[simp] theorem setLoc_same (S : State) (i : NodeId) (s : NState) : (S.setLoc i s).loc i = s := by
  simp [State.setLoc]
theorem setLoc_other (S : State) {i j : NodeId} (s : NState) (h : j ≠ i) : (S.setLoc i s).loc j = S.loc j := by
  simp [State.setLoc, h]
@[simp] theorem setLoc_downs (S : State) (i : NodeId) (s : NState) : (S.setLoc i s).downs = S.downs := rfl
@[simp] theorem setDowns_loc (S : State) (i : NodeId) (l : List NodeId) : (S.setDowns i l).loc = S.loc := rfl

@[simp] theorem retainMd_loc (k : Nat) (md : Meta) (S : State) : (retainMd k md S).1.loc = S.loc := by
  induction md generalizing S with
  | nil => rfl
  | cons m ms ih =>
    unfold retainMd
    split
    · exact ih S
    · simp only []; rw [ih]
@[simp] theorem retainMd_downs (k : Nat) (md : Meta) (S : State) : (retainMd k md S).1.downs = S.downs := by
  induction md generalizing S with
  | nil => rfl
  | cons m ms ih =>
    unfold retainMd
    split
    · exact ih S
    · simp only []; rw [ih]
theorem retainMd_quiet (k : Nat) (md : Meta) (S : State) : QuietL (retainMd k md S).2 := by
  induction md generalizing S with
  | nil => intro e he; simp [retainMd] at he
  | cons m ms ih =>
    unfold retainMd
    split
    · exact ih S
    · intro e he
      simp only [List.mem_cons] at he
      rcases he with rfl | he
      · trivial
      · exact ih _ e he

@[simp] theorem releaseMd_loc (md : Meta) (S : State) : (releaseMd md S).1.loc = S.loc := by
  induction md generalizing S with
  | nil => rfl
  | cons m ms ih =>
    unfold releaseMd
    split
    · exact ih S
    · simp only []; rw [ih]
@[simp] theorem releaseMd_downs (md : Meta) (S : State) : (releaseMd md S).1.downs = S.downs := by
  induction md generalizing S with
  | nil => rfl
  | cons m ms ih =>
    unfold releaseMd
    split
    · exact ih S
    · simp only []; rw [ih]
theorem releaseMd_quiet (md : Meta) (S : State) : QuietL (releaseMd md S).2 := by
  induction md generalizing S with
  | nil => intro e he; simp [releaseMd] at he
  | cons m ms ih =>
    unfold releaseMd
    split
    · exact ih S
    · intro e he
      simp only [List.mem_cons] at he
      rcases he with rfl | he
      · trivial
      · split at he
        · simp only [List.mem_cons] at he
          rcases he with rfl | he
          · trivial
          · exact ih _ e he
        · exact ih _ e he

theorem detach_fold_loc (d : NodeId) (us : List NodeId) (S : State) :
    (us.foldl (fun S u => S.setDowns u ((S.downs u).filter (· ≠ d))) S).loc = S.loc := by
  induction us generalizing S with
  | nil => rfl
  | cons u us ih => rw [List.foldl_cons, ih]; rfl
@[simp] theorem detachNode_loc (d : NodeId) (S : State) : (detachNode d S).loc = S.loc :=
  detach_fold_loc d _ S

theorem detach_fold_downs (d : NodeId) (us : List NodeId) (S : State) (u : NodeId) :
    ((us.foldl (fun S u => S.setDowns u ((S.downs u).filter (· ≠ d))) S).downs u).Sublist (S.downs u) := by
  induction us generalizing S with
  | nil => exact List.Sublist.refl _
  | cons w us ih =>
    simp only [List.foldl_cons]
    refine (ih _).trans ?_
    simp only [State.setDowns]
    split
    · subst_vars; exact List.filter_sublist
    · exact List.Sublist.refl _
/-- `slice._check_end` only removes edges. -/
theorem detachNode_downs (d : NodeId) (S : State) (u : NodeId) :
    ((detachNode d S).downs u).Sublist (S.downs u) := detach_fold_downs d _ S u

/-! ### 3. Unfolding lemmas and fuel monotonicity -/

variable (G : NodeId → Kind)

/-- the `_retain_refs(metadata, len(self.downstreams))` prologue of `_emit` -/
def emitPre (S : State) (n : NodeId) (md : Meta) : State × List Ev :=
  if md.isEmpty then (S, []) else retainMd (S.downs n).length md S

@[simp] theorem emitPre_loc (S : State) (n : NodeId) (md : Meta) : (emitPre S n md).1.loc = S.loc := by
  unfold emitPre; split <;> simp
@[simp] theorem emitPre_downs (S : State) (n : NodeId) (md : Meta) : (emitPre S n md).1.downs = S.downs := by
  unfold emitPre; split <;> simp
theorem emitPre_quiet (S : State) (n : NodeId) (md : Meta) : QuietL (emitPre S n md).2 := by
  unfold emitPre; split
  · intro e he; simp at he
  · exact retainMd_quiet _ _ _

theorem emitAt_succ (f : Nat) (n : NodeId) (v : Val) (md : Meta) (S : State) :
    emitAt G (f + 1) n v md S =
      let r := deliver G f (S.downs n) n v md (emitPre S n md).1
      { st := r.st, log := Ev.emit n v md :: (emitPre S n md).2 ++ r.log, toks := r.toks, err := r.err,
        carried := r.carried } := by
  rw [emitAt.eq_2]; rfl

theorem deliver_nil (f : Nat) (n : NodeId) (v : Val) (md : Meta) (S : State) :
    deliver G (f + 1) [] n v md S = { st := S } := by rw [deliver.eq_2]

theorem deliver_cons (f : Nat) (d : NodeId) (ds : List NodeId) (n : NodeId) (v : Val) (md : Meta) (S : State) :
    deliver G (f + 1) (d :: ds) n v md S =
      let r1 := update G f d n v md S
      match r1.err with
      | some _ => r1
      | none =>
        let r2 := deliver G f ds n v md (releaseMd md r1.st).1
        { st := r2.st, log := r1.log ++ (releaseMd md r1.st).2 ++ r2.log, toks := r1.toks ++ r2.toks,
          err := r2.err, carried := r1.carried <|> r2.carried } := by
  rw [deliver.eq_3]; rfl

/-- `sinks.sink.update` (no recursion, no fuel) -/
def sinkRes (m : SinkMode) (d who : NodeId) (v : Val) (md : Meta) (S : State) : Res :=
  match m with
  | .sync fn =>
    match fn.eval v with
    | .ok _ => { st := S, log := [Ev.arrive d who v md] }
    | .error e => Res.fail S e [Ev.arrive d who v md, Ev.raised d e]
  | .async =>
    let P := if md.isEmpty then (S, []) else retainMd 1 md S
    { st := { P.1 with nextTok := S.nextTok + 1, pending := P.1.pending ++ [(S.nextTok, d, md)] },
      log := [Ev.arrive d who v md, Ev.sinkStart d S.nextTok v md] ++ P.2, toks := [S.nextTok] }

/-- what `update` of a non-sink node makes of the result `r` of running its body `u` -/
def updWrap (k : Kind) (d who : NodeId) (v : Val) (md : Meta) (u : UpdRes) (r : Res) : Res :=
  let res : Res :=
    match r.err with
    | some _ => { r with log := Ev.arrive d who v md :: r.log }
    | none =>
      match u.err with
      | some e => { st := r.st, log := Ev.arrive d who v md :: r.log ++ [Ev.raised d e], err := some e, carried := r.carried }
      | none => { st := r.st, log := Ev.arrive d who v md :: r.log, toks := if u.passRet then r.toks else [],
                  carried := r.carried }
  if isCoroutine k then
    match res.err with
    | some .outOfFuel => res
    | some e => { res with err := none, toks := [], carried := some e }
    | none => res
  else res

theorem update_sink (f : Nat) (d who : NodeId) (v : Val) (md : Meta) (S : State) (m : SinkMode)
    (h : G d = .sink m) : update G (f + 1) d who v md S = sinkRes m d who v md S := by
  rw [update.eq_2]
  split
  · next fn hk => rw [h] at hk; cases hk; rfl
  · next hk => rw [h] at hk; cases hk; rfl
  · next h1 h2 =>
    cases m with
    | sync fn => exact absurd h (h1 fn)
    | async => exact absurd h h2

theorem update_other (f : Nat) (d who : NodeId) (v : Val) (md : Meta) (S : State)
    (h : ∀ m, G d ≠ .sink m) :
    update G (f + 1) d who v md S =
      updWrap (G d) d who v md (upd (G d) (S.loc d) who v md)
        (runEffs G f d (upd (G d) (S.loc d) who v md).effs S) := by
  rw [update.eq_2]
  split
  · next fn hk => exact absurd hk (h _)
  · next hk => exact absurd hk (h _)
  · rfl

theorem runEffs_nil (f : Nat) (d : NodeId) (S : State) : runEffs G (f + 1) d [] S = { st := S } := by
  rw [runEffs.eq_2]

/-- the epilogue of `emitThenRelease`: release now, or park the release until the awaitables are done -/
def etrPost (md : Meta) (toks : List Tok) (S : State) : State × List Ev :=
  if toks.isEmpty then releaseMd md S else ({ S with waiters := S.waiters ++ [(toks, md)] }, [])

@[simp] theorem etrPost_loc (md : Meta) (toks : List Tok) (S : State) : (etrPost md toks S).1.loc = S.loc := by
  unfold etrPost; split <;> simp
@[simp] theorem etrPost_downs (md : Meta) (toks : List Tok) (S : State) : (etrPost md toks S).1.downs = S.downs := by
  unfold etrPost; split <;> simp
theorem etrPost_quiet (md : Meta) (toks : List Tok) (S : State) : QuietL (etrPost md toks S).2 := by
  unfold etrPost; split
  · exact releaseMd_quiet _ _
  · intro e he; simp at he

theorem runEffs_cons (f : Nat) (d : NodeId) (e : Eff) (es : List Eff) (S : State) :
    runEffs G (f + 1) d (e :: es) S =
      match e with
      | .retain md =>
        let r := runEffs G f d es (retainMd 1 md S).1
        { r with log := (retainMd 1 md S).2 ++ r.log }
      | .release md =>
        let r := runEffs G f d es (releaseMd md S).1
        { r with log := (releaseMd md S).2 ++ r.log }
      | .set s => runEffs G f d es (S.setLoc d s)
      | .detach => runEffs G f d es (detachNode d S)
      | .emit v md =>
        let r1 := emitAt G f d v md S
        match r1.err with
        | some _ => r1
        | none =>
          let r2 := runEffs G f d es r1.st
          { st := r2.st, log := r1.log ++ r2.log, toks := r1.toks ++ r2.toks, err := r2.err,
            carried := r1.carried <|> r2.carried }
      | .emitThenRelease v md =>
        let r1 := emitAt G f d v md S
        match r1.err with
        | some _ => r1
        | none =>
          match r1.carried with
          | some _ => r1
          | none =>
            let r2 := runEffs G f d es (etrPost md r1.toks r1.st).1
            { st := r2.st, log := r1.log ++ (etrPost md r1.toks r1.st).2 ++ r2.log, toks := r1.toks ++ r2.toks,
              err := r2.err, carried := r2.carried } := by
  cases e <;> (first | rw [runEffs.eq_3] | rw [runEffs.eq_4] | rw [runEffs.eq_5] | rw [runEffs.eq_6] | rw [runEffs.eq_7] | rw [runEffs.eq_8]) <;> rfl

theorem updWrap_oof {k : Kind} {d who : NodeId} {v : Val} {md : Meta} {u : UpdRes} {r : Res}
    (h : r.err = some .outOfFuel) : (updWrap k d who v md u r).err = some .outOfFuel := by
  unfold updWrap
  simp only [h]
  split <;> simp

theorem zero_oof_emitAt (n : NodeId) (v : Val) (md : Meta) (S : State) :
    (emitAt G 0 n v md S).err = some .outOfFuel := by rw [emitAt.eq_1]; rfl
theorem zero_oof_deliver (ds : List NodeId) (n : NodeId) (v : Val) (md : Meta) (S : State) :
    (deliver G 0 ds n v md S).err = some .outOfFuel := by rw [deliver.eq_1]; rfl
theorem zero_oof_update (d n : NodeId) (v : Val) (md : Meta) (S : State) :
    (update G 0 d n v md S).err = some .outOfFuel := by rw [update.eq_1]; rfl
theorem zero_oof_runEffs (d : NodeId) (es : List Eff) (S : State) :
    (runEffs G 0 d es S).err = some .outOfFuel := by rw [runEffs.eq_1]; rfl

/-- More fuel never changes a run that did not run out of fuel (all four functions at once). -/
theorem fuel_mono_all (f : Nat) :
    (∀ f' n v md S, f ≤ f' → (emitAt G f n v md S).err ≠ some .outOfFuel →
        emitAt G f' n v md S = emitAt G f n v md S) ∧
    (∀ f' ds n v md S, f ≤ f' → (deliver G f ds n v md S).err ≠ some .outOfFuel →
        deliver G f' ds n v md S = deliver G f ds n v md S) ∧
    (∀ f' d who v md S, f ≤ f' → (update G f d who v md S).err ≠ some .outOfFuel →
        update G f' d who v md S = update G f d who v md S) ∧
    (∀ f' d es S, f ≤ f' → (runEffs G f d es S).err ≠ some .outOfFuel →
        runEffs G f' d es S = runEffs G f d es S) := by
  induction f with
  | zero =>
    refine ⟨?_, ?_, ?_, ?_⟩
    · intro f' n v md S _ h; exact absurd (zero_oof_emitAt G n v md S) h
    · intro f' ds n v md S _ h; exact absurd (zero_oof_deliver G ds n v md S) h
    · intro f' d n v md S _ h; exact absurd (zero_oof_update G d n v md S) h
    · intro f' d es S _ h; exact absurd (zero_oof_runEffs G d es S) h
  | succ f ih =>
    obtain ⟨ihE, ihD, ihU, ihR⟩ := ih
    refine ⟨?_, ?_, ?_, ?_⟩
    · intro f' n v md S hle h
      obtain ⟨g, rfl⟩ : ∃ g, f' = g + 1 := ⟨f' - 1, by omega⟩
      have hg : f ≤ g := by omega
      rw [emitAt_succ] at h ⊢
      rw [emitAt_succ]
      simp only [] at h ⊢
      rw [ihD g _ _ _ _ _ hg h]
    · intro f' ds n v md S hle h
      obtain ⟨g, rfl⟩ : ∃ g, f' = g + 1 := ⟨f' - 1, by omega⟩
      have hg : f ≤ g := by omega
      cases ds with
      | nil => rw [deliver_nil, deliver_nil]
      | cons d ds =>
        rw [deliver_cons] at h ⊢
        rw [deliver_cons]
        simp only [] at h ⊢
        cases h1 : (update G f d n v md S).err with
        | some e =>
          rw [h1] at h; simp only [] at h
          rw [ihU g _ _ _ _ _ hg h, h1]
        | none =>
          rw [h1] at h; simp only [] at h
          rw [ihU g _ _ _ _ _ hg (by rw [h1]; simp), h1]
          simp only []
          rw [ihD g _ _ _ _ _ hg h]
    · intro f' d who v md S hle h
      obtain ⟨g, rfl⟩ : ∃ g, f' = g + 1 := ⟨f' - 1, by omega⟩
      have hg : f ≤ g := by omega
      by_cases hs : ∃ m, G d = .sink m
      · obtain ⟨m, hm⟩ := hs
        rw [update_sink G _ _ _ _ _ _ m hm, update_sink G _ _ _ _ _ _ m hm]
      · have hs' : ∀ m, G d ≠ .sink m := fun m hm => hs ⟨m, hm⟩
        rw [update_other G _ _ _ _ _ _ hs'] at h ⊢
        rw [update_other G _ _ _ _ _ _ hs']
        have hr : (runEffs G f d (upd (G d) (S.loc d) who v md).effs S).err ≠ some .outOfFuel :=
          fun hc => h (updWrap_oof hc)
        rw [ihR g _ _ _ hg hr]
    · intro f' d es S hle h
      obtain ⟨g, rfl⟩ : ∃ g, f' = g + 1 := ⟨f' - 1, by omega⟩
      have hg : f ≤ g := by omega
      cases es with
      | nil => rw [runEffs_nil, runEffs_nil]
      | cons e es =>
        rw [runEffs_cons] at h ⊢
        rw [runEffs_cons]
        cases e with
        | retain md => simp only [] at h ⊢; rw [ihR g _ _ _ hg h]
        | release md => simp only [] at h ⊢; rw [ihR g _ _ _ hg h]
        | set s => simp only [] at h ⊢; rw [ihR g _ _ _ hg h]
        | detach => simp only [] at h ⊢; rw [ihR g _ _ _ hg h]
        | emit v md =>
          simp only [] at h ⊢
          cases h1 : (emitAt G f d v md S).err with
          | some e =>
            rw [h1] at h; simp only [] at h
            rw [ihE g _ _ _ _ hg h, h1]
          | none =>
            rw [h1] at h; simp only [] at h
            rw [ihE g _ _ _ _ hg (by rw [h1]; simp), h1]
            simp only []
            rw [ihR g _ _ _ hg h]
        | emitThenRelease v md =>
          simp only [] at h ⊢
          cases h1 : (emitAt G f d v md S).err with
          | some e =>
            rw [h1] at h; simp only [] at h
            rw [ihE g _ _ _ _ hg h, h1]
          | none =>
            rw [h1] at h; simp only [] at h
            rw [ihE g _ _ _ _ hg (by rw [h1]; simp), h1]
            simp only []
            cases h2 : (emitAt G f d v md S).carried with
            | some e => rfl
            | none =>
              rw [h2] at h; simp only [] at h
              simp only []
              rw [ihR g _ _ _ hg h]

/-- More fuel never changes a run that did not run out of fuel. -/
theorem emitAt_fuel_mono {f f' : Nat} {n : NodeId} {v : Val} {md : Meta} {S : State} (hle : f ≤ f')
    (h : (emitAt G f n v md S).err ≠ some .outOfFuel) : emitAt G f' n v md S = emitAt G f n v md S :=
  (fuel_mono_all G f).1 f' n v md S hle h

/-! ### 4. The big-step relation of successful runs -/

/-- no exception reached the caller and none was captured by a coroutine-style `update` -/
structure Res.Ok (r : Res) : Prop where
  err : r.err = none
  carried : r.carried = none

inductive Call
  | emit (n : NodeId) (v : Val) (md : Meta)
  | deliver (ds : List NodeId) (n : NodeId) (v : Val) (md : Meta)
  | update (d who : NodeId) (v : Val) (md : Meta)
  | effs (d : NodeId) (es : List Eff)

def interp (f : Nat) : Call → State → Res
  | .emit n v md, S => emitAt G f n v md S
  | .deliver ds n v md, S => deliver G f ds n v md S
  | .update d who v md, S => update G f d who v md S
  | .effs d es, S => runEffs G f d es S

/-- `Run G c S S' log toks`: call `c` started in `S` completes normally in `S'`, having logged `log` and
returned the awaitables `toks`.  One rule per successful branch of the interpreter. -/
inductive Run : Call → State → State → List Ev → List Tok → Prop
  | emit {n v md S S' l t} :
      Run (.deliver (S.downs n) n v md) (emitPre S n md).1 S' l t →
      Run (.emit n v md) S S' (Ev.emit n v md :: (emitPre S n md).2 ++ l) t
  | dnil {n v md S} : Run (.deliver [] n v md) S S [] []
  | dcons {d ds n v md S S1 l1 t1 S2 l2 t2} :
      Run (.update d n v md) S S1 l1 t1 →
      Run (.deliver ds n v md) (releaseMd md S1).1 S2 l2 t2 →
      Run (.deliver (d :: ds) n v md) S S2 (l1 ++ (releaseMd md S1).2 ++ l2) (t1 ++ t2)
  | sink {d who v md S m} :
      G d = .sink m → (sinkRes m d who v md S).err = none →
      Run (.update d who v md) S (sinkRes m d who v md S).st (sinkRes m d who v md S).log
        (sinkRes m d who v md S).toks
  | upd {d who v md S S' l t} :
      (∀ m, G d ≠ .sink m) → (upd (G d) (S.loc d) who v md).err = none →
      Run (.effs d (upd (G d) (S.loc d) who v md).effs) S S' l t →
      Run (.update d who v md) S S' (Ev.arrive d who v md :: l)
        (if (upd (G d) (S.loc d) who v md).passRet then t else [])
  | enil {d S} : Run (.effs d []) S S [] []
  | eretain {d md es S S' l t} :
      Run (.effs d es) (retainMd 1 md S).1 S' l t →
      Run (.effs d (.retain md :: es)) S S' ((retainMd 1 md S).2 ++ l) t
  | erelease {d md es S S' l t} :
      Run (.effs d es) (releaseMd md S).1 S' l t →
      Run (.effs d (.release md :: es)) S S' ((releaseMd md S).2 ++ l) t
  | eset {d s es S S' l t} :
      Run (.effs d es) (S.setLoc d s) S' l t → Run (.effs d (.set s :: es)) S S' l t
  | edetach {d es S S' l t} :
      Run (.effs d es) (detachNode d S) S' l t → Run (.effs d (.detach :: es)) S S' l t
  | eemit {d v md es S S1 l1 t1 S2 l2 t2} :
      Run (.emit d v md) S S1 l1 t1 → Run (.effs d es) S1 S2 l2 t2 →
      Run (.effs d (.emit v md :: es)) S S2 (l1 ++ l2) (t1 ++ t2)
  | eetr {d v md es S S1 l1 t1 S2 l2 t2} :
      Run (.emit d v md) S S1 l1 t1 → Run (.effs d es) (etrPost md t1 S1).1 S2 l2 t2 →
      Run (.effs d (.emitThenRelease v md :: es)) S S2 (l1 ++ (etrPost md t1 S1).2 ++ l2) (t1 ++ t2)

theorem updWrap_ok {k : Kind} {d who : NodeId} {v : Val} {md : Meta} {u : UpdRes} {r : Res}
    (h : (updWrap k d who v md u r).Ok) :
    r.Ok ∧ u.err = none ∧ (updWrap k d who v md u r).st = r.st ∧
      (updWrap k d who v md u r).log = Ev.arrive d who v md :: r.log ∧
      (updWrap k d who v md u r).toks = if u.passRet then r.toks else [] := by
  obtain ⟨h1, h2⟩ := h
  unfold updWrap at h1 h2 ⊢
  cases hr : r.err with
  | some e =>
    simp only [hr] at h1 h2 ⊢
    split at h1
    · cases e <;> simp_all
    · simp at h1
  | none =>
    simp only [hr] at h1 h2 ⊢
    cases hu : u.err with
    | some e =>
      simp only [hu] at h1 h2 ⊢
      split at h1
      · cases e <;> simp_all
      · simp at h1
    | none =>
      simp only [hu] at h1 h2 ⊢
      split at h2 <;> simp_all <;> exact ⟨hr, h2⟩

/-- Every successful interpreter run is a `Run` derivation (for all four functions, all fuel). -/
theorem run_of_ok (f : Nat) : ∀ (c : Call) (S : State), (interp G f c S).Ok →
    Run G c S (interp G f c S).st (interp G f c S).log (interp G f c S).toks := by
  induction f with
  | zero =>
    intro c S h
    have : (interp G 0 c S).err = some .outOfFuel := by
      cases c
      · exact zero_oof_emitAt G _ _ _ _
      · exact zero_oof_deliver G _ _ _ _ _
      · exact zero_oof_update G _ _ _ _ _
      · exact zero_oof_runEffs G _ _ _
    rw [h.err] at this; cases this
  | succ f ih =>
    intro c S h
    cases c with
    | emit n v md =>
      simp only [interp] at h ⊢
      rw [emitAt_succ] at h ⊢
      exact Run.emit (ih (.deliver (S.downs n) n v md) _ ⟨h.err, h.carried⟩)
    | deliver ds n v md =>
      simp only [interp] at h ⊢
      cases ds with
      | nil => rw [deliver_nil]; exact Run.dnil
      | cons d ds =>
        rw [deliver_cons] at h ⊢
        simp only [] at h ⊢
        cases h1 : (update G f d n v md S).err with
        | some e => exact absurd h.err (by simp [h1])
        | none =>
          simp only [h1] at h ⊢
          have hc := h.carried
          simp only [] at hc
          have hc1 : (update G f d n v md S).carried = none := by
            cases hx : (update G f d n v md S).carried with
            | none => rfl
            | some e => rw [hx] at hc; simp at hc
          have hc2 : (deliver G f ds n v md (releaseMd md (update G f d n v md S).st).1).carried = none := by
            rw [hc1] at hc; simpa using hc
          exact Run.dcons (ih (.update d n v md) S ⟨h1, hc1⟩) (ih (.deliver ds n v md) _ ⟨h.err, hc2⟩)
    | update d who v md =>
      simp only [interp] at h ⊢
      by_cases hs : ∃ m, G d = .sink m
      · obtain ⟨m, hm⟩ := hs
        rw [update_sink G _ _ _ _ _ _ m hm] at h ⊢
        exact Run.sink hm h.err
      · have hs' : ∀ m, G d ≠ .sink m := fun m hm => hs ⟨m, hm⟩
        rw [update_other G _ _ _ _ _ _ hs'] at h ⊢
        obtain ⟨hr, hu, e1, e2, e3⟩ := updWrap_ok h
        rw [e1, e2, e3]
        exact Run.upd hs' hu (ih (.effs d _) S hr)
    | effs d es =>
      simp only [interp] at h ⊢
      cases es with
      | nil => rw [runEffs_nil]; exact Run.enil
      | cons e es =>
        rw [runEffs_cons] at h ⊢
        cases e with
        | retain md => exact Run.eretain (ih (.effs d es) _ ⟨h.err, h.carried⟩)
        | release md => exact Run.erelease (ih (.effs d es) _ ⟨h.err, h.carried⟩)
        | set s => exact Run.eset (ih (.effs d es) _ ⟨h.err, h.carried⟩)
        | detach => exact Run.edetach (ih (.effs d es) _ ⟨h.err, h.carried⟩)
        | emit v md =>
          simp only [] at h ⊢
          cases h1 : (emitAt G f d v md S).err with
          | some e => exact absurd h.err (by simp [h1])
          | none =>
            simp only [h1] at h ⊢
            have hc := h.carried
            simp only [] at hc
            have hc1 : (emitAt G f d v md S).carried = none := by
              cases hx : (emitAt G f d v md S).carried with
              | none => rfl
              | some e => rw [hx] at hc; simp at hc
            have hc2 : (runEffs G f d es (emitAt G f d v md S).st).carried = none := by
              rw [hc1] at hc; simpa using hc
            exact Run.eemit (ih (.emit d v md) S ⟨h1, hc1⟩) (ih (.effs d es) _ ⟨h.err, hc2⟩)
        | emitThenRelease v md =>
          simp only [] at h ⊢
          cases h1 : (emitAt G f d v md S).err with
          | some e => exact absurd h.err (by simp [h1])
          | none =>
            simp only [h1] at h ⊢
            cases h2 : (emitAt G f d v md S).carried with
            | some e => exact absurd h.carried (by simp [h2])
            | none =>
              simp only [h2] at h ⊢
              exact Run.eetr (ih (.emit d v md) S ⟨h1, h2⟩) (ih (.effs d es) _ ⟨h.err, h.carried⟩)

/-! ### 5. Rule inductions over `Run` -/

theorem sinkRes_loc (m : SinkMode) (d who : NodeId) (v : Val) (md : Meta) (S : State) :
    (sinkRes m d who v md S).st.loc = S.loc := by
  unfold sinkRes
  cases m with
  | sync fn => simp only []; split <;> rfl
  | async => simp only []; split <;> simp
theorem sinkRes_downs (m : SinkMode) (d who : NodeId) (v : Val) (md : Meta) (S : State) :
    (sinkRes m d who v md S).st.downs = S.downs := by
  unfold sinkRes
  cases m with
  | sync fn => simp only []; split <;> rfl
  | async => simp only []; split <;> simp
theorem sinkRes_log (m : SinkMode) (d who : NodeId) (v : Val) (md : Meta) (S : State)
    (h : (sinkRes m d who v md S).err = none) :
    ∃ q, (sinkRes m d who v md S).log = Ev.arrive d who v md :: q ∧ QuietL q := by
  unfold sinkRes at h ⊢
  cases m with
  | sync fn =>
    simp only [] at h ⊢
    split
    · exact ⟨[], rfl, fun e he => by simp at he⟩
    · next e he => rw [he] at h; simp [Res.fail] at h
  | async =>
    simp only []
    refine ⟨_, rfl, ?_⟩
    intro e he
    rcases List.mem_append.1 he with he | he
    · simp only [List.mem_cons, List.not_mem_nil, or_false] at he; subst he; trivial
    · split at he
      · simp at he
      · exact retainMd_quiet _ _ _ e he

/-- Downstream lists only ever shrink during a run (`slice` detaching itself), order preserved. -/
theorem run_downs_sublist {c : Call} {S S' : State} {l : List Ev} {t : List Tok} (h : Run G c S S' l t) :
    ∀ u, (S'.downs u).Sublist (S.downs u) := by
  induction h with
  | emit _ ih => intro u; simpa using ih u
  | dnil => intro u; exact List.Sublist.refl _
  | dcons _ _ ih1 ih2 => intro u; exact ((ih2 u).trans (by simp)).trans (ih1 u)
  | sink hm _ => intro u; rw [sinkRes_downs]; exact List.Sublist.refl _
  | upd _ _ _ ih => exact ih
  | enil => intro u; exact List.Sublist.refl _
  | eretain _ ih => intro u; simpa using ih u
  | erelease _ ih => intro u; simpa using ih u
  | eset _ ih => intro u; simpa using ih u
  | edetach _ ih => intro u; exact (ih u).trans (detachNode_downs _ _ _)
  | eemit _ _ ih1 ih2 => intro u; exact (ih2 u).trans (ih1 u)
  | eetr _ _ ih1 ih2 => intro u; exact ((ih2 u).trans (by simp)).trans (ih1 u)

/-- Children are created after their parents: every edge goes from a smaller to a larger node id. -/
def Acyclic (S : State) : Prop := ∀ u d, d ∈ S.downs u → u < d

theorem Acyclic.of_sublist {S S' : State} (h : Acyclic S) (hs : ∀ u, (S'.downs u).Sublist (S.downs u)) :
    Acyclic S' := fun u d hd => h u d ((hs u).subset hd)
theorem Acyclic.of_eq {S S' : State} (h : Acyclic S) (hs : S'.downs = S.downs) : Acyclic S' :=
  fun u d hd => h u d (by rw [← hs]; exact hd)
/-- `slice._check_end` (the only topology change a run can make) preserves acyclicity. -/
theorem Acyclic.detachNode {S : State} (h : Acyclic S) (d : NodeId) : Acyclic (detachNode d S) :=
  h.of_sublist (detachNode_downs d S)
theorem Acyclic.run {c : Call} {S S' : State} {l : List Ev} {t : List Tok} (h : Acyclic S)
    (hr : Run G c S S' l t) : Acyclic S' := h.of_sublist (run_downs_sublist G hr)

/-- lower bounds on the node ids occurring in an event: arrival destination, arrival origin, emitter -/
def Ev.Bnd (a w e : Nat) : Ev → Prop
  | .arrive d who _ _ => a ≤ d ∧ w ≤ who
  | .emit n _ _ => e ≤ n
  | _ => True

def BndL (a w e : Nat) (l : List Ev) : Prop := ∀ ev ∈ l, ev.Bnd a w e

theorem BndL.mono {a w e a' w' e' : Nat} {l : List Ev} (h : BndL a w e l) (ha : a' ≤ a) (hw : w' ≤ w)
    (he : e' ≤ e) : BndL a' w' e' l := by
  intro ev hev
  have := h ev hev
  cases ev <;> simp only [Ev.Bnd] at this ⊢ <;> omega
theorem BndL.append {a w e : Nat} {l1 l2 : List Ev} (h1 : BndL a w e l1) (h2 : BndL a w e l2) :
    BndL a w e (l1 ++ l2) := by
  intro ev hev
  rcases List.mem_append.1 hev with h | h
  · exact h1 ev h
  · exact h2 ev h
theorem BndL.cons {a w e : Nat} {ev : Ev} {l : List Ev} (h1 : ev.Bnd a w e) (h2 : BndL a w e l) :
    BndL a w e (ev :: l) := by
  intro x hx
  rcases List.mem_cons.1 hx with rfl | h
  · exact h1
  · exact h2 x h
theorem QuietL.bnd {l : List Ev} (h : QuietL l) (a w e : Nat) : BndL a w e l := by
  intro ev hev
  have := h ev hev
  cases ev <;> simp_all [Ev.Bnd, Ev.quiet]
theorem BndL.nil (a w e : Nat) : BndL a w e [] := fun _ h => by simp at h

theorem BndL.arrivalsAt_nil {a w e i : Nat} {l : List Ev} (h : BndL a w e l) (hi : i < a) :
    arrivalsAt i l = [] := by
  induction l with
  | nil => rfl
  | cons ev l ih =>
    have h1 := h ev (by simp)
    have := ih (fun x hx => h x (by simp [hx]))
    cases ev <;> simp_all [Graph.arrivalsAt, Ev.Bnd]
    unfold NodeId at *; omega
theorem BndL.emitsOf_nil {a w e i : Nat} {l : List Ev} (h : BndL a w e l) (hi : i < e) :
    emitsOf i l = [] := by
  induction l with
  | nil => rfl
  | cons ev l ih =>
    have h1 := h ev (by simp)
    have := ih (fun x hx => h x (by simp [hx]))
    cases ev <;> simp_all [Graph.emitsOf, Ev.Bnd]
    unfold NodeId at *; omega
theorem BndL.arrivalsFrom_nil {a w e i : Nat} {l : List Ev} (h : BndL a w e l) (hi : i < w) :
    arrivalsFrom i l = [] := by
  induction l with
  | nil => rfl
  | cons ev l ih =>
    have h1 := h ev (by simp)
    have := ih (fun x hx => h x (by simp [hx]))
    cases ev <;> simp_all [Graph.arrivalsFrom, Ev.Bnd]
    unfold NodeId at *; omega

/-- In a DAG every event of a call happens at or above the node the call is about. -/
def BoundsP : Call → List Ev → Prop
  | .emit n v md, l => ∃ rest, l = Ev.emit n v md :: rest ∧ BndL (n + 1) n (n + 1) rest
  | .deliver ds n _ _, l => ∀ m, n < m → (∀ d ∈ ds, m ≤ d) → BndL m n m l
  | .update d who v md, l => ∃ rest, l = Ev.arrive d who v md :: rest ∧ BndL (d + 1) d d rest
  | .effs d _, l => BndL (d + 1) d d l

theorem run_bounds {c : Call} {S S' : State} {l : List Ev} {t : List Tok} (h : Run G c S S' l t) :
    Acyclic S → BoundsP c l := by
  induction h with
  | @emit n v md S S' l t _ ih =>
    intro hA
    refine ⟨_, rfl, ?_⟩
    have := ih (hA.of_eq (by simp)) (n + 1) (Nat.lt_succ_self n) (fun d hd => hA n d hd)
    exact ((emitPre_quiet S n md).bnd _ _ _).append this
  | dnil => intro _ m _ _; exact BndL.nil _ _ _
  | @dcons d ds n v md S S1 l1 t1 S2 l2 t2 h1 _ ih1 ih2 =>
    intro hA m hm hds
    obtain ⟨rest, rfl, hrest⟩ := ih1 hA
    have hd : m ≤ d := hds d (by simp)
    have hA1 : Acyclic (releaseMd md S1).1 := (hA.run G h1).of_eq (by simp)
    have hrest' : BndL m n m rest := by unfold NodeId at *; exact hrest.mono (by omega) (by omega) (by omega)
    refine BndL.append (BndL.append (BndL.cons ⟨hd, Nat.le_refl _⟩ hrest') ?_) ?_
    · exact (releaseMd_quiet _ _).bnd _ _ _
    · exact ih2 hA1 m hm (fun x hx => hds x (by simp [hx]))
  | @sink d who v md S m hm he =>
    intro _
    obtain ⟨q, hq, hquiet⟩ := sinkRes_log m d who v md S he
    exact ⟨q, hq, hquiet.bnd _ _ _⟩
  | upd _ _ _ ih => intro hA; exact ⟨_, rfl, ih hA⟩
  | enil => intro _; exact BndL.nil _ _ _
  | eretain _ ih => intro hA; exact ((retainMd_quiet _ _ _).bnd _ _ _).append (ih (hA.of_eq (by simp)))
  | erelease _ ih => intro hA; exact ((releaseMd_quiet _ _).bnd _ _ _).append (ih (hA.of_eq (by simp)))
  | eset _ ih => intro hA; exact ih (hA.of_eq (by simp))
  | edetach _ ih => intro hA; exact ih (hA.detachNode _)
  | @eemit d v md es S S1 l1 t1 S2 l2 t2 h1 _ ih1 ih2 =>
    intro hA
    obtain ⟨rest, rfl, hrest⟩ := ih1 hA
    exact (BndL.cons (by simp [Ev.Bnd]) (hrest.mono (by omega) (by omega) (by omega))).append (ih2 (hA.run G h1))
  | @eetr d v md es S S1 l1 t1 S2 l2 t2 h1 _ ih1 ih2 =>
    intro hA
    obtain ⟨rest, rfl, hrest⟩ := ih1 hA
    refine BndL.append (BndL.append (BndL.cons (by simp [Ev.Bnd]) (hrest.mono (by omega) (by omega) (by omega))) ?_) ?_
    · exact (etrPost_quiet _ _ _).bnd _ _ _
    · exact ih2 ((hA.run G h1).of_eq (by simp))

@[simp] theorem arrivalsAt_cons_arrive (i d who : NodeId) (v : Val) (md : Meta) (l : List Ev) :
    arrivalsAt i (Ev.arrive d who v md :: l) =
      if d = i then (who, v, md) :: arrivalsAt i l else arrivalsAt i l := by
  by_cases h : d = i <;> simp [arrivalsAt, h]
@[simp] theorem arrivalsAt_cons_emit (i n : NodeId) (v : Val) (md : Meta) (l : List Ev) :
    arrivalsAt i (Ev.emit n v md :: l) = arrivalsAt i l := by simp [arrivalsAt]
@[simp] theorem emitsOf_cons_emit (i n : NodeId) (v : Val) (md : Meta) (l : List Ev) :
    emitsOf i (Ev.emit n v md :: l) = if n = i then (v, md) :: emitsOf i l else emitsOf i l := by
  by_cases h : n = i <;> simp [emitsOf, h]
@[simp] theorem emitsOf_cons_arrive (i d who : NodeId) (v : Val) (md : Meta) (l : List Ev) :
    emitsOf i (Ev.arrive d who v md :: l) = emitsOf i l := by simp [emitsOf]
@[simp] theorem arrivalsFrom_cons_arrive (u d who : NodeId) (v : Val) (md : Meta) (l : List Ev) :
    arrivalsFrom u (Ev.arrive d who v md :: l) =
      if who = u then (d, v, md) :: arrivalsFrom u l else arrivalsFrom u l := by
  by_cases h : who = u <;> simp [arrivalsFrom, h]
@[simp] theorem arrivalsFrom_cons_emit (u n : NodeId) (v : Val) (md : Meta) (l : List Ev) :
    arrivalsFrom u (Ev.emit n v md :: l) = arrivalsFrom u l := by simp [arrivalsFrom]

theorem upd_sink_effs (m : SinkMode) (s : NState) (who : NodeId) (v : Val) (md : Meta) :
    (upd (.sink m) s who v md).effs = [] := by simp [upd]

/-- The projection property, per call kind.  For the body of an update at `d` the node's own state is the
last `.set` of the body and every *other* node replays its arrivals. -/
def ProjP : Call → State → State → List Ev → Prop
  | .effs d es, S, S', l =>
      (∀ i, i ≠ d → S'.loc i = replay G i (S.loc i) (arrivalsAt i l)) ∧ S'.loc d = finalLoc es (S.loc d)
  | _, S, S', l => ∀ i, S'.loc i = replay G i (S.loc i) (arrivalsAt i l)

theorem run_proj {c : Call} {S S' : State} {l : List Ev} {t : List Tok} (h : Run G c S S' l t) :
    Acyclic S → ProjP G c S S' l := by
  induction h with
  | @emit n v md S S' l t _ ih =>
    intro hA i
    have := ih (hA.of_eq (by simp)) i
    simp only [emitPre_loc] at this
    simpa [(emitPre_quiet S n md).arrivalsAt i] using this
  | dnil => intro _ i; rfl
  | @dcons d ds n v md S S1 l1 t1 S2 l2 t2 h1 _ ih1 ih2 =>
    intro hA i
    have e1 := ih1 hA i
    have e2 := ih2 ((hA.run G h1).of_eq (by simp)) i
    simp only [releaseMd_loc] at e2
    simp only [arrivalsAt_append, (releaseMd_quiet md S1).arrivalsAt i, List.append_nil, replay_append]
    rw [← e1]; exact e2
  | @sink d who v md S m hm he =>
    intro _ i
    obtain ⟨q, hq, hquiet⟩ := sinkRes_log m d who v md S he
    rw [hq, sinkRes_loc, arrivalsAt_cons_arrive, hquiet.arrivalsAt i]
    split
    · next hdi => subst hdi; simp [replay, hm, upd_sink_effs, finalLoc]
    · rfl
  | @upd d who v md S S' l t hs hu h1 ih =>
    intro hA i
    obtain ⟨ih1, ih2⟩ := ih hA
    have hb : BndL (d + 1) d d l := run_bounds G h1 hA
    rw [arrivalsAt_cons_arrive]
    split
    · next hdi =>
      subst hdi
      rw [hb.arrivalsAt_nil (Nat.lt_succ_self _), ih2]; rfl
    · next hdi => exact ih1 i (fun h => hdi h.symm)
  | enil => intro _; exact ⟨fun i _ => rfl, rfl⟩
  | @eretain d md es S S' l t _ ih =>
    intro hA
    obtain ⟨ih1, ih2⟩ := ih (hA.of_eq (by simp))
    simp only [retainMd_loc] at ih1 ih2
    refine ⟨fun i hi => ?_, ih2⟩
    simpa [(retainMd_quiet 1 md S).arrivalsAt i] using ih1 i hi
  | @erelease d md es S S' l t _ ih =>
    intro hA
    obtain ⟨ih1, ih2⟩ := ih (hA.of_eq (by simp))
    simp only [releaseMd_loc] at ih1 ih2
    refine ⟨fun i hi => ?_, ih2⟩
    simpa [(releaseMd_quiet md S).arrivalsAt i] using ih1 i hi
  | @eset d s es S S' l t _ ih =>
    intro hA
    obtain ⟨ih1, ih2⟩ := ih (hA.of_eq (by simp))
    refine ⟨fun i hi => ?_, ?_⟩
    · rw [ih1 i hi, setLoc_other S s hi]
    · rw [ih2, setLoc_same]; rfl
  | @edetach d es S S' l t _ ih =>
    intro hA
    obtain ⟨ih1, ih2⟩ := ih (hA.detachNode d)
    simp only [detachNode_loc] at ih1 ih2
    exact ⟨ih1, ih2⟩
  | @eemit d v md es S S1 l1 t1 S2 l2 t2 h1 _ ih1 ih2 =>
    intro hA
    have e1 := ih1 hA
    obtain ⟨e2, e3⟩ := ih2 (hA.run G h1)
    obtain ⟨rest, hl1, hrest⟩ := run_bounds G h1 hA
    refine ⟨fun i hi => ?_, ?_⟩
    · rw [arrivalsAt_append, replay_append, ← e1 i]; exact e2 i hi
    · have : S1.loc d = S.loc d := by
        rw [e1 d, hl1, arrivalsAt_cons_emit, hrest.arrivalsAt_nil (Nat.lt_succ_self _)]; rfl
      rw [e3, this]; rfl
  | @eetr d v md es S S1 l1 t1 S2 l2 t2 h1 _ ih1 ih2 =>
    intro hA
    have e1 := ih1 hA
    obtain ⟨e2, e3⟩ := ih2 ((hA.run G h1).of_eq (by simp))
    simp only [etrPost_loc] at e2 e3
    obtain ⟨rest, hl1, hrest⟩ := run_bounds G h1 hA
    refine ⟨fun i hi => ?_, ?_⟩
    · simp only [arrivalsAt_append, (etrPost_quiet md t1 S1).arrivalsAt i, List.append_nil, replay_append]
      rw [← e1 i]; exact e2 i hi
    · have : S1.loc d = S.loc d := by
        rw [e1 d, hl1, arrivalsAt_cons_emit, hrest.arrivalsAt_nil (Nat.lt_succ_self _)]; rfl
      rw [e3, this]; rfl

theorem localOuts_single (i : NodeId) (s : NState) (a : Arr) :
    localOuts G i s [a] = outsOf (upd (G i) s a.1 a.2.1 a.2.2).effs := by simp [localOuts]

/-- Emissions are local outputs, per call kind. -/
def EmitsP : Call → State → List Ev → Prop
  | .emit n v md, S, l =>
      ∀ i, emitsOf i l = (if n = i then [(v, md)] else []) ++ localOuts G i (S.loc i) (arrivalsAt i l)
  | .effs d es, S, l =>
      (∀ i, i ≠ d → emitsOf i l = localOuts G i (S.loc i) (arrivalsAt i l)) ∧ emitsOf d l = outsOf es
  | _, S, l => ∀ i, emitsOf i l = localOuts G i (S.loc i) (arrivalsAt i l)

theorem run_emits {c : Call} {S S' : State} {l : List Ev} {t : List Tok} (h : Run G c S S' l t) :
    Acyclic S → EmitsP G c S l := by
  induction h with
  | @emit n v md S S' l t _ ih =>
    intro hA i
    have := ih (hA.of_eq (by simp)) i
    simp only [emitPre_loc] at this
    rw [List.cons_append, emitsOf_cons_emit, arrivalsAt_cons_emit, emitsOf_append, arrivalsAt_append,
      (emitPre_quiet S n md).arrivalsAt i, (emitPre_quiet S n md).emitsOf i, List.nil_append, List.nil_append,
      this]
    split <;> simp
  | dnil => intro _ i; rfl
  | @dcons d ds n v md S S1 l1 t1 S2 l2 t2 h1 _ ih1 ih2 =>
    intro hA i
    have e1 := ih1 hA i
    have e2 := ih2 ((hA.run G h1).of_eq (by simp)) i
    have p1 := run_proj G h1 hA i
    simp only [releaseMd_loc] at e2
    simp only [arrivalsAt_append, emitsOf_append, (releaseMd_quiet md S1).arrivalsAt i,
      (releaseMd_quiet md S1).emitsOf i, List.append_nil, localOuts_append]
    rw [e1, e2, p1]
  | @sink d who v md S m hm he =>
    intro _ i
    obtain ⟨q, hq, hquiet⟩ := sinkRes_log m d who v md S he
    rw [hq, arrivalsAt_cons_arrive, emitsOf_cons_arrive, hquiet.arrivalsAt i, hquiet.emitsOf i]
    split
    · next hdi => subst hdi; simp [localOuts, hm, upd_sink_effs, outsOf]
    · rfl
  | @upd d who v md S S' l t hs hu h1 ih =>
    intro hA i
    obtain ⟨ih1, ih2⟩ := ih hA
    have hb : BndL (d + 1) d d l := run_bounds G h1 hA
    rw [arrivalsAt_cons_arrive, emitsOf_cons_arrive]
    split
    · next hdi =>
      subst hdi
      rw [hb.arrivalsAt_nil (Nat.lt_succ_self _), ih2, localOuts_single]
    · next hdi => exact ih1 i (fun h => hdi h.symm)
  | enil => intro _; exact ⟨fun i _ => rfl, rfl⟩
  | @eretain d md es S S' l t _ ih =>
    intro hA
    obtain ⟨ih1, ih2⟩ := ih (hA.of_eq (by simp))
    simp only [retainMd_loc] at ih1
    refine ⟨fun i hi => ?_, ?_⟩
    · simpa [(retainMd_quiet 1 md S).arrivalsAt i, (retainMd_quiet 1 md S).emitsOf i] using ih1 i hi
    · simpa [(retainMd_quiet 1 md S).emitsOf d, outsOf] using ih2
  | @erelease d md es S S' l t _ ih =>
    intro hA
    obtain ⟨ih1, ih2⟩ := ih (hA.of_eq (by simp))
    simp only [releaseMd_loc] at ih1
    refine ⟨fun i hi => ?_, ?_⟩
    · simpa [(releaseMd_quiet md S).arrivalsAt i, (releaseMd_quiet md S).emitsOf i] using ih1 i hi
    · simpa [(releaseMd_quiet md S).emitsOf d, outsOf] using ih2
  | @eset d s es S S' l t _ ih =>
    intro hA
    obtain ⟨ih1, ih2⟩ := ih (hA.of_eq (by simp))
    refine ⟨fun i hi => ?_, ?_⟩
    · rw [ih1 i hi, setLoc_other S s hi]
    · rw [ih2]; rfl
  | @edetach d es S S' l t _ ih =>
    intro hA
    obtain ⟨ih1, ih2⟩ := ih (hA.detachNode d)
    simp only [detachNode_loc] at ih1
    exact ⟨ih1, by rw [ih2]; rfl⟩
  | @eemit d v md es S S1 l1 t1 S2 l2 t2 h1 _ ih1 ih2 =>
    intro hA
    have e1 := ih1 hA
    obtain ⟨e2, e3⟩ := ih2 (hA.run G h1)
    have p1 := run_proj G h1 hA
    obtain ⟨rest, hl1, hrest⟩ := run_bounds G h1 hA
    refine ⟨fun i hi => ?_, ?_⟩
    · rw [arrivalsAt_append, emitsOf_append, localOuts_append, e1 i, e2 i hi, ← p1 i]
      have hdi : ¬ d = i := fun h => hi h.symm
      simp [hdi]
    · have ha : arrivalsAt d l1 = [] := by
        rw [hl1, arrivalsAt_cons_emit, hrest.arrivalsAt_nil (Nat.lt_succ_self _)]
      rw [emitsOf_append, e1 d, e3, ha]; simp [outsOf]
  | @eetr d v md es S S1 l1 t1 S2 l2 t2 h1 _ ih1 ih2 =>
    intro hA
    have e1 := ih1 hA
    obtain ⟨e2, e3⟩ := ih2 ((hA.run G h1).of_eq (by simp))
    simp only [etrPost_loc] at e2
    have p1 := run_proj G h1 hA
    obtain ⟨rest, hl1, hrest⟩ := run_bounds G h1 hA
    refine ⟨fun i hi => ?_, ?_⟩
    · simp only [arrivalsAt_append, emitsOf_append, (etrPost_quiet md t1 S1).arrivalsAt i,
        (etrPost_quiet md t1 S1).emitsOf i, List.append_nil, localOuts_append]
      rw [e1 i, e2 i hi, ← p1 i]
      have hdi : ¬ d = i := fun h => hi h.symm
      simp [hdi]
    · have ha : arrivalsAt d l1 = [] := by
        rw [hl1, arrivalsAt_cons_emit, hrest.arrivalsAt_nil (Nat.lt_succ_self _)]
      simp only [emitsOf_append, (etrPost_quiet md t1 S1).emitsOf d, List.append_nil]
      rw [e1 d, e3, ha]; simp [outsOf]

/-! #### Edge consistency -/

@[simp] theorem fanout_nil (e : Val × Meta) : fanout [] e = [] := rfl
@[simp] theorem fanout_cons (d : NodeId) (ds : List NodeId) (e : Val × Meta) :
    fanout (d :: ds) e = (d, e.1, e.2) :: fanout ds e := rfl

/-- What the top-level loop of `_emit` hands out: exactly the downstream snapshot, in order (any topology
changes made meanwhile by `slice` do not affect the loop). -/
def DelivP : Call → State → List Ev → Prop
  | .deliver ds n v md, _, l => (∀ d ∈ ds, n < d) → arrivalsFrom n l = fanout ds (v, md)
  | .emit n v md, S, l => arrivalsFrom n l = fanout (S.downs n) (v, md)
  | _, _, _ => True

theorem run_deliv {c : Call} {S S' : State} {l : List Ev} {t : List Tok} (h : Run G c S S' l t) :
    Acyclic S → DelivP c S l := by
  induction h with
  | @emit n v md S S' l t _ ih =>
    intro hA
    have := ih (hA.of_eq (by simp)) (fun d hd => hA n d hd)
    simp only [DelivP]
    rw [List.cons_append, arrivalsFrom_cons_emit, arrivalsFrom_append, (emitPre_quiet S n md).arrivalsFrom n,
      List.nil_append, this]
  | dnil => intro _ _; rfl
  | @dcons d ds n v md S S1 l1 t1 S2 l2 t2 h1 _ _ ih2 =>
    intro hA hds
    have e2 := ih2 ((hA.run G h1).of_eq (by simp)) (fun x hx => hds x (by simp [hx]))
    obtain ⟨rest, hl1, hrest⟩ := run_bounds G h1 hA
    have hnd : n < d := hds d (by simp)
    rw [arrivalsFrom_append, arrivalsFrom_append, (releaseMd_quiet md S1).arrivalsFrom n, List.append_nil, e2,
      hl1, arrivalsFrom_cons_arrive, hrest.arrivalsFrom_nil hnd]
    simp
  | sink => intro _; trivial
  | upd => intro _; trivial
  | enil => intro _; trivial
  | eretain => intro _; trivial
  | erelease => intro _; trivial
  | eset => intro _; trivial
  | edetach => intro _; trivial
  | eemit => intro _; trivial
  | eetr => intro _; trivial

/-- No node of the graph ever detaches itself (no `slice` with an end): the topology is static during runs. -/
def NoDetach : Prop := ∀ i s who v md, Eff.detach ∉ (upd (G i) s who v md).effs

def StaticP : Call → State → State → Prop
  | .effs _ es, S, S' => Eff.detach ∉ es → S'.downs = S.downs
  | _, S, S' => S'.downs = S.downs

theorem run_static (hG : NoDetach G) {c : Call} {S S' : State} {l : List Ev} {t : List Tok}
    (h : Run G c S S' l t) : StaticP c S S' := by
  induction h with
  | emit _ ih => exact ih.trans (by simp)
  | dnil => rfl
  | dcons _ _ ih1 ih2 => exact (ih2.trans (by simp)).trans ih1
  | sink => exact sinkRes_downs _ _ _ _ _ _
  | upd _ _ _ ih => exact ih (hG _ _ _ _ _)
  | enil => intro _; rfl
  | eretain _ ih => intro hd; exact (ih (fun h => hd (by simp [h]))).trans (by simp)
  | erelease _ ih => intro hd; exact (ih (fun h => hd (by simp [h]))).trans (by simp)
  | eset _ ih => intro hd; exact (ih (fun h => hd (by simp [h]))).trans (by simp)
  | edetach _ _ => intro hd; exact absurd (by simp) hd
  | eemit _ _ ih1 ih2 => intro hd; exact (ih2 (fun h => hd (by simp [h]))).trans ih1
  | eetr _ _ ih1 ih2 => intro hd; exact ((ih2 (fun h => hd (by simp [h]))).trans (by simp)).trans ih1

/-- Static topology: what leaves `u` along its edges is exactly what `u` emits, each emission handed to every
downstream of `u` in attachment order before the next emission of `u` is handed to anyone. -/
def EdgeP : Call → State → List Ev → Prop
  | .emit _ _ _, S, l => ∀ u, arrivalsFrom u l = (emitsOf u l).flatMap (fanout (S.downs u))
  | .deliver ds n v md, S, l => (∀ d ∈ ds, n < d) → ∀ u,
      arrivalsFrom u l = (if n = u then fanout ds (v, md) else []) ++ (emitsOf u l).flatMap (fanout (S.downs u))
  | .update d who v md, S, l => ∀ u,
      arrivalsFrom u l = (if who = u then [(d, v, md)] else []) ++ (emitsOf u l).flatMap (fanout (S.downs u))
  | .effs _ es, S, l => Eff.detach ∉ es → ∀ u, arrivalsFrom u l = (emitsOf u l).flatMap (fanout (S.downs u))

theorem run_edges (hG : NoDetach G) {c : Call} {S S' : State} {l : List Ev} {t : List Tok}
    (h : Run G c S S' l t) : Acyclic S → EdgeP c S l := by
  induction h with
  | @emit n v md S S' l t _ ih =>
    intro hA u
    have := ih (hA.of_eq (by simp)) (fun d hd => hA n d hd) u
    rw [List.cons_append, arrivalsFrom_cons_emit, emitsOf_cons_emit, arrivalsFrom_append, emitsOf_append,
      (emitPre_quiet S n md).arrivalsFrom u, (emitPre_quiet S n md).emitsOf u, List.nil_append, List.nil_append,
      this, emitPre_downs]
    split
    · next hnu => subst hnu; simp [fanout]
    · simp
  | dnil => intro _ _ u; simp
  | @dcons d ds n v md S S1 l1 t1 S2 l2 t2 h1 _ ih1 ih2 =>
    intro hA hds u
    have e1 := ih1 hA u
    have e2 := ih2 ((hA.run G h1).of_eq (by simp)) (fun x hx => hds x (by simp [hx])) u
    have hs : S1.downs = S.downs := run_static G hG h1
    obtain ⟨rest, hl1, hrest⟩ := run_bounds G h1 hA
    have hnd : n < d := hds d (by simp)
    rw [releaseMd_downs, hs] at e2
    simp only [arrivalsFrom_append, emitsOf_append, (releaseMd_quiet md S1).arrivalsFrom u,
      (releaseMd_quiet md S1).emitsOf u, List.append_nil, List.flatMap_append]
    rw [e1, e2]
    split
    · next hnu =>
      subst hnu
      have : emitsOf n l1 = [] := by
        rw [hl1, emitsOf_cons_arrive]; exact hrest.emitsOf_nil hnd
      simp [this]
    · simp
  | @sink d who v md S m hm he =>
    intro _ u
    obtain ⟨q, hq, hquiet⟩ := sinkRes_log m d who v md S he
    rw [hq, arrivalsFrom_cons_arrive, emitsOf_cons_arrive, hquiet.arrivalsFrom u, hquiet.emitsOf u]
    split <;> simp
  | @upd d who v md S S' l t hs hu h1 ih =>
    intro hA u
    have := ih hA (hG _ _ _ _ _) u
    rw [arrivalsFrom_cons_arrive, emitsOf_cons_arrive, this]
    split <;> simp
  | enil => intro _ _ u; rfl
  | @eretain d md es S S' l t _ ih =>
    intro hA hd u
    have := ih (hA.of_eq (by simp)) (fun h => hd (by simp [h])) u
    simpa [(retainMd_quiet 1 md S).arrivalsFrom u, (retainMd_quiet 1 md S).emitsOf u] using this
  | @erelease d md es S S' l t _ ih =>
    intro hA hd u
    have := ih (hA.of_eq (by simp)) (fun h => hd (by simp [h])) u
    simpa [(releaseMd_quiet md S).arrivalsFrom u, (releaseMd_quiet md S).emitsOf u] using this
  | @eset d s es S S' l t _ ih =>
    intro hA hd u
    exact ih (hA.of_eq (by simp)) (fun h => hd (by simp [h])) u
  | edetach _ _ => intro _ hd; exact absurd (by simp) hd
  | @eemit d v md es S S1 l1 t1 S2 l2 t2 h1 _ ih1 ih2 =>
    intro hA hd u
    have e1 := ih1 hA u
    have e2 := ih2 (hA.run G h1) (fun h => hd (by simp [h])) u
    have hs : S1.downs = S.downs := run_static G hG h1
    rw [hs] at e2
    rw [arrivalsFrom_append, emitsOf_append, List.flatMap_append, e1, e2]
  | @eetr d v md es S S1 l1 t1 S2 l2 t2 h1 _ ih1 ih2 =>
    intro hA hd u
    have e1 := ih1 hA u
    have e2 := ih2 ((hA.run G h1).of_eq (by simp)) (fun h => hd (by simp [h])) u
    have hs : S1.downs = S.downs := run_static G hG h1
    rw [etrPost_downs, hs] at e2
    simp only [arrivalsFrom_append, emitsOf_append, (etrPost_quiet md t1 S1).arrivalsFrom u,
      (etrPost_quiet md t1 S1).emitsOf u, List.append_nil, List.flatMap_append]
    rw [e1, e2]

/-! per-edge view -/

theorem arriveFromTo_eq_filterMap (u d : NodeId) (l : List Ev) :
    arriveFromTo u d l = (arrivalsFrom u l).filterMap (fun x => if x.1 = d then some x.2 else none) := by
  induction l with
  | nil => rfl
  | cons ev l ih =>
    have hc : ∀ (e : Ev) (l : List Ev), e :: l = [e] ++ l := fun _ _ => rfl
    rw [hc, arriveFromTo_append, arrivalsFrom_append, List.filterMap_append, ih]
    congr 1
    cases ev with
    | arrive d' who v md =>
      by_cases h1 : who = u <;> by_cases h2 : d' = d <;> simp [arriveFromTo, arrivalsFrom, h1, h2]
    | _ => simp [arriveFromTo, arrivalsFrom]

theorem fanout_filterMap (ds : List NodeId) (d : NodeId) (e : Val × Meta) :
    (fanout ds e).filterMap (fun x => if x.1 = d then some x.2 else none) = List.replicate (ds.count d) e := by
  induction ds with
  | nil => rfl
  | cons x xs ih =>
    rw [fanout_cons, List.filterMap_cons]
    by_cases h : x = d
    · subst h; simp [ih, List.replicate_succ]
    · simp [h, ih]

theorem flatMap_fanout_filterMap (ds : List NodeId) (d : NodeId) (es : List (Val × Meta)) :
    (es.flatMap (fanout ds)).filterMap (fun x => if x.1 = d then some x.2 else none) =
      es.flatMap (fun e => List.replicate (ds.count d) e) := by
  induction es with
  | nil => rfl
  | cons e es ih => rw [List.flatMap_cons, List.filterMap_append, fanout_filterMap, ih, List.flatMap_cons]

theorem flatMap_replicate_one {α : Type} (es : List α) : es.flatMap (fun e => List.replicate 1 e) = es := by
  induction es with
  | nil => rfl
  | cons e es ih => rw [List.flatMap_cons, ih]; rfl

/-! `.detach` is only ever produced by a `slice` with an end -/

theorem emitAllButLast_no_detach (l : List Val) (md : Meta) : Eff.detach ∉ emitAllButLast l md := by
  induction l with
  | nil => simp [emitAllButLast]
  | cons x t ih =>
    cases t with
    | nil => simp [emitAllButLast]
    | cons y t => simp [emitAllButLast] at ih ⊢; exact ih

theorem drain_no_detach (l : List (Val × Meta)) (st : NState) : Eff.detach ∉ upd.drain l st := by
  induction l generalizing st with
  | nil => simp [upd.drain]
  | cons x t ih =>
    obtain ⟨v, m⟩ := x
    simp only [upd.drain, List.mem_append, List.mem_cons, not_or]
    exact ⟨by simp, ih _⟩

theorem upd_detach {k : Kind} {s : NState} {who : NodeId} {v : Val} {md : Meta}
    (h : Eff.detach ∈ (upd k s who v md).effs) : ∃ a e c, k = .slice a (some e) c ∧ e ≠ 0 := by
  cases k with
  | slice a stop c =>
    cases stop with
    | none => simp [upd] at h
    | some e =>
      refine ⟨a, e, c, rfl, ?_⟩
      intro he; subst he
      simp [upd] at h
  | flatten =>
    simp only [upd] at h
    split at h
    · simp [raise] at h
    · exact absurd h (emitAllButLast_no_detach _ _)
  | zipLatest =>
    simp only [upd] at h
    split at h
    · simp [raise] at h
    · split at h
      · simp only [List.mem_append, List.mem_cons] at h
        rcases h with h | h
        · split at h <;> simp at h
        · exact absurd h (drain_no_detach _ _)
      · simp at h
  | pluck p =>
    cases p <;> simp only [upd, raise] at h <;> split at h <;> simp at h
  | _ =>
    simp only [upd, raise] at h
    repeat' split at h
    all_goals (try simp at h)
    all_goals (repeat' split at h)
    all_goals (try simp at h)

/-- A graph without end-bounded `slice` nodes never changes its topology during a run. -/
theorem noDetach_of_slices (h : ∀ i a e c, G i = .slice a (some e) c → e = 0) : NoDetach G := by
  intro i s who v md hm
  obtain ⟨a, e, c, hk, he⟩ := upd_detach hm
  exact he (h i a e c hk)

/-! ### 6. Termination on finite DAGs -/

end StreamzVerif.Graph

namespace StreamzVerif
open Graph

/-! user functions never raise the fuel pseudo-exception -/

theorem sumInts_ne_oof (l : List Val) : sumInts l ≠ .error .outOfFuel := by
  induction l with
  | nil => simp [sumInts]
  | cons x t ih =>
    cases x <;> simp [sumInts]
    cases h : sumInts t with
    | ok a => intro h2; cases h2
    | error e => intro h2; cases h2; exact ih h

theorem map_sumInts_ne_oof (l : List Val) : Except.map Val.int (sumInts l) ≠ .error .outOfFuel := by
  cases h : sumInts l with
  | ok a => simp [Except.map]
  | error e => simp [Except.map]; intro h2; subst h2; exact sumInts_ne_oof l h

theorem Fn.eval_ne_oof (f : Fn) (x : Val) : f.eval x ≠ .error .outOfFuel := by
  unfold Fn.eval
  split
  all_goals first
    | exact map_sumInts_ne_oof _
    | (intro h; cases h; done)
    | (split <;> first | (intro h; cases h; done) | (split <;> intro h <;> cases h))

theorem Fn2.eval_ne_oof (f : Fn2) (s x : Val) : f.eval s x ≠ .error .outOfFuel := by
  unfold Fn2.eval
  split
  all_goals first
    | (intro h; cases h; done)
    | (split <;> first | (intro h; cases h; done) | (split <;> intro h <;> cases h))

theorem pluckOne_ne_oof (x : Val) (i : Nat) : pluckOne x i ≠ .error .outOfFuel := by
  unfold pluckOne
  split <;> first | (intro h; cases h; done) | (split <;> intro h <;> cases h)

theorem iterVal_ne_oof (x : Val) : iterVal x ≠ .error .outOfFuel := by
  unfold iterVal
  split <;> intro h <;> cases h

theorem mapM_pluckOne_ne_oof (x : Val) (l : List Nat) : l.mapM (pluckOne x) ≠ .error .outOfFuel := by
  induction l with
  | nil => intro h; simp [pure, Except.pure] at h
  | cons i t ih =>
    rw [List.mapM_cons]
    cases h1 : pluckOne x i with
    | error e => intro h; cases h; exact pluckOne_ne_oof x i h1
    | ok a =>
      cases h2 : t.mapM (pluckOne x) with
      | error e => intro h; cases h; exact ih h2
      | ok b => intro h; cases h


end StreamzVerif

namespace StreamzVerif.Graph

variable (G : NodeId → Kind)

theorem upd_err_ne_oof (k : Kind) (s : NState) (who : NodeId) (v : Val) (md : Meta) :
    (upd k s who v md).err ≠ some .outOfFuel := by
  intro h
  cases k with
  | pluck p =>
    cases p <;> simp only [upd, raise] at h <;> split at h <;>
      simp_all [pluckOne_ne_oof, mapM_pluckOne_ne_oof]
  | partition n key =>
    cases key <;> simp only [upd, raise] at h <;> (repeat' split at h) <;> simp_all [Fn.eval_ne_oof]
  | _ =>
    simp only [upd, raise] at h
    repeat' split at h
    all_goals simp_all [Fn.eval_ne_oof, Fn2.eval_ne_oof, iterVal_ne_oof]

theorem sinkRes_err_ne_oof (m : SinkMode) (d who : NodeId) (v : Val) (md : Meta) (S : State) :
    (sinkRes m d who v md S).err ≠ some .outOfFuel := by
  unfold sinkRes
  cases m with
  | sync fn =>
    simp only []
    split
    · intro h; cases h
    · next e he => intro h; simp only [Res.fail] at h; cases h; exact Fn.eval_ne_oof fn v he
  | async => intro h; cases h

theorem updWrap_st (k : Kind) (d who : NodeId) (v : Val) (md : Meta) (u : UpdRes) (r : Res) :
    (updWrap k d who v md u r).st = r.st := by
  unfold updWrap
  cases r.err <;> cases u.err <;> simp only [] <;> split <;> (try split) <;> rfl

theorem updWrap_not_oof {k : Kind} {d who : NodeId} {v : Val} {md : Meta} {u : UpdRes} {r : Res}
    (hu : u.err ≠ some .outOfFuel) (hr : r.err ≠ some .outOfFuel) :
    (updWrap k d who v md u r).err ≠ some .outOfFuel := by
  unfold updWrap
  cases h1 : r.err with
  | some e =>
    simp only []
    rw [h1] at hr
    split
    · cases e <;> simp_all
    · exact hr
  | none =>
    cases h2 : u.err with
    | some e =>
      rw [h2] at hu
      simp only []
      split
      · cases e <;> simp_all
      · exact hu
    | none =>
      simp only []
      split <;> simp

theorem interp_zero_st (c : Call) (S : State) : (interp G 0 c S).st = S := by
  cases c <;> simp only [interp]
  · rw [emitAt.eq_1]; rfl
  · rw [deliver.eq_1]; rfl
  · rw [update.eq_1]; rfl
  · rw [runEffs.eq_1]; rfl

/-- Every run, successful or not, only ever shrinks downstream lists. -/
theorem interp_downs_sublist (f : Nat) : ∀ (c : Call) (S : State) (u : NodeId),
    ((interp G f c S).st.downs u).Sublist (S.downs u) := by
  induction f with
  | zero => intro c S u; rw [interp_zero_st]; exact List.Sublist.refl _
  | succ f ih =>
    intro c S u
    cases c with
    | emit n v md =>
      simp only [interp]
      rw [emitAt_succ]
      have := ih (.deliver (S.downs n) n v md) (emitPre S n md).1 u
      simpa [interp] using this
    | deliver ds n v md =>
      simp only [interp]
      cases ds with
      | nil => rw [deliver_nil]; exact List.Sublist.refl _
      | cons d ds =>
        rw [deliver_cons]
        have h1 := ih (.update d n v md) S u
        simp only [interp] at h1
        simp only []
        split
        · exact h1
        · have h2 := ih (.deliver ds n v md) (releaseMd md (update G f d n v md S).st).1 u
          simp only [interp, releaseMd_downs] at h2
          exact h2.trans h1
    | update d who v md =>
      simp only [interp]
      by_cases hs : ∃ m, G d = .sink m
      · obtain ⟨m, hm⟩ := hs
        rw [update_sink G _ _ _ _ _ _ m hm, sinkRes_downs]; exact List.Sublist.refl _
      · have hs' : ∀ m, G d ≠ .sink m := fun m hm => hs ⟨m, hm⟩
        rw [update_other G _ _ _ _ _ _ hs', updWrap_st]
        exact ih (.effs d _) S u
    | effs d es =>
      simp only [interp]
      cases es with
      | nil => rw [runEffs_nil]; exact List.Sublist.refl _
      | cons e es =>
        rw [runEffs_cons]
        cases e with
        | retain md => simpa [interp] using ih (.effs d es) (retainMd 1 md S).1 u
        | release md => simpa [interp] using ih (.effs d es) (releaseMd md S).1 u
        | set s => simpa [interp] using ih (.effs d es) (S.setLoc d s) u
        | detach => exact (ih (.effs d es) (detachNode d S) u).trans (detachNode_downs _ _ _)
        | emit v md =>
          have h1 := ih (.emit d v md) S u
          simp only [interp] at h1
          simp only []
          split
          · exact h1
          · exact (ih (.effs d es) (emitAt G f d v md S).st u).trans h1
        | emitThenRelease v md =>
          have h1 := ih (.emit d v md) S u
          simp only [interp] at h1
          simp only []
          split
          · exact h1
          · split
            · exact h1
            · have h2 := ih (.effs d es) (etrPost md (emitAt G f d v md S).toks (emitAt G f d v md S).st).1 u
              simp only [interp, etrPost_downs] at h2
              exact h2.trans h1

/-- a DAG over the finitely many nodes `< N` -/
def BoundedDag (N : Nat) (S : State) : Prop := ∀ u d, d ∈ S.downs u → u < d ∧ d < N

theorem BoundedDag.of_sublist {N : Nat} {S S' : State} (h : BoundedDag N S)
    (hs : ∀ u, (S'.downs u).Sublist (S.downs u)) : BoundedDag N S' := fun u d hd => h u d ((hs u).subset hd)
theorem BoundedDag.of_eq {N : Nat} {S S' : State} (h : BoundedDag N S) (hs : S'.downs = S.downs) :
    BoundedDag N S' := fun u d hd => h u d (by rw [← hs]; exact hd)
theorem BoundedDag.interp {N : Nat} {S : State} (h : BoundedDag N S) (f : Nat) (c : Call) :
    BoundedDag N (interp G f c S).st := h.of_sublist (interp_downs_sublist G f c S)

def Terminates (c : Call) (S : State) : Prop := ∃ f, (interp G f c S).err ≠ some .outOfFuel

theorem interp_mono {f f' : Nat} {c : Call} {S : State} (hle : f ≤ f')
    (h : (interp G f c S).err ≠ some .outOfFuel) : interp G f' c S = interp G f c S := by
  cases c with
  | emit n v md => exact (fuel_mono_all G f).1 f' n v md S hle h
  | deliver ds n v md => exact (fuel_mono_all G f).2.1 f' ds n v md S hle h
  | update d who v md => exact (fuel_mono_all G f).2.2.1 f' d who v md S hle h
  | effs d es => exact (fuel_mono_all G f).2.2.2 f' d es S hle h


theorem term_effs {N : Nat} {d : NodeId}
    (hE : ∀ S, BoundedDag N S → ∀ v md, Terminates G (.emit d v md) S) :
    ∀ es S, BoundedDag N S → Terminates G (.effs d es) S := by
  intro es
  induction es with
  | nil => intro S _; exact ⟨1, by simp only [interp]; rw [runEffs_nil]; intro h; cases h⟩
  | cons e es ih =>
    intro S hB
    cases e with
    | retain md =>
      obtain ⟨f, hf⟩ := ih (retainMd 1 md S).1 (hB.of_eq (by simp))
      exact ⟨f + 1, by simp only [interp] at hf ⊢; rw [runEffs_cons]; exact hf⟩
    | release md =>
      obtain ⟨f, hf⟩ := ih (releaseMd md S).1 (hB.of_eq (by simp))
      exact ⟨f + 1, by simp only [interp] at hf ⊢; rw [runEffs_cons]; exact hf⟩
    | set s =>
      obtain ⟨f, hf⟩ := ih (S.setLoc d s) (hB.of_eq (by simp))
      exact ⟨f + 1, by simp only [interp] at hf ⊢; rw [runEffs_cons]; exact hf⟩
    | detach =>
      obtain ⟨f, hf⟩ := ih (detachNode d S) (hB.of_sublist (detachNode_downs d S))
      exact ⟨f + 1, by simp only [interp] at hf ⊢; rw [runEffs_cons]; exact hf⟩
    | emit v md =>
      obtain ⟨f1, hf1⟩ := hE S hB v md
      obtain ⟨f2, hf2⟩ := ih (interp G f1 (.emit d v md) S).st (hB.interp G f1 _)
      refine ⟨max f1 f2 + 1, ?_⟩
      have m1 := interp_mono G (Nat.le_max_left f1 f2) hf1
      have m2 := interp_mono G (Nat.le_max_right f1 f2) hf2
      simp only [interp] at hf1 hf2 m1 m2 ⊢
      rw [runEffs_cons]
      simp only []
      rw [m1]
      split
      · exact hf1
      · rw [m2]; exact hf2
    | emitThenRelease v md =>
      obtain ⟨f1, hf1⟩ := hE S hB v md
      obtain ⟨f2, hf2⟩ := ih (etrPost md (interp G f1 (.emit d v md) S).toks (interp G f1 (.emit d v md) S).st).1
        ((hB.interp G f1 (.emit d v md)).of_eq (by simp))
      refine ⟨max f1 f2 + 1, ?_⟩
      have m1 := interp_mono G (Nat.le_max_left f1 f2) hf1
      have m2 := interp_mono G (Nat.le_max_right f1 f2) hf2
      simp only [interp] at hf1 hf2 m1 m2 ⊢
      rw [runEffs_cons]
      simp only []
      rw [m1]
      split
      · exact hf1
      · split
        · exact hf1
        · rw [m2]; exact hf2

theorem term_update {N : Nat} {d : NodeId}
    (hR : ∀ es S, BoundedDag N S → Terminates G (.effs d es) S) :
    ∀ S, BoundedDag N S → ∀ who v md, Terminates G (.update d who v md) S := by
  intro S hB who v md
  by_cases hs : ∃ m, G d = .sink m
  · obtain ⟨m, hm⟩ := hs
    exact ⟨1, by simp only [interp]; rw [update_sink G _ _ _ _ _ _ m hm]; exact sinkRes_err_ne_oof _ _ _ _ _ _⟩
  · have hs' : ∀ m, G d ≠ .sink m := fun m hm => hs ⟨m, hm⟩
    obtain ⟨f, hf⟩ := hR (upd (G d) (S.loc d) who v md).effs S hB
    refine ⟨f + 1, ?_⟩
    simp only [interp] at hf ⊢
    rw [update_other G _ _ _ _ _ _ hs']
    exact updWrap_not_oof (upd_err_ne_oof _ _ _ _ _) hf

theorem term_deliver {N : Nat} {n : NodeId} {v : Val} {md : Meta}
    (hU : ∀ m, n < m → m < N → ∀ S, BoundedDag N S → ∀ who v md, Terminates G (.update m who v md) S) :
    ∀ ds, (∀ d ∈ ds, n < d ∧ d < N) → ∀ S, BoundedDag N S → Terminates G (.deliver ds n v md) S := by
  intro ds
  induction ds with
  | nil => intro _ S _; exact ⟨1, by simp only [interp]; rw [deliver_nil]; intro h; cases h⟩
  | cons d ds ih =>
    intro hds S hB
    obtain ⟨hd1, hd2⟩ := hds d (by simp)
    obtain ⟨f1, hf1⟩ := hU d hd1 hd2 S hB n v md
    obtain ⟨f2, hf2⟩ := ih (fun x hx => hds x (by simp [hx]))
      (releaseMd md (interp G f1 (.update d n v md) S).st).1 ((hB.interp G f1 (.update d n v md)).of_eq (by simp))
    refine ⟨max f1 f2 + 1, ?_⟩
    have m1 := interp_mono G (Nat.le_max_left f1 f2) hf1
    have m2 := interp_mono G (Nat.le_max_right f1 f2) hf2
    simp only [interp] at hf1 hf2 m1 m2 ⊢
    rw [deliver_cons]
    simp only []
    rw [m1]
    split
    · exact hf1
    · rw [m2]; exact hf2

theorem term_step {N : Nat} {n : NodeId}
    (hU : ∀ m, n < m → m < N → ∀ S, BoundedDag N S → ∀ who v md, Terminates G (.update m who v md) S) :
    (∀ S, BoundedDag N S → ∀ v md, Terminates G (.emit n v md) S) ∧
    (∀ S, BoundedDag N S → ∀ who v md, Terminates G (.update n who v md) S) := by
  have hE : ∀ S, BoundedDag N S → ∀ v md, Terminates G (.emit n v md) S := by
    intro S hB v md
    obtain ⟨f, hf⟩ := term_deliver G hU (S.downs n) (fun d hd => hB n d hd) (emitPre S n md).1
      (hB.of_eq (by simp)) (v := v) (md := md)
    exact ⟨f + 1, by simp only [interp] at hf ⊢; rw [emitAt_succ]; exact hf⟩
  exact ⟨hE, term_update G (term_effs G hE)⟩

theorem term_all (N : Nat) : ∀ k n, N - n ≤ k →
    (∀ S, BoundedDag N S → ∀ v md, Terminates G (.emit n v md) S) ∧
    (∀ S, BoundedDag N S → ∀ who v md, Terminates G (.update n who v md) S) := by
  intro k
  induction k with
  | zero =>
    intro n hn
    exact term_step G (fun m h1 h2 => absurd hn (by unfold NodeId at *; omega))
  | succ k ih =>
    intro n hn
    exact term_step G (fun m h1 h2 => (ih m (by unfold NodeId at *; omega)).2)


/-! ### 7. `Run` is exactly the set of successful interpreter runs -/

theorem sinkRes_carried (m : SinkMode) (d who : NodeId) (v : Val) (md : Meta) (S : State) :
    (sinkRes m d who v md S).carried = none := by
  unfold sinkRes
  cases m with
  | sync fn => simp only []; split <;> rfl
  | async => rfl

theorem updWrap_of_ok {k : Kind} {d who : NodeId} {v : Val} {md : Meta} {u : UpdRes} {r : Res}
    (hr : r.err = none) (hc : r.carried = none) (hu : u.err = none) :
    updWrap k d who v md u r =
      { st := r.st, log := Ev.arrive d who v md :: r.log, toks := if u.passRet then r.toks else [],
        err := none, carried := none } := by
  unfold updWrap
  simp only [hr, hu, hc]
  split <;> rfl

theorem run_complete {c : Call} {S S' : State} {l : List Ev} {t : List Tok} (h : Run G c S S' l t) :
    ∃ f, interp G f c S = { st := S', log := l, toks := t, err := none, carried := none } := by
  induction h with
  | @emit n v md S S' l t _ ih =>
    obtain ⟨f, hf⟩ := ih
    refine ⟨f + 1, ?_⟩
    simp only [interp] at hf ⊢
    rw [emitAt_succ]; simp only []; rw [hf]
  | dnil => exact ⟨1, by simp only [interp]; rw [deliver_nil]⟩
  | @dcons d ds n v md S S1 l1 t1 S2 l2 t2 _ _ ih1 ih2 =>
    obtain ⟨f1, hf1⟩ := ih1
    obtain ⟨f2, hf2⟩ := ih2
    refine ⟨max f1 f2 + 1, ?_⟩
    have m1 := interp_mono G (Nat.le_max_left f1 f2) (by rw [hf1]; intro h; cases h)
    have m2 := interp_mono G (Nat.le_max_right f1 f2) (by rw [hf2]; intro h; cases h)
    rw [hf1] at m1; rw [hf2] at m2
    simp only [interp] at m1 m2 ⊢
    rw [deliver_cons]; simp only []; rw [m1]; simp only []; rw [m2]; rfl
  | @sink d who v md S m hm he =>
    refine ⟨1, ?_⟩
    simp only [interp]
    rw [update_sink G _ _ _ _ _ _ m hm]
    have hc := sinkRes_carried m d who v md S
    generalize sinkRes m d who v md S = r at he hc ⊢
    cases r; simp only [] at he hc; subst he hc; rfl
  | @upd d who v md S S' l t hs hu _ ih =>
    obtain ⟨f, hf⟩ := ih
    refine ⟨f + 1, ?_⟩
    simp only [interp] at hf ⊢
    rw [update_other G _ _ _ _ _ _ hs, hf, updWrap_of_ok rfl rfl hu]
  | enil => exact ⟨1, by simp only [interp]; rw [runEffs_nil]⟩
  | eretain _ ih =>
    obtain ⟨f, hf⟩ := ih
    exact ⟨f + 1, by simp only [interp] at hf ⊢; rw [runEffs_cons]; simp only []; rw [hf]⟩
  | erelease _ ih =>
    obtain ⟨f, hf⟩ := ih
    exact ⟨f + 1, by simp only [interp] at hf ⊢; rw [runEffs_cons]; simp only []; rw [hf]⟩
  | eset _ ih =>
    obtain ⟨f, hf⟩ := ih
    exact ⟨f + 1, by simp only [interp] at hf ⊢; rw [runEffs_cons]; simp only []; rw [hf]⟩
  | edetach _ ih =>
    obtain ⟨f, hf⟩ := ih
    exact ⟨f + 1, by simp only [interp] at hf ⊢; rw [runEffs_cons]; simp only []; rw [hf]⟩
  | @eemit d v md es S S1 l1 t1 S2 l2 t2 _ _ ih1 ih2 =>
    obtain ⟨f1, hf1⟩ := ih1
    obtain ⟨f2, hf2⟩ := ih2
    refine ⟨max f1 f2 + 1, ?_⟩
    have m1 := interp_mono G (Nat.le_max_left f1 f2) (by rw [hf1]; intro h; cases h)
    have m2 := interp_mono G (Nat.le_max_right f1 f2) (by rw [hf2]; intro h; cases h)
    rw [hf1] at m1; rw [hf2] at m2
    simp only [interp] at m1 m2 ⊢
    rw [runEffs_cons]; simp only []; rw [m1]; simp only []; rw [m2]; rfl
  | @eetr d v md es S S1 l1 t1 S2 l2 t2 _ _ ih1 ih2 =>
    obtain ⟨f1, hf1⟩ := ih1
    obtain ⟨f2, hf2⟩ := ih2
    refine ⟨max f1 f2 + 1, ?_⟩
    have m1 := interp_mono G (Nat.le_max_left f1 f2) (by rw [hf1]; intro h; cases h)
    have m2 := interp_mono G (Nat.le_max_right f1 f2) (by rw [hf2]; intro h; cases h)
    rw [hf1] at m1; rw [hf2] at m2
    simp only [interp] at m1 m2 ⊢
    rw [runEffs_cons]; simp only []; rw [m1]; simp only []; rw [m2]


/-! ### 8. Edge consistency with topology changes: no duplication, no reordering, nothing invented -/

theorem fanout_sublist {ds' ds : List NodeId} (h : ds'.Sublist ds) (e : Val × Meta) :
    (fanout ds' e).Sublist (fanout ds e) := h.map _

theorem flatMap_fanout_sublist {ds' ds : List NodeId} (h : ds'.Sublist ds) (es : List (Val × Meta)) :
    (es.flatMap (fanout ds')).Sublist (es.flatMap (fanout ds)) := by
  induction es with
  | nil => exact List.Sublist.refl _
  | cons e es ih => rw [List.flatMap_cons, List.flatMap_cons]; exact (fanout_sublist h e).append ih

/-- With `slice` nodes detaching themselves, what leaves `u` is a sub-sequence (same order, no repetition) of
"each emission of `u` handed to each *initial* downstream of `u`": deliveries can only be dropped (to detached
branches), never duplicated, reordered or invented. -/
def EdgeSubP : Call → State → List Ev → Prop
  | .emit _ _ _, S, l => ∀ u, (arrivalsFrom u l).Sublist ((emitsOf u l).flatMap (fanout (S.downs u)))
  | .deliver ds n v md, S, l => (∀ d ∈ ds, n < d) → ∀ u,
      (arrivalsFrom u l).Sublist
        ((if n = u then fanout ds (v, md) else []) ++ (emitsOf u l).flatMap (fanout (S.downs u)))
  | .update d who v md, S, l => ∀ u,
      (arrivalsFrom u l).Sublist
        ((if who = u then [(d, v, md)] else []) ++ (emitsOf u l).flatMap (fanout (S.downs u)))
  | .effs _ _, S, l => ∀ u, (arrivalsFrom u l).Sublist ((emitsOf u l).flatMap (fanout (S.downs u)))

theorem run_edges_sub {c : Call} {S S' : State} {l : List Ev} {t : List Tok}
    (h : Run G c S S' l t) : Acyclic S → EdgeSubP c S l := by
  induction h with
  | @emit n v md S S' l t _ ih =>
    intro hA u
    have := ih (hA.of_eq (by simp)) (fun d hd => hA n d hd) u
    rw [List.cons_append, arrivalsFrom_cons_emit, emitsOf_cons_emit, arrivalsFrom_append, emitsOf_append,
      (emitPre_quiet S n md).arrivalsFrom u, (emitPre_quiet S n md).emitsOf u, List.nil_append, List.nil_append]
    rw [emitPre_downs] at this
    split
    · next hnu => subst hnu; simpa [fanout] using this
    · next hnu => simpa [hnu] using this
  | dnil => intro _ _ u; simp
  | @dcons d ds n v md S S1 l1 t1 S2 l2 t2 h1 _ ih1 ih2 =>
    intro hA hds u
    have e1 := ih1 hA u
    have e2 := ih2 ((hA.run G h1).of_eq (by simp)) (fun x hx => hds x (by simp [hx])) u
    have hs : (S1.downs u).Sublist (S.downs u) := run_downs_sublist G h1 u
    obtain ⟨rest, hl1, hrest⟩ := run_bounds G h1 hA
    have hnd : n < d := hds d (by simp)
    rw [releaseMd_downs] at e2
    have e2' := e2.trans ((List.Sublist.refl _).append (flatMap_fanout_sublist hs (emitsOf u l2)))
    simp only [arrivalsFrom_append, emitsOf_append, (releaseMd_quiet md S1).arrivalsFrom u,
      (releaseMd_quiet md S1).emitsOf u, List.append_nil, List.flatMap_append]
    have := e1.append e2'
    by_cases hnu : n = u
    · subst hnu
      have he : emitsOf n l1 = [] := by
        rw [hl1, emitsOf_cons_arrive]; exact hrest.emitsOf_nil hnd
      simpa [he] using this
    · simpa [hnu] using this
  | @sink d who v md S m hm he =>
    intro _ u
    obtain ⟨q, hq, hquiet⟩ := sinkRes_log m d who v md S he
    rw [hq, arrivalsFrom_cons_arrive, emitsOf_cons_arrive, hquiet.arrivalsFrom u, hquiet.emitsOf u]
    split <;> simp
  | @upd d who v md S S' l t hs hu h1 ih =>
    intro hA u
    have := ih hA u
    rw [arrivalsFrom_cons_arrive, emitsOf_cons_arrive]
    split
    · simpa using this
    · simpa using this
  | enil => intro _ u; exact List.Sublist.refl _
  | @eretain d md es S S' l t _ ih =>
    intro hA u
    have := ih (hA.of_eq (by simp)) u
    simpa [(retainMd_quiet 1 md S).arrivalsFrom u, (retainMd_quiet 1 md S).emitsOf u] using this
  | @erelease d md es S S' l t _ ih =>
    intro hA u
    have := ih (hA.of_eq (by simp)) u
    simpa [(releaseMd_quiet md S).arrivalsFrom u, (releaseMd_quiet md S).emitsOf u] using this
  | @eset d s es S S' l t _ ih =>
    intro hA u
    exact ih (hA.of_eq (by simp)) u
  | @edetach d es S S' l t _ ih =>
    intro hA u
    exact (ih (hA.detachNode d) u).trans (flatMap_fanout_sublist (detachNode_downs d S u) _)
  | @eemit d v md es S S1 l1 t1 S2 l2 t2 h1 _ ih1 ih2 =>
    intro hA u
    have e1 := ih1 hA u
    have e2 := (ih2 (hA.run G h1) u).trans (flatMap_fanout_sublist (run_downs_sublist G h1 u) _)
    rw [arrivalsFrom_append, emitsOf_append, List.flatMap_append]
    exact e1.append e2
  | @eetr d v md es S S1 l1 t1 S2 l2 t2 h1 _ ih1 ih2 =>
    intro hA u
    have e1 := ih1 hA u
    have e2 := ih2 ((hA.run G h1).of_eq (by simp)) u
    rw [etrPost_downs] at e2
    have e2' := e2.trans (flatMap_fanout_sublist (run_downs_sublist G h1 u) _)
    simp only [arrivalsFrom_append, emitsOf_append, (etrPost_quiet md t1 S1).arrivalsFrom u,
      (etrPost_quiet md t1 S1).emitsOf u, List.append_nil, List.flatMap_append]
    exact e1.append e2'

theorem mem_arrivalsFrom {u d : NodeId} {v : Val} {md : Meta} {l : List Ev} :
    (d, v, md) ∈ arrivalsFrom u l ↔ Ev.arrive d u v md ∈ l := by
  induction l with
  | nil => simp
  | cons ev l ih =>
    have hc : ev :: l = [ev] ++ l := rfl
    rw [hc, arrivalsFrom_append, List.mem_append, List.mem_append, ih]
    refine or_congr ?_ Iff.rfl
    cases ev with
    | arrive d' who v' md' =>
      by_cases h : who = u
      · subst h; simp [arrivalsFrom]
      · simp [arrivalsFrom, h]; intro _ h2; exact absurd h2.symm h
    | _ => simp [arrivalsFrom]

theorem mem_emitsOf {u : NodeId} {v : Val} {md : Meta} {l : List Ev} :
    (v, md) ∈ emitsOf u l ↔ Ev.emit u v md ∈ l := by
  induction l with
  | nil => simp
  | cons ev l ih =>
    have hc : ev :: l = [ev] ++ l := rfl
    rw [hc, emitsOf_append, List.mem_append, List.mem_append, ih]
    refine or_congr ?_ Iff.rfl
    cases ev with
    | emit n v' md' =>
      by_cases h : n = u
      · subst h; simp [emitsOf]
      · simp [emitsOf, h]; intro h2; exact absurd h2.symm h
    | _ => simp [emitsOf]

theorem flatMap_replicate_sublist {α : Type} (es : List α) {c : Nat} (hc : c ≤ 1) :
    (es.flatMap (fun e => List.replicate c e)).Sublist es := by
  induction es with
  | nil => exact List.Sublist.refl _
  | cons e es ih =>
    rw [List.flatMap_cons]
    have : (List.replicate c e).Sublist [e] := by
      match c, hc with
      | 0, _ => simp
      | 1, _ => simp
    exact this.append ih


/-! ### 9. Depth-first shape of the log -/

/-- The loop of `_emit` over the downstream snapshot `ds` writes one contiguous segment per downstream, in list
order; the segment of `d` starts with the arrival at `d` and everything else in it happens at or below `d`
(arrivals strictly below), i.e. all consequences of the delivery to one sibling precede the delivery to the
next. -/
def SegsFor (n : NodeId) (v : Val) (md : Meta) : List NodeId → List (List Ev) → Prop
  | [], [] => True
  | d :: ds, seg :: segs =>
      (∃ rest, seg = Ev.arrive d n v md :: rest ∧ BndL (d + 1) d d rest) ∧ SegsFor n v md ds segs
  | _, _ => False

def DfP : Call → List Ev → Prop
  | .deliver ds n v md, l => (∀ d ∈ ds, n < d) →
      ∃ segs : List (List Ev), l = segs.flatten ∧ SegsFor n v md ds segs
  | _, _ => True

theorem run_df {c : Call} {S S' : State} {l : List Ev} {t : List Tok} (h : Run G c S S' l t) :
    Acyclic S → DfP c l := by
  induction h with
  | dnil => intro _ _; exact ⟨[], rfl, trivial⟩
  | @dcons d ds n v md S S1 l1 t1 S2 l2 t2 h1 _ _ ih2 =>
    intro hA hds
    obtain ⟨segs, hl2, hsegs⟩ := ih2 ((hA.run G h1).of_eq (by simp)) (fun x hx => hds x (by simp [hx]))
    obtain ⟨rest, hl1, hrest⟩ := run_bounds G h1 hA
    refine ⟨(l1 ++ (releaseMd md S1).2) :: segs, by simp [hl2], ?_, hsegs⟩
    exact ⟨rest ++ (releaseMd md S1).2, by rw [hl1]; rfl, hrest.append ((releaseMd_quiet _ _).bnd _ _ _)⟩
  | emit => intro _; trivial
  | sink => intro _; trivial
  | upd => intro _; trivial
  | enil => intro _; trivial
  | eretain => intro _; trivial
  | erelease => intro _; trivial
  | eset => intro _; trivial
  | edetach => intro _; trivial
  | eemit => intro _; trivial
  | eetr => intro _; trivial

theorem run_emit_inv {n : NodeId} {v : Val} {md : Meta} {S S' : State} {l : List Ev} {t : List Tok}
    (h : Run G (.emit n v md) S S' l t) :
    ∃ l', l = Ev.emit n v md :: (emitPre S n md).2 ++ l' ∧
      Run G (.deliver (S.downs n) n v md) (emitPre S n md).1 S' l' t := by
  cases h with
  | emit h' => exact ⟨_, rfl, h'⟩

end StreamzVerif.Graph
