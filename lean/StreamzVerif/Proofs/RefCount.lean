import StreamzVerif.Proofs.Propagate
/-
Reference counting on the dataflow model (C05 balance / liveness, synchronous half of C04).
Everything lives in the namespace `StreamzVerif.Graph.RefCount` (several generic names — `Safe`, `WF`, `Good`,
`retainMd_count` — exist in other proof files of `StreamzVerif.Graph`).

  1. `wMd r md`: how many entries of a metadata list carry reference `r`; effect of `retainMd` / `releaseMd`
     on `State.count` and on nothing else
  2. `heldMd k s`: the metadata a node of kind `k` in state `s` is holding; `holders`; `excess = count - holders`
  3. `NodeInv`: the per-kind shape invariants the balance depends on; `BodyOK`: the accounting obligation of
     one `update` body (balance, no over-release, every emission covered); `KindOK`; `WF`, `InvFrom`, `CallIn`
  4. `kindOK_all`: every `upd` program of every kind satisfies `BodyOK`
  5. `run_bal`: the balance theorem over `Run` (what each kind of call does to `excess`)
  6. the log view: `evNet`, `logNet`, `FireOK` (fire exactly after a release that leaves `≤ 0`), `run_log`
     (hypothesis-free), `Safe` (never negative, never raised from zero), `run_safe`
  7. reading the log predicates: prefixes, `fire_zero_dead`, `FireOK.fired`, `FireOK.no_fire`
  8. quiescent states `Good`; `emit_good`, `flush_good`
  9. `sinkDone`: `sinkDone_spec`
 10. top-level operations `Op` / `Step`; `step_good`, `step_logOK`, `SafeTop`, `step_safeTop`, `step_dead`
 11. `Steps`, `good_init`, `pending_blocks`
 12. `LogOK.fired`
 13. instrumented runs `RunA` (every event with the state at that moment), `runA_moment`
-/
set_option linter.unusedSimpArgs false
namespace StreamzVerif.Graph.RefCount

/-! ### 1. Counting -/

/-- number of entries of `md` whose reference counter is `r` -/
def wMd (r : Nat) (md : Meta) : Nat := md.countP (fun m => decide (m.ref = some r))

@[simp] theorem wMd_nil (r : Nat) : wMd r [] = 0 := rfl
theorem wMd_cons (r : Nat) (m : MEntry) (ms : Meta) :
    wMd r (m :: ms) = wMd r ms + (if m.ref = some r then 1 else 0) := by
  simp [wMd, List.countP_cons]
@[simp] theorem wMd_append (r : Nat) (a b : Meta) : wMd r (a ++ b) = wMd r a + wMd r b := by
  simp [wMd]
theorem wMd_of_isEmpty {r : Nat} {md : Meta} (h : md.isEmpty = true) : wMd r md = 0 := by
  cases md with
  | nil => rfl
  | cons _ _ => simp at h

@[simp] theorem flatMd_nil : flatMd [] = [] := rfl
@[simp] theorem flatMd_cons (m : Meta) (ms : List Meta) : flatMd (m :: ms) = m ++ flatMd ms := by
  simp [flatMd]
@[simp] theorem flatMd_append (a b : List Meta) : flatMd (a ++ b) = flatMd a ++ flatMd b := by
  simp [flatMd]

/-- `retainMd` / `releaseMd` only touch `count` -/
theorem retainMd_eq (k : Nat) (md : Meta) (S : State) :
    (retainMd k md S).1 = { S with count := (retainMd k md S).1.count } := by
  induction md generalizing S with
  | nil => rfl
  | cons m ms ih =>
    unfold retainMd
    split
    · exact ih S
    · simp only []; rw [ih]
theorem releaseMd_eq (md : Meta) (S : State) :
    (releaseMd md S).1 = { S with count := (releaseMd md S).1.count } := by
  induction md generalizing S with
  | nil => rfl
  | cons m ms ih =>
    unfold releaseMd
    split
    · exact ih S
    · simp only []; rw [ih]

@[simp] theorem retainMd_pending (k : Nat) (md : Meta) (S : State) : (retainMd k md S).1.pending = S.pending := by
  rw [retainMd_eq]
@[simp] theorem retainMd_waiters (k : Nat) (md : Meta) (S : State) : (retainMd k md S).1.waiters = S.waiters := by
  rw [retainMd_eq]
@[simp] theorem retainMd_nextTok (k : Nat) (md : Meta) (S : State) : (retainMd k md S).1.nextTok = S.nextTok := by
  rw [retainMd_eq]
@[simp] theorem retainMd_doneToks (k : Nat) (md : Meta) (S : State) : (retainMd k md S).1.doneToks = S.doneToks := by
  rw [retainMd_eq]
@[simp] theorem releaseMd_pending (md : Meta) (S : State) : (releaseMd md S).1.pending = S.pending := by
  rw [releaseMd_eq]
@[simp] theorem releaseMd_waiters (md : Meta) (S : State) : (releaseMd md S).1.waiters = S.waiters := by
  rw [releaseMd_eq]
@[simp] theorem releaseMd_nextTok (md : Meta) (S : State) : (releaseMd md S).1.nextTok = S.nextTok := by
  rw [releaseMd_eq]
@[simp] theorem releaseMd_doneToks (md : Meta) (S : State) : (releaseMd md S).1.doneToks = S.doneToks := by
  rw [releaseMd_eq]

theorem retainMd_count (k : Nat) (md : Meta) (S : State) (r : Nat) :
    (retainMd k md S).1.count r = S.count r + ((k * wMd r md : Nat) : Int) := by
  induction md generalizing S with
  | nil => simp [retainMd]
  | cons m ms ih =>
    unfold retainMd
    split
    · next h => rw [ih, wMd_cons]; simp [h]
    · next q h =>
      simp only []
      rw [ih, wMd_cons, h]
      by_cases hq : r = q
      · subst hq; simp [Nat.mul_add]; omega
      · have : ¬ (some q = some r) := by intro e; cases e; exact hq rfl
        simp [hq, this]

theorem releaseMd_count (md : Meta) (S : State) (r : Nat) :
    (releaseMd md S).1.count r = S.count r - ((wMd r md : Nat) : Int) := by
  induction md generalizing S with
  | nil => simp [releaseMd]
  | cons m ms ih =>
    unfold releaseMd
    split
    · next h => rw [ih, wMd_cons]; simp [h]
    · next q h =>
      simp only []
      rw [ih, wMd_cons, h]
      by_cases hq : r = q
      · subst hq; simp; omega
      · have : ¬ (some q = some r) := by intro e; cases e; exact hq rfl
        simp [hq, this]

/-! ### 2. Holders -/

/-- all metadata a node of kind `k` in state `s` is holding (flattened): the partition / partition_unique
buffers, sliding_window's metadata buffer and collect's cache (`items`), zip's buffers, combine_latest's
`metadata` slots, zip_latest's lossless buffer and its non-lossless `metadata` slots. -/
def heldMd (k : Kind) (s : NState) : Meta :=
  match k with
  | .partition _ _ => flatMd (s.items.map (·.2.2))
  | .partitionUnique _ _ _ => flatMd (s.items.map (·.2.2))
  | .slidingWindow _ _ => flatMd (s.items.map (·.2.2))
  | .collect => flatMd (s.items.map (·.2.2))
  | .zip _ => flatMd (s.bufs.map (fun b => flatMd (b.2.map (·.2))))
  | .combineLatest _ => flatMd s.lastMd
  | .zipLatest => flatMd (s.lossless.map (·.2)) ++ flatMd (s.lastMd.drop 1)
  | _ => []

/-- how many times node state `s` of kind `k` holds reference `r` -/
def nodeHolds (k : Kind) (s : NState) (r : Nat) : Nat := wMd r (heldMd k s)

variable (G : NodeId → Kind)

def nodesHold (nodes : List NodeId) (loc : NodeId → NState) (r : Nat) : Nat :=
  (nodes.map (fun i => nodeHolds (G i) (loc i) r)).sum

/-- references held for asynchronous consumer invocations that have not finished -/
def pendHolds (p : List (Tok × NodeId × Meta)) (r : Nat) : Nat := wMd r (flatMd (p.map (·.2.2)))
/-- references held by suspended `partition._flush` coroutines -/
def waitHolds (w : List (List Tok × Meta)) (r : Nat) : Nat := wMd r (flatMd (w.map (·.2)))

/-- **The ghost function**: the number of places an entry with `ref = some r` currently sits. -/
def holders (nodes : List NodeId) (S : State) (r : Nat) : Nat :=
  nodesHold G nodes S.loc r + pendHolds S.pending r + waitHolds S.waiters r

/-- what the counter of `r` shows beyond the holders: the retains of `_emit` frames still on the stack -/
def excess (nodes : List NodeId) (S : State) (r : Nat) : Int := S.count r - (holders G nodes S r : Int)

theorem holders_congr {nodes : List NodeId} {S S' : State} (r : Nat) (h1 : S'.loc = S.loc)
    (h2 : S'.pending = S.pending) (h3 : S'.waiters = S.waiters) : holders G nodes S' r = holders G nodes S r := by
  simp [holders, h1, h2, h3]

theorem sum_map_update {nodes : List NodeId} (f f' : NodeId → Nat) (d : NodeId) (hn : nodes.Nodup)
    (hd : d ∈ nodes) (h : ∀ i, i ≠ d → f' i = f i) :
    (nodes.map f').sum + f d = (nodes.map f).sum + f' d := by
  induction nodes with
  | nil => simp at hd
  | cons a as ih =>
    simp only [List.nodup_cons] at hn
    simp only [List.map_cons, List.sum_cons]
    rcases List.mem_cons.1 hd with rfl | hd'
    · have : as.map f' = as.map f := by
        apply List.map_congr_left
        intro i hi
        exact h i (fun e => hn.1 (e ▸ hi))
      rw [this]; omega
    · have hne : a ≠ d := fun e => hn.1 (e ▸ hd')
      have := ih hn.2 hd'
      rw [h a hne]; omega

theorem le_sum_map {nodes : List NodeId} (f : NodeId → Nat) {d : NodeId} (hd : d ∈ nodes) :
    f d ≤ (nodes.map f).sum := by
  induction nodes with
  | nil => simp at hd
  | cons a as ih =>
    simp only [List.map_cons, List.sum_cons]
    rcases List.mem_cons.1 hd with rfl | hd'
    · omega
    · have := ih hd'; omega

theorem nodesHold_setLoc {nodes : List NodeId} (S : State) (d : NodeId) (s : NState) (r : Nat)
    (hn : nodes.Nodup) (hd : d ∈ nodes) :
    nodesHold G nodes (S.setLoc d s).loc r + nodeHolds (G d) (S.loc d) r
      = nodesHold G nodes S.loc r + nodeHolds (G d) s r := by
  have := sum_map_update (fun i => nodeHolds (G i) (S.loc i) r)
    (fun i => nodeHolds (G i) ((S.setLoc d s).loc i) r) d hn hd
    (fun i hi => by simp [State.setLoc, hi])
  simpa [nodesHold, State.setLoc] using this

theorem nodeHolds_le_holders {nodes : List NodeId} (S : State) {d : NodeId} (r : Nat) (hd : d ∈ nodes) :
    nodeHolds (G d) (S.loc d) r ≤ holders G nodes S r := by
  have := le_sum_map (fun i => nodeHolds (G i) (S.loc i) r) hd
  simp only [holders, nodesHold]; omega

theorem excess_retainMd (nodes : List NodeId) (k : Nat) (md : Meta) (S : State) (r : Nat) :
    excess G nodes (retainMd k md S).1 r = excess G nodes S r + ((k * wMd r md : Nat) : Int) := by
  simp only [excess, retainMd_count, holders_congr G r (retainMd_loc k md S) (retainMd_pending k md S)
    (retainMd_waiters k md S)]
  omega

theorem excess_releaseMd (nodes : List NodeId) (md : Meta) (S : State) (r : Nat) :
    excess G nodes (releaseMd md S).1 r = excess G nodes S r - ((wMd r md : Nat) : Int) := by
  simp only [excess, releaseMd_count, holders_congr G r (releaseMd_loc md S) (releaseMd_pending md S)
    (releaseMd_waiters md S)]
  omega

theorem excess_emitPre (nodes : List NodeId) (S : State) (n : NodeId) (md : Meta) (r : Nat) :
    excess G nodes (emitPre S n md).1 r = excess G nodes S r + (((S.downs n).length * wMd r md : Nat) : Int) := by
  unfold emitPre
  split
  · next h => simp [wMd_of_isEmpty h]
  · exact excess_retainMd G nodes _ md S r

theorem excess_setLoc {nodes : List NodeId} (S : State) (d : NodeId) (s : NState) (r : Nat)
    (hn : nodes.Nodup) (hd : d ∈ nodes) :
    excess G nodes (S.setLoc d s) r + (nodeHolds (G d) s r : Int)
      = excess G nodes S r + (nodeHolds (G d) (S.loc d) r : Int) := by
  have := nodesHold_setLoc G S d s r hn hd
  have e2 : (S.setLoc d s).pending = S.pending := rfl
  have e3 : (S.setLoc d s).waiters = S.waiters := rfl
  have e4 : (S.setLoc d s).count = S.count := rfl
  simp only [excess, holders, e2, e3, e4]
  omega

theorem detach_fold_eq (d : NodeId) (us : List NodeId) (S : State) :
    (us.foldl (fun S u => S.setDowns u ((S.downs u).filter (· ≠ d))) S)
      = { S with downs := (us.foldl (fun S u => S.setDowns u ((S.downs u).filter (· ≠ d))) S).downs } := by
  induction us generalizing S with
  | nil => rfl
  | cons u us ih => rw [List.foldl_cons, ih]; rfl
theorem detachNode_eq (d : NodeId) (S : State) : detachNode d S = { S with downs := (detachNode d S).downs } :=
  detach_fold_eq d _ S

theorem excess_detachNode (nodes : List NodeId) (d : NodeId) (S : State) (r : Nat) :
    excess G nodes (detachNode d S) r = excess G nodes S r := by
  rw [detachNode_eq]; rfl

theorem excess_etrPost (nodes : List NodeId) (md : Meta) (toks : List Tok) (S : State) (r : Nat) :
    excess G nodes (etrPost md toks S).1 r = excess G nodes S r - ((wMd r md : Nat) : Int) := by
  unfold etrPost
  split
  · exact excess_releaseMd G nodes md S r
  · simp only [excess, holders, waitHolds, List.map_append, flatMd_append, wMd_append, List.map_cons,
      List.map_nil, flatMd_cons, flatMd_nil, List.append_nil]
    omega

theorem sinkRes_excess (nodes : List NodeId) (m : SinkMode) (d who : NodeId) (v : Val) (md : Meta) (S : State)
    (r : Nat) : excess G nodes (sinkRes m d who v md S).st r = excess G nodes S r := by
  unfold sinkRes
  cases m with
  | sync fn => simp only []; split <;> rfl
  | async =>
    simp only []
    split
    · next h =>
      simp only [excess, holders, pendHolds, List.map_append, flatMd_append, wMd_append, List.map_cons,
        List.map_nil, flatMd_cons, flatMd_nil, List.append_nil, wMd_of_isEmpty h]
      omega
    · have h1 := retainMd_count 1 md S r
      simp only [excess, holders, pendHolds, List.map_append, flatMd_append, wMd_append, List.map_cons,
        List.map_nil, flatMd_cons, flatMd_nil, List.append_nil, retainMd_loc, retainMd_pending,
        retainMd_waiters, h1]
      omega

/-! ### 3. Node invariants and the accounting obligation of an update body -/

/-- Shape invariants of node states on which the balance of the `update` bodies depends.  They hold in every
state the constructors build and are re-established by every `update` that returns normally (`KindOK`):
* `partition_unique`: the buffer is a dict, keys are distinct;
* `sliding_window`: the metadata deque was popped whenever it was full (`< n`), and is not longer than the
  value deque unless `return_partial`;
* `zip`: one buffer per upstream, in upstream order, upstreams distinct;
* `combine_latest` / `zip_latest`: one metadata slot per upstream. -/
def NodeInv : Kind → NState → Prop
  | .partitionUnique _ _ _, s => (s.items.map (·.1)).Nodup
  | .slidingWindow n part, s => s.items.length < n ∧ (part = false → s.items.length ≤ s.win.length)
  | .zip _, s => s.ups.Nodup ∧ s.bufs.map (·.1) = s.ups
  | .combineLatest _, s => s.lastMd.length = s.ups.length
  | .zipLatest, s => s.lastMd.length = s.ups.length
  | _, _ => True

@[simp] theorem nodeInv_source (s : NState) : NodeInv .source s = True := rfl
@[simp] theorem nodeInv_union (s : NState) : NodeInv .union s = True := rfl
@[simp] theorem nodeInv_map (f : Fn) (s : NState) : NodeInv (.map f) s = True := rfl
@[simp] theorem nodeInv_starmap (f : Fn) (s : NState) : NodeInv (.starmap f) s = True := rfl
@[simp] theorem nodeInv_filter (f : Fn) (s : NState) : NodeInv (.filter f) s = True := rfl
@[simp] theorem nodeInv_accumulate (f : Fn2) (a : Option Val) (b c : Bool) (s : NState) :
    NodeInv (.accumulate f a b c) s = True := rfl
@[simp] theorem nodeInv_slice (a : Nat) (b : Option Nat) (c : Nat) (s : NState) :
    NodeInv (.slice a b c) s = True := rfl
@[simp] theorem nodeInv_partition (n : Nat) (key : Option Fn) (s : NState) :
    NodeInv (.partition n key) s = True := rfl
@[simp] theorem nodeInv_unique (a : Option Nat) (f : Fn) (b : Bool) (s : NState) :
    NodeInv (.unique a f b) s = True := rfl
@[simp] theorem nodeInv_flatten (s : NState) : NodeInv .flatten s = True := rfl
@[simp] theorem nodeInv_pluck (p : Pick) (s : NState) : NodeInv (.pluck p) s = True := rfl
@[simp] theorem nodeInv_collect (s : NState) : NodeInv .collect s = True := rfl
@[simp] theorem nodeInv_sink (m : SinkMode) (s : NState) : NodeInv (.sink m) s = True := rfl

/-- Accounting of one `update` body for reference `r`.  `s` is the node's current state, `c` is the part of
`count r` that is owed to this node and this body (`= nodeHolds` at the start and at the end), `mIn` is what
the caller's `_emit` frame holds on behalf of the incoming metadata.
* a `release` never takes more than is owed (`≤ c`);
* at every emission the node's buffer is covered (`nodeHolds ≤ c`: nothing that is still buffered has been
  released) and the emitted metadata is covered (`0 < c + mIn`: it is not yet completed);
* the books are balanced at the end and the final state satisfies the node invariant. -/
def BodyOK (k : Kind) (r : Nat) (mIn : Int) : List Eff → NState → Int → Prop
  | [], s, c => c = (nodeHolds k s r : Int) ∧ NodeInv k s
  | .retain md :: es, s, c => (0 < wMd r md → 0 < c + mIn) ∧ BodyOK k r mIn es s (c + (wMd r md : Int))
  | .release md :: es, s, c => (wMd r md : Int) ≤ c ∧ BodyOK k r mIn es s (c - (wMd r md : Int))
  | .set s' :: es, _, c => BodyOK k r mIn es s' c
  | .detach :: es, s, c => BodyOK k r mIn es s c
  | .emit _ md :: es, s, c =>
      (nodeHolds k s r : Int) ≤ c ∧ (0 < wMd r md → 0 < c + mIn) ∧ BodyOK k r mIn es s c
  | .emitThenRelease _ md :: es, s, c =>
      (nodeHolds k s r : Int) ≤ c ∧ (0 < wMd r md → 0 < c + mIn) ∧ (wMd r md : Int) ≤ c ∧
        BodyOK k r mIn es s (c - (wMd r md : Int))

/-- every `update` of kind `k` that returns normally keeps the books -/
def KindOK (k : Kind) : Prop :=
  ∀ (r : Nat) (s : NState) (who : NodeId) (v : Val) (md : Meta), NodeInv k s → (upd k s who v md).err = none →
    BodyOK k r (wMd r md : Int) (upd k s who v md).effs s (nodeHolds k s r : Int)

/-- Well-formed topology relative to a finite node set: DAG, the node set is closed under `downs`. -/
structure WF (nodes : List NodeId) (S : State) : Prop where
  acyclic : Acyclic S
  closed : ∀ u ∈ nodes, ∀ d ∈ S.downs u, d ∈ nodes

/-- the node invariants of all nodes `≥ lo` (those not on the call stack) -/
def InvFrom (nodes : List NodeId) (lo : Nat) (S : State) : Prop :=
  ∀ i ∈ nodes, lo ≤ i → NodeInv (G i) (S.loc i)

theorem WF.of_eq {nodes : List NodeId} {S S' : State} (h : WF nodes S) (h2 : S'.downs = S.downs) :
    WF nodes S' :=
  ⟨h.acyclic.of_eq h2, fun u hu d hd => h.closed u hu d (by rw [← h2]; exact hd)⟩

theorem WF.of_sublist {nodes : List NodeId} {S S' : State} (h : WF nodes S)
    (h2 : ∀ u, (S'.downs u).Sublist (S.downs u)) : WF nodes S' :=
  ⟨h.acyclic.of_sublist h2, fun u hu d hd => h.closed u hu d ((h2 u).subset hd)⟩

theorem WF.run {nodes : List NodeId} {c : Call} {S S' : State} {l : List Ev} {t : List Tok} (h : WF nodes S)
    (hr : Run G c S S' l t) : WF nodes S' := h.of_sublist (run_downs_sublist G hr)

theorem InvFrom.of_eq {nodes : List NodeId} {lo : Nat} {S S' : State} (h : InvFrom G nodes lo S)
    (h1 : S'.loc = S.loc) : InvFrom G nodes lo S' := fun i hi hl => by rw [h1]; exact h i hi hl

theorem InvFrom.mono {nodes : List NodeId} {lo lo' : Nat} {S : State} (h : InvFrom G nodes lo S)
    (hl : lo ≤ lo') : InvFrom G nodes lo' S := fun i hi hl' => h i hi (Nat.le_trans hl hl')

def CallIn (nodes : List NodeId) : Call → Prop
  | .emit n _ _ => n ∈ nodes
  | .deliver ds n _ _ => ∀ d ∈ ds, d ∈ nodes ∧ n < d
  | .update d _ _ _ => d ∈ nodes
  | .effs d _ => d ∈ nodes

/-- nodes below this id are on the call stack (their bodies are running) -/
def callLo : Call → Nat
  | .emit n _ _ => n + 1
  | .deliver _ n _ _ => n + 1
  | .update d _ _ _ => d
  | .effs d _ => d + 1

theorem run_emit_loc_self {d : NodeId} {v : Val} {md : Meta} {S S1 : State} {l : List Ev} {t : List Tok}
    (h : Run G (.emit d v md) S S1 l t) (hA : Acyclic S) {i : NodeId} (hi : i ≤ d) : S1.loc i = S.loc i := by
  have e1 := run_proj G h hA i
  obtain ⟨rest, hl1, hrest⟩ := run_bounds G h hA
  rw [e1, hl1, arrivalsAt_cons_emit, hrest.arrivalsAt_nil (Nat.lt_succ_of_le hi)]; rfl

theorem run_update_loc_below {d who : NodeId} {v : Val} {md : Meta} {S S1 : State} {l : List Ev} {t : List Tok}
    (h : Run G (.update d who v md) S S1 l t) (hA : Acyclic S) {i : NodeId} (hi : i < d) :
    S1.loc i = S.loc i := by
  have e1 := run_proj G h hA i
  obtain ⟨rest, hl1, hrest⟩ := run_bounds G h hA
  have hne : ¬ d = i := by unfold NodeId at *; omega
  rw [e1, hl1, arrivalsAt_cons_arrive, if_neg hne, hrest.arrivalsAt_nil (by unfold NodeId at *; omega)]; rfl

/-! ### 4. Every kind keeps the books -/

local macro "rc_arith" : tactic =>
  `(tactic| (and_intros <;> first | trivial | assumption | omega | (intro _; omega)))



theorem kindOK_collect : KindOK .collect := by
  intro r s who v md _ _
  simp only [upd, BodyOK, nodeHolds, heldMd, NodeInv, List.map_append, flatMd_append, wMd_append, List.map_cons,
    List.map_nil, flatMd_cons, flatMd_nil, List.append_nil]
  rc_arith

/-- splitting a buffer by a predicate splits what it holds -/
theorem wMd_filter_split {α : Type} (r : Nat) (f : α → Meta) (p q : α → Bool) (hq : ∀ x, q x = !p x) (l : List α) :
    wMd r (flatMd ((l.filter p).map f)) + wMd r (flatMd ((l.filter q).map f)) = wMd r (flatMd (l.map f)) := by
  induction l with
  | nil => simp
  | cons a as ih =>
    simp only [List.filter_cons, hq a, List.map_cons, flatMd_cons, wMd_append]
    cases p a <;> simp <;> omega

theorem kindOK_partition (n : Nat) (key : Option Fn) : KindOK (.partition n key) := by
  intro r s who v md _ he
  revert he; simp only [upd]
  split
  · intro he; simp [raise] at he
  · next ky _ =>
    split
    · intro he; simp [raise] at he
    · split
      · intro _
        have hsplit := wMd_filter_split r (fun it : Val × Val × Meta => it.2.2) (fun it => decide (it.1 = ky))
          (fun it => decide (it.1 ≠ ky)) (by intro x; simp) (s.items ++ [(ky, v, md)])
        simp only [BodyOK, nodeHolds, heldMd, NodeInv, List.map_append, flatMd_append, wMd_append, List.map_cons,
          List.map_nil, flatMd_cons, flatMd_nil, List.append_nil] at hsplit ⊢
        rc_arith
      · intro _
        simp only [BodyOK, nodeHolds, heldMd, NodeInv, List.map_append, flatMd_append, wMd_append, List.map_cons,
          List.map_nil, flatMd_cons, flatMd_nil, List.append_nil]
        rc_arith


theorem nodeHolds_simple {k : Kind} (h : heldMd k = fun _ => []) (s : NState) (r : Nat) : nodeHolds k s r = 0 := by
  simp [nodeHolds, h]

theorem kindOK_source : KindOK .source := by
  intro r s who v md _ _
  simp [upd, BodyOK, nodeHolds, heldMd]
theorem kindOK_union : KindOK .union := by
  intro r s who v md _ _
  simp [upd, BodyOK, nodeHolds, heldMd]
theorem kindOK_sink (m : SinkMode) : KindOK (.sink m) := by
  intro r s who v md _ _
  simp [upd, BodyOK, nodeHolds, heldMd]
theorem kindOK_map (f : Fn) : KindOK (.map f) := by
  intro r s who v md _ he
  simp only [upd] at he ⊢
  split at he
  · simp [BodyOK, nodeHolds, heldMd]
  · simp [raise] at he


local macro "rc_simple" : tactic =>
  `(tactic| (intro he; first | (simp [raise] at he; done) | simp [BodyOK, nodeHolds, heldMd, NodeInv]))

theorem kindOK_starmap (f : Fn) : KindOK (.starmap f) := by
  intro r s who v md _ he
  revert he; simp only [upd]
  split
  · split <;> rc_simple
  · rc_simple
theorem kindOK_filter (f : Fn) : KindOK (.filter f) := by
  intro r s who v md _ he
  revert he; simp only [upd]
  split
  · split <;> rc_simple
  · rc_simple
theorem kindOK_accumulate (f : Fn2) (st : Option Val) (a b : Bool) : KindOK (.accumulate f st a b) := by
  intro r s who v md _ he
  revert he; simp only [upd]
  split
  · rc_simple
  · split
    · rc_simple
    · split
      · split <;> rc_simple
      · rc_simple
theorem kindOK_slice (a : Nat) (b : Option Nat) (c : Nat) : KindOK (.slice a b c) := by
  intro r s who v md _ he
  simp only [upd]
  split <;> split <;> simp [BodyOK, nodeHolds, heldMd, NodeInv] <;> split <;> simp [BodyOK, nodeHolds, heldMd]
theorem kindOK_unique (a : Option Nat) (f : Fn) (b : Bool) : KindOK (.unique a f b) := by
  intro r s who v md _ he
  revert he; simp only [upd]
  split
  · rc_simple
  · split
    · rc_simple
    · split <;> rc_simple
theorem bodyOK_emitAllButLast (r : Nat) (s : NState) (l : List Val) (md : Meta) :
    BodyOK .flatten r (wMd r md : Int) (emitAllButLast l md) s 0 := by
  induction l with
  | nil => simp [emitAllButLast, BodyOK, nodeHolds, heldMd]
  | cons x t ih =>
    cases t with
    | nil => simp [emitAllButLast, BodyOK, nodeHolds, heldMd]
    | cons y t =>
      simp only [emitAllButLast, BodyOK]
      refine ⟨by simp [nodeHolds, heldMd], by simp, ih⟩
theorem kindOK_flatten : KindOK .flatten := by
  intro r s who v md _ he
  revert he; simp only [upd]
  split
  · rc_simple
  · next l _ =>
    intro _
    have := bodyOK_emitAllButLast r s l md
    simpa [nodeHolds, heldMd] using this
theorem kindOK_pluck (p : Pick) : KindOK (.pluck p) := by
  intro r s who v md _ he
  cases p with
  | idx i =>
    revert he; simp only [upd]
    split <;> rc_simple
  | idxs l =>
    revert he; simp only [upd]
    split <;> rc_simple


theorem kindOK_slidingWindow (n : Nat) (part : Bool) : KindOK (.slidingWindow n part) := by
  intro r s who v md hI _
  simp only [NodeInv] at hI
  obtain ⟨h1, h2⟩ := hI
  have hdrop : s.items.length + 1 - n = 0 := by omega
  simp only [upd, hdrop, List.drop_zero]
  split
  · next hc =>
    simp only [List.length_drop, List.length_append, List.length_cons, List.length_nil] at hc
    split
    · next hlen =>
      simp only [List.length_append, List.length_cons, List.length_nil] at hlen
      rcases hit : s.items with _ | ⟨h0, t0⟩
      · simp only [hit, List.length_nil, List.length_cons, List.nil_append, List.cons_append, BodyOK, nodeHolds,
          heldMd, NodeInv, List.map_append, flatMd_append, wMd_append, List.map_cons, List.map_nil, flatMd_cons,
          flatMd_nil, List.append_nil, wMd_nil, List.length_drop, List.length_append] at *
        cases part <;> simp at hc h2 ⊢ <;> rc_arith
      · simp only [hit, List.length_nil, List.length_cons, List.nil_append, List.cons_append, BodyOK, nodeHolds,
          heldMd, NodeInv, List.map_append, flatMd_append, wMd_append, List.map_cons, List.map_nil, flatMd_cons,
          flatMd_nil, List.append_nil, wMd_nil, List.length_drop, List.length_append] at *
        cases part <;> simp at hc h2 ⊢ <;> rc_arith
    · next hlen =>
      simp only [List.length_append, List.length_cons, List.length_nil] at hlen
      simp only [List.length_nil, List.length_cons, List.nil_append, List.cons_append, BodyOK, nodeHolds,
          heldMd, NodeInv, List.map_append, flatMd_append, wMd_append, List.map_cons, List.map_nil, flatMd_cons,
          flatMd_nil, List.append_nil, wMd_nil, List.length_drop, List.length_append] at *
      cases part <;> simp at hc h2 ⊢ <;> rc_arith
  · next hc =>
    simp only [List.length_drop, List.length_append, List.length_cons, List.length_nil] at hc
    simp only [List.length_nil, List.length_cons, List.nil_append, List.cons_append, BodyOK, nodeHolds,
          heldMd, NodeInv, List.map_append, flatMd_append, wMd_append, List.map_cons, List.map_nil, flatMd_cons,
          flatMd_nil, List.append_nil, wMd_nil, List.length_drop, List.length_append] at *
    cases part <;> simp at hc h2 ⊢ <;> rc_arith


theorem idxOf_lt {l : List NodeId} {x : NodeId} {i : Nat} (h : idxOf l x = some i) : i < l.length := by
  unfold idxOf at h
  simp only [] at h
  split at h
  · cases h; assumption
  · cases h

/-- replacing slot `i` of a slot list: what is held changes by (new − old) -/
theorem wMd_set (r : Nat) (l : List Meta) (i : Nat) (md : Meta) (h : i < l.length) :
    wMd r (flatMd (l.set i md)) + wMd r (l.getD i []) = wMd r (flatMd l) + wMd r md := by
  induction l generalizing i with
  | nil => simp at h
  | cons a as ih =>
    cases i with
    | zero => simp; omega
    | succ j =>
      have := ih j (by simpa using h)
      simp only [List.set_cons_succ, flatMd_cons, wMd_append, List.getD_cons_succ] at this ⊢
      omega

theorem kindOK_combineLatest (eo : Option (List NodeId)) : KindOK (.combineLatest eo) := by
  intro r s who v md hI he
  simp only [NodeInv] at hI
  revert he; simp only [upd]
  split
  · intro he; simp [raise] at he
  · next idx hidx =>
    intro _
    have hlt : idx < s.lastMd.length := by rw [hI]; exact idxOf_lt hidx
    have hset := wMd_set r s.lastMd idx md hlt
    by_cases hE : (s.lastMd.getD idx []).isEmpty = true
    · have h0 := wMd_of_isEmpty (r := r) hE
      simp only [hE, if_true]
      split <;>
        simp only [List.cons_append, List.nil_append, List.append_nil, BodyOK, nodeHolds, heldMd, NodeInv,
          List.length_set] <;> rc_arith
    · simp only [hE, Bool.false_eq_true, if_false]
      split <;>
        simp only [List.cons_append, List.nil_append, List.append_nil, BodyOK, nodeHolds, heldMd, NodeInv,
          List.length_set] <;> rc_arith




theorem drop_one_set_zero (l : List Meta) (m : Meta) : (l.set 0 m).drop 1 = l.drop 1 := by
  cases l <;> simp
theorem drop_one_set_succ (l : List Meta) (j : Nat) (m : Meta) : (l.set (j + 1) m).drop 1 = (l.drop 1).set j m := by
  cases l <;> simp
theorem getD_succ_drop_one (l : List Meta) (j : Nat) : l.getD (j + 1) [] = (l.drop 1).getD j [] := by
  cases l <;> simp
theorem wMd_set_zero_le (r : Nat) (l : List Meta) (m : Meta) :
    wMd r (flatMd (l.set 0 m)) ≤ wMd r m + wMd r (flatMd (l.drop 1)) := by
  cases l <;> simp

theorem BodyOK.cast {k : Kind} {r : Nat} {mIn : Int} {es : List Eff} {s : NState} {c c' : Int}
    (h : BodyOK k r mIn es s c) (e : c = c') : BodyOK k r mIn es s c' := e ▸ h

theorem BodyOK.of_eq {k : Kind} {r : Nat} {mIn : Int} {es : List Eff} {s : NState} {c c' : Int}
    (e : c = c') (h : BodyOK k r mIn es s c) : BodyOK k r mIn es s c' := e ▸ h

theorem bodyOK_drain (r : Nat) (mIn : Int) (hm : 0 ≤ mIn) (L : List (Val × Meta)) :
    ∀ st : NState, st.lossless = L → st.lastMd.length = st.ups.length →
      BodyOK .zipLatest r mIn (upd.drain L st) st (nodeHolds .zipLatest st r : Int) := by
  induction L with
  | nil =>
    intro st hL hlen
    simp only [upd.drain, BodyOK, NodeInv]
    refine ⟨?_, ?_⟩ <;> first | trivial | rfl | exact hlen
  | cons a rest ih =>
    intro st hL hlen
    obtain ⟨v, m⟩ := a
    have h4 := wMd_set_zero_le r st.lastMd m
    have := ih { st with lossless := rest, last := st.last.set 0 v, lastMd := st.lastMd.set 0 m } rfl
      (by simpa using hlen)
    simp only [upd.drain, List.cons_append, List.nil_append, BodyOK, nodeHolds, heldMd, hL, List.map_cons,
      flatMd_cons, wMd_append, drop_one_set_zero] at this ⊢
    refine ⟨by omega, by intro _; omega, by omega, ?_⟩
    exact this.cast (by omega)

theorem kindOK_zipLatest : KindOK .zipLatest := by
  intro r s who v md hI he
  simp only [NodeInv] at hI
  revert he; simp only [upd]
  split
  · intro he; simp [raise] at he
  · next idx hidx =>
    intro _
    have hlt : idx < s.lastMd.length := by rw [hI]; exact idxOf_lt hidx
    cases idx with
    | zero =>
      simp only [decide_true, Bool.not_true, Bool.false_eq_true, false_and, if_false, if_true]
      split
      · simp only [List.cons_append, List.nil_append, List.append_nil, BodyOK]
        refine ⟨by intro _; simp only [nodeHolds]; omega, ?_⟩
        refine BodyOK.of_eq ?_ (bodyOK_drain r _ (Int.natCast_nonneg _) _ _ rfl (by simpa using hI))
        simp only [nodeHolds, heldMd, drop_one_set_zero, List.map_append, flatMd_append, wMd_append, List.map_cons,
          List.map_nil, flatMd_cons, flatMd_nil, List.append_nil]
        omega
      · simp only [List.cons_append, List.nil_append, List.append_nil, BodyOK, nodeHolds, heldMd, NodeInv,
          drop_one_set_zero, List.map_append, flatMd_append, wMd_append, List.map_cons,
          List.map_nil, flatMd_cons, flatMd_nil, List.length_set]
        rc_arith
    | succ j =>
      simp only [Nat.add_eq_zero_iff, Nat.succ_ne_self, and_false, decide_false, Bool.not_false, true_and, if_false]
      have hset := wMd_set r (s.lastMd.drop 1) j md (by simp only [List.length_drop]; omega)
      rw [← getD_succ_drop_one] at hset
      by_cases hE : (s.lastMd.getD (j + 1) []).isEmpty = true
      · have h0 := wMd_of_isEmpty (r := r) hE
        simp only [hE, Bool.not_true, Bool.false_eq_true, if_false]
        split
        · simp only [List.cons_append, List.nil_append, List.append_nil, BodyOK]
          refine ⟨by intro _; simp only [nodeHolds]; omega, ?_⟩
          refine BodyOK.of_eq ?_ (bodyOK_drain r _ (Int.natCast_nonneg _) _ _ rfl (by simpa using hI))
          simp only [nodeHolds, heldMd, drop_one_set_succ, wMd_append]
          omega
        · simp only [List.cons_append, List.nil_append, List.append_nil, BodyOK, nodeHolds, heldMd, NodeInv,
            drop_one_set_succ, wMd_append, List.length_set]
          rc_arith
      · simp only [hE, Bool.not_false, if_true]
        split
        · simp only [List.cons_append, List.nil_append, List.append_nil, BodyOK]
          refine ⟨by intro _; simp only [nodeHolds]; omega, ?_, ?_⟩
          · simp only [nodeHolds, heldMd, wMd_append]; omega
          refine BodyOK.of_eq ?_ (bodyOK_drain r _ (Int.natCast_nonneg _) _ _ rfl (by simpa using hI))
          simp only [nodeHolds, heldMd, drop_one_set_succ, wMd_append]
          omega
        · simp only [List.cons_append, List.nil_append, List.append_nil, BodyOK, nodeHolds, heldMd, NodeInv,
            drop_one_set_succ, wMd_append, List.length_set]
          rc_arith



theorem find_none_notin {l : List (Val × Val × Meta)} {ky : Val} (h : l.find? (fun it => decide (it.1 = ky)) = none) :
    ky ∉ l.map (·.1) := by
  intro hm
  obtain ⟨it, hit, rfl⟩ := List.mem_map.1 hm
  have := List.find?_eq_none.1 h it hit
  simp at this

theorem filter_eq_nil_of_find_none {l : List (Val × Val × Meta)} {ky : Val}
    (h : l.find? (fun it => decide (it.1 = ky)) = none) : l.filter (fun it => decide (it.1 = ky)) = [] := by
  rw [List.filter_eq_nil_iff]
  exact fun it hit => List.find?_eq_none.1 h it hit

theorem filter_eq_of_find_some {l : List (Val × Val × Meta)} {ky : Val} {it : Val × Val × Meta} (hn : (l.map (·.1)).Nodup)
    (h : l.find? (fun it => decide (it.1 = ky)) = some it) : l.filter (fun it => decide (it.1 = ky)) = [it] := by
  induction l with
  | nil => simp at h
  | cons a as ih =>
    simp only [List.map_cons, List.nodup_cons] at hn
    by_cases ha : a.1 = ky
    · simp only [List.find?_cons, ha, decide_true] at h
      cases h
      simp only [List.filter_cons, ha, decide_true, if_true, List.cons.injEq, true_and]
      rw [List.filter_eq_nil_iff]
      intro b hb hk
      simp only [decide_eq_true_eq] at hk
      exact hn.1 (List.mem_map.2 ⟨b, hb, by rw [hk, ha]⟩)
    · simp only [List.find?_cons, ha, decide_false] at h
      simp only [List.filter_cons, ha, decide_false]
      exact ih hn.2 h

theorem nodup_filter_snoc {l : List (Val × Val × Meta)} (ky x : Val) (md : Meta) (hn : (l.map (·.1)).Nodup) :
    ((l.filter (fun it => decide (it.1 ≠ ky)) ++ [(ky, x, md)]).map (·.1)).Nodup := by
  simp only [List.map_append, List.map_cons, List.map_nil]
  rw [List.nodup_append]
  refine ⟨(hn.sublist (List.Sublist.map _ List.filter_sublist)), by simp, ?_⟩
  intro a ha b hb
  simp only [List.mem_cons, List.not_mem_nil, or_false] at hb
  subst hb
  obtain ⟨it, hit, rfl⟩ := List.mem_map.1 ha
  have := (List.mem_filter.1 hit).2
  simpa using this

theorem nodup_snoc_of_notin {l : List (Val × Val × Meta)} (ky x : Val) (md : Meta) (hn : (l.map (·.1)).Nodup)
    (h : ky ∉ l.map (·.1)) : ((l ++ [(ky, x, md)]).map (·.1)).Nodup := by
  simp only [List.map_append, List.map_cons, List.map_nil]
  rw [List.nodup_append]
  refine ⟨hn, by simp, ?_⟩
  intro a ha b hb
  simp only [List.mem_cons, List.not_mem_nil, or_false] at hb
  subst hb
  intro e; subst e; exact h ha


theorem kindOK_partitionUnique (n : Nat) (key : Fn) (keepLast : Bool) : KindOK (.partitionUnique n key keepLast) := by
  intro r s who v md hI he
  simp only [NodeInv] at hI
  revert he; simp only [upd]
  split
  · intro he; simp [raise] at he
  · next ky _ =>
    split
    · intro he; simp [raise] at he
    · intro he; clear he
      have hsplit := wMd_filter_split r (fun it : Val × Val × Meta => it.2.2) (fun it => decide (it.1 = ky))
          (fun it => decide (it.1 ≠ ky)) (by intro x; simp) s.items
      cases hp : s.items.find? (fun it => decide (it.1 = ky)) with
      | none =>
        rw [filter_eq_nil_of_find_none hp] at hsplit
        have hN1 := nodup_filter_snoc ky v md hI
        have hN2 := nodup_snoc_of_notin ky v md hI (find_none_notin hp)
        cases keepLast <;> simp only [if_true, if_false, Bool.false_eq_true] <;> split <;>
          simp only [List.cons_append, List.nil_append, List.append_nil, BodyOK, nodeHolds, heldMd, NodeInv,
            List.map_append, flatMd_append, wMd_append, List.map_cons, List.map_nil, flatMd_cons, flatMd_nil,
            wMd_nil, List.nodup_nil] at hsplit hN1 hN2 ⊢ <;>
          rc_arith
      | some it =>
        rw [filter_eq_of_find_some hI hp] at hsplit
        have hN1 := nodup_filter_snoc ky v md hI
        cases keepLast with
        | false =>
          simp only [if_true, if_false, Bool.false_eq_true] <;> split <;>
          simp only [List.cons_append, List.nil_append, List.append_nil, BodyOK, nodeHolds, heldMd, NodeInv,
            List.map_append, flatMd_append, wMd_append, List.map_cons, List.map_nil, flatMd_cons, flatMd_nil,
            wMd_nil, List.nodup_nil] at hsplit hN1 ⊢ <;>
          rc_arith
        | true =>
          by_cases hE : it.2.2.isEmpty = true
          · have h0 := wMd_of_isEmpty (r := r) hE
            simp only [if_true, if_false, Bool.false_eq_true, hE] <;> split <;>
            simp only [List.cons_append, List.nil_append, List.append_nil, BodyOK, nodeHolds, heldMd, NodeInv,
              List.map_append, flatMd_append, wMd_append, List.map_cons, List.map_nil, flatMd_cons, flatMd_nil,
              wMd_nil, List.nodup_nil] at hsplit hN1 ⊢ <;>
            rc_arith
          · simp only [if_true, if_false, Bool.false_eq_true, hE] <;> split <;>
            simp only [List.cons_append, List.nil_append, List.append_nil, BodyOK, nodeHolds, heldMd, NodeInv,
              List.map_append, flatMd_append, wMd_append, List.map_cons, List.map_nil, flatMd_cons, flatMd_nil,
              wMd_nil, List.nodup_nil] at hsplit hN1 ⊢ <;>
            rc_arith


/-- what a list of zip buffers holds -/
def bufsMd (bufs : List (NodeId × List (Val × Meta))) : Meta :=
  flatMd (bufs.map (fun b => flatMd (b.2.map (·.2))))

theorem filterMap_congr' {α β : Type} {l : List α} {f g : α → Option β} (h : ∀ x ∈ l, f x = g x) :
    l.filterMap f = l.filterMap g := by
  induction l with
  | nil => rfl
  | cons a as ih =>
    simp only [List.filterMap_cons, h a (by simp)]
    rw [ih (fun x hx => h x (by simp [hx]))]

theorem bufs_push_keys (bufs : List (NodeId × List (Val × Meta))) (who : NodeId) (L' : List (Val × Meta)) :
    (bufs.map (fun b => if b.1 = who then (b.1, L') else b)).map (·.1) = bufs.map (·.1) := by
  induction bufs with
  | nil => rfl
  | cons b bs ih =>
    simp only [List.map_cons, ih]
    split <;> rfl

theorem bufs_push_w (r : Nat) (bufs : List (NodeId × List (Val × Meta))) (who k : NodeId) (L : List (Val × Meta))
    (x : Val) (md : Meta) (hn : (bufs.map (·.1)).Nodup)
    (hf : bufs.find? (fun b => decide (b.1 = who)) = some (k, L)) :
    wMd r (bufsMd (bufs.map (fun b => if b.1 = who then (b.1, L ++ [(x, md)]) else b)))
      = wMd r (bufsMd bufs) + wMd r md := by
  induction bufs with
  | nil => simp at hf
  | cons b bs ih =>
    simp only [List.map_cons, List.nodup_cons] at hn
    obtain ⟨k0, L0⟩ := b
    by_cases hb : k0 = who
    · have hkL : (k0, L0) = (k, L) := by simpa [List.find?_cons, hb] using hf
      cases hkL
      have hrest : bs.map (fun b => if b.1 = who then (b.1, L ++ [(x, md)]) else b) = bs := by
        conv => rhs; rw [← List.map_id bs]
        apply List.map_congr_left
        intro c hc
        have : c.1 ≠ who := fun e => hn.1 (List.mem_map.2 ⟨c, hc, by simp [e, hb]⟩)
        simp [this]
      have hite : (if (k, L).1 = who then ((k, L).1, L ++ [(x, md)]) else (k, L)) = (k, L ++ [(x, md)]) := by
        simp [hb]
      simp only [List.map_cons, hite, hrest, bufsMd, flatMd_cons, wMd_append, List.map_append, flatMd_append,
        List.map_nil, flatMd_nil, List.append_nil]
      omega
    · simp only [List.find?_cons, hb, decide_false] at hf
      have := ih hn.2 hf
      simp only [bufsMd, List.map_cons, hb, if_false, flatMd_cons, wMd_append] at this ⊢
      omega

theorem bufs_heads_tails_w (r : Nat) (bufs : List (NodeId × List (Val × Meta))) :
    wMd r (flatMd ((bufs.filterMap (·.2.head?)).map (·.2))) + wMd r (bufsMd (bufs.map (fun b => (b.1, b.2.tail))))
      = wMd r (bufsMd bufs) := by
  induction bufs with
  | nil => rfl
  | cons b bs ih =>
    obtain ⟨k, L⟩ := b
    cases L with
    | nil =>
      simp only [bufsMd, List.filterMap_cons, List.head?_nil, List.map_cons, List.tail_nil, List.map_nil,
        flatMd_nil, flatMd_cons, List.nil_append] at ih ⊢
      exact ih
    | cons a as =>
      simp only [bufsMd, List.filterMap_cons, List.head?_cons, List.map_cons, List.tail_cons,
        flatMd_cons, wMd_append] at ih ⊢
      omega

theorem bufs_lookup_heads (bufs : List (NodeId × List (Val × Meta))) (hn : (bufs.map (·.1)).Nodup) :
    (bufs.map (·.1)).filterMap (fun u => (bufs.find? (fun b => decide (b.1 = u))).bind (·.2.head?))
      = bufs.filterMap (·.2.head?) := by
  induction bufs with
  | nil => rfl
  | cons b bs ih =>
    simp only [List.map_cons, List.nodup_cons] at hn
    have hcongr : (bs.map (·.1)).filterMap (fun u => ((b :: bs).find? (fun c => decide (c.1 = u))).bind (·.2.head?))
        = (bs.map (·.1)).filterMap (fun u => (bs.find? (fun c => decide (c.1 = u))).bind (·.2.head?)) := by
      apply filterMap_congr'
      intro u hu
      have : b.1 ≠ u := fun e => hn.1 (e ▸ hu)
      simp [List.find?_cons, this]
    simp only [List.map_cons, List.filterMap_cons]
    rw [hcongr, ih hn.2]
    simp [List.find?_cons]

theorem nodeHolds_zip (lits : List (Nat × Val)) (s : NState) (r : Nat) :
    nodeHolds (.zip lits) s r = wMd r (bufsMd s.bufs) := rfl

theorem kindOK_zip (lits : List (Nat × Val)) : KindOK (.zip lits) := by
  intro r s who v md hI he
  simp only [NodeInv] at hI
  obtain ⟨hup, hkeys⟩ := hI
  revert he; simp only [upd]
  split
  · intro he; simp [raise] at he
  · next k L hf =>
    intro he; clear he
    have hn : (s.bufs.map (·.1)).Nodup := by rw [hkeys]; exact hup
    have hpush := bufs_push_w r s.bufs who k L v md hn hf
    have hk1 := bufs_push_keys s.bufs who (L ++ [(v, md)])
    split
    · have hn1 : ((s.bufs.map (fun b => if b.1 = who then (b.1, L ++ [(v, md)]) else b)).map (·.1)).Nodup := by
        rw [hk1]; exact hn
      have hheads := bufs_lookup_heads _ hn1
      rw [hk1, hkeys] at hheads
      have hht := bufs_heads_tails_w r (s.bufs.map (fun b => if b.1 = who then (b.1, L ++ [(v, md)]) else b))
      simp only [BodyOK, nodeHolds_zip, NodeInv, hheads]
      refine ⟨by intro _; omega, by omega, by intro _; omega, by omega, by omega, hup, ?_⟩
      rw [List.map_map]
      exact hk1.trans hkeys
    · simp only [BodyOK, nodeHolds_zip, NodeInv]
      refine ⟨by intro _; omega, by omega, hup, hk1.trans hkeys⟩

/-- **Every node kind of the model keeps the books.** -/
theorem kindOK_all (k : Kind) : KindOK k := by
  cases k with
  | source => exact kindOK_source
  | union => exact kindOK_union
  | map f => exact kindOK_map f
  | starmap f => exact kindOK_starmap f
  | filter p => exact kindOK_filter p
  | accumulate f st a b => exact kindOK_accumulate f st a b
  | slice a b c => exact kindOK_slice a b c
  | partition n key => exact kindOK_partition n key
  | partitionUnique n key kl => exact kindOK_partitionUnique n key kl
  | slidingWindow n p => exact kindOK_slidingWindow n p
  | unique a f b => exact kindOK_unique a f b
  | flatten => exact kindOK_flatten
  | pluck p => exact kindOK_pluck p
  | collect => exact kindOK_collect
  | zip l => exact kindOK_zip l
  | combineLatest eo => exact kindOK_combineLatest eo
  | zipLatest => exact kindOK_zipLatest
  | sink m => exact kindOK_sink m

/-! ### 5. Balance over `Run` -/

/-- What a completed call does to `excess r`, per call kind. -/
def BalP (nodes : List NodeId) (r : Nat) : Call → State → State → Prop
  | .emit n _ _, S, S' => excess G nodes S' r = excess G nodes S r ∧ InvFrom G nodes (n + 1) S'
  | .deliver ds n _ md, S, S' =>
      excess G nodes S' r = excess G nodes S r - (ds.length : Int) * (wMd r md : Int) ∧ InvFrom G nodes (n + 1) S'
  | .update d _ _ _, S, S' => excess G nodes S' r = excess G nodes S r ∧ InvFrom G nodes d S'
  | .effs d es, S, S' => ∀ (c mIn : Int), BodyOK (G d) r mIn es (S.loc d) c →
      excess G nodes S' r = excess G nodes S r + (nodeHolds (G d) (S.loc d) r : Int) - c ∧ InvFrom G nodes d S'

theorem run_bal {nodes : List NodeId} (hn : nodes.Nodup) (hK : ∀ i ∈ nodes, KindOK (G i)) (r : Nat)
    {c : Call} {S S' : State} {l : List Ev} {t : List Tok} (h : Run G c S S' l t) :
    WF nodes S → CallIn nodes c → InvFrom G nodes (callLo c) S → BalP G nodes r c S S' := by
  induction h with
  | @emit n v md S S' l t _ ih =>
    intro hW hC hI
    have hW1 : WF nodes (emitPre S n md).1 := hW.of_eq (by simp)
    obtain ⟨e, hI'⟩ := ih hW1 (fun d hd => ⟨hW.closed n hC d hd, hW.acyclic n d hd⟩) (hI.of_eq G (by simp))
    refine ⟨?_, hI'⟩
    rw [e, excess_emitPre]
    simp only [Int.natCast_mul]; omega
  | dnil => intro _ _ hI; exact ⟨by simp, hI⟩
  | @dcons d ds n v md S S1 l1 t1 S2 l2 t2 h1 _ ih1 ih2 =>
    intro hW hC hI
    have hd := hC d (by simp)
    obtain ⟨e1, hI1⟩ := ih1 hW hd.1 (hI.mono G (by have := hd.2; simp only [callLo]; unfold NodeId at *; omega))
    have hW1 : WF nodes (releaseMd md S1).1 := (hW.run G h1).of_eq (by simp)
    have hI1' : InvFrom G nodes (n + 1) (releaseMd md S1).1 := by
      intro i hi hl
      rw [releaseMd_loc]
      by_cases hid : i < d
      · rw [run_update_loc_below G h1 hW.acyclic hid]; exact hI i hi hl
      · exact hI1 i hi (by unfold NodeId at *; omega)
    obtain ⟨e2, hI2⟩ := ih2 hW1 (fun x hx => hC x (by simp [hx])) hI1'
    refine ⟨?_, hI2⟩
    rw [e2, excess_releaseMd, e1]
    simp only [List.length_cons, Int.natCast_add, Int.add_mul]; omega
  | @sink d who v md S m hm he =>
    intro _ _ hI
    exact ⟨sinkRes_excess G nodes m d who v md S r, hI.of_eq G (sinkRes_loc m d who v md S)⟩
  | @upd d who v md S S' l t hs hu _ ih =>
    intro hW hC hI
    have hb := hK d hC r (S.loc d) who v md (hI d hC (Nat.le_refl _)) hu
    obtain ⟨e, hI'⟩ := ih hW hC (hI.mono G (by simp [callLo])) _ _ hb
    exact ⟨by rw [e]; omega, hI'⟩
  | @enil d S =>
    intro _ hC hI c mIn hb
    simp only [BodyOK] at hb
    refine ⟨by rw [hb.1]; omega, ?_⟩
    intro i hi hl
    by_cases e : i = d
    · subst e; exact hb.2
    · exact hI i hi (by simp only [callLo]; unfold NodeId at *; omega)
  | @eretain d md es S S' l t _ ih =>
    intro hW hC hI c mIn hb
    simp only [BodyOK] at hb
    have hW1 : WF nodes (retainMd 1 md S).1 := hW.of_eq (by simp)
    have := ih hW1 hC (hI.of_eq G (by simp)) (c + (wMd r md : Int)) mIn (by simpa using hb.2)
    refine ⟨?_, this.2⟩
    rw [this.1, excess_retainMd]; simp only [retainMd_loc, Nat.one_mul]; omega
  | @erelease d md es S S' l t _ ih =>
    intro hW hC hI c mIn hb
    simp only [BodyOK] at hb
    have hW1 : WF nodes (releaseMd md S).1 := hW.of_eq (by simp)
    have := ih hW1 hC (hI.of_eq G (by simp)) (c - (wMd r md : Int)) mIn (by simpa using hb.2)
    refine ⟨?_, this.2⟩
    rw [this.1, excess_releaseMd]; simp only [releaseMd_loc]; omega
  | @eset d s es S S' l t _ ih =>
    intro hW hC hI c mIn hb
    simp only [BodyOK] at hb
    have hI1 : InvFrom G nodes (d + 1) (S.setLoc d s) := by
      intro i hi hl
      rw [setLoc_other S s (by unfold NodeId at *; omega)]; exact hI i hi hl
    have := ih (hW.of_eq rfl) hC hI1 c mIn (by simpa using hb)
    refine ⟨?_, this.2⟩
    have e := excess_setLoc G S d s r hn hC
    rw [this.1, setLoc_same]; omega
  | @edetach d es S S' l t _ ih =>
    intro hW hC hI c mIn hb
    simp only [BodyOK] at hb
    have hW1 : WF nodes (detachNode d S) := hW.of_sublist (detachNode_downs d S)
    have := ih hW1 hC (hI.of_eq G (by simp)) c mIn (by simpa using hb)
    refine ⟨?_, this.2⟩
    rw [this.1, excess_detachNode, detachNode_loc]
  | @eemit d v md es S S1 l1 t1 S2 l2 t2 h1 _ ih1 ih2 =>
    intro hW hC hI c mIn hb
    simp only [BodyOK] at hb
    obtain ⟨e1, hI1⟩ := ih1 hW hC hI
    have hl := run_emit_loc_self G h1 hW.acyclic (Nat.le_refl d)
    have := ih2 (hW.run G h1) hC hI1 c mIn (by rw [hl]; exact hb.2.2)
    refine ⟨?_, this.2⟩
    rw [this.1, e1, hl]
  | @eetr d v md es S S1 l1 t1 S2 l2 t2 h1 _ ih1 ih2 =>
    intro hW hC hI c mIn hb
    simp only [BodyOK] at hb
    obtain ⟨e1, hI1⟩ := ih1 hW hC hI
    have hl := run_emit_loc_self G h1 hW.acyclic (Nat.le_refl d)
    have hW1' : WF nodes (etrPost md t1 S1).1 := (hW.run G h1).of_eq (by simp)
    have := ih2 hW1' hC (hI1.of_eq G (by simp)) (c - (wMd r md : Int)) mIn
      (by simp only [etrPost_loc]; rw [hl]; exact hb.2.2.2)
    refine ⟨?_, this.2⟩
    rw [this.1, excess_etrPost, e1, etrPost_loc, hl]; omega

/-! ### 6. The log view -/

/-- what one event does to the counter of `r` -/
def evNet (r : Nat) : Ev → Int
  | .retain q k => if q = r then (k : Int) else 0
  | .release q => if q = r then -1 else 0
  | _ => 0

/-- net change of the counter of `r` over a log -/
def logNet (r : Nat) : List Ev → Int
  | [] => 0
  | e :: l => evNet r e + logNet r l

@[simp] theorem logNet_nil (r : Nat) : logNet r [] = 0 := rfl
@[simp] theorem logNet_cons (r : Nat) (e : Ev) (l : List Ev) : logNet r (e :: l) = evNet r e + logNet r l := rfl
@[simp] theorem logNet_append (r : Nat) (a b : List Ev) : logNet r (a ++ b) = logNet r a + logNet r b := by
  induction a with
  | nil => simp
  | cons e a ih => simp [ih]; omega

def isFire (r : Nat) : Ev → Bool
  | .fire q => q == r
  | _ => false

/-- does the callback have to be scheduled right after this event? (`release` leaving the count `≤ 0`) -/
def expNext (r : Nat) (c : Int) : Ev → Bool
  | .release q => q == r && decide (c - 1 ≤ 0)
  | _ => false

/-- `fire r` events occur exactly right after a `release r` that left the count `≤ 0`
(`exp`: is a `fire r` due now; `c`: the count before the head event) -/
def FireOK (r : Nat) : Bool → Int → List Ev → Prop
  | exp, _, [] => exp = false
  | exp, c, e :: l => isFire r e = exp ∧ FireOK r (expNext r c e) (c + evNet r e) l

theorem FireOK_append {r : Nat} {a b : List Ev} : ∀ {exp : Bool} {c : Int},
    FireOK r exp c a → FireOK r false (c + logNet r a) b → FireOK r exp c (a ++ b) := by
  induction a with
  | nil => intro exp c h1 h2; simp only [FireOK] at h1; subst h1; simpa using h2
  | cons e a ih =>
    intro exp c h1 h2
    simp only [FireOK, List.cons_append] at h1 ⊢
    refine ⟨h1.1, ih h1.2 ?_⟩
    simpa [Int.add_assoc] using h2

theorem FireOK.of_eq {r : Nat} {exp : Bool} {c c' : Int} {l : List Ev} (e : c = c') (h : FireOK r exp c l) :
    FireOK r exp c' l := e ▸ h

theorem retainMd_log (r : Nat) (k : Nat) (md : Meta) (S : State) :
    (retainMd k md S).1.count r = S.count r + logNet r (retainMd k md S).2 ∧
      FireOK r false (S.count r) (retainMd k md S).2 := by
  induction md generalizing S with
  | nil => simp [retainMd, FireOK]
  | cons m ms ih =>
    unfold retainMd
    split
    · exact ih S
    · next q hq =>
      simp only []
      obtain ⟨i1, i2⟩ := ih { S with count := fun x => if x = q then S.count q + k else S.count x }
      simp only [logNet_cons, evNet, FireOK, isFire, expNext]
      by_cases h : q = r
      · subst h; simp only [if_true] at i1 i2 ⊢
        and_intros
        all_goals first | trivial | (rw [i1]; omega) | exact i2
      · have h' : ¬ r = q := fun e => h e.symm
        simp only [h, h', if_false] at i1 i2 ⊢
        and_intros
        all_goals first | trivial | (rw [i1]; omega) | exact FireOK.of_eq (by omega) i2

theorem releaseMd_log (r : Nat) (md : Meta) (S : State) :
    (releaseMd md S).1.count r = S.count r + logNet r (releaseMd md S).2 ∧
      FireOK r false (S.count r) (releaseMd md S).2 := by
  induction md generalizing S with
  | nil => simp [releaseMd, FireOK]
  | cons m ms ih =>
    unfold releaseMd
    split
    · exact ih S
    · next q hq =>
      simp only []
      obtain ⟨i1, i2⟩ := ih { S with count := fun x => if x = q then S.count q - 1 else S.count x }
      by_cases h : q = r
      · subst h
        simp only [if_true] at i1 i2
        split
        · next hle =>
          have hd : decide (S.count q - 1 ≤ 0) = true := by simpa using hle
          simp only [logNet_cons, evNet, FireOK, isFire, expNext, if_true, beq_self_eq_true, Bool.true_and, hd]
          and_intros
          all_goals first | trivial | (rw [i1]; omega) | exact FireOK.of_eq (by omega) i2
        · next hle =>
          have hd : decide (S.count q - 1 ≤ 0) = false := by simpa using hle
          simp only [logNet_cons, evNet, FireOK, isFire, expNext, if_true, beq_self_eq_true, Bool.true_and, hd]
          and_intros
          all_goals first | trivial | (rw [i1]; omega) | exact FireOK.of_eq (by omega) i2
      · have h' : ¬ r = q := fun e => h e.symm
        have hb : (q == r) = false := by simpa using h
        simp only [h', if_false] at i1 i2
        split
        · simp only [logNet_cons, evNet, FireOK, isFire, expNext, h, if_false, hb, Bool.false_and]
          and_intros
          all_goals first | trivial | (rw [i1]; omega) | exact FireOK.of_eq (by omega) i2
        · simp only [logNet_cons, evNet, FireOK, isFire, expNext, h, if_false, hb, Bool.false_and]
          and_intros
          all_goals first | trivial | (rw [i1]; omega) | exact FireOK.of_eq (by omega) i2


/-- the log accounts for the change of the counter, and `fire` events are where they must be -/
def LogOK (r : Nat) (c c' : Int) (l : List Ev) : Prop := c' = c + logNet r l ∧ FireOK r false c l

theorem LogOK.nil (r : Nat) (c : Int) : LogOK r c c [] := ⟨by simp, rfl⟩
theorem LogOK.append {r : Nat} {c c1 c2 : Int} {a b : List Ev} (h1 : LogOK r c c1 a) (h2 : LogOK r c1 c2 b) :
    LogOK r c c2 (a ++ b) :=
  ⟨by rw [h2.1, h1.1, logNet_append]; omega, FireOK_append h1.2 (h1.1 ▸ h2.2)⟩
theorem LogOK.cons {r : Nat} {c c' : Int} {e : Ev} {l : List Ev} (h0 : evNet r e = 0) (h1 : isFire r e = false)
    (h2 : expNext r c e = false) (h : LogOK r c c' l) : LogOK r c c' (e :: l) := by
  refine ⟨by rw [h.1, logNet_cons, h0]; omega, ?_⟩
  simp only [FireOK, h1, h2, h0, true_and]
  exact FireOK.of_eq (by omega) h.2

theorem emitPre_log (r : Nat) (S : State) (n : NodeId) (md : Meta) :
    LogOK r (S.count r) ((emitPre S n md).1.count r) (emitPre S n md).2 := by
  unfold emitPre
  split
  · exact LogOK.nil r _
  · exact retainMd_log r _ md S

theorem etrPost_log (r : Nat) (md : Meta) (toks : List Tok) (S : State) :
    LogOK r (S.count r) ((etrPost md toks S).1.count r) (etrPost md toks S).2 := by
  unfold etrPost
  split
  · exact releaseMd_log r md S
  · exact LogOK.nil r _

theorem sinkRes_logOK (r : Nat) (m : SinkMode) (d who : NodeId) (v : Val) (md : Meta) (S : State)
    (he : (sinkRes m d who v md S).err = none) :
    LogOK r (S.count r) ((sinkRes m d who v md S).st.count r) (sinkRes m d who v md S).log := by
  unfold sinkRes at he ⊢
  cases m with
  | sync fn =>
    simp only [] at he ⊢
    split
    · exact LogOK.cons rfl rfl rfl (LogOK.nil r _)
    · next e he' => rw [he'] at he; simp [Res.fail] at he
  | async =>
    simp only [List.cons_append, List.nil_append]
    refine LogOK.cons rfl rfl rfl (LogOK.cons rfl rfl rfl ?_)
    split
    · exact LogOK.nil r _
    · exact retainMd_log r 1 md S

/-- **The log is faithful** (no hypotheses): over any completed call the counter of `r` changes by exactly the
logged retains and releases, and `fire r` is logged exactly after a release that left the count `≤ 0`. -/
theorem run_log (r : Nat) {c : Call} {S S' : State} {l : List Ev} {t : List Tok} (h : Run G c S S' l t) :
    LogOK r (S.count r) (S'.count r) l := by
  induction h with
  | @emit n v md S S' l t _ ih =>
    exact LogOK.cons rfl rfl rfl ((emitPre_log r S n md).append ih)
  | dnil => exact LogOK.nil r _
  | @dcons d ds n v md S S1 l1 t1 S2 l2 t2 _ _ ih1 ih2 =>
    exact (ih1.append (releaseMd_log r md S1)).append ih2
  | @sink d who v md S m hm he => exact sinkRes_logOK r m d who v md S he
  | upd _ _ _ ih => exact LogOK.cons rfl rfl rfl ih
  | enil => exact LogOK.nil r _
  | @eretain d md es S S' l t _ ih => exact LogOK.append (retainMd_log r 1 md S) ih
  | @erelease d md es S S' l t _ ih => exact LogOK.append (releaseMd_log r md S) ih
  | eset _ ih => exact ih
  | @edetach d es S S' l t _ ih => rw [detachNode_eq] at ih; exact ih
  | eemit _ _ ih1 ih2 => exact ih1.append ih2
  | @eetr d v md es S S1 l1 t1 S2 l2 t2 _ _ ih1 ih2 =>
    exact (ih1.append (etrPost_log r md t1 S1)).append ih2

/-- a retain that really adds to the counter of `r` -/
def retPos (r : Nat) : Ev → Prop
  | .retain q k => q = r ∧ 0 < k
  | _ => False

/-- Along the log, starting from count `c`: the counter of `r` never becomes negative, and it is never raised
from zero (every retain that adds to it finds it positive). -/
def Safe (r : Nat) : Int → List Ev → Prop
  | _, [] => True
  | c, e :: l => 0 ≤ c + evNet r e ∧ (retPos r e → 0 < c) ∧ Safe r (c + evNet r e) l

theorem Safe.of_eq {r : Nat} {c c' : Int} {l : List Ev} (e : c = c') (h : Safe r c l) : Safe r c' l := e ▸ h

theorem Safe_append {r : Nat} {a b : List Ev} : ∀ {c : Int},
    Safe r c a → Safe r (c + logNet r a) b → Safe r c (a ++ b) := by
  induction a with
  | nil => intro c _ h2; simpa using h2
  | cons e a ih =>
    intro c h1 h2
    simp only [Safe, List.cons_append] at h1 ⊢
    exact ⟨h1.1, h1.2.1, ih h1.2.2 (h2.of_eq (by simp; omega))⟩

theorem Safe.cons {r : Nat} {c : Int} {e : Ev} {l : List Ev} (h0 : evNet r e = 0) (h1 : ¬ retPos r e)
    (hc : 0 ≤ c) (h : Safe r c l) : Safe r c (e :: l) := by
  simp only [Safe, h0]
  exact ⟨by omega, fun x => absurd x h1, h.of_eq (by omega)⟩

theorem Safe_retainMd (r k : Nat) (md : Meta) (S : State) (h0 : 0 ≤ S.count r)
    (h1 : 0 < k → 0 < wMd r md → 0 < S.count r) : Safe r (S.count r) (retainMd k md S).2 := by
  induction md generalizing S with
  | nil => simp [retainMd, Safe]
  | cons m ms ih =>
    unfold retainMd
    split
    · next hn =>
      refine ih S h0 (fun hk hw => h1 hk ?_)
      rw [wMd_cons]; omega
    · next q hq =>
      simp only []
      have i := ih { S with count := fun x => if x = q then S.count q + k else S.count x }
      simp only [Safe, evNet, retPos]
      by_cases h : q = r
      · subst h
        simp only [if_true] at i ⊢
        have hw : 0 < wMd q (m :: ms) := by rw [wMd_cons, hq]; simp
        refine ⟨by omega, fun hk => h1 hk.2 hw, i (by omega) (fun hk _ => ?_)⟩
        have := h1 hk hw; omega
      · have h' : ¬ r = q := fun e => h e.symm
        simp only [h, h', if_false, false_and] at i ⊢
        refine ⟨by omega, fun x => x.elim, (i h0 (fun hk hw => h1 hk ?_)).of_eq (by omega)⟩
        rw [wMd_cons]; omega

theorem Safe_releaseMd (r : Nat) (md : Meta) (S : State) (h : (wMd r md : Int) ≤ S.count r) :
    Safe r (S.count r) (releaseMd md S).2 := by
  induction md generalizing S with
  | nil => simp [releaseMd, Safe]
  | cons m ms ih =>
    unfold releaseMd
    split
    · next hn =>
      refine ih S ?_
      rw [wMd_cons] at h; omega
    · next q hq =>
      simp only []
      have i := ih { S with count := fun x => if x = q then S.count q - 1 else S.count x }
      rw [wMd_cons, hq] at h
      by_cases hqr : q = r
      · subst hqr
        simp only [if_true] at i h
        have i' := i (by omega)
        split <;> simp only [Safe, evNet, retPos, if_true] <;> and_intros <;>
          first | omega | (intro x; exact x.elim) | exact i'.of_eq (by omega)
      · have h' : ¬ r = q := fun e => hqr e.symm
        have hne : ¬ (some q = some r) := fun e => hqr (Option.some.inj e)
        simp only [h', if_false, hne] at i h
        have i' := i (by omega)
        split <;> simp only [Safe, evNet, retPos, hqr, if_false] <;> and_intros <;>
          first | omega | (intro x; exact x.elim) | exact i'.of_eq (by omega)

theorem run_bal' {nodes : List NodeId} (hn : nodes.Nodup) (r : Nat)
    {c : Call} {S S' : State} {l : List Ev} {t : List Tok} (h : Run G c S S' l t) :
    WF nodes S → CallIn nodes c → InvFrom G nodes (callLo c) S → BalP G nodes r c S S' :=
  run_bal G hn (fun i _ => kindOK_all (G i)) r h

theorem count_eq_excess (nodes : List NodeId) (S : State) (r : Nat) :
    S.count r = excess G nodes S r + (holders G nodes S r : Int) := by
  simp only [excess]; omega

theorem Safe_emitPre (r : Nat) (S : State) (n : NodeId) (md : Meta) (h0 : 0 ≤ S.count r)
    (h1 : 0 < wMd r md → S.downs n ≠ [] → 0 < S.count r) : Safe r (S.count r) (emitPre S n md).2 := by
  unfold emitPre
  split
  · trivial
  · refine Safe_retainMd r _ md S h0 (fun hk hw => h1 hw ?_)
    intro e; rw [e] at hk; simp at hk

theorem Safe_etrPost (r : Nat) (md : Meta) (toks : List Tok) (S : State) (h : (wMd r md : Int) ≤ S.count r) :
    Safe r (S.count r) (etrPost md toks S).2 := by
  unfold etrPost
  split
  · exact Safe_releaseMd r md S h
  · trivial

theorem Safe_sinkRes (r : Nat) (m : SinkMode) (d who : NodeId) (v : Val) (md : Meta) (S : State)
    (he : (sinkRes m d who v md S).err = none) (h : (wMd r md : Int) ≤ S.count r) :
    Safe r (S.count r) (sinkRes m d who v md S).log := by
  have h0 : 0 ≤ S.count r := by omega
  unfold sinkRes at he ⊢
  cases m with
  | sync fn =>
    simp only [] at he ⊢
    split
    · exact Safe.cons rfl (fun x => x) h0 trivial
    · next e he' => rw [he'] at he; simp [Res.fail] at he
  | async =>
    simp only [List.cons_append, List.nil_append]
    refine Safe.cons rfl (fun x => x) h0 (Safe.cons rfl (fun x => x) h0 ?_)
    split
    · trivial
    · exact Safe_retainMd r 1 md S h0 (fun _ hw => by omega)

/-- What is needed of the caller for the counter of `r` to stay safe during a call, per call kind. -/
def SafeP (nodes : List NodeId) (r : Nat) : Call → State → List Ev → Prop
  | .emit n _ md, S, l => 0 ≤ excess G nodes S r → (0 < wMd r md → S.downs n ≠ [] → 0 < S.count r) →
      Safe r (S.count r) l
  | .deliver ds _ _ md, S, l => (ds.length : Int) * (wMd r md : Int) ≤ excess G nodes S r → Safe r (S.count r) l
  | .update _ _ _ md, S, l => (wMd r md : Int) ≤ excess G nodes S r → Safe r (S.count r) l
  | .effs d es, S, l => ∀ (c mIn E0 : Int), BodyOK (G d) r mIn es (S.loc d) c → 0 ≤ c → 0 ≤ mIn → mIn ≤ E0 →
      excess G nodes S r = E0 + c - (nodeHolds (G d) (S.loc d) r : Int) → Safe r (S.count r) l

theorem run_safe {nodes : List NodeId} (hn : nodes.Nodup) (r : Nat)
    {c : Call} {S S' : State} {l : List Ev} {t : List Tok} (h : Run G c S S' l t) :
    WF nodes S → CallIn nodes c → InvFrom G nodes (callLo c) S → SafeP G nodes r c S l := by
  induction h with
  | @emit n v md S S' l t _ ih =>
    intro hW hC hI hE hpos
    have hc := count_eq_excess G nodes S r
    have h0 : 0 ≤ S.count r := by omega
    have hW1 : WF nodes (emitPre S n md).1 := hW.of_eq (by simp)
    have hpre := emitPre_log r S n md
    have ih' := ih hW1 (fun d hd => ⟨hW.closed n hC d hd, hW.acyclic n d hd⟩) (hI.of_eq G (by simp))
      (by rw [excess_emitPre]; simp only [Int.natCast_mul]; omega)
    exact Safe.cons rfl (fun x => x) h0 (Safe_append (Safe_emitPre r S n md h0 hpos) (ih'.of_eq hpre.1))
  | dnil => intro _ _ _ _; trivial
  | @dcons d ds n v md S S1 l1 t1 S2 l2 t2 h1 _ ih1 ih2 =>
    intro hW hC hI hE
    have hd := hC d (by simp)
    have hI0 : InvFrom G nodes d S := hI.mono G (by have := hd.2; simp only [callLo]; unfold NodeId at *; omega)
    simp only [List.length_cons, Int.natCast_add, Int.add_mul] at hE
    have hw0 : (0 : Int) ≤ (ds.length : Int) * (wMd r md : Int) := Int.mul_nonneg (by omega) (by omega)
    have s1 := ih1 hW hd.1 hI0 (by omega)
    obtain ⟨e1, hI1⟩ := run_bal' G hn r h1 hW hd.1 hI0
    have hW1 : WF nodes (releaseMd md S1).1 := (hW.run G h1).of_eq (by simp)
    have hI1' : InvFrom G nodes (n + 1) (releaseMd md S1).1 := by
      intro i hi hl
      rw [releaseMd_loc]
      by_cases hid : i < d
      · rw [run_update_loc_below G h1 hW.acyclic hid]; exact hI i hi hl
      · exact hI1 i hi (by unfold NodeId at *; omega)
    have hc1 := count_eq_excess G nodes S1 r
    have s2 := Safe_releaseMd r md S1 (by omega)
    have s3 := ih2 hW1 (fun x hx => hC x (by simp [hx])) hI1' (by rw [excess_releaseMd, e1]; omega)
    have l1ok := run_log G r h1
    have l2ok := releaseMd_log r md S1
    exact Safe_append (Safe_append s1 (s2.of_eq l1ok.1)) (s3.of_eq (by rw [l2ok.1, l1ok.1, logNet_append]; omega))
  | @sink d who v md S m hm he =>
    intro _ _ _ hE
    have hc := count_eq_excess G nodes S r
    exact Safe_sinkRes r m d who v md S he (by omega)
  | @upd d who v md S S' l t hs hu _ ih =>
    intro hW hC hI hE
    have hc := count_eq_excess G nodes S r
    have hb := kindOK_all (G d) r (S.loc d) who v md (hI d hC (Nat.le_refl _)) hu
    have := ih hW hC (hI.mono G (by simp [callLo])) _ _ (excess G nodes S r) hb (by omega) (by omega) hE (by omega)
    exact Safe.cons rfl (fun x => x) (by omega) this
  | enil => intro _ _ _ _ _ _ _ _ _ _ _; trivial
  | @eretain d md es S S' l t _ ih =>
    intro hW hC hI c mIn E0 hb hc0 hm hE0 hE
    simp only [BodyOK] at hb
    have hc := count_eq_excess G nodes S r
    have hle := nodeHolds_le_holders G S r hC
    have hW1 : WF nodes (retainMd 1 md S).1 := hW.of_eq (by simp)
    have s1 := Safe_retainMd r 1 md S (by omega) (fun _ hw => by have := hb.1 hw; omega)
    have s2 := ih hW1 hC (hI.of_eq G (by simp)) (c + (wMd r md : Int)) mIn E0 (by simpa using hb.2) (by omega) hm hE0
      (by rw [excess_retainMd]; simp only [retainMd_loc, Nat.one_mul]; omega)
    exact Safe_append s1 (s2.of_eq (retainMd_log r 1 md S).1)
  | @erelease d md es S S' l t _ ih =>
    intro hW hC hI c mIn E0 hb hc0 hm hE0 hE
    simp only [BodyOK] at hb
    have hc := count_eq_excess G nodes S r
    have hle := nodeHolds_le_holders G S r hC
    have hW1 : WF nodes (releaseMd md S).1 := hW.of_eq (by simp)
    have s1 := Safe_releaseMd r md S (by omega)
    have s2 := ih hW1 hC (hI.of_eq G (by simp)) (c - (wMd r md : Int)) mIn E0 (by simpa using hb.2) (by omega) hm hE0
      (by rw [excess_releaseMd]; simp only [releaseMd_loc]; omega)
    exact Safe_append s1 (s2.of_eq (releaseMd_log r md S).1)
  | @eset d s es S S' l t _ ih =>
    intro hW hC hI c mIn E0 hb hc0 hm hE0 hE
    simp only [BodyOK] at hb
    have hI1 : InvFrom G nodes (d + 1) (S.setLoc d s) := by
      intro i hi hl
      rw [setLoc_other S s (by unfold NodeId at *; omega)]; exact hI i hi hl
    have e := excess_setLoc G S d s r hn hC
    exact ih (hW.of_eq rfl) hC hI1 c mIn E0 (by simpa using hb) hc0 hm hE0 (by rw [setLoc_same]; omega)
  | @edetach d es S S' l t _ ih =>
    intro hW hC hI c mIn E0 hb hc0 hm hE0 hE
    simp only [BodyOK] at hb
    have hW1 : WF nodes (detachNode d S) := hW.of_sublist (detachNode_downs d S)
    have := ih hW1 hC (hI.of_eq G (by simp)) c mIn E0 (by simpa using hb) hc0 hm hE0
      (by rw [excess_detachNode, detachNode_loc]; exact hE)
    rw [detachNode_eq] at this; exact this
  | @eemit d v md es S S1 l1 t1 S2 l2 t2 h1 _ ih1 ih2 =>
    intro hW hC hI c mIn E0 hb hc0 hm hE0 hE
    simp only [BodyOK] at hb
    have hc := count_eq_excess G nodes S r
    have hle := nodeHolds_le_holders G S r hC
    obtain ⟨e1, hI1⟩ := run_bal' G hn r h1 hW hC hI
    have hl := run_emit_loc_self G h1 hW.acyclic (Nat.le_refl d)
    have s1 := ih1 hW hC hI (by omega) (fun hw _ => by have := hb.2.1 hw; omega)
    have s2 := ih2 (hW.run G h1) hC hI1 c mIn E0 (by rw [hl]; exact hb.2.2) hc0 hm hE0 (by rw [e1, hl]; exact hE)
    exact Safe_append s1 (s2.of_eq (run_log G r h1).1)
  | @eetr d v md es S S1 l1 t1 S2 l2 t2 h1 _ ih1 ih2 =>
    intro hW hC hI c mIn E0 hb hc0 hm hE0 hE
    simp only [BodyOK] at hb
    have hc := count_eq_excess G nodes S r
    have hle := nodeHolds_le_holders G S r hC
    obtain ⟨e1, hI1⟩ := run_bal' G hn r h1 hW hC hI
    have hl := run_emit_loc_self G h1 hW.acyclic (Nat.le_refl d)
    have hW1' : WF nodes (etrPost md t1 S1).1 := (hW.run G h1).of_eq (by simp)
    have hc1 := count_eq_excess G nodes S1 r
    have hle1 := nodeHolds_le_holders G S1 r hC
    rw [hl] at hle1
    have s1 := ih1 hW hC hI (by omega) (fun hw _ => by have := hb.2.1 hw; omega)
    have s2 := Safe_etrPost r md t1 S1 (by omega)
    have s3 := ih2 hW1' hC (hI1.of_eq G (by simp)) (c - (wMd r md : Int)) mIn E0
      (by simp only [etrPost_loc]; rw [hl]; exact hb.2.2.2) (by omega) hm hE0
      (by rw [excess_etrPost, e1, etrPost_loc, hl]; omega)
    have l1ok := run_log G r h1
    have l2ok := etrPost_log r md t1 S1
    exact Safe_append (Safe_append s1 (s2.of_eq l1ok.1)) (s3.of_eq (by rw [l2ok.1, l1ok.1, logNet_append]; omega))

/-! ### 7. Reading the log predicates -/

theorem isFire_iff {r : Nat} {e : Ev} : isFire r e = true ↔ e = Ev.fire r := by
  cases e <;> simp [isFire]

theorem expNext_true {r : Nat} {c : Int} {e : Ev} (h : expNext r c e = true) : e = Ev.release r ∧ c - 1 ≤ 0 := by
  cases e <;> simp [expNext] at h
  exact ⟨by rw [h.1], h.2⟩

theorem evNet_fire (r q : Nat) : evNet r (Ev.fire q) = 0 := rfl

/-- the counter never goes negative: every prefix of the log -/
theorem Safe.nonneg {r : Nat} : ∀ {l : List Ev} {c : Int}, Safe r c l → 0 ≤ c →
    ∀ p q, l = p ++ q → 0 ≤ c + logNet r p := by
  intro l c h hc p
  induction p generalizing l c with
  | nil => intro q _; simpa using hc
  | cons e p ih =>
    intro q hl
    subst hl
    simp only [List.cons_append, Safe] at h
    have := ih h.2.2 h.1 q rfl
    simp only [logNet_cons]; omega

/-- a `fire r` is logged only when the counter is `≤ 0` -/
theorem FireOK.fire_le {r : Nat} : ∀ {p : List Ev} {exp : Bool} {c : Int} {q : List Ev},
    FireOK r exp c (p ++ Ev.fire r :: q) → (exp = true → c ≤ 0) → c + logNet r p ≤ 0 := by
  intro p
  induction p with
  | nil =>
    intro exp c q h hexp
    simp only [List.nil_append, FireOK, isFire, beq_self_eq_true] at h
    simpa using hexp h.1.symm
  | cons e p ih =>
    intro exp c q h hexp
    simp only [List.cons_append, FireOK] at h
    have := ih h.2 (fun hx => by have := expNext_true hx; rw [this.1]; simp [evNet]; omega)
    simp only [logNet_cons]; omega

/-- whenever a release leaves the counter `≤ 0`, the callback is scheduled right there -/
theorem FireOK.release_fires {r : Nat} : ∀ {p : List Ev} {exp : Bool} {c : Int} {q : List Ev},
    FireOK r exp c (p ++ Ev.release r :: q) → c + logNet r p - 1 ≤ 0 → ∃ q', q = Ev.fire r :: q' := by
  intro p
  induction p with
  | nil =>
    intro exp c q h hle
    simp only [List.nil_append, FireOK, expNext, beq_self_eq_true, Bool.true_and] at h
    have hd : decide (c - 1 ≤ 0) = true := by simpa using hle
    rw [hd] at h
    cases q with
    | nil => simp [FireOK] at h
    | cons e q' =>
      simp only [FireOK] at h
      exact ⟨q', by rw [isFire_iff.1 h.2.1]⟩
  | cons e p ih =>
    intro exp c q h hle
    simp only [List.cons_append, FireOK] at h
    exact ih h.2 (by simp only [logNet_cons] at hle; omega)

/-- once the counter is 0, a safe log never touches it again -/
theorem Safe.dead {r : Nat} : ∀ {l : List Ev}, Safe r 0 l → ∀ e ∈ l, evNet r e = 0 := by
  intro l
  induction l with
  | nil => intro _ e he; simp at he
  | cons x l ih =>
    intro h e he
    simp only [Safe] at h
    have hx : evNet r x = 0 := by
      cases x with
      | retain q k =>
        simp only [evNet] at h ⊢
        by_cases hq : q = r
        · simp only [hq, if_true] at h ⊢
          by_cases hk : 0 < k
          · have := h.2.1 ⟨rfl, hk⟩; omega
          · omega
        · simp [hq]
      | release q =>
        simp only [evNet] at h ⊢
        by_cases hq : q = r
        · simp only [hq, if_true] at h; omega
        · simp [hq]
      | _ => rfl
    rcases List.mem_cons.1 he with rfl | he'
    · exact hx
    · exact ih (h.2.2.of_eq (by omega)) e he'

theorem Safe.drop {r : Nat} : ∀ {p : List Ev} {c : Int} {q : List Ev}, Safe r c (p ++ q) → Safe r (c + logNet r p) q := by
  intro p
  induction p with
  | nil => intro c q h; simpa using h
  | cons e p ih =>
    intro c q h
    simp only [List.cons_append, Safe] at h
    exact (ih h.2.2).of_eq (by simp only [logNet_cons]; omega)

/-- **fire ⇒ exactly zero, and nothing afterwards** -/
theorem fire_zero_dead {r : Nat} {c : Int} {l p q : List Ev} (hf : FireOK r false c l) (hs : Safe r c l) (hc : 0 ≤ c)
    (hl : l = p ++ Ev.fire r :: q) : c + logNet r p = 0 ∧ ∀ e ∈ q, evNet r e = 0 := by
  subst hl
  have h1 := hf.fire_le (by simp)
  have h2 := hs.nonneg hc p _ rfl
  have h0 : c + logNet r p = 0 := by omega
  refine ⟨h0, ?_⟩
  have h3 := hs.drop
  rw [h0] at h3
  simp only [Safe, evNet_fire] at h3
  exact (h3.2.2.of_eq (by omega)).dead

/-- if the counter was positive and ends `≤ 0`, a `fire` was logged -/
theorem FireOK.fired {r : Nat} : ∀ {l : List Ev} {exp : Bool} {c : Int},
    FireOK r exp c l → 0 < c → c + logNet r l ≤ 0 → Ev.fire r ∈ l := by
  intro l
  induction l with
  | nil => intro exp c _ h1 h2; simp at h2; omega
  | cons e l ih =>
    intro exp c h h1 h2
    simp only [FireOK] at h
    simp only [logNet_cons] at h2
    by_cases hpos : 0 < c + evNet r e
    · exact List.mem_cons_of_mem _ (ih h.2 hpos (by omega))
    · have he : e = Ev.release r := by
        cases e with
        | retain q k => simp only [evNet] at hpos; split at hpos <;> omega
        | release q =>
          simp only [evNet] at hpos
          by_cases hq : q = r
          · rw [hq]
          · simp [hq] at hpos; omega
        | _ => simp [evNet] at hpos; omega
      subst he
      have hx : expNext r c (Ev.release r) = true := by
        simp only [evNet, if_true] at hpos
        simp [expNext]; omega
      rw [hx] at h
      cases l with
      | nil => simp [FireOK] at h
      | cons e2 l2 =>
        simp only [FireOK] at h
        rw [isFire_iff.1 h.2.1]
        simp

/-- a log that never changes the counter contains no `fire` -/
theorem FireOK.no_fire {r : Nat} : ∀ {l : List Ev} {c : Int}, FireOK r false c l → (∀ e ∈ l, evNet r e = 0) →
    Ev.fire r ∉ l := by
  intro l
  induction l with
  | nil => intro c _ _ h; simp at h
  | cons e l ih =>
    intro c h h0 hm
    simp only [FireOK] at h
    have he0 := h0 e (by simp)
    have hx : expNext r c e = false := by
      cases hx : expNext r c e with
      | false => rfl
      | true => have := expNext_true hx; rw [this.1] at he0; simp [evNet] at he0
    rw [hx] at h
    rcases List.mem_cons.1 hm with hm | hm
    · rw [← hm] at h; simp [isFire] at h
    · exact ih h.2 (fun x hx => h0 x (by simp [hx])) hm


/-! ### 8. Quiescent states and the top-level operations -/

/-- tokens of unfinished consumer invocations are distinct and already issued -/
def PendOK (S : State) : Prop := (S.pending.map (·.1)).Nodup ∧ ∀ p ∈ S.pending, p.1 < S.nextTok

theorem PendOK.of_eq {S S' : State} (h : PendOK S) (h1 : S'.pending = S.pending) (h2 : S'.nextTok = S.nextTok) :
    PendOK S' := by
  unfold PendOK; rw [h1, h2]; exact h

theorem sinkRes_pendOK (m : SinkMode) (d who : NodeId) (v : Val) (md : Meta) (S : State) (h : PendOK S) :
    PendOK (sinkRes m d who v md S).st := by
  unfold sinkRes
  cases m with
  | sync fn => simp only []; split <;> exact h
  | async =>
    have hp : (if md.isEmpty then (S, ([] : List Ev)) else retainMd 1 md S).1.pending = S.pending := by
      split <;> simp
    simp only [PendOK, hp, List.map_append, List.map_cons, List.map_nil]
    refine ⟨?_, ?_⟩
    · rw [List.nodup_append]
      refine ⟨h.1, by simp, ?_⟩
      intro a ha b hb
      simp only [List.mem_cons, List.not_mem_nil, or_false] at hb
      subst hb
      obtain ⟨p, hp1, rfl⟩ := List.mem_map.1 ha
      have := h.2 p hp1
      unfold Tok at *; omega
    · intro p hp1
      rcases List.mem_append.1 hp1 with hp1 | hp1
      · have := h.2 p hp1; show p.1 < S.nextTok + 1; unfold Tok at *; omega
      · simp only [List.mem_cons, List.not_mem_nil, or_false] at hp1
        subst hp1; show S.nextTok < S.nextTok + 1; unfold Tok at *; omega

theorem etrPost_pending (md : Meta) (toks : List Tok) (S : State) : (etrPost md toks S).1.pending = S.pending := by
  unfold etrPost; split <;> simp
theorem etrPost_nextTok (md : Meta) (toks : List Tok) (S : State) : (etrPost md toks S).1.nextTok = S.nextTok := by
  unfold etrPost; split <;> simp
theorem emitPre_pending (S : State) (n : NodeId) (md : Meta) : (emitPre S n md).1.pending = S.pending := by
  unfold emitPre; split <;> simp
theorem emitPre_nextTok (S : State) (n : NodeId) (md : Meta) : (emitPre S n md).1.nextTok = S.nextTok := by
  unfold emitPre; split <;> simp

theorem run_pendOK {c : Call} {S S' : State} {l : List Ev} {t : List Tok} (h : Run G c S S' l t) :
    PendOK S → PendOK S' := by
  induction h with
  | @emit n v md S S' l t _ ih => intro h; exact ih (h.of_eq (emitPre_pending S n md) (emitPre_nextTok S n md))
  | dnil => exact id
  | @dcons d ds n v md S S1 l1 t1 S2 l2 t2 _ _ ih1 ih2 =>
    intro h; exact ih2 ((ih1 h).of_eq (by simp) (by simp))
  | @sink d who v md S m hm he => exact sinkRes_pendOK m d who v md S
  | upd _ _ _ ih => exact ih
  | enil => exact id
  | eretain _ ih => intro h; exact ih (h.of_eq (by simp) (by simp))
  | erelease _ ih => intro h; exact ih (h.of_eq (by simp) (by simp))
  | eset _ ih => intro h; exact ih (h.of_eq rfl rfl)
  | @edetach d es S S' l t _ ih => intro h; exact ih (h.of_eq (by rw [detachNode_eq]) (by rw [detachNode_eq]))
  | eemit _ _ ih1 ih2 => intro h; exact ih2 (ih1 h)
  | @eetr d v md es S S1 l1 t1 S2 l2 t2 _ _ ih1 ih2 =>
    intro h; exact ih2 ((ih1 h).of_eq (etrPost_pending md t1 S1) (etrPost_nextTok md t1 S1))

/-- **Quiescent state**: between top-level operations.  DAG over a finite closed node set, node invariants,
distinct tokens, and the books are balanced: every counter equals the number of holders. -/
structure Good (nodes : List NodeId) (S : State) : Prop where
  wf : WF nodes S
  inv : InvFrom G nodes 0 S
  pend : PendOK S
  bal : ∀ r, S.count r = (holders G nodes S r : Int)

theorem Good.excess_zero {nodes : List NodeId} {S : State} (h : Good G nodes S) (r : Nat) :
    excess G nodes S r = 0 := by
  have := h.bal r; simp only [excess]; omega

theorem run_effs_loc_below {d : NodeId} {es : List Eff} {S S1 : State} {l : List Ev} {t : List Tok}
    (h : Run G (.effs d es) S S1 l t) (hA : Acyclic S) {i : NodeId} (hi : i < d) : S1.loc i = S.loc i := by
  have e1 := (run_proj G h hA).1 i (by unfold NodeId at *; omega)
  have hb : BndL (d + 1) d d l := run_bounds G h hA
  rw [e1, hb.arrivalsAt_nil (by unfold NodeId at *; omega)]; rfl

/-- `_emit` at any node of a quiescent state leads to a quiescent state. -/
theorem emit_good {nodes : List NodeId} (hn : nodes.Nodup) {n : NodeId} {v : Val} {md : Meta} {S S' : State}
    {l : List Ev} {t : List Tok} (hG : Good G nodes S) (hin : n ∈ nodes) (h : Run G (.emit n v md) S S' l t) :
    Good G nodes S' := by
  have hI : InvFrom G nodes (n + 1) S := hG.inv.mono G (Nat.zero_le _)
  refine ⟨hG.wf.run G h, ?_, run_pendOK G h hG.pend, ?_⟩
  · intro i hi _
    by_cases hle : i ≤ n
    · rw [run_emit_loc_self G h hG.wf.acyclic hle]; exact hG.inv i hi (Nat.zero_le _)
    · exact (run_bal' G hn 0 h hG.wf hin hI).2 i hi (by unfold NodeId at *; omega)
  · intro r
    have e := (run_bal' G hn r h hG.wf hin hI).1
    have := hG.excess_zero G r
    simp only [excess] at e this; omega

theorem bodyOK_flushProg (r : Nat) (s : NState) :
    BodyOK .collect r 0 (flushProg s) s (nodeHolds .collect s r : Int) := by
  simp only [flushProg, BodyOK, nodeHolds, heldMd, NodeInv, List.map_nil, flatMd_nil, wMd_nil]
  and_intros <;> first | trivial | omega | (intro _; omega)

/-- `collect.flush()` of a quiescent state leads to a quiescent state. -/
theorem flush_good {nodes : List NodeId} (hn : nodes.Nodup) {d : NodeId} {S S' : State}
    {l : List Ev} {t : List Tok} (hG : Good G nodes S) (hin : d ∈ nodes) (hk : G d = .collect)
    (h : Run G (.effs d (flushProg (S.loc d))) S S' l t) : Good G nodes S' := by
  have hI : InvFrom G nodes (d + 1) S := hG.inv.mono G (Nat.zero_le _)
  have hb : ∀ r, BodyOK (G d) r 0 (flushProg (S.loc d)) (S.loc d) (nodeHolds (G d) (S.loc d) r : Int) := by
    intro r; rw [hk]; exact bodyOK_flushProg r _
  refine ⟨hG.wf.run G h, ?_, run_pendOK G h hG.pend, ?_⟩
  · intro i hi _
    by_cases hlt : i < d
    · rw [run_effs_loc_below G h hG.wf.acyclic hlt]; exact hG.inv i hi (Nat.zero_le _)
    · exact (run_bal' G hn 0 h hG.wf hin hI _ _ (hb 0)).2 i hi (by unfold NodeId at *; omega)
  · intro r
    have e := (run_bal' G hn r h hG.wf hin hI _ _ (hb r)).1
    have := hG.excess_zero G r
    simp only [excess] at e this; omega


/-! ### 9. `sinkDone` -/

theorem pend_find_split (r : Nat) (p : List (Tok × NodeId × Meta)) (tok : Tok) (x : Tok × NodeId × Meta)
    (hn : (p.map (·.1)).Nodup) (hf : p.find? (fun y => decide (y.1 = tok)) = some x) :
    pendHolds (p.filter (fun y => decide (y.1 ≠ tok))) r + wMd r x.2.2 = pendHolds p r := by
  induction p with
  | nil => simp at hf
  | cons a as ih =>
    simp only [List.map_cons, List.nodup_cons] at hn
    by_cases ha : a.1 = tok
    · simp only [List.find?_cons, ha, decide_true] at hf
      cases hf
      have hrest : as.filter (fun y => decide (y.1 ≠ tok)) = as := by
        rw [List.filter_eq_self]
        intro b hb
        have : b.1 ≠ tok := fun e => hn.1 (List.mem_map.2 ⟨b, hb, by rw [e, ha]⟩)
        simpa using this
      simp only [List.filter_cons, ha, ne_eq, not_true_eq_false, decide_false, Bool.false_eq_true, if_false]
      simp only [ne_eq] at hrest
      rw [hrest]
      simp only [pendHolds, List.map_cons, flatMd_cons, wMd_append]
      omega
    · simp only [List.find?_cons, ha, decide_false] at hf
      have := ih hn.2 hf
      simp only [List.filter_cons, ha, ne_eq, not_false_eq_true, decide_true, if_true]
      simp only [pendHolds, List.map_cons, flatMd_cons, wMd_append, ne_eq] at this ⊢
      omega

theorem logNet_nonpos {r : Nat} {l : List Ev} (h : ∀ e ∈ l, evNet r e ≤ 0) : logNet r l ≤ 0 := by
  induction l with
  | nil => simp
  | cons e l ih =>
    have := h e (by simp)
    have := ih (fun x hx => h x (by simp [hx]))
    simp only [logNet_cons]; omega

/-- in a log without retains, a `fire r` means the counter ends `≤ 0` -/
theorem FireOK.fire_final_le {r : Nat} {l : List Ev} {c : Int} (hf : FireOK r false c l)
    (h0 : ∀ e ∈ l, evNet r e ≤ 0) (hm : Ev.fire r ∈ l) : c + logNet r l ≤ 0 := by
  obtain ⟨p, q, rfl⟩ := List.append_of_mem hm
  have h1 := hf.fire_le (by simp)
  have h2 : logNet r (Ev.fire r :: q) ≤ 0 := logNet_nonpos (fun e he => h0 e (by simp at he ⊢; exact Or.inr he))
  rw [logNet_append]; omega

theorem releaseMd_nonpos (r : Nat) (md : Meta) (S : State) : ∀ e ∈ (releaseMd md S).2, evNet r e ≤ 0 := by
  induction md generalizing S with
  | nil => intro e he; simp [releaseMd] at he
  | cons m ms ih =>
    unfold releaseMd
    split
    · exact ih S
    · next q hq =>
      simp only []
      intro e he
      have hrel : evNet r (Ev.release q) ≤ 0 := by simp only [evNet]; split <;> omega
      simp only [List.mem_cons] at he
      rcases he with rfl | he
      · exact hrel
      · split at he
        · simp only [List.mem_cons] at he
          rcases he with rfl | he
          · simp [evNet]
          · exact ih _ e he
        · exact ih _ e he

structure WakeSpec (r : Nat) (ws : List (List Tok × Meta)) (S : State) (R : State × List Ev) : Prop where
  loc : R.1.loc = S.loc
  downs : R.1.downs = S.downs
  pending : R.1.pending = S.pending
  nextTok : R.1.nextTok = S.nextTok
  bal : R.1.count r - (waitHolds R.1.waiters r : Int) = S.count r - (waitHolds ws r : Int)
  log : LogOK r (S.count r) (R.1.count r) R.2
  safe : (waitHolds ws r : Int) ≤ S.count r → Safe r (S.count r) R.2
  nonpos : ∀ e ∈ R.2, evNet r e ≤ 0

theorem wakeWaiters_spec (r : Nat) (ws : List (List Tok × Meta)) : ∀ S : State, WakeSpec r ws S (wakeWaiters ws S) := by
  induction ws with
  | nil =>
    intro S
    simp only [wakeWaiters]
    exact ⟨rfl, rfl, rfl, rfl, rfl, LogOK.nil r _, fun _ => trivial, fun e he => by simp at he⟩
  | cons w ws ih =>
    intro S
    obtain ⟨toks, md⟩ := w
    simp only [wakeWaiters]
    split
    · have i := ih (releaseMd md S).1
      have hc := releaseMd_count md S r
      have hl := releaseMd_log r md S
      refine ⟨by rw [i.loc]; simp, by rw [i.downs]; simp, by rw [i.pending]; simp, by rw [i.nextTok]; simp, ?_,
        LogOK.append hl i.log, ?_, ?_⟩
      · have := i.bal
        simp only [waitHolds, List.map_cons, flatMd_cons, wMd_append] at this ⊢
        omega
      · intro hle
        simp only [waitHolds, List.map_cons, flatMd_cons, wMd_append] at hle
        refine Safe_append (Safe_releaseMd r md S (by omega)) ((i.safe ?_).of_eq hl.1)
        simp only [waitHolds]; omega
      · intro e he
        rcases List.mem_append.1 he with he | he
        · exact releaseMd_nonpos r md S e he
        · exact i.nonpos e he
    · have i := ih S
      refine ⟨i.loc, i.downs, i.pending, i.nextTok, ?_, i.log, ?_, i.nonpos⟩
      · have := i.bal
        simp only [waitHolds, List.map_cons, flatMd_cons, wMd_append] at this ⊢
        omega
      · intro hle
        simp only [waitHolds, List.map_cons, flatMd_cons, wMd_append] at hle
        exact i.safe (by simp only [waitHolds]; omega)


/-- the state right after the done-callback removed the token -/
def doneSt (tok : Tok) (S : State) : State :=
  { S with pending := S.pending.filter (·.1 ≠ tok), doneToks := tok :: S.doneToks }

structure DoneSpec (nodes : List NodeId) (r : Nat) (S S' : State) (l : List Ev) : Prop where
  log : LogOK r (S.count r) (S'.count r) l
  safe : Safe r (S.count r) l
  nonpos : ∀ e ∈ l, evNet r e ≤ 0

theorem sinkDone_eq {tok : Tok} {S S' : State} {l : List Ev} (h : sinkDone tok S = some (S', l)) :
    ∃ x, S.pending.find? (fun y => decide (y.1 = tok)) = some x ∧
      S' = (wakeWaiters (releaseMd x.2.2 (doneSt tok S)).1.waiters (releaseMd x.2.2 (doneSt tok S)).1).1 ∧
      l = Ev.sinkDone tok :: (releaseMd x.2.2 (doneSt tok S)).2 ++
            (wakeWaiters (releaseMd x.2.2 (doneSt tok S)).1.waiters (releaseMd x.2.2 (doneSt tok S)).1).2 := by
  unfold sinkDone at h
  split at h
  · cases h
  · next t0 d md hf =>
    simp only [Option.some.injEq, Prod.mk.injEq] at h
    exact ⟨(t0, d, md), hf, h.1.symm, h.2.symm⟩

/-- An asynchronous consumer finishing in a quiescent state leads to a quiescent state; its log is faithful,
safe, and contains no retain. -/
theorem sinkDone_spec {nodes : List NodeId} {tok : Tok} {S S' : State} {l : List Ev} (hG : Good G nodes S)
    (h : sinkDone tok S = some (S', l)) : Good G nodes S' ∧ ∀ r, DoneSpec nodes r S S' l := by
  obtain ⟨x, hf, rfl, rfl⟩ := sinkDone_eq h
  clear h
  have hw : (releaseMd x.2.2 (doneSt tok S)).1.waiters = S.waiters := by simp [doneSt]
  rw [hw]
  have hsplit := fun r => pend_find_split r S.pending tok x hG.pend.1 hf
  have W := fun r => wakeWaiters_spec r S.waiters (releaseMd x.2.2 (doneSt tok S)).1
  have hcnt := fun r => releaseMd_count x.2.2 (doneSt tok S) r
  have hbalS := hG.bal
  simp only [holders] at hbalS
  have hW0 := W 0
  have d1 : (doneSt tok S).loc = S.loc := rfl
  have d2 : (doneSt tok S).downs = S.downs := rfl
  have d3 : (doneSt tok S).pending = S.pending.filter (fun y => decide (y.1 ≠ tok)) := rfl
  have d4 : (doneSt tok S).waiters = S.waiters := rfl
  have d5 : (doneSt tok S).count = S.count := rfl
  have d6 : (doneSt tok S).nextTok = S.nextTok := rfl
  refine ⟨⟨?_, ?_, ?_, ?_⟩, ?_⟩
  · exact hG.wf.of_eq (by rw [hW0.downs]; simp [d2])
  · exact hG.inv.of_eq G (by rw [hW0.loc]; simp [d1])
  · unfold PendOK
    rw [hW0.pending, hW0.nextTok]
    simp only [releaseMd_pending, releaseMd_nextTok, d3, d6]
    refine ⟨hG.pend.1.sublist (List.Sublist.map _ List.filter_sublist), ?_⟩
    intro p hp
    exact hG.pend.2 p (List.mem_filter.1 hp).1
  · intro r
    have w := W r
    have := w.bal
    have := hsplit r
    have := hbalS r
    have := hcnt r
    simp only [holders, w.loc, w.pending, releaseMd_loc, releaseMd_pending, d1, d3, d5] at *
    omega
  · intro r
    have w := W r
    have hs := hsplit r
    have hb := hbalS r
    have hc := hcnt r
    have hl := releaseMd_log r x.2.2 (doneSt tok S)
    simp only [d5] at hc hl
    refine ⟨?_, ?_, ?_⟩
    · exact LogOK.cons rfl rfl rfl (LogOK.append hl w.log)
    · refine Safe.cons rfl (fun x => x) (by omega)
        (Safe_append (Safe_releaseMd r x.2.2 (doneSt tok S) ?_) ((w.safe ?_).of_eq hl.1))
      · rw [d5]; omega
      · omega
    · intro e he
      simp only [List.mem_cons, List.mem_append] at he
      rcases he with (rfl | he) | he
      · simp [evNet]
      · exact releaseMd_nonpos r x.2.2 _ e he
      · exact w.nonpos e he


/-! ### 10. Top-level operations -/

/-- the operations the environment can perform on a quiescent pipeline -/
inductive Op
  | emit (n : NodeId) (v : Val) (md : Meta)      -- `node._emit(x, metadata)` / `source.emit`
  | flush (d : NodeId)                            -- `collect.flush()`
  | done (tok : Tok)                              -- an asynchronous consumer finishes normally

/-- `Step G nodes S op S' l`: operation `op` started in `S` completes normally (no exception, enough fuel) in
`S'` with log `l`. -/
inductive Step (nodes : List NodeId) : State → Op → State → List Ev → Prop
  | emit {n v md S S' l t} : n ∈ nodes → Run G (.emit n v md) S S' l t → Step nodes S (.emit n v md) S' l
  | flush {d S S' l t} : d ∈ nodes → G d = .collect → Run G (.effs d (flushProg (S.loc d))) S S' l t →
      Step nodes S (.flush d) S' l
  | done {tok S S' l} : sinkDone tok S = some (S', l) → Step nodes S (.done tok) S' l

/-- a successful `emitAt` of the interpreter is a step -/
theorem step_of_emitAt {nodes : List NodeId} {fuel : Nat} {n : NodeId} {v : Val} {md : Meta} {S : State}
    (hin : n ∈ nodes) (he : (emitAt G fuel n v md S).err = none) (hc : (emitAt G fuel n v md S).carried = none) :
    Step G nodes S (.emit n v md) (emitAt G fuel n v md S).st (emitAt G fuel n v md S).log :=
  Step.emit hin (run_of_ok G fuel (.emit n v md) S ⟨he, hc⟩)

/-- a successful `flushAt` of the interpreter is a step -/
theorem step_of_flushAt {nodes : List NodeId} {fuel : Nat} {d : NodeId} {S : State}
    (hin : d ∈ nodes) (hk : G d = .collect) (he : (flushAt G fuel d S).err = none)
    (hc : (flushAt G fuel d S).carried = none) :
    Step G nodes S (.flush d) (flushAt G fuel d S).st (flushAt G fuel d S).log :=
  Step.flush hin hk (run_of_ok G fuel (.effs d (flushProg (S.loc d))) S ⟨he, hc⟩)

/-- **count = holders is an invariant of every top-level operation.** -/
theorem step_good {nodes : List NodeId} (hn : nodes.Nodup) {S S' : State} {op : Op} {l : List Ev}
    (hG : Good G nodes S) (h : Step G nodes S op S' l) : Good G nodes S' := by
  cases h with
  | emit hin hr => exact emit_good G hn hG hin hr
  | flush hin hk hr => exact flush_good G hn hG hin hk hr
  | done hd => exact (sinkDone_spec G hG hd).1

theorem step_logOK {nodes : List NodeId} (r : Nat) {S S' : State} {op : Op} {l : List Ev}
    (hG : Good G nodes S) (h : Step G nodes S op S' l) : LogOK r (S.count r) (S'.count r) l := by
  cases h with
  | emit hin hr => exact run_log G r hr
  | flush hin hk hr => exact run_log G r hr
  | done hd => exact ((sinkDone_spec G hG hd).2 r).log

theorem retainMd_quietFire (r k : Nat) (md : Meta) (S : State) :
    ∀ e ∈ (retainMd k md S).2, 0 ≤ evNet r e ∧ e ≠ Ev.fire r := by
  induction md generalizing S with
  | nil => intro e he; simp [retainMd] at he
  | cons m ms ih =>
    unfold retainMd
    split
    · exact ih S
    · next q hq =>
      simp only []
      intro e he
      simp only [List.mem_cons] at he
      rcases he with rfl | he
      · refine ⟨?_, fun h => by cases h⟩
        simp only [evNet]; split <;> omega
      · exact ih _ e he

/-- Safety of a top-level log: after a prefix `a` of plain retains (the entry `_emit` taking its references for
an element that may be new) the rest is `Safe`. -/
def SafeTop (r : Nat) (c : Int) (l : List Ev) : Prop :=
  ∃ a b, l = a ++ b ∧ (∀ e ∈ a, 0 ≤ evNet r e ∧ e ≠ Ev.fire r) ∧ Safe r (c + logNet r a) b

theorem Safe.top {r : Nat} {c : Int} {l : List Ev} (h : Safe r c l) : SafeTop r c l :=
  ⟨[], l, rfl, fun e he => by simp at he, by simpa using h⟩

theorem logNet_nonneg {r : Nat} {l : List Ev} (h : ∀ e ∈ l, 0 ≤ evNet r e) : 0 ≤ logNet r l := by
  induction l with
  | nil => simp
  | cons e l ih =>
    have := h e (by simp)
    have := ih (fun x hx => h x (by simp [hx]))
    simp only [logNet_cons]; omega

theorem SafeTop.nonneg {r : Nat} {c : Int} {l : List Ev} (h : SafeTop r c l) (hc : 0 ≤ c) :
    ∀ p q, l = p ++ q → 0 ≤ c + logNet r p := by
  obtain ⟨a, b, rfl, ha, hs⟩ := h
  intro p q hl
  rcases List.append_eq_append_iff.1 hl with ⟨a', rfl, rfl⟩ | ⟨c', rfl, rfl⟩
  · have h1 : 0 ≤ logNet r a := logNet_nonneg (fun e he => (ha e he).1)
    have := hs.nonneg (by omega) a' q rfl
    rw [logNet_append]; omega
  · have h1 : 0 ≤ logNet r p := logNet_nonneg (fun e he => (ha e (by simp [he])).1)
    omega

theorem FireOK.drop_quiet {r : Nat} {b : List Ev} : ∀ {a : List Ev} {c : Int},
    FireOK r false c (a ++ b) → (∀ e ∈ a, 0 ≤ evNet r e) → FireOK r false (c + logNet r a) b := by
  intro a
  induction a with
  | nil => intro c h _; simpa using h
  | cons e a ih =>
    intro c h h0
    simp only [List.cons_append, FireOK] at h
    have he := h0 e (by simp)
    have hx : expNext r c e = false := by
      cases hx : expNext r c e with
      | false => rfl
      | true => have := expNext_true hx; rw [this.1] at he; simp [evNet] at he
    rw [hx] at h
    exact (ih h.2 (fun x hx => h0 x (by simp [hx]))).of_eq (by simp only [logNet_cons]; omega)

/-- **fire ⇒ the count is exactly zero at that moment, and the log never touches the reference again** -/
theorem SafeTop.fire_dead {r : Nat} {c : Int} {l p q : List Ev} (h : SafeTop r c l) (hf : FireOK r false c l)
    (hc : 0 ≤ c) (hl : l = p ++ Ev.fire r :: q) : c + logNet r p = 0 ∧ ∀ e ∈ q, evNet r e = 0 := by
  obtain ⟨a, b, rfl, ha, hs⟩ := h
  have h1 : 0 ≤ logNet r a := logNet_nonneg (fun e he => (ha e he).1)
  have hfb := hf.drop_quiet (fun e he => (ha e he).1)
  rcases List.append_eq_append_iff.1 hl with ⟨a', rfl, hb⟩ | ⟨c', rfl, hq⟩
  · have := fire_zero_dead hfb hs (by omega) hb
    rw [logNet_append]
    exact ⟨by omega, this.2⟩
  · cases c' with
    | nil =>
      simp only [List.nil_append] at hq
      have := fire_zero_dead (p := []) hfb hs (by omega) hq.symm
      simp only [List.append_nil, logNet_nil, Int.add_zero] at this ⊢
      exact ⟨by omega, this.2⟩
    | cons x c'' =>
      simp only [List.cons_append, List.cons.injEq] at hq
      exact absurd hq.1.symm (ha x (by simp)).2

theorem emitPre_quietFire (r : Nat) (S : State) (n : NodeId) (md : Meta) :
    ∀ e ∈ (emitPre S n md).2, 0 ≤ evNet r e ∧ e ≠ Ev.fire r := by
  unfold emitPre
  split
  · intro e he; simp at he
  · exact retainMd_quietFire r _ md S

/-- every top-level operation from a quiescent state has a safe log -/
theorem step_safeTop {nodes : List NodeId} (hn : nodes.Nodup) (r : Nat) {S S' : State} {op : Op} {l : List Ev}
    (hG : Good G nodes S) (h : Step G nodes S op S' l) : SafeTop r (S.count r) l := by
  cases h with
  | @emit n v md _ _ _ t hin hr =>
    obtain ⟨l', rfl, h'⟩ := run_emit_inv G hr
    have hW1 : WF nodes (emitPre S n md).1 := hG.wf.of_eq (by simp)
    have hI1 : InvFrom G nodes (n + 1) (emitPre S n md).1 := (hG.inv.mono G (Nat.zero_le _)).of_eq G (by simp)
    have hs := run_safe G hn r h' hW1 (fun d hd => ⟨hG.wf.closed n hin d hd, hG.wf.acyclic n d hd⟩) hI1
      (by rw [excess_emitPre, hG.excess_zero G r]; simp only [Int.natCast_mul]; omega)
    refine ⟨Ev.emit n v md :: (emitPre S n md).2, l', by simp, ?_, ?_⟩
    · intro e he
      rcases List.mem_cons.1 he with rfl | he
      · exact ⟨by simp [evNet], fun h => by cases h⟩
      · exact emitPre_quietFire r S n md e he
    · refine hs.of_eq ?_
      rw [(emitPre_log r S n md).1]
      simp [evNet]
  | @flush d _ _ _ t hin hk hr =>
    have hb : BodyOK (G d) r 0 (flushProg (S.loc d)) (S.loc d) (nodeHolds (G d) (S.loc d) r : Int) := by
      rw [hk]; exact bodyOK_flushProg r _
    exact (run_safe G hn r hr hG.wf hin (hG.inv.mono G (Nat.zero_le _)) _ 0 0 hb (by omega) (by omega) (by omega)
      (by rw [hG.excess_zero G r]; omega)).top
  | done hd => exact ((sinkDone_spec G hG hd).2 r).safe.top

/-- a completed reference that is not re-injected is never touched again -/
theorem step_dead {nodes : List NodeId} (hn : nodes.Nodup) (r : Nat) {S S' : State} {op : Op} {l : List Ev}
    (hG : Good G nodes S) (h : Step G nodes S op S' l) (h0 : S.count r = 0)
    (hop : ∀ n v md, op = .emit n v md → wMd r md = 0) :
    (∀ e ∈ l, evNet r e = 0) ∧ Ev.fire r ∉ l ∧ S'.count r = 0 := by
  have hlog := step_logOK G r hG h
  have hsafe : Safe r 0 l := by
    rw [← h0]
    cases h with
    | @emit n v md _ _ _ t hin hr =>
      have hw := hop n v md rfl
      exact run_safe G hn r hr hG.wf hin (hG.inv.mono G (Nat.zero_le _)) (by rw [hG.excess_zero G r]; omega)
        (fun h => by omega)
    | @flush d _ _ _ t hin hk hr =>
      have hb : BodyOK (G d) r 0 (flushProg (S.loc d)) (S.loc d) (nodeHolds (G d) (S.loc d) r : Int) := by
        rw [hk]; exact bodyOK_flushProg r _
      exact run_safe G hn r hr hG.wf hin (hG.inv.mono G (Nat.zero_le _)) _ 0 0 hb (by omega) (by omega) (by omega)
        (by rw [hG.excess_zero G r]; omega)
    | done hd => exact ((sinkDone_spec G hG hd).2 r).safe
  have hd := hsafe.dead
  have hnet : logNet r l = 0 := by
    have h1 := logNet_nonneg (r := r) (l := l) (fun e he => by rw [hd e he]; omega)
    have h2 := logNet_nonpos (r := r) (l := l) (fun e he => by rw [hd e he]; omega)
    omega
  refine ⟨hd, hlog.2.no_fire hd, by rw [hlog.1, hnet, h0]; omega⟩


/-! ### 11. Sequences of operations, fresh pipelines, pending consumers -/

/-- a sequence of top-level operations, each completing normally; the log is the concatenation -/
inductive Steps (nodes : List NodeId) : State → List Op → State → List Ev → Prop
  | nil {S} : Steps nodes S [] S []
  | cons {S S1 S2 op ops l1 l2} : Step G nodes S op S1 l1 → Steps nodes S1 ops S2 l2 →
      Steps nodes S (op :: ops) S2 (l1 ++ l2)

theorem steps_good {nodes : List NodeId} (hn : nodes.Nodup) {S S' : State} {ops : List Op} {l : List Ev}
    (h : Steps G nodes S ops S' l) : Good G nodes S → Good G nodes S' := by
  induction h with
  | nil => exact id
  | cons h1 _ ih => intro hG; exact ih (step_good G hn hG h1)

theorem steps_dead {nodes : List NodeId} (hn : nodes.Nodup) (r : Nat) {S S' : State} {ops : List Op} {l : List Ev}
    (h : Steps G nodes S ops S' l) : Good G nodes S → S.count r = 0 →
    (∀ op ∈ ops, ∀ n v md, op = Op.emit n v md → wMd r md = 0) →
    (∀ e ∈ l, evNet r e = 0) ∧ Ev.fire r ∉ l ∧ S'.count r = 0 := by
  induction h with
  | nil => intro _ h0 _; exact ⟨fun e he => by simp at he, by simp, h0⟩
  | @cons S S1 S2 op ops l1 l2 h1 _ ih =>
    intro hG h0 hops
    obtain ⟨a1, a2, a3⟩ := step_dead G hn r hG h1 h0 (fun n v md e => hops op (by simp) n v md e)
    obtain ⟨b1, b2, b3⟩ := ih (step_good G hn hG h1) a3 (fun o ho => hops o (by simp [ho]))
    refine ⟨?_, ?_, b3⟩
    · intro e he
      rcases List.mem_append.1 he with he | he
      · exact a1 e he
      · exact b1 e he
    · intro hm
      rcases List.mem_append.1 hm with hm | hm
      · exact a2 hm
      · exact b2 hm

/-- nothing is held anywhere: no node buffer, no pending consumer, no suspended flush -/
theorem holders_eq_zero {nodes : List NodeId} {S : State} (r : Nat)
    (h1 : ∀ i ∈ nodes, heldMd (G i) (S.loc i) = []) (h2 : S.pending = []) (h3 : S.waiters = []) :
    holders G nodes S r = 0 := by
  have : nodesHold G nodes S.loc r = 0 := by
    unfold nodesHold
    induction nodes with
    | nil => rfl
    | cons a as ih =>
      simp only [List.map_cons, List.sum_cons, nodeHolds, h1 a (by simp), wMd_nil, Nat.zero_add]
      exact ih (fun i hi => h1 i (by simp [hi]))
  simp [holders, this, h2, h3, pendHolds, waitHolds]

/-- a freshly built pipeline (no element seen yet, all counters untouched) is quiescent -/
theorem good_init {nodes : List NodeId} {S : State} (hW : WF nodes S) (hI : InvFrom G nodes 0 S)
    (h1 : ∀ i ∈ nodes, heldMd (G i) (S.loc i) = []) (h2 : S.pending = []) (h3 : S.waiters = [])
    (h4 : ∀ r, S.count r = 0) : Good G nodes S :=
  ⟨hW, hI, by simp [PendOK, h2], fun r => by rw [h4 r, holders_eq_zero G r h1 h2 h3]; rfl⟩

theorem wMd_le_pendHolds {r : Nat} {p : List (Tok × NodeId × Meta)} {x : Tok × NodeId × Meta} (hx : x ∈ p) :
    wMd r x.2.2 ≤ pendHolds p r := by
  induction p with
  | nil => simp at hx
  | cons a as ih =>
    simp only [pendHolds, List.map_cons, flatMd_cons, wMd_append]
    rcases List.mem_cons.1 hx with rfl | hx
    · omega
    · have := ih hx; simp only [pendHolds] at this; omega

theorem sinkDone_pending {tok : Tok} {S S' : State} {l : List Ev} (h : sinkDone tok S = some (S', l)) :
    S'.pending = S.pending.filter (fun y => decide (y.1 ≠ tok)) := by
  obtain ⟨x, _, rfl, _⟩ := sinkDone_eq h
  rw [(wakeWaiters_spec 0 _ _).pending]
  simp [doneSt]

/-- a reference carried by a consumer invocation that is still running is counted at least once, and the end
of *another* invocation cannot complete it -/
theorem pending_blocks {nodes : List NodeId} {S : State} (hG : Good G nodes S) {x : Tok × NodeId × Meta}
    (hx : x ∈ S.pending) {r : Nat} (hr : 0 < wMd r x.2.2) :
    1 ≤ S.count r ∧ ∀ tok S' l, sinkDone tok S = some (S', l) → tok ≠ x.1 →
      Ev.fire r ∉ l ∧ 1 ≤ S'.count r ∧ x ∈ S'.pending := by
  have hcount : ∀ {T : State}, Good G nodes T → x ∈ T.pending → 1 ≤ T.count r := by
    intro T hT hxT
    have h1 := hT.bal r
    have h2 := wMd_le_pendHolds (r := r) hxT
    simp only [holders] at h1
    omega
  refine ⟨hcount hG hx, ?_⟩
  intro tok S' l hd hne
  obtain ⟨hG', hspec⟩ := sinkDone_spec G hG hd
  have hx' : x ∈ S'.pending := by
    rw [sinkDone_pending hd]
    exact List.mem_filter.2 ⟨hx, by simpa using fun e => hne e.symm⟩
  have hc' := hcount hG' hx'
  refine ⟨?_, hc', hx'⟩
  intro hm
  have := (hspec r).log.2.fire_final_le (hspec r).nonpos hm
  rw [← (hspec r).log.1] at this
  omega


/-! ### 12. Reaching zero fires -/

theorem FireOK.drop {r : Nat} {q : List Ev} : ∀ {p : List Ev} {exp : Bool} {c : Int},
    FireOK r exp c (p ++ q) → ∃ exp', FireOK r exp' (c + logNet r p) q := by
  intro p
  induction p with
  | nil => intro exp c h; exact ⟨exp, by simpa using h⟩
  | cons e p ih =>
    intro exp c h
    simp only [List.cons_append, FireOK] at h
    obtain ⟨e', he'⟩ := ih h.2
    exact ⟨e', he'.of_eq (by simp only [logNet_cons]; omega)⟩

/-- if the counter is positive at some moment of a faithful log and `≤ 0` at its end, a `fire` is logged in
between -/
theorem LogOK.fired {r : Nat} {c c' : Int} {l p q : List Ev} (h : LogOK r c c' l) (hl : l = p ++ q)
    (hpos : 0 < c + logNet r p) (hend : c' ≤ 0) : Ev.fire r ∈ q := by
  subst hl
  obtain ⟨e', he'⟩ := h.2.drop
  refine he'.fired hpos ?_
  have := h.1
  rw [logNet_append] at this
  omega

theorem emitPre_count (r : Nat) (S : State) (n : NodeId) (md : Meta) :
    (emitPre S n md).1.count r = S.count r + (((S.downs n).length * wMd r md : Nat) : Int) := by
  unfold emitPre
  split
  · next h => simp [wMd_of_isEmpty h]
  · exact retainMd_count _ md S r

/-- a top-level `_emit` of a new reference into a node with downstreams: the count is positive right after the
entry retains -/
theorem emit_log_head {n : NodeId} {v : Val} {md : Meta} {S S' : State} {l : List Ev} {t : List Tok}
    (h : Run G (.emit n v md) S S' l t) (r : Nat) :
    ∃ l', l = (Ev.emit n v md :: (emitPre S n md).2) ++ l' ∧
      S.count r + logNet r (Ev.emit n v md :: (emitPre S n md).2)
        = S.count r + (((S.downs n).length * wMd r md : Nat) : Int) := by
  obtain ⟨l', rfl, _⟩ := run_emit_inv G h
  refine ⟨l', by simp, ?_⟩
  have h1 := (emitPre_log r S n md).1
  have h2 := emitPre_count r S n md
  simp only [logNet_cons, evNet]
  omega


/-! ### 13. The state at the moment of an event

`RunA` is `Run` with an instrumented log: every event is paired with the state the interpreter was in when
the primitive that logged it (`_retain_refs`, `_release_refs`, the arrival, the emission) started, and with the
node whose `update` body executes that primitive (`none`: the `_emit` loop itself or a sink). -/

abbrev AEv := Ev × State × Option NodeId

def tag (X : State) (w : Option NodeId) (l : List Ev) : List AEv := l.map (fun e => (e, X, w))

@[simp] theorem tag_map_fst (X : State) (w : Option NodeId) (l : List Ev) : (tag X w l).map (·.1) = l := by
  induction l with
  | nil => rfl
  | cons e l ih => simp only [tag, List.map_cons, List.map_map] at ih ⊢; rw [ih]

theorem mem_tag {X : State} {w : Option NodeId} {l : List Ev} {x : AEv} (h : x ∈ tag X w l) :
    x.1 ∈ l ∧ x.2.1 = X ∧ x.2.2 = w := by
  obtain ⟨e, he, rfl⟩ := List.mem_map.1 h
  exact ⟨he, rfl, rfl⟩

inductive RunA : Call → State → State → List AEv → List Tok → Prop
  | emit {n v md S S' l t} :
      RunA (.deliver (S.downs n) n v md) (emitPre S n md).1 S' l t →
      RunA (.emit n v md) S S' ((Ev.emit n v md, S, none) :: tag S none (emitPre S n md).2 ++ l) t
  | dnil {n v md S} : RunA (.deliver [] n v md) S S [] []
  | dcons {d ds n v md S S1 l1 t1 S2 l2 t2} :
      RunA (.update d n v md) S S1 l1 t1 →
      RunA (.deliver ds n v md) (releaseMd md S1).1 S2 l2 t2 →
      RunA (.deliver (d :: ds) n v md) S S2 (l1 ++ tag S1 none (releaseMd md S1).2 ++ l2) (t1 ++ t2)
  | sink {d who v md S m} :
      G d = .sink m → (sinkRes m d who v md S).err = none →
      RunA (.update d who v md) S (sinkRes m d who v md S).st (tag S none (sinkRes m d who v md S).log)
        (sinkRes m d who v md S).toks
  | upd {d who v md S S' l t} :
      (∀ m, G d ≠ .sink m) → (upd (G d) (S.loc d) who v md).err = none →
      RunA (.effs d (upd (G d) (S.loc d) who v md).effs) S S' l t →
      RunA (.update d who v md) S S' ((Ev.arrive d who v md, S, none) :: l)
        (if (upd (G d) (S.loc d) who v md).passRet then t else [])
  | enil {d S} : RunA (.effs d []) S S [] []
  | eretain {d md es S S' l t} :
      RunA (.effs d es) (retainMd 1 md S).1 S' l t →
      RunA (.effs d (.retain md :: es)) S S' (tag S (some d) (retainMd 1 md S).2 ++ l) t
  | erelease {d md es S S' l t} :
      RunA (.effs d es) (releaseMd md S).1 S' l t →
      RunA (.effs d (.release md :: es)) S S' (tag S (some d) (releaseMd md S).2 ++ l) t
  | eset {d s es S S' l t} :
      RunA (.effs d es) (S.setLoc d s) S' l t → RunA (.effs d (.set s :: es)) S S' l t
  | edetach {d es S S' l t} :
      RunA (.effs d es) (detachNode d S) S' l t → RunA (.effs d (.detach :: es)) S S' l t
  | eemit {d v md es S S1 l1 t1 S2 l2 t2} :
      RunA (.emit d v md) S S1 l1 t1 → RunA (.effs d es) S1 S2 l2 t2 →
      RunA (.effs d (.emit v md :: es)) S S2 (l1 ++ l2) (t1 ++ t2)
  | eetr {d v md es S S1 l1 t1 S2 l2 t2} :
      RunA (.emit d v md) S S1 l1 t1 → RunA (.effs d es) (etrPost md t1 S1).1 S2 l2 t2 →
      RunA (.effs d (.emitThenRelease v md :: es)) S S2 (l1 ++ tag S1 (some d) (etrPost md t1 S1).2 ++ l2)
        (t1 ++ t2)

/-- forgetting the instrumentation gives back the run -/
theorem RunA.toRun {c : Call} {S S' : State} {al : List AEv} {t : List Tok} (h : RunA G c S S' al t) :
    Run G c S S' (al.map (·.1)) t := by
  induction h with
  | emit _ ih => simpa using Run.emit ih
  | dnil => exact Run.dnil
  | dcons _ _ ih1 ih2 => simpa using Run.dcons ih1 ih2
  | sink hm he => simpa using Run.sink hm he
  | upd hs hu _ ih => simpa using Run.upd hs hu ih
  | enil => exact Run.enil
  | eretain _ ih => simpa using Run.eretain ih
  | erelease _ ih => simpa using Run.erelease ih
  | eset _ ih => exact Run.eset ih
  | edetach _ ih => exact Run.edetach ih
  | eemit _ _ ih1 ih2 => simpa using Run.eemit ih1 ih2
  | eetr _ _ ih1 ih2 => simpa using Run.eetr ih1 ih2

/-- every run has its instrumented version (the instrumentation is determined by the derivation) -/
theorem Run.toRunA {c : Call} {S S' : State} {l : List Ev} {t : List Tok} (h : Run G c S S' l t) :
    ∃ al, RunA G c S S' al t ∧ al.map (·.1) = l := by
  induction h with
  | emit _ ih => obtain ⟨al, h, rfl⟩ := ih; exact ⟨_, RunA.emit h, by simp⟩
  | dnil => exact ⟨_, RunA.dnil, rfl⟩
  | dcons _ _ ih1 ih2 =>
    obtain ⟨a1, h1, rfl⟩ := ih1; obtain ⟨a2, h2, rfl⟩ := ih2
    exact ⟨_, RunA.dcons h1 h2, by simp⟩
  | sink hm he => exact ⟨_, RunA.sink hm he, by simp⟩
  | upd hs hu _ ih => obtain ⟨al, h, rfl⟩ := ih; exact ⟨_, RunA.upd hs hu h, by simp⟩
  | enil => exact ⟨_, RunA.enil, rfl⟩
  | eretain _ ih => obtain ⟨al, h, rfl⟩ := ih; exact ⟨_, RunA.eretain h, by simp⟩
  | erelease _ ih => obtain ⟨al, h, rfl⟩ := ih; exact ⟨_, RunA.erelease h, by simp⟩
  | eset _ ih => obtain ⟨al, h, rfl⟩ := ih; exact ⟨_, RunA.eset h, rfl⟩
  | edetach _ ih => obtain ⟨al, h, rfl⟩ := ih; exact ⟨_, RunA.edetach h, rfl⟩
  | eemit _ _ ih1 ih2 =>
    obtain ⟨a1, h1, rfl⟩ := ih1; obtain ⟨a2, h2, rfl⟩ := ih2
    exact ⟨_, RunA.eemit h1 h2, by simp⟩
  | eetr _ _ ih1 ih2 =>
    obtain ⟨a1, h1, rfl⟩ := ih1; obtain ⟨a2, h2, rfl⟩ := ih2
    exact ⟨_, RunA.eetr h1 h2, by simp⟩

/-- the holders of `r` other than the node whose `update` body is executing (`some d`); all of them for
`none` -/
def holdersExcept (nodes : List NodeId) (w : Option NodeId) (S : State) (r : Nat) : Nat :=
  nodesHold G (nodes.filter (fun i => decide (some i ≠ w))) S.loc r + pendHolds S.pending r + waitHolds S.waiters r

theorem holdersExcept_none (nodes : List NodeId) (S : State) (r : Nat) :
    holdersExcept G nodes none S r = holders G nodes S r := by
  have : nodes.filter (fun i => decide (some i ≠ (none : Option NodeId))) = nodes := by
    rw [List.filter_eq_self]; intro i _; simp
  simp only [holdersExcept, holders, this]

theorem sum_filter_ne_add_le (f : NodeId → Nat) {nodes : List NodeId} {d : NodeId} (hd : d ∈ nodes) :
    ((nodes.filter (fun i => decide (some i ≠ some d))).map f).sum + f d ≤ (nodes.map f).sum := by
  have hle : ∀ l : List NodeId, ((l.filter (fun i => decide (some i ≠ some d))).map f).sum ≤ (l.map f).sum := by
    intro l
    induction l with
    | nil => simp
    | cons a as ih =>
      by_cases ha : a = d
      · simp only [List.filter_cons, ha, ne_eq, not_true_eq_false, decide_false, Bool.false_eq_true, if_false,
          List.map_cons, List.sum_cons] at ih ⊢
        omega
      · have hne : ¬ (some a = some d) := fun e => ha (Option.some.inj e)
        simp only [List.filter_cons, ne_eq, hne, not_false_eq_true, decide_true, if_true,
          List.map_cons, List.sum_cons] at ih ⊢
        omega
  induction nodes with
  | nil => simp at hd
  | cons a as ih =>
    by_cases ha : a = d
    · have := hle as
      simp only [List.filter_cons, ha, ne_eq, not_true_eq_false, decide_false, Bool.false_eq_true, if_false,
          List.map_cons, List.sum_cons] at this ⊢
      omega
    · have hd' : d ∈ as := by
        rcases List.mem_cons.1 hd with h | h
        · exact absurd h.symm ha
        · exact h
      have := ih hd'
      have hne : ¬ (some a = some d) := fun e => ha (Option.some.inj e)
      simp only [List.filter_cons, ne_eq, hne, not_false_eq_true, decide_true, if_true,
          List.map_cons, List.sum_cons] at this ⊢
      omega
/-- what `holdersExcept … = 0` says: no running consumer carries `r`, no suspended flush awaits it, no node
other than the excepted one buffers it -/
theorem holdersExcept_zero {nodes : List NodeId} {w : Option NodeId} {S : State} {r : Nat}
    (h : holdersExcept G nodes w S r = 0) :
    pendHolds S.pending r = 0 ∧ waitHolds S.waiters r = 0 ∧
      ∀ i ∈ nodes, some i ≠ w → nodeHolds (G i) (S.loc i) r = 0 := by
  simp only [holdersExcept] at h
  refine ⟨by omega, by omega, fun i hi hw => ?_⟩
  have hm : i ∈ nodes.filter (fun i => decide (some i ≠ w)) := List.mem_filter.2 ⟨hi, by simpa using hw⟩
  have := le_sum_map (fun i => nodeHolds (G i) (S.loc i) r) hm
  simp only [nodesHold] at h
  omega

/-- at every `fire r` of the instrumented log: in the state in which the firing release started, nobody but
(possibly) the node performing it holds `r` -/
def Quiet (nodes : List NodeId) (r : Nat) (al : List AEv) : Prop :=
  ∀ x ∈ al, x.1 = Ev.fire r → holdersExcept G nodes x.2.2 x.2.1 r = 0

theorem Quiet.nil (nodes : List NodeId) (r : Nat) : Quiet G nodes r [] := fun x hx => by simp at hx
theorem Quiet.append {nodes : List NodeId} {r : Nat} {a b : List AEv} (h1 : Quiet G nodes r a)
    (h2 : Quiet G nodes r b) : Quiet G nodes r (a ++ b) := by
  intro x hx
  rcases List.mem_append.1 hx with h | h
  · exact h1 x h
  · exact h2 x h
theorem Quiet.cons {nodes : List NodeId} {r : Nat} {x : AEv} {a : List AEv} (h0 : x.1 ≠ Ev.fire r)
    (h : Quiet G nodes r a) : Quiet G nodes r (x :: a) := by
  intro y hy
  rcases List.mem_cons.1 hy with rfl | hy
  · intro e; exact absurd e h0
  · exact h y hy
theorem Quiet.tag_nofire {nodes : List NodeId} {r : Nat} {X : State} {w : Option NodeId} {l : List Ev}
    (h : Ev.fire r ∉ l) : Quiet G nodes r (tag X w l) := by
  intro x hx e
  exact absurd (e ▸ (mem_tag hx).1) h
theorem Quiet.tag {nodes : List NodeId} {r : Nat} {X : State} {w : Option NodeId} {l : List Ev}
    (h : Ev.fire r ∈ l → holdersExcept G nodes w X r = 0) : Quiet G nodes r (tag X w l) := by
  intro x hx e
  obtain ⟨h1, h2, h3⟩ := mem_tag hx
  rw [h2, h3]; exact h (e ▸ h1)

theorem fire_in_releaseMd {r : Nat} {md : Meta} {X : State} (h : Ev.fire r ∈ (releaseMd md X).2) :
    X.count r - (wMd r md : Int) ≤ 0 := by
  have hl := releaseMd_log r md X
  have := hl.2.fire_final_le (releaseMd_nonpos r md X) h
  rw [← hl.1, releaseMd_count] at this
  exact this

theorem no_fire_retainMd (r k : Nat) (md : Meta) (S : State) : Ev.fire r ∉ (retainMd k md S).2 :=
  fun h => (retainMd_quietFire r k md S _ h).2 rfl
theorem no_fire_emitPre (r : Nat) (S : State) (n : NodeId) (md : Meta) : Ev.fire r ∉ (emitPre S n md).2 :=
  fun h => (emitPre_quietFire r S n md _ h).2 rfl
theorem no_fire_sinkRes (r : Nat) (m : SinkMode) (d who : NodeId) (v : Val) (md : Meta) (S : State) :
    Ev.fire r ∉ (sinkRes m d who v md S).log := by
  unfold sinkRes
  cases m with
  | sync fn => simp only []; split <;> simp [Res.fail]
  | async =>
    simp only [List.cons_append, List.nil_append]
    intro h
    simp only [List.mem_cons] at h
    rcases h with h | h | h
    · cases h
    · cases h
    · split at h
      · simp at h
      · exact no_fire_retainMd r 1 md S h

/-- the moment invariant per call kind: same requirements on the caller as `SafeP` -/
def MomP (nodes : List NodeId) (r : Nat) : Call → State → List AEv → Prop
  | .emit _ _ _, S, al => 0 ≤ excess G nodes S r → Quiet G nodes r al
  | .deliver ds _ _ md, S, al => (ds.length : Int) * (wMd r md : Int) ≤ excess G nodes S r → Quiet G nodes r al
  | .update _ _ _ md, S, al => (wMd r md : Int) ≤ excess G nodes S r → Quiet G nodes r al
  | .effs d es, S, al => ∀ (c mIn E0 : Int), BodyOK (G d) r mIn es (S.loc d) c → 0 ≤ c → 0 ≤ E0 →
      excess G nodes S r = E0 + c - (nodeHolds (G d) (S.loc d) r : Int) → Quiet G nodes r al

theorem holdersExcept_some_zero {nodes : List NodeId} {S : State} {d : NodeId} {r : Nat} (hd : d ∈ nodes)
    (h : (holders G nodes S r : Int) ≤ (nodeHolds (G d) (S.loc d) r : Int)) :
    holdersExcept G nodes (some d) S r = 0 := by
  have := sum_filter_ne_add_le (fun i => nodeHolds (G i) (S.loc i) r) hd
  simp only [holdersExcept, holders, nodesHold] at h ⊢
  omega

theorem runA_moment {nodes : List NodeId} (hn : nodes.Nodup) (r : Nat)
    {c : Call} {S S' : State} {al : List AEv} {t : List Tok} (h : RunA G c S S' al t) :
    WF nodes S → CallIn nodes c → InvFrom G nodes (callLo c) S → MomP G nodes r c S al := by
  induction h with
  | @emit n v md S S' l t _ ih =>
    intro hW hC hI hE
    have hW1 : WF nodes (emitPre S n md).1 := hW.of_eq (by simp)
    have ih' := ih hW1 (fun d hd => ⟨hW.closed n hC d hd, hW.acyclic n d hd⟩) (hI.of_eq G (by simp))
      (by rw [excess_emitPre]; simp only [Int.natCast_mul]; omega)
    exact Quiet.cons G (fun e => by cases e)
      (Quiet.append G (Quiet.tag_nofire G (no_fire_emitPre r S n md)) ih')
  | dnil => intro _ _ _ _; exact Quiet.nil G nodes r
  | @dcons d ds n v md S S1 l1 t1 S2 l2 t2 h1 _ ih1 ih2 =>
    intro hW hC hI hE
    have hd := hC d (by simp)
    have hI0 : InvFrom G nodes d S := hI.mono G (by have := hd.2; simp only [callLo]; unfold NodeId at *; omega)
    simp only [List.length_cons, Int.natCast_add, Int.add_mul] at hE
    have hw0 : (0 : Int) ≤ (ds.length : Int) * (wMd r md : Int) := Int.mul_nonneg (by omega) (by omega)
    have s1 := ih1 hW hd.1 hI0 (by omega)
    obtain ⟨e1, hI1⟩ := run_bal' G hn r h1.toRun hW hd.1 hI0
    have hW1 : WF nodes (releaseMd md S1).1 := (hW.run G h1.toRun).of_eq (by simp)
    have hI1' : InvFrom G nodes (n + 1) (releaseMd md S1).1 := by
      intro i hi hl
      rw [releaseMd_loc]
      by_cases hid : i < d
      · rw [run_update_loc_below G h1.toRun hW.acyclic hid]; exact hI i hi hl
      · exact hI1 i hi (by unfold NodeId at *; omega)
    have hc1 := count_eq_excess G nodes S1 r
    have s3 := ih2 hW1 (fun x hx => hC x (by simp [hx])) hI1' (by rw [excess_releaseMd, e1]; omega)
    refine Quiet.append G (Quiet.append G s1 (Quiet.tag G (fun hf => ?_))) s3
    have := fire_in_releaseMd hf
    rw [holdersExcept_none]; omega
  | @sink d who v md S m hm he =>
    intro _ _ _ _
    exact Quiet.tag_nofire G (no_fire_sinkRes r m d who v md S)
  | @upd d who v md S S' l t hs hu _ ih =>
    intro hW hC hI hE
    have hb := kindOK_all (G d) r (S.loc d) who v md (hI d hC (Nat.le_refl _)) hu
    have := ih hW hC (hI.mono G (by simp [callLo])) _ _ (excess G nodes S r) hb (by omega) (by omega) (by omega)
    exact Quiet.cons G (fun e => by cases e) this
  | enil => intro _ _ _ _ _ _ _ _ _ _; exact Quiet.nil G nodes r
  | @eretain d md es S S' l t _ ih =>
    intro hW hC hI c mIn E0 hb hc0 hE0 hE
    simp only [BodyOK] at hb
    have hW1 : WF nodes (retainMd 1 md S).1 := hW.of_eq (by simp)
    have s2 := ih hW1 hC (hI.of_eq G (by simp)) (c + (wMd r md : Int)) mIn E0 (by simpa using hb.2) (by omega) hE0
      (by rw [excess_retainMd]; simp only [retainMd_loc, Nat.one_mul]; omega)
    exact Quiet.append G (Quiet.tag_nofire G (no_fire_retainMd r 1 md S)) s2
  | @erelease d md es S S' l t _ ih =>
    intro hW hC hI c mIn E0 hb hc0 hE0 hE
    simp only [BodyOK] at hb
    have hc := count_eq_excess G nodes S r
    have hW1 : WF nodes (releaseMd md S).1 := hW.of_eq (by simp)
    have s2 := ih hW1 hC (hI.of_eq G (by simp)) (c - (wMd r md : Int)) mIn E0 (by simpa using hb.2) (by omega) hE0
      (by rw [excess_releaseMd]; simp only [releaseMd_loc]; omega)
    refine Quiet.append G (Quiet.tag G (fun hf => ?_)) s2
    have := fire_in_releaseMd hf
    exact holdersExcept_some_zero G hC (by omega)
  | @eset d s es S S' l t _ ih =>
    intro hW hC hI c mIn E0 hb hc0 hE0 hE
    simp only [BodyOK] at hb
    have hI1 : InvFrom G nodes (d + 1) (S.setLoc d s) := by
      intro i hi hl
      rw [setLoc_other S s (by unfold NodeId at *; omega)]; exact hI i hi hl
    have e := excess_setLoc G S d s r hn hC
    exact ih (hW.of_eq rfl) hC hI1 c mIn E0 (by simpa using hb) hc0 hE0 (by rw [setLoc_same]; omega)
  | @edetach d es S S' l t _ ih =>
    intro hW hC hI c mIn E0 hb hc0 hE0 hE
    simp only [BodyOK] at hb
    have hW1 : WF nodes (detachNode d S) := hW.of_sublist (detachNode_downs d S)
    exact ih hW1 hC (hI.of_eq G (by simp)) c mIn E0 (by simpa using hb) hc0 hE0
      (by rw [excess_detachNode, detachNode_loc]; exact hE)
  | @eemit d v md es S S1 l1 t1 S2 l2 t2 h1 _ ih1 ih2 =>
    intro hW hC hI c mIn E0 hb hc0 hE0 hE
    simp only [BodyOK] at hb
    obtain ⟨e1, hI1⟩ := run_bal' G hn r h1.toRun hW hC hI
    have hl := run_emit_loc_self G h1.toRun hW.acyclic (Nat.le_refl d)
    have s1 := ih1 hW hC hI (by omega)
    have s2 := ih2 (hW.run G h1.toRun) hC hI1 c mIn E0 (by rw [hl]; exact hb.2.2) hc0 hE0 (by rw [e1, hl]; exact hE)
    exact Quiet.append G s1 s2
  | @eetr d v md es S S1 l1 t1 S2 l2 t2 h1 _ ih1 ih2 =>
    intro hW hC hI c mIn E0 hb hc0 hE0 hE
    simp only [BodyOK] at hb
    obtain ⟨e1, hI1⟩ := run_bal' G hn r h1.toRun hW hC hI
    have hl := run_emit_loc_self G h1.toRun hW.acyclic (Nat.le_refl d)
    have hW1' : WF nodes (etrPost md t1 S1).1 := (hW.run G h1.toRun).of_eq (by simp)
    have hc1 := count_eq_excess G nodes S1 r
    have s1 := ih1 hW hC hI (by omega)
    have s3 := ih2 hW1' hC (hI1.of_eq G (by simp)) (c - (wMd r md : Int)) mIn E0
      (by simp only [etrPost_loc]; rw [hl]; exact hb.2.2.2) (by omega) hE0
      (by rw [excess_etrPost, e1, etrPost_loc, hl]; omega)
    refine Quiet.append G (Quiet.append G s1 (Quiet.tag G (fun hf => ?_))) s3
    unfold etrPost at hf
    split at hf
    · have := fire_in_releaseMd hf
      refine holdersExcept_some_zero G hC ?_
      rw [hl]; omega
    · simp at hf

/-- Top-level `_emit` from a quiescent state: in its instrumented log every `fire r` happens in a state where
nobody holds `r`, except possibly the node executing the release in its own body. -/
theorem emit_moment {nodes : List NodeId} (hn : nodes.Nodup) {n : NodeId} {v : Val} {md : Meta} {S S' : State}
    {l : List Ev} {t : List Tok} (hG : Good G nodes S) (hin : n ∈ nodes) (h : Run G (.emit n v md) S S' l t) :
    ∃ al, RunA G (.emit n v md) S S' al t ∧ al.map (·.1) = l ∧ ∀ r, Quiet G nodes r al := by
  obtain ⟨al, ha, hl⟩ := Run.toRunA G h
  refine ⟨al, ha, hl, fun r => ?_⟩
  exact runA_moment G hn r ha hG.wf hin (hG.inv.mono G (Nat.zero_le _)) (by rw [hG.excess_zero G r]; omega)

/-- the same for `collect.flush()` -/
theorem flush_moment {nodes : List NodeId} (hn : nodes.Nodup) {d : NodeId} {S S' : State}
    {l : List Ev} {t : List Tok} (hG : Good G nodes S) (hin : d ∈ nodes) (hk : G d = .collect)
    (h : Run G (.effs d (flushProg (S.loc d))) S S' l t) :
    ∃ al, RunA G (.effs d (flushProg (S.loc d))) S S' al t ∧ al.map (·.1) = l ∧ ∀ r, Quiet G nodes r al := by
  obtain ⟨al, ha, hl⟩ := Run.toRunA G h
  refine ⟨al, ha, hl, fun r => ?_⟩
  have hb : BodyOK (G d) r 0 (flushProg (S.loc d)) (S.loc d) (nodeHolds (G d) (S.loc d) r : Int) := by
    rw [hk]; exact bodyOK_flushProg r _
  exact runA_moment G hn r ha hG.wf hin (hG.inv.mono G (Nat.zero_le _)) _ 0 0 hb (by omega) (by omega)
    (by rw [hG.excess_zero G r]; omega)


end StreamzVerif.Graph.RefCount
