import StreamzVerif.Proofs.WindowGroupby
/-!
C07: what pandas computes on a list of rows (the window), written directly on the list of
non-NaN values, and the lemmas tying the moments used by the streaming aggregations to it.
-/
namespace StreamzVerif.Window

/-- The non-NaN values of the aggregated column, in order. -/
def values (W : List Row) : List Rat := W.filterMap (·.val)

def lsum : List Rat → Rat
  | [] => 0
  | x :: l => x + lsum l

/-- `Series.sum()` -/
def pdSum (W : List Row) : Rat := lsum (values W)
/-- `Series.count()` -/
def pdCount (W : List Row) : Int := (values W).length
/-- `Series.size` -/
def pdSize (W : List Row) : Int := W.length
/-- `Series.mean()` : NaN (`none`) when there is no value. -/
def pdMean (W : List Row) : Option Rat :=
  if (values W).length = 0 then none else some (lsum (values W) / ((values W).length : Int))
/-- `Series.var(ddof)` by the textbook two-pass formula: squared deviations from the mean over
`n - ddof`; NaN when `n - ddof ≤ 0`. -/
def pdVar (ddof : Int) (W : List Row) : Option Rat :=
  let vs := values W
  let n : Int := vs.length
  if n - ddof ≤ 0 then none
  else
    let mean := lsum vs / n
    some (lsum (vs.map (fun x => (x - mean) * (x - mean))) / ((n - ddof : Int) : Rat))
/-- `Series.value_counts()[v]` (0 when `v` does not occur). -/
def pdValueCount (W : List Row) (v : Rat) : Int := (values W).count v
/-- The rows of group `k`. -/
def groupRows (W : List Row) (k : Int) : List Row := W.filter (fun r => r.key = k)

theorem sumV_eq (W : List Row) : sumV W = pdSum W := by
  unfold pdSum values
  induction W with
  | nil => rfl
  | cons r W ih =>
    cases hv : r.val with
    | none => simp only [sumV, hv, Option.getD_none, ih, List.filterMap_cons]; grind
    | some v => simp only [sumV, hv, Option.getD_some, ih, List.filterMap_cons, lsum]

theorem cnt_eq (W : List Row) : cnt W = pdCount W := by
  unfold pdCount values
  induction W with
  | nil => rfl
  | cons r W ih =>
    cases hv : r.val with
    | none => simp only [cnt, hv, ih, List.filterMap_cons]; simp
    | some v => simp only [cnt, hv, ih, List.filterMap_cons]; simp; omega

theorem sumSq_eq (W : List Row) : sumSq W = lsum ((values W).map (fun x => x * x)) := by
  unfold values
  induction W with
  | nil => rfl
  | cons r W ih =>
    cases hv : r.val with
    | none => simp only [sumSq, hv, ih, List.filterMap_cons]; grind
    | some v => simp only [sumSq, hv, ih, List.filterMap_cons, List.map_cons, lsum]

theorem vc_eq (W : List Row) (v : Rat) :
    size (W.filter (fun r => r.val = some v)) = pdValueCount W v := by
  unfold pdValueCount values size
  induction W with
  | nil => rfl
  | cons r W ih =>
    cases hv : r.val with
    | none => simp [hv, ih]
    | some w =>
      by_cases hw : w = v
      · subst hw; simp [hv] at ih ⊢; omega
      · simp [hv, hw] at ih ⊢; omega

/-- Σ(x-μ)² = Σx² - 2μ Σx + n μ². -/
theorem sumDev (vs : List Rat) (μ : Rat) :
    lsum (vs.map (fun x => (x - μ) * (x - μ))) =
      lsum (vs.map (fun x => x * x)) - 2 * μ * lsum vs + ((vs.length : Int) : Rat) * μ * μ := by
  induction vs with
  | nil => simp [lsum]; grind
  | cons x vs ih =>
    simp only [List.map_cons, lsum, ih, List.length_cons]
    have : (((vs.length + 1 : Nat) : Int) : Rat) = ((vs.length : Int) : Rat) + 1 := by
      push_cast; rfl
    rw [this]; grind

theorem meanRes_eq (W : List Row) : meanRes (sumV W) (cnt W) = pdMean W := by
  unfold meanRes pdMean
  rw [sumV_eq, cnt_eq]
  unfold pdSum pdCount
  by_cases h : (values W).length = 0
  · simp [h]
  · simp [h]

/-- The streaming two-moment formula equals the two-pass variance, for `ddof ∈ {0, 1}`. -/
theorem varRes_eq (ddof : Int) (hd : ddof = 0 ∨ ddof = 1) (W : List Row) :
    varRes ddof (sumV W) (sumSq W) (cnt W) = pdVar ddof W := by
  unfold varRes pdVar
  rw [sumV_eq, cnt_eq, sumSq_eq]
  unfold pdSum pdCount
  simp only
  generalize hn : ((values W).length : Int) = n
  have hn0 : 0 ≤ n := by omega
  rw [sumDev, hn]
  generalize lsum (values W) = s
  generalize lsum ((values W).map (fun x => x * x)) = q
  by_cases h0 : n = 0
  · subst h0
    rcases hd with rfl | rfl <;> simp
  · have hnq : (n : Rat) ≠ 0 := by
      intro h; apply h0; exact_mod_cast h
    rcases hd with rfl | rfl
    · have hpos : ¬ n - 0 ≤ 0 := by omega
      simp only [h0, ↓reduceIte, ne_eq, not_true_eq_false, Int.sub_zero]
      grind
    · by_cases h1 : n - 1 = 0
      · simp [h0, h1]
      · have hpos : ¬ n - 1 ≤ 0 := by omega
        have hd' : ((n - 1 : Int) : Rat) ≠ 0 := by
          intro h; apply h1; exact_mod_cast h
        simp only [h0, ↓reduceIte, ne_eq, h1, hpos]
        simp only [show ((1:Int) ≠ 0) from by decide]
        grind

end StreamzVerif.Window
