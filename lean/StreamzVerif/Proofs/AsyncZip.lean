import StreamzVerif.Model.AsyncZip
/-
Invariants and helper lemmas for the `zip(maxsize)` event-loop model (Model/AsyncZip.lean).

  1. reference counting: closed forms of `retainRefs`, `releaseRefs`, `deliverSinks`; when a callback fires
  2. sums over the upstream range, `setAt`
  3. the two branches of `arrive` (`arrive_fire`, `arrive_nofire`), `sinkDone`
  4. invariants of every reachable state (`Inv`): decomposition of the arrival histories into emitted tuples and
     buffers, some buffer empty, blocked producers are ahead, awaited tokens are pending, reference balance
  5. the producer discipline and the bound
-/
namespace StreamzVerif.AsyncZip

/-! ### 1. Reference counting -/

@[simp] theorem bump_same (c : Cnt) (r : Nat) (d : Int) : bump c r d r = c r + d := by simp [bump]
theorem bump_other (c : Cnt) {r q : Nat} (d : Int) (h : q ≠ r) : bump c r d q = c q := by simp [bump, h]

theorem retainRefs_apply (n : Nat) (l : List Nat) (c : Cnt) (r : Nat) :
    retainRefs n l c r = c r + n * l.count r := by
  induction l generalizing c with
  | nil => simp [retainRefs]
  | cons a l ih =>
    rw [retainRefs, ih, List.count_cons]
    by_cases h : a = r
    · subst h; simp [Int.mul_add, Int.add_assoc, Int.add_comm]
    · have h' : r ≠ a := fun e => h e.symm
      rw [bump_other _ _ h']; simp [h]

theorem releaseRefs_cons (a : Nat) (l : List Nat) (c : Cnt) :
    releaseRefs (a :: l) c =
      ((releaseRefs l (bump c a (-1))).1,
        if c a - 1 ≤ 0 then a :: (releaseRefs l (bump c a (-1))).2 else (releaseRefs l (bump c a (-1))).2) := rfl

theorem releaseRefs_count (l : List Nat) (c : Cnt) (r : Nat) :
    (releaseRefs l c).1 r = c r - l.count r := by
  induction l generalizing c with
  | nil => simp [releaseRefs]
  | cons a l ih =>
    rw [releaseRefs_cons]; simp only []
    rw [ih, List.count_cons]
    by_cases h : a = r
    · subst h; simp; omega
    · have h' : r ≠ a := fun e => h e.symm
      rw [bump_other _ _ h']; simp [h]

/-- a callback fires only when the count has dropped to ≤ 0 — and counts only go down during a release, so the
count at the end of the release is ≤ 0 as well -/
theorem releaseRefs_fired_mem {l : List Nat} {c : Cnt} {r : Nat} (h : r ∈ (releaseRefs l c).2) :
    r ∈ l ∧ c r - l.count r ≤ 0 := by
  induction l generalizing c with
  | nil => simp [releaseRefs] at h
  | cons a l ih =>
    rw [releaseRefs_cons] at h; simp only [] at h
    rw [List.count_cons]
    by_cases ha : a = r
    · subst ha
      refine ⟨by simp, ?_⟩
      by_cases hle : c a - 1 ≤ 0
      · simp; omega
      · rw [if_neg hle] at h
        have := (ih h).2
        rw [bump_same] at this
        simp; omega
    · have h' : r ≠ a := fun e => ha e.symm
      have hr : r ∈ (releaseRefs l (bump c a (-1))).2 := by
        split at h
        · rcases List.mem_cons.1 h with h | h
          · exact absurd h h'
          · exact h
        · exact h
      have := ih hr
      rw [bump_other _ _ h'] at this
      refine ⟨List.mem_cons_of_mem _ this.1, ?_⟩
      simp [ha]; omega

/-- the last release of `r` in the list sees the final count: if that is ≤ 0 the callback fired -/
theorem releaseRefs_fired_of {l : List Nat} {c : Cnt} {r : Nat} (hm : r ∈ l) (hle : c r - l.count r ≤ 0) :
    r ∈ (releaseRefs l c).2 := by
  induction l generalizing c with
  | nil => simp at hm
  | cons a l ih =>
    rw [releaseRefs_cons]; simp only []
    rw [List.count_cons] at hle
    by_cases ha : a = r
    · subst ha
      simp only [beq_self_eq_true, if_true] at hle
      by_cases hl : a ∈ l
      · have : a ∈ (releaseRefs l (bump c a (-1))).2 :=
          ih hl (by rw [bump_same]; omega)
        split
        · exact List.mem_cons_of_mem _ this
        · exact this
      · have h0 : l.count a = 0 := List.count_eq_zero.2 hl
        rw [h0] at hle
        rw [if_pos (by omega)]
        simp
    · have h' : r ≠ a := fun e => ha e.symm
      have hl : r ∈ l := by
        rcases List.mem_cons.1 hm with h | h
        · exact absurd h h'
        · exact h
      have : r ∈ (releaseRefs l (bump c a (-1))).2 :=
        ih hl (by rw [bump_other _ _ h']; simp [ha] at hle; omega)
      split
      · exact List.mem_cons_of_mem _ this
      · exact this

/-- number of asynchronous sinks -/
def asyncN (sinks : List Bool) : Nat := sinks.count true

theorem deliverSinks_count (refs : List Nat) (sinks : List Bool) (c : Cnt) (t : Tok) (r : Nat) :
    (deliverSinks refs sinks c t).1 r = c r + asyncN sinks * refs.count r - sinks.length * refs.count r := by
  induction sinks generalizing c t with
  | nil => simp [deliverSinks, asyncN]
  | cons a sinks ih =>
    rw [deliverSinks]; simp only []
    rw [ih, releaseRefs_count]
    cases a
    · simp [asyncN, Int.add_mul]; omega
    · simp [asyncN, retainRefs_apply, Int.add_mul]; omega

theorem deliverSinks_toks (refs : List Nat) (sinks : List Bool) (c : Cnt) (t : Tok) :
    (deliverSinks refs sinks c t).2.2 = List.range' t (asyncN sinks) := by
  induction sinks generalizing c t with
  | nil => simp [deliverSinks, asyncN]
  | cons a sinks ih =>
    rw [deliverSinks]; simp only []
    rw [ih]
    cases a
    · simp [asyncN]
    · simp [asyncN, List.range'_succ]

/-- during the downstream loop a callback of `r` can only fire if the loop started with
`count r ≤ len(downstreams) * (occurrences of r)`, i.e. with nothing but `_emit`'s own references left -/
theorem deliverSinks_fired_mem {refs : List Nat} {sinks : List Bool} {c : Cnt} {t : Tok} {r : Nat}
    (h : r ∈ (deliverSinks refs sinks c t).2.1) :
    r ∈ refs ∧ c r - sinks.length * refs.count r ≤ 0 := by
  induction sinks generalizing c t with
  | nil => simp [deliverSinks] at h
  | cons a sinks ih =>
    rw [deliverSinks] at h; simp only [] at h
    rcases List.mem_append.1 h with h | h
    · have := releaseRefs_fired_mem h
      refine ⟨this.1, ?_⟩
      have h2 := this.2
      cases a
      · simp only [Bool.false_eq_true, if_false] at h2
        simp [Int.add_mul]
        have : (0 : Int) ≤ (sinks.length : Int) * (refs.count r : Int) :=
          Int.mul_nonneg (Int.natCast_nonneg _) (Int.natCast_nonneg _)
        omega
      · simp only [if_true, retainRefs_apply] at h2
        simp [Int.add_mul]
        have : (0 : Int) ≤ (sinks.length : Int) * (refs.count r : Int) :=
          Int.mul_nonneg (Int.natCast_nonneg _) (Int.natCast_nonneg _)
        omega
    · have := ih h
      refine ⟨this.1, ?_⟩
      have h2 := this.2
      rw [releaseRefs_count] at h2
      cases a
      · simp only [Bool.false_eq_true, if_false] at h2
        simp [Int.add_mul]; omega
      · simp only [if_true, retainRefs_apply] at h2
        simp [Int.add_mul]; omega

/-! ### 2. Sums over the upstream range -/

def sumR (k : Nat) (F : Nat → Nat) : Nat := ((List.range k).map F).sum

@[simp] theorem sumR_zero (F : Nat → Nat) : sumR 0 F = 0 := rfl
theorem sumR_succ (k : Nat) (F : Nat → Nat) : sumR (k + 1) F = sumR k F + F k := by
  simp [sumR, List.range_succ]

theorem sumR_congr {k : Nat} {F G : Nat → Nat} (h : ∀ v, v < k → F v = G v) : sumR k F = sumR k G := by
  induction k with
  | zero => rfl
  | succ k ih =>
    rw [sumR_succ, sumR_succ, ih (fun v hv => h v (by omega)), h k (by omega)]

theorem sumR_add (k : Nat) (F G : Nat → Nat) : sumR k (fun v => F v + G v) = sumR k F + sumR k G := by
  induction k with
  | zero => rfl
  | succ k ih => rw [sumR_succ, sumR_succ, sumR_succ, ih]; omega

theorem sumR_update {k u : Nat} {F F' : Nat → Nat} (hu : u < k) (h : ∀ v, v ≠ u → F' v = F v) :
    sumR k F' + F u = sumR k F + F' u := by
  induction k with
  | zero => omega
  | succ k ih =>
    rw [sumR_succ, sumR_succ]
    by_cases hk : u = k
    · subst hk
      rw [sumR_congr (F := F') (G := F) (fun v hv => h v (by omega))]; omega
    · have := ih (by omega)
      rw [h k (fun e => hk e.symm)]; omega

theorem count_flatMap_range (k : Nat) (f : Nat → List Nat) (r : Nat) :
    ((List.range k).flatMap f).count r = sumR k (fun v => (f v).count r) := by
  induction k with
  | zero => rfl
  | succ k ih => rw [List.range_succ, List.flatMap_append, List.count_append, ih, sumR_succ]; simp

variable {α : Type}

@[simp] theorem setAt_same {β : Type} (f : Nat → β) (u : Nat) (b : β) : setAt f u b u = b := by simp [setAt]
theorem setAt_other {β : Type} (f : Nat → β) {u v : Nat} (b : β) (h : v ≠ u) : setAt f u b v = f v := by
  simp [setAt, h]

theorem allNonempty_iff {β : Type} (k : Nat) (bufs : Nat → List β) :
    allNonempty k bufs = true ↔ ∀ v, v < k → bufs v ≠ [] := by
  simp [allNonempty, List.all_eq_true, List.mem_range]

/-! ### 3. The two branches of `arrive` -/

/-- the arrival at `u` completes a tuple: its own buffer was empty, every other one is not -/
def Fires (cfg : Cfg) (s : St α) (u : Nat) : Prop :=
  s.bufs u = [] ∧ ∀ v, v < cfg.k → v ≠ u → s.bufs v ≠ []

theorem cond_iff (cfg : Cfg) (s : St α) {u : Nat} (e : Entry α) :
    ((s.bufs u ++ [e]).length = 1 ∧ allNonempty cfg.k (setAt s.bufs u (s.bufs u ++ [e])) = true) ↔
      Fires cfg s u := by
  rw [allNonempty_iff]
  constructor
  · rintro ⟨h1, h2⟩
    refine ⟨?_, fun v hv hne => ?_⟩
    · cases hb : s.bufs u with
      | nil => rfl
      | cons a l => rw [hb] at h1; simp at h1
    · have := h2 v hv; rwa [setAt_other _ _ hne] at this
  · rintro ⟨h1, h2⟩
    refine ⟨by rw [h1]; rfl, fun v hv => ?_⟩
    by_cases hne : v = u
    · subst hne; simp
    · rw [setAt_other _ _ hne]; exact h2 v hv hne

def bufsA (s : St α) (u : Nat) (e : Entry α) : Nat → List (Entry α) := setAt s.bufs u (s.bufs u ++ [e])
def arrsA (s : St α) (u : Nat) (e : Entry α) : Nat → List (Entry α) := setAt s.arrs u (s.arrs u ++ [e])
def tupA (cfg : Cfg) (s : St α) (u : Nat) (e : Entry α) : Nat → Option (Entry α) :=
  fun v => if v < cfg.k then (bufsA s u e v).head? else none
def mdAllA (cfg : Cfg) (s : St α) (u : Nat) (e : Entry α) : Meta :=
  (tupleList cfg.k (tupA cfg s u e)).flatMap (·.md)
/-- count table when `zip._emit` starts its downstream loop -/
def c3A (cfg : Cfg) (s : St α) (u : Nat) (e : Entry α) : Cnt :=
  retainRefs cfg.sinks.length (refsOf (mdAllA cfg s u e))
    (retainRefs 1 (refsOf e.md) (retainRefs 1 (refsOf e.md) s.count))
def dA (cfg : Cfg) (s : St α) (u : Nat) (e : Entry α) : Cnt × List Nat × List Tok :=
  deliverSinks (refsOf (mdAllA cfg s u e)) cfg.sinks (c3A cfg s u e) s.nextTok
def r5A (cfg : Cfg) (s : St α) (u : Nat) (e : Entry α) : Cnt × List Nat :=
  releaseRefs (refsOf (mdAllA cfg s u e)) (dA cfg s u e).1
def r6A (cfg : Cfg) (s : St α) (u : Nat) (e : Entry α) : Cnt × List Nat :=
  releaseRefs (refsOf e.md) (r5A cfg s u e).1

def fireSt (cfg : Cfg) (s : St α) (u : Nat) (e : Entry α) : St α :=
  { bufs := fun v => (bufsA s u e v).tail
    emits := s.emits.map wake ++ [(u, if (dA cfg s u e).2.2.isEmpty then .done else .awaiting (dA cfg s u e).2.2)]
    count := (r6A cfg s u e).1
    nextTok := s.nextTok + (dA cfg s u e).2.2.length
    pending := s.pending ++ (dA cfg s u e).2.2.map (fun t => (t, mdAllA cfg s u e))
    arrs := arrsA s u e
    outs := s.outs ++ [tupA cfg s u e]
    fired := s.fired ++ (dA cfg s u e).2.1 ++ (r5A cfg s u e).2 ++ (r6A cfg s u e).2 }

def r3A (s : St α) (e : Entry α) : Cnt × List Nat :=
  releaseRefs (refsOf e.md) (retainRefs 1 (refsOf e.md) (retainRefs 1 (refsOf e.md) s.count))

def nofireSt (cfg : Cfg) (s : St α) (u : Nat) (e : Entry α) : St α :=
  { s with
    bufs := bufsA s u e
    arrs := arrsA s u e
    count := (r3A s e).1
    fired := s.fired ++ (r3A s e).2
    emits := s.emits ++ [(u, if (s.bufs u ++ [e]).length > cfg.maxsize then .blocked else .done)] }

theorem arrive_ge (cfg : Cfg) (s : St α) {u : Nat} (x : α) (md : Meta) (hu : ¬ u < cfg.k) :
    arrive cfg s u x md = s := by
  unfold arrive; rw [if_neg hu]

theorem arrive_fire (cfg : Cfg) (s : St α) {u : Nat} (x : α) (md : Meta) (hu : u < cfg.k)
    (hf : Fires cfg s u) : arrive cfg s u x md = fireSt cfg s u ⟨x, md⟩ := by
  unfold arrive; rw [if_pos hu]
  simp only []
  rw [if_pos ((cond_iff cfg s ⟨x, md⟩).2 hf)]
  rfl

theorem arrive_nofire (cfg : Cfg) (s : St α) {u : Nat} (x : α) (md : Meta) (hu : u < cfg.k)
    (hf : ¬ Fires cfg s u) : arrive cfg s u x md = nofireSt cfg s u ⟨x, md⟩ := by
  unfold arrive; rw [if_pos hu]
  simp only []
  rw [if_neg (fun h => hf ((cond_iff cfg s ⟨x, md⟩).1 h))]
  rfl

theorem sinkDone_none (s : St α) {tok : Tok} (h : takeTok tok s.pending = none) : sinkDone s tok = s := by
  unfold sinkDone; rw [h]

theorem sinkDone_some (s : St α) {tok : Tok} {md : Meta} {rest : List (Tok × Meta)}
    (h : takeTok tok s.pending = some (md, rest)) :
    sinkDone s tok =
      { s with pending := rest, count := (releaseRefs (refsOf md) s.count).1,
               fired := s.fired ++ (releaseRefs (refsOf md) s.count).2,
               emits := s.emits.map (finishTok tok) } := by
  unfold sinkDone; rw [h]

/-! #### facts about the helper terms -/

theorem bufsA_same (s : St α) (u : Nat) (e : Entry α) : bufsA s u e u = s.bufs u ++ [e] := by simp [bufsA]
theorem bufsA_other (s : St α) {u v : Nat} (e : Entry α) (h : v ≠ u) : bufsA s u e v = s.bufs v := by
  simp [bufsA, setAt_other _ _ h]
theorem arrsA_same (s : St α) (u : Nat) (e : Entry α) : arrsA s u e u = s.arrs u ++ [e] := by simp [arrsA]
theorem arrsA_other (s : St α) {u v : Nat} (e : Entry α) (h : v ≠ u) : arrsA s u e v = s.arrs v := by
  simp [arrsA, setAt_other _ _ h]

theorem bufsA_length_ge (s : St α) (u v : Nat) (e : Entry α) : (s.bufs v).length ≤ (bufsA s u e v).length := by
  by_cases h : v = u
  · subst h; rw [bufsA_same]; simp
  · rw [bufsA_other _ _ h]; exact Nat.le_refl _

theorem bufsA_ne_nil {cfg : Cfg} {s : St α} {u : Nat} (e : Entry α) (hf : Fires cfg s u) {v : Nat} (hv : v < cfg.k) :
    bufsA s u e v ≠ [] := by
  by_cases h : v = u
  · subst h; rw [bufsA_same]; simp
  · rw [bufsA_other _ _ h]; exact hf.2 v hv h

theorem tupA_lt (cfg : Cfg) (s : St α) (u : Nat) (e : Entry α) {v : Nat} (hv : v < cfg.k) :
    tupA cfg s u e v = (bufsA s u e v).head? := by simp [tupA, hv]

theorem map_some_eq_head_tail {β : Type} (l : List β) (h : l ≠ []) :
    l.map some = l.head? :: l.tail.map some := by
  cases l with
  | nil => exact absurd rfl h
  | cons a t => rfl

theorem wake_fst (e : Nat × Status) : (wake e).1 = e.1 := by
  obtain ⟨u, st⟩ := e; cases st <;> rfl
theorem wake_ne_blocked (e : Nat × Status) : (wake e).2 ≠ .blocked := by
  obtain ⟨u, st⟩ := e; cases st <;> simp [wake]
theorem wake_awaiting {e : Nat × Status} {toks : List Tok} (h : (wake e).2 = .awaiting toks) :
    e.2 = .awaiting toks := by
  obtain ⟨u, st⟩ := e; cases st <;> simp_all [wake]

theorem finishTok_fst (tok : Tok) (e : Nat × Status) : (finishTok tok e).1 = e.1 := by
  obtain ⟨u, st⟩ := e; cases st <;> rfl
theorem finishTok_blocked (tok : Tok) (e : Nat × Status) : (finishTok tok e).2 = .blocked ↔ e.2 = .blocked := by
  obtain ⟨u, st⟩ := e
  cases st with
  | done => simp [finishTok]
  | blocked => simp [finishTok]
  | awaiting toks => simp only [finishTok]; split <;> simp
theorem finishTok_awaiting {tok : Tok} {e : Nat × Status} {toks' : List Tok}
    (h : (finishTok tok e).2 = .awaiting toks') :
    ∃ toks, e.2 = .awaiting toks ∧ toks' = toks.filter (· ≠ tok) ∧ toks' ≠ [] := by
  obtain ⟨u, st⟩ := e
  cases st with
  | done => simp [finishTok] at h
  | blocked => simp [finishTok] at h
  | awaiting toks =>
    simp only [finishTok] at h
    split at h
    · simp at h
    · next hne =>
      simp only [Status.awaiting.injEq] at h
      refine ⟨toks, rfl, h.symm, ?_⟩
      rw [← h]; simpa [List.isEmpty_iff] using hne

theorem takeTok_mem {tok : Tok} {l rest : List (Tok × Meta)} {md : Meta} (h : takeTok tok l = some (md, rest))
    {t : Tok} (ht : t ≠ tok) (hm : t ∈ l.map (·.1)) : t ∈ rest.map (·.1) := by
  induction l generalizing rest with
  | nil => simp [takeTok] at h
  | cons p ps ih =>
    rw [takeTok] at h
    split at h
    · next hp =>
      simp only [Option.some.injEq, Prod.mk.injEq] at h
      rw [← h.2]
      simp only [List.map_cons, List.mem_cons] at hm
      rcases hm with hm | hm
      · exact absurd (hm.trans hp) ht
      · exact hm
    · next hp =>
      cases hq : takeTok tok ps with
      | none => rw [hq] at h; simp at h
      | some q =>
        obtain ⟨md', rest'⟩ := q
        rw [hq] at h
        simp only [Option.map_some, Option.some.injEq, Prod.mk.injEq] at h
        obtain ⟨h1, h2⟩ := h
        subst h1
        rw [← h2]
        simp only [List.map_cons, List.mem_cons] at hm ⊢
        rcases hm with hm | hm
        · exact Or.inl hm
        · exact Or.inr (ih hq hm)

/-! #### references held -/

def bufRefs (L : List (Entry α)) : List Nat := L.flatMap (fun e => refsOf e.md)
def pendRefs (p : List (Tok × Meta)) : List Nat := p.flatMap (fun q => refsOf q.2)
/-- every reference held by the node's buffers or by an unfinished consumer, with multiplicity -/
def heldRefs (cfg : Cfg) (s : St α) : List Nat :=
  (List.range cfg.k).flatMap (fun u => bufRefs (s.bufs u)) ++ pendRefs s.pending
def held (cfg : Cfg) (s : St α) (r : Nat) : Nat := (heldRefs cfg s).count r

theorem held_eq (cfg : Cfg) (s : St α) (r : Nat) :
    held cfg s r = sumR cfg.k (fun u => (bufRefs (s.bufs u)).count r) + (pendRefs s.pending).count r := by
  simp [held, heldRefs, List.count_append, count_flatMap_range]

theorem refsOf_append (a b : Meta) : refsOf (a ++ b) = refsOf a ++ refsOf b := by simp [refsOf]

theorem refsOf_flatMap (l : List (Entry α)) : refsOf (l.flatMap (·.md)) = bufRefs l := by
  induction l with
  | nil => rfl
  | cons a l ih => simp [bufRefs, List.flatMap_cons, refsOf_append] at ih ⊢; rw [ih]

theorem bufRefs_append (a b : List (Entry α)) : bufRefs (a ++ b) = bufRefs a ++ bufRefs b := by
  simp [bufRefs]

/-- contribution of the head of a buffer -/
def headCount (r : Nat) : Option (Entry α) → Nat
  | some h => (refsOf h.md).count r
  | none => 0

theorem bufRefs_head_tail (L : List (Entry α)) (r : Nat) :
    (bufRefs L).count r = headCount r L.head? + (bufRefs L.tail).count r := by
  cases L with
  | nil => rfl
  | cons a t => simp [bufRefs, headCount, List.flatMap_cons]

theorem count_tupleList (k : Nat) (t : Nat → Option (Entry α)) (r : Nat) :
    (bufRefs (tupleList k t)).count r = sumR k (fun v => headCount r (t v)) := by
  induction k with
  | zero => rfl
  | succ k ih =>
    rw [sumR_succ, ← ih]
    simp only [tupleList, List.range_succ, List.filterMap_append, List.filterMap_cons, List.filterMap_nil]
    rw [bufRefs_append, List.count_append]
    cases t k <;> simp [bufRefs, headCount]

theorem pendRefs_map_const (toks : List Tok) (md : Meta) (r : Nat) :
    (pendRefs (toks.map (fun t => (t, md)))).count r = toks.length * (refsOf md).count r := by
  induction toks with
  | nil => simp [pendRefs]
  | cons a l ih =>
    simp only [pendRefs, List.map_cons, List.flatMap_cons, List.count_append, List.length_cons] at ih ⊢
    rw [ih, Nat.add_mul]; omega

theorem takeTok_refs {tok : Tok} {l rest : List (Tok × Meta)} {md : Meta} (h : takeTok tok l = some (md, rest))
    (r : Nat) : (pendRefs l).count r = (refsOf md).count r + (pendRefs rest).count r := by
  induction l generalizing rest with
  | nil => simp [takeTok] at h
  | cons p ps ih =>
    rw [takeTok] at h
    split at h
    · simp only [Option.some.injEq, Prod.mk.injEq] at h
      rw [← h.1, ← h.2]; simp [pendRefs, List.flatMap_cons]
    · cases hq : takeTok tok ps with
      | none => rw [hq] at h; simp at h
      | some q =>
        obtain ⟨md', rest'⟩ := q
        rw [hq] at h
        simp only [Option.map_some, Option.some.injEq, Prod.mk.injEq] at h
        obtain ⟨h1, h2⟩ := h
        subst h1
        rw [← h2]
        have := ih hq
        simp only [pendRefs, List.flatMap_cons, List.count_append] at this ⊢
        omega

theorem sumR_const_zero (k : Nat) : sumR k (fun _ => 0) = 0 := by
  induction k with
  | zero => rfl
  | succ k ih => rw [sumR_succ, ih]

theorem sumR_le {k : Nat} {F G : Nat → Nat} (h : ∀ v, v < k → F v ≤ G v) : sumR k F ≤ sumR k G := by
  induction k with
  | zero => exact Nat.le_refl _
  | succ k ih =>
    rw [sumR_succ, sumR_succ]
    have := ih (fun v hv => h v (by omega))
    have := h k (by omega)
    omega

theorem sumR_bufsA (cfg : Cfg) (s : St α) {u : Nat} (e : Entry α) (hu : u < cfg.k) (r : Nat) :
    sumR cfg.k (fun v => (bufRefs (bufsA s u e v)).count r) =
      sumR cfg.k (fun v => (bufRefs (s.bufs v)).count r) + (refsOf e.md).count r := by
  have h := sumR_update (F := fun v => (bufRefs (s.bufs v)).count r)
    (F' := fun v => (bufRefs (bufsA s u e v)).count r) hu
    (fun v hv => by rw [bufsA_other _ _ hv])
  rw [bufsA_same, bufRefs_append, List.count_append] at h
  have : (bufRefs [e]).count r = (refsOf e.md).count r := by simp [bufRefs]
  omega

theorem sumR_tails (cfg : Cfg) (s : St α) (u : Nat) (e : Entry α) (r : Nat) :
    sumR cfg.k (fun v => (bufRefs (bufsA s u e v)).count r) =
      (refsOf (mdAllA cfg s u e)).count r + sumR cfg.k (fun v => (bufRefs (bufsA s u e v).tail).count r) := by
  rw [mdAllA, refsOf_flatMap, count_tupleList, ← sumR_add]
  apply sumR_congr
  intro v hv
  rw [tupA_lt _ _ _ _ hv]
  exact bufRefs_head_tail _ _

/-! ### 4. Invariants of every reachable state -/

/-- `r` was attached to some element that arrived -/
def Seen (cfg : Cfg) (s : St α) (r : Nat) : Prop := ∃ u, u < cfg.k ∧ r ∈ bufRefs (s.arrs u)

structure Inv (cfg : Cfg) (s : St α) : Prop where
  /-- every arrival of upstream `u` is, by position, in an emitted tuple or still in the buffer -/
  decomp : ∀ u, u < cfg.k → (s.arrs u).map some = s.outs.map (· u) ++ (s.bufs u).map some
  empty : 0 < cfg.k → ∃ u, u < cfg.k ∧ s.bufs u = []
  outs0 : cfg.k = 0 → s.outs = []
  ups : ∀ e ∈ s.emits, e.1 < cfg.k
  /-- a producer waiting on the condition is more than `maxsize` ahead -/
  ahead : ∀ e ∈ s.emits, e.2 = .blocked → cfg.maxsize < (s.bufs e.1).length
  await : ∀ e ∈ s.emits, ∀ toks, e.2 = .awaiting toks → toks ≠ [] ∧ ∀ t ∈ toks, t ∈ s.pending.map (·.1)
  /-- count = number of holders (buffers and unfinished consumers), for every counter -/
  balance : ∀ r, s.count r = held cfg s r
  zeroFired : ∀ r, Seen cfg s r → s.count r ≤ 0 → r ∈ s.fired

theorem inv_init (cfg : Cfg) : Inv cfg (init α) where
  decomp := fun u _ => rfl
  empty := fun hk => ⟨0, hk, rfl⟩
  outs0 := fun _ => rfl
  ups := fun e he => by simp [init] at he
  ahead := fun e he => by simp [init] at he
  await := fun e he => by simp [init] at he
  balance := fun r => by
    rw [held_eq]
    simp [init, bufRefs, pendRefs, sumR_const_zero]
  zeroFired := fun r ⟨u, _, hr⟩ _ => by simp [init, bufRefs] at hr

theorem decompA {cfg : Cfg} {s : St α} (h : Inv cfg s) (u : Nat) (e : Entry α) {v : Nat} (hv : v < cfg.k) :
    (arrsA s u e v).map some = s.outs.map (· v) ++ (bufsA s u e v).map some := by
  by_cases hvu : v = u
  · subst hvu
    rw [arrsA_same, bufsA_same, List.map_append, List.map_append, h.decomp v hv, List.append_assoc]
  · rw [arrsA_other _ _ hvu, bufsA_other _ _ hvu]; exact h.decomp v hv

theorem seenA {cfg : Cfg} {s : St α} {u : Nat} {e : Entry α} {r : Nat}
    (hs : ∃ v, v < cfg.k ∧ r ∈ bufRefs (arrsA s u e v)) (hr : r ∉ refsOf e.md) : Seen cfg s r := by
  obtain ⟨v, hv, hm⟩ := hs
  by_cases hvu : v = u
  · subst hvu
    rw [arrsA_same, bufRefs_append, List.mem_append] at hm
    rcases hm with hm | hm
    · exact ⟨v, hv, hm⟩
    · simp [bufRefs] at hm; exact absurd hm hr
  · rw [arrsA_other _ _ hvu] at hm; exact ⟨v, hv, hm⟩

theorem count_pos_of_mem {l : List Nat} {r : Nat} (h : r ∈ l) : 1 ≤ l.count r :=
  List.count_pos_iff.2 h

theorem count_zero_of_not_mem {l : List Nat} {r : Nat} (h : r ∉ l) : l.count r = 0 :=
  List.count_eq_zero.2 h

theorem inv_nofire {cfg : Cfg} {s : St α} {u : Nat} (e : Entry α) (hu : u < cfg.k) (hf : ¬ Fires cfg s u)
    (h : Inv cfg s) : Inv cfg (nofireSt cfg s u e) := by
  have hcount : ∀ r, (nofireSt cfg s u e).count r = s.count r + (refsOf e.md).count r := by
    intro r
    show (r3A s e).1 r = _
    rw [r3A, releaseRefs_count, retainRefs_apply, retainRefs_apply]; omega
  have hheld : ∀ r, held cfg (nofireSt cfg s u e) r = held cfg s r + (refsOf e.md).count r := by
    intro r
    rw [held_eq, held_eq]
    show sumR cfg.k (fun v => (bufRefs (bufsA s u e v)).count r) + (pendRefs s.pending).count r = _
    rw [sumR_bufsA cfg s e hu]; omega
  refine ⟨fun v hv => decompA h u e hv, fun hk => ?_, h.outs0, ?_, ?_, ?_, ?_, ?_⟩
  · -- some buffer is still empty
    obtain ⟨w, hw, hwe⟩ := h.empty hk
    show ∃ v, v < cfg.k ∧ bufsA s u e v = []
    by_cases hwu : w = u
    · subst hwu
      have : ¬ ∀ v, v < cfg.k → v ≠ w → s.bufs v ≠ [] := fun hall => hf ⟨hwe, hall⟩
      obtain ⟨v, hv⟩ := Classical.not_forall.1 this
      have hv1 : v < cfg.k := Classical.byContradiction fun hc => hv (fun h1 => absurd h1 hc)
      have hv2 : v ≠ w := Classical.byContradiction fun hc => hv (fun _ h2 => absurd h2 hc)
      have hv3 : s.bufs v = [] := Classical.byContradiction fun hc => hv (fun _ _ => hc)
      exact ⟨v, hv1, by rw [bufsA_other _ _ hv2]; exact hv3⟩
    · exact ⟨w, hw, by rw [bufsA_other _ _ hwu]; exact hwe⟩
  · intro e' he'
    rcases List.mem_append.1 he' with he' | he'
    · exact h.ups e' he'
    · simp only [List.mem_singleton] at he'; subst he'; exact hu
  · intro e' he' hb
    show cfg.maxsize < (bufsA s u e e'.1).length
    rcases List.mem_append.1 he' with he' | he'
    · exact Nat.lt_of_lt_of_le (h.ahead e' he' hb) (bufsA_length_ge _ _ _ _)
    · simp only [List.mem_singleton] at he'; subst he'
      simp only [] at hb ⊢
      rw [bufsA_same]
      by_cases hgt : (s.bufs u ++ [e]).length > cfg.maxsize
      · exact hgt
      · rw [if_neg hgt] at hb; cases hb
  · intro e' he' toks ht
    rcases List.mem_append.1 he' with he' | he'
    · exact h.await e' he' toks ht
    · simp only [List.mem_singleton] at he'; subst he'
      simp only [] at ht
      split at ht <;> cases ht
  · intro r; rw [hcount, hheld, h.balance]; simp
  · intro r hs hle
    show r ∈ s.fired ++ (r3A s e).2
    rw [hcount] at hle
    have hb := h.balance r
    by_cases hr : r ∈ refsOf e.md
    · have := count_pos_of_mem hr; omega
    · rw [count_zero_of_not_mem hr] at hle
      exact List.mem_append_left _ (h.zeroFired r (seenA hs hr) (by omega))

theorem dA_toks_length (cfg : Cfg) (s : St α) (u : Nat) (e : Entry α) :
    (dA cfg s u e).2.2.length = asyncN cfg.sinks := by
  rw [dA, deliverSinks_toks]; simp

/-- the count table after each phase of a tuple-completing arrival, in closed form -/
theorem fire_counts (cfg : Cfg) (s : St α) (u : Nat) (e : Entry α) (r : Nat) :
    c3A cfg s u e r = s.count r + 2 * (refsOf e.md).count r
        + cfg.sinks.length * (refsOf (mdAllA cfg s u e)).count r ∧
    (dA cfg s u e).1 r = s.count r + 2 * (refsOf e.md).count r
        + asyncN cfg.sinks * (refsOf (mdAllA cfg s u e)).count r ∧
    (r5A cfg s u e).1 r = s.count r + 2 * (refsOf e.md).count r
        + asyncN cfg.sinks * (refsOf (mdAllA cfg s u e)).count r - (refsOf (mdAllA cfg s u e)).count r ∧
    (r6A cfg s u e).1 r = s.count r + (refsOf e.md).count r
        + asyncN cfg.sinks * (refsOf (mdAllA cfg s u e)).count r - (refsOf (mdAllA cfg s u e)).count r := by
  have h3 : c3A cfg s u e r = s.count r + 2 * (refsOf e.md).count r
      + cfg.sinks.length * (refsOf (mdAllA cfg s u e)).count r := by
    rw [c3A, retainRefs_apply, retainRefs_apply, retainRefs_apply]; omega
  have h4 : (dA cfg s u e).1 r = s.count r + 2 * (refsOf e.md).count r
      + asyncN cfg.sinks * (refsOf (mdAllA cfg s u e)).count r := by
    rw [dA, deliverSinks_count, h3]; omega
  have h5 : (r5A cfg s u e).1 r = s.count r + 2 * (refsOf e.md).count r
      + asyncN cfg.sinks * (refsOf (mdAllA cfg s u e)).count r - (refsOf (mdAllA cfg s u e)).count r := by
    rw [r5A, releaseRefs_count, h4]
  refine ⟨h3, h4, h5, ?_⟩
  rw [r6A, releaseRefs_count, h5]; omega

theorem fire_held (cfg : Cfg) (s : St α) {u : Nat} (e : Entry α) (hu : u < cfg.k) (r : Nat) :
    held cfg (fireSt cfg s u e) r + (refsOf (mdAllA cfg s u e)).count r =
      held cfg s r + (refsOf e.md).count r + asyncN cfg.sinks * (refsOf (mdAllA cfg s u e)).count r := by
  rw [held_eq, held_eq]
  show sumR cfg.k (fun v => (bufRefs (bufsA s u e v).tail).count r) +
      (pendRefs (s.pending ++ (dA cfg s u e).2.2.map (fun t => (t, mdAllA cfg s u e)))).count r + _ = _
  have h1 := sumR_tails cfg s u e r
  have h2 := sumR_bufsA cfg s e hu r
  have h3 : (pendRefs (s.pending ++ (dA cfg s u e).2.2.map (fun t => (t, mdAllA cfg s u e)))).count r =
      (pendRefs s.pending).count r + asyncN cfg.sinks * (refsOf (mdAllA cfg s u e)).count r := by
    rw [pendRefs, List.flatMap_append, List.count_append]
    have := pendRefs_map_const (dA cfg s u e).2.2 (mdAllA cfg s u e) r
    rw [pendRefs, dA_toks_length] at this
    rw [this]; rfl
  rw [h3]; omega

theorem inv_fire {cfg : Cfg} {s : St α} {u : Nat} (e : Entry α) (hu : u < cfg.k) (hf : Fires cfg s u)
    (h : Inv cfg s) : Inv cfg (fireSt cfg s u e) := by
  have hbal : ∀ r, (fireSt cfg s u e).count r = held cfg (fireSt cfg s u e) r := by
    intro r
    show (r6A cfg s u e).1 r = _
    have h1 := (fire_counts cfg s u e r).2.2.2
    have h2 := fire_held cfg s e hu r
    have h3 := h.balance r
    rw [h1, h3]
    generalize held cfg (fireSt cfg s u e) r = H' at h2 ⊢
    generalize held cfg s r = H at h2 ⊢
    generalize (refsOf (mdAllA cfg s u e)).count r = oa at h2 ⊢
    generalize (refsOf e.md).count r = occ at h2 ⊢
    generalize hP : asyncN cfg.sinks * oa = P at h2
    have : (asyncN cfg.sinks : Int) * (oa : Int) = (P : Int) := by rw [← hP]; simp
    rw [this]; omega
  refine ⟨fun v hv => ?_, fun _ => ⟨u, hu, ?_⟩, fun hk => by omega, ?_, ?_, ?_, hbal, ?_⟩
  · show (arrsA s u e v).map some = (s.outs ++ [tupA cfg s u e]).map (· v) ++ ((bufsA s u e v).tail).map some
    rw [decompA h u e hv, map_some_eq_head_tail _ (bufsA_ne_nil e hf hv)]
    simp [tupA_lt _ _ _ _ hv]
  · show (bufsA s u e u).tail = []
    rw [bufsA_same, hf.1]; rfl
  · intro e' he'
    rcases List.mem_append.1 he' with he' | he'
    · obtain ⟨e0, he0, rfl⟩ := List.mem_map.1 he'
      rw [wake_fst]; exact h.ups e0 he0
    · simp only [List.mem_singleton] at he'; subst he'; exact hu
  · intro e' he' hb
    exfalso
    rcases List.mem_append.1 he' with he' | he'
    · obtain ⟨e0, he0, rfl⟩ := List.mem_map.1 he'
      exact wake_ne_blocked e0 hb
    · simp only [List.mem_singleton] at he'; subst he'
      simp only [] at hb
      split at hb <;> cases hb
  · intro e' he' toks ht
    show toks ≠ [] ∧ ∀ t ∈ toks,
      t ∈ (s.pending ++ (dA cfg s u e).2.2.map (fun t => (t, mdAllA cfg s u e))).map (·.1)
    rcases List.mem_append.1 he' with he' | he'
    · obtain ⟨e0, he0, rfl⟩ := List.mem_map.1 he'
      obtain ⟨h1, h2⟩ := h.await e0 he0 toks (wake_awaiting ht)
      refine ⟨h1, fun t htm => ?_⟩
      rw [List.map_append]; exact List.mem_append_left _ (h2 t htm)
    · simp only [List.mem_singleton] at he'; subst he'
      simp only [] at ht
      split at ht
      · cases ht
      · next hne =>
        simp only [Status.awaiting.injEq] at ht
        subst ht
        refine ⟨by simpa [List.isEmpty_iff] using hne, fun t htm => ?_⟩
        rw [List.map_append]; apply List.mem_append_right
        simp only [List.map_map, List.mem_map]
        exact ⟨t, htm, rfl⟩
  · intro r hs hle
    show r ∈ s.fired ++ (dA cfg s u e).2.1 ++ (r5A cfg s u e).2 ++ (r6A cfg s u e).2
    have hc := fire_counts cfg s u e r
    have hle' : (r6A cfg s u e).1 r ≤ 0 := hle
    by_cases hr : r ∈ refsOf e.md
    · apply List.mem_append_right
      rw [r6A]
      refine releaseRefs_fired_of hr ?_
      rw [r6A, releaseRefs_count] at hle'; exact hle'
    · have h0 := count_zero_of_not_mem hr
      by_cases ha : r ∈ refsOf (mdAllA cfg s u e)
      · apply List.mem_append_left; apply List.mem_append_right
        rw [r5A]
        refine releaseRefs_fired_of ha ?_
        rw [← releaseRefs_count, ← r5A]
        rw [hc.2.2.2] at hle'; rw [hc.2.2.1]; omega
      · have h1 := count_zero_of_not_mem ha
        apply List.mem_append_left; apply List.mem_append_left; apply List.mem_append_left
        refine h.zeroFired r (seenA hs hr) ?_
        rw [hc.2.2.2, h0, h1] at hle'; simpa using hle'

theorem inv_sinkDone {cfg : Cfg} {s : St α} (tok : Tok) (h : Inv cfg s) : Inv cfg (sinkDone s tok) := by
  cases ht : takeTok tok s.pending with
  | none => rw [sinkDone_none s ht]; exact h
  | some q =>
    obtain ⟨md, rest⟩ := q
    rw [sinkDone_some s ht]
    have hheld : ∀ r, held cfg s r = held cfg
        { s with pending := rest, count := (releaseRefs (refsOf md) s.count).1,
                 fired := s.fired ++ (releaseRefs (refsOf md) s.count).2,
                 emits := s.emits.map (finishTok tok) } r + (refsOf md).count r := by
      intro r
      rw [held_eq, held_eq]
      show _ = sumR cfg.k (fun u => (bufRefs (s.bufs u)).count r) + (pendRefs rest).count r + _
      rw [takeTok_refs ht r]; omega
    refine ⟨h.decomp, h.empty, h.outs0, ?_, ?_, ?_, ?_, ?_⟩
    · intro e' he'
      obtain ⟨e0, he0, rfl⟩ := List.mem_map.1 he'
      rw [finishTok_fst]; exact h.ups e0 he0
    · intro e' he' hb
      obtain ⟨e0, he0, rfl⟩ := List.mem_map.1 he'
      rw [finishTok_fst]
      exact h.ahead e0 he0 ((finishTok_blocked tok e0).1 hb)
    · intro e' he' toks' hta
      obtain ⟨e0, he0, rfl⟩ := List.mem_map.1 he'
      obtain ⟨toks, h1, h2, h3⟩ := finishTok_awaiting hta
      refine ⟨h3, fun t htm => ?_⟩
      show t ∈ rest.map (·.1)
      rw [h2, List.mem_filter] at htm
      exact takeTok_mem ht (by simpa using htm.2) ((h.await e0 he0 toks h1).2 t htm.1)
    · intro r
      show (releaseRefs (refsOf md) s.count).1 r = _
      rw [releaseRefs_count, h.balance r, hheld r]; omega
    · intro r hs hle
      show r ∈ s.fired ++ (releaseRefs (refsOf md) s.count).2
      have hle' : (releaseRefs (refsOf md) s.count).1 r ≤ 0 := hle
      by_cases hr : r ∈ refsOf md
      · exact List.mem_append_right _ (releaseRefs_fired_of hr (by rwa [releaseRefs_count] at hle'))
      · rw [releaseRefs_count, count_zero_of_not_mem hr] at hle'
        exact List.mem_append_left _ (h.zeroFired r hs (by simpa using hle'))

theorem arrive_cases (cfg : Cfg) (s : St α) (u : Nat) (x : α) (md : Meta) :
    (¬ u < cfg.k ∧ arrive cfg s u x md = s) ∨
    (u < cfg.k ∧ Fires cfg s u ∧ arrive cfg s u x md = fireSt cfg s u ⟨x, md⟩) ∨
    (u < cfg.k ∧ ¬ Fires cfg s u ∧ arrive cfg s u x md = nofireSt cfg s u ⟨x, md⟩) := by
  by_cases hu : u < cfg.k
  · by_cases hf : Fires cfg s u
    · exact Or.inr (Or.inl ⟨hu, hf, arrive_fire cfg s x md hu hf⟩)
    · exact Or.inr (Or.inr ⟨hu, hf, arrive_nofire cfg s x md hu hf⟩)
  · exact Or.inl ⟨hu, arrive_ge cfg s x md hu⟩

theorem inv_step {cfg : Cfg} {s : St α} (a : Act α) (h : Inv cfg s) : Inv cfg (step cfg s a) := by
  cases a with
  | arrive u x md =>
    simp only [step]
    rcases arrive_cases cfg s u x md with ⟨_, he⟩ | ⟨hu, hf, he⟩ | ⟨hu, hf, he⟩
    · rw [he]; exact h
    · rw [he]; exact inv_fire _ hu hf h
    · rw [he]; exact inv_nofire _ hu hf h
  | sinkDone tok => exact inv_sinkDone tok h

theorem inv_foldl {cfg : Cfg} {s : St α} (as : List (Act α)) (h : Inv cfg s) : Inv cfg (as.foldl (step cfg) s) := by
  induction as generalizing s with
  | nil => exact h
  | cons a as ih => exact ih (inv_step a h)

theorem inv_run (cfg : Cfg) (as : List (Act α)) : Inv cfg (run cfg as) := inv_foldl as (inv_init cfg)

theorem run_append (cfg : Cfg) (as bs : List (Act α)) :
    run cfg (as ++ bs) = bs.foldl (step cfg) (run cfg as) := by simp [run, List.foldl_append]

theorem run_snoc (cfg : Cfg) (as : List (Act α)) (a : Act α) :
    run cfg (as ++ [a]) = step cfg (run cfg as) a := by simp [run_append]

/-! #### a callback never fires while the element is held -/

/-- what one step adds to the history of fired callbacks -/
def newFired (cfg : Cfg) (s : St α) (a : Act α) : List Nat := (step cfg s a).fired.drop s.fired.length

theorem newFired_arrive_ge (cfg : Cfg) (s : St α) {u : Nat} (x : α) (md : Meta) (hu : ¬ u < cfg.k) :
    newFired cfg s (.arrive u x md) = [] := by
  simp [newFired, step, arrive_ge cfg s x md hu]

theorem newFired_fire (cfg : Cfg) (s : St α) {u : Nat} (x : α) (md : Meta) (hu : u < cfg.k) (hf : Fires cfg s u) :
    newFired cfg s (.arrive u x md) =
      (dA cfg s u ⟨x, md⟩).2.1 ++ (r5A cfg s u ⟨x, md⟩).2 ++ (r6A cfg s u ⟨x, md⟩).2 := by
  simp only [newFired, step, arrive_fire cfg s x md hu hf, fireSt, List.append_assoc]
  exact List.drop_left

theorem newFired_nofire (cfg : Cfg) (s : St α) {u : Nat} (x : α) (md : Meta) (hu : u < cfg.k)
    (hf : ¬ Fires cfg s u) : newFired cfg s (.arrive u x md) = (r3A s ⟨x, md⟩).2 := by
  simp only [newFired, step, arrive_nofire cfg s x md hu hf, nofireSt]
  exact List.drop_left

theorem newFired_sinkDone_some (cfg : Cfg) (s : St α) {tok : Tok} {md : Meta} {rest : List (Tok × Meta)}
    (h : takeTok tok s.pending = some (md, rest)) :
    newFired cfg s (.sinkDone tok) = (releaseRefs (refsOf md) s.count).2 := by
  simp only [newFired, step, sinkDone_some s h]
  exact List.drop_left

theorem newFired_sinkDone_none (cfg : Cfg) (s : St α) {tok : Tok} (h : takeTok tok s.pending = none) :
    newFired cfg s (.sinkDone tok) = [] := by
  simp [newFired, step, sinkDone_none s h]

/-- the heads taken into the tuple were buffered: their references are held before the step -/
theorem oa_le_held (cfg : Cfg) (s : St α) {u : Nat} (e : Entry α) (hu : u < cfg.k) (r : Nat) :
    (refsOf (mdAllA cfg s u e)).count r ≤ held cfg s r + (refsOf e.md).count r := by
  have h1 := sumR_tails cfg s u e r
  have h2 := sumR_bufsA cfg s e hu r
  rw [held_eq]; omega

/-- **No early callback.**  Whatever callback a step fires belongs to a counter that nothing holds after the
step: no buffered element and no unfinished consumer carries it. -/
theorem fired_not_held {cfg : Cfg} {s : St α} (h : Inv cfg s) (a : Act α) {r : Nat}
    (hr : r ∈ newFired cfg s a) : held cfg (step cfg s a) r = 0 := by
  have hI := inv_step a h
  have key : (step cfg s a).count r ≤ 0 → held cfg (step cfg s a) r = 0 := by
    intro hle; have := hI.balance r; omega
  cases a with
  | arrive u x md =>
    rcases arrive_cases cfg s u x md with ⟨hu, _⟩ | ⟨hu, hf, he⟩ | ⟨hu, hf, he⟩
    · rw [newFired_arrive_ge cfg s x md hu] at hr; simp at hr
    · rw [newFired_fire cfg s x md hu hf] at hr
      apply key
      simp only [step]; rw [he]
      show (r6A cfg s u ⟨x, md⟩).1 r ≤ 0
      have hc := fire_counts cfg s u ⟨x, md⟩ r
      have hb := h.balance r
      rcases List.mem_append.1 hr with hr | hr
      · rcases List.mem_append.1 hr with hr | hr
        · -- inside the downstream loop: impossible, the node and the producer still hold references
          exfalso
          rw [dA] at hr
          obtain ⟨hm, hle⟩ := deliverSinks_fired_mem hr
          rw [hc.1] at hle
          have h1 := oa_le_held cfg s ⟨x, md⟩ hu r
          have h2 := count_pos_of_mem hm
          dsimp only at h1 hle h2
          omega
        · rw [r5A] at hr
          have hle := (releaseRefs_fired_mem hr).2
          rw [← releaseRefs_count, ← r5A] at hle
          rw [hc.2.2.2]; rw [hc.2.2.1] at hle; omega
      · rw [r6A] at hr
        have hle := (releaseRefs_fired_mem hr).2
        rw [← releaseRefs_count, ← r6A] at hle
        exact hle
    · -- no tuple: nothing can fire at all (the buffer holds the element)
      exfalso
      rw [newFired_nofire cfg s x md hu hf, r3A] at hr
      obtain ⟨hm, hle⟩ := releaseRefs_fired_mem hr
      rw [retainRefs_apply, retainRefs_apply] at hle
      have hb := h.balance r
      have := count_pos_of_mem hm
      dsimp only at this hle
      omega
  | sinkDone tok =>
    cases ht : takeTok tok s.pending with
    | none => rw [newFired_sinkDone_none cfg s ht] at hr; simp at hr
    | some q =>
      obtain ⟨md, rest⟩ := q
      rw [newFired_sinkDone_some cfg s ht] at hr
      apply key
      simp only [step]; rw [sinkDone_some s ht]
      show (releaseRefs (refsOf md) s.count).1 r ≤ 0
      rw [releaseRefs_count]
      exact (releaseRefs_fired_mem hr).2

/-! #### histories -/

theorem step_arrs (cfg : Cfg) (s : St α) (a : Act α) (u : Nat) :
    (step cfg s a).arrs u = s.arrs u ++ arrivalsOf cfg u [a] := by
  cases a with
  | sinkDone tok =>
    simp only [step, arrivalsOf, List.filterMap_cons, List.filterMap_nil, List.append_nil]
    cases ht : takeTok tok s.pending with
    | none => rw [sinkDone_none s ht]
    | some q => obtain ⟨md, rest⟩ := q; rw [sinkDone_some s ht]
  | arrive v x md =>
    simp only [step, arrivalsOf, List.filterMap_cons, List.filterMap_nil]
    rcases arrive_cases cfg s v x md with ⟨hv, he⟩ | ⟨hv, hf, he⟩ | ⟨hv, hf, he⟩
    · rw [he]; simp [hv]
    · rw [he]
      show arrsA s v ⟨x, md⟩ u = _
      by_cases huv : u = v
      · subst huv; rw [arrsA_same]; simp [hv]
      · rw [arrsA_other _ _ huv]
        have : ¬ v = u := fun e => huv e.symm
        simp [this]
    · rw [he]
      show arrsA s v ⟨x, md⟩ u = _
      by_cases huv : u = v
      · subst huv; rw [arrsA_same]; simp [hv]
      · rw [arrsA_other _ _ huv]
        have : ¬ v = u := fun e => huv e.symm
        simp [this]

theorem arrivalsOf_cons (cfg : Cfg) (u : Nat) (a : Act α) (as : List (Act α)) :
    arrivalsOf cfg u (a :: as) = arrivalsOf cfg u [a] ++ arrivalsOf cfg u as := by
  simp only [arrivalsOf, List.filterMap_cons, List.filterMap_nil]
  split <;> simp

theorem foldl_arrs (cfg : Cfg) (s : St α) (as : List (Act α)) (u : Nat) :
    (as.foldl (step cfg) s).arrs u = s.arrs u ++ arrivalsOf cfg u as := by
  induction as generalizing s with
  | nil => simp [arrivalsOf]
  | cons a as ih =>
    rw [List.foldl_cons, ih, step_arrs, arrivalsOf_cons cfg u a as, List.append_assoc]

theorem run_arrs (cfg : Cfg) (as : List (Act α)) (u : Nat) : (run cfg as).arrs u = arrivalsOf cfg u as := by
  rw [run, foldl_arrs]; rfl

theorem inv_lengths {cfg : Cfg} {s : St α} (h : Inv cfg s) {u : Nat} (hu : u < cfg.k) :
    (s.arrs u).length = s.outs.length + (s.bufs u).length := by
  have := congrArg List.length (h.decomp u hu)
  simpa using this

theorem inv_component {cfg : Cfg} {s : St α} (h : Inv cfg s) {u : Nat} (hu : u < cfg.k) {j : Nat}
    {t : Nat → Option (Entry α)} (ht : s.outs[j]? = some t) : t u = (s.arrs u)[j]? := by
  have h1 : ((s.arrs u).map some)[j]? = (s.outs.map (· u) ++ (s.bufs u).map some)[j]? := by
    rw [h.decomp u hu]
  have hj : j < s.outs.length := by
    rcases Nat.lt_or_ge j s.outs.length with hlt | hge
    · exact hlt
    · rw [List.getElem?_eq_none_iff.2 hge] at ht; cases ht
  rw [List.getElem?_append_left (by simpa using hj), List.getElem?_map, List.getElem?_map, ht] at h1
  cases ha : (s.arrs u)[j]? with
  | none => rw [ha] at h1; simp at h1
  | some a => rw [ha] at h1; simp at h1; rw [← h1]

/-- a tuple was emitted by the step: the step is a tuple-completing arrival -/
theorem step_outs (cfg : Cfg) (s : St α) (a : Act α) :
    (step cfg s a).outs = s.outs ∨
      ∃ u x md, a = .arrive u x md ∧ u < cfg.k ∧ Fires cfg s u ∧ step cfg s a = fireSt cfg s u ⟨x, md⟩ := by
  cases a with
  | sinkDone tok =>
    left
    simp only [step]
    cases ht : takeTok tok s.pending with
    | none => rw [sinkDone_none s ht]
    | some q => obtain ⟨md, rest⟩ := q; rw [sinkDone_some s ht]
  | arrive v x md =>
    rcases arrive_cases cfg s v x md with ⟨hv, he⟩ | ⟨hv, hf, he⟩ | ⟨hv, hf, he⟩
    · left; simp only [step]; rw [he]
    · right; exact ⟨v, x, md, rfl, hv, hf, by simp only [step]; exact he⟩
    · left; simp only [step]; rw [he]; rfl

theorem fireSt_no_blocked (cfg : Cfg) (s : St α) (u : Nat) (e : Entry α) :
    ∀ e' ∈ (fireSt cfg s u e).emits, e'.2 ≠ .blocked := by
  intro e' he' hb
  rcases List.mem_append.1 he' with he' | he'
  · obtain ⟨e0, he0, rfl⟩ := List.mem_map.1 he'
    exact wake_ne_blocked e0 hb
  · simp only [List.mem_singleton] at he'; subst he'
    simp only [] at hb
    split at hb <;> cases hb

/-! ### 5. Producer discipline and the bound -/

/-- producers of upstream `u` waiting on the condition, in a status list -/
def bc (l : List (Nat × Status)) (u : Nat) : Nat := (l.filter (fun e => e.1 = u ∧ e.2 = .blocked)).length

theorem blockedCount_eq (s : St α) (u : Nat) : blockedCount s u = bc s.emits u := rfl

theorem bc_append (l₁ l₂ : List (Nat × Status)) (u : Nat) : bc (l₁ ++ l₂) u = bc l₁ u + bc l₂ u := by
  simp [bc]

theorem bc_single (v : Nat) (st : Status) (u : Nat) :
    bc [(v, st)] u = if v = u ∧ st = .blocked then 1 else 0 := by
  simp only [bc, List.filter_cons, List.filter_nil]
  split <;> simp_all

theorem bc_map_wake (l : List (Nat × Status)) (u : Nat) : bc (l.map wake) u = 0 := by
  simp only [bc, List.length_eq_zero_iff, List.filter_eq_nil_iff, List.mem_map]
  rintro e ⟨e0, _, rfl⟩
  have := wake_ne_blocked e0
  simp [this]

theorem bc_map_finishTok (tok : Tok) (l : List (Nat × Status)) (u : Nat) : bc (l.map (finishTok tok)) u = bc l u := by
  induction l with
  | nil => rfl
  | cons e l ih =>
    have h1 : bc (e :: l) u = bc [e] u + bc l u := bc_append [e] l u
    have h2 : bc (finishTok tok e :: l.map (finishTok tok)) u = bc [finishTok tok e] u + bc (l.map (finishTok tok)) u :=
      bc_append [finishTok tok e] _ u
    rw [List.map_cons, h1, h2, ih]
    congr 1
    obtain ⟨v, st⟩ := e
    have hf := finishTok_fst tok (v, st)
    have hb := finishTok_blocked tok (v, st)
    generalize finishTok tok (v, st) = e' at hf hb
    obtain ⟨v', st'⟩ := e'
    simp only [] at hf hb
    subst hf
    rw [bc_single, bc_single]
    by_cases h : st = .blocked
    · simp [h, hb.2 h]
    · have : ¬ st' = .blocked := fun h' => h (hb.1 h')
      simp [h, this]

theorem bc_zero_of_disciplined {s : St α} {u : Nat} (h : ∀ e ∈ s.emits, e.1 = u → e.2 ≠ .blocked) :
    bc s.emits u = 0 := by
  simp only [bc, List.length_eq_zero_iff, List.filter_eq_nil_iff]
  intro e he
  have := h e he
  simp only [decide_eq_true_eq, not_and]
  exact this

/-- per upstream: at most `maxsize` elements whose producer is not waiting, at most one producer waiting -/
def Bnd (cfg : Cfg) (s : St α) : Prop :=
  ∀ u, (s.bufs u).length ≤ cfg.maxsize + blockedCount s u ∧ blockedCount s u ≤ 1

theorem bnd_init (cfg : Cfg) : Bnd cfg (init α) := fun u => by simp [init, blockedCount]

theorem bnd_step {cfg : Cfg} {s : St α} {a : Act α} (h : Bnd cfg s) (hd : Disciplined s a) :
    Bnd cfg (step cfg s a) := by
  cases a with
  | sinkDone tok =>
    simp only [step]
    cases ht : takeTok tok s.pending with
    | none => rw [sinkDone_none s ht]; exact h
    | some q =>
      obtain ⟨md, rest⟩ := q
      rw [sinkDone_some s ht]
      intro u
      rw [blockedCount_eq]
      show (s.bufs u).length ≤ cfg.maxsize + bc (s.emits.map (finishTok tok)) u ∧ bc (s.emits.map (finishTok tok)) u ≤ 1
      rw [bc_map_finishTok]
      exact h u
  | arrive v x md =>
    simp only [step]
    have hz : bc s.emits v = 0 := bc_zero_of_disciplined hd
    rcases arrive_cases cfg s v x md with ⟨hv, he⟩ | ⟨hv, hf, he⟩ | ⟨hv, hf, he⟩
    · rw [he]; exact h
    · rw [he]
      intro u
      rw [blockedCount_eq]
      show ((bufsA s v ⟨x, md⟩ u).tail).length ≤ cfg.maxsize + bc (s.emits.map wake ++ _) u ∧ bc (s.emits.map wake ++ _) u ≤ 1
      have hb : bc (s.emits.map wake ++ [(v, if (dA cfg s v ⟨x, md⟩).2.2.isEmpty then Status.done
          else Status.awaiting (dA cfg s v ⟨x, md⟩).2.2)]) u = 0 := by
        rw [bc_append, bc_map_wake, bc_single]
        split <;> simp
      rw [hb]
      refine ⟨?_, by omega⟩
      by_cases huv : u = v
      · subst huv; rw [bufsA_same, hf.1]; simp
      · rw [bufsA_other _ _ huv, List.length_tail]
        have := h u
        rw [blockedCount_eq] at this
        omega
    · rw [he]
      intro u
      rw [blockedCount_eq]
      show (bufsA s v ⟨x, md⟩ u).length ≤ cfg.maxsize + bc (s.emits ++ _) u ∧ bc (s.emits ++ _) u ≤ 1
      rw [bc_append, bc_single]
      have hu := h u
      rw [blockedCount_eq] at hu
      by_cases huv : u = v
      · subst huv
        rw [bufsA_same, hz]
        rw [hz] at hu
        have hl : (s.bufs u ++ [(⟨x, md⟩ : Entry α)]).length = (s.bufs u).length + 1 := by simp
        rw [hl]
        by_cases hgt : (s.bufs u).length + 1 > cfg.maxsize
        · rw [if_pos hgt]; simp; omega
        · rw [if_neg hgt]; simp; omega
      · rw [bufsA_other _ _ huv]
        have : ¬ v = u := fun e => huv e.symm
        simp [this]; exact hu

theorem bnd_foldl {cfg : Cfg} {s : St α} (as : List (Act α)) (h : Bnd cfg s)
    (hd : RunWith Disciplined cfg s as) : Bnd cfg (as.foldl (step cfg) s) := by
  induction as generalizing s with
  | nil => exact h
  | cons a as ih => exact ih (bnd_step h hd.1) hd.2

theorem awaits_disciplined {s : St α} {a : Act α} (h : Awaits s a) : Disciplined s a := by
  cases a with
  | sinkDone tok => trivial
  | arrive u x md => intro e he hu hb; rw [h e he hu] at hb; cases hb

theorem runWith_mono {P Q : St α → Act α → Prop} (hPQ : ∀ s a, P s a → Q s a) {cfg : Cfg} {s : St α}
    {as : List (Act α)} (h : RunWith P cfg s as) : RunWith Q cfg s as := by
  induction as generalizing s with
  | nil => trivial
  | cons a as ih => exact ⟨hPQ _ _ h.1, ih h.2⟩

/-! ### 6. Small facts used by the property theorems -/

theorem length_filterMap_range {β : Type} (k : Nat) (f : Nat → Option β) (h : ∀ u, u < k → (f u).isSome = true) :
    ((List.range k).filterMap f).length = k := by
  induction k with
  | zero => rfl
  | succ k ih =>
    rw [List.range_succ, List.filterMap_append, List.length_append, ih (fun u hu => h u (by omega))]
    have := h k (by omega)
    cases hf : f k with
    | none => rw [hf] at this; cases this
    | some b => simp [hf]

theorem filterMap_range_congr {β : Type} (k : Nat) {f g : Nat → Option β} (h : ∀ u, u < k → f u = g u) :
    (List.range k).filterMap f = (List.range k).filterMap g := by
  induction k with
  | zero => rfl
  | succ k ih =>
    rw [List.range_succ, List.filterMap_append, List.filterMap_append, ih (fun u hu => h u (by omega))]
    simp only [List.filterMap_cons, List.filterMap_nil]
    rw [h k (by omega)]

theorem mem_heldRefs_buf {cfg : Cfg} {s : St α} {u : Nat} (hu : u < cfg.k) {e : Entry α} (he : e ∈ s.bufs u)
    {r : Nat} (hr : r ∈ refsOf e.md) : r ∈ heldRefs cfg s := by
  apply List.mem_append_left
  exact List.mem_flatMap.2 ⟨u, List.mem_range.2 hu, List.mem_flatMap.2 ⟨e, he, hr⟩⟩

theorem mem_heldRefs_pending {cfg : Cfg} {s : St α} {p : Tok × Meta} (hp : p ∈ s.pending)
    {r : Nat} (hr : r ∈ refsOf p.2) : r ∈ heldRefs cfg s := by
  apply List.mem_append_right
  exact List.mem_flatMap.2 ⟨p, hp, hr⟩

/-- with synchronous sinks only, no consumer invocation is ever pending -/
theorem sync_pending_step {cfg : Cfg} (hs : asyncN cfg.sinks = 0) {s : St α} (a : Act α) (h : s.pending = []) :
    (step cfg s a).pending = [] := by
  cases a with
  | sinkDone tok =>
    simp only [step]
    rw [sinkDone_none s (by rw [h]; rfl)]; exact h
  | arrive v x md =>
    simp only [step]
    rcases arrive_cases cfg s v x md with ⟨hv, he⟩ | ⟨hv, hf, he⟩ | ⟨hv, hf, he⟩
    · rw [he]; exact h
    · rw [he]
      show s.pending ++ (dA cfg s v ⟨x, md⟩).2.2.map _ = []
      have : (dA cfg s v ⟨x, md⟩).2.2 = [] := by
        rw [dA, deliverSinks_toks, hs]; rfl
      rw [this, h]; rfl
    · rw [he]; exact h

theorem sync_pending_foldl {cfg : Cfg} (hs : asyncN cfg.sinks = 0) {s : St α} (as : List (Act α))
    (h : s.pending = []) : (as.foldl (step cfg) s).pending = [] := by
  induction as generalizing s with
  | nil => exact h
  | cons a as ih => exact ih (sync_pending_step hs a h)

/-- the buffer is a suffix of the arrival history -/
theorem bufs_suffix {cfg : Cfg} {s : St α} (h : Inv cfg s) {u : Nat} (hu : u < cfg.k) :
    ∃ pre, s.arrs u = pre ++ s.bufs u := by
  obtain ⟨l1, l2, h1, _, h3⟩ := List.map_eq_append_iff.1 (h.decomp u hu)
  refine ⟨l1, ?_⟩
  have : l2 = s.bufs u := by
    have hinj : Function.Injective (some : Entry α → Option (Entry α)) := fun a b hab => by cases hab; rfl
    exact (List.map_inj_right hinj).1 h3
  rw [h1, this]

instance decAwaits (s : St α) (a : Act α) : Decidable (Awaits s a) := by
  cases a <;> simp only [Awaits] <;> infer_instance

instance decDisciplined (s : St α) (a : Act α) : Decidable (Disciplined s a) := by
  cases a <;> simp only [Disciplined] <;> infer_instance

instance decRunWith {P : St α → Act α → Prop} [inst : ∀ s a, Decidable (P s a)] (cfg : Cfg) :
    ∀ (s : St α) (as : List (Act α)), Decidable (RunWith P cfg s as)
  | _, [] => isTrue trivial
  | s, a :: as => @instDecidableAnd _ _ (inst s a) (decRunWith cfg (step cfg s a) as)

end StreamzVerif.AsyncZip
