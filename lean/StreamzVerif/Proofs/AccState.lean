import StreamzVerif.Proofs.Failure
import StreamzVerif.Proofs.Resume
/-
Helper lemmas for `Props/C12Graph.lean`: on the dataflow model, an `accumulate` node has adopted its new
state BEFORE it hands the emission over (`upd … = [.set s1, .emit out md]`), so that whatever happens
downstream during the hand-over — a consumer raising, a coroutine capturing an exception, even the fuel
running out further down — the node ends in the state it emitted.

  A. node-local: `accStep` (one application of the node's step function on `accumulate.state`), `accOut`
     (what is emitted), `upd_accumulate_ok`, `upd_accumulate_err`
  B. `below_all`: a call never touches the local state of a node that is not strictly downstream of it and never
     makes such a node emit — for EVERY outcome (normal, raised, carried, out of fuel), on DAGs (`Acyclic`);
     `emitAt_self`: `_emit` at `n` leaves `n`'s own state alone and `n` emits exactly once
  C. `update_accumulate`: one arrival at an accumulate node, any outcome
  D. `feed`: a sequence of arrivals at one node, each processed in the state the previous one left (the
     caller catches whatever is raised and goes on), `feed_accumulate`; `accNode` links the node's step
     function to `Resume.runOpt`; `runOpt_accNode_cut`
  E. the mutated order (`swapSetEmit`: hand over first, adopt afterwards) for the concrete witness
-/
namespace StreamzVerif.Graph

/-! ### A. The node's step function -/

/-- One step of `accumulate` on its `state` attribute (`none` = `no_default`: the first element becomes the
state and is the result): `some (new state, result)`, `none` when the node's own function raises (or, with
`returns_state`, when its result cannot be unpacked). -/
def accStep (f : Fn2) (rs : Bool) (acc : Option Val) (x : Val) : Option (Val × Val) :=
  match acc with
  | none => some (x, x)
  | some st => accApply f rs st x

/-- what the node hands downstream for the pair (new state, result) -/
def accOut (ws : Bool) (p : Val × Val) : Val := if ws then .tup [p.1, p.2] else p.2

theorem upd_accumulate_ok {f : Fn2} {start : Option Val} {rs ws : Bool} {s : NState} {who : NodeId} {x : Val}
    {md : Meta} {p : Val × Val} (h : accStep f rs s.acc x = some p) :
    upd (.accumulate f start rs ws) s who x md =
      { effs := [.set { s with acc := some p.1 }, .emit (accOut ws p) md] } := by
  simp only [upd, accStep, accApply, accOut] at h ⊢
  cases hacc : s.acc with
  | none =>
    rw [hacc] at h
    simp only [Option.some.injEq] at h
    subst h; rfl
  | some st =>
    rw [hacc] at h
    simp only [] at h ⊢
    cases hf : f.eval st x with
    | error e => rw [hf] at h; simp at h
    | ok r =>
      rw [hf] at h
      cases rs with
      | false =>
        simp only [Bool.false_eq_true, if_false, Option.some.injEq] at h ⊢
        subst h; rfl
      | true =>
        simp only [if_true] at h ⊢
        split at h <;> first | (simp only [Option.some.injEq] at h; subst h; rfl) | simp at h

theorem upd_accumulate_err {f : Fn2} {start : Option Val} {rs ws : Bool} {s : NState} {who : NodeId} {x : Val}
    {md : Meta} (h : accStep f rs s.acc x = none) :
    (upd (.accumulate f start rs ws) s who x md).err.isSome = true := by
  simp only [upd, accStep, accApply] at h ⊢
  cases hacc : s.acc with
  | none => rw [hacc] at h; simp at h
  | some st =>
    rw [hacc] at h
    simp only [] at h ⊢
    cases hf : f.eval st x with
    | error e => simp [raise]
    | ok r =>
      rw [hf] at h
      cases rs with
      | false => simp at h
      | true =>
        simp only [if_true] at h ⊢
        split <;> simp_all [raise]

/-- "the node's own function does not fail on this arrival" is `accStep … = some _` -/
theorem accStep_of_no_own_failure {f : Fn2} {start : Option Val} {rs ws : Bool} {s : NState} {who : NodeId}
    {x : Val} {md : Meta} (h : (upd (.accumulate f start rs ws) s who x md).err = none) :
    ∃ p, accStep f rs s.acc x = some p := by
  cases hp : accStep f rs s.acc x with
  | some p => exact ⟨p, rfl⟩
  | none =>
    have := upd_accumulate_err (start := start) (ws := ws) (who := who) (md := md) hp
    rw [h] at this; simp at this

/-! ### B. What a call cannot touch, whatever its outcome -/

variable (G : NodeId → Kind)

/-- node `i` neither changed its local state nor emitted -/
def Untouched (i : NodeId) (S : State) (r : Res) : Prop := r.st.loc i = S.loc i ∧ emitsOf i r.log = []

/-- Everything a call does happens strictly downstream of where it was made. -/
def BelowP : Call → State → Res → Prop
  | .emit n _ _, S, r => ∀ i, i < n → Untouched i S r
  | .deliver ds _ _ _, S, r => ∀ i, (∀ d ∈ ds, i < d) → Untouched i S r
  | .update d _ _ _, S, r => ∀ i, i < d → Untouched i S r
  | .effs d _, S, r => ∀ i, i < d → Untouched i S r

theorem emitsOf_updTail (i d : NodeId) (u : UpdRes) (r : Res) : emitsOf i (updTail d u r) = [] := by
  unfold updTail
  split
  · rfl
  · split <;> simp [emitsOf]

theorem sinkRes_emitsOf (m : SinkMode) (d who : NodeId) (v : Val) (md : Meta) (S : State) (i : NodeId) :
    emitsOf i (sinkRes m d who v md S).log = [] := by
  unfold sinkRes
  cases m with
  | sync fn =>
    simp only []
    split <;> simp [Res.fail, emitsOf]
  | async =>
    simp only [emitsOf_append]
    have h1 : emitsOf i [Ev.arrive d who v md, Ev.sinkStart d S.nextTok v md] = [] := by simp [emitsOf]
    rw [h1, List.nil_append]
    split
    · rfl
    · exact (retainMd_quiet _ _ _).emitsOf i

theorem below_all (f : Nat) : ∀ (c : Call) (S : State), Acyclic S → BelowP c S (interp G f c S) := by
  induction f with
  | zero =>
    intro c S _
    have h1 := interp_zero_st G c S
    have h2 := interp_zero_log G c S
    cases c <;> simp only [BelowP] <;> intros <;> exact ⟨by rw [h1], by rw [h2]; rfl⟩
  | succ f ih =>
    intro c S hA
    cases c with
    | emit n v md =>
      simp only [BelowP, interp]
      rw [emitAt_succ]
      intro i hi
      have j := ih (.deliver (S.downs n) n v md) (emitPre S n md).1 (hA.of_eq (by simp))
      simp only [BelowP, interp] at j
      obtain ⟨j1, j2⟩ := j i (fun d hd => Nat.lt_trans hi (hA n d hd))
      refine ⟨?_, ?_⟩
      · simp only []; rw [j1, emitPre_loc]
      · simp only []
        rw [List.cons_append, emitsOf_cons_emit, if_neg (Nat.ne_of_gt hi), emitsOf_append, (emitPre_quiet S n md).emitsOf i, j2]
        rfl
    | deliver ds n v md =>
      simp only [BelowP, interp]
      intro i hi
      cases ds with
      | nil => rw [deliver_nil]; exact ⟨rfl, rfl⟩
      | cons d ds =>
        have j := ih (.update d n v md) S hA
        simp only [BelowP, interp] at j
        obtain ⟨j1, j2⟩ := j i (hi d (by simp))
        cases h1 : (update G f d n v md S).err with
        | some e1 => rw [deliver_cons_err G h1]; exact ⟨j1, j2⟩
        | none =>
          rw [deliver_cons_ok G h1]
          have hA2 : Acyclic (releaseMd md (update G f d n v md S).st).1 :=
            (hA.of_sublist (interp_downs_sublist G f (.update d n v md) S)).of_eq (by simp [interp])
          have k := ih (.deliver ds n v md) _ hA2
          simp only [BelowP, interp] at k
          obtain ⟨k1, k2⟩ := k i (fun x hx => hi x (by simp [hx]))
          refine ⟨?_, ?_⟩
          · simp only []; rw [k1, releaseMd_loc, j1]
          · simp only []
            rw [emitsOf_append, emitsOf_append, j2, (releaseMd_quiet _ _).emitsOf i, k2]; rfl
    | update d who v md =>
      simp only [BelowP, interp]
      intro i hi
      by_cases hs : ∃ k, G d = .sink k
      · obtain ⟨k, hk⟩ := hs
        rw [update_sink G _ _ _ _ _ _ k hk]
        exact ⟨by rw [sinkRes_loc], sinkRes_emitsOf k d who v md S i⟩
      · have hs' : ∀ k, G d ≠ .sink k := fun k hk => hs ⟨k, hk⟩
        rw [update_other G _ _ _ _ _ _ hs']
        have j := ih (.effs d (upd (G d) (S.loc d) who v md).effs) S hA
        simp only [BelowP, interp] at j
        obtain ⟨j1, j2⟩ := j i hi
        refine ⟨?_, ?_⟩
        · rw [updWrap_st]; exact j1
        · rw [updWrap_log, List.cons_append, emitsOf_cons_arrive, emitsOf_append, j2, emitsOf_updTail]; rfl
    | effs d es =>
      simp only [BelowP, interp]
      intro i hi
      cases es with
      | nil => rw [runEffs_nil]; exact ⟨rfl, rfl⟩
      | cons ef es =>
        cases ef with
        | retain md' =>
          rw [runEffs_cons]
          have j := ih (.effs d es) (retainMd 1 md' S).1 (hA.of_eq (by simp))
          simp only [BelowP, interp] at j
          obtain ⟨j1, j2⟩ := j i hi
          refine ⟨?_, ?_⟩
          · simp only []; rw [j1, retainMd_loc]
          · simp only []; rw [emitsOf_append, (retainMd_quiet _ _ _).emitsOf i, j2]; rfl
        | release md' =>
          rw [runEffs_cons]
          have j := ih (.effs d es) (releaseMd md' S).1 (hA.of_eq (by simp))
          simp only [BelowP, interp] at j
          obtain ⟨j1, j2⟩ := j i hi
          refine ⟨?_, ?_⟩
          · simp only []; rw [j1, releaseMd_loc]
          · simp only []; rw [emitsOf_append, (releaseMd_quiet _ _).emitsOf i, j2]; rfl
        | set s' =>
          rw [runEffs_cons]
          have j := ih (.effs d es) (S.setLoc d s') (hA.of_eq (by simp))
          simp only [BelowP, interp] at j
          obtain ⟨j1, j2⟩ := j i hi
          exact ⟨by simp only []; rw [j1, setLoc_other S s' (Nat.ne_of_lt hi)], j2⟩
        | detach =>
          rw [runEffs_cons]
          have j := ih (.effs d es) (detachNode d S) (hA.detachNode d)
          simp only [BelowP, interp] at j
          obtain ⟨j1, j2⟩ := j i hi
          exact ⟨by simp only []; rw [j1, detachNode_loc], j2⟩
        | emit v' md' =>
          have j := ih (.emit d v' md') S hA
          simp only [BelowP, interp] at j
          obtain ⟨j1, j2⟩ := j i hi
          cases h1 : (emitAt G f d v' md' S).err with
          | some e1 => rw [runEffs_emit_err G h1]; exact ⟨j1, j2⟩
          | none =>
            rw [runEffs_emit_ok G h1]
            have hA2 : Acyclic (emitAt G f d v' md' S).st :=
              hA.of_sublist (interp_downs_sublist G f (.emit d v' md') S)
            have k := ih (.effs d es) _ hA2
            simp only [BelowP, interp] at k
            obtain ⟨k1, k2⟩ := k i hi
            refine ⟨?_, ?_⟩
            · simp only []; rw [k1, j1]
            · simp only []; rw [emitsOf_append, j2, k2]; rfl
        | emitThenRelease v' md' =>
          have j := ih (.emit d v' md') S hA
          simp only [BelowP, interp] at j
          obtain ⟨j1, j2⟩ := j i hi
          cases h1 : (emitAt G f d v' md' S).err with
          | some e1 => rw [runEffs_etr_err G h1]; exact ⟨j1, j2⟩
          | none =>
            cases h2 : (emitAt G f d v' md' S).carried with
            | some e2 => rw [runEffs_etr_carried G h1 h2]; exact ⟨j1, j2⟩
            | none =>
              rw [runEffs_etr_ok G h1 h2]
              have hA2 : Acyclic (etrPost md' (emitAt G f d v' md' S).toks (emitAt G f d v' md' S).st).1 :=
                (hA.of_sublist (interp_downs_sublist G f (.emit d v' md') S)).of_eq (by simp [interp])
              have k := ih (.effs d es) _ hA2
              simp only [BelowP, interp] at k
              obtain ⟨k1, k2⟩ := k i hi
              refine ⟨?_, ?_⟩
              · simp only []; rw [k1, etrPost_loc, j1]
              · simp only []
                rw [emitsOf_append, emitsOf_append, j2, (etrPost_quiet _ _ _).emitsOf i, k2]; rfl

/-- `_emit` at `n` with fuel for at least its own frame: whatever the outcome, no node up to and including `n`
changes its local state, and `n` itself emits exactly this one value. -/
theorem emitAt_self {S : State} (hA : Acyclic S) (f : Nat) (n : NodeId) (v : Val) (md : Meta) :
    (∀ i, i ≤ n → (emitAt G (f + 1) n v md S).st.loc i = S.loc i) ∧
      emitsOf n (emitAt G (f + 1) n v md S).log = [(v, md)] := by
  have j := below_all G f (.deliver (S.downs n) n v md) (emitPre S n md).1 (hA.of_eq (by simp))
  simp only [BelowP, interp] at j
  rw [emitAt_succ]
  refine ⟨fun i hi => ?_, ?_⟩
  · obtain ⟨j1, _⟩ := j i (fun d hd => Nat.lt_of_le_of_lt hi (hA n d hd))
    simp only []; rw [j1, emitPre_loc]
  · obtain ⟨_, j2⟩ := j n (fun d hd => hA n d hd)
    simp only []
    rw [List.cons_append, emitsOf_cons_emit, if_pos rfl, emitsOf_append, (emitPre_quiet S n md).emitsOf n, j2]; rfl

/-! ### C. One arrival at an accumulate node -/

/-- the body `[.set s1, .emit out md]`, any outcome of the emission: the frame ends in the state of the
emission, which has `loc d = s1` -/
theorem runEffs_set_emit (f : Nat) (d : NodeId) (s1 : NState) (out : Val) (md : Meta) (S : State) :
    (runEffs G (f + 3) d [.set s1, .emit out md] S).st = (emitAt G (f + 1) d out md (S.setLoc d s1)).st ∧
      (runEffs G (f + 3) d [.set s1, .emit out md] S).log = (emitAt G (f + 1) d out md (S.setLoc d s1)).log := by
  rw [runEffs_cons]
  simp only []
  cases h1 : (emitAt G (f + 1) d out md (S.setLoc d s1)).err with
  | some e1 => rw [runEffs_emit_err G h1]; exact ⟨rfl, rfl⟩
  | none => rw [runEffs_emit_ok G h1, runEffs_nil]; exact ⟨rfl, by simp⟩

/-- **One arrival, any outcome.**  `d` is an accumulate node whose own function maps (state, `v`) to the pair
`p` = (new state, result).  With fuel for the node's own frames (`4 ≤ fuel`; how far the run gets below is
irrelevant), after `update`: `d` holds the new state, `d` emitted exactly `accOut ws p`, and nothing at or
above `d` was touched otherwise. -/
theorem update_accumulate {S : State} (hA : Acyclic S) {d : NodeId} {f : Fn2} {start : Option Val} {rs ws : Bool}
    (hk : G d = .accumulate f start rs ws) {who : NodeId} {v : Val} {md : Meta} {p : Val × Val}
    (hp : accStep f rs (S.loc d).acc v = some p) {fuel : Nat} (hf : 4 ≤ fuel) :
    (update G fuel d who v md S).st.loc d = { S.loc d with acc := some p.1 } ∧
      emitsOf d (update G fuel d who v md S).log = [(accOut ws p, md)] ∧
      (∀ i, i < d → (update G fuel d who v md S).st.loc i = S.loc i) := by
  obtain ⟨g, rfl⟩ : ∃ g, fuel = g + 4 := ⟨fuel - 4, by omega⟩
  have hs : ∀ m, G d ≠ .sink m := fun m hm => by rw [hk] at hm; cases hm
  have hA1 : Acyclic (S.setLoc d { S.loc d with acc := some p.1 }) := hA.of_eq (by simp)
  obtain ⟨e1, e2⟩ := emitAt_self G hA1 g d (accOut ws p) md
  rw [update_other G _ _ _ _ _ _ hs, updWrap_st, updWrap_log, hk, upd_accumulate_ok hp]
  obtain ⟨r1, r2⟩ := runEffs_set_emit G g d { S.loc d with acc := some p.1 } (accOut ws p) md S
  rw [r1, r2]
  refine ⟨?_, ?_, fun i hi => ?_⟩
  · rw [e1 d (Nat.le_refl d), setLoc_same]
  · rw [List.cons_append, emitsOf_cons_arrive, emitsOf_append, e2, emitsOf_updTail]; rfl
  · rw [e1 i (Nat.le_of_lt hi), setLoc_other S _ (Nat.ne_of_lt hi)]

/-- a run that did not run out of fuel had fuel for the node's own frames -/
theorem fuel_of_not_oof {d : NodeId} {f : Fn2} {start : Option Val} {rs ws : Bool}
    (hk : G d = .accumulate f start rs ws) {who : NodeId} {v : Val} {md : Meta} {S : State} {p : Val × Val}
    (hp : accStep f rs (S.loc d).acc v = some p) {fuel : Nat}
    (h : (update G fuel d who v md S).err ≠ some .outOfFuel) : 4 ≤ fuel := by
  have hs : ∀ m, G d ≠ .sink m := fun m hm => by rw [hk] at hm; cases hm
  have hco : isCoroutine (G d) = false := by rw [hk]; rfl
  apply Classical.byContradiction
  intro hlt
  apply h
  have key : ∀ g, g ≤ 2 →
      (runEffs G g d [.set { S.loc d with acc := some p.1 }, .emit (accOut ws p) md] S).err = some .outOfFuel := by
    intro g hg
    match g with
    | 0 => exact zero_oof_runEffs G _ _ _
    | 1 => rw [runEffs_cons]; exact zero_oof_runEffs G _ _ _
    | 2 =>
      rw [runEffs_cons]; simp only []
      rw [runEffs_emit_err G (zero_oof_emitAt G _ _ _ _)]; exact zero_oof_emitAt G _ _ _ _
  match fuel with
  | 0 => exact zero_oof_update G _ _ _ _ _
  | g + 1 =>
    rw [update_other G _ _ _ _ _ _ hs, hk, upd_accumulate_ok hp]
    exact updWrap_oof (key g (by omega))

/-! ### D. A sequence of arrivals -/

/-- The arrivals `as` reach node `d` one after the other; each `update` call starts in the state the previous
one left behind, whether it returned or raised (the producer catches the exception and goes on).  Returns the
final state and the concatenated log. -/
def feed (fuel : Nat) (d : NodeId) : List Arr → State → State × List Ev
  | [], S => (S, [])
  | a :: as, S =>
    let r := update G fuel d a.1 a.2.1 a.2.2 S
    let R := feed fuel d as r.st
    (R.1, r.log ++ R.2)

/-- number of `update` calls in `feed` that ended with an exception (raised or carried) -/
def feedFailures (fuel : Nat) (d : NodeId) : List Arr → State → Nat
  | [], _ => 0
  | a :: as, S =>
    let r := update G fuel d a.1 a.2.1 a.2.2 S
    (if r.err.isSome || r.carried.isSome then 1 else 0) + feedFailures fuel d as r.st

theorem feed_take_succ (fuel : Nat) (d : NodeId) (a : Arr) (as : List Arr) (k : Nat) (S : State) :
    feed G fuel d ((a :: as).take (k + 1)) S =
      ((feed G fuel d (as.take k) (update G fuel d a.1 a.2.1 a.2.2 S).st).1,
        (update G fuel d a.1 a.2.1 a.2.2 S).log ++ (feed G fuel d (as.take k) (update G fuel d a.1 a.2.1 a.2.2 S).st).2) :=
  rfl

/-- the accumulate node as a fallible step function in the sense of `Model/Resume.lean`: state =
`accumulate.state`, batch = the arriving value, result = the pair (new state, result) -/
def accNode (f : Fn2) (rs : Bool) (acc : Option Val) (x : Val) : Option (Option Val × (Val × Val)) :=
  (accStep f rs acc x).map fun p => (some p.1, p)

/-- values of an arrival list -/
def valsOf (as : List Arr) : List Val := as.map (·.2.1)

theorem runOpt_accNode_cons {f : Fn2} {rs : Bool} {acc : Option Val} {x : Val} {xs : List Val}
    {fin : Option Val} {pairs : List (Val × Val)}
    (h : Resume.runOpt (accNode f rs) acc (x :: xs) = some (fin, pairs)) :
    ∃ p rest, accStep f rs acc x = some p ∧ pairs = p :: rest ∧
      Resume.runOpt (accNode f rs) (some p.1) xs = some (fin, rest) := by
  simp only [Resume.runOpt, accNode] at h
  cases hp : accStep f rs acc x with
  | none => rw [hp] at h; simp at h
  | some p =>
    rw [hp] at h
    simp only [Option.map_some] at h
    cases hr : Resume.runOpt (accNode f rs) (some p.1) xs with
    | none => rw [hr] at h; simp at h
    | some q =>
      rw [hr] at h
      simp only [Option.some.injEq, Prod.mk.injEq] at h
      refine ⟨p, q.2, rfl, h.2.symm, ?_⟩
      rw [← h.1, hr]

/-- **Any sequence of arrivals, any failures downstream.**  `d` is an accumulate node whose own function does
not fail on the arrivals (`runOpt … = some (fin, pairs)`: the fold of the node's step function over the values
gives the final state `fin` and the pairs (state, result)).  Then after `feed` — in which any `update` call may
have been aborted by anything downstream — `d` holds `fin`, it emitted exactly one value per arrival, the
`k`-th being `accOut ws` of the `k`-th pair of the fold with the `k`-th arrival's metadata; the graph is still
acyclic. -/
theorem feed_accumulate {d : NodeId} {f : Fn2} {start : Option Val} {rs ws : Bool}
    (hk : G d = .accumulate f start rs ws) {fuel : Nat} (hf : 4 ≤ fuel) :
    ∀ (as : List Arr) (S : State), Acyclic S → ∀ (fin : Option Val) (pairs : List (Val × Val)),
      Resume.runOpt (accNode f rs) (S.loc d).acc (valsOf as) = some (fin, pairs) →
      (feed G fuel d as S).1.loc d = { S.loc d with acc := fin } ∧
        emitsOf d (feed G fuel d as S).2 = List.zipWith (fun p a => (accOut ws p, a.2.2)) pairs as ∧
        Acyclic (feed G fuel d as S).1 := by
  intro as
  induction as with
  | nil =>
    intro S hA fin pairs h
    simp only [valsOf, List.map_nil, Resume.runOpt, Option.some.injEq, Prod.mk.injEq] at h
    obtain ⟨rfl, rfl⟩ := h
    exact ⟨rfl, rfl, hA⟩
  | cons a as ih =>
    intro S hA fin pairs h
    simp only [valsOf, List.map_cons] at h
    obtain ⟨p, rest, hp, rfl, hrest⟩ := runOpt_accNode_cons h
    obtain ⟨u1, u2, _⟩ := update_accumulate G hA hk (who := a.1) (md := a.2.2) hp hf
    have hA1 : Acyclic (update G fuel d a.1 a.2.1 a.2.2 S).st :=
      hA.of_sublist (interp_downs_sublist G fuel (.update d a.1 a.2.1 a.2.2) S)
    have hacc : ((update G fuel d a.1 a.2.1 a.2.2 S).st.loc d).acc = some p.1 := by rw [u1]
    obtain ⟨i1, i2, i3⟩ := ih _ hA1 fin rest (by rw [hacc]; exact hrest)
    refine ⟨?_, ?_, i3⟩
    · simp only [feed]; rw [i1, u1]
    · simp only [feed]; rw [emitsOf_append, u2, i2]; rfl

/-- Cutting the fold of the node's step function after arrival `k`: the prefix ends in the state inside the
`k`-th pair, and the fold restarted from that state over the remaining values gives the remaining pairs and
the same final state. -/
theorem runOpt_accNode_cut {f : Fn2} {rs : Bool} : ∀ (xs : List Val) (acc fin : Option Val)
    (pairs : List (Val × Val)), Resume.runOpt (accNode f rs) acc xs = some (fin, pairs) →
    ∀ k, k < xs.length → ∃ p, pairs[k]? = some p ∧
      Resume.runOpt (accNode f rs) acc (xs.take (k + 1)) = some (some p.1, pairs.take (k + 1)) ∧
      Resume.runOpt (accNode f rs) (some p.1) (xs.drop (k + 1)) = some (fin, pairs.drop (k + 1)) := by
  intro xs
  induction xs with
  | nil => intro acc fin pairs _ k hk; simp at hk
  | cons x xs ih =>
    intro acc fin pairs h k hk
    obtain ⟨p, rest, hp, rfl, hrest⟩ := runOpt_accNode_cons h
    cases k with
    | zero =>
      refine ⟨p, rfl, ?_, ?_⟩
      · simp [Resume.runOpt, accNode, hp]
      · simpa using hrest
    | succ k =>
      obtain ⟨q, q1, q2, q3⟩ := ih (some p.1) fin rest hrest k (by simpa using hk)
      refine ⟨q, by simpa using q1, ?_, by simpa using q3⟩
      simp [Resume.runOpt, accNode, hp, q2]

theorem runOpt_accNode_length {f : Fn2} {rs : Bool} : ∀ (xs : List Val) (acc fin : Option Val)
    (pairs : List (Val × Val)), Resume.runOpt (accNode f rs) acc xs = some (fin, pairs) →
    pairs.length = xs.length := by
  intro xs
  induction xs with
  | nil => intro acc fin pairs h; simp [Resume.runOpt] at h; simp [h.2.symm]
  | cons x xs ih =>
    intro acc fin pairs h
    obtain ⟨p, rest, _, rfl, hrest⟩ := runOpt_accNode_cons h
    simp [ih _ _ _ hrest]

/-! ### E. The mutated order -/

/-- the seeded change: hand the pair over first, adopt the state afterwards -/
def swapSetEmit : List Eff → List Eff
  | [.set s1, .emit out md] => [.emit out md, .set s1]
  | es => es

/-- one arrival at `d` processed with the mutated body (the node's `update` frame without the wrapper) -/
def updateMut (fuel : Nat) (d who : NodeId) (v : Val) (md : Meta) (S : State) : Res :=
  runEffs G fuel d (swapSetEmit (upd (G d) (S.loc d) who v md).effs) S

/-- on an arrival the node's own function accepts, the mutated body is: emit the pair, then adopt the state -/
theorem swapSetEmit_accumulate {f : Fn2} {start : Option Val} {rs ws : Bool} {s : NState} {who : NodeId} {x : Val}
    {md : Meta} {p : Val × Val} (h : accStep f rs s.acc x = some p) :
    swapSetEmit (upd (.accumulate f start rs ws) s who x md).effs =
      [.emit (accOut ws p) md, .set { s with acc := some p.1 }] := by
  rw [upd_accumulate_ok h]; rfl

theorem emit_mem_of_emitsOf {n : NodeId} {v : Val} {md : Meta} {l : List Ev} (h : (v, md) ∈ emitsOf n l) :
    Ev.emit n v md ∈ l := by
  unfold emitsOf at h
  obtain ⟨ev, hev, hf⟩ := List.mem_filterMap.1 h
  cases ev with
  | emit m v' md' =>
    simp only [] at hf
    split at hf
    · next hm => subst hm; cases hf; exact hev
    · cases hf
  | _ => simp at hf

end StreamzVerif.Graph
