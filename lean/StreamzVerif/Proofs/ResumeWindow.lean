import StreamzVerif.Proofs.Resume
import StreamzVerif.Model.Window
/-! Bridge between the generic `Resume.run` / `Resume.runOpt` and `run` / `runOpt` of the C07 model
(whose step functions take the node state `Option A` and return the new accumulator `A`). -/
namespace StreamzVerif.Resume
open StreamzVerif.Window

/-- the accumulate node around a window accumulator: the new state is `some acc'` -/
def liftW {A R : Type} (step : Option A → Batch → A × R) : Option A → Batch → Option A × R :=
  fun acc b => (some (step acc b).1, (step acc b).2)

/-- the same for an accumulator that can fail -/
def liftWOpt {A R : Type} (step : Option A → Batch → Option (A × R)) : Option A → Batch → Option (Option A × R) :=
  fun acc b => (step acc b).map (fun r => (some r.1, r.2))

theorem window_run_eq {A R : Type} (step : Option A → Batch → A × R) (acc : Option A) (bs : List Batch) :
    Window.run step acc bs = Resume.run (liftW step) acc bs := by
  induction bs generalizing acc with
  | nil => simp [Window.run, Resume.run]
  | cons b bs ih => simp [Window.run, Resume.run, liftW, ih]

theorem window_runOpt_eq {A R : Type} (step : Option A → Batch → Option (A × R)) (acc : Option A) (bs : List Batch) :
    Window.runOpt step acc bs = Resume.runOpt (liftWOpt step) acc bs := by
  induction bs generalizing acc with
  | nil => simp [Window.runOpt, Resume.runOpt]
  | cons b bs ih =>
    simp only [Window.runOpt, Resume.runOpt, liftWOpt]
    cases h : step acc b with
    | none => simp
    | some r =>
      simp only [Option.map_some, ih]
      cases runOpt (liftWOpt step) (some r.1) bs <;> rfl

end StreamzVerif.Resume
