import StreamzVerif.Model.AsyncWindows
/-!
# Invariants and helper lemmas for the time-window models (`Model/AsyncWindows.lean`)
-/
set_option linter.unusedSectionVars false

namespace StreamzVerif.AsyncWindows

/-! ## Reference counters -/

theorem RC.retain_cnt (s : RC) (m : List Nat) (q : Nat) :
    (s.retain m).cnt q = s.cnt q + (m.count q : Nat) := by
  induction m generalizing s with
  | nil => simp [RC.retain]
  | cons r m ih =>
    simp only [RC.retain, ih, RC.retain1, List.count_cons]
    by_cases h : q = r
    · subst h; simp; omega
    · have : (r == q) = false := by simp; exact fun e => h e.symm
      simp [h, this]

theorem RC.retain_fired (s : RC) (m : List Nat) : (s.retain m).fired = s.fired := by
  induction m generalizing s with
  | nil => rfl
  | cons r m ih => simp [RC.retain, ih, RC.retain1]

theorem RC.release1_cnt (s : RC) (r q : Nat) :
    (s.release1 r).cnt q = if q = r then s.cnt q - 1 else s.cnt q := rfl

theorem RC.release1_fired (s : RC) (r : Nat) :
    (s.release1 r).fired = if (s.release1 r).cnt r ≤ 0 then s.fired ++ [r] else s.fired := rfl

theorem RC.release_cnt (s : RC) (m : List Nat) (q : Nat) :
    (s.release m).cnt q = s.cnt q - (m.count q : Nat) := by
  induction m generalizing s with
  | nil => simp [RC.release]
  | cons r m ih =>
    simp only [RC.release, ih, RC.release1_cnt, List.count_cons]
    by_cases h : q = r
    · subst h; simp; omega
    · have : (r == q) = false := by simp; exact fun e => h e.symm
      simp [h, this]

/-- What a `_release_refs` adds to the fired callbacks: only counters of the released metadata whose count
is `≤ 0` afterwards. -/
theorem RC.release_fired (s : RC) (m : List Nat) :
    ∃ new, (s.release m).fired = s.fired ++ new ∧ ∀ q ∈ new, q ∈ m ∧ (s.release m).cnt q ≤ 0 := by
  induction m generalizing s with
  | nil => exact ⟨[], by simp [RC.release]⟩
  | cons r m ih =>
    obtain ⟨new, h1, h2⟩ := ih (s.release1 r)
    simp only [RC.release]
    by_cases hz : (s.release1 r).cnt r ≤ 0
    · refine ⟨r :: new, ?_, ?_⟩
      · rw [h1]
        rw [RC.release1_fired, if_pos hz]; simp
      · intro q hq
        rcases List.mem_cons.mp hq with rfl | hq
        · refine ⟨List.mem_cons_self, ?_⟩
          rw [RC.release_cnt]; omega
        · exact ⟨List.mem_cons_of_mem _ (h2 q hq).1, (h2 q hq).2⟩
    · refine ⟨new, ?_, ?_⟩
      · rw [h1]
        rw [RC.release1_fired, if_neg hz]
      · intro q hq
        exact ⟨List.mem_cons_of_mem _ (h2 q hq).1, (h2 q hq).2⟩

/-- Nothing fires when every released counter stays positive. -/
theorem RC.release_no_fire (s : RC) (m : List Nat)
    (h : ∀ q ∈ m, 1 ≤ s.cnt q - (m.count q : Nat)) : (s.release m).fired = s.fired := by
  obtain ⟨new, h1, h2⟩ := RC.release_fired s m
  cases new with
  | nil => simpa using h1
  | cons q new =>
    have := h2 q List.mem_cons_self
    have h3 := h q this.1
    rw [RC.release_cnt] at this
    omega

/-! ## Lists of elements -/

variable {α κ : Type} [DecidableEq κ]

/-- How many metadata entries of the elements in `l` refer to counter `r`. -/
def occ (r : Nat) (l : List (Elem α)) : Nat := (mds l).count r

@[simp] theorem mds_nil : mds ([] : List (Elem α)) = [] := rfl
@[simp] theorem mds_append (l1 l2 : List (Elem α)) : mds (l1 ++ l2) = mds l1 ++ mds l2 := by
  simp [mds, List.flatMap_append]
@[simp] theorem mds_cons (e : Elem α) (l : List (Elem α)) : mds (e :: l) = e.md ++ mds l := by
  simp [mds, List.flatMap_cons]
@[simp] theorem occ_nil (r : Nat) : occ r ([] : List (Elem α)) = 0 := rfl
@[simp] theorem occ_append (r : Nat) (l1 l2 : List (Elem α)) : occ r (l1 ++ l2) = occ r l1 + occ r l2 := by
  simp [occ, List.count_append]
@[simp] theorem occ_cons (r : Nat) (e : Elem α) (l : List (Elem α)) : occ r (e :: l) = e.md.count r + occ r l := by
  simp [occ, List.count_append]

theorem occ_filter (r : Nat) (p : Elem α → Bool) (l : List (Elem α)) :
    occ r (l.filter p) + occ r (l.filter (fun e => !p e)) = occ r l := by
  induction l with
  | nil => simp
  | cons e l ih =>
    cases h : p e <;> simp [h] <;> omega

theorem occ_pos_of_mem (r : Nat) (e : Elem α) (l : List (Elem α)) (he : e ∈ l) (hr : r ∈ e.md) :
    1 ≤ occ r l := by
  induction l with
  | nil => simp at he
  | cons b l ih =>
    rcases List.mem_cons.mp he with rfl | he
    · have := List.count_pos_iff.mpr hr; simp; omega
    · have := ih he; simp; omega

/-! ## timed_window / timed_window_unique: the buffer update -/

theorem insert_mem (cfg : Cfg α κ) (buf : List (Elem α)) (e b : Elem α)
    (h : b ∈ (insert cfg buf e).1) : b ∈ buf ∨ b = e := by
  unfold insert at h
  split at h
  · simpa using h
  · split at h
    · exact Or.inl h
    · simpa using h
  · simp only [List.mem_append, List.mem_filter, List.mem_singleton] at h
    rcases h with h | h
    · exact Or.inl h.1
    · exact Or.inr h

/-- Counter balance of one `update`: what stays in the buffer plus what is released at once is what was there
plus the new element. -/
theorem insert_occ (cfg : Cfg α κ) (buf : List (Elem α)) (e : Elem α) (r : Nat) :
    occ r (insert cfg buf e).1 + (insert cfg buf e).2.count r = occ r buf + e.md.count r := by
  unfold insert
  split
  · simp
  · split <;> simp
  · have := occ_filter r (fun b => decide (cfg.key b.val = cfg.key e.val)) buf
    simp only [occ_append, occ_cons, occ_nil]
    show _ + occ r _ = _
    omega

/-! ## timed windows: reference counts -/

/-- Exact reference count of every counter at every settled point: one per buffered element that carries it,
two (the node's own and the downstream consumer's) per element of the batch in flight. -/
structure CountInv (s : TW α) : Prop where
  cnt : ∀ r, s.rc.cnt r = (occ r s.buf : Nat) + 2 * (s.pend.count r : Nat)
  idle : s.cb ≠ .emitting → s.pend = []

theorem CountInv.init (c0 : Nat) : CountInv (TW.init α c0) :=
  ⟨fun r => by simp [TW.init, RC.init], fun _ => rfl⟩

omit [DecidableEq κ] in
theorem emitBatch_countInv (cfg : Cfg α κ) (s : TW α) (h : CountInv s) (hcb : s.cb ≠ .emitting) :
    CountInv (emitBatch cfg s) := by
  have hp := h.idle hcb
  unfold emitBatch
  split
  · refine ⟨fun r => ?_, fun _ => rfl⟩
    have := h.cnt r
    simp only [RC.release_cnt, RC.retain_cnt, occ_nil, List.count_nil]
    rw [hp] at this
    simp only [occ] at this
    simp at this ⊢
    omega
  · refine ⟨fun r => ?_, fun hc => absurd rfl hc⟩
    have := h.cnt r
    simp only [RC.release_cnt, RC.retain_cnt, occ_nil]
    rw [hp] at this
    simp only [occ] at this
    simp at this ⊢
    omega

theorem step_countInv (cfg : Cfg α κ) (s s' : TW α) (a : Act α) (h : CountInv s)
    (hs : step cfg s a = some s') : CountInv s' := by
  cases a with
  | arrive x md =>
    simp only [step, Option.some.injEq] at hs
    subst hs
    refine ⟨fun r => ?_, h.idle⟩
    have h1 := h.cnt r
    have h2 := insert_occ cfg s.buf { val := x, md := md, at_ := s.now, blk := s.blocked } r
    simp only [RC.release_cnt, RC.retain_cnt]
    simp only at h2
    omega
  | start =>
    simp only [step] at hs
    split at hs
    · cases hs
      exact emitBatch_countInv cfg s h (by simp [*])
    · cases hs
  | tick =>
    simp only [step] at hs
    split at hs
    · split at hs
      · cases hs
        exact emitBatch_countInv cfg s h (by simp [*])
      · cases hs
    · cases hs
  | downDone =>
    simp only [step] at hs
    split at hs
    · cases hs
      refine ⟨fun r => ?_, fun _ => rfl⟩
      have := h.cnt r
      simp only [RC.release_cnt, List.count_nil]
      omega
    · cases hs
  | advance t =>
    simp only [step] at hs
    split at hs
    · split at hs
      · cases hs
      · cases hs
        exact ⟨h.cnt, h.idle⟩
      · split at hs
        · cases hs
          exact ⟨h.cnt, h.idle⟩
        · cases hs
    · cases hs

/-! ## timed windows: conservation -/

theorem flatMap_congr' {β γ : Type} (l : List β) (f g : β → List γ) (h : ∀ a ∈ l, f a = g a) :
    l.flatMap f = l.flatMap g := by
  induction l with
  | nil => rfl
  | cons a l ih =>
    simp only [List.flatMap_cons]
    rw [h a List.mem_cons_self, ih (fun b hb => h b (List.mem_cons_of_mem _ hb))]

/-- The buffer as a function of the arrivals since the last swap: fold of `update`. For `timed_window` it is the
identity, for `timed_window_unique` the keep-first / keep-last reduction (characterised in `reduce_*` below). -/
def reduce (cfg : Cfg α κ) (w : List (Elem α)) : List (Elem α) :=
  w.foldl (fun b e => (insert cfg b e).1) []

theorem reduce_snoc (cfg : Cfg α κ) (w : List (Elem α)) (e : Elem α) :
    reduce cfg (w ++ [e]) = (insert cfg (reduce cfg w) e).1 := by
  simp [reduce, List.foldl_append]

structure WinInv (cfg : Cfg α κ) (s : TW α) : Prop where
  hist : s.outs.flatMap (·.win) ++ s.win = s.ins
  buf : s.buf = reduce cfg s.win
  outs : ∀ o ∈ s.outs, o.batch = reduce cfg o.win

theorem WinInv.init (cfg : Cfg α κ) (c0 : Nat) : WinInv cfg (TW.init α c0) :=
  ⟨rfl, rfl, fun _ h => by simp [TW.init] at h⟩

theorem emitBatch_winInv (cfg : Cfg α κ) (s : TW α) (h : WinInv cfg s) : WinInv cfg (emitBatch cfg s) := by
  unfold emitBatch
  split
  · refine ⟨?_, rfl, ?_⟩
    · simpa [List.flatMap_append] using h.hist
    · intro o ho
      simp only [List.mem_append, List.mem_singleton] at ho
      rcases ho with ho | rfl
      · exact h.outs o ho
      · exact h.buf
  · refine ⟨?_, rfl, ?_⟩
    · simpa [List.flatMap_append] using h.hist
    · intro o ho
      simp only [List.mem_append, List.mem_singleton] at ho
      rcases ho with ho | rfl
      · exact h.outs o ho
      · exact h.buf

theorem step_winInv (cfg : Cfg α κ) (s s' : TW α) (a : Act α) (h : WinInv cfg s)
    (hs : step cfg s a = some s') : WinInv cfg s' := by
  cases a with
  | arrive x md =>
    simp only [step, Option.some.injEq] at hs
    subst hs
    refine ⟨?_, ?_, h.outs⟩
    · simp only [← h.hist, List.append_assoc]
    · simp only [reduce_snoc, ← h.buf]
  | start =>
    simp only [step] at hs
    split at hs
    · cases hs; exact emitBatch_winInv cfg s h
    · cases hs
  | tick =>
    simp only [step] at hs
    split at hs
    · split at hs
      · cases hs; exact emitBatch_winInv cfg s h
      · cases hs
    · cases hs
  | downDone =>
    simp only [step] at hs
    split at hs
    · cases hs; exact ⟨h.hist, h.buf, h.outs⟩
    · cases hs
  | advance t =>
    simp only [step] at hs
    split at hs
    · split at hs
      · cases hs
      · cases hs; exact ⟨h.hist, h.buf, h.outs⟩
      · split at hs
        · cases hs; exact ⟨h.hist, h.buf, h.outs⟩
        · cases hs
    · cases hs

/-! ## timed windows: deadline -/

/-- How far the next emission can still be, for an element in the buffer, by position of `cb`. -/
def Slack (cfg : Cfg α κ) (s : TW α) (e : Elem α) : Prop :=
  match s.cb with
  | .idle => s.now + e.blk ≤ e.at_ + s.blocked
  | .emitting => s.now + e.blk ≤ e.at_ + s.blocked
  | .sleeping due => due + e.blk ≤ e.at_ + cfg.interval + s.blocked

structure TimeInv (cfg : Cfg α κ) (s : TW α) : Prop where
  past : ∀ e ∈ s.buf, e.at_ ≤ s.now ∧ e.blk ≤ s.blocked
  slack : ∀ e ∈ s.buf, Slack cfg s e
  sleep : ∀ due, s.cb = .sleeping due → s.now ≤ due ∧ due ≤ s.now + cfg.interval
  outs : ∀ o ∈ s.outs, o.at_ ≤ s.now ∧ o.blk ≤ s.blocked ∧
    ∀ e ∈ o.batch, e.at_ ≤ o.at_ ∧ e.blk ≤ o.blk ∧ o.at_ + e.blk ≤ e.at_ + cfg.interval + o.blk

omit [DecidableEq κ] in
theorem TimeInv.init (cfg : Cfg α κ) (c0 : Nat) : TimeInv cfg (TW.init α c0) :=
  ⟨fun _ h => by simp [TW.init] at h, fun _ h => by simp [TW.init] at h,
   fun _ h => by simp [TW.init] at h, fun _ h => by simp [TW.init] at h⟩

omit [DecidableEq κ] in
/-- An emission is allowed by the deadline when `cb` is idle (construction instant) or its sleep is over. -/
theorem emitBatch_timeInv (cfg : Cfg α κ) (s : TW α) (h : TimeInv cfg s)
    (hcb : s.cb = .idle ∨ ∃ due, s.cb = .sleeping due ∧ due ≤ s.now) : TimeInv cfg (emitBatch cfg s) := by
  have hnew : ∀ e ∈ s.buf, e.at_ ≤ s.now ∧ e.blk ≤ s.blocked ∧ s.now + e.blk ≤ e.at_ + cfg.interval + s.blocked := by
    intro e he
    have h1 := h.past e he
    have h2 := h.slack e he
    refine ⟨h1.1, h1.2, ?_⟩
    rcases hcb with hc | ⟨due, hc, hd⟩
    · simp only [Slack, hc] at h2; omega
    · have := h.sleep due hc
      simp only [Slack, hc] at h2; omega
  have houts : ∀ o ∈ s.outs ++ [{ at_ := s.now, blk := s.blocked, batch := s.buf, win := s.win : Out α }],
      o.at_ ≤ s.now ∧ o.blk ≤ s.blocked ∧
      ∀ e ∈ o.batch, e.at_ ≤ o.at_ ∧ e.blk ≤ o.blk ∧ o.at_ + e.blk ≤ e.at_ + cfg.interval + o.blk := by
    intro o ho
    simp only [List.mem_append, List.mem_singleton] at ho
    rcases ho with ho | rfl
    · exact h.outs o ho
    · exact ⟨Nat.le_refl _, Nat.le_refl _, hnew⟩
  unfold emitBatch
  split
  · exact ⟨fun _ he => by simp at he, fun _ he => by simp at he,
      fun due hd => by simp only [Cb.sleeping.injEq] at hd; subst hd; simp only; omega, houts⟩
  · exact ⟨fun _ he => by simp at he, fun _ he => by simp at he,
      fun due hd => by simp at hd, houts⟩

theorem step_timeInv (cfg : Cfg α κ) (s s' : TW α) (a : Act α) (h : TimeInv cfg s)
    (hs : step cfg s a = some s') : TimeInv cfg s' := by
  cases a with
  | arrive x md =>
    simp only [step, Option.some.injEq] at hs
    subst hs
    refine ⟨?_, ?_, h.sleep, h.outs⟩
    · intro e he
      rcases insert_mem cfg _ _ _ he with he | rfl
      · exact h.past e he
      · exact ⟨Nat.le_refl _, Nat.le_refl _⟩
    · intro e he
      rcases insert_mem cfg _ _ _ he with he | rfl
      · exact h.slack e he
      · show Slack cfg _ _
        unfold Slack
        cases hc : s.cb with
        | idle => simp
        | emitting => simp
        | sleeping due => have := (h.sleep due hc).2; simp; omega
  | start =>
    simp only [step] at hs
    split at hs
    · cases hs; exact emitBatch_timeInv cfg s h (Or.inl (by assumption))
    · cases hs
  | tick =>
    simp only [step] at hs
    split at hs
    · split at hs
      · cases hs; exact emitBatch_timeInv cfg s h (Or.inr ⟨_, by assumption, by assumption⟩)
      · cases hs
    · cases hs
  | downDone =>
    simp only [step] at hs
    split at hs
    · rename_i hc
      cases hs
      refine ⟨h.past, ?_, ?_, h.outs⟩
      · intro e he
        have := h.slack e he
        simp only [Slack, hc] at this
        simp only [Slack]; omega
      · intro due hd
        simp only [Cb.sleeping.injEq] at hd; subst hd; simp only; omega
    · cases hs
  | advance t =>
    simp only [step] at hs
    split at hs
    · rename_i hle
      split at hs
      · cases hs
      · rename_i hc
        cases hs
        refine ⟨?_, ?_, ?_, ?_⟩
        · intro e he; have := h.past e he; simp only; omega
        · intro e he
          have := h.slack e he
          simp only [Slack, hc] at this ⊢
          omega
        · intro due hd; simp [hc] at hd
        · intro o ho
          have := h.outs o ho
          exact ⟨by simp only; omega, by simp only; omega, this.2.2⟩
      · rename_i due hc
        split at hs
        · rename_i htd
          cases hs
          refine ⟨?_, ?_, ?_, ?_⟩
          · intro e he; have := h.past e he; simp only; omega
          · intro e he
            have := h.slack e he
            simp only [Slack, hc] at this ⊢
            omega
          · intro d hd
            simp only [hc, Cb.sleeping.injEq] at hd; subst hd
            have := h.sleep _ hc
            simp only; omega
          · intro o ho
            have := h.outs o ho
            exact ⟨by simp only; omega, this.2.1, this.2.2⟩
        · cases hs
    · cases hs

/-! ## The keep-first / keep-last reduction, characterised -/

theorem snoc_induction {β : Type} {P : List β → Prop} (h0 : P []) (hs : ∀ l e, P l → P (l ++ [e])) :
    ∀ l, P l := by
  have key : ∀ w w0, P w0 → P (w0 ++ w) := by
    intro w
    induction w with
    | nil => intro w0 h; simpa using h
    | cons e w ih =>
      intro w0 h
      have := ih (w0 ++ [e]) (hs w0 e h)
      simpa using this
  intro l
  simpa using key l [] h0

theorem reduce_nil (cfg : Cfg α κ) : reduce cfg [] = [] := rfl

/-- `timed_window`: the buffer is the list of arrivals. -/
theorem reduce_plain (cfg : Cfg α κ) (h : cfg.mode = .plain) (w : List (Elem α)) : reduce cfg w = w := by
  induction w using snoc_induction with
  | h0 => rfl
  | hs l e ih => rw [reduce_snoc, ih]; simp [insert, h]

/-- Nothing is invented or reordered: the buffer is a subsequence of the arrivals. -/
theorem reduce_sublist (cfg : Cfg α κ) (w : List (Elem α)) : (reduce cfg w).Sublist w := by
  induction w using snoc_induction with
  | h0 => simp [reduce_nil]
  | hs l e ih =>
    rw [reduce_snoc]
    unfold insert
    split
    · exact List.Sublist.append ih (List.Sublist.refl _)
    · split
      · exact ih.trans (List.sublist_append_left _ _)
      · exact List.Sublist.append ih (List.Sublist.refl _)
    · exact List.Sublist.append (List.filter_sublist.trans ih) (List.Sublist.refl _)

/-- Every key that arrived is represented in the buffer. -/
theorem reduce_covers (cfg : Cfg α κ) (w : List (Elem α)) :
    ∀ e ∈ w, ∃ b ∈ reduce cfg w, cfg.key b.val = cfg.key e.val := by
  induction w using snoc_induction with
  | h0 => intro e he; simp at he
  | hs l x ih =>
    intro e he
    rw [reduce_snoc]
    simp only [List.mem_append, List.mem_singleton] at he
    unfold insert
    split
    · rcases he with he | rfl
      · obtain ⟨b, hb, hk⟩ := ih e he
        exact ⟨b, by simp [hb], hk⟩
      · exact ⟨e, by simp, rfl⟩
    · split
      · rename_i hany
        rcases he with he | rfl
        · exact ih e he
        · simp only [List.any_eq_true, decide_eq_true_eq] at hany
          exact hany
      · rcases he with he | rfl
        · obtain ⟨b, hb, hk⟩ := ih e he
          exact ⟨b, by simp [hb], hk⟩
        · exact ⟨e, by simp, rfl⟩
    · rcases he with he | rfl
      · obtain ⟨b, hb, hk⟩ := ih e he
        by_cases hx : cfg.key b.val = cfg.key x.val
        · exact ⟨x, by simp, by rw [← hx, hk]⟩
        · exact ⟨b, by simp [hb, hx], hk⟩
      · exact ⟨e, by simp, rfl⟩

/-- `timed_window_unique`: no two elements of the buffer share a key. -/
theorem reduce_keys_distinct (cfg : Cfg α κ) (h : cfg.mode ≠ .plain) (w : List (Elem α)) :
    (reduce cfg w).Pairwise (fun a b => cfg.key a.val ≠ cfg.key b.val) := by
  induction w using snoc_induction with
  | h0 => simp [reduce_nil]
  | hs l x ih =>
    rw [reduce_snoc]
    unfold insert
    split
    · rename_i hm; exact absurd hm h
    · split
      · exact ih
      · rename_i hany
        simp only [List.any_eq_true, decide_eq_true_eq, not_exists, not_and] at hany
        rw [List.pairwise_append]
        exact ⟨ih, by simp, fun a ha b hb => by simp only [List.mem_singleton] at hb; subst hb; exact hany a ha⟩
    · rw [List.pairwise_append]
      refine ⟨ih.sublist List.filter_sublist, by simp, fun a ha b hb => ?_⟩
      simp only [List.mem_singleton] at hb; subst hb
      simp only [List.mem_filter, Bool.not_eq_eq_eq_not, Bool.not_true, decide_eq_false_iff_not] at ha
      exact ha.2

/-- keep = "first": an element of the buffer is the FIRST arrival with its key. -/
theorem reduce_first (cfg : Cfg α κ) (h : cfg.mode = .first) (w : List (Elem α)) :
    ∀ b ∈ reduce cfg w, ∃ l1 l2, w = l1 ++ b :: l2 ∧ ∀ a ∈ l1, cfg.key a.val ≠ cfg.key b.val := by
  induction w using snoc_induction with
  | h0 => intro b hb; simp [reduce_nil] at hb
  | hs l x ih =>
    intro b hb
    rw [reduce_snoc] at hb
    have old : b ∈ reduce cfg l → ∃ l1 l2, l ++ [x] = l1 ++ b :: l2 ∧ ∀ a ∈ l1, cfg.key a.val ≠ cfg.key b.val := by
      intro hb
      obtain ⟨l1, l2, hl, hk⟩ := ih b hb
      exact ⟨l1, l2 ++ [x], by simp [hl], hk⟩
    simp only [insert, h] at hb
    split at hb
    · exact old hb
    · rename_i hany
      simp only [List.mem_append, List.mem_singleton] at hb
      rcases hb with hb | rfl
      · exact old hb
      · refine ⟨l, [], rfl, fun a ha hk => ?_⟩
        obtain ⟨c, hc, hck⟩ := reduce_covers cfg l a ha
        simp only [List.any_eq_true, decide_eq_true_eq, not_exists, not_and] at hany
        exact hany c hc (hck.trans hk)

/-- keep = "last": an element of the buffer is the LAST arrival with its key. -/
theorem reduce_last (cfg : Cfg α κ) (h : cfg.mode = .last) (w : List (Elem α)) :
    ∀ b ∈ reduce cfg w, ∃ l1 l2, w = l1 ++ b :: l2 ∧ ∀ a ∈ l2, cfg.key a.val ≠ cfg.key b.val := by
  induction w using snoc_induction with
  | h0 => intro b hb; simp [reduce_nil] at hb
  | hs l x ih =>
    intro b hb
    rw [reduce_snoc] at hb
    simp only [insert, h, List.mem_append, List.mem_filter, List.mem_singleton] at hb
    rcases hb with ⟨hb, hk⟩ | rfl
    · obtain ⟨l1, l2, hl, hk2⟩ := ih b hb
      refine ⟨l1, l2 ++ [x], by simp [hl], fun a ha => ?_⟩
      simp only [List.mem_append, List.mem_singleton] at ha
      rcases ha with ha | rfl
      · exact hk2 a ha
      · simp only [Bool.not_eq_eq_eq_not, Bool.not_true, decide_eq_false_iff_not] at hk
        exact fun e => hk e.symm
    · exact ⟨l, [], rfl, fun a ha => by simp at ha⟩

/-! ## partition: the per-key view of the buffer -/

theorem mem_part (cfg : PCfg α κ) (k : κ) (l : List (Elem α)) (e : Elem α) :
    e ∈ part cfg k l ↔ e ∈ l ∧ cfg.key e.val = k := by simp [part]

theorem mem_unpart (cfg : PCfg α κ) (k : κ) (l : List (Elem α)) (e : Elem α) :
    e ∈ unpart cfg k l ↔ e ∈ l ∧ cfg.key e.val ≠ k := by simp [unpart]

theorem part_snoc_same (cfg : PCfg α κ) (l : List (Elem α)) (e : Elem α) :
    part cfg (cfg.key e.val) (l ++ [e]) = part cfg (cfg.key e.val) l ++ [e] := by
  simp [part, List.filter_append]

theorem part_snoc_other (cfg : PCfg α κ) (k : κ) (l : List (Elem α)) (e : Elem α) (h : cfg.key e.val ≠ k) :
    part cfg k (l ++ [e]) = part cfg k l := by
  simp [part, List.filter_append, h]

theorem part_unpart_self (cfg : PCfg α κ) (k : κ) (l : List (Elem α)) : part cfg k (unpart cfg k l) = [] := by
  simp only [part, unpart, List.filter_filter, List.filter_eq_nil_iff]
  intro e _
  by_cases h : cfg.key e.val = k <;> simp [h]

theorem part_unpart_other (cfg : PCfg α κ) (k k' : κ) (l : List (Elem α)) (h : k' ≠ k) :
    part cfg k' (unpart cfg k l) = part cfg k' l := by
  simp only [part, unpart, List.filter_filter]
  apply List.filter_congr
  intro e _
  by_cases h2 : cfg.key e.val = k'
  · simp [h2, h]
  · simp [h2]

theorem occ_part_unpart (cfg : PCfg α κ) (k : κ) (l : List (Elem α)) (r : Nat) :
    occ r (part cfg k l) + occ r (unpart cfg k l) = occ r l :=
  occ_filter r (fun e => decide (cfg.key e.val = k)) l

theorem pairwise_inj {β γ : Type} (f : β → γ) (l : List β) (h : l.Pairwise (fun a b => f a ≠ f b)) :
    ∀ a ∈ l, ∀ b ∈ l, f a = f b → a = b := by
  induction l with
  | nil => intro a ha; simp at ha
  | cons x l ih =>
    rw [List.pairwise_cons] at h
    intro a ha b hb hab
    rcases List.mem_cons.mp ha with hax | hal
    · rcases List.mem_cons.mp hb with hbx | hbl
      · rw [hax, hbx]
      · subst hax; exact absurd hab (h.1 b hbl)
    · rcases List.mem_cons.mp hb with hbx | hbl
      · subst hbx; exact absurd hab.symm (h.1 a hal)
      · exact ih h.2 a hal b hbl hab

/-! ## partition: what `flush` changes -/

@[simp] theorem flush_buf (cfg : PCfg α κ) (s : PT α κ) (k : κ) (b : Bool) :
    (flush cfg s k b).buf = unpart cfg k s.buf := by unfold flush; split <;> rfl
@[simp] theorem flush_outs (cfg : PCfg α κ) (s : PT α κ) (k : κ) (b : Bool) :
    (flush cfg s k b).outs = s.outs ++ [{ at_ := s.now, key := k, batch := part cfg k s.buf, byTimer := b }] := by
  unfold flush; split <;> rfl
@[simp] theorem flush_timers (cfg : PCfg α κ) (s : PT α κ) (k : κ) (b : Bool) :
    (flush cfg s k b).timers = s.timers := by unfold flush; split <;> rfl
@[simp] theorem flush_callbacks (cfg : PCfg α κ) (s : PT α κ) (k : κ) (b : Bool) :
    (flush cfg s k b).callbacks = s.callbacks := by unfold flush; split <;> rfl
@[simp] theorem flush_nextId (cfg : PCfg α κ) (s : PT α κ) (k : κ) (b : Bool) :
    (flush cfg s k b).nextId = s.nextId := by unfold flush; split <;> rfl
@[simp] theorem flush_now (cfg : PCfg α κ) (s : PT α κ) (k : κ) (b : Bool) :
    (flush cfg s k b).now = s.now := by unfold flush; split <;> rfl
@[simp] theorem flush_ins (cfg : PCfg α κ) (s : PT α κ) (k : κ) (b : Bool) :
    (flush cfg s k b).ins = s.ins := by unfold flush; split <;> rfl

/-! ## partition: timers, sizes, deadline -/

/-- What the property demands of one emitted partition. -/
def OutOK (cfg : PCfg α κ) (o : POut α κ) : Prop :=
  1 ≤ o.batch.length ∧ o.batch.length ≤ cfg.n ∧
  (o.byTimer = false → o.batch.length = cfg.n) ∧
  (∀ e ∈ o.batch, cfg.key e.val = o.key) ∧
  ∃ hd, o.batch.head? = some hd ∧ (o.byTimer = true → o.at_ = hd.at_ + cfg.timeout) ∧
    o.at_ ≤ hd.at_ + cfg.timeout ∧ ∀ e ∈ o.batch, hd.at_ ≤ e.at_ ∧ e.at_ ≤ o.at_

structure PInv (cfg : PCfg α κ) (s : PT α κ) : Prop where
  /-- every live timer is the handle stored in `_callbacks` for its key -/
  latest : ∀ tm ∈ s.timers, s.callbacks tm.key = some tm.id
  fresh : ∀ tm ∈ s.timers, tm.id < s.nextId
  distinct : s.timers.Pairwise (fun a b => a.id ≠ b.id)
  /-- a timer is armed for a key iff its buffer is neither empty nor full -/
  armed : ∀ k, (∃ tm ∈ s.timers, tm.key = k) ↔
    (0 < (part cfg k s.buf).length ∧ (part cfg k s.buf).length < cfg.n)
  small : ∀ k, (part cfg k s.buf).length < cfg.n
  /-- the timer of a key is due one timeout after the arrival of the first buffered element, and is not overdue -/
  due : ∀ tm ∈ s.timers, s.now ≤ tm.due ∧
    ∃ hd, (part cfg tm.key s.buf).head? = some hd ∧ tm.due = hd.at_ + cfg.timeout
  sorted : s.buf.Pairwise (fun a b => a.at_ ≤ b.at_)
  past : ∀ e ∈ s.buf, e.at_ ≤ s.now
  outs : ∀ o ∈ s.outs, OutOK cfg o

theorem PInv.init (cfg : PCfg α κ) (hn : 1 ≤ cfg.n) (c0 : Nat) : PInv cfg (PT.init α κ c0) := by
  refine ⟨?_, ?_, ?_, ?_, ?_, ?_, ?_, ?_, ?_⟩ <;> simp [PT.init, part] <;> omega

/-- The partition emitted by a flush of key `k` satisfies `OutOK`, given the facts the invariant provides. -/
theorem outOK_of (cfg : PCfg α κ) (B : List (Elem α)) (now : Nat) (k : κ) (bt : Bool)
    (hsorted : B.Pairwise (fun a b => a.at_ ≤ b.at_)) (hpast : ∀ e ∈ B, e.at_ ≤ now)
    (h1 : 1 ≤ (part cfg k B).length) (h2 : (part cfg k B).length ≤ cfg.n)
    (hsize : bt = false → (part cfg k B).length = cfg.n)
    (hhd : ∀ hd, (part cfg k B).head? = some hd →
      now ≤ hd.at_ + cfg.timeout ∧ (bt = true → now = hd.at_ + cfg.timeout)) :
    OutOK cfg { at_ := now, key := k, batch := part cfg k B, byTimer := bt } := by
  refine ⟨h1, h2, hsize, fun e he => ((mem_part cfg k B e).mp he).2, ?_⟩
  have hs : (part cfg k B).Pairwise (fun a b => a.at_ ≤ b.at_) := hsorted.sublist List.filter_sublist
  cases hP : part cfg k B with
  | nil => rw [hP] at h1; simp at h1
  | cons hd tl =>
    have := hhd hd (by rw [hP]; rfl)
    refine ⟨hd, rfl, this.2, this.1, fun e he => ?_⟩
    have hmem : e ∈ part cfg k B := by rw [hP]; exact he
    refine ⟨?_, hpast e ((mem_part cfg k B e).mp hmem).1⟩
    rw [hP, List.pairwise_cons] at hs
    rcases List.mem_cons.mp he with rfl | he
    · exact Nat.le_refl _
    · exact hs.1 e he

/-- Removing the handle stored for key `k` leaves no live timer for `k` and touches no other key. -/
theorem cancel_timers (s : PT α κ) (k : κ)
    (hlatest : ∀ tm ∈ s.timers, s.callbacks tm.key = some tm.id)
    (hdist : s.timers.Pairwise (fun a b => a.id ≠ b.id))
    (hex : ∃ tm ∈ s.timers, tm.key = k) :
    (∀ tm ∈ (cancel s k).timers, tm ∈ s.timers ∧ tm.key ≠ k) ∧
    (∀ tm ∈ s.timers, tm.key ≠ k → tm ∈ (cancel s k).timers) := by
  obtain ⟨tm0, h0, hk0⟩ := hex
  have hcb : s.callbacks k = some tm0.id := by rw [← hk0]; exact hlatest tm0 h0
  unfold cancel
  rw [hcb]
  constructor
  · intro tm htm
    simp only [List.mem_filter, Bool.not_eq_eq_eq_not, Bool.not_true, decide_eq_false_iff_not] at htm
    refine ⟨htm.1, fun hk => htm.2 ?_⟩
    have := hlatest tm htm.1
    rw [hk, hcb] at this
    exact (Option.some.inj this).symm
  · intro tm htm hk
    simp only [List.mem_filter, Bool.not_eq_eq_eq_not, Bool.not_true, decide_eq_false_iff_not]
    refine ⟨htm, fun hid => hk ?_⟩
    have := pairwise_inj (fun t : Timer κ => t.id) s.timers hdist tm htm tm0 h0 hid
    rw [this]; exact hk0

@[simp] theorem cancel_buf (s : PT α κ) (k : κ) : (cancel s k).buf = s.buf := by unfold cancel; split <;> rfl
@[simp] theorem cancel_now (s : PT α κ) (k : κ) : (cancel s k).now = s.now := by unfold cancel; split <;> rfl
@[simp] theorem cancel_callbacks (s : PT α κ) (k : κ) : (cancel s k).callbacks = s.callbacks := by
  unfold cancel; split <;> rfl
@[simp] theorem cancel_nextId (s : PT α κ) (k : κ) : (cancel s k).nextId = s.nextId := by unfold cancel; split <;> rfl
@[simp] theorem cancel_outs (s : PT α κ) (k : κ) : (cancel s k).outs = s.outs := by unfold cancel; split <;> rfl
@[simp] theorem cancel_ins (s : PT α κ) (k : κ) : (cancel s k).ins = s.ins := by unfold cancel; split <;> rfl

theorem cancel_sub (s : PT α κ) (k : κ) : (cancel s k).timers.Sublist s.timers := by
  unfold cancel; split
  · exact List.filter_sublist
  · exact List.Sublist.refl _

/-- A flush of key `k` re-establishes the invariant, provided no timer is left for `k`. -/
theorem flush_pinv (cfg : PCfg α κ) (hn : 1 ≤ cfg.n) (s0 : PT α κ) (k : κ) (bt : Bool)
    (hlatest : ∀ tm ∈ s0.timers, s0.callbacks tm.key = some tm.id)
    (hfresh : ∀ tm ∈ s0.timers, tm.id < s0.nextId)
    (hdist : s0.timers.Pairwise (fun a b => a.id ≠ b.id))
    (hnok : ∀ tm ∈ s0.timers, tm.key ≠ k)
    (harmed : ∀ k', k' ≠ k → ((∃ tm ∈ s0.timers, tm.key = k') ↔
      (0 < (part cfg k' s0.buf).length ∧ (part cfg k' s0.buf).length < cfg.n)))
    (hsmall : ∀ k', k' ≠ k → (part cfg k' s0.buf).length < cfg.n)
    (hdue : ∀ tm ∈ s0.timers, s0.now ≤ tm.due ∧
      ∃ hd, (part cfg tm.key s0.buf).head? = some hd ∧ tm.due = hd.at_ + cfg.timeout)
    (hsorted : s0.buf.Pairwise (fun a b => a.at_ ≤ b.at_)) (hpast : ∀ e ∈ s0.buf, e.at_ ≤ s0.now)
    (houts : ∀ o ∈ s0.outs, OutOK cfg o)
    (hnew : OutOK cfg { at_ := s0.now, key := k, batch := part cfg k s0.buf, byTimer := bt }) :
    PInv cfg (flush cfg s0 k bt) := by
  refine ⟨?_, ?_, ?_, ?_, ?_, ?_, ?_, ?_, ?_⟩
  · simpa using hlatest
  · simpa using hfresh
  · simpa using hdist
  · intro k'
    by_cases hk : k' = k
    · subst hk
      simp only [flush_timers, flush_buf, part_unpart_self, List.length_nil, Nat.lt_irrefl, false_and, iff_false,
        not_exists, not_and]
      exact fun tm htm => hnok tm htm
    · simp only [flush_timers, flush_buf, part_unpart_other cfg k k' _ hk]
      exact harmed k' hk
  · intro k'
    by_cases hk : k' = k
    · subst hk; simp only [flush_buf, part_unpart_self, List.length_nil]; omega
    · simp only [flush_buf, part_unpart_other cfg k k' _ hk]; exact hsmall k' hk
  · intro tm htm
    simp only [flush_timers] at htm
    simp only [flush_now, flush_buf, part_unpart_other cfg k tm.key _ (hnok tm htm)]
    exact hdue tm htm
  · simp only [flush_buf]; exact hsorted.sublist List.filter_sublist
  · intro e he
    simp only [flush_buf, mem_unpart] at he
    simp only [flush_now]; exact hpast e he.1
  · intro o ho
    simp only [flush_outs, List.mem_append, List.mem_singleton] at ho
    rcases ho with ho | rfl
    · exact houts o ho
    · exact hnew

/-- `partition.update` preserves the invariant. -/
theorem updateBody_pinv (cfg : PCfg α κ) (hn : 1 ≤ cfg.n) (s : PT α κ) (h : PInv cfg s) (x : α) (md : List Nat) :
    PInv cfg (updateBody cfg s x md) := by
  obtain ⟨e, he⟩ : ∃ e : Elem α, e = { val := x, md := md, at_ := s.now, blk := 0 } := ⟨_, rfl⟩
  have hkey : cfg.key e.val = cfg.key x := by rw [he]
  have hat : e.at_ = s.now := by rw [he]
  have hP : part cfg (cfg.key x) (s.buf ++ [e]) = part cfg (cfg.key x) s.buf ++ [e] := by
    rw [← hkey]; exact part_snoc_same cfg s.buf e
  have hO : ∀ k', k' ≠ cfg.key x → part cfg k' (s.buf ++ [e]) = part cfg k' s.buf :=
    fun k' hk => part_snoc_other cfg k' s.buf e (by rw [hkey]; exact fun h' => hk h'.symm)
  have hsorted : (s.buf ++ [e]).Pairwise (fun a b => a.at_ ≤ b.at_) := by
    rw [List.pairwise_append]
    exact ⟨h.sorted, by simp, fun a ha b hb => by
      simp only [List.mem_singleton] at hb; subst hb; rw [hat]; exact h.past a ha⟩
  have hpast : ∀ e' ∈ s.buf ++ [e], e'.at_ ≤ s.now := by
    intro e' he'
    simp only [List.mem_append, List.mem_singleton] at he'
    rcases he' with he' | rfl
    · exact h.past e' he'
    · omega
  -- the deadline of the key's timer, if its buffer was not empty
  have hhead : ∀ hd, (part cfg (cfg.key x) s.buf).head? = some hd → s.now ≤ hd.at_ + cfg.timeout := by
    intro hd hhd
    have hpos : 0 < (part cfg (cfg.key x) s.buf).length := by
      cases hp : part cfg (cfg.key x) s.buf with
      | nil => rw [hp] at hhd; simp at hhd
      | cons a l => simp
    obtain ⟨tm, htm, hk⟩ := (h.armed (cfg.key x)).mpr ⟨hpos, h.small _⟩
    obtain ⟨hnow, hd', hhd', hdue⟩ := h.due tm htm
    rw [hk, hhd] at hhd'
    cases hhd'
    omega
  unfold updateBody
  simp only [← he]
  split
  · -- the partition is full: cancel the timer (n > 1), flush
    rename_i hlen
    rw [hP, List.length_append, List.length_singleton] at hlen
    -- the state handed to `_flush`
    have hpre : ∀ s0 : PT α κ, s0.buf = s.buf ++ [e] → s0.now = s.now → s0.callbacks = s.callbacks →
        s0.nextId = s.nextId → s0.outs = s.outs →
        (∀ tm ∈ s0.timers, tm ∈ s.timers ∧ tm.key ≠ cfg.key x) →
        (∀ tm ∈ s.timers, tm.key ≠ cfg.key x → tm ∈ s0.timers) →
        s0.timers.Sublist s.timers →
        PInv cfg (flush cfg s0 (cfg.key x) false) := by
      intro s0 hb hnow hcb hid houts hsub1 hsub2 hsub3
      apply flush_pinv cfg hn
      · intro tm htm; rw [hcb]; exact h.latest tm (hsub1 tm htm).1
      · intro tm htm; rw [hid]; exact h.fresh tm (hsub1 tm htm).1
      · exact h.distinct.sublist hsub3
      · exact fun tm htm => (hsub1 tm htm).2
      · intro k' hk
        rw [hb, hO k' hk, ← h.armed k']
        constructor
        · rintro ⟨tm, htm, hk'⟩; exact ⟨tm, (hsub1 tm htm).1, hk'⟩
        · rintro ⟨tm, htm, hk'⟩; exact ⟨tm, hsub2 tm htm (by rw [hk']; exact hk), hk'⟩
      · intro k' hk; rw [hb, hO k' hk]; exact h.small k'
      · intro tm htm
        have := h.due tm (hsub1 tm htm).1
        rw [hb, hnow, hO tm.key (hsub1 tm htm).2]
        exact this
      · rw [hb]; exact hsorted
      · rw [hb, hnow]; exact hpast
      · rw [houts]; exact h.outs
      · rw [hb, hnow]
        apply outOK_of cfg _ _ _ _ hsorted hpast
        · rw [hP]; simp
        · rw [hP]; simp; omega
        · intro _; rw [hP]; simp; omega
        · intro hd hhd
          refine ⟨?_, fun hf => by cases hf⟩
          rw [hP] at hhd
          cases hp : part cfg (cfg.key x) s.buf with
          | nil => rw [hp] at hhd; simp at hhd; subst hhd; omega
          | cons a l =>
            rw [hp] at hhd; simp at hhd; subst hhd
            exact hhead a (by rw [hp]; rfl)
    have hfin : ∀ s0 : PT α κ, PInv cfg (flush cfg s0 (cfg.key x) false) →
        PInv cfg { flush cfg s0 (cfg.key x) false with
          waits := s.waits ++ [if cfg.syncDown then none else some s.outs.length] } :=
      fun s0 h0 => ⟨h0.latest, h0.fresh, h0.distinct, h0.armed, h0.small, h0.due, h0.sorted, h0.past, h0.outs⟩
    apply hfin
    by_cases hn1 : cfg.n > 1
    · rw [if_pos hn1]
      have hex : ∃ tm ∈ s.timers, tm.key = cfg.key x := (h.armed _).mpr ⟨by omega, by omega⟩
      have hc := cancel_timers { s with buf := s.buf ++ [e], ins := s.ins ++ [e], rc := s.rc.retain md } (cfg.key x)
        h.latest h.distinct hex
      exact hpre _ (by simp) (by simp) (by simp) (by simp) (by simp) hc.1 hc.2 (cancel_sub _ _)
    · rw [if_neg hn1]
      have hnone : ∀ tm ∈ s.timers, tm.key ≠ cfg.key x := by
        intro tm htm hk
        have := (h.armed (cfg.key x)).mp ⟨tm, htm, hk⟩
        omega
      exact hpre _ rfl rfl rfl rfl rfl (fun tm htm => ⟨htm, hnone tm htm⟩) (fun tm htm _ => htm) (List.Sublist.refl _)
  · rename_i hlen
    rw [hP, List.length_append, List.length_singleton] at hlen
    split
    · -- first element of its key: arm the timer
      rename_i hone
      rw [hP, List.length_append, List.length_singleton] at hone
      have hempty : part cfg (cfg.key x) s.buf = [] := List.eq_nil_of_length_eq_zero (by omega)
      have hnone : ∀ tm ∈ s.timers, tm.key ≠ cfg.key x := by
        intro tm htm hk
        have := (h.armed (cfg.key x)).mp ⟨tm, htm, hk⟩
        rw [hempty] at this; simp at this
      refine ⟨?_, ?_, ?_, ?_, ?_, ?_, hsorted, hpast, h.outs⟩
      · intro tm htm
        simp only [List.mem_append, List.mem_singleton] at htm
        rcases htm with htm | rfl
        · simp only [if_neg (hnone tm htm)]; exact h.latest tm htm
        · simp
      · intro tm htm
        simp only [List.mem_append, List.mem_singleton] at htm
        rcases htm with htm | rfl
        · have := h.fresh tm htm; simp only; omega
        · simp
      · rw [List.pairwise_append]
        refine ⟨h.distinct, by simp, fun a ha b hb => ?_⟩
        simp only [List.mem_singleton] at hb; subst hb
        have := h.fresh a ha; simp only; omega
      · intro k'
        by_cases hk : k' = cfg.key x
        · subst hk
          simp only [hP, hempty, List.nil_append, List.length_singleton]
          constructor
          · intro _; omega
          · intro _; exact ⟨⟨s.nextId, cfg.key x, s.now + cfg.timeout⟩, by simp, rfl⟩
        · simp only [hO k' hk, ← h.armed k', List.mem_append, List.mem_singleton]
          constructor
          · rintro ⟨tm, htm | rfl, hk'⟩
            · exact ⟨tm, htm, hk'⟩
            · exact absurd hk'.symm hk
          · rintro ⟨tm, htm, hk'⟩; exact ⟨tm, Or.inl htm, hk'⟩
      · intro k'
        by_cases hk : k' = cfg.key x
        · subst hk; simp only [hP, hempty, List.nil_append, List.length_singleton]; omega
        · simp only [hO k' hk]; exact h.small k'
      · intro tm htm
        simp only [List.mem_append, List.mem_singleton] at htm
        rcases htm with htm | rfl
        · simp only [hO tm.key (hnone tm htm)]; exact h.due tm htm
        · simp only [hP, hempty, List.nil_append, List.head?_cons]
          exact ⟨by omega, e, rfl, by rw [hat]⟩
    · -- neither first nor last: nothing else happens
      rename_i hone
      rw [hP, List.length_append, List.length_singleton] at hone
      have hpos : 0 < (part cfg (cfg.key x) s.buf).length := by omega
      refine ⟨h.latest, h.fresh, h.distinct, ?_, ?_, ?_, hsorted, hpast, h.outs⟩
      · intro k'
        by_cases hk : k' = cfg.key x
        · subst hk
          simp only [hP, List.length_append, List.length_singleton]
          have hs := h.small (cfg.key x)
          constructor
          · intro _; omega
          · intro _; exact (h.armed _).mpr ⟨hpos, hs⟩
        · simp only [hO k' hk]; exact h.armed k'
      · intro k'
        by_cases hk : k' = cfg.key x
        · subst hk
          have hs := h.small (cfg.key x)
          simp only [hP, List.length_append, List.length_singleton]; omega
        · simp only [hO k' hk]; exact h.small k'
      · intro tm htm
        by_cases hk : tm.key = cfg.key x
        · have := h.due tm htm
          rw [hk] at this
          simp only [hk, hP]
          obtain ⟨h1, hd, h2, h3⟩ := this
          refine ⟨h1, hd, ?_, h3⟩
          cases hp : part cfg (cfg.key x) s.buf with
          | nil => rw [hp] at hpos; simp at hpos
          | cons a l => rw [hp] at h2; simpa using h2
        · simp only [hO tm.key hk]; exact h.due tm htm

theorem pstep_pinv (cfg : PCfg α κ) (hn : 1 ≤ cfg.n) (s s' : PT α κ) (a : PAct α) (h : PInv cfg s)
    (hs : pstep cfg s a = some s') : PInv cfg s' := by
  cases a with
  | arrive x md =>
    simp only [pstep, Option.some.injEq] at hs
    subst hs
    have h0 : PInv cfg { s with rc := s.rc.retain md } :=
      ⟨h.latest, h.fresh, h.distinct, h.armed, h.small, h.due, h.sorted, h.past, h.outs⟩
    have h1 := updateBody_pinv cfg hn _ h0 x md
    exact ⟨h1.latest, h1.fresh, h1.distinct, h1.armed, h1.small, h1.due, h1.sorted, h1.past, h1.outs⟩
  | fire id =>
    simp only [pstep] at hs
    split at hs
    · rename_i tm hfind
      split at hs
      · rename_i hdue
        cases hs
        have htm : tm ∈ s.timers := List.mem_of_find?_eq_some hfind
        have hid : tm.id = id := by simpa using List.find?_some hfind
        have hsub : ∀ t' ∈ s.timers.filter (fun t' => !decide (t'.id = id)), t' ∈ s.timers ∧ t'.key ≠ tm.key := by
          intro t' ht'
          simp only [List.mem_filter, Bool.not_eq_eq_eq_not, Bool.not_true, decide_eq_false_iff_not] at ht'
          refine ⟨ht'.1, fun hk => ht'.2 ?_⟩
          have h1 := h.latest t' ht'.1
          have h2 := h.latest tm htm
          rw [hk, h2] at h1
          rw [← hid]; exact (Option.some.inj h1).symm
        have hkeep : ∀ t' ∈ s.timers, t'.key ≠ tm.key → t' ∈ s.timers.filter (fun t' => !decide (t'.id = id)) := by
          intro t' ht' hk
          simp only [List.mem_filter, Bool.not_eq_eq_eq_not, Bool.not_true, decide_eq_false_iff_not]
          refine ⟨ht', fun hid' => hk ?_⟩
          have := pairwise_inj (fun t : Timer κ => t.id) s.timers h.distinct t' ht' tm htm (by rw [hid', hid])
          rw [this]
        have harm := (h.armed tm.key).mp ⟨tm, htm, rfl⟩
        obtain ⟨hnow, hd, hhd, hdueq⟩ := h.due tm htm
        apply flush_pinv cfg hn
        · exact fun t' ht' => h.latest t' (hsub t' ht').1
        · exact fun t' ht' => h.fresh t' (hsub t' ht').1
        · exact h.distinct.sublist List.filter_sublist
        · exact fun t' ht' => (hsub t' ht').2
        · intro k' hk
          rw [← h.armed k']
          constructor
          · rintro ⟨t', ht', hk'⟩; exact ⟨t', (hsub t' ht').1, hk'⟩
          · rintro ⟨t', ht', hk'⟩; exact ⟨t', hkeep t' ht' (by rw [hk']; exact hk), hk'⟩
        · exact fun k' _ => h.small k'
        · exact fun t' ht' => h.due t' (hsub t' ht').1
        · exact h.sorted
        · exact h.past
        · exact h.outs
        · apply outOK_of cfg _ _ _ _ h.sorted h.past
          · exact harm.1
          · exact Nat.le_of_lt harm.2
          · intro hf; cases hf
          · intro hd' hhd'
            rw [hhd] at hhd'; cases hhd'
            exact ⟨by omega, fun _ => by omega⟩
      · cases hs
    · cases hs
  | downDone j =>
    simp only [pstep] at hs
    split at hs
    · cases hs
      exact ⟨h.latest, h.fresh, h.distinct, h.armed, h.small, h.due, h.sorted, h.past, h.outs⟩
    · cases hs
  | advance t =>
    simp only [pstep] at hs
    split at hs
    · rename_i hg
      cases hs
      refine ⟨h.latest, h.fresh, h.distinct, h.armed, h.small, ?_, h.sorted, ?_, h.outs⟩
      · intro tm htm
        have := hg.2
        simp only [List.all_eq_true, decide_eq_true_eq] at this
        exact ⟨this tm htm, (h.due tm htm).2⟩
      · intro e he
        have := h.past e he
        simp only; omega
    · cases hs

theorem prun_pinv (cfg : PCfg α κ) (hn : 1 ≤ cfg.n) (s s' : PT α κ) (as : List (PAct α)) (h : PInv cfg s)
    (hs : prun cfg s as = some s') : PInv cfg s' := by
  induction as generalizing s with
  | nil => simp only [prun, Option.some.injEq] at hs; subst hs; exact h
  | cons a as ih =>
    simp only [prun] at hs
    split at hs
    · rename_i s1 h1; exact ih s1 (pstep_pinv cfg hn s s1 a h h1) hs
    · cases hs

/-! ## partition: per-key conservation -/

/-- Concatenation of the partitions emitted for key `k`. -/
def outsOf (k : κ) (outs : List (POut α κ)) : List (Elem α) :=
  (outs.filter (fun o => decide (o.key = k))).flatMap (·.batch)

theorem part_append (cfg : PCfg α κ) (k : κ) (l1 l2 : List (Elem α)) :
    part cfg k (l1 ++ l2) = part cfg k l1 ++ part cfg k l2 := by simp [part, List.filter_append]

structure PHist (cfg : PCfg α κ) (s : PT α κ) : Prop where
  hist : ∀ k, outsOf k s.outs ++ part cfg k s.buf = part cfg k s.ins

theorem PHist.init (cfg : PCfg α κ) (c0 : Nat) : PHist cfg (PT.init α κ c0) :=
  ⟨fun k => by simp [PT.init, outsOf, part]⟩

theorem flush_phist (cfg : PCfg α κ) (s0 : PT α κ) (h : PHist cfg s0) (k : κ) (bt : Bool) :
    PHist cfg (flush cfg s0 k bt) := by
  refine ⟨fun k' => ?_⟩
  have := h.hist k'
  simp only [flush_outs, flush_buf, flush_ins]
  by_cases hk : k' = k
  · subst hk
    simp only [outsOf, List.filter_append, List.flatMap_append, part_unpart_self] at this ⊢
    simpa [List.filter_cons] using this
  · have hk2 : ¬ k = k' := fun e => hk e.symm
    simp only [outsOf, List.filter_append, List.flatMap_append, part_unpart_other cfg k k' _ hk] at this ⊢
    simpa [List.filter_cons, hk2] using this

theorem updateBody_phist (cfg : PCfg α κ) (s : PT α κ) (h : PHist cfg s) (x : α) (md : List Nat) :
    PHist cfg (updateBody cfg s x md) := by
  have h1 : ∀ s1 : PT α κ, s1.outs = s.outs →
      s1.buf = s.buf ++ [{ val := x, md := md, at_ := s.now, blk := 0 }] →
      s1.ins = s.ins ++ [{ val := x, md := md, at_ := s.now, blk := 0 }] → PHist cfg s1 := by
    intro s1 ho hb hi
    refine ⟨fun k => ?_⟩
    rw [ho, hb, hi, part_append, part_append, ← List.append_assoc, h.hist k]
  unfold updateBody
  simp only []
  split
  · have : ∀ s0 : PT α κ, PHist cfg (flush cfg s0 (cfg.key x) false) →
        PHist cfg { flush cfg s0 (cfg.key x) false with
          waits := s.waits ++ [if cfg.syncDown then none else some s.outs.length] } := fun s0 h0 => ⟨h0.hist⟩
    apply this
    apply flush_phist
    split
    · exact h1 _ (by simp) (by simp) (by simp)
    · exact h1 _ rfl rfl rfl
  · split
    · exact h1 _ rfl rfl rfl
    · exact h1 _ rfl rfl rfl

theorem pstep_phist (cfg : PCfg α κ) (s s' : PT α κ) (a : PAct α) (h : PHist cfg s)
    (hs : pstep cfg s a = some s') : PHist cfg s' := by
  cases a with
  | arrive x md =>
    simp only [pstep, Option.some.injEq] at hs
    subst hs
    have h0 : PHist cfg { s with rc := s.rc.retain md } := ⟨h.hist⟩
    exact ⟨(updateBody_phist cfg _ h0 x md).hist⟩
  | fire id =>
    simp only [pstep] at hs
    split at hs
    · split at hs
      · cases hs
        exact flush_phist cfg _ (by exact ⟨h.hist⟩) _ _
      · cases hs
    · cases hs
  | downDone j =>
    simp only [pstep] at hs
    split at hs
    · cases hs; exact ⟨h.hist⟩
    · cases hs
  | advance t =>
    simp only [pstep] at hs
    split at hs
    · cases hs; exact ⟨h.hist⟩
    · cases hs

theorem prun_phist (cfg : PCfg α κ) (s s' : PT α κ) (as : List (PAct α)) (h : PHist cfg s)
    (hs : prun cfg s as = some s') : PHist cfg s' := by
  induction as generalizing s with
  | nil => simp only [prun, Option.some.injEq] at hs; subst hs; exact h
  | cons a as ih =>
    simp only [prun] at hs
    split at hs
    · rename_i s1 h1; exact ih s1 (pstep_phist cfg s s1 a h h1) hs
    · cases hs

/-! ## partition: reference counts -/

/-- Occurrences of counter `r` in the metadata of the flushes in flight. -/
def flOcc (r : Nat) (fl : List (Nat × List Nat)) : Nat := (fl.flatMap (·.2)).count r

@[simp] theorem flOcc_nil (r : Nat) : flOcc r [] = 0 := rfl
@[simp] theorem flOcc_cons (r : Nat) (f : Nat × List Nat) (fl : List (Nat × List Nat)) :
    flOcc r (f :: fl) = f.2.count r + flOcc r fl := by simp [flOcc, List.count_append]
@[simp] theorem flOcc_append (r : Nat) (l1 l2 : List (Nat × List Nat)) :
    flOcc r (l1 ++ l2) = flOcc r l1 + flOcc r l2 := by simp [flOcc, List.count_append]

theorem flOcc_remove (r j : Nat) (fl : List (Nat × List Nat)) (f : Nat × List Nat)
    (hd : fl.Pairwise (fun a b => a.1 ≠ b.1)) (hf : fl.find? (fun f => decide (f.1 = j)) = some f) :
    flOcc r (fl.filter (fun f' => !decide (f'.1 = j))) + f.2.count r = flOcc r fl := by
  induction fl with
  | nil => simp at hf
  | cons g fl ih =>
    rw [List.pairwise_cons] at hd
    by_cases hg : g.1 = j
    · simp only [List.find?_cons, hg, decide_true, Option.some.injEq] at hf
      subst hf
      have : fl.filter (fun f' => !decide (f'.1 = j)) = fl := by
        rw [List.filter_eq_self]
        intro a ha
        have := hd.1 a ha
        simp only [Bool.not_eq_eq_eq_not, Bool.not_true, decide_eq_false_iff_not]
        exact fun e => this (hg.trans e.symm)
      simp only [List.filter_cons, hg, decide_true, Bool.not_true, Bool.false_eq_true, if_false, this, flOcc_cons]
      omega
    · simp only [List.find?_cons, hg, decide_false] at hf
      have := ih hd.2 hf
      simp only [List.filter_cons, hg, decide_false, Bool.not_false, if_true, flOcc_cons]
      omega

/-- Reference counts up to an offset `d` (the producer's own reference while its `_emit` is running). -/
def CountOff (d : Nat → Int) (s : PT α κ) : Prop :=
  ∀ r, s.rc.cnt r = (occ r s.buf : Nat) + 2 * (flOcc r s.flights : Nat) + d r

structure FlightInv (s : PT α κ) : Prop where
  ids : ∀ f ∈ s.flights, f.1 < s.outs.length
  distinct : s.flights.Pairwise (fun a b => a.1 ≠ b.1)

structure PCount (s : PT α κ) : Prop where
  cnt : CountOff (fun _ => 0) s
  fl : FlightInv s

theorem PCount.init (c0 : Nat) : PCount (PT.init α κ c0) :=
  ⟨fun r => by simp [PT.init, RC.init], ⟨fun _ h => by simp [PT.init] at h, by simp [PT.init]⟩⟩

theorem flush_countOff (cfg : PCfg α κ) (d : Nat → Int) (s0 : PT α κ) (h : CountOff d s0) (k : κ) (bt : Bool) :
    CountOff d (flush cfg s0 k bt) := by
  intro r
  have h1 := h r
  have h2 := occ_part_unpart cfg k s0.buf r
  unfold flush
  split
  · simp only [RC.release_cnt, RC.retain_cnt]
    simp only [occ] at h1 h2 ⊢
    omega
  · simp only [RC.release_cnt, RC.retain_cnt, flOcc_append, flOcc_cons, flOcc_nil]
    simp only [occ] at h1 h2 ⊢
    omega

theorem flush_flightInv (cfg : PCfg α κ) (s0 : PT α κ) (h : FlightInv s0) (k : κ) (bt : Bool) :
    FlightInv (flush cfg s0 k bt) := by
  unfold flush
  split
  · refine ⟨fun f hf => ?_, h.distinct⟩
    have := h.ids f hf
    simp only [List.length_append, List.length_singleton]; omega
  · refine ⟨fun f hf => ?_, ?_⟩
    · simp only [List.mem_append, List.mem_singleton] at hf
      simp only [List.length_append, List.length_singleton]
      rcases hf with hf | rfl
      · have := h.ids f hf; omega
      · simp
    · rw [List.pairwise_append]
      refine ⟨h.distinct, by simp, fun a ha b hb => ?_⟩
      simp only [List.mem_singleton] at hb; subst hb
      have := h.ids a ha
      simp only; omega

theorem updateBody_count (cfg : PCfg α κ) (d : Nat → Int) (s : PT α κ) (h : CountOff d s) (hf : FlightInv s)
    (x : α) (md : List Nat) :
    CountOff d (updateBody cfg s x md) ∧ FlightInv (updateBody cfg s x md) := by
  have h1 : ∀ s1 : PT α κ, s1.flights = s.flights → s1.outs = s.outs →
      s1.buf = s.buf ++ [{ val := x, md := md, at_ := s.now, blk := 0 }] →
      s1.rc = s.rc.retain md → CountOff d s1 ∧ FlightInv s1 := by
    intro s1 hfl ho hb hrc
    refine ⟨fun r => ?_, ⟨?_, ?_⟩⟩
    · have := h r
      rw [hrc, hb, hfl, RC.retain_cnt]
      simp only [occ_append, occ_cons, occ_nil]
      omega
    · rw [hfl, ho]; exact hf.ids
    · rw [hfl]; exact hf.distinct
  unfold updateBody
  simp only []
  split
  · have : ∀ s0 : PT α κ, CountOff d (flush cfg s0 (cfg.key x) false) ∧ FlightInv (flush cfg s0 (cfg.key x) false) →
        CountOff d { flush cfg s0 (cfg.key x) false with
          waits := s.waits ++ [if cfg.syncDown then none else some s.outs.length] } ∧
        FlightInv { flush cfg s0 (cfg.key x) false with
          waits := s.waits ++ [if cfg.syncDown then none else some s.outs.length] } :=
      fun s0 h0 => ⟨h0.1, ⟨h0.2.ids, h0.2.distinct⟩⟩
    apply this
    split
    · have := h1 (cancel { s with buf := s.buf ++ [{ val := x, md := md, at_ := s.now, blk := 0 }], ins := s.ins ++ [{ val := x, md := md, at_ := s.now, blk := 0 }], rc := s.rc.retain md } (cfg.key x))
        (by unfold cancel; split <;> rfl) (by simp) (by simp) (by unfold cancel; split <;> rfl)
      exact ⟨flush_countOff cfg d _ this.1 _ _, flush_flightInv cfg _ this.2 _ _⟩
    · have := h1 { s with buf := s.buf ++ [{ val := x, md := md, at_ := s.now, blk := 0 }], ins := s.ins ++ [{ val := x, md := md, at_ := s.now, blk := 0 }], rc := s.rc.retain md } rfl rfl rfl rfl
      exact ⟨flush_countOff cfg d _ this.1 _ _, flush_flightInv cfg _ this.2 _ _⟩
  · split
    · exact h1 _ rfl rfl rfl rfl
    · exact h1 _ rfl rfl rfl rfl

theorem pstep_pcount (cfg : PCfg α κ) (s s' : PT α κ) (a : PAct α) (h : PCount s)
    (hs : pstep cfg s a = some s') : PCount s' := by
  cases a with
  | arrive x md =>
    simp only [pstep, Option.some.injEq] at hs
    subst hs
    have h0 : CountOff (fun r => (md.count r : Nat)) { s with rc := s.rc.retain md } := by
      intro r; have := h.cnt r; simp only [RC.retain_cnt]; dsimp only at this ⊢; omega
    have h1 := updateBody_count cfg _ _ h0 ⟨h.fl.ids, h.fl.distinct⟩ x md
    refine ⟨fun r => ?_, ⟨h1.2.ids, h1.2.distinct⟩⟩
    have := h1.1 r
    simp only [RC.release_cnt]
    dsimp only at this ⊢
    omega
  | fire id =>
    simp only [pstep] at hs
    split at hs
    · split at hs
      · cases hs
        exact ⟨flush_countOff cfg _ _ (by exact h.cnt) _ _, flush_flightInv cfg _ (by exact ⟨h.fl.ids, h.fl.distinct⟩) _ _⟩
      · cases hs
    · cases hs
  | downDone j =>
    simp only [pstep] at hs
    split at hs
    · rename_i f hfind
      cases hs
      refine ⟨fun r => ?_, ⟨fun g hg => h.fl.ids g (List.mem_filter.mp hg).1, h.fl.distinct.sublist List.filter_sublist⟩⟩
      have h1 := h.cnt r
      have h2 := flOcc_remove r j s.flights f h.fl.distinct hfind
      simp only [RC.release_cnt]
      dsimp only at h1 ⊢
      omega
    · cases hs
  | advance t =>
    simp only [pstep] at hs
    split at hs
    · cases hs; exact ⟨h.cnt, ⟨h.fl.ids, h.fl.distinct⟩⟩
    · cases hs

theorem prun_pcount (cfg : PCfg α κ) (s s' : PT α κ) (as : List (PAct α)) (h : PCount s)
    (hs : prun cfg s as = some s') : PCount s' := by
  induction as generalizing s with
  | nil => simp only [prun, Option.some.injEq] at hs; subst hs; exact h
  | cons a as ih =>
    simp only [prun] at hs
    split at hs
    · rename_i s1 h1; exact ih s1 (pstep_pcount cfg s s1 a h h1) hs
    · cases hs

/-! ## Callbacks fire only when the count is back to zero -/

/-- A release that leaves the count of `q ∈ m` at `≤ 0` has scheduled its callback. -/
theorem RC.release_fires (s : RC) (m : List Nat) (q : Nat) (hq : q ∈ m) (hz : (s.release m).cnt q ≤ 0) :
    q ∈ (s.release m).fired := by
  induction m generalizing s with
  | nil => simp at hq
  | cons r m ih =>
    simp only [RC.release] at hz ⊢
    by_cases hm : q ∈ m
    · exact ih (s.release1 r) hm hz
    · have hqr : q = r := by
        rcases List.mem_cons.mp hq with h | h
        · exact h
        · exact absurd h hm
      subst hqr
      obtain ⟨new, h1, _⟩ := RC.release_fired (s.release1 q) m
      rw [h1]
      apply List.mem_append_left
      rw [RC.release_cnt, List.count_eq_zero_of_not_mem hm] at hz
      rw [RC.release1_fired, if_pos (by omega)]
      simp

/-- Since `f0`, only callbacks of counters that are now at `≤ 0` were scheduled. -/
def FiredLow (f0 : List Nat) (s : RC) : Prop :=
  ∃ new, s.fired = f0 ++ new ∧ ∀ q ∈ new, s.cnt q ≤ 0

theorem FiredLow.retain (s : RC) (m : List Nat) : FiredLow s.fired (s.retain m) :=
  ⟨[], by simp [RC.retain_fired], fun _ h => by simp at h⟩

theorem FiredLow.retain2 (s : RC) (m1 m2 : List Nat) : FiredLow s.fired ((s.retain m1).retain m2) :=
  ⟨[], by simp [RC.retain_fired], fun _ h => by simp at h⟩

theorem FiredLow.refl (s : RC) : FiredLow s.fired s := ⟨[], by simp, fun _ h => by simp at h⟩

theorem FiredLow.release {f0 : List Nat} {s : RC} (h : FiredLow f0 s) (m : List Nat) :
    FiredLow f0 (s.release m) := by
  obtain ⟨new, h1, h2⟩ := h
  obtain ⟨new2, h3, h4⟩ := RC.release_fired s m
  refine ⟨new ++ new2, by rw [h3, h1, List.append_assoc], fun q hq => ?_⟩
  rcases List.mem_append.mp hq with hq | hq
  · have := h2 q hq
    rw [RC.release_cnt]; omega
  · exact (h4 q hq).2

theorem FiredLow.of_fired_eq {f0 f1 : List Nat} {s : RC} (h : FiredLow f0 s) (e : f0 = f1) : FiredLow f1 s := e ▸ h

/-! ## timed windows: whole runs, callbacks, producers' awaitables -/

theorem emitBatch_firedLow (cfg : Cfg α κ) (s : TW α) : FiredLow s.rc.fired (emitBatch cfg s).rc := by
  unfold emitBatch
  split
  · exact ((FiredLow.retain s.rc _).release _).release _
  · exact (FiredLow.retain2 s.rc _ _).release _

theorem step_firedLow (cfg : Cfg α κ) (s s' : TW α) (a : Act α) (hs : step cfg s a = some s') :
    FiredLow s.rc.fired s'.rc := by
  cases a with
  | arrive x md =>
    simp only [step, Option.some.injEq] at hs
    subst hs
    exact ((FiredLow.retain2 s.rc _ _).release _).release _
  | start =>
    simp only [step] at hs
    split at hs
    · cases hs; exact emitBatch_firedLow cfg s
    · cases hs
  | tick =>
    simp only [step] at hs
    split at hs
    · split at hs
      · cases hs; exact emitBatch_firedLow cfg s
      · cases hs
    · cases hs
  | downDone =>
    simp only [step] at hs
    split at hs
    · cases hs; exact ((FiredLow.refl s.rc).release _).release _
    · cases hs
  | advance t =>
    simp only [step] at hs
    split at hs
    · split at hs
      · cases hs
      · cases hs; exact FiredLow.refl _
      · split at hs
        · cases hs; exact FiredLow.refl _
        · cases hs
    · cases hs

/-- With a synchronous downstream `cb` never waits, so no blocked time accumulates. -/
structure SyncInv (s : TW α) : Prop where
  cb : s.cb ≠ .emitting
  blocked : s.blocked = 0

theorem SyncInv.init (c0 : Nat) : SyncInv (TW.init α c0) := ⟨by simp [TW.init], rfl⟩

theorem step_syncInv (cfg : Cfg α κ) (hsync : cfg.syncDown = true) (s s' : TW α) (a : Act α) (h : SyncInv s)
    (hs : step cfg s a = some s') : SyncInv s' := by
  have hemit : SyncInv (emitBatch cfg s) := by
    unfold emitBatch; rw [if_pos hsync]; exact ⟨by simp, h.blocked⟩
  cases a with
  | arrive x md =>
    simp only [step, Option.some.injEq] at hs
    subst hs; exact ⟨h.cb, h.blocked⟩
  | start =>
    simp only [step] at hs
    split at hs
    · cases hs; exact hemit
    · cases hs
  | tick =>
    simp only [step] at hs
    split at hs
    · split at hs
      · cases hs; exact hemit
      · cases hs
    · cases hs
  | downDone =>
    simp only [step] at hs
    split at hs
    · rename_i hc; exact absurd hc h.cb
    · cases hs
  | advance t =>
    simp only [step] at hs
    split at hs
    · split at hs
      · cases hs
      · rename_i hc; exact absurd hc h.cb
      · split at hs
        · rename_i hc _; cases hs; exact ⟨by simp [hc], h.blocked⟩
        · cases hs
    · cases hs

/-- Producers' awaitables: every arrival waits for an emission that exists. -/
structure WaitInv (s : TW α) : Prop where
  le : ∀ w ∈ s.waits, w ≤ s.outs.length
  /-- `pend` is the metadata of the latest emission while its downstream awaitable is pending -/
  pend : s.cb = .emitting → ∃ o, s.outs.getLast? = some o ∧ s.pend = mds o.batch

theorem WaitInv.init (c0 : Nat) : WaitInv (TW.init α c0) :=
  ⟨fun _ h => by simp [TW.init] at h, fun h => by simp [TW.init] at h⟩

theorem emitBatch_pend (cfg : Cfg α κ) (s : TW α) :
    (emitBatch cfg s).cb = .emitting →
      ∃ o, (emitBatch cfg s).outs.getLast? = some o ∧ (emitBatch cfg s).pend = mds o.batch := by
  unfold emitBatch
  split
  · intro h; simp at h
  · intro _; exact ⟨{ at_ := s.now, blk := s.blocked, batch := s.buf, win := s.win }, by simp, rfl⟩

theorem emitBatch_outs_length (cfg : Cfg α κ) (s : TW α) : (emitBatch cfg s).outs.length = s.outs.length + 1 := by
  unfold emitBatch; split <;> simp

theorem emitBatch_waits (cfg : Cfg α κ) (s : TW α) : (emitBatch cfg s).waits = s.waits := by
  unfold emitBatch; split <;> rfl

theorem step_waitInv (cfg : Cfg α κ) (s s' : TW α) (a : Act α) (h : WaitInv s)
    (hs : step cfg s a = some s') : WaitInv s' := by
  have hemit : WaitInv (emitBatch cfg s) :=
    ⟨fun w hw => by rw [emitBatch_outs_length]; rw [emitBatch_waits] at hw; have := h.le w hw; omega,
     emitBatch_pend cfg s⟩
  cases a with
  | arrive x md =>
    simp only [step, Option.some.injEq] at hs
    subst hs
    refine ⟨fun w hw => ?_, h.pend⟩
    simp only [List.mem_append, List.mem_singleton] at hw
    rcases hw with hw | rfl
    · exact h.le w hw
    · exact Nat.le_refl _
  | start =>
    simp only [step] at hs
    split at hs
    · cases hs; exact hemit
    · cases hs
  | tick =>
    simp only [step] at hs
    split at hs
    · split at hs
      · cases hs; exact hemit
      · cases hs
    · cases hs
  | downDone =>
    simp only [step] at hs
    split at hs
    · cases hs; exact ⟨h.le, fun hc => by simp at hc⟩
    · cases hs
  | advance t =>
    simp only [step] at hs
    split at hs
    · split at hs
      · cases hs
      · cases hs; exact ⟨h.le, h.pend⟩
      · split at hs
        · cases hs; exact ⟨h.le, h.pend⟩
        · cases hs
    · cases hs

/-- Everything the invariants say, for the states of a run. -/
structure AllInv (cfg : Cfg α κ) (s : TW α) : Prop where
  count : CountInv s
  win : WinInv cfg s
  time : TimeInv cfg s
  wait : WaitInv s
  sync : cfg.syncDown = true → SyncInv s

theorem AllInv.init (cfg : Cfg α κ) (c0 : Nat) : AllInv cfg (TW.init α c0) :=
  ⟨CountInv.init c0, WinInv.init cfg c0, TimeInv.init cfg c0, WaitInv.init c0, fun _ => SyncInv.init c0⟩

theorem step_allInv (cfg : Cfg α κ) (s s' : TW α) (a : Act α) (h : AllInv cfg s)
    (hs : step cfg s a = some s') : AllInv cfg s' :=
  ⟨step_countInv cfg s s' a h.count hs, step_winInv cfg s s' a h.win hs, step_timeInv cfg s s' a h.time hs,
   step_waitInv cfg s s' a h.wait hs, fun hsync => step_syncInv cfg hsync s s' a (h.sync hsync) hs⟩

theorem run_allInv (cfg : Cfg α κ) (s s' : TW α) (as : List (Act α)) (h : AllInv cfg s)
    (hs : run cfg s as = some s') : AllInv cfg s' := by
  induction as generalizing s with
  | nil => simp only [run, Option.some.injEq] at hs; subst hs; exact h
  | cons a as ih =>
    simp only [run] at hs
    split at hs
    · rename_i s1 h1; exact ih s1 (step_allInv cfg s s1 a h h1) hs
    · cases hs

theorem run_append (cfg : Cfg α κ) (s : TW α) (as bs : List (Act α)) :
    run cfg s (as ++ bs) = (run cfg s as).bind (fun s1 => run cfg s1 bs) := by
  induction as generalizing s with
  | nil => rfl
  | cons a as ih =>
    simp only [List.cons_append, run]
    cases step cfg s a with
    | none => rfl
    | some s1 => exact ih s1

/-! ## partition: callbacks -/

@[simp] theorem cancel_rc (s : PT α κ) (k : κ) : (cancel s k).rc = s.rc := by unfold cancel; split <;> rfl

theorem flush_firedLow (cfg : PCfg α κ) (s0 : PT α κ) (k : κ) (bt : Bool) :
    FiredLow s0.rc.fired (flush cfg s0 k bt).rc := by
  unfold flush
  split
  · exact ((FiredLow.retain s0.rc _).release _).release _
  · exact (FiredLow.retain2 s0.rc _ _).release _

theorem updateBody_firedLow (cfg : PCfg α κ) (s : PT α κ) (x : α) (md : List Nat) :
    FiredLow s.rc.fired (updateBody cfg s x md).rc := by
  unfold updateBody
  simp only []
  split
  · show FiredLow s.rc.fired (flush cfg _ (cfg.key x) false).rc
    split
    · refine (flush_firedLow cfg _ _ _).of_fired_eq ?_
      simp [RC.retain_fired]
    · refine (flush_firedLow cfg _ _ _).of_fired_eq ?_
      simp [RC.retain_fired]
  · split
    · exact FiredLow.retain s.rc md
    · exact FiredLow.retain s.rc md

theorem pstep_firedLow (cfg : PCfg α κ) (s s' : PT α κ) (a : PAct α) (hs : pstep cfg s a = some s') :
    FiredLow s.rc.fired s'.rc := by
  cases a with
  | arrive x md =>
    simp only [pstep, Option.some.injEq] at hs
    subst hs
    have := updateBody_firedLow cfg { s with rc := s.rc.retain md } x md
    exact (this.of_fired_eq (by simp [RC.retain_fired])).release md
  | fire id =>
    simp only [pstep] at hs
    split at hs
    · split at hs
      · cases hs; exact flush_firedLow cfg _ _ _
      · cases hs
    · cases hs
  | downDone j =>
    simp only [pstep] at hs
    split at hs
    · cases hs; exact ((FiredLow.refl s.rc).release _).release _
    · cases hs
  | advance t =>
    simp only [pstep] at hs
    split at hs
    · cases hs; exact FiredLow.refl _
    · cases hs

/-- In one `update`, a counter of the new element or of what the node dropped whose count ends at `≤ 0`
has had its callback scheduled. -/
theorem arrive_fires (rc : RC) (md dropped : List Nat) (r : Nat) (hr : r ∈ dropped ∨ r ∈ md)
    (hz : ((((rc.retain md).retain md).release dropped).release md).cnt r ≤ 0) :
    r ∈ ((((rc.retain md).retain md).release dropped).release md).fired := by
  by_cases hmd : r ∈ md
  · exact RC.release_fires _ md r hmd hz
  · have hd : r ∈ dropped := hr.resolve_right hmd
    obtain ⟨new, h1, _⟩ := RC.release_fired (((rc.retain md).retain md).release dropped) md
    rw [h1]
    apply List.mem_append_left
    apply RC.release_fires _ dropped r hd
    rw [RC.release_cnt, List.count_eq_zero_of_not_mem hmd] at hz
    omega

structure PAll (cfg : PCfg α κ) (s : PT α κ) : Prop where
  inv : PInv cfg s
  hist : PHist cfg s
  count : PCount s

theorem PAll.init (cfg : PCfg α κ) (hn : 1 ≤ cfg.n) (c0 : Nat) : PAll cfg (PT.init α κ c0) :=
  ⟨PInv.init cfg hn c0, PHist.init cfg c0, PCount.init c0⟩

theorem pstep_pall (cfg : PCfg α κ) (hn : 1 ≤ cfg.n) (s s' : PT α κ) (a : PAct α) (h : PAll cfg s)
    (hs : pstep cfg s a = some s') : PAll cfg s' :=
  ⟨pstep_pinv cfg hn s s' a h.inv hs, pstep_phist cfg s s' a h.hist hs, pstep_pcount cfg s s' a h.count hs⟩

theorem prun_pall (cfg : PCfg α κ) (hn : 1 ≤ cfg.n) (s s' : PT α κ) (as : List (PAct α)) (h : PAll cfg s)
    (hs : prun cfg s as = some s') : PAll cfg s' :=
  ⟨prun_pinv cfg hn s s' as h.inv hs, prun_phist cfg s s' as h.hist hs, prun_pcount cfg s s' as h.count hs⟩

/-! ## The harness op `advance dt` is a sequence of model actions -/

/-- `advanceTo` (used by the driver for the op `advance`) only performs `advance` and `tick` actions, so every
theorem about `run` covers the states it produces. -/
theorem advanceTo_is_run (cfg : Cfg α κ) (fuel : Nat) (s s' : TW α) (target : Nat)
    (h : advanceTo cfg fuel s target = some s') : ∃ acts, run cfg s acts = some s' := by
  induction fuel generalizing s with
  | zero => simp [advanceTo] at h
  | succ fuel ih =>
    have one : ∀ t, step cfg s (.advance t) = some s' → ∃ acts, run cfg s acts = some s' :=
      fun t ht => ⟨[.advance t], by simp [run, ht]⟩
    unfold advanceTo at h
    split at h
    · rename_i due hc
      split at h
      · split at h
        · rename_i s1 h1
          split at h
          · rename_i s2 h2
            obtain ⟨acts, ha⟩ := ih s2 h
            exact ⟨.advance due :: .tick :: acts, by simp [run, h1, h2, ha]⟩
          · cases h
        · cases h
      · exact one _ h
    · exact one _ h

theorem padvanceTo_is_run (cfg : PCfg α κ) (fuel : Nat) (s s' : PT α κ) (target : Nat) (prefs : List κ)
    (h : padvanceTo cfg fuel s target prefs = some s') : ∃ acts, prun cfg s acts = some s' := by
  induction fuel generalizing s prefs with
  | zero => simp [padvanceTo] at h
  | succ fuel ih =>
    have one : ∀ t, pstep cfg s (.advance t) = some s' → ∃ acts, prun cfg s acts = some s' :=
      fun t ht => ⟨[.advance t], by simp [prun, ht]⟩
    unfold padvanceTo at h
    split at h
    · rename_i tm _
      split at h
      · split at h
        · rename_i s1 h1
          split at h
          · rename_i s2 h2
            obtain ⟨acts, ha⟩ := ih s2 _ h
            exact ⟨.advance (max s.now tm.due) :: .fire tm.id :: acts, by simp [prun, h1, h2, ha]⟩
          · cases h
        · cases h
      · exact one _ h
    · exact one _ h

end StreamzVerif.AsyncWindows
