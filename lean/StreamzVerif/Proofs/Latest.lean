import StreamzVerif.Model.Latest
/-!
Helper lemmas for C14: the inductive invariant of the (fixed) `latest` transition
system, its preservation by every action, the characterisation of quiescent /
consumer-free states, and the termination measure of arrival-free runs.
Core Lean only.
-/
namespace StreamzVerif.Latest

/-! ### list facts about `range' 1 n` (the arrival indices `1..n`) -/

theorem range_succ_eq (n : Nat) : List.range' 1 (n + 1) = List.range' 1 n ++ [n + 1] := by
  rw [List.range'_1_concat, Nat.add_comm 1 n]

theorem sublist_range_succ {l : List Nat} {n : Nat} (h : l.Sublist (List.range' 1 n)) :
    l.Sublist (List.range' 1 (n + 1)) := by
  rw [range_succ_eq]
  exact List.Sublist.trans h (List.sublist_append_left _ _)

theorem sublist_range_snoc {l : List Nat} {n : Nat} (h : l.Sublist (List.range' 1 n)) :
    (l ++ [n + 1]).Sublist (List.range' 1 (n + 1)) := by
  rw [range_succ_eq]
  exact List.Sublist.append h (List.Sublist.refl _)

theorem pairwise_lt_of_sublist_range {l : List Nat} {n : Nat} (h : l.Sublist (List.range' 1 n)) :
    l.Pairwise (· < ·) :=
  List.Pairwise.sublist h (List.pairwise_lt_range')

/-! ### the invariant -/

/-- Inductive invariant of the reachable states.

* `fresh`: a full slot holds the newest arrival, and nothing delivered so far is
  as new as it (the log is a subsequence of the *earlier* arrivals);
* `taken`: an empty slot means every arrival has been superseded or taken: the
  log is a subsequence of all arrivals and ends with the newest one;
* `wake`: **no lost wake-up** — whenever a fresh element sits in the slot and the
  coroutine is suspended in `condition.wait()`, a notify callback is still queued. -/
structure Inv (s : St) : Prop where
  fresh : ∀ i, s.slot = some i →
    s.arrived = i ∧ 0 < i ∧ s.delivered.Sublist (List.range' 1 (i - 1))
  taken : s.slot = none →
    s.delivered.Sublist (List.range' 1 s.arrived) ∧
      (0 < s.arrived → s.delivered.getLast? = some s.arrived)
  wake : s.slot.isSome → s.co = .waiting → 0 < s.pending

theorem inv_init : Inv init := by
  refine ⟨?_, ?_, ?_⟩ <;> simp [init]

theorem inv_delivered_sublist {s : St} (h : Inv s) :
    s.delivered.Sublist (List.range' 1 s.arrived) := by
  cases hs : s.slot with
  | none => exact (h.taken hs).1
  | some i =>
    obtain ⟨ha, hp, hsub⟩ := h.fresh i hs
    have : s.arrived = (i - 1) + 1 := by omega
    rw [this]
    exact sublist_range_succ hsub

theorem inv_step {s s' : St} {a : Act} (h : Inv s) (hs : step s a = some s') : Inv s' := by
  cases a with
  | arrive =>
    simp only [step, Option.some.injEq] at hs
    subst hs
    refine ⟨?_, ?_, ?_⟩
    · intro i hi
      simp only [Option.some.injEq] at hi
      subst hi
      refine ⟨rfl, by omega, ?_⟩
      simpa using inv_delivered_sublist h
    · intro hn; simp at hn
    · intro _ _; simp
  | runNotify =>
    simp only [step] at hs
    split at hs
    · simp at hs
    · next hp =>
      simp only [Option.some.injEq] at hs
      subst hs
      refine ⟨h.fresh, h.taken, ?_⟩
      intro hsl hco
      -- the coroutine cannot be `waiting` after a notify ran
      simp only at hco
      split at hco
      · simp at hco
      · next hne => exact absurd hco (by intro hw; exact hne hw)
  | resume =>
    simp only [step] at hs
    split at hs
    · split at hs
      · next i hsl =>
        simp only [Option.some.injEq] at hs
        subst hs
        obtain ⟨ha, hp, hsub⟩ := h.fresh i hsl
        refine ⟨?_, ?_, ?_⟩
        · intro j hj; simp at hj
        · intro _
          refine ⟨?_, ?_⟩
          · have hi : i = (i - 1) + 1 := by omega
            simp only
            rw [ha, hi]
            simpa using sublist_range_snoc hsub
          · intro _; simp [ha]
        · intro hsome; simp at hsome
      · next hsl =>
        simp only [Option.some.injEq] at hs
        subst hs
        refine ⟨h.fresh, h.taken, ?_⟩
        intro hsome; simp [hsl] at hsome
    · simp at hs
  | consumerDone =>
    simp only [step] at hs
    split at hs
    · simp only [Option.some.injEq] at hs
      subst hs
      refine ⟨h.fresh, h.taken, ?_⟩
      intro _ hco; simp at hco
    · simp at hs

theorem inv_run {s s' : St} {acts : List Act} (h : Inv s) (hr : run s acts = some s') : Inv s' := by
  induction acts generalizing s with
  | nil => simp only [run, Option.some.injEq] at hr; subst hr; exact h
  | cons a as ih =>
    simp only [run] at hr
    cases hs : step s a with
    | none => simp [hs] at hr
    | some s₁ =>
      simp only [hs, Option.bind_some] at hr
      exact ih (inv_step h hs) hr

theorem inv_reachable {acts : List Act} {s : St} (hr : run init acts = some s) : Inv s :=
  inv_run inv_init hr

theorem run_append {s : St} {as bs : List Act} :
    run s (as ++ bs) = (run s as).bind (fun s' => run s' bs) := by
  induction as generalizing s with
  | nil => simp [run]
  | cons a as ih =>
    simp only [List.cons_append, run]
    cases step s a with
    | none => simp
    | some s₁ => simp [ih]

/-! ### quiescent / consumer-free states -/

theorem quiescent_iff (s : St) : Quiescent s ↔ s.pending = 0 ∧ s.co ≠ .woken := by
  unfold Quiescent step
  constructor
  · intro ⟨h1, h2⟩
    refine ⟨?_, ?_⟩
    · by_cases hp : s.pending = 0
      · exact hp
      · simp [hp] at h1
    · intro hw
      rw [hw] at h2
      cases hsl : s.slot <;> simp [hsl] at h2
  · intro ⟨hp, hw⟩
    refine ⟨by simp [hp], ?_⟩
    cases hco : s.co with
    | waiting => rfl
    | woken => exact absurd hco hw
    | emitting t => rfl

theorem consumerFree_iff (s : St) : ConsumerFree s ↔ ∀ t, s.co ≠ .emitting t := by
  unfold ConsumerFree step
  cases hco : s.co <;> simp

theorem waiting_of_quiescent_free {s : St} (hq : Quiescent s) (hf : ConsumerFree s) :
    s.pending = 0 ∧ s.co = .waiting := by
  obtain ⟨hp, hw⟩ := (quiescent_iff s).mp hq
  have he := (consumerFree_iff s).mp hf
  refine ⟨hp, ?_⟩
  cases hco : s.co with
  | waiting => rfl
  | woken => exact absurd hco hw
  | emitting t => exact absurd hco (he t)

/-- A state is *stuck without new input* when no action other than `arrive` is enabled. -/
theorem stuck_iff (s : St) :
    (∀ a, a ≠ Act.arrive → step s a = none) ↔ Quiescent s ∧ ConsumerFree s := by
  constructor
  · intro h
    exact ⟨⟨h _ (by decide), h _ (by decide)⟩, h _ (by decide)⟩
  · intro ⟨⟨h1, h2⟩, h3⟩ a ha
    cases a with
    | arrive => exact absurd rfl ha
    | runNotify => exact h1
    | resume => exact h2
    | consumerDone => exact h3

/-! ### termination of arrival-free runs -/

theorem weight_step {s s' : St} {a : Act} (ha : a ≠ .arrive) (hs : step s a = some s') :
    weight s' < weight s := by
  cases a with
  | arrive => exact absurd rfl ha
  | runNotify =>
    simp only [step] at hs
    split at hs
    · simp at hs
    · next hp =>
      simp only [Option.some.injEq] at hs
      subst hs
      cases hco : s.co <;> simp [weight, hco] <;> omega
  | resume =>
    simp only [step] at hs
    split at hs
    · next hco =>
      split at hs
      · next i hsl =>
        simp only [Option.some.injEq] at hs
        subst hs
        simp [weight, hco, hsl]
      · next hsl =>
        simp only [Option.some.injEq] at hs
        subst hs
        simp [weight, hco, hsl]
    · simp at hs
  | consumerDone =>
    simp only [step] at hs
    split at hs
    · next t hco =>
      simp only [Option.some.injEq] at hs
      subst hs
      simp [weight, hco]
    · simp at hs

theorem weight_run {s s' : St} {acts : List Act} (hn : ∀ a ∈ acts, a ≠ .arrive)
    (hr : run s acts = some s') : weight s' + acts.length ≤ weight s := by
  induction acts generalizing s with
  | nil => simp only [run, Option.some.injEq] at hr; subst hr; simp
  | cons a as ih =>
    simp only [run] at hr
    cases hs : step s a with
    | none => simp [hs] at hr
    | some s₁ =>
      simp only [hs, Option.bind_some] at hr
      have h1 := weight_step (hn a (by simp)) hs
      have h2 := ih (fun b hb => hn b (by simp [hb])) hr
      simp only [List.length_cons]
      omega

theorem arrived_run_noarrive {s s' : St} {acts : List Act} (hn : ∀ a ∈ acts, a ≠ .arrive)
    (hr : run s acts = some s') : s'.arrived = s.arrived := by
  induction acts generalizing s with
  | nil => simp only [run, Option.some.injEq] at hr; subst hr; rfl
  | cons a as ih =>
    simp only [run] at hr
    cases hs : step s a with
    | none => simp [hs] at hr
    | some s₁ =>
      simp only [hs, Option.bind_some] at hr
      have h2 := ih (fun b hb => hn b (by simp [hb])) hr
      have h1 : s₁.arrived = s.arrived := by
        have ha := hn a (by simp)
        cases a with
        | arrive => exact absurd rfl ha
        | runNotify =>
          simp only [step] at hs
          split at hs
          · simp at hs
          · simp only [Option.some.injEq] at hs; subst hs; rfl
        | resume =>
          simp only [step] at hs
          split at hs
          · split at hs <;> (simp only [Option.some.injEq] at hs; subst hs; rfl)
          · simp at hs
        | consumerDone =>
          simp only [step] at hs
          split at hs
          · simp only [Option.some.injEq] at hs; subst hs; rfl
          · simp at hs
      omega

/-! ### the original mechanism: what it does guarantee -/
namespace Orig

/-- Invariant of the original mechanism: the slot always holds the newest
arrival (it is never emptied) and the log is non-decreasing and bounded by it. -/
structure Inv (s : St) : Prop where
  slot : s.slot = (if s.arrived = 0 then none else some s.arrived)
  bound : ∀ d ∈ s.delivered, d ≤ s.arrived
  mono : s.delivered.Pairwise (· ≤ ·)

theorem inv_init : Inv init := by
  refine ⟨?_, ?_, ?_⟩ <;> simp [init]

theorem inv_step {s s' : St} {a : Act} (h : Inv s) (hs : step s a = some s') : Inv s' := by
  cases a with
  | arrive =>
    simp only [step, Option.some.injEq] at hs
    subst hs
    refine ⟨by simp, ?_, h.mono⟩
    intro d hd
    have := h.bound d hd
    simp only; omega
  | runNotify =>
    simp only [step] at hs
    split at hs
    · simp at hs
    · simp only [Option.some.injEq] at hs
      subst hs
      exact ⟨h.slot, h.bound, h.mono⟩
  | resume =>
    simp only [step] at hs
    split at hs
    · split at hs
      · next i hsl =>
        simp only [Option.some.injEq] at hs
        subst hs
        have hi : i ≤ s.arrived := by
          have := h.slot
          rw [hsl] at this
          split at this
          · simp at this
          · simp only [Option.some.injEq] at this; omega
        refine ⟨h.slot, ?_, ?_⟩
        · intro d hd
          simp only [List.mem_append, List.mem_singleton] at hd
          show d ≤ s.arrived
          rcases hd with hd | hd
          · exact h.bound d hd
          · omega
        · simp only
          rw [List.pairwise_append]
          refine ⟨h.mono, by simp, ?_⟩
          intro a ha b hb
          simp only [List.mem_singleton] at hb
          subst hb
          have := h.bound a ha
          have := h.slot
          rw [hsl] at this
          split at this
          · simp at this
          · simp only [Option.some.injEq] at this; omega
      · simp at hs
    · simp only [Option.some.injEq] at hs
      subst hs
      exact ⟨h.slot, h.bound, h.mono⟩
    · simp at hs
  | consumerDone =>
    simp only [step] at hs
    split at hs
    · simp only [Option.some.injEq] at hs
      subst hs
      exact ⟨h.slot, h.bound, h.mono⟩
    · simp at hs

theorem inv_run {s s' : St} {acts : List Act} (h : Inv s) (hr : run s acts = some s') : Inv s' := by
  induction acts generalizing s with
  | nil => simp only [run, Option.some.injEq] at hr; subst hr; exact h
  | cons a as ih =>
    simp only [run] at hr
    cases hs : step s a with
    | none => simp [hs] at hr
    | some s₁ =>
      simp only [hs, Option.bind_some] at hr
      exact ih (inv_step h hs) hr

end Orig

end StreamzVerif.Latest
