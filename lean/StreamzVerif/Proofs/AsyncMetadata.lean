import StreamzVerif.Proofs.AsyncWindows
import StreamzVerif.Proofs.AsyncZip
import StreamzVerif.Proofs.AsyncBuffer
/-!
# Helper lemmas for C10 on the asynchronous node groups (Props/AsyncMetadata.lean)

Nothing here changes a model: list lemmas, the step-level description of what an emitting action does with the
metadata list it hands to `_emit`, and two small additional invariants (partition: every flush in flight holds the
metadata of the partition it emitted; zip: every unfinished consumer invocation holds the metadata of an emitted
tuple).
-/
set_option linter.unusedSimpArgs false
set_option linter.unusedVariables false
set_option linter.unusedSectionVars false

/-! ## Lists -/
namespace StreamzVerif.AsyncMeta

theorem flatMap_split {β γ : Type} (f : β → List γ) (l : List β) (j : Nat) (o : β) (h : l[j]? = some o) :
    l.flatMap f = (l.take j).flatMap f ++ f o ++ (l.drop (j + 1)).flatMap f := by
  have hj : j < l.length := by
    rcases Nat.lt_or_ge j l.length with hlt | hge
    · exact hlt
    · rw [List.getElem?_eq_none_iff.2 hge] at h; cases h
  have hl : l = l.take j ++ o :: l.drop (j + 1) := by
    have h1 : l.drop j = o :: l.drop (j + 1) := by
      rw [List.drop_eq_getElem_cons hj]
      rw [List.getElem?_eq_getElem hj] at h
      cases h; rfl
    conv => lhs; rw [← List.take_append_drop j l, h1]
  conv => lhs; rw [hl]
  simp [List.flatMap_append, List.flatMap_cons]

theorem flatMap_flatMap_eq {β γ δ : Type} (l : List β) (f : β → List γ) (g : γ → List δ) :
    (l.flatMap f).flatMap g = l.flatMap (fun b => (f b).flatMap g) := by
  induction l with
  | nil => rfl
  | cons a l ih => simp [List.flatMap_cons, List.flatMap_append, ih]

theorem sublist_flatMap {β γ : Type} (f : β → List γ) {l1 l2 : List β} (h : l1.Sublist l2) :
    (l1.flatMap f).Sublist (l2.flatMap f) := by
  induction h with
  | slnil => simp
  | cons a _ ih => simp only [List.flatMap_cons]; exact ih.trans (List.sublist_append_right _ _)
  | cons_cons a _ ih => simp only [List.flatMap_cons]; exact List.Sublist.append (List.Sublist.refl _) ih

theorem sublist_flatMap_pointwise {β γ : Type} (f g : β → List γ) (l : List β) (h : ∀ b ∈ l, (f b).Sublist (g b)) :
    (l.flatMap f).Sublist (l.flatMap g) := by
  induction l with
  | nil => simp
  | cons a l ih =>
    simp only [List.flatMap_cons]
    exact List.Sublist.append (h a List.mem_cons_self) (ih (fun b hb => h b (List.mem_cons_of_mem _ hb)))

/-- Members whose own list is empty can be erased without changing the concatenation. -/
theorem flatMap_filter_nonempty {β γ : Type} (f : β → List γ) (l : List β) :
    (l.filter (fun b => !(f b).isEmpty)).flatMap f = l.flatMap f := by
  induction l with
  | nil => rfl
  | cons a l ih =>
    cases hf : f a with
    | nil => simp [List.filter_cons, hf, ih]
    | cons x xs => simp [List.filter_cons, hf, ih]

theorem flatMap_eq_nil_of_all {β γ : Type} (f : β → List γ) (l : List β) (h : ∀ b ∈ l, f b = []) :
    l.flatMap f = [] := by
  induction l with
  | nil => rfl
  | cons a l ih =>
    simp [List.flatMap_cons, h a List.mem_cons_self, ih (fun b hb => h b (List.mem_cons_of_mem _ hb))]

theorem flatMap_filterMap {β γ δ : Type} (g : β → Option γ) (f : γ → List δ) (l : List β) :
    (l.filterMap g).flatMap f = l.flatMap (fun u => ((g u).map f).getD []) := by
  induction l with
  | nil => rfl
  | cons a l ih =>
    cases hg : g a with
    | none => simp [List.filterMap_cons, hg, ih]
    | some c => simp [List.filterMap_cons, hg, ih]

theorem flatMap_congr_mem {β γ : Type} (l : List β) (f g : β → List γ) (h : ∀ a ∈ l, f a = g a) :
    l.flatMap f = l.flatMap g := by
  induction l with
  | nil => rfl
  | cons a l ih =>
    simp only [List.flatMap_cons]
    rw [h a List.mem_cons_self, ih (fun b hb => h b (List.mem_cons_of_mem _ hb))]

end StreamzVerif.AsyncMeta

/-! ## Time windows -/
namespace StreamzVerif.AsyncWindows
open StreamzVerif.AsyncMeta

variable {α κ : Type} [DecidableEq κ]

theorem mds_eq_flatMap (l : List (Elem α)) : mds l = l.flatMap (·.md) := rfl

theorem mds_flatMap {β : Type} (l : List β) (f : β → List (Elem α)) :
    mds (l.flatMap f) = l.flatMap (fun b => mds (f b)) := by
  unfold mds; exact flatMap_flatMap_eq l f _

theorem mds_sublist {l1 l2 : List (Elem α)} (h : l1.Sublist l2) : (mds l1).Sublist (mds l2) :=
  sublist_flatMap _ h

theorem mds_filter_nonempty (l : List (Elem α)) : mds l = mds (l.filter (fun e => !e.md.isEmpty)) :=
  (flatMap_filter_nonempty (fun e : Elem α => e.md) l).symm

theorem mds_eq_nil_of_all (l : List (Elem α)) (h : ∀ e ∈ l, e.md = []) : mds l = [] :=
  flatMap_eq_nil_of_all (fun e : Elem α => e.md) l h

/-- What one `cb` iteration does with the metadata list `m = mds buf` it hands to `_emit`. -/
theorem emitBatch_md (cfg : Cfg α κ) (s : TW α) :
    (emitBatch cfg s).outs = s.outs ++ [{ at_ := s.now, blk := s.blocked, batch := s.buf, win := s.win }] ∧
    (cfg.syncDown = false → (emitBatch cfg s).pend = mds s.buf) ∧
    (∀ r, (emitBatch cfg s).rc.cnt r =
      s.rc.cnt r + (if cfg.syncDown then -1 else 1) * (((mds s.buf).count r : Nat) : Int)) := by
  unfold emitBatch
  cases hsd : cfg.syncDown with
  | true =>
    refine ⟨by simp, by simp, fun r => ?_⟩
    simp only [if_true, RC.release_cnt, RC.retain_cnt]
    omega
  | false =>
    refine ⟨by simp, by simp, fun r => ?_⟩
    simp only [Bool.false_eq_true, if_false, RC.release_cnt, RC.retain_cnt]
    omega

theorem list_ne_append_singleton {β : Type} (l : List β) (o : β) : l ≠ l ++ [o] := by
  intro hl
  have := congrArg List.length hl
  simp at this

/-- A step that appends an emission is a `cb` iteration (`start` / `tick`) of the state before. -/
theorem step_emits (cfg : Cfg α κ) (s s' : TW α) (a : Act α) (o : Out α)
    (hs : step cfg s a = some s') (ho : s'.outs = s.outs ++ [o]) : s' = emitBatch cfg s := by
  cases a with
  | arrive x md =>
    simp only [step, Option.some.injEq] at hs
    subst hs
    exact absurd ho (list_ne_append_singleton _ _)
  | start =>
    simp only [step] at hs
    split at hs
    · cases hs; rfl
    · cases hs
  | tick =>
    simp only [step] at hs
    split at hs
    · split at hs
      · cases hs; rfl
      · cases hs
    · cases hs
  | downDone =>
    simp only [step] at hs
    split at hs
    · cases hs; exact absurd ho (list_ne_append_singleton _ _)
    · cases hs
  | advance t =>
    simp only [step] at hs
    split at hs
    · split at hs
      · cases hs
      · cases hs; exact absurd ho (list_ne_append_singleton _ _)
      · split at hs
        · cases hs; exact absurd ho (list_ne_append_singleton _ _)
        · cases hs
    · cases hs


/-! ### partition with timeout -/

/-- What `_flush` does with the metadata list `m = mds (self._buffer[key])` it hands to `_emit`. -/
theorem flush_md (cfg : PCfg α κ) (s : PT α κ) (k : κ) (b : Bool) :
    (flush cfg s k b).outs = s.outs ++ [{ at_ := s.now, key := k, batch := part cfg k s.buf, byTimer := b }] ∧
    (flush cfg s k b).flights =
      (if cfg.syncDown then s.flights else s.flights ++ [(s.outs.length, mds (part cfg k s.buf))]) ∧
    (∀ r, (flush cfg s k b).rc.cnt r =
      s.rc.cnt r + (if cfg.syncDown then -1 else 1) * (((mds (part cfg k s.buf)).count r : Nat) : Int)) := by
  unfold flush
  cases hsd : cfg.syncDown with
  | true =>
    refine ⟨by simp, by simp, fun r => ?_⟩
    simp only [if_true, RC.release_cnt, RC.retain_cnt]
    omega
  | false =>
    refine ⟨by simp, by simp, fun r => ?_⟩
    simp only [Bool.false_eq_true, if_false, RC.release_cnt, RC.retain_cnt]
    omega

/-- `outs` and `flights` of `s'` relative to `s`: nothing was emitted (flights can only finish), or exactly one
partition `o` was emitted and — with an awaitable downstream — its metadata list is the new flight. -/
def PEmitStep (cfg : PCfg α κ) (s s' : PT α κ) : Prop :=
  (s'.outs = s.outs ∧ s'.flights.Sublist s.flights) ∨
  (∃ o, s'.outs = s.outs ++ [o] ∧
    s'.flights = (if cfg.syncDown then s.flights else s.flights ++ [(s.outs.length, mds o.batch)]))

theorem flush_emitStep (cfg : PCfg α κ) (s0 s : PT α κ) (k : κ) (b : Bool)
    (ho : s.outs = s0.outs) (hf : s.flights = s0.flights) : PEmitStep cfg s0 (flush cfg s k b) := by
  obtain ⟨h1, h2, _⟩ := flush_md cfg s k b
  exact Or.inr ⟨_, by rw [h1, ho], by rw [h2, ho, hf]⟩

@[simp] theorem cancel_flights (s : PT α κ) (k : κ) : (cancel s k).flights = s.flights := by
  unfold cancel; split <;> rfl

theorem updateBody_emitStep (cfg : PCfg α κ) (s : PT α κ) (x : α) (md : List Nat) :
    PEmitStep cfg s (updateBody cfg s x md) := by
  unfold updateBody
  simp only []
  split
  · have : ∀ s0 : PT α κ, PEmitStep cfg s (flush cfg s0 (cfg.key x) false) →
        PEmitStep cfg s { flush cfg s0 (cfg.key x) false with
          waits := s.waits ++ [if cfg.syncDown then none else some s.outs.length] } := fun s0 h0 => h0
    apply this
    split
    · exact flush_emitStep cfg s _ _ _ (by simp) (by simp)
    · exact flush_emitStep cfg s _ _ _ rfl rfl
  · split
    · exact Or.inl ⟨rfl, List.Sublist.refl _⟩
    · exact Or.inl ⟨rfl, List.Sublist.refl _⟩

theorem pstep_emitStep (cfg : PCfg α κ) (s s' : PT α κ) (a : PAct α) (hs : pstep cfg s a = some s') :
    PEmitStep cfg s s' := by
  cases a with
  | arrive x md =>
    simp only [pstep, Option.some.injEq] at hs
    subst hs
    have := updateBody_emitStep cfg { s with rc := s.rc.retain md } x md
    exact this
  | fire id =>
    simp only [pstep] at hs
    split at hs
    · split at hs
      · cases hs; exact flush_emitStep cfg s _ _ _ rfl rfl
      · cases hs
    · cases hs
  | downDone j =>
    simp only [pstep] at hs
    split at hs
    · cases hs; exact Or.inl ⟨rfl, List.filter_sublist⟩
    · cases hs
  | advance t =>
    simp only [pstep] at hs
    split at hs
    · cases hs; exact Or.inl ⟨rfl, List.Sublist.refl _⟩
    · cases hs

/-- Every flush in flight (its downstream awaitable is pending) holds exactly the metadata of the partition it
emitted: the flight of emission `j` carries `mds` of the batch of `outs[j]`. -/
def FlightMd (s : PT α κ) : Prop :=
  ∀ f ∈ s.flights, ∃ o, s.outs[f.1]? = some o ∧ f.2 = mds o.batch

theorem FlightMd.init (c0 : Nat) : FlightMd (PT.init α κ c0) := fun _ h => by simp [PT.init] at h

theorem emitStep_flightMd (cfg : PCfg α κ) (s s' : PT α κ) (h : FlightMd s) (he : PEmitStep cfg s s') :
    FlightMd s' := by
  rcases he with ⟨ho, hf⟩ | ⟨o, ho, hf⟩
  · intro f hfm
    rw [ho]; exact h f (hf.subset hfm)
  · have hold : ∀ f ∈ s.flights, ∃ o', s'.outs[f.1]? = some o' ∧ f.2 = mds o'.batch := by
      intro f hfm
      obtain ⟨o', h1, h2⟩ := h f hfm
      refine ⟨o', ?_, h2⟩
      have hlt : f.1 < s.outs.length := by
        rcases Nat.lt_or_ge f.1 s.outs.length with hlt | hge
        · exact hlt
        · rw [List.getElem?_eq_none_iff.2 hge] at h1; cases h1
      rw [ho, List.getElem?_append_left hlt]; exact h1
    intro f hfm
    rw [hf] at hfm
    split at hfm
    · exact hold f hfm
    · rcases List.mem_append.mp hfm with hfm | hfm
      · exact hold f hfm
      · simp only [List.mem_singleton] at hfm
        subst hfm
        exact ⟨o, by rw [ho]; simp, rfl⟩

theorem prun_flightMd (cfg : PCfg α κ) (s s' : PT α κ) (as : List (PAct α)) (h : FlightMd s)
    (hs : prun cfg s as = some s') : FlightMd s' := by
  induction as generalizing s with
  | nil => simp only [prun, Option.some.injEq] at hs; subst hs; exact h
  | cons a as ih =>
    simp only [prun] at hs
    split at hs
    · rename_i s1 h1; exact ih s1 (emitStep_flightMd cfg s s1 h (pstep_emitStep cfg s s1 a h1)) hs
    · cases hs

/-- Partitions of one key among the emissions, as a decomposition around emission `j`. -/
theorem outsOf_split (outs : List (POut α κ)) (j : Nat) (o : POut α κ) (h : outs[j]? = some o) :
    outsOf o.key outs = outsOf o.key (outs.take j) ++ o.batch ++ outsOf o.key (outs.drop (j + 1)) := by
  have hj : j < outs.length := by
    rcases Nat.lt_or_ge j outs.length with hlt | hge
    · exact hlt
    · rw [List.getElem?_eq_none_iff.2 hge] at h; cases h
  have hl : outs = outs.take j ++ o :: outs.drop (j + 1) := by
    have h1 : outs.drop j = o :: outs.drop (j + 1) := by
      rw [List.drop_eq_getElem_cons hj]
      rw [List.getElem?_eq_getElem hj] at h
      cases h; rfl
    conv => lhs; rw [← List.take_append_drop j outs, h1]
  conv => lhs; rw [hl]
  simp [outsOf, List.filter_append, List.filter_cons, List.flatMap_append, List.flatMap_cons]

theorem mds_outsOf (k : κ) (outs : List (POut α κ)) :
    mds (outsOf k outs) = (outs.filter (fun o => decide (o.key = k))).flatMap (fun o => mds o.batch) := by
  unfold outsOf; exact mds_flatMap _ _

/-- `partition` without `key=`: all elements fall into one partition. -/
theorem part_all (cfg : PCfg α κ) (hκ : ∀ a b : κ, a = b) (k : κ) (l : List (Elem α)) : part cfg k l = l := by
  unfold part
  rw [List.filter_eq_self]
  intro e _
  simp [hκ (cfg.key e.val) k]

theorem outsOf_all (hκ : ∀ a b : κ, a = b) (k : κ) (outs : List (POut α κ)) :
    outsOf k outs = outs.flatMap (·.batch) := by
  unfold outsOf
  congr 1
  rw [List.filter_eq_self]
  intro o _
  simp [hκ o.key k]

end StreamzVerif.AsyncWindows

/-! ## zip(maxsize) -/
namespace StreamzVerif.AsyncZip
open StreamzVerif.AsyncMeta

variable {α : Type}

theorem takeTok_sub {tok : Tok} {l rest : List (Tok × Meta)} {md : Meta} (h : takeTok tok l = some (md, rest)) :
    rest.Sublist l ∧ (tok, md) ∈ l := by
  induction l generalizing rest with
  | nil => simp [takeTok] at h
  | cons p ps ih =>
    rw [takeTok] at h
    split at h
    · next hp =>
      simp only [Option.some.injEq, Prod.mk.injEq] at h
      obtain ⟨h1, h2⟩ := h
      subst h1 h2
      refine ⟨List.sublist_cons_self _ _, ?_⟩
      rw [← hp]; exact List.mem_cons_self
    · next hp =>
      cases hq : takeTok tok ps with
      | none => rw [hq] at h; simp at h
      | some q =>
        obtain ⟨md', rest'⟩ := q
        rw [hq] at h
        simp only [Option.map_some, Option.some.injEq, Prod.mk.injEq] at h
        obtain ⟨h1, h2⟩ := h
        subst h1 h2
        obtain ⟨i1, i2⟩ := ih hq
        exact ⟨List.Sublist.cons_cons _ i1, List.mem_cons_of_mem _ i2⟩

/-- A step that emits tuple `t` hands `(tupleList k t).flatMap md` to `_emit`: every asynchronous sink's consumer
invocation started by it (tokens `nextTok, nextTok+1, ...`) holds exactly that list. -/
theorem step_emit_pending (cfg : Cfg) (s : St α) (a : Act α) (t : Nat → Option (Entry α))
    (h : (step cfg s a).outs = s.outs ++ [t]) :
    (step cfg s a).pending = s.pending ++
      (List.range' s.nextTok (asyncN cfg.sinks)).map (fun tk => (tk, (tupleList cfg.k t).flatMap (·.md))) := by
  rcases step_outs cfg s a with he | ⟨u, x, md, _, _, _, he⟩
  · rw [he] at h
    have := congrArg List.length h
    simp at this
  · rw [he] at h ⊢
    have ht : tupA cfg s u ⟨x, md⟩ = t := by
      have : s.outs ++ [tupA cfg s u ⟨x, md⟩] = s.outs ++ [t] := h
      simpa using this
    subst ht
    show s.pending ++ (dA cfg s u ⟨x, md⟩).2.2.map (fun tk => (tk, mdAllA cfg s u ⟨x, md⟩)) = _
    rw [dA, deliverSinks_toks]
    rfl

/-- Every unfinished consumer invocation holds the metadata of an emitted tuple. -/
def PendMd (cfg : Cfg) (s : St α) : Prop :=
  ∀ p ∈ s.pending, ∃ t ∈ s.outs, p.2 = (tupleList cfg.k t).flatMap (·.md)

theorem pendMd_step {cfg : Cfg} {s : St α} (a : Act α) (h : PendMd cfg s) : PendMd cfg (step cfg s a) := by
  rcases step_outs cfg s a with he | ⟨u, x, md, _, _, _, he⟩
  · -- nothing emitted: the pending invocations are a sublist of the old ones
    have hsub : ∀ p ∈ (step cfg s a).pending, p ∈ s.pending := by
      cases a with
      | sinkDone tok =>
        simp only [step]
        cases ht : takeTok tok s.pending with
        | none => rw [sinkDone_none s ht]; exact fun p hp => hp
        | some q =>
          obtain ⟨md, rest⟩ := q
          rw [sinkDone_some s ht]
          exact fun p hp => (takeTok_sub ht).1.subset hp
      | arrive v x md =>
        simp only [step] at he ⊢
        rcases arrive_cases cfg s v x md with ⟨_, he'⟩ | ⟨_, _, he'⟩ | ⟨_, _, he'⟩
        · rw [he']; exact fun p hp => hp
        · rw [he'] at he
          have := congrArg List.length he
          simp [fireSt] at this
        · rw [he']; exact fun p hp => hp
    intro p hp
    rw [he]; exact h p (hsub p hp)
  · have hp := step_emit_pending cfg s a (tupA cfg s u ⟨x, md⟩) (by rw [he]; rfl)
    have ho : (step cfg s a).outs = s.outs ++ [tupA cfg s u ⟨x, md⟩] := by rw [he]; rfl
    intro p hpm
    rw [hp] at hpm
    rw [ho]
    rcases List.mem_append.mp hpm with hpm | hpm
    · obtain ⟨t, ht, e⟩ := h p hpm
      exact ⟨t, List.mem_append_left _ ht, e⟩
    · obtain ⟨tk, _, rfl⟩ := List.mem_map.mp hpm
      exact ⟨_, List.mem_append_right _ (List.mem_singleton.mpr rfl), rfl⟩

theorem pendMd_run (cfg : Cfg) (as : List (Act α)) : PendMd cfg (run cfg as) := by
  have : ∀ (s : St α), PendMd cfg s → PendMd cfg (as.foldl (step cfg) s) := by
    induction as with
    | nil => exact fun s h => h
    | cons a as ih => exact fun s h => ih _ (pendMd_step a h)
  exact this _ (fun p hp => by simp [init] at hp)

end StreamzVerif.AsyncZip

/-! ## buffer, map_async -/
namespace StreamzVerif.AsyncBuffer

variable {α β : Type}

/-- The values the producers emitted, in order. -/
def barrivals : List (BAct α) → List α
  | [] => []
  | .arrive x :: t => x :: barrivals t
  | .downDone :: t => barrivals t

def marrivals : List (MAct α) → List α
  | [] => []
  | .arrive x :: t => x :: marrivals t
  | .jobDone _ :: t => marrivals t
  | .jobFail _ :: t => marrivals t
  | .downDone :: t => marrivals t

/-- Arrival `i` is `(i, xᵢ)`: the index names the element and with it the metadata it arrived with (the models
identify an element's metadata with the element: `Ev.emit id v` = "`_emit(v)` with the metadata of element `id`"). -/
def numbered {γ : Type} (xs : List γ) : List (Nat × γ) := (List.range xs.length).zip xs

theorem eq_numbered {γ : Type} (l : List (Nat × γ)) (h : l.map Prod.fst = List.range l.length) :
    l = numbered (l.map Prod.snd) := by
  unfold numbered
  rw [List.length_map, ← h]
  exact List.zip_of_prod rfl rfl

theorem arriveP_ins (c : BCfg) (s : BSt α) (x : α) : (arriveP c s x).ins = s.ins ++ [(s.ins.length, x)] := by
  unfold arriveP
  simp only []
  split
  · rfl
  · split <;> rfl

theorem bstep_ins_snd (c : BCfg) (s : BSt α) (a : BAct α) :
    (bstep c s a).ins.map Prod.snd = s.ins.map Prod.snd ++ barrivals [a] := by
  cases a with
  | arrive x =>
    simp only [bstep, barrivals]
    split
    · rw [arriveP_ins]; simp
    · rw [doneP_ins, arriveP_ins]; simp
  | downDone =>
    simp only [bstep, barrivals]
    split
    · rw [doneP_ins]; simp
    · simp

theorem barrivals_cons (a : BAct α) (t : List (BAct α)) : barrivals (a :: t) = barrivals [a] ++ barrivals t := by
  cases a <;> rfl

theorem brun_ins_snd (c : BCfg) (acts : List (BAct α)) (s : BSt α) :
    (brun c s acts).ins.map Prod.snd = s.ins.map Prod.snd ++ barrivals acts := by
  induction acts generalizing s with
  | nil => simp [brun, barrivals]
  | cons a t ih =>
    have := ih (bstep c s a)
    simp only [brun, List.foldl_cons] at this ⊢
    rw [this, barrivals_cons a t, bstep_ins_snd, List.append_assoc]

/-- The arrivals recorded by the model are the producers' emissions, numbered in order. -/
theorem brun_ins (c : BCfg) (acts : List (BAct α)) :
    (brun c (binit α) acts).ins = numbered (barrivals acts) := by
  have h : BInv c (brun c (binit α) acts) := binv_brun c acts _ (binv_init c)
  have h2 := brun_ins_snd c acts (binit α)
  rw [eq_numbered _ h.idx, h2]
  simp [binit]

theorem mprim_ins_snd (f : α → β) (c : MCfg) (s : MSt α β) (a : MAct α) :
    (mprim f c s a).ins.map Prod.snd = s.ins.map Prod.snd ++ marrivals [a] := by
  cases a with
  | arrive x => simp [mprim, arriveM, marrivals]
  | jobDone i =>
    simp only [mprim, jobDoneM, marrivals, List.append_nil]
    split
    · split
      · rw [deliver_ins]
      · rfl
    · rfl
  | jobFail i =>
    simp only [mprim, jobFailM, marrivals, List.append_nil]
    split
    · split
      · rfl
      · rfl
    · rfl
  | downDone =>
    simp only [mprim, downDoneM, marrivals, List.append_nil]
    split <;> rfl

theorem marrivals_cons (a : MAct α) (t : List (MAct α)) : marrivals (a :: t) = marrivals [a] ++ marrivals t := by
  cases a <;> rfl

theorem mrun_ins_snd (f : α → β) (c : MCfg) (acts : List (MAct α)) (s : MSt α β) :
    (mrun f c s acts).ins.map Prod.snd = s.ins.map Prod.snd ++ marrivals acts := by
  induction acts generalizing s with
  | nil => simp [mrun, marrivals]
  | cons a t ih =>
    have := ih (mstep f c s a)
    simp only [mrun, List.foldl_cons] at this ⊢
    rw [this, marrivals_cons a t, ← List.append_assoc]
    congr 1
    unfold mstep
    rw [settle_ins, mprim_ins_snd]

theorem mrun_ins_numbered (f : α → β) (c : MCfg) (acts : List (MAct α)) :
    (mrun f c (minit α β) acts).ins = numbered (marrivals acts) := by
  have h : MInv f c (mrun f c (minit α β) acts) := minv_mrun f c acts _ (minv_init f c)
  have h2 := mrun_ins_snd f c acts (minit α β)
  rw [eq_numbered _ h.idx, h2]
  simp [minit]

/-- The pairs handed downstream are a sublist of the mapped arrivals — also when jobs fail. -/
theorem mouts_sublist (f : α → β) (c : MCfg) (s : MSt α β) (h : MInv f c s) :
    s.outs.Sublist (s.ins.map (fun e => (e.1, f e.2))) := by
  have hsubI : (okItems s.fin ++ s.worker.emittingItems).Sublist
      (finItems s.fin ++ s.worker.items ++ jitems s.queue ++ s.waiting) := by
    apply List.Sublist.trans _ (List.sublist_append_left _ _)
    apply List.Sublist.trans _ (List.sublist_append_left _ _)
    exact List.Sublist.append (okItems_sublist _) (emittingItems_sublist _)
  have hins : s.ins.map (fun e => (e.1, f e.2)) =
      (finItems s.fin ++ s.worker.items ++ jitems s.queue ++ s.waiting).map (outOf f) := by
    rw [h.hist, map_outOf_keys]; simp
  rw [h.outs, hins]
  exact List.Sublist.map _ hsubI

/-- The element of a job that raised is never handed downstream. -/
theorem lost_not_emitted (f : α → β) (c : MCfg) (s : MSt α β) (h : MInv f c s) (i : Nat)
    (hl : Ev.joblost i ∈ s.log) : i ∉ s.outs.map Prod.fst := by
  intro ho
  have hlost : i ∈ ids (lostItems s.fin) := by
    rw [← h.losts]
    exact List.mem_filterMap.mpr ⟨_, hl, rfl⟩
  have houts : s.outs.map Prod.fst = ids (okItems s.fin ++ s.worker.emittingItems) := by
    rw [h.outs]; simp [ids, outOf, Function.comp_def]
  rw [houts, ids_append, List.mem_append] at ho
  have hnd := minv_ids_nodup f c s h
  have hnd1 : (ids (finItems s.fin) ++ ids s.worker.items).Nodup :=
    (List.nodup_append.mp (List.nodup_append.mp hnd).1).1
  rcases ho with ho | ho
  · exact ok_lost_disjoint s.fin (List.nodup_append.mp hnd1).1 i ho hlost
  · have h1 : i ∈ ids (finItems s.fin) := (List.Sublist.map Item.id (lostItems_sublist s.fin)).subset hlost
    have h2 : i ∈ ids s.worker.items := (List.Sublist.map Item.id (emittingItems_sublist s.worker)).subset ho
    exact (List.nodup_append.mp hnd1).2.2 i h1 i h2 rfl

end StreamzVerif.AsyncBuffer
