/-!
# `Source` whose `run()` returns a Future (a subclass written as a tornado coroutine)

`Source._run_once` awaits what `run()` returns.  For a native coroutine the end of `run()` and the `finally` of
`_run_once` are one atom (Model/Source.lean).  For a Future the two are different loop iterations: `run()` leaves its
loop and resolves its Future (`resume`), `_run_once` is woken one iteration later (`wake`).  Between the two the
source is still accounted for (`_run_live`) although nothing polls any more.

`note = false`: `start()` as it was before /repo 53d165d (skip scheduling while `_run_live` is set);
`note = true` : `start()` leaves a note (`_restart`) and `_run_once` invokes `run()` again when it finds it.

```
def start(self):
    if self.stopped:
        self.stopped = False
        if not self._run_live: self._run_live = True; self.loop.add_callback(self._run_once)
        else: self._restart = True                      # note = true only
async def _run_once(self):
    try:
        while True:
            self._restart = False
            result = self.run()                          # gen.coroutine: runs to its first yield
            if isawaitable(result): await result         # suspends unless the Future is already done
            if self.stopped or not self._restart: break
    finally: self._run_live = False
```
-/
namespace StreamzVerif.SourceFuture

inductive Phase
  /-- `_run_once` scheduled by `add_callback`, not begun -/
  | atCheck
  /-- `run()` suspended inside a cycle; `_run_once` suspended on its Future -/
  | inCycle
  /-- `run()` has left its loop and resolved its Future; `_run_once` not yet woken -/
  | finishing
deriving DecidableEq, Repr

inductive Act
  | start
  | stop
  /-- the event loop resumes the invocation (the scheduled `_run_once`, or `run()` inside its cycle) -/
  | resume
  /-- the event loop wakes `_run_once` after `run()`'s Future resolved -/
  | wake
deriving DecidableEq, Repr

structure St where
  stopped : Bool
  runLive : Bool
  restart : Bool
  loop : Option Phase
  cycles : Nat
deriving DecidableEq, Repr

def init : St := { stopped := true, runLive := false, restart := false, loop := none, cycles := 0 }

def step (note : Bool) (s : St) : Act → St
  | .start =>
    if s.stopped then
      if s.runLive then { s with stopped := false, restart := note || s.restart }
      else { s with stopped := false, runLive := true, loop := some .atCheck }
    else s
  | .stop => if s.stopped then s else { s with stopped := true }
  | .resume =>
    match s.loop with
    | some .atCheck =>
      -- `_restart = False; result = self.run()`: stopped -> the Future is already done, no suspension, `break`, `finally`
      if s.stopped then { s with restart := false, loop := none, runLive := false }
      else { s with restart := false, loop := some .inCycle, cycles := s.cycles + 1 }
    | some .inCycle =>
      if s.stopped then { s with loop := some .finishing }
      else { s with cycles := s.cycles + 1 }
    | _ => s
  | .wake =>
    match s.loop with
    | some .finishing =>
      if !s.stopped && s.restart then
        -- invoke `run()` again: it begins a cycle at once (not stopped)
        { s with restart := false, loop := some .inCycle, cycles := s.cycles + 1 }
      else { s with loop := none, runLive := false }
    | _ => s

def run (note : Bool) (s : St) (acts : List Act) : St := acts.foldl (step note) s

/-- the scheduler's next move for the live invocation, if any -/
def nextMove (s : St) : Option Act :=
  match s.loop with
  | some .finishing => some .wake
  | some _ => some .resume
  | none => none

end StreamzVerif.SourceFuture
