/-!
# Model of a Dask-backed pipeline segment  `scatter() … gather()`  (streamz/dask.py)

A *future* is a value under a wrapper together with an arbitrary completion
time (`DVal.fut v t`): the scheduler may finish tasks in any order, so every
definition below is parameterised by the completion times and the property
theorems quantify over all of them.

Two semantics of one segment (a list of node kinds with parameters):

* `lstep / lnode / lseg`   the local segment (streamz/core.py), node by node as
  list-level state machines over plain values;
* `dstep / dnode / dseg`   the same segment on a DaskStream (streamz/dask.py):
  `map`, `starmap`, `accumulate` are re-implemented with `client.submit` and pass
  futures on; `buffer`, `zip`, `partition`, `sliding_window`, `union` are the
  *same code* as locally (multiple inheritance, dask.py 163-210) running over
  futures — modelled by the shared, element-type-generic helpers
  `zipUpd / partitionStep / windowStep`.

`scatter` (dask.py 95-115) and `gather` (dask.py 118-145) are asynchronous
one-in-one-out nodes: each `update` is a coroutine that retains the metadata
refs, waits (for the cluster), emits downstream, releases.  Several coroutines
may be in flight; the emission order of such a node is the order in which the
coroutines finish (`asyncOut`).  `lockedOut` is the variant in which the
coroutines take a FIFO lock around wait+emit (the proposed fix for `gather`).

Metadata: an element carries the list of RefCounter ids attached to it
(`El.md`); every node passes it on as the code does, and `held` lists the refs a
node still retains in its buffers at quiescence (the final counter values).

Core Lean only; all functions total and executable.
-/
namespace StreamzVerif.Dask

/-- A stream element: the value and the ids of the `RefCounter`s in its metadata
(`metadata=[{'ref': rc}, …]`, core.py 429-462). -/
structure El (α : Type) where
  v : α
  md : List Nat

def El.map {α β : Type} (h : α → β) (x : El α) : El β := { v := h x.v, md := x.md }

/-- What flows through a DaskStream: a future (value + completion time chosen by
the cluster), or a tuple of such built by `zip` / `partition` / `sliding_window`
(which run unchanged over futures). -/
inductive DVal (V : Type) where
  | fut (v : V) (t : Nat)
  | tup (l : List (DVal V))

mutual
/-- Forget the future wrapper (`mk` is the local tuple constructor). This is what
`client.gather(x)` returns for a possibly nested collection of futures. -/
def DVal.erase {V : Type} (mk : List V → V) : DVal V → V
  | .fut v _ => v
  | .tup l => mk (DVal.eraseL mk l)
def DVal.eraseL {V : Type} (mk : List V → V) : List (DVal V) → List V
  | [] => []
  | x :: xs => DVal.erase mk x :: DVal.eraseL mk xs
end

mutual
/-- Time at which every future inside the element is finished (`client.gather`
returns then). -/
def DVal.ready {V : Type} : DVal V → Nat
  | .fut _ t => t
  | .tup l => DVal.readyL l
def DVal.readyL {V : Type} : List (DVal V) → Nat
  | [] => 0
  | x :: xs => max (DVal.ready x) (DVal.readyL xs)
end

/-- Node kinds of a segment.  `zipMap g` is `up.zip(up.map(g))` and `unionMap g`
is `up.union(up.map(g))` (a side branch through one `map`, so that the
two-input kinds occur in a single-source segment). `starmap f` takes the
uncurried function (`f(*x)`).  `accumulateRS` is `returns_state=True`. -/
inductive Kind (V : Type) where
  | map (f : V → V)
  | starmap (f : V → V)
  | accumulate (f : V → V → V) (start : Option V)
  | accumulateRS (f : V → V → V × V) (start : Option V)
  | zipMap (g : V → V)
  | unionMap (g : V → V)
  | buffer (n : Nat)
  | partition (n : Nat)
  | slidingWindow (n : Nat) (part : Bool)

/-- State of one node (uniform over kinds).
`a`: partition buffer / zip buffer of the direct upstream / accumulate state
(stored with empty metadata: accumulate retains nothing) / sliding_window
`metadata_buffer`;  `b`: zip buffer of the side upstream;  `w`: sliding_window
value deque. -/
structure NState (α : Type) where
  a : List (El α) := []
  b : List (El α) := []
  w : List α := []

def NState.map {α β : Type} (h : α → β) (s : NState α) : NState β :=
  { a := s.a.map (El.map h), b := s.b.map (El.map h), w := s.w.map h }

/-- Refs a node retains in its buffers (zip 1633, partition 1148, sliding_window 1303:
`_retain_refs` on arrival, `_release_refs` when the element leaves the buffer). -/
def held {α : Type} (s : NState α) : List Nat := (s.a ++ s.b).flatMap (·.md)

/-- last `n` elements (`deque(maxlen=n)`) -/
def takeLast {α : Type} (n : Nat) (l : List α) : List α := l.drop (l.length - n)

/-! ## Kinds inherited unchanged by DaskStream — generic in the element type -/

/-- `zip.update` (core.py 1632-1650) for the direct (`side = false`) or the side
upstream.  Tuple and metadata order follow `self.upstreams` = (direct, side).
The `maxsize` back-pressure branch never fires in a lock-step segment. -/
def zipUpd {α : Type} (mkT : List α → α) (side : Bool) (st : NState α) (x : El α) :
    NState α × List (El α) :=
  let st1 : NState α := if side then { st with b := st.b ++ [x] } else { st with a := st.a ++ [x] }
  let L := if side then st1.b else st1.a
  if L.length = 1 then
    match st1.a, st1.b with
    | p :: as, q :: bs => ({ st1 with a := as, b := bs }, [{ v := mkT [p.v, q.v], md := p.md ++ q.md }])
    | _, _ => (st1, [])
  else (st1, [])

/-- `partition.update` without timeout/key (core.py 1147-1162). -/
def partitionStep {α : Type} (mkT : List α → α) (n : Nat) (st : NState α) (x : El α) :
    NState α × List (El α) :=
  let buf := st.a ++ [x]
  if buf.length = n then
    ({ st with a := [] }, [{ v := mkT (buf.map (·.v)), md := buf.flatMap (·.md) }])
  else ({ st with a := buf }, [])

/-- `sliding_window.update` (core.py 1302-1316). -/
def windowStep {α : Type} (mkT : List α → α) (n : Nat) (part : Bool) (st : NState α) (x : El α) :
    NState α × List (El α) :=
  let w := takeLast n (st.w ++ [x.v])
  let mb := takeLast n (st.a ++ [x])
  if part ∨ w.length = n then
    let out : El α := { v := mkT w, md := mb.flatMap (·.md) }
    ({ st with w := w, a := if mb.length = n then mb.tail else mb }, [out])
  else ({ st with w := w, a := mb }, [])

/-! ## The local segment (streamz/core.py) -/

def linit {V : Type} : Kind V → NState V
  | .accumulate _ (some s) => { a := [{ v := s, md := [] }] }
  | .accumulateRS _ (some s) => { a := [{ v := s, md := [] }] }
  | _ => {}

/-- One `update` of a local node: new state and the elements emitted downstream. -/
def lstep {V : Type} (mk : List V → V) : Kind V → NState V → El V → NState V × List (El V)
  | .map f, st, x => (st, [{ x with v := f x.v }])                         -- core.py 712-719
  | .starmap f, st, x => (st, [{ x with v := f x.v }])                     -- core.py 873-881
  | .accumulate f _, st, x =>                                              -- core.py 1005-1026
    match st.a with
    | [] => ({ st with a := [{ v := x.v, md := [] }] }, [x])
    | s :: _ => let r := f s.v x.v
                ({ st with a := [{ v := r, md := [] }] }, [{ x with v := r }])
  | .accumulateRS f _, st, x =>
    match st.a with
    | [] => ({ st with a := [{ v := x.v, md := [] }] }, [x])
    | s :: _ => let p := f s.v x.v
                ({ st with a := [{ v := p.1, md := [] }] }, [{ x with v := p.2 }])
  | .zipMap g, st, x =>
    -- `up.downstreams = [map g, zip]`: the side branch is served first
    let r1 := zipUpd mk true st { x with v := g x.v }
    let r2 := zipUpd mk false r1.1 x
    (r2.1, r1.2 ++ r2.2)
  | .unionMap g, st, x => (st, [{ x with v := g x.v }, x])                 -- core.py 1858-1859
  | .buffer _, st, x => (st, [x])          -- FIFO queue: order-preserving (core.py 1563-1573)
  | .partition n, st, x => partitionStep mk n st x
  | .slidingWindow n p, st, x => windowStep mk n p st x

/-- A node fed a whole input sequence. -/
def lnode {V : Type} (mk : List V → V) (k : Kind V) : NState V → List (El V) → NState V × List (El V)
  | st, [] => (st, [])
  | st, x :: xs =>
    let r1 := lstep mk k st x
    let r2 := lnode mk k r1.1 xs
    (r2.1, r1.2 ++ r2.2)

/-- A linear segment: each node consumes what the previous one emits.
Returns the final node states and the sequence reaching the sink. -/
def lseg {V : Type} (mk : List V → V) : List (Kind V) → List (El V) → List (NState V) × List (El V)
  | [], xs => ([], xs)
  | k :: ks, xs =>
    let r1 := lnode mk k (linit k) xs
    let r2 := lseg mk ks r1.2
    (r1.1 :: r2.1, r2.2)

/-! ## The same segment on a DaskStream (streamz/dask.py) -/

/-- State of a Dask node: the buffers (over futures) and the number of tasks it
has submitted so far (index into its completion-time assignment). -/
structure DState (V : Type) where
  st : NState (DVal V) := {}
  cnt : Nat := 0

def dinit {V : Type} : Kind V → DState V
  -- an explicit `start` is a plain value: available at once
  | .accumulate _ (some s) => { st := { a := [{ v := .fut s 0, md := [] }] } }
  | .accumulateRS _ (some s) => { st := { a := [{ v := .fut s 0, md := [] }] } }
  | _ => {}

/-- One `update` of a DaskStream node.  `τ k` is the completion time the cluster
gives to the k-th task this node submits (arbitrary). -/
def dstep {V : Type} (mk : List V → V) (τ : Nat → Nat) :
    Kind V → DState V → El (DVal V) → DState V × List (El (DVal V))
  | .map f, s, x =>                                                        -- dask.py 54-57
    ({ s with cnt := s.cnt + 1 }, [{ x with v := .fut (f (x.v.erase mk)) (τ s.cnt) }])
  | .starmap f, s, x =>                                                    -- dask.py 157-160
    ({ s with cnt := s.cnt + 1 }, [{ x with v := .fut (f (x.v.erase mk)) (τ s.cnt) }])
  | .accumulate f _, s, x =>                                               -- dask.py 71-90
    match s.st.a with
    | [] => ({ s with st := { s.st with a := [{ v := x.v, md := [] }] } }, [x])
    | q :: _ =>
      let r : DVal V := .fut (f (q.v.erase mk) (x.v.erase mk)) (τ s.cnt)
      ({ st := { s.st with a := [{ v := r, md := [] }] }, cnt := s.cnt + 1 }, [{ x with v := r }])
  | .accumulateRS f _, s, x =>                                             -- dask.py 81-83: two getitem tasks
    match s.st.a with
    | [] => ({ s with st := { s.st with a := [{ v := x.v, md := [] }] } }, [x])
    | q :: _ =>
      let p := f (q.v.erase mk) (x.v.erase mk)
      let state : DVal V := .fut p.1 (τ s.cnt)
      let result : DVal V := .fut p.2 (τ (s.cnt + 1))
      ({ st := { s.st with a := [{ v := state, md := [] }] }, cnt := s.cnt + 2 }, [{ x with v := result }])
  | .zipMap g, s, x =>
    let y : El (DVal V) := { x with v := .fut (g (x.v.erase mk)) (τ s.cnt) }
    let r1 := zipUpd DVal.tup true s.st y
    let r2 := zipUpd DVal.tup false r1.1 x
    ({ st := r2.1, cnt := s.cnt + 1 }, r1.2 ++ r2.2)
  | .unionMap g, s, x =>
    ({ s with cnt := s.cnt + 1 }, [{ x with v := .fut (g (x.v.erase mk)) (τ s.cnt) }, x])
  | .buffer _, s, x => (s, [x])
  | .partition n, s, x => let r := partitionStep DVal.tup n s.st x; ({ s with st := r.1 }, r.2)
  | .slidingWindow n p, s, x => let r := windowStep DVal.tup n p s.st x; ({ s with st := r.1 }, r.2)

def dnode {V : Type} (mk : List V → V) (τ : Nat → Nat) (k : Kind V) :
    DState V → List (El (DVal V)) → DState V × List (El (DVal V))
  | s, [] => (s, [])
  | s, x :: xs =>
    let r1 := dstep mk τ k s x
    let r2 := dnode mk τ k r1.1 xs
    (r2.1, r1.2 ++ r2.2)

/-- The Dask segment; `T i` is the completion-time assignment of the node at
position `i`. -/
def dseg {V : Type} (mk : List V → V) (T : Nat → Nat → Nat) (i : Nat) :
    List (Kind V) → List (El (DVal V)) → List (DState V) × List (El (DVal V))
  | [], xs => ([], xs)
  | k :: ks, xs =>
    let r1 := dnode mk (T i) k (dinit k) xs
    let r2 := dseg mk T (i + 1) ks r1.2
    (r1.1 :: r2.1, r2.2)

/-! ## Asynchronous one-in-one-out nodes: scatter and gather -/

/-- One `update` coroutine of scatter/gather: called at time `at`; what it waits
for is available at `ready`; `x` is what it will emit. List order = call order. -/
structure Arr (β : Type) where
  at_ : Nat
  ready : Nat
  x : β

/-- unchanged code: the coroutine emits as soon as its own wait is over -/
def Arr.fin {β : Type} (a : Arr β) : Nat := max a.at_ a.ready

/-- insert before the first strictly later entry scanning from the front
(so that equal keys keep call order) -/
def insBy {γ : Type} (key : γ → Nat) (x : γ) : List γ → List γ
  | [] => [x]
  | y :: ys => if key x ≤ key y then x :: y :: ys else y :: insBy key x ys

/-- stable sort by `key` -/
def sortBy {γ : Type} (key : γ → Nat) : List γ → List γ
  | [] => []
  | x :: xs => insBy key x (sortBy key xs)

/-- Emission sequence of the unchanged asynchronous node: by finishing time. -/
def asyncOut {β : Type} (arrs : List (Arr β)) : List β := (sortBy Arr.fin arrs).map (·.x)

/-- Elements enter the node one at a time: an `update` is only called once the
previous one has finished (the producer awaits each emit, or a `buffer`
precedes the node: buffer.cb awaits `_emit`, core.py 1568-1573). -/
def OneAtATime {β : Type} : List (Arr β) → Prop
  | [] => True
  | [_] => True
  | a :: b :: rest => a.fin ≤ b.at_ ∧ OneAtATime (b :: rest)

instance decOneAtATime {β : Type} : (l : List (Arr β)) → Decidable (OneAtATime l)
  | [] => isTrue trivial
  | [_] => isTrue trivial
  | a :: b :: rest =>
    have := decOneAtATime (b :: rest)
    inferInstanceAs (Decidable (a.fin ≤ b.at_ ∧ OneAtATime (b :: rest)))

/-- Finishing times when the coroutines take a FIFO lock around wait+emit
(`prev` = time the lock was last released). -/
def lockedFins {β : Type} (prev : Nat) : List (Arr β) → List (Nat × β)
  | [] => []
  | a :: rest => let f := max (max a.at_ prev) a.ready; (f, a.x) :: lockedFins f rest

/-- Emission sequence of the locked node. -/
def lockedOut {β : Type} (arrs : List (Arr β)) : List β := (sortBy (·.1) (lockedFins 0 arrs)).map (·.2)

/-- Refs an asynchronous node holds at time `t`: those of the coroutines that have
been called and have not finished (`_retain_refs` first, `_release_refs` last). -/
def asyncHeld {β : Type} (md : β → List Nat) (fins : List (Nat × Nat × β)) (t : Nat) : List Nat :=
  (fins.filter (fun a => a.1 ≤ t ∧ t < a.2.1)).flatMap (fun a => md a.2.2)

/-! ## End to end: producer → scatter → segment → gather → sink -/

/-- pair the k-th element (counting from `i`) with `f k` -/
def tagWith {β : Type} (f : Nat → Nat) : Nat → List β → List (Nat × β)
  | _, [] => []
  | i, x :: xs => (f i, x) :: tagWith f (i + 1) xs

/-- `scatter`: the j-th input reaches `scatter.update` at time `p j`, the cluster
acknowledges the data at `σ j`; the emitted future is finished by then. -/
def scatterArrs {V : Type} (p σ : Nat → Nat) (i : Nat) : List (El V) → List (Arr (El (DVal V)))
  | [] => []
  | x :: xs =>
    { at_ := p i, ready := σ i, x := { v := .fut x.v (max (p i) (σ i)), md := x.md } } ::
      scatterArrs p σ (i + 1) xs

/-- `gather`: the j-th element leaving the segment reaches `gather.update` at `g j`. -/
def gatherArrs {V : Type} (mk : List V → V) (g : Nat → Nat) (i : Nat) :
    List (El (DVal V)) → List (Arr (El V))
  | [] => []
  | x :: xs => { at_ := g i, ready := x.v.ready, x := x.map (DVal.erase mk) } :: gatherArrs mk g (i + 1) xs

/-- The whole Dask-backed pipeline with the unchanged `gather` (`locked = false`)
or the order-preserving one (`locked = true`): the sequence reaching the sink. -/
def daskRun {V : Type} (mk : List V → V) (locked : Bool) (p σ : Nat → Nat) (T : Nat → Nat → Nat)
    (g : Nat → Nat) (ks : List (Kind V)) (xs : List (El V)) : List (El V) :=
  let scattered := asyncOut (scatterArrs p σ 0 xs)
  let outs := (dseg mk T 0 ks scattered).2
  if locked then lockedOut (gatherArrs mk g 0 outs) else asyncOut (gatherArrs mk g 0 outs)

/-- Final node states of the Dask-backed pipeline. -/
def daskStates {V : Type} (mk : List V → V) (p σ : Nat → Nat) (T : Nat → Nat → Nat)
    (ks : List (Kind V)) (xs : List (El V)) : List (DState V) :=
  (dseg mk T 0 ks (asyncOut (scatterArrs p σ 0 xs))).1

/-- Final counter value of ref `r` = number of buffer slots still retaining it. -/
def countRef (r : Nat) (hs : List Nat) : Nat := (hs.filter (· == r)).length

end StreamzVerif.Dask
