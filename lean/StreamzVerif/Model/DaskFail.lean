/-!
# Failing tasks in a Dask-backed segment versus the local segment  (streamz/dask.py, streamz/core.py)

A user function may raise.  Locally (`map.update` core.py 712-719, `accumulate.update` core.py 1005-1026) the
exception aborts the `_emit` of that element at the node whose function raised: that node and every node below it
keep their state, the nodes above have already adopted theirs, and `emit` raises.

On a DaskStream (dask.py 43-92) `map` / `accumulate` only *submit* `f(x)` / `f(state, x)` and pass the future on; an
exception makes that future *errored*, every task that depends on an errored future is errored too, and the error
surfaces when `gather` asks the cluster for the value (dask.py 118-150): `emit` raises there.  `accumulate` stores
the submitted future as its state **whether or not it is errored** (dask.py 86-90).

Values are `Nat`; a possibly failing function returns `Option` (`none` = raises); a future is `Option Nat`
(`none` = errored).  Core Lean only, everything executable.
-/
namespace StreamzVerif.DaskFail

/-- A stage of a linear segment. -/
inductive Stage where
  | map (f : Nat → Option Nat)
  | acc (f : Nat → Nat → Option Nat)      -- accumulate with an explicit start (the state below)

/-- Local segment: every stage with its state (ignored by `map`).  One element pushed through: the new stages and
the outcome of `emit` (`some r`: `r` reached the sink, `none`: raised). -/
def lpush : List (Stage × Nat) → Nat → List (Stage × Nat) × Option Nat
  | [], x => ([], some x)
  | (.map f, s) :: rest, x =>
    match f x with
    | none => ((.map f, s) :: rest, none)
    | some y => let r := lpush rest y; ((.map f, s) :: r.1, r.2)
  | (.acc f, s) :: rest, x =>
    match f s x with
    | none => ((.acc f, s) :: rest, none)                       -- `self.state` is assigned after `func` returned
    | some y => let r := lpush rest y; ((.acc f, y) :: r.1, r.2)

/-- The local segment fed a whole input sequence: outcomes per input, final stages. -/
def lrun : List (Stage × Nat) → List Nat → List (Stage × Nat) × List (Option Nat)
  | st, [] => (st, [])
  | st, x :: xs => let r := lpush st x; let r2 := lrun r.1 xs; (r2.1, r.2 :: r2.2)

/-- Dask segment: the state of `accumulate` is a future.  One element (a future) pushed through; the last
component is what `gather` finds: a value, or an errored future (`emit` raises). -/
def dpush : List (Stage × Option Nat) → Option Nat → List (Stage × Option Nat) × Option Nat
  | [], x => ([], x)
  | (.map f, s) :: rest, x =>
    let r := dpush rest (x.bind f); ((.map f, s) :: r.1, r.2)
  | (.acc f, s) :: rest, x =>
    let y := s.bind (fun sv => x.bind (fun xv => f sv xv))
    let r := dpush rest y; ((.acc f, y) :: r.1, r.2)

def drun : List (Stage × Option Nat) → List Nat → List (Stage × Option Nat) × List (Option Nat)
  | st, [] => (st, [])
  | st, x :: xs => let r := dpush st (some x); let r2 := drun r.1 xs; (r2.1, r.2 :: r2.2)

/-- lift local stages to Dask stages (all states are finished futures) -/
def lift (st : List (Stage × Nat)) : List (Stage × Option Nat) := st.map (fun p => (p.1, some p.2))

/-- a stage whose function never raises -/
def Stage.total : Stage → Prop
  | .map f => ∀ x, (f x).isSome
  | .acc f => ∀ s x, (f s x).isSome

def Stage.isMap : Stage → Bool
  | .map _ => true
  | .acc _ => false

end StreamzVerif.DaskFail
