/-
Model of the windowed aggregations of streamz (`streamz/dataframe/aggregations.py`,
wired by `streamz/dataframe/core.py` `Window.aggregate` 582-598 and
`WindowedGroupBy._accumulate` 899-946).  Core Lean only (the driver imports this file).

A *row* is one line of a pandas frame: its index label (an integer: nanoseconds for a
DatetimeIndex), the value of the aggregated column (`none` = NaN) and the value of the
grouping column / streaming grouper for that row.  A *batch* is the list of rows of one
emitted frame, `dfs` the deque `acc['dfs']` of retained batches.

Numbers: values are rationals (the correspondence run feeds small-integer valued floats, for
which binary64 sums, counts and sums of squares are exact).  `none : Option Rat` as a *result*
is NaN.

The model contains
  * `diffIloc`, `diffLoc`, `diffAlign`                      (aggregations.py 173-277)
  * `Sum Count Size Mean Var ValueCounts` with `on_new`/`on_old`/`initial`   (15-130, 509-521)
  * `GroupbySum/Count/Size/Mean/Var`                         (423-591)
  * `windowAcc`  = `window_accumulator`                      (280-320)
  * `groupbyAcc` = `windowed_groupby_accumulator`            (323-404)
  * `run`        = `Stream.accumulate(..., start=None, returns_state=True)` feeding batches.

`Mean` is modelled as repaired (NaN when `counts == 0`, the true count is stored);
`Mean.opsOrig` is the unrepaired code, which stores the substitute `counts = 1`.  `diffLoc` is
modelled with the decayed rows cut at `mx - T` (repaired); `diffLocOrig` is the unrepaired code
which cuts at `mn = mx - T + 1ns` inclusively.
-/
namespace StreamzVerif.Window

structure Row where
  idx : Int
  val : Option Rat
  key : Int
deriving DecidableEq

abbrev Batch := List Row

/-! ### pandas reductions used by the aggregations (NaN skipped) -/

/-- `Series.sum()` : NaN counts as 0, the empty sum is 0. -/
def sumV : Batch → Rat
  | [] => 0
  | r :: b => r.val.getD 0 + sumV b

/-- `(Series ** 2).sum()`. -/
def sumSq : Batch → Rat
  | [] => 0
  | r :: b => (match r.val with | some v => v * v | none => 0) + sumSq b

/-- `Series.count()` : number of non-NaN entries. -/
def cnt : Batch → Int
  | [] => 0
  | r :: b => (if r.val.isSome then 1 else 0) + cnt b

/-- `Series.size` / `len`. -/
def size (b : Batch) : Int := b.length

/-! ### Scalar aggregations (a streaming Series: one column) -/

/-- An `Aggregation` object: `initial`, `on_new`, `on_old` (both return `(state, result)`). -/
structure Ops (S R : Type) where
  initial : S
  onNew : S → Batch → S × R
  onOld : S → Batch → S × R

/-- aggregations.py 15-33 -/
def Sum.ops : Ops Rat Rat where
  initial := 0
  onNew acc new := if new.length > 0 then (acc + sumV new, acc + sumV new) else (acc, acc)
  onOld acc old := (acc - sumV old, acc - sumV old)

/-- aggregations.py 66-76 -/
def Count.ops : Ops Int Int where
  initial := 0
  onNew acc new := (acc + cnt new, acc + cnt new)
  onOld acc old := (acc - cnt old, acc - cnt old)

/-- aggregations.py 79-89 -/
def Size.ops : Ops Int Int where
  initial := 0
  onNew acc new := (acc + size new, acc + size new)
  onOld acc old := (acc - size old, acc - size old)

/-- `totals / counts` of the repaired `Mean`: NaN when `counts == 0` (like pandas' mean of no values). -/
def meanRes (totals : Rat) (counts : Int) : Option Rat :=
  if counts = 0 then none else some (totals / (counts : Rat))

/-- aggregations.py 36-63, repaired behaviour: under `if isinstance(counts, Number) and counts == 0`
the result is NaN and the stored `counts` stays the true count. -/
def Mean.ops : Ops (Rat × Int) (Option Rat) where
  initial := (0, 0)
  onNew acc new :=
    let (totals, counts) := acc
    let (totals, counts) := if new.length > 0 then (totals + sumV new, counts + cnt new) else (totals, counts)
    ((totals, counts), meanRes totals counts)
  onOld acc old :=
    let (totals, counts) := acc
    let (totals, counts) := if old.length > 0 then (totals - sumV old, counts - cnt old) else (totals, counts)
    ((totals, counts), meanRes totals counts)

/-- aggregations.py 36-63 exactly as in the unrepaired tree: `counts = 1` is assigned to the
variable that is then stored in the state. -/
def Mean.opsOrig : Ops (Rat × Int) (Option Rat) where
  initial := (0, 0)
  onNew acc new :=
    let (totals, counts) := acc
    let (totals, counts) := if new.length > 0 then (totals + sumV new, counts + cnt new) else (totals, counts)
    let counts := if counts = 0 then 1 else counts
    ((totals, counts), some (totals / (counts : Rat)))
  onOld acc old :=
    let (totals, counts) := acc
    let (totals, counts) := if old.length > 0 then (totals - sumV old, counts - cnt old) else (totals, counts)
    let counts := if counts = 0 then 1 else counts
    ((totals, counts), some (totals / (counts : Rat)))

/-- `Var._compute_result` (96-100) and `GroupbyVar._compute_result` (553-557).
`n = 0` gives `0/0 = NaN` (a `ZeroDivisionError` while the state still holds Python ints, i.e.
before the first non-empty batch: no row seen, nothing claimed).  `n - ddof = 0` with
`ddof ∈ {0,1}` means one value, where the numerator is exactly 0 and `0*1/0 = NaN`. -/
def varRes (ddof : Int) (x x2 : Rat) (n : Int) : Option Rat :=
  if n = 0 then none
  else
    let r := x2 / n - (x / n) * (x / n)
    if ddof ≠ 0 then
      if n - ddof = 0 then none else some (r * n / ((n - ddof : Int) : Rat))
    else some r

/-- aggregations.py 92-129 -/
def Var.ops (ddof : Int) : Ops (Rat × Rat × Int) (Option Rat) where
  initial := (0, 0, 0)
  onNew acc new :=
    let (x, x2, n) := acc
    let (x, x2, n) := if new.length > 0 then (x + sumV new, x2 + sumSq new, n + cnt new) else (x, x2, n)
    ((x, x2, n), varRes ddof x x2 n)
  onOld acc old :=
    let (x, x2, n) := acc
    let (x, x2, n) := if old.length > 0 then (x - sumV old, x2 - sumSq old, n - cnt old) else (x, x2, n)
    ((x, x2, n), varRes ddof x x2 n)

/-! ### Finite maps: a pandas Series indexed by group key / by value -/

/-- Association list; looked up by first match (the keys are kept distinct). -/
abbrev FMap (κ V : Type) := List (κ × V)

section FMap
variable {κ V : Type} [DecidableEq κ]

def FMap.find : FMap κ V → κ → Option V
  | [], _ => none
  | (k, v) :: m, x => if k = x then some v else FMap.find m x

/-- `acc.add(d, fill_value=0)` / `acc.sub(d, fill_value=0)` (with `op` = `+` / `-`): the index
of the result is the union of the two indices, a side that lacks the label contributes `zero`. -/
def combine (op : V → V → V) (zero : V) (acc d : FMap κ V) : FMap κ V :=
  acc.map (fun p => (p.1, op p.2 ((FMap.find d p.1).getD zero)))
    ++ (d.filter (fun p => (FMap.find acc p.1).isNone)).map (fun p => (p.1, op zero p.2))

/-- `series[mask]` with a boolean mask computed per label. -/
def keepKeys (q : κ → Bool) (m : FMap κ V) : FMap κ V := m.filter (fun p => q p.1)

/-- Distinct elements, first occurrences last (order is not observable in the comparisons). -/
def dedup : List κ → List κ
  | [] => []
  | a :: l => if a ∈ dedup l then dedup l else a :: dedup l

/-- `df.groupby(kf)[col].agg(f)` : one entry per distinct non-NaN label. -/
def gmap (kf : Row → Option κ) (f : Batch → V) (b : Batch) : FMap κ V :=
  (dedup (b.filterMap kf)).map (fun k => (k, f (b.filter (fun r => kf r = some k))))

end FMap

/-- aggregations.py 509-521: `new.value_counts()` counts each non-NaN value. -/
def ValueCounts.ops : Ops (FMap Rat Int) (FMap Rat Int) where
  initial := []
  onNew acc new :=
    let r := combine (· + ·) 0 acc (gmap (fun r => r.val) size new)
    (r, r)
  onOld acc old :=
    let r := combine (· - ·) 0 acc (gmap (fun r => r.val) size old)
    (r, r)

/-! ### Group-by aggregations -/

/-- A `GroupbyAggregation`; `keep` is `state[nonzero]` (component-wise for tuple states). -/
structure GOps (S R : Type) where
  initial : S
  onNew : S → Batch → S × FMap Int R
  onOld : S → Batch → S × FMap Int R
  keep : (Int → Bool) → S → S

def byKey (r : Row) : Option Int := some r.key

/-- aggregations.py 442-460 -/
def GroupbySum.ops : GOps (FMap Int Rat) Rat where
  initial := []
  onNew acc new := let r := combine (· + ·) 0 acc (gmap byKey sumV new); (r, r)
  onOld acc old := let r := combine (· - ·) 0 acc (gmap byKey sumV old); (r, r)
  keep := keepKeys

/-- aggregations.py 463-483 -/
def GroupbyCount.ops : GOps (FMap Int Int) Int where
  initial := []
  onNew acc new := let r := combine (· + ·) 0 acc (gmap byKey cnt new); (r, r)
  onOld acc old := let r := combine (· - ·) 0 acc (gmap byKey cnt old); (r, r)
  keep := keepKeys

/-- aggregations.py 486-506 -/
def GroupbySize.ops : GOps (FMap Int Int) Int where
  initial := []
  onNew acc new := let r := combine (· + ·) 0 acc (gmap byKey size new); (r, r)
  onOld acc old := let r := combine (· - ·) 0 acc (gmap byKey size old); (r, r)
  keep := keepKeys

/-- `totals / counts` on float Series: `0/0 = NaN` (`counts = 0` forces `totals = 0`). -/
def divOpt (t : Rat) (c : Int) : Option Rat := if c = 0 then none else some (t / c)

/-- Element-wise `totals / counts`, aligned on the label. -/
def gmeanRes (totals : FMap Int Rat) (counts : FMap Int Int) : FMap Int (Option Rat) :=
  totals.map (fun p => (p.1, divOpt p.2 ((FMap.find counts p.1).getD 0)))

/-- aggregations.py 524-549 -/
def GroupbyMean.ops : GOps (FMap Int Rat × FMap Int Int) (Option Rat) where
  initial := ([], [])
  onNew acc new :=
    let totals := combine (· + ·) 0 acc.1 (gmap byKey sumV new)
    let counts := combine (· + ·) 0 acc.2 (gmap byKey cnt new)
    ((totals, counts), gmeanRes totals counts)
  onOld acc old :=
    let totals := combine (· - ·) 0 acc.1 (gmap byKey sumV old)
    let counts := combine (· - ·) 0 acc.2 (gmap byKey cnt old)
    ((totals, counts), gmeanRes totals counts)
  keep q s := (keepKeys q s.1, keepKeys q s.2)

/-- Element-wise `_compute_result(x, x2, n)`, aligned on the label. -/
def gvarRes (ddof : Int) (x x2 : FMap Int Rat) (n : FMap Int Int) : FMap Int (Option Rat) :=
  x.map (fun p => (p.1, varRes ddof p.2 ((FMap.find x2 p.1).getD 0) ((FMap.find n p.1).getD 0)))

/-- aggregations.py 552-591 -/
def GroupbyVar.ops (ddof : Int) : GOps (FMap Int Rat × FMap Int Rat × FMap Int Int) (Option Rat) where
  initial := ([], [], [])
  onNew acc new :=
    let (x, x2, n) := acc
    let (x, x2, n) :=
      if new.length > 0 then
        (combine (· + ·) 0 x (gmap byKey sumV new), combine (· + ·) 0 x2 (gmap byKey sumSq new),
          combine (· + ·) 0 n (gmap byKey cnt new))
      else (x, x2, n)
    ((x, x2, n), gvarRes ddof x x2 n)
  onOld acc old :=
    let (x, x2, n) := acc
    let (x, x2, n) :=
      if old.length > 0 then
        (combine (· - ·) 0 x (gmap byKey sumV old), combine (· - ·) 0 x2 (gmap byKey sumSq old),
          combine (· - ·) 0 n (gmap byKey cnt old))
      else (x, x2, n)
    ((x, x2, n), gvarRes ddof x x2 n)
  keep q s := (keepKeys q s.1, keepKeys q s.2.1, keepKeys q s.2.2)

/-! ### diff_iloc (aggregations.py 173-207) -/

/-- `sum(map(len, dfs))` -/
def total {α : Type} (dfs : List (List α)) : Nat := (dfs.map List.length).foldr (· + ·) 0

/-- The `while n > 0` loop: pop whole batches while they fit into `n`, then split the front
batch.  Returns `(dfs, old)`.  (`[]` with `n > 0` would be an `IndexError`; unreachable since
`n ≤ total`.) -/
def trimFront {α : Type} : Nat → List (List α) → List (List α) × List (List α)
  | 0, dfs => (dfs, [])
  | _ + 1, [] => ([], [])
  | n + 1, b :: rest =>
    if b.length ≤ n + 1 then
      let r := trimFront (n + 1 - b.length) rest
      (r.1, b :: r.2)
    else ((b.drop (n + 1)) :: rest, [b.take (n + 1)])

def pushNew {α : Type} (dfs : List (List α)) (new : List α) : List (List α) :=
  if new.length > 0 then dfs ++ [new] else dfs

def diffIloc (dfs : List Batch) (new : Batch) (N : Nat) : List Batch × List Batch :=
  let dfs := pushNew dfs new
  if dfs.length > 0 then trimFront (total dfs - N) dfs else (dfs, [])

/-! ### diff_loc (aggregations.py 210-245) -/

/-- `index.max()` (`none` for an empty frame). -/
def maxIdx : Batch → Option Int
  | [] => none
  | r :: b => match maxIdx b with
    | none => some r.idx
    | some m => some (if r.idx < m then m else r.idx)

/-- `index.min()` -/
def minIdx : Batch → Option Int
  | [] => none
  | r :: b => match minIdx b with
    | none => some r.idx
    | some m => some (if m < r.idx then m else r.idx)

/-- `frame.loc[:c]` on a sorted index: the leading rows with label `≤ c`. -/
def locUpTo (c : Int) (b : Batch) : Batch := b.takeWhile (fun r => r.idx ≤ c)

/-- The `while pd.Timestamp(dfs[0].index.min()) < mn` loop; `cut` is the label of the `.loc[:cut]`
slice.  `fuel` bounds the number of iterations (each one removes at least one row on sorted
data; the callers pass `total dfs + 1`). -/
def locLoop (mn cut : Int) : Nat → List Batch → List Batch × List Batch
  | 0, dfs => (dfs, [])
  | _ + 1, [] => ([], [])
  | f + 1, b :: rest =>
    match minIdx b with
    | none => (b :: rest, [])
    | some m =>
      if m < mn then
        let o := locUpTo cut b
        let r := b.drop o.length
        let res := if r.length = 0 then locLoop mn cut f rest else locLoop mn cut f (r :: rest)
        (res.1, o :: res.2)
      else (b :: rest, [])

/-- `diff_loc` with `o = dfs[0].loc[:mn - slack]`; `T` is the window in index units (ns). -/
def diffLocWith (slack : Int) (dfs : List Batch) (new : Batch) (T : Int) : List Batch × List Batch :=
  let dfs := pushNew dfs new
  match maxIdx dfs.flatten with            -- `if len(dfs) > 0: mx = max(df.index.max() for df in dfs)`
  | none => (dfs, [])
  | some mx =>
    let mn := mx - T + 1
    locLoop mn (mn - slack) (total dfs + 1) dfs

/-- Repaired `diff_loc`: decayed rows are those with label `≤ mx - T` (i.e. `< mn`). -/
def diffLoc := diffLocWith 1
/-- `diff_loc` of the unrepaired tree: `o = dfs[0].loc[:mn]`, label-inclusive. -/
def diffLocOrig := diffLocWith 0

/-- Which window: `window(n=N)`, `window(value=T)`, and the unrepaired `value` window. -/
inductive Diff
  | iloc (N : Nat)
  | loc (T : Int)
  | locOrig (T : Int)

def Diff.apply : Diff → List Batch → Batch → List Batch × List Batch
  | .iloc N, dfs, new => diffIloc dfs new N
  | .loc T, dfs, new => diffLoc dfs new T
  | .locOrig T, dfs, new => diffLocOrig dfs new T

/-! ### window_accumulator (aggregations.py 280-320) -/

structure Acc (S : Type) where
  dfs : List Batch
  state : S

def windowAcc {S R : Type} (d : Diff) (ops : Ops S R) (acc : Option (Acc S)) (new : Batch) : Acc S × R :=
  let acc := acc.getD { dfs := [], state := ops.initial }      -- `if acc is None`
  let (dfs, old) := d.apply acc.dfs new
  let sr := ops.onNew acc.state new
  let sr := old.foldl (fun sr o => if o.length > 0 then ops.onOld sr.1 o else sr) sr
  ({ dfs := dfs, state := sr.1 }, sr.2)

/-! ### diff_align (aggregations.py 255-277) -/

/-- `while len(dfs) < len(groupers): old.append(groupers.popleft())` -/
def popExtra {β : Type} (nd : Nat) : List (List β) → List (List β) × List (List β)
  | [] => ([], [])
  | g :: gs =>
    if nd < (g :: gs).length then
      let r := popExtra nd gs
      (g :: r.1, r.2)
    else ([], g :: gs)

/-- `diff_align(dfs, groupers)`, given the lengths of the retained frames.  `none` = one of the
two `assert`s fires (or the front slice would need a negative length). -/
def diffAlign {β : Type} (dfsLens : List Nat) (groupers : List (List β)) : Option (List (List β) × List (List β)) :=
  let (old, groupers) := popExtra dfsLens.length groupers
  let (old, groupers) :=
    match dfsLens, groupers with
    | l :: _, g :: gs =>
      let n := g.length - l
      if n ≠ 0 then (old ++ [g.take n], (g.drop n) :: gs) else (old, g :: gs)
    | _, gs => (old, gs)
  if groupers.map List.length = dfsLens then some (old, groupers) else none

/-! ### windowed_groupby_accumulator (aggregations.py 323-404) -/

structure GAcc (S : Type) where
  dfs : List Batch
  state : S
  sizeState : FMap Int Int
  groupers : Option (List (List Int))       -- present iff the grouper is a streaming Series

/-- `df.groupby(grouper)` with an explicit grouper Series: the rows of `df` labelled by the
entries of `grouper` (position-wise; both have the same index). -/
def regroup (b : Batch) (g : List Int) : Batch := List.zipWith (fun r k => { r with key := k }) b g

/-- The grouper side of one step: `groupers.append(grouper)`, `diff_align`, and the
`assert len(o) == len(og)` of the loop; returns the decayed pieces as the aggregation sees them
(`grouped(o, grouper=og)`) and the new grouper history.  With a column-name grouper
(`acc` has no `'groupers'`) the pieces are grouped by their own column.  `none` = an assertion fired. -/
def alignGroupers (groupers : Option (List (List Int))) (grouper : List Int) (dfs old : List Batch) :
    Option (List Batch × Option (List (List Int))) :=
  match groupers with
  | some gs =>
    let gs := if grouper.length > 0 then gs ++ [grouper] else gs
    match diffAlign (dfs.map List.length) gs with
    | none => none
    | some (oldG, gs') =>
      -- `assert len(o) == len(og)` inside `for o, og in zip(old, old_groupers)`; a differing number
      -- of pieces (which `zip` would silently truncate) is reported as a failure as well
      if old.map List.length = oldG.map List.length
      then some (List.zipWith regroup old oldG, some gs') else none
  | none => some (old, none)

/-- Lines 392-399: drop the keys whose size reached 0 from size-state, result and state. -/
def dropVanished {S R : Type} (ops : GOps S R) (state : S) (result : FMap Int R) (sizeState : FMap Int Int) :
    S × FMap Int R × FMap Int Int :=
  let nonzero : Int → Bool := fun k => (FMap.find sizeState k).getD 0 != 0
  if sizeState.all (fun p => nonzero p.1) then (state, result, sizeState)
  else (ops.keep nonzero state, keepKeys nonzero result, keepKeys nonzero sizeState)

/-- One step.  `streamGrouper = true`: the element is the tuple `(new, grouper)` produced by
`zip`, `grouper = new.map key`; the history of groupers is kept in `acc['groupers']` and the
decayed groupers are recovered with `diff_align`.  `none` = an assertion fired. -/
def groupbyAcc {S R : Type} (d : Diff) (ops : GOps S R) (streamGrouper : Bool)
    (acc : Option (GAcc S)) (new : Batch) : Option (GAcc S × FMap Int R) :=
  let grouper := new.map (·.key)
  let acc := acc.getD { dfs := [], state := ops.initial, sizeState := GroupbySize.ops.initial,
                        groupers := if streamGrouper then some [] else none }
  let dfsOld := d.apply acc.dfs new
  match alignGroupers acc.groupers grouper dfsOld.1 dfsOld.2 with
  | none => none
  | some (old, gs') =>
    let new' := if streamGrouper then regroup new grouper else new     -- `grouped(new, grouper=grouper)`
    let sr := ops.onNew acc.state new'
    let zr := GroupbySize.ops.onNew acc.sizeState new'
    let srz := old.foldl (fun (srz : (S × FMap Int R) × (FMap Int Int × FMap Int Int)) o =>
        if o.length > 0 then (ops.onOld srz.1.1 o, GroupbySize.ops.onOld srz.2.1 o) else srz) (sr, zr)
    let fin := dropVanished ops srz.1.1 srz.1.2 srz.2.1
    some ({ dfs := dfsOld.1, state := fin.1, sizeState := fin.2.2, groupers := gs' }, fin.2.1)

/-! ### Feeding batches: `accumulate(start=None, returns_state=True)` -/

/-- Emitted results, one per batch, and the final accumulator. -/
def run {A R : Type} (step : Option A → Batch → A × R) : Option A → List Batch → Option A × List R
  | acc, [] => (acc, [])
  | acc, b :: bs =>
    let ar := step acc b
    let rest := run step (some ar.1) bs
    (rest.1, ar.2 :: rest.2)

/-- The same for a step that may fail (assertion): stops at the first failure. -/
def runOpt {A R : Type} (step : Option A → Batch → Option (A × R)) : Option A → List Batch → Option (Option A × List R)
  | acc, [] => some (acc, [])
  | acc, b :: bs =>
    match step acc b with
    | none => none
    | some ar =>
      match runOpt step (some ar.1) bs with
      | none => none
      | some rest => some (rest.1, ar.2 :: rest.2)

end StreamzVerif.Window
