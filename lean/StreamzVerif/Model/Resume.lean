/-!
# Checkpoint / resume of an aggregation (property C12) — the generic model

Python mirrored here:

* `streamz/core.py:994-1026` `accumulate(func, start=s, returns_state=True, with_state=w)`:
  ```
  self.state = start
  def update(x):  state, result = self.func(self.state, x, **kwargs)
                  self.state = state
                  emit((self.state, result)) if self.with_state else emit(result)
  ```
  => `run` (what is emitted without `with_state`, and the node's final `state`) and `runWS`
  (the `(state, result)` tuples emitted with `with_state=True`).
* `streamz/collection.py:188-212` `accumulate_partitions` passes `start`, `returns_state`, `with_state`
  through unchanged; `streamz/dataframe/core.py` `Rolling/Window/Expanding/EWM/WindowedGroupBy`
  take `with_state=` and `start=` from the user and hand them to it; `Frame.aggregate(agg, start=)`
  and `GroupBy._accumulate(Agg, with_state=, start=)` likewise.
* a *resumed* pipeline is a NEW `accumulate` node built with `start=` the state object that the
  first node emitted for batch `k`, fed the batches after `k`      => `resumeAt`, `chain`, `chainWS`.

The model is parametric in the accumulation function `step : σ → β → σ × ρ` (the binary operator
given to `accumulate`: `aggregations.accumulator`, `groupby_accumulator`, `window_accumulator`,
`windowed_groupby_accumulator`, `rolling_accumulator`), in the state type `σ`, the batch type `β`
and the result type `ρ`.  `stepOpt` variants cover accumulators that can fail (assertions).

The one modelling decision that carries all the weight: `step` is a *pure function of the emitted
state and the batch*.  Hidden mutable state on the aggregation object, an emitted container that
is later mutated in place, or an emitted state that lacks something the next step reads are
exactly the ways the Python code could fail to be such a function; they are what the
correspondence run (`harness/props/c12.py`) exercises on the real code.
Core Lean only.
-/
namespace StreamzVerif.Resume

variable {σ β ρ : Type}

/-- `accumulate(step, start=s, returns_state=True)` fed the batches: the node's final `state`
and what it emitted, one result per batch. -/
def run (step : σ → β → σ × ρ) : σ → List β → σ × List ρ
  | s, [] => (s, [])
  | s, b :: bs =>
    let r := step s b
    let rest := run step r.1 bs
    (rest.1, r.2 :: rest.2)

/-- The same node with `with_state=True`: it emits the tuple `(state, result)` for every batch,
where `state` is the state AFTER the batch. -/
def runWS (step : σ → β → σ × ρ) : σ → List β → List (σ × ρ)
  | _, [] => []
  | s, b :: bs =>
    let r := step s b
    r :: runWS step r.1 bs

/-- The state a node started at `s` holds after the batches `bs` (`accumulate.state`). -/
def stateAfter (step : σ → β → σ × ρ) (s : σ) (bs : List β) : σ := (run step s bs).1

/-- Cut after `k` batches: a fresh node started with the state reached after the first `k`
batches is fed the remaining ones.  Returns its final state and its emissions. -/
def resumeAt (step : σ → β → σ × ρ) (s : σ) (bs : List β) (k : Nat) : σ × List ρ :=
  run step (stateAfter step s (bs.take k)) (bs.drop k)

/-- The state to restart from after a node started at `s` has emitted `l`: the state component of
the LAST tuple it emitted; `s` itself when it emitted nothing. -/
def lastState (s : σ) (l : List (σ × ρ)) : σ := (l.getLast?.map (·.1)).getD s

/-- Several cuts: the batches come in segments; each segment is processed by a fresh node started
with the final state of the node that processed the previous segment. -/
def chain (step : σ → β → σ × ρ) : σ → List (List β) → σ × List ρ
  | s, [] => (s, [])
  | s, seg :: segs =>
    let r := run step s seg
    let rest := chain step r.1 segs
    (rest.1, r.2 ++ rest.2)

/-- Several cuts with `with_state=True`: every fresh node is started with the state component of the
last tuple the previous node EMITTED (no access to the node's attribute). -/
def chainWS (step : σ → β → σ × ρ) : σ → List (List β) → List (σ × ρ)
  | _, [] => []
  | s, seg :: segs =>
    let out := runWS step s seg
    out ++ chainWS step (lastState s out) segs

/-! ### accumulators that can fail -/

/-- As `run` for a step that may fail (an `assert` inside the accumulator): everything stops at the
first failure. -/
def runOpt (step : σ → β → Option (σ × ρ)) : σ → List β → Option (σ × List ρ)
  | s, [] => some (s, [])
  | s, b :: bs =>
    match step s b with
    | none => none
    | some r =>
      match runOpt step r.1 bs with
      | none => none
      | some rest => some (rest.1, r.2 :: rest.2)

/-! ### what an accumulation with state OUTSIDE the emitted state looks like

`hstep` reads and writes a hidden component `η` (an attribute on the aggregation object) next to
the exposed state `σ`.  The first pipeline threads both; a resumed pipeline receives only the
exposed part and a fresh hidden part `h0`. -/

/-- The uninterrupted pipeline with hidden state: emissions only. -/
def runHidden {η : Type} (hstep : η × σ → β → (η × σ) × ρ) (h : η) (s : σ) (bs : List β) : List ρ :=
  (run hstep (h, s) bs).2

/-- Resuming it from the exposed state alone after `k` batches, hidden part reset to `h0`. -/
def resumeHidden {η : Type} (hstep : η × σ → β → (η × σ) × ρ) (h0 : η) (s : σ) (bs : List β) (k : Nat) :
    List ρ :=
  (run hstep (h0, (stateAfter hstep (h0, s) (bs.take k)).2) (bs.drop k)).2

end StreamzVerif.Resume
