/-!
# Event-loop models of the time-window nodes: `timed_window`, `timed_window_unique`, `partition(n, timeout=T, key=...)`

streamz/core.py: `partition` (class at 1081, `_flush` 1142-1147, `update` 1149-1169), `timed_window`
(1334-1370: `update` 1354-1358, `cb` 1361-1370), `timed_window_unique` (1374-1494: `update` 1463-1481,
`cb` 1484-1494); `Stream._emit` 429-462, `RefCounter` 68-112; streamz/sinks.py `sink.update` 68-83.

Context: `producer(s) -> N -> downstream`.  Each model is a deterministic labelled transition system at
*settled granularity*: one action = one thing the environment does (a producer calls `emit`, the clock
moves, a due timer fires, the awaitable handed back by the downstream completes) followed by everything the
loop runs at that virtual instant until it is idle again.

* Time is counted in ticks (`Nat`); the correspondence harness uses ticks of 1/4 s.
* `gen.sleep(d)` / `loop.call_later(d, f)` at instant `now` = a timer due at `now + d`.  Time may not pass a
  due timer (`advance t` is enabled only if `t ≤ due` for every armed timer): "timers fire when due".  Which of
  several due timers fires first is NOT fixed by the model (`fire` names the handle).
* The downstream is either synchronous (`syncDown = true`: `_emit` returns `[]`, `yield []` continues at once,
  the sink takes no reference) or returns ONE awaitable per emission which completes at the action `downDone`
  (a `sink` whose consumer returns an awaitable: it retains the metadata until that awaitable is done).
* Reference counting is modelled operation by operation (`RC.retain` / `RC.release`, the callback of a counter
  is recorded in `fired` whenever a release leaves its count `≤ 0`), in the order the code performs them.
* Elements carry two ghost fields (not visible to the code): the instant they arrived and the total time the
  node had spent blocked on its downstream up to then; they only serve to state the deadline theorems.
-/
namespace StreamzVerif.AsyncWindows

/-! ## Reference counters (`RefCounter`, core.py 68-112) -/

/-- Counter id ↦ count.  Every counter starts at 0 (`RefCounter(initial=0)`). -/
abbrev Counts := Nat → Int

structure RC where
  cnt : Counts
  /-- callbacks scheduled so far (`loop.add_callback(self.cb)`), in order -/
  fired : List Nat

def RC.init : RC := { cnt := fun _ => 0, fired := [] }

/-- `RefCounter.retain`: `self.count += 1`. -/
def RC.retain1 (s : RC) (r : Nat) : RC :=
  { s with cnt := fun q => if q = r then s.cnt q + 1 else s.cnt q }

/-- `RefCounter.release`: `self.count -= 1; if self.count <= 0 and self.cb: self.loop.add_callback(self.cb)`. -/
def RC.release1 (s : RC) (r : Nat) : RC :=
  let c : Counts := fun q => if q = r then s.cnt q - 1 else s.cnt q
  { cnt := c, fired := if c r ≤ 0 then s.fired ++ [r] else s.fired }

/-- `Stream._retain_refs(metadata)`: `for m in metadata: m['ref'].retain(1)`. -/
def RC.retain (s : RC) : List Nat → RC
  | [] => s
  | r :: m => (s.retain1 r).retain m

/-- `Stream._release_refs(metadata)`. -/
def RC.release (s : RC) : List Nat → RC
  | [] => s
  | r :: m => (s.release1 r).release m

/-! ## Elements -/

structure Elem (α : Type) where
  val : α
  /-- the counters of the element's metadata entries, in order -/
  md : List Nat
  /-- ghost: arrival instant -/
  at_ : Nat
  /-- ghost: time the node had been blocked by its downstream when the element arrived -/
  blk : Nat
deriving Repr, DecidableEq

/-- Flattened metadata of a batch (`m = [m for ml in metadata for m in ml]`). -/
def mds {α : Type} (l : List (Elem α)) : List Nat := l.flatMap (·.md)

/-! ## timed_window / timed_window_unique -/

/-- `plain` = `timed_window`; `first` / `last` = `timed_window_unique(keep=...)`. -/
inductive Mode
  | plain | first | last
deriving Repr, DecidableEq

structure Cfg (α κ : Type) where
  interval : Nat
  mode : Mode
  key : α → κ
  syncDown : Bool

/-- Position of the `cb` coroutine. -/
inductive Cb
  /-- `loop.add_callback(self.cb)` is queued, `cb` has not run yet (construction instant) -/
  | idle
  /-- blocked in `yield self.last` -/
  | emitting
  /-- blocked in `yield gen.sleep(self.interval)` until the given instant -/
  | sleeping (due : Nat)
deriving Repr, DecidableEq

/-- One emission. -/
structure Out (α : Type) where
  at_ : Nat
  /-- ghost: blocked time accumulated when the batch was emitted -/
  blk : Nat
  batch : List (Elem α)
  /-- ghost: everything that arrived since the previous emission, in arrival order -/
  win : List (Elem α)
deriving Repr

structure TW (α : Type) where
  now : Nat
  /-- `_buffer` (+ `metadata_buffer`); for the unique variant the insertion-ordered dict as a key-unique list -/
  buf : List (Elem α)
  /-- ghost: arrivals since the last swap -/
  win : List (Elem α)
  cb : Cb
  /-- metadata `m` of the batch whose downstream awaitable `self.last` is pending -/
  pend : List Nat
  outs : List (Out α)
  ins : List (Elem α)
  rc : RC
  /-- ghost: total time spent in `emitting` -/
  blocked : Nat
  /-- per arrival: how many emissions had been started when `update` returned `self.last`
  (0 = `gen.moment`; `j+1` = the shared future of emission `j`) -/
  waits : List Nat

inductive Act (α : Type) where
  /-- a producer's `emit(x, metadata=md)` reaches `N.update` at the current instant -/
  | arrive (x : α) (md : List Nat)
  /-- the loop runs `cb` for the first time -/
  | start
  /-- the `gen.sleep` timer fires (must be due) -/
  | tick
  /-- the downstream awaitable of the emission in flight completes -/
  | downDone
  /-- the loop is idle and the clock moves to `t` -/
  | advance (t : Nat)
deriving Repr

def TW.init (α : Type) (c0 : Nat) : TW α :=
  { now := c0, buf := [], win := [], cb := .idle, pend := [], outs := [], ins := [], rc := RC.init,
    blocked := 0, waits := [] }

variable {α κ : Type} [DecidableEq κ]

/-- `update` of the three variants on the buffer: new buffer and the metadata released at once.
* `timed_window.update` 1354-1358: `self._buffer.append(x)`.
* `timed_window_unique.update` 1463-1481, keep == "first": `if y not in self._buffer: store else: self._release_refs(metadata)`.
* keep == "last": `self._buffer.pop(y, None); replaced = self._metadata_buffer.pop(y, None); if replaced:
  self._release_refs(replaced); self._buffer[y] = x` (re-inserted at the end of the dict). -/
def insert (cfg : Cfg α κ) (buf : List (Elem α)) (e : Elem α) : List (Elem α) × List Nat :=
  match cfg.mode with
  | .plain => (buf ++ [e], [])
  | .first =>
    if buf.any (fun b => decide (cfg.key b.val = cfg.key e.val)) then (buf, e.md) else (buf ++ [e], [])
  | .last =>
    (buf.filter (fun b => !decide (cfg.key b.val = cfg.key e.val)) ++ [e],
     mds (buf.filter (fun b => decide (cfg.key b.val = cfg.key e.val))))

/-- One loop iteration of `cb` (1361-1370 / 1484-1494) up to the point where it blocks:
```
L, self._buffer = self._buffer, []
m = [m for ml in metadata for m in ml]
self.last = gen.convert_yielded(self._emit(L, m))     # _emit: retain(m) ; downstream.update ; release(m)
yield self.last                                       # sink.update retains m iff its consumer returned an awaitable
self._release_refs(m)
yield gen.sleep(self.interval)
``` -/
def emitBatch (cfg : Cfg α κ) (s : TW α) : TW α :=
  let m := mds s.buf
  let o : Out α := { at_ := s.now, blk := s.blocked, batch := s.buf, win := s.win }
  if cfg.syncDown then
    { s with buf := [], win := [], outs := s.outs ++ [o], pend := [],
             rc := ((s.rc.retain m).release m).release m,
             cb := .sleeping (s.now + cfg.interval) }
  else
    { s with buf := [], win := [], outs := s.outs ++ [o], pend := m,
             rc := ((s.rc.retain m).retain m).release m,
             cb := .emitting }

def step (cfg : Cfg α κ) (s : TW α) : Act α → Option (TW α)
  | .arrive x md =>
    let e : Elem α := { val := x, md := md, at_ := s.now, blk := s.blocked }
    let r := insert cfg s.buf e
    -- producer `_emit`: retain(md); `N.update`: retain(md), release(dropped); producer `_emit`: release(md)
    some { s with buf := r.1, win := s.win ++ [e], ins := s.ins ++ [e],
                  rc := (((s.rc.retain md).retain md).release r.2).release md,
                  waits := s.waits ++ [s.outs.length] }
  | .start =>
    match s.cb with
    | .idle => some (emitBatch cfg s)
    | _ => none
  | .tick =>
    match s.cb with
    | .sleeping due => if due ≤ s.now then some (emitBatch cfg s) else none
    | _ => none
  | .downDone =>
    match s.cb with
    | .emitting =>
      -- the sink's done-callback releases, then `cb` resumes: `self._release_refs(m)`, `gen.sleep(interval)`
      some { s with rc := (s.rc.release s.pend).release s.pend, pend := [],
                    cb := .sleeping (s.now + cfg.interval) }
    | _ => none
  | .advance t =>
    if s.now ≤ t then
      match s.cb with
      | .idle => none
      | .emitting => some { s with now := t, blocked := s.blocked + (t - s.now) }
      | .sleeping due => if t ≤ due then some { s with now := t } else none
    else none

def run (cfg : Cfg α κ) (s : TW α) : List (Act α) → Option (TW α)
  | [] => some s
  | a :: as =>
    match step cfg s a with
    | some s' => run cfg s' as
    | none => none

/-- Is the awaitable handed to the `k`-th arrival still pending?  It is the shared future of the emission
that was the latest one when the element arrived. -/
def TW.emitPending (s : TW α) (w : Nat) : Bool :=
  decide (s.cb = .emitting) && decide (w = s.outs.length)

/-- The harness op `advance dt` (settled granularity): every due tick fires, in due order, then the clock
stops at `target`.  `fuel` bounds the number of ticks (a zero interval with a synchronous downstream ticks
for ever at one instant). -/
def advanceTo (cfg : Cfg α κ) : Nat → TW α → Nat → Option (TW α)
  | 0, _, _ => none
  | fuel + 1, s, target =>
    match s.cb with
    | .sleeping due =>
      if due ≤ target then
        match step cfg s (.advance due) with
        | some s1 =>
          match step cfg s1 .tick with
          | some s2 => advanceTo cfg fuel s2 target
          | none => none
        | none => none
      else step cfg s (.advance target)
    | _ => step cfg s (.advance target)

/-! ## partition(n, timeout=T, key=...) -/

structure PCfg (α κ : Type) where
  n : Nat
  timeout : Nat
  key : α → κ
  syncDown : Bool

/-- A `loop.call_later(self._timeout, self._flush, key)` handle that has neither fired nor been cancelled. -/
structure Timer (κ : Type) where
  id : Nat
  key : κ
  due : Nat
deriving Repr

structure POut (α κ : Type) where
  at_ : Nat
  key : κ
  batch : List (Elem α)
  /-- emitted by the timeout callback (`true`) or by the size test in `update` (`false`) -/
  byTimer : Bool
deriving Repr

structure PT (α κ : Type) where
  now : Nat
  /-- all buffered elements in arrival order; `self._buffer[k]` is `part cfg k buf` (the elements with key `k`) -/
  buf : List (Elem α)
  /-- the loop's live timers of this node, in arming order -/
  timers : List (Timer κ)
  /-- `self._callbacks`: the handle most recently armed for the key -/
  callbacks : κ → Option Nat
  nextId : Nat
  /-- `_flush` coroutines blocked in `yield self._emit(...)`: (index of the emission, its metadata) -/
  flights : List (Nat × List Nat)
  outs : List (POut α κ)
  ins : List (Elem α)
  rc : RC
  /-- per arrival: `none` = `update`'s future was done on return, `some j` = it waits for the flush of emission `j` -/
  waits : List (Option Nat)

inductive PAct (α : Type) where
  | arrive (x : α) (md : List Nat)
  /-- the timer with this handle id fires (must be due) -/
  | fire (id : Nat)
  /-- the downstream awaitable of emission `j` completes -/
  | downDone (j : Nat)
  | advance (t : Nat)
deriving Repr

def PT.init (α κ : Type) (c0 : Nat) : PT α κ :=
  { now := c0, buf := [], timers := [], callbacks := fun _ => none, nextId := 0, flights := [], outs := [],
    ins := [], rc := RC.init, waits := [] }

/-- `self._buffer[k]`. -/
def part (cfg : PCfg α κ) (k : κ) (buf : List (Elem α)) : List (Elem α) :=
  buf.filter (fun e => decide (cfg.key e.val = k))

/-- The buffer with `self._buffer[k] = []`. -/
def unpart (cfg : PCfg α κ) (k : κ) (buf : List (Elem α)) : List (Elem α) :=
  buf.filter (fun e => !decide (cfg.key e.val = k))

/-- `_flush(key)` 1142-1147 up to the point where it blocks:
```
result, self._buffer[key] = self._buffer[key], []
yield self._emit(tuple(result), list(metadata_result))
self._release_refs(metadata_result)
``` -/
def flush (cfg : PCfg α κ) (s : PT α κ) (k : κ) (byTimer : Bool) : PT α κ :=
  let batch := part cfg k s.buf
  let m := mds batch
  let o : POut α κ := { at_ := s.now, key := k, batch := batch, byTimer := byTimer }
  if cfg.syncDown then
    { s with buf := unpart cfg k s.buf, outs := s.outs ++ [o],
             rc := ((s.rc.retain m).release m).release m }
  else
    { s with buf := unpart cfg k s.buf, outs := s.outs ++ [o],
             rc := ((s.rc.retain m).retain m).release m,
             flights := s.flights ++ [(s.outs.length, m)] }

/-- `handle.cancel()` for the handle stored in `self._callbacks[key]` (a fired handle: no effect). -/
def cancel (s : PT α κ) (k : κ) : PT α κ :=
  match s.callbacks k with
  | some h => { s with timers := s.timers.filter (fun tm => !decide (tm.id = h)) }
  | none => s

/-- `update` 1149-1169 (a `gen.coroutine`, runs synchronously inside the producer's `_emit`):
```
self._retain_refs(metadata); buffer.append(x)
if len(buffer) == self.n:
    if self._timeout is not None and self.n > 1: self._callbacks[key].cancel()
    yield self._flush(key); return
if len(buffer) == 1 and self._timeout is not None:
    self._callbacks[key] = self.loop.call_later(self._timeout, self._flush, key)
``` -/
def updateBody (cfg : PCfg α κ) (s : PT α κ) (x : α) (md : List Nat) : PT α κ :=
  let k := cfg.key x
  let e : Elem α := { val := x, md := md, at_ := s.now, blk := 0 }
  let s1 : PT α κ := { s with buf := s.buf ++ [e], ins := s.ins ++ [e], rc := s.rc.retain md }
  if (part cfg k s1.buf).length = cfg.n then
    let s1' := if cfg.n > 1 then cancel s1 k else s1
    { flush cfg s1' k false with waits := s.waits ++ [if cfg.syncDown then none else some s.outs.length] }
  else if (part cfg k s1.buf).length = 1 then
    { s1 with timers := s1.timers ++ [{ id := s.nextId, key := k, due := s.now + cfg.timeout }],
              callbacks := fun k' => if k' = k then some s.nextId else s.callbacks k',
              nextId := s.nextId + 1, waits := s.waits ++ [none] }
  else { s1 with waits := s.waits ++ [none] }

def pstep (cfg : PCfg α κ) (s : PT α κ) : PAct α → Option (PT α κ)
  | .arrive x md =>
    -- producer `_emit`: retain(md); `N.update`; producer `_emit`: release(md)
    let s2 := updateBody cfg { s with rc := s.rc.retain md } x md
    some { s2 with rc := s2.rc.release md }
  | .fire id =>
    match s.timers.find? (fun tm => decide (tm.id = id)) with
    | some tm =>
      if tm.due ≤ s.now then
        some (flush cfg { s with timers := s.timers.filter (fun t' => !decide (t'.id = id)) } tm.key true)
      else none
    | none => none
  | .downDone j =>
    match s.flights.find? (fun f => decide (f.1 = j)) with
    | some f =>
      some { s with flights := s.flights.filter (fun f' => !decide (f'.1 = j)),
                    rc := (s.rc.release f.2).release f.2 }
    | none => none
  | .advance t =>
    if s.now ≤ t ∧ s.timers.all (fun tm => decide (t ≤ tm.due)) = true then some { s with now := t } else none

def prun (cfg : PCfg α κ) (s : PT α κ) : List (PAct α) → Option (PT α κ)
  | [] => some s
  | a :: as =>
    match pstep cfg s a with
    | some s' => prun cfg s' as
    | none => none

/-- Is the future returned by `update` for an arrival still pending? -/
def PT.emitPending (s : PT α κ) : Option Nat → Bool
  | none => false
  | some j => s.flights.any (fun f => decide (f.1 = j))

/-- Smallest due instant among the live timers. -/
def minDue (l : List (Timer κ)) : Option Nat :=
  l.foldl (fun best tm =>
    match best with
    | none => some tm.due
    | some b => some (min b tm.due)) none

/-- The timer the loop runs next.  Timers due at the same instant are run in the order of the loop's heap, which
is not an order the node controls (asyncio compares handles by due time only): `pref` = the key the real loop
was seen to serve next (a hint taken from the observation; without it: the earliest armed). -/
def nextTimer (pref : Option κ) (l : List (Timer κ)) : Option (Timer κ) :=
  match minDue l with
  | none => none
  | some d =>
    let cands := l.filter (fun tm => decide (tm.due = d))
    match pref with
    | some k =>
      match cands.find? (fun tm => decide (tm.key = k)) with
      | some tm => some tm
      | none => cands.head?
    | none => cands.head?

/-- The harness op `advance dt`: due timers fire in due order (ties: see `nextTimer`; `prefs` = keys in the
order the real loop served them), then the clock stops at `target`. -/
def padvanceTo (cfg : PCfg α κ) : Nat → PT α κ → Nat → List κ → Option (PT α κ)
  | 0, _, _, _ => none
  | fuel + 1, s, target, prefs =>
    match nextTimer prefs.head? s.timers with
    | some tm =>
      if tm.due ≤ target then
        match pstep cfg s (.advance (max s.now tm.due)) with
        | some s1 =>
          match pstep cfg s1 (.fire tm.id) with
          | some s2 => padvanceTo cfg fuel s2 target (if prefs.head? = some tm.key then prefs.tail else prefs)
          | none => none
        | none => none
      else pstep cfg s (.advance target)
    | none => pstep cfg s (.advance target)

end StreamzVerif.AsyncWindows
